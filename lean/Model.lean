import Model.Browser
