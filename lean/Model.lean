import Model.Browser
import Model.Diag
