import Model.Browser
import Model.Diag
import Model.Slice
