import Model.Browser
import Model.Diag
import Model.Slice
import Model.Num
import Model.Bonferroni
import Model.DepGraph
import Model.EnvPersist
import Model.RunCmd
