import Drv.Util
import Model.Bonferroni
open Lean Drv

namespace Drv.Bonf
open _root_.Bonf

/-- input: {"alpha": bits of the user's alpha, "m": ntests, "p": [[bits…] per dataset], "pinned": bool}
output: {"level": bits of alpha/2/m, "alpha2": bits of alpha/2, "bonf": [[flags]], "holmLevels": [[bits]],
         "holmFlags": [[flags]], "bonfVerdict", "holmVerdict", "sorted": [[argsort]]} -/
def run (j : Json) : R Json := do
  let alpha ← flt (← fld j "alpha")
  let m ← nat (← fld j "m")
  let ps ← listOf (listOf flt) (← fld j "p")
  let pinned ← bool (fldD j "pinned" (Json.bool false))
  let alpha2 : Float := Num.div alpha (Num.ofNat 2)
  let level : Float := Num.div alpha2 (Num.ofNat m)
  let bf := ps.map fun p => if pinned then bonfPinned p level else bonf p level
  let hs := ps.map fun p => holm pinned p alpha2
  pure (Json.mkObj [("level", jflt level), ("alpha2", jflt alpha2),
    ("bonf", jl (bf.map fun f => jl (f.map jbool))),
    ("holmLevels", jl (hs.map fun h => jl (h.1.map jflt))),
    ("holmFlags", jl (hs.map fun h => jl (h.2.map jbool))),
    ("bonfVerdict", jbool (verdict bf)), ("holmVerdict", jbool (verdict (hs.map (·.2)))),
    ("bonfOracles", jl ((oracles bf).map jbool)), ("holmOracles", jl ((oracles (hs.map (·.2))).map jbool)),
    ("bonfNb", jnats (nbRejected bf)), ("holmNb", jnats (nbRejected (hs.map (·.2)))),
    ("sorted", jl (ps.map fun p => jnats (argsort p)))])

end Drv.Bonf
