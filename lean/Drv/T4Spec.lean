import Drv.Util
import Model.T4Spec
open Lean Drv

namespace Drv.T4Spec
open _root_.T4Spec

def step (j : Json) : R (Option (Step Float)) := do
  if j.isNull then return none
  let l ← arr j
  pure (some { idx := ← nat (← nth l 0), a := ← flt (← nth l 1), b := ← flt (← nth l 2) })

def row (j : Json) : R (Row Float) := do
  let l ← arr j
  pure { lo := ← flt (← nth l 0), hi := ← flt (← nth l 1), score := ← flt (← nth l 2), sigma := ← flt (← nth l 3),
         leth := ← flt (← nth l 4) }

def integ (j : Json) : R (Option (Float × Float)) := do
  if j.isNull then return none
  let l ← arr j
  pure (some (← flt (← nth l 0), ← flt (← nth l 1)))

def block (j : Json) : R (Block Float) := do
  pure { time := ← step (fldD j "time" Json.null), mu := ← step (fldD j "mu" Json.null), phi := ← step (fldD j "phi" Json.null),
         rows := ← listOf row (← fld j "rows"), integ := ← integ (fldD j "integ" Json.null) }

def nanF : Float := 0.0 / 0.0

def run (j : Json) : R Json := do
  let blocks ← listOf block (← fld j "blocks")
  match convert blocks with
  | .error .index => pure (Json.mkObj [("err", Json.str "IndexError")])
  | .error .bins => pure (Json.mkObj [("err", Json.str "SpectrumDictBuilderException")])
  | .error .empty => pure (Json.mkObj [("err", Json.str "IndexError")])
  | .ok s =>
    let col (f : Row Float → Float) := jl (s.cells.map fun c => match c with | some r => jflt (f r) | none => jflt nanF)
    let err := jl (s.cells.map fun c => match c with
      | some r => jflt (errorOf (0.01 : Float) r.score r.sigma) | none => jflt nanF)
    pure (Json.mkObj [("shape", jnats [s.ne, s.nt, s.nmu, s.nphi]),
      ("e", jl (s.ebins.map jflt)), ("t", jl (s.tbins.map jflt)), ("mu", jl (s.mubins.map jflt)), ("phi", jl (s.phibins.map jflt)),
      ("score", col (·.score)), ("sigma", col (·.sigma)), ("leth", col (·.leth)), ("error", err),
      ("integ", match s.integ with
        | none => Json.null
        | some l => jl (l.map fun c => match c with
            | some (a, b) => jl [jflt a, jflt b, jflt (errorOf (0.01 : Float) a b)]
            | none => jl [jflt nanF, jflt nanF, jflt nanF]))])

end Drv.T4Spec
