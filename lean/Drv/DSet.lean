import Drv.Util
import Model.Dataset
open Lean Drv

namespace Drv.DSet
open _root_.DSet

def bin (j : Json) : R (String × List Float) := do
  let l ← arr j; pure (← str (← nth l 0), ← listOf flt (← nth l 1))

def ds (j : Json) : R (Option (Dataset Float)) := do
  if j.isNull then return none
  pure (some { shape := ← listOf nat (← fld j "shape"), value := ← listOf flt (← fld j "value"),
               error := ← listOf flt (← fld j "error"), bins := ← listOf bin (← fld j "bins"),
               what := ← str (← fld j "what") })

def jds (d : Dataset Float) : Json :=
  Json.mkObj [("shape", jnats d.shape), ("value", jl (d.value.map jflt)), ("error", jl (d.error.map jflt)),
              ("bins", jl (d.bins.map fun (k, b) => jl [Json.str k, jl (b.map jflt)])), ("what", Json.str d.what)]

def op (s : String) : R Op :=
  match s with
  | "+" => pure .add | "-" => pure .sub | "*" => pure .mul | "/" => pure .div
  | _ => throw s!"bad op {s}"

def rhs (j : Json) : R (Rhs Float) := do
  let k ← str (← fld j "k")
  match k with
  | "scalar" => pure (.scalar (← flt (← fld j "c")))
  | "array" => pure (.array (← listOf nat (← fld j "shape")) (← listOf flt (← fld j "a")))
  | "var" => pure (.var (← nat (← fld j "j")))
  | _ => throw s!"bad rhs {k}"

def which (j : Json) : R Which := do
  match j with
  | Json.str "value" => pure .value
  | Json.str "error" => pure .error
  | _ => pure (.bin (← nat j))

def cmd (j : Json) : R (Cmd Float) := do
  let k ← str (← fld j "k")
  match k with
  | "arith" => pure (.arith (← nat (← fld j "dst")) (← nat (← fld j "src")) (← op (← str (← fld j "op"))) (← rhs (← fld j "rhs")))
  | "copy" => pure (.copy (← nat (← fld j "dst")) (← nat (← fld j "src")))
  | "squeeze" => pure (.squeeze (← nat (← fld j "dst")) (← nat (← fld j "src")))
  | "poke" => pure (.poke (← nat (← fld j "v")) (← which (← fld j "w")) (← nat (← fld j "i")) (← flt (← fld j "x")))
  | _ => throw s!"bad cmd {k}"

def jerr : Option DErr → Json
  | none => Json.null
  | some .shape => Json.str "shape"
  | some .binNames => Json.str "binNames"
  | some .binValues => Json.str "binValues"

/-- the pinned scalar operations, for replaying the known defect A8 -/
def stepPinned (s : Store Float) (c : Cmd Float) : Store Float × Option DErr :=
  match c with
  | .arith dst src o (.scalar x) =>
    match s.get src with
    | none => (s, none)
    | some a => (s.put dst (opScalarPinned o a x), none)
  | c => stepCmd s c

def run (j : Json) : R Json := do
  let vars ← listOf ds (← fld j "vars")
  let cmds ← listOf cmd (← fld j "cmds")
  let pinned ← bool (fldD j "pinned" (Json.bool false))
  let (s, errs) :=
    if pinned then
      cmds.foldl (fun (acc : Store Float × List (Option DErr)) c =>
        let (s', e) := stepPinned acc.1 c; (s', acc.2 ++ [e])) (vars, [])
    else runCmds vars cmds
  pure (Json.mkObj [("vars", jl (s.map fun d => match d with | none => Json.null | some d => jds d)),
                    ("errs", jl (errs.map jerr))])

end Drv.DSet
