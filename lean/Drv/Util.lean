import Lean.Data.Json
open Lean

namespace Drv

abbrev R := Except String

def arr (j : Json) : R (List Json) := do let a ← j.getArr?; pure a.toList
def str (j : Json) : R String := j.getStr?
def nat (j : Json) : R Nat := j.getNat?
def int (j : Json) : R Int := j.getInt?
def bool (j : Json) : R Bool := j.getBool?
def fld (j : Json) (k : String) : R Json := j.getObjVal? k
def fldD (j : Json) (k : String) (d : Json) : Json := (j.getObjVal? k).toOption.getD d
def listOf (f : Json → R α) (j : Json) : R (List α) := do (← arr j).mapM f
def optOf (f : Json → R α) (j : Json) : R (Option α) := if j.isNull then pure none else some <$> f j
def jl (l : List Json) : Json := Json.arr l.toArray
def jnat (n : Nat) : Json := Json.num (JsonNumber.fromNat n)
def jint (n : Int) : Json := Json.num (JsonNumber.fromInt n)
def jnats (l : List Nat) : Json := jl (l.map jnat)
def jstrs (l : List String) : Json := jl (l.map Json.str)
def jopt (f : α → Json) : Option α → Json | none => Json.null | some a => f a
def jbool (b : Bool) : Json := Json.bool b
def nth (l : List Json) (i : Nat) : R Json :=
  match l[i]? with | some x => pure x | none => throw s!"missing arg {i}"

/-- floats travel as decimal strings of their IEEE bit pattern -/
def flt (j : Json) : R Float := do
  let s ← j.getStr?
  if s == "nan" then return (0.0 / 0.0 : Float)
  match s.toNat? with
  | some n => pure (Float.ofBits n.toUInt64)
  | none => throw s!"bad float bits {s}"
def jflt (x : Float) : Json :=
  if x.isNaN then Json.str "nan" else Json.str (toString x.toBits.toNat)

end Drv
