import Drv.Util
import Model.Ap3
open Lean Drv

namespace Drv.Ap3
open _root_.Ap3

def jres (r : Except Err (DS Nat)) : Json :=
  match r with
  | .ok d => Json.mkObj [("shape", jnats d.shape), ("value", jnats d.value),
                         ("bins", jl (d.bins.map fun (k, n) => jl [Json.str k, jnat n]))]
  | .error _ => Json.str "error"

def run (j : Json) : R Json := do
  let shape ← listOf nat (← fld j "shape")
  let lvl ← str (← fld j "level")
  let level ← match lvl with
    | "total" => pure Level.total | "zone" => pure Level.zone | "iso" => pure Level.iso
    | _ => throw "bad level"
  let s : Stored Nat := {
    name := ← str (← fld j "name"), level := level, shape := shape, data := List.range (prod shape),
    ngroups := ← nat (← fld j "ngroups"), infoPresent := ← bool (← fld j "info"),
    resAniso := ← optOf nat (← fld j "res_aniso"), defAniso := ← optOf nat (← fld j "def_aniso"),
    nsurf := ← optOf nat (← fld j "nsurf") }
  pure (Json.mkObj [("reader", jres (reader s)), ("picker", jres (picker s))])

end Drv.Ap3
