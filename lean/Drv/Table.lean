import Drv.Util
import Model.Table
open Lean Drv

namespace Drv.Table
open _root_.Table

def cell (j : Json) : R Cell := do pure (← str j).toList
def jcell (c : Cell) : Json := Json.str (String.ofList c)

def kind (s : String) : R Kind :=
  match s with
  | "equal" => pure .equal | "approx" => pure .approx | "student" => pure .student | "bonf" => pure .bonf
  | "holm" => pure .holm | "stats" => pure .stats | "byLabels" => pure .byLabels | "metadata" => pure .metadata
  | "failed" => pure .failed
  | _ => throw s!"bad kind {s}"

def jout : Out → Json
  | .text ko => jl [Json.str "text", jbool ko]
  | .table rows hl => jl [Json.str "table", jnats rows, jl (hl.map fun r => jl (r.map jbool))]

/-- {"op": "render", ...} | {"op": "rst", ...} | {"op": "slice", ...} | {"op": "join", ...} -/
def run (j : Json) : R Json := do
  match ← str (← fld j "op") with
  | "render" =>
    let r : Res := { kind := ← kind (← str (← fld j "kind")), masks := ← listOf (listOf bool) (← fld j "masks"),
                     nbins := ← nat (← fld j "nbins"), nb := ← nat (← fld j "nb"), scalar := ← bool (← fld j "scalar"),
                     nlabels := ← nat (← fld j "nlabels"), missing := ← bool (← fld j "missing") }
    let vs ← listOf nat (← fld j "verbs")
    pure (Json.mkObj [("verdict", jbool (verdict r)),
                      ("outs", jl (vs.map fun v => jl ((render r v).map jout))),
                      ("marks", jl (vs.map fun v => jbool (hasMark (render r v))))])
  | "rst" =>
    let headers ← listOf cell (← fld j "headers")
    let rows ← listOf (listOf cell) (← fld j "rows")
    let hl ← listOf (listOf bool) (← fld j "hl")
    let indent ← nat (← fld j "indent")
    let frows := formatRows rows hl
    let lines := tabularize indent headers frows
    let ws := widths headers frows
    pure (Json.mkObj [("lines", jl (lines.map jcell)), ("cells", jl (frows.map fun r => jl (r.map jcell))),
                      ("readback", jl ((frows.map (dataRow ws)).map fun l => jl ((readRow ws l).map jcell))),
                      ("border", jnats (borderWidths (sepRow ws)))])
  | "slice" =>
    let t : Template := { headers := ← listOf cell (← fld j "headers"), columns := ← listOf (listOf cell) (← fld j "columns"),
                          hl := ← listOf (listOf bool) (← fld j "hl") }
    let a ← nat (← fld j "a")
    let b ← nat (← fld j "b")
    let pinned ← bool (fldD j "pinned" (Json.bool false))
    let u := if pinned then t.slicePinned a b else t.slice a b
    pure (Json.mkObj [("columns", jl (u.columns.map fun c => jl (c.map jcell))), ("hl", jl (u.hl.map fun h => jl (h.map jbool)))])
  | "join" =>
    let t : Template := { headers := ← listOf cell (← fld j "headers"), columns := ← listOf (listOf cell) (← fld j "columns"),
                          hl := ← listOf (listOf bool) (← fld j "hl") }
    let u : Template := { headers := ← listOf cell (← fld j "headers2"), columns := ← listOf (listOf cell) (← fld j "columns2"),
                          hl := ← listOf (listOf bool) (← fld j "hl2") }
    match t.join u with
    | none => pure (Json.str "ValueError")
    | some w => pure (Json.mkObj [("columns", jl (w.columns.map fun c => jl (c.map jcell))), ("hl", jl (w.hl.map fun h => jl (h.map jbool)))])
  | s => throw s!"bad op {s}"

end Drv.Table
