import Drv.Util
import Model.Sched
open Lean Drv

namespace Drv.Sched
open _root_.Sched

def stOfCode : Nat → Option St
  | 1 => some .waiting | 2 => some .pending | 3 => some .done | 4 => some .failed | 5 => some .skipped | _ => none
def St.code : St → Nat
  | .waiting => 1 | .pending => 2 | .done => 3 | .failed => 4 | .skipped => 5

def outcome (s : String) : R Outcome :=
  match s with
  | "done" => pure .done | "failedRet" => pure .failedRet | "raises" => pure .raises | "retNone" => pure .retNone
  | "notPair" => pure .notPair | "badStatus" => pure .badStatus | "badUpdate" => pure .badUpdate
  | _ => throw s!"bad outcome {s}"

def entry (j : Json) : R (Option Entry) := do
  if j.isNull then return none
  let l ← arr j
  match stOfCode (← nat (← nth l 0)) with
  | none => throw "bad status"
  | some st => pure (some ⟨st, ← optOf nat (← nth l 1), ← optOf nat (← nth l 2), ← optOf nat (← nth l 3)⟩)

def jentry : Option Entry → Json
  | none => Json.null
  | some e => jl [jnat (St.code e.st), jopt jnat e.pay, jopt jnat e.startC, jopt jnat e.endC]

def cfg (j : Json) : R Cfg := do
  let outs ← listOf (fun x => do outcome (← str x)) (← fld j "out")
  pure { n := ← nat (← fld j "n"), deps := ← listOf (listOf nat) (← fld j "deps"),
         hard := ← listOf (listOf nat) (← fld j "hard"), out := outs, workers := ← nat (← fld j "workers"),
         cyclic := ← bool (fldD j "cyclic" (Json.bool false)) }

def digest (c : Cfg) (s : State) : Json :=
  let ts := List.range c.n
  Json.mkObj [("env", jl (ts.map fun t => jentry (s.env.entry t))), ("queue", jl (s.queue.map (jopt jnat))), ("unf", jnat s.unfinished),
    ("cond", jopt jnat s.condOwner), ("exec", jnats (ts.map s.execCount)),
    ("seen", jl (ts.map fun t => jopt (fun l => jl (l.map jentry)) (s.seen t))), ("en", jnats (enabled c s)),
    ("terminal", jbool (terminal c s))]

/-- replay a recorded schedule: `steps` = [[tid, kind], ...]; answers the digest before every step and after the last -/
def run (j : Json) : R Json := do
  let c ← cfg (← fld j "cfg")
  let env0 ← listOf entry (fldD j "env" (Json.arr #[]))
  let q0 ← listOf (optOf nat) (fldD j "queue" (Json.arr #[]))
  let unf0 ← nat (fldD j "unfinished" (jnat 0))
  let steps ← listOf (fun x => do let l ← arr x; pure (← nat (← nth l 0), ← str (← nth l 1))) (← fld j "steps")
  let clk ← nat (fldD j "clock" (jnat 0))
  let mut s := init c ⟨fun t => env0.getD t none⟩ q0 unf0 clk
  let mut outs : Array Json := #[digest c s]
  let mut rejected : Option Nat := none
  let mut i := 0
  for (tid, kind) in steps do
    match step c s tid kind with
    | some s' => s := s'; outs := outs.push (digest c s)
    | none => rejected := some i; break
    i := i + 1
  pure (Json.mkObj [("digests", Json.arr outs), ("rejected", jopt jnat rejected)])

/-- the decision function alone (tier-2 tie: `decide_new_state` called directly) -/
def runDecide (j : Json) : R Json := do
  let c ← cfg (← fld j "cfg")
  let env0 ← listOf entry (← fld j "env")
  let left ← listOf nat (← fld j "left")
  let t ← nat (← fld j "task")
  let pinned := (fldD j "pinned" (Json.bool false)) == Json.bool true
  let envf : Env := ⟨fun t => env0.getD t none⟩
  let (d, e) := if pinned then decidePinned c envf t else decide c envf left t
  let ds := match d with | .wait => "wait" | .skip => "skip" | .pending => "pending" | .drop => "drop"
  pure (Json.mkObj [("decision", Json.str ds), ("env", jl ((List.range c.n).map fun t => jentry (e.entry t)))])

end Drv.Sched
