import Drv.Util
import Model.DepGraph
open Lean Drv

namespace Drv.DepGraph
open DG

def errName : Err → String
  | .valueError => "ValueError" | .keyError => "KeyError" | .indexError => "IndexError"
  | .cyclic => "DepGraphError" | .recursion => "RecursionError" | .typeError => "TypeError"

def sortNat (l : List Nat) : List Nat := (l.toArray.qsort (· < ·)).toList
def sortPairs (l : List (Nat × Nat)) : List (Nat × Nat) :=
  (l.toArray.qsort (fun a b => a.1 < b.1 || (a.1 == b.1 && a.2 < b.2))).toList

def jerr (e : Err) : Json := Json.mkObj [("err", Json.str (errName e))]
def jres (f : α → Json) : Except Err α → Json
  | .ok a => f a
  | .error e => jerr e
def jset (l : List Nat) : Json := jnats (sortNat l)
def jdump (g : G) : Json :=
  Json.mkObj [("nodes", jset g.nodes.seq),
              ("edges", jl ((sortPairs g.edgePairs).map fun (a, b) => jnats [a, b]))]

def run (j : Json) : R Json := do
  let pinned := (fldD j "pinned" (Json.bool false)) == Json.bool true
  let ops ← arr (← fld j "ops")
  let mut vars : Array G := #[]
  let mut outs : Array Json := #[]
  for op in ops do
    let l ← arr op
    let name ← str (← nth l 0)
    let a (i : Nat) : R Nat := do nat (← nth l i)
    let gv (i : Nat) : R G := do
      let k ← a i
      match vars[k]? with | some g => pure g | none => throw s!"bad-var {k}"
    -- mutation of variable (arg 1) by f
    let mutate (f : G → Except Err G) : R (Array G × Json) := do
      let k ← a 1
      let g ← gv 1
      match f g with
      | .ok g' => pure (vars.setIfInBounds k g', Json.str "ok")
      | .error e => pure (vars, jerr e)
    match name with
    | "new" => vars := vars.push G.empty; outs := outs.push (Json.str "ok")
    | "copy" => vars := vars.push (← gv 1).copy; outs := outs.push (Json.str "ok")
    | "invert" => vars := vars.push (← gv 1).invert; outs := outs.push (Json.str "ok")
    | "add" =>
      match (← gv 1).copy.merge (← gv 2) with
      | .ok g => vars := vars.push g; outs := outs.push (Json.str "ok")
      | .error e => vars := vars.push G.empty; outs := outs.push (jerr e)
    | "add_node" => let x ← a 2; let (v, o) ← mutate (fun g => .ok (g.addNode x)); vars := v; outs := outs.push o
    | "remove_node" => let x ← a 2; let (v, o) ← mutate (·.removeNode x); vars := v; outs := outs.push o
    | "add_dep" => let x ← a 2; let y ← a 3; let (v, o) ← mutate (·.addDep x y); vars := v; outs := outs.push o
    | "remove_dep" => let x ← a 2; let y ← a 3; let (v, o) ← mutate (·.removeDep x y); vars := v; outs := outs.push o
    | "merge" => let h ← gv 2; let (v, o) ← mutate (·.merge h); vars := v; outs := outs.push o
    | "reduce" => let (v, o) ← mutate (·.transitiveReduction); vars := v; outs := outs.push o
    | "close" => let (v, o) ← mutate (·.transitiveClosure); vars := v; outs := outs.push o
    | "graft" =>
      let x ← a 2
      let sub := (vars[x - nestedBase]?).getD G.empty
      let (v, o) ← mutate (fun g => if pinned then g.graftPinned x sub else g.graft x sub)
      vars := v; outs := outs.push o
    | "flatten" =>
      let rec_ ← bool (← nth l 2)
      let store := vars
      let (v, o) ← mutate (fun g => flattenLoop (fun k => store[k]?) rec_ 20 g)
      vars := v; outs := outs.push o
    | "dump" => outs := outs.push (jdump (← gv 1))
    | "len" => outs := outs.push (jnat (← gv 1).size)
    | "contains" => outs := outs.push (jbool ((← gv 1).contains (← a 2)))
    | "deps" => outs := outs.push (jres jset ((← gv 1).dependencies (← a 2)))
    | "deps_rec" => outs := outs.push (jres jset ((← gv 1).dependenciesRec (← a 2)))
    | "dependees" => outs := outs.push (jres jset ((← gv 1).dependees (← a 2)))
    | "initial" => outs := outs.push (jres jset (← gv 1).initial)
    | "terminal" => outs := outs.push (jres jset (← gv 1).terminal)
    | "topo" =>
      let g ← gv 1
      outs := outs.push (match g.topologicalSort with
        | .ok order => Json.mkObj [("order", jnats order)]
        | .error e => jerr e)
    | "depends" =>
      let g ← gv 1; let x ← a 2; let y ← a 3; let r ← bool (← nth l 4)
      outs := outs.push (jres jbool (if r then g.dependsRec x y else g.dependsDirect x y))
    | "le" => outs := outs.push (jres jbool ((← gv 1).le (← gv 2)))
    | "eq" => outs := outs.push (jres jbool ((← gv 1).eqv (← gv 2)))
    | s => throw s!"bad-op {s}"
  pure (Json.mkObj [("outs", Json.arr outs), ("final", Json.arr (vars.map jdump))])

end Drv.DepGraph
