import Drv.Util
import Model.Browser
open Lean Drv

namespace Drv.Browser
open _root_.Browser

def val (j : Json) : R Val :=
  match j with
  | .str s => match (s.drop 1).toNat? with
              | some n => pure (.atom n)
              | none => throw s!"bad atom {s}"
  | _ => do pure (.int (← int j))
def jval : Val → Json | .int i => jint i | .atom n => Json.str s!"a{n}"
def kv (j : Json) : R (String × Val) := do
  let l ← arr j; pure (← str (← nth l 0), ← val (← nth l 1))
def jkv (p : String × Val) : Json := jl [Json.str p.1, jval p.2]
def item (j : Json) : R Item := listOf kv j
def jitem (it : Item) : Json := jl (it.map jkv)

def sortStr (l : List String) : List String := (l.toArray.qsort (· < ·)).toList
def valKey : Val → String | .int i => s!"i{i}" | .atom n => s!"a{n}"
def jbrowser (b : Browser) : Json :=
  Json.mkObj [("content", jl (b.content.map jitem)), ("dataKey", Json.str b.dataKey),
    ("globals", jl (b.globals.map jkv)),
    ("keys", jstrs (sortStr (keys b))),
    ("avail", jl ((sortStr (keys b)).map fun k =>
        jl [Json.str k, jstrs (sortStr ((availableValues b k).map valKey))]))]

/-- ops: ["new",content,dataKey,globals] ["filter",v,kwargs,incl,excl] ["filterPinned",…]
["select",v,kwargs,incl,excl] ["merge",v,w] -/
def run (j : Json) : R Json := do
  let ops ← arr j
  let mut vars : Array (Option Browser) := #[]
  let mut outs : Array Json := #[]
  for op in ops do
    let l ← arr op
    let name ← str (← nth l 0)
    let getv (i : Nat) : R (Option Browser) := do
      let k ← nat (← nth l i); pure ((vars[k]?).getD none)
    match name with
    | "new" =>
      let b := mk' (← listOf item (← nth l 1)) (← str (← nth l 2)) (← listOf kv (← nth l 3))
      vars := vars.push (some b); outs := outs.push (jbrowser b)
    | "filter" | "filterPinned" =>
      match ← getv 1 with
      | none => vars := vars.push none; outs := outs.push (Json.str "novar")
      | some b =>
        let f := if name == "filter" then filterBy else filterByPinned
        let r := f b (← listOf kv (← nth l 2)) (← listOf str (← nth l 3)) (← listOf str (← nth l 4))
        vars := vars.push (some r); outs := outs.push (jbrowser r)
    | "select" =>
      match ← getv 1 with
      | none => vars := vars.push none; outs := outs.push (Json.str "novar")
      | some b =>
        vars := vars.push none
        match selectBy b (← listOf kv (← nth l 2)) (← listOf str (← nth l 3)) (← listOf str (← nth l 4)) with
        | .ok it => outs := outs.push (Json.mkObj [("item", jitem it)])
        | .error .noItem => outs := outs.push (Json.str "NoItem")
        | .error .tooMany => outs := outs.push (Json.str "TooMany")
    | "merge" =>
      match ← getv 1, ← getv 2 with
      | some a, some b =>
        match merge a b with
        | some r => vars := vars.push (some r); outs := outs.push (jbrowser r)
        | none => vars := vars.push none; outs := outs.push (Json.str "ValueError")
      | _, _ => vars := vars.push none; outs := outs.push (Json.str "novar")
    | _ => throw s!"bad-op {name}"
  pure (Json.arr outs)

end Drv.Browser
