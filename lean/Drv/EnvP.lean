import Drv.Util
import Model.EnvPersist
open Lean Drv

namespace Drv.EnvP
open _root_.EnvP

def entry (j : Json) : R (Nat × Entry) := do
  let l ← arr j
  let st ← nat (← nth l 1)
  match Status.ofCode st with
  | none => throw s!"bad status {st}"
  | some s => pure (← nat (← nth l 0), ⟨s, ← optOf nat (← nth l 2), ← nat (← nth l 3)⟩)

def jentry (p : Nat × Entry) : Json := jl [jnat p.1, jnat p.2.status.code, jopt jnat p.2.outputDir, jnat p.2.payload]

def errName : LoadErr → String
  | .eof => "EOFError" | .unpickling => "UnpicklingError" | .value => "ValueError" | .attribute => "AttributeError"
  | .importErr => "ImportError" | .index => "IndexError" | .other => "other"

def sortEnv (e : Env) : Env := (e.toArray.qsort (fun a b => a.1 < b.1)).toList

def run (j : Json) : R Json := do
  let pinned := (fldD j "pinned" (Json.bool false)) == Json.bool true
  let v : Variant := if pinned then .pinned else .fixed
  let c := simpleCodec
  let ops ← arr (← fld j "ops")
  let mut fs : FS := []
  let mut outs : Array Json := #[]
  for op in ops do
    let l ← arr op
    match ← str (← nth l 0) with
    | "write" => fs := writeEnv c fs (← listOf entry (← nth l 1)); outs := outs.push (Json.str "ok")
    | "crash" =>
      let env ← listOf entry (← nth l 1)
      let n ← nat (← nth l 2)
      let cut ← str (← nth l 3)
      let len := match env[n]? with | some p => (c.dump [p]).length | none => 0
      let k := if cut == "empty" then 0 else if cut == "most" then len - 1 else max 1 (len / 2)
      fs := writeEnvCrash c fs env n k; outs := outs.push (Json.str "ok")
    | "delete" => fs := fs.erase (← nat (← nth l 1)); outs := outs.push (Json.str "ok")
    | "garbage" =>
      let d ← nat (← nth l 1)
      let cls ← str (← nth l 2)
      let content := match cls with
        | "notenv" => [1] | "EOFError" => [2, 0] | "UnpicklingError" => [2, 1] | "ValueError" => [2, 2]
        | "AttributeError" => [2, 3] | "ImportError" => [2, 4] | "IndexError" => [2, 5] | _ => [2, 9]
      fs := fs.set d content; outs := outs.push (Json.str "ok")
    | "read" =>
      let names ← listOf nat (← nth l 1)
      outs := outs.push (match readEnv v c fs names [] with
        | .ok e => Json.mkObj [("ok", jl ((sortEnv e).map jentry))]
        | .error k => Json.mkObj [("raise", Json.str (errName k))])
    | s => throw s!"bad-op {s}"
  pure (Json.arr outs)

end Drv.EnvP
