import Drv.Util
import Model.Student
open Lean Drv

namespace Drv.Student
open _root_.Student

def bins (j : Json) : R (List (Bin Float)) := do
  let v ← listOf flt (← fld j "v")
  let e ← listOf flt (← fld j "e")
  pure ((v.zip e).map fun (a, b) => ⟨a, b⟩)

/-- input: {"ref": {"v": [...], "e": [...]}, "dss": [{...}], "thr": bits, "alpha": bits, "p": [[bits]]} -/
def run (j : Json) : R Json := do
  let ref ← bins (← fld j "ref")
  let dss ← listOf bins (← fld j "dss")
  let thr ← flt (← fld j "thr")
  let alpha ← flt (← fld j "alpha")
  let ps ← listOf (listOf flt) (← fld j "p")
  pure (Json.mkObj [
    ("t", jl (dss.map fun ds => jl ((tList ref ds).map jflt))),
    ("oracles", jl ((oracles thr ref dss).map fun l => jl (l.map jbool))),
    ("verdict", jbool (verdict thr ref dss)),
    ("pdec", jl (ps.map fun l => jl (l.map fun p => jbool (pDecision alpha p))))])

end Drv.Student
