import Drv.Util
import Model.T4Scan
open Lean Drv

namespace Drv.T4Scan
open _root_.T4Scan

def checksum (ls : List Line) : Nat :=
  ls.foldl (fun h l => l.foldl (fun h c => (h * 31 + c.toNat) % 1000000007) h) 7

def jtime : TimeVal → Json
  | none => Json.str "Not a time"
  | some n => jnat n

/-- {"text": the decoded content of the file, "repaired": bool} -/
def run (j : Json) : R Json := do
  let text ← str (← fld j "text")
  let repaired ← bool (fldD j "repaired" (Json.bool true))
  match parserInit repaired (splitLines text.toList) with
  | .scannerError => pure (Json.mkObj [("outcome", Json.str "ParserException")])
  | .crash .indexError => pure (Json.mkObj [("outcome", Json.str "IndexError")])
  | .crash .valueError => pure (Json.mkObj [("outcome", Json.str "ValueError")])
  | .ok s =>
    pure (Json.mkObj [("outcome", Json.str "ok"),
      ("keys", jl (s.collres.map fun p => jint p.1)),
      ("blocks", jl (s.collres.map fun p => jl [jnat (p.2.foldl (fun n l => n + l.length) 0), jnat (checksum p.2)])),
      ("history", jl (s.history.reverse.map fun p => jl [jint p.1, jnat (checksum p.2)])),
      ("times", jl (s.times.map fun (k, sub) => jl [Json.str k, jl (sub.map fun (b, t) => jl [jint b, jtime t])])),
      ("init", jopt jint s.initTime), ("normalend", jbool s.normalend), ("para", jbool s.para),
      ("partial", jbool s.partialEd), ("warnings", jnat s.warnings), ("errors", jnat s.errors),
      ("tasks", jint s.tasks), ("batches", jopt jint s.batches), ("packet", jint s.packetLength)])

end Drv.T4Scan
