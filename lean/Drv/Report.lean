import Drv.Util
import Model.Report
open Lean Drv

namespace Drv.Report
open Rep

mutual
partial def report (j : Json) : R Rep.Report := do
  let t ← str (← fld j "title")
  let its ← arr (← fld j "items")
  pure (.node t (← items its))
partial def items (l : List Json) : R Rep.Items :=
  match l with
  | [] => pure .nil
  | x :: rest => do
    let rest' ← items rest
    match x.getObjVal? "sec" with
    | .ok s => pure (.sec (← report s) rest')
    | .error _ =>
      let r ← arr (← fld x "res")
      pure (.res ⟨← nat (← nth r 0), ← optOf nat (← nth r 1)⟩ rest')
end

def joinPath (c : List String) : String := "/".intercalate c
def sortStr (l : List String) : List String := (l.toArray.qsort (· < ·)).toList

def run (j : Json) : R Json := do
  let r ← report j
  if !r.distinctSiblings then return Json.mkObj [("dup", Json.bool true)]
  match write r with
  | .error e =>
    pure (Json.mkObj [("error", Json.str (match e with | .badTitle => "badTitle" | .tooDeep => "tooDeep" | .collision => "collision"))])
  | .ok w =>
    let files := w.setup.map joinPath ++ w.pages.map (fun p => joinPath (pagePath p.chain) ++ ".rst")
      ++ w.figures.map (fun f => s!"figures/plot_{f}.png")
    let pages := w.pages.map fun p => Json.mkObj [
      ("path", Json.str (joinPath (pagePath p.chain))), ("anchors", jnats p.anchors), ("images", jnats p.images),
      ("toc", jstrs (p.toc.map fun e => joinPath (resolveToc p e)))]
    pure (Json.mkObj [("files", jstrs (sortStr files)), ("pages", jl pages)])

end Drv.Report
