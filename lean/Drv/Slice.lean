import Drv.Util
import Model.Slice
open Lean Drv

namespace Drv.Slice
open _root_.Slice

def sl (j : Json) : R Sl := do
  let l ← arr j
  pure { start := ← optOf int (← nth l 0), stop := ← optOf int (← nth l 1) }

def bin (j : Json) : R (String × List Int) := do
  let l ← arr j; pure (← str (← nth l 0), ← listOf int (← nth l 1))

/-- the constructor's consistency checks (dataset.py:762-775) -/
def ctorOk (d : DS) : Bool :=
  (d.bins.isEmpty || d.bins.length == d.shape.length) &&
  (d.bins.isEmpty || (d.bins.zip d.shape).all fun (kb, s) =>
      kb.2.length == 0 || kb.2.length == s || kb.2.length == s + 1)

def jds (d : DS) : Json :=
  if ctorOk d then
    Json.mkObj [("shape", jnats d.shape), ("value", jl (d.value.map jint)),
                ("bins", jl (d.bins.map fun (k, b) => jl [Json.str k, jl (b.map jint)]))]
  else Json.str "ValueError"

def run (j : Json) : R Json := do
  let shape ← listOf nat (← fld j "shape")
  let d : DS := { shape := shape, value := ← listOf int (← fld j "value"), bins := ← listOf bin (← fld j "bins") }
  let ss ← listOf sl (← fld j "slices")
  let pinned ← bool (fldD j "pinned" (Json.bool false))
  let r := getItem pinned d ss
  let sq := if ctorOk r then jds (squeeze r) else Json.str "n/a"
  pure (Json.mkObj [("slice", jds r), ("squeeze", sq), ("squeeze0", jds (squeeze d))])

end Drv.Slice
