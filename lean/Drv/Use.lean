import Drv.Util
import Model.Use
open Lean Drv

namespace Drv.Use
open UseM

def kvs (j : Json) : R (List (String × String)) := listOf (fun p => do
  let l ← arr p; pure (← str (← nth l 0), ← str (← nth l 1))) j
def optStr (j : Json) : R (Option String) := optOf str j
def func (j : Json) : R Func := do let l ← arr j; pure ⟨← nat (← nth l 0), ← str (← nth l 1)⟩

def useReq (l : List Json) (o : Nat) : R UseReq := do
  let f ← func (← nth l o)
  let args ← listOf (fun p => do let a ← arr p; pure (← nat (← nth a 0), ← optStr (← nth a 1))) (← nth l (o+1))
  let kw ← listOf (fun p => do let a ← arr p; pure (← str (← nth a 0), ← nat (← nth a 1), ← optStr (← nth a 2))) (← nth l (o+2))
  let dt ← str (← nth l (o+3))
  pure ⟨f, args, kw, if dt == "soft" then .soft else .hard, ← bool (← nth l (o+4))⟩

def makeReq (l : List Json) (o : Nat) : R MakeReq := do
  pure ⟨← optStr (← nth l o), ← listOf str (← nth l (o+1)), ← kvs (← nth l (o+2)), ← kvs (← nth l (o+3)),
        ← listOf nat (← nth l (o+4)), ← listOf nat (← nth l (o+5))⟩

def jres : Res → Json
  | .ok t => Json.mkObj [("ok", jnat t)]
  | .valueError => Json.str "ValueError"

def jkvs (l : List (String × String)) : Json := jl (l.map fun (k, v) => jl [Json.str k, Json.str v])
def jbeh (st : St) : Behaviour → Json
  | .base => Json.str "base"
  | .use r => Json.mkObj [("use", jnat r.func.id),
      ("args", jl (r.injArgs.reverse.map fun (t, k) => jl [Json.str (st.nameOf t), jopt Json.str k])),
      ("kwargs", jl (r.injKwargs.map fun (kw, t, k) => jl [Json.str kw, Json.str (st.nameOf t), jopt Json.str k])),
      ("deps", jnats (match r.depsType with | .hard => r.injected | .soft => [])),
      ("soft", jnats (match r.depsType with | .soft => r.injected | .hard => [])),
      ("serialize", jbool r.serialize)]
  | .run f r => Json.mkObj [("run", jnat f), ("extra", jstrs r.extraArgs), ("kwargs", jkvs r.kwargs),
      ("sub", jkvs r.subprocessArgs), ("deps", jnats r.deps), ("soft", jnats r.softDeps)]

def run (j : Json) : R Json := do
  let pinned := (fldD j "pinned" (Json.bool false)) == Json.bool true
  let v : Variant := if pinned then .pinned else .fixed
  let ops ← arr (← fld j "ops")
  let mut st := St.init
  let mut outs : Array Json := #[]
  for op in ops do
    let l ← arr op
    match ← str (← nth l 0) with
    | "base" =>
      let (t, st') := st.newTask (← str (← nth l 1)) .base
      st := st'; outs := outs.push (Json.mkObj [("ok", jnat t)])
    | "use" =>
      let (r, st') := getTask v st (← useReq l 1)
      st := st'; outs := outs.push (jres r)
    | "factory" =>
      let (f, st') := newFactory st (← str (← nth l 1)) (← kvs (← nth l 2))
      st := st'; outs := outs.push (jnat f)
    | "copy" =>
      let f ← nat (← nth l 1)
      match st.factories[f]? with
      | some fac => let (g, st') := newFactory st fac.name fac.defaults; st := st'; outs := outs.push (jnat g)
      | none => throw "bad-factory"
    | "make" =>
      let (r, st') := make v st (← nat (← nth l 1)) (← makeReq l 2)
      st := st'; outs := outs.push (jres r)
    | "userun" =>
      let posts ← listOf func (← nth l 2)
      let (r, st') := useRunCall v st (← nat (← nth l 1)) posts (← makeReq l 3)
      st := st'; outs := outs.push (jres r)
    | "close" =>
      let tasks ← listOf nat (← nth l 1)
      let st0 := st
      let deps : Nat → List Nat := fun t => match lookup st0.behaviour t with
        | some (.use r) => r.injected
        | some (.run _ r) => r.deps ++ r.softDeps
        | _ => []
      let all := closeDeps deps (st.next + 1) tasks
      let sorted := (all.toArray.qsort (· < ·)).toList
      outs := outs.push (Json.mkObj [("tasks", jnats sorted), ("nodup", jbool (decide all.Nodup)),
        ("unique", jbool (uniqueNames (all.map st.nameOf)))])
    | "closegraph" =>
      -- close_dependency_graph on an explicit graph of `n` fresh tasks (cycles allowed): [n, [[t, d], ...], roots]
      let n ← nat (← nth l 1)
      let edges ← listOf (fun e => do let p ← arr e; pure ((← nat (← nth p 0)), (← nat (← nth p 1)))) (← nth l 2)
      let roots ← listOf nat (← nth l 3)
      let deps : Nat → List Nat := fun t => (edges.filter (·.1 == t)).map (·.2)
      let all := closeDeps deps (n + 1) roots
      let sorted := (all.toArray.qsort (· < ·)).toList
      outs := outs.push (Json.mkObj [("tasks", jnats sorted), ("nodup", jbool (decide all.Nodup))])
    | s => throw s!"bad-op {s}"
  let beh := st.behaviour.map fun (t, b) => jl [jnat t, jbeh st b]
  pure (Json.mkObj [("outs", Json.arr outs), ("tasks", jl beh), ("names", jstrs (st.names.map (·.2)))])

end Drv.Use
