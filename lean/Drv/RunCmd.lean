import Drv.Util
import Model.RunCmd
open Lean Drv

namespace Drv.RunCmd
open _root_.RunCmd

def cli (j : Json) : R Cli := do
  let echo ← str (← fld j "echo")
  let r ← fld j "res"
  if r.isNull then pure ⟨echo, .spawnError⟩
  else
    let l ← arr r
    pure ⟨echo, .exited (← int (← nth l 0)) (← str (← nth l 1)) (← str (← nth l 2))⟩

def run (j : Json) : R Json := do
  let name ← str (← fld j "name")
  let clis ← listOf cli (← fld j "clis")
  let out := runTask name.toList clis
  let st := match finalStatus out with | .done => "DONE" | .failed => "FAILED"
  pure (match out with
    | .done codes o e dir | .failedReturned codes o e dir =>
      Json.mkObj [("status", Json.str st), ("raised", jbool false), ("codes", jl (codes.map jint)),
                  ("stdout", Json.str o), ("stderr", Json.str e), ("dir", Json.str (String.ofList dir))]
    | .raisedInTask => Json.mkObj [("status", Json.str st), ("raised", jbool true)])

end Drv.RunCmd
