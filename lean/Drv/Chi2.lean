import Drv.Util
import Model.Chi2
open Lean Drv

namespace Drv.Chi2
open _root_.Chi2

def bins (j : Json) : R (List (Bin Float)) := do
  let v ← listOf flt (← fld j "v")
  let e ← listOf flt (← fld j "e")
  pure ((v.zip e).map fun (a, b) => ⟨a, b⟩)

/-- input: {"ref": {...}, "dss": [{...}], "ignore": bool, "alpha": bits, "p": [bits]} -/
def run (j : Json) : R Json := do
  let ref ← bins (← fld j "ref")
  let dss ← listOf bins (← fld j "dss")
  let ignore ← bool (← fld j "ignore")
  let alpha ← flt (← fld j "alpha")
  let ps ← listOf flt (← fld j "p")
  pure (Json.mkObj [
    ("chi2", jl (dss.map fun ds => jflt (chi2 ignore ref ds))),
    ("ndf", jnats (dss.map fun ds => ndf ignore ref ds)),
    ("oracles", jl ((oracles alpha ps).map jbool)),
    ("verdict", jbool (verdict alpha ps))])

end Drv.Chi2
