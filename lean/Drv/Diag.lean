import Drv.Util
import Drv.Browser
import Model.Diag
open Lean Drv

namespace Drv.Diag
open _root_.Diag

def testRes (j : Json) : R TestRes := do
  pure { verdict := ← bool (← fld j "verdict"), name := ← nat (← fld j "name"), fp := ← nat (← fld j "fp"),
         labels := ← listOf Drv.Browser.kv (← fld j "labels") }

def taskRes (j : Json) : R TaskRes := do
  pure { name := ← nat (← fld j "name"), status := ← nat (← fld j "status"),
         results := ← optOf (listOf testRes) (fldD j "results" Json.null) }

def jnf (x : NF) : Json := jl [jnat x.1, jopt jnat x.2]
def jcls (c : Classify) : Json := jl (c.map fun (k, l) => jl [jnat k, jl (l.map jnf)])

def run (j : Json) : R Json := do
  let ts ← listOf taskRes (← fld j "tasks")
  let ct := evalTasks ts
  let ce := evalTests ts
  let byl ← optOf (listOf str) (fldD j "byLabels" Json.null)
  let jb : Json := match byl with
    | none => Json.null
    | some labs =>
      match evalByLabels ts labs with
      | none => Json.str "exception"
      | some r => Json.mkObj [
          ("rows", jl (r.rows.map fun t => jl [jl (t.labels.map Drv.Browser.jval), jnat t.ok, jnat t.ko, jnat t.total])),
          ("nLabels", jnat r.nLabels), ("bool", jbool r.bool), ("missing", jint r.nbMissing),
          ("oracles", jl (r.oracles.map jbool))]
  pure (Json.mkObj [("tasks", jcls ct), ("tasksBool", jbool (boolTasks ct)),
                    ("tests", jcls ce), ("testsBool", jbool (boolTests ce)), ("byLabels", jb)])

def readOp (j : Json) : R ReadOp := do
  let l ← arr j
  match ← str (← nth l 0) with
  | "bool" => pure .bool
  | "len" => pure .len
  | "view" => pure .view
  | "get" => pure (.get (← nat (← nth l 1)))
  | "contains" => pure (.contains (← nat (← nth l 1)))
  | "countsPinned" => pure (.countsPinned (← nat (← nth l 1)) (← listOf nat (← nth l 2)))
  | "counts" => pure (.counts (← nat (← nth l 1)) (← listOf nat (← nth l 2)))
  | s => throw s!"bad-op {s}"

/-- C13: apply a sequence of reads to the classification of a task/test summary;
prints the dictionary and the verdict after every read. -/
def runReads (j : Json) : R Json := do
  let ts ← listOf taskRes (← fld j "tasks")
  let kind ← str (← fld j "kind")
  let ops ← listOf readOp (← fld j "ops")
  let mut c := if kind == "tasks" then evalTasks ts else evalTests ts
  let bf := if kind == "tasks" then boolTasks else boolTests
  let mut outs : Array Json := #[jl [jcls c, jbool (bf c)]]
  for op in ops do
    c := applyRead c op
    outs := outs.push (jl [jcls c, jbool (bf c)])
  pure (Json.arr outs)

end Drv.Diag
