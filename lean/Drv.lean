import Drv.Browser
import Drv.Diag
import Drv.Slice
import Drv.Bonf
import Drv.DepGraph
import Drv.EnvP
import Drv.RunCmd
import Drv.Report
