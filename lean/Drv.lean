import Drv.Browser
