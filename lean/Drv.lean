import Drv.Browser
import Drv.Diag
