import Drv.Browser
import Drv.Diag
import Drv.Slice
