import Props.C17
import Props.C18
import Props.C09
import Props.C06
import Props.C16
import Props.C14
import Props.C19
import Props.C20
