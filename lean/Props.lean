import Props.C17
import Props.C18
