import Props.C17
