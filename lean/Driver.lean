import Drv.Browser
import Drv.Diag
import Drv.Slice
import Drv.Bonf
import Drv.DepGraph
import Drv.EnvP
import Drv.RunCmd
import Drv.Report
import Drv.Use
import Drv.Sched
import Drv.DSet
import Drv.Student
import Drv.Chi2
import Drv.Table
import Drv.T4Scan
import Drv.T4Spec
import Drv.Ap3
open Lean

def dispatch (model : String) (j : Json) : Except String Json :=
  match model with
  | "browser" => Drv.Browser.run j
  | "diag" => Drv.Diag.run j
  | "slice" => Drv.Slice.run j
  | "dset" => Drv.DSet.run j
  | "student" => Drv.Student.run j
  | "chi2" => Drv.Chi2.run j
  | "table" => Drv.Table.run j
  | "t4scan" => Drv.T4Scan.run j
  | "t4spec" => Drv.T4Spec.run j
  | "ap3" => Drv.Ap3.run j
  | "bonf" => Drv.Bonf.run j
  | "depgraph" => Drv.DepGraph.run j
  | "envp" => Drv.EnvP.run j
  | "runcmd" => Drv.RunCmd.run j
  | "report" => Drv.Report.run j
  | "use" => Drv.Use.run j
  | "sched" => Drv.Sched.run j
  | "decide" => Drv.Sched.runDecide j
  | "diagreads" => Drv.Diag.runReads j
  | _ => throw s!"bad-model {model}"

partial def loop (h : IO.FS.Stream) (out : IO.FS.Stream) : IO Unit := do
  let line ← h.getLine
  if line.isEmpty then return ()
  let line := line.trimAscii.toString
  if line.isEmpty then loop h out else
  let (model, rest) :=
    match line.splitOn " " with
    | m :: r => (m, " ".intercalate r)
    | [] => ("", "")
  let res := match Json.parse rest with
    | .error e => s!"!bad-json {e}"
    | .ok j => match dispatch model j with
      | .ok r => r.compress
      | .error e => s!"!{e}"
  out.putStrLn res
  out.flush
  loop h out

def main : IO Unit := do loop (← IO.getStdin) (← IO.getStdout)
