import Proofs.Browser
import Proofs.Diag
import Proofs.XReal
import Proofs.Bonferroni
import Proofs.DepGraph
import Proofs.EnvPersist
import Proofs.Use
