import Proofs.Browser
import Proofs.Diag
