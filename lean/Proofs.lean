import Proofs.Browser
