import Props.C18
#print axioms Diag.tasks_partition
#print axioms Diag.tests_partition
#print axioms Diag.testEvents_spec
#print axioms Diag.tasks_success_iff
#print axioms Diag.tests_success_iff
#print axioms Diag.labels_row_sum
#print axioms Diag.labels_n
#print axioms Diag.labels_success_iff
#print axioms Diag.labels_rows_exact
#print axioms Diag.labels_total
#print axioms Diag.carries_unique
#print axioms Diag.rloop_exact
