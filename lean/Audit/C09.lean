import Props.C09
#print axioms Slice.normBound_spec
#print axioms Slice.slice_cells
#print axioms Slice.slice_length
#print axioms Slice.slice_bins_edges
#print axioms Slice.slice_bins_centres
#print axioms Slice.slice_wf
#print axioms Slice.empty_selection_empty
#print axioms Slice.c09_pinned_refuted
#print axioms Slice.sliceND_length
#print axioms Slice.sliceND_cells
#print axioms Slice.squeeze_drops_unit_axes
