import Props.C10
#print axioms T4Spec.error_eq_value_times_sigma
#print axioms T4Spec.energy_bins_increasing
#print axioms T4Spec.energy_score_attached
#print axioms T4Spec.orient_edges
#print axioms T4Spec.orient_cells
#print axioms T4Spec.decreasing_iff
#print axioms T4Spec.convert_energy_axis
#print axioms T4Spec.convert_single
#print axioms T4Spec.fillRows_single
#print axioms T4Spec.all_axes_score_attached
#print axioms T4Spec.axis_bins_increasing
#print axioms T4Spec.time_edges_collected
#print axioms T4Spec.score_at_cursor
#print axioms T4Spec.fill_cells
#print axioms T4Spec.convert_ok
