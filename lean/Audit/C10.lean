import Props.C10
#print axioms T4Spec.error_eq_value_times_sigma
#print axioms T4Spec.energy_bins_increasing
#print axioms T4Spec.energy_score_attached
#print axioms T4Spec.orient_edges
#print axioms T4Spec.orient_cells
#print axioms T4Spec.decreasing_iff
#print axioms T4Spec.convert_energy_axis
#print axioms T4Spec.convert_single
#print axioms T4Spec.fillRows_single
