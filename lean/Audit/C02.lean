import Props.C02
#print axioms Sched.final_status_eq_spec
#print axioms Sched.schedule_independent
#print axioms Sched.soft_never_blocks
#print axioms Sched.InvB_step
#print axioms Sched.InvB_init
#print axioms Sched.spec_eq
#print axioms Sched.exec_at_most_once
#print axioms Sched.exec_count_eq_spec
#print axioms Sched.InvE_step
