import Props.C14
#print axioms EnvP.simpleCodec_good
#print axioms EnvP.read_total
#print axioms EnvP.roundtrip
#print axioms EnvP.never_spurious_done
#print axioms EnvP.history_inv
#print axioms EnvP.bad_file_not_done
#print axioms EnvP.c14_pinned_refuted
