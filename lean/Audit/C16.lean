import Props.C16
#print axioms DG.rlist_append_inv
#print axioms DG.rlist_setItem_inv
#print axioms DG.rlist_delItem_inv
#print axioms DG.rlist_insert_inv
#print axioms DG.rlist_swap_inv
#print axioms DG.rlist_ofList_inv
#print axioms DG.rlist_getIndex_spec
#print axioms DG.addNode_refines
#print axioms DG.addDep_refines
#print axioms DG.removeDep_refines
#print axioms DG.removeNode_refines
#print axioms DG.step_refines
#print axioms DG.history_refines
#print axioms DG.history_errors
#print axioms DG.dependencies_spec
#print axioms DG.c16_pinned_refuted
