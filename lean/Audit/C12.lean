import Props.C12
#print axioms Table.mark_iff_false
#print axioms Table.stats_empty_no_mark
#print axioms Table.student_rows_eq_failing
#print axioms Table.fullTable_marks_failing
#print axioms Table.readRow_dataRow
#print axioms Table.strip_padLeft
#print axioms Table.highlight_strip
#print axioms Table.slice_aligned
#print axioms Table.join_aligned
#print axioms Table.c12_pinned_refuted
