import Props.C15
#print axioms UseM.task_runs_its_own_request
#print axioms UseM.different_request_not_shared
#print axioms UseM.same_request_same_task
#print axioms UseM.history_good
#print axioms UseM.make_runs_its_own_request
#print axioms UseM.close_nodup
#print axioms UseM.close_sound
#print axioms UseM.close_closed
#print axioms UseM.close_complete
#print axioms UseM.close_complete_bounded
#print axioms UseM.duplicate_names_rejected
#print axioms UseM.c15_pinned_refuted
