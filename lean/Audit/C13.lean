import Props.C13
#print axioms Diag.reads_are_identity
#print axioms Diag.verdict_stable
#print axioms Diag.reads_prefix_identity
#print axioms Diag.counts_eq
#print axioms Diag.clsGet_clsIndex
#print axioms Diag.c13_pinned_refuted
#print axioms Diag.arrays_partial
