import Props.C05
#print axioms Student.verdict_iff_all_bins
#print axioms Student.oracle_iff_ratio
#print axioms Student.tStat_symm
#print axioms Student.oracle_symmetric
#print axioms Student.scale_invariant
#print axioms Student.monotone_diff
#print axioms Student.monotone_err
#print axioms Student.one_sided_nan_value_false
#print axioms Student.one_sided_nan_error_false
#print axioms Student.zero_zero_passes
#print axioms Student.pvalue_agrees
#print axioms Student.verdict_false_of_bad_bin
