import Props.C19
#print axioms RunCmd.done_iff_all_zero
#print axioms RunCmd.codes_are_prefix
#print axioms RunCmd.not_run_after_failure
#print axioms RunCmd.spawn_error_fails_task_not_run
#print axioms RunCmd.output_in_order
#print axioms RunCmd.outdir_injective
#print axioms RunCmd.bad_name_fails_task
#print axioms RunCmd.status_total
#print axioms RunCmd.build_eq_run
#print axioms RunCmd.build_done_iff
