import Props.C08
#print axioms DSet.add_err
#print axioms DSet.sub_err
#print axioms DSet.mul_err_rel
#print axioms DSet.div_err_rel
#print axioms DSet.scalar_scales_err
#print axioms DSet.opDS_value
#print axioms DSet.opDS_wf
#print axioms DSet.opDS_keeps_left
#print axioms DSet.opDS_err_nonneg
#print axioms DSet.opScalar_err_nonneg
#print axioms DSet.opArray_err_nonneg
#print axioms DSet.opScalar_wf
#print axioms DSet.opArray_wf
#print axioms DSet.squeeze_wf
#print axioms DSet.chain_wf_nonneg
#print axioms DSet.c08_pinned_refuted
