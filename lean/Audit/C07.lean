import Props.C07
#print axioms Chi2.ndf_eq_count
#print axioms Chi2.left_out_iff_both_zero
#print axioms Chi2.left_out_not_counted
#print axioms Chi2.term_eq_ratio
#print axioms Chi2.chi2_perm_invariant
#print axioms Chi2.ndf_perm_invariant
#print axioms Chi2.verdict_iff_all_p
#print axioms Chi2.nan_never_passes
#print axioms Chi2.chi2_all_used
#print axioms Chi2.sum_nan_of_mem
