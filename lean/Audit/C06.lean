import Props.C06
#print axioms Bonf.bonf_flag_iff
#print axioms Bonf.bonf_pinned_refuted
#print axioms Bonf.holm_ranks_perm
#print axioms Bonf.holm_ranks_sorted
#print axioms Bonf.holm_flag_rank
#print axioms Bonf.holm_position_has_rank
#print axioms Bonf.holm_rank_rule
#print axioms Bonf.holm_pinned_refuted
#print axioms Bonf.nan_never_accepted
#print axioms Bonf.verdict_iff_no_flag
#print axioms Bonf.bonf_subset_holm_partial
#print axioms Bonf.bonf_subset_holm_edge
#print axioms Bonf.student_pass_passes_both
#print axioms Bonf.argsortNat_inv
