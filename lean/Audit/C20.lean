import Props.C20
#print axioms Rep.pages_bijective
#print axioms Rep.no_overwrite
#print axioms Rep.result_exactly_once
#print axioms Rep.toc_targets_written
#print axioms Rep.figures_written
#print axioms Rep.bad_title_writes_nothing
#print axioms Rep.write_ok_iff
#print axioms Rep.c20_pinned_refuted
