import Props.C17
#print axioms Browser.index_spec
#print axioms Browser.filterIds_spec
#print axioms Browser.pick_eq_scan
#print axioms Browser.filter_eq_scan
#print axioms Browser.filter_keeps_globals_datakey
#print axioms Browser.filter_pinned_refuted
#print axioms Browser.select_single_or_error
#print axioms Browser.merge_concat
#print axioms Browser.chain_eq_scan
