import Props.C01
#print axioms Sched.dep_safe_inv
#print axioms Sched.InvA_step
#print axioms Sched.InvA_init
#print axioms Sched.InvA_reach
#print axioms Sched.step_sound
#print axioms Sched.decide_spec
#print axioms Sched.seen_is_snapshot
