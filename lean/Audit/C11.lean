import Props.C11
#print axioms T4Scan.scanLines_append
#print axioms T4Scan.step_history
#print axioms T4Scan.prefix_history
#print axioms T4Scan.cut_line_at_most_one
#print axioms T4Scan.collres_of_history
#print axioms T4Scan.repaired_never_crashes
#print axioms T4Scan.c11_pinned_refuted
