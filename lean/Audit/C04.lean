import Props.C04
#print axioms Sched.rerun_consistent
#print axioms Sched.rerun_envcons
#print axioms Sched.EnvCons_sub
#print axioms Sched.decided_final_frozen
#print axioms Sched.InvD_step
#print axioms Sched.InvD_init
#print axioms Sched.decide_drop_clocks
#print axioms Sched.fresh_not_rerun
#print axioms Sched.freshSet_of_envcons
#print axioms Sched.InvF_step
#print axioms Sched.decide_fresh
