import Props.C03
#print axioms Sched.no_deadlock
#print axioms Sched.clean_exit
#print axioms Sched.raises_iff_cyclic
#print axioms Sched.InvC_step
#print axioms Sched.InvC_init
#print axioms Sched.Inv_reach
#print axioms Sched.bounded_executions
#print axioms Sched.always_terminates
#print axioms Sched.mu_decreases
#print axioms Sched.InvG_step
