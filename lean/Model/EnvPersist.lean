/-
Model of the environment persistence: valjean/cosette/env.py (`Env.from_file`, `Env.to_file`,
`Env.merge_done_tasks`) and valjean/cambronne/common.py (`read_env`, `write_env`) — property C14.

A file system maps a directory (a `Nat`; the directory `root/<task>` of task `t` has id `t`) to the content
of its environment file.  `pickle` is a parameter (`Codec`): what `pickle.load` does on a byte string is
either an object (an `Env`, or something that is not an `Env`) or one of the exception kinds.
-/
namespace EnvP

inductive Status | waiting | pending | done | failed | skipped
  deriving DecidableEq, Repr

structure Entry where
  status : Status
  outputDir : Option Nat
  payload : Nat
  deriving DecidableEq, Repr

/-- an `Env` is a dict: task name ↦ entry -/
abbrev Env := List (Nat × Entry)

def Env.get : Env → Nat → Option Entry
  | [], _ => none
  | (k, v) :: r, t => if k = t then some v else Env.get r t

/-- `env[t] = v` -/
def Env.set : Env → Nat → Entry → Env
  | [], t, v => [(t, v)]
  | (k, v') :: r, t, v => if k = t then (k, v) :: r else (k, v') :: Env.set r t v

/-- exception kinds raised by `pickle.load` -/
inductive LoadErr | eof | unpickling | value | attribute | importErr | index | other
  deriving DecidableEq, Repr

inductive Loaded
  | env (e : Env)
  | notEnv
  deriving Repr

structure Codec where
  dump : Env → List Nat
  load : List Nat → Except LoadErr Loaded

abbrev FS := List (Nat × List Nat)

def FS.get : FS → Nat → Option (List Nat)
  | [], _ => none
  | (k, v) :: r, d => if k = d then some v else FS.get r d

def FS.set : FS → Nat → List Nat → FS
  | [], d, v => [(d, v)]
  | (k, v') :: r, d, v => if k = d then (k, v) :: r else (k, v') :: FS.set r d v

def FS.erase (fs : FS) (d : Nat) : FS := fs.filter (·.1 ≠ d)

inductive Variant | pinned | fixed
  deriving DecidableEq, Repr

/-- the `except` clauses of `from_file` -/
def caught : Variant → LoadErr → Bool
  | .pinned, .value => true
  | .pinned, _ => false
  | .fixed, .other => false
  | .fixed, _ => true

inductive FromFile
  | none                    -- `from_file` returned `None`
  | env (e : Env)           -- it returned an environment
  | obj                     -- it returned something that is not an `Env` (pinned code only)
  | raised (k : LoadErr)    -- it raised

def fromFile (v : Variant) (c : Codec) (fs : FS) (dir : Nat) : FromFile :=
  match fs.get dir with
  | none => .none                                      -- IOError, errno 2
  | some bytes =>
    match c.load bytes with
    | .ok (.env e) => .env e
    | .ok .notEnv => match v with | .fixed => .none | .pinned => .obj
    | .error k => if caught v k then .none else .raised k

/-- `merge_done_tasks` -/
def mergeDone (self other : Env) : Env :=
  other.foldl (fun acc (p : Nat × Entry) => if p.2.status = .done then acc.set p.1 p.2 else acc) self

/-- `read_env(root, names, …)` -/
def readEnv (v : Variant) (c : Codec) (fs : FS) : List Nat → Env → Except LoadErr Env
  | [], env => .ok env
  | t :: names, env =>
    match fromFile v c fs t with
    | .none => readEnv v c fs names env
    | .env pe => readEnv v c fs names (mergeDone env pe)
    | .obj => .error .attribute                         -- `merge_done_tasks` calls `.items()` on it
    | .raised k => .error k

/-- `write_env(env, …)`: one file per task that has an `output_dir` -/
def writeEnv (c : Codec) (fs : FS) (env : Env) : FS :=
  env.foldl (fun fs (p : Nat × Entry) =>
    match p.2.outputDir with
    | some d => fs.set d (c.dump [(p.1, p.2)])
    | none => fs) fs

/-- `write_env` killed while writing: the tasks before position `n` are written completely, the file of
the `n`-th one holds only the first `k` bytes (`open(path, 'wb')` truncates, then bytes are appended),
the others are not touched -/
def writeEnvCrash (c : Codec) (fs : FS) (env : Env) (n k : Nat) : FS :=
  let fs := writeEnv c fs (env.take n)
  match env[n]? with
  | some (t, ent) =>
    match ent.outputDir with
    | some d => fs.set d ((c.dump [(t, ent)]).take k)
    | none => fs
  | none => fs

/-! ### A concrete prefix-free codec (what the model driver runs; also shows the codec hypotheses are satisfiable) -/

def Status.code : Status → Nat
  | .waiting => 1 | .pending => 2 | .done => 3 | .failed => 4 | .skipped => 5

def Status.ofCode : Nat → Option Status
  | 1 => some .waiting | 2 => some .pending | 3 => some .done | 4 => some .failed | 5 => some .skipped
  | _ => none

def stop : Nat := 255

def encEntries : Env → List Nat
  | [] => []
  | (t, e) :: r => t :: e.status.code :: (match e.outputDir with | some d => [1, d] | none => [0, 0]) ++ e.payload :: encEntries r

def simpleDump (e : Env) : List Nat := 0 :: e.length :: encEntries e ++ [stop]

def parseEntries : Nat → List Nat → Option (Env × List Nat)
  | 0, l => some ([], l)
  | n + 1, t :: s :: h :: d :: p :: rest =>
    match Status.ofCode s, parseEntries n rest with
    | some st, some (es, r) =>
      if h = 1 then some ((t, ⟨st, some d, p⟩) :: es, r)
      else if h = 0 ∧ d = 0 then some ((t, ⟨st, none, p⟩) :: es, r) else none
    | _, _ => none
  | _ + 1, _ => none

def LoadErr.ofCode : Nat → LoadErr
  | 0 => .eof | 1 => .unpickling | 2 => .value | 3 => .attribute | 4 => .importErr | 5 => .index | _ => .other

/-- an encoding starts with the tag `0`; besides encodings and their prefixes, `[1]` is a valid pickle of
something that is not an `Env` and `[2, k]` is a byte string on which `pickle.load` raises the exception of kind `k` -/
def simpleLoad : List Nat → Except LoadErr Loaded
  | [] => .error .eof
  | [1] => .ok .notEnv
  | [2, k] => .error (LoadErr.ofCode k)
  | 0 :: n :: rest =>
    match parseEntries n rest with
    | some (e, [s]) => if s = stop then .ok (.env e) else .error .unpickling
    | _ => .error .unpickling
  | _ => .error .unpickling

def simpleCodec : Codec := ⟨simpleDump, simpleLoad⟩

end EnvP
