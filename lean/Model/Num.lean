/-
The numeric interface shared by the statistics / dataset models (C05–C08).
`instance : Num Float` is what the driver runs (IEEE-754 binary64, compared bit-for-bit with numpy);
`instance : Num XReal` (Proofs/XReal.lean) is what the theorems are about: exact reals + IEEE special values.
-/
class Num (α : Type) where
  add : α → α → α
  sub : α → α → α
  mul : α → α → α
  div : α → α → α
  neg : α → α
  sqrt : α → α
  abs : α → α
  ofNat : Nat → α
  lt : α → α → Bool
  le : α → α → Bool
  beq : α → α → Bool
  isNaN : α → Bool

instance : Num Float where
  add := (· + ·)
  sub := (· - ·)
  mul := (· * ·)
  div := (· / ·)
  neg := (- ·)
  sqrt := Float.sqrt
  abs := Float.abs
  ofNat := Float.ofNat
  lt := fun a b => a < b
  le := fun a b => a ≤ b
  beq := fun a b => a == b
  isNaN := Float.isNaN

namespace Num
variable {α : Type} [Num α]
def zero : α := Num.ofNat 0
def one : α := Num.ofNat 1
def sq (x : α) : α := Num.mul x x
/-- `np.sqrt(e1**2 + e2**2)` -/
def quadSum (e1 e2 : α) : α := Num.sqrt (Num.add (sq e1) (sq e2))
def gt (a b : α) : Bool := Num.lt b a
def ge (a b : α) : Bool := Num.le b a
end Num
