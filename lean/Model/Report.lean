/-
Model of the report writer: valjean/javert/rst.py (`Rst.format_report_rec`, `FormattedRst.write`,
`_write_rec`, `tree_to_path`, `toc`, `setup`) and valjean/path.py (`sanitize_filename`) — property C20.

A report is a rose tree of sections; the leaves are results (an anchor id and, possibly, a plot id).
The model works on the tree: for trees whose sibling sections have distinct titles this is what the code's
two dictionaries (`text_dict`, `tree_dict`, keyed by chains of titles) encode; trees with equally titled
siblings (whose pages the code merges) are outside this model (`Report.distinctSiblings`).
-/
namespace Rep

structure ResultSpec where
  id : Nat
  plot : Option Nat
  deriving Repr, DecidableEq

mutual
inductive Report where
  | node (title : String) (items : Items)
inductive Items where
  | nil
  | sec (r : Report) (rest : Items)
  | res (r : ResultSpec) (rest : Items)
end

def Report.title : Report → String
  | .node t _ => t

abbrev Chain := List String

structure Page where
  chain : Chain                 -- chain of titles below the root; [] is the root page
  anchors : List Nat            -- results shown on this page, in order
  images : List Nat             -- plots referenced by this page
  toc : List (List String)      -- toctree entries: the last two components of each subsection's chain
  deriving Repr, DecidableEq

/-- `subtree[-2:]` -/
def lastTwo (c : Chain) : List String := c.drop (c.length - 2)

def Items.anchors : Items → List Nat
  | .nil => []
  | .sec _ rest => rest.anchors
  | .res r rest => r.id :: rest.anchors

def Items.images : Items → List Nat
  | .nil => []
  | .sec _ rest => rest.images
  | .res r rest => (match r.plot with | some p => [p] | none => []) ++ rest.images

def Items.tocEntries (chain : Chain) : Items → List (List String)
  | .nil => []
  | .sec r rest => lastTwo (chain ++ [r.title]) :: rest.tocEntries chain
  | .res _ rest => rest.tocEntries chain

def Items.childTitles : Items → List String
  | .nil => []
  | .sec r rest => r.title :: rest.childTitles
  | .res _ rest => rest.childTitles

mutual
/-- pages in the order `_write_rec` writes them (pre-order) -/
def Report.pages (chain : Chain) : Report → List Page
  | .node _ items => ⟨chain, items.anchors, items.images, items.tocEntries chain⟩ :: items.subPages chain
def Items.subPages (chain : Chain) : Items → List Page
  | .nil => []
  | .sec r rest => r.pages (chain ++ [r.title]) ++ rest.subPages chain
  | .res _ rest => rest.subPages chain
end

mutual
def Report.distinctSiblings : Report → Bool
  | .node _ items => items.childTitles.Nodup && items.allDistinct
def Items.allDistinct : Items → Bool
  | .nil => true
  | .sec r rest => r.distinctSiblings && rest.allDistinct
  | .res _ rest => rest.allDistinct
end

mutual
/-- depth of the deepest section (the root has depth 0) -/
def Report.depth : Report → Nat
  | .node _ items => items.maxDepth
def Items.maxDepth : Items → Nat
  | .nil => 0
  | .sec r rest => max (r.depth + 1) rest.maxDepth
  | .res _ rest => rest.maxDepth
end

/-- `sanitize_filename` (repaired: the empty string is rejected as well) -/
def validTitle (t : String) : Bool :=
  !(t.toList.contains '\x00') && !(t.toList.contains '/') && t ≠ "." && t ≠ ".." && t ≠ ""

/-- the file a page is written to, as path components below the report directory (`.rst` is appended to the last) -/
def pagePath (chain : Chain) : List String := if chain = [] then ["index"] else chain

inductive WErr | badTitle | tooDeep | collision
  deriving Repr, DecidableEq

structure Written where
  setup : List (List String)        -- conf.py, .static/valjean.css
  pages : List Page
  figures : List Nat                -- plot ids written to figures/plot_<id>.png (a dict: no duplicates)
  deriving Repr

def HEADER_LEVELS : Nat := 5

/-- the file of a page: `.rst` appended to the last component -/
def rstFile (c : List String) : List String :=
  match c.reverse with
  | [] => []
  | l :: r => r.reverse ++ [l ++ ".rst"]

/-- the non-empty proper prefixes of a path: the directories that must exist for it -/
def parentDirs (c : List String) : List (List String) :=
  (List.range c.length).filterMap fun n => if 0 < n then some (c.take n) else none

def setupFiles : List (List String) := [["conf.py"], [".static", "valjean.css"]]
def setupDirs : List (List String) := [["figures"], [".static"], [".templates"]]

def allFiles (pages : List Page) : List (List String) := setupFiles ++ pages.map fun p => rstFile (pagePath p.chain)
def allDirs (pages : List Page) : List (List String) := setupDirs ++ (allFiles pages).flatMap parentDirs

/-- `check_paths`: no two files share a path, no file is also a directory of the report -/
def pathsOk (pages : List Page) : Bool :=
  (allFiles pages).Nodup && (allFiles pages).all fun f => !(allDirs pages).contains f

/-- `Rst.format_report` followed by `FormattedRst.write` (repaired code): everything is checked before
anything is written -/
def write (r : Report) : Except WErr Written :=
  let pages := r.pages []
  if r.depth ≥ HEADER_LEVELS then .error .tooDeep            -- `RstFormatter.header` raises while formatting
  else if !(pages.all fun p => p.chain.all validTitle) then .error .badTitle
  else if !(pathsOk pages) then .error .collision
  else .ok { setup := setupFiles, pages := pages,
             figures := (pages.flatMap (·.images)).eraseDups }

/-- the pinned `write`: titles are checked page by page while writing, the root page is not protected.
Returns the files written before the exception (if any). -/
def writePinnedLog (r : Report) : List (List String) × Option WErr :=
  let pages := r.pages []
  let rec go : List Page → List (List String) → List (List String) × Option WErr
    | [], log => (log, none)
    | p :: ps, log =>
      if p.chain.all (fun t => !(t.toList.contains '\x00') && !(t.toList.contains '/') && t ≠ "." && t ≠ "..")
      then go ps (log ++ [pagePath p.chain])
      else (log, some .badTitle)
  go pages [["conf.py"], [".static", "valjean.css"]]

/-- toctree entries are relative to the directory of the page that lists them -/
def resolveToc (p : Page) (entry : List String) : List String := (pagePath p.chain).dropLast ++ entry

end Rep
