/-
Model of the task generators: valjean/cosette/use.py (`Use.get_task`, `UseRun.__call__`), valjean/cosette/run.py
(`RunTaskFactory.make`/`copy`), valjean/cosette/task.py (`close_dependency_graph`) and
valjean/cambronne/common.py (`check_unique_task_names`) — property C15.

Task objects are identities (`Nat`); functions are identities with a `__name__`.  A generated task records the
request it was generated from (its *behaviour*: the function and the injected tasks/keys, or the command line
and dependencies).  `det_hash` is modelled as an injective name (the hashed content itself).
-/
namespace UseM

abbrev TaskId := Nat

structure Func where
  id : Nat
  name : String
  deriving DecidableEq, Repr

inductive DepsType | hard | soft
  deriving DecidableEq, Repr

structure UseReq where
  func : Func
  injArgs : List (TaskId × Option String)                 -- positional: (task, key)
  injKwargs : List (String × TaskId × Option String)      -- keyword ↦ (task, key), sorted by keyword
  depsType : DepsType
  serialize : Bool
  deriving DecidableEq, Repr

structure MakeReq where
  userName : Option String
  extraArgs : List String
  kwargs : List (String × String)            -- factory defaults updated with the call's keywords, sorted
  subprocessArgs : List (String × String)
  deps : List TaskId
  softDeps : List TaskId
  deriving DecidableEq, Repr

/-- the key of a factory's cache: the user-supplied name, or the hash of (factory name, extra args, kwargs) -/
inductive FKey where
  | user (name : String)
  | hashed (extraArgs : List String) (kwargs : List (String × String))
  deriving DecidableEq, Repr

inductive Behaviour where
  | base                                        -- a task that was not generated here
  | use (req : UseReq)
  | run (factory : Nat) (req : MakeReq)
  deriving DecidableEq, Repr

inductive Variant | pinned | fixed
  deriving DecidableEq, Repr

structure Factory where
  name : String
  defaults : List (String × String)
  cache : List (FKey × TaskId × MakeReq)
  deriving Repr

structure St where
  names : List (TaskId × String)              -- name of every task object, in creation order
  behaviour : List (TaskId × Behaviour)
  useCache : List (String × TaskId × UseReq)  -- `Use._CACHE` (class level)
  factories : List Factory
  next : TaskId
  deriving Repr

def St.init : St := ⟨[], [], [], [], 0⟩

def lookup {α β : Type} [DecidableEq α] : List (α × β) → α → Option β
  | [], _ => none
  | (k, v) :: r, a => if k = a then some v else lookup r a

def St.nameOf (st : St) (t : TaskId) : String := (lookup st.names t).getD ""

/-- a new task object -/
def St.newTask (st : St) (name : String) (b : Behaviour) : TaskId × St :=
  (st.next, { st with names := st.names ++ [(st.next, name)], behaviour := st.behaviour ++ [(st.next, b)],
                      next := st.next + 1 })

def insertSorted (s : String) : List String → List String
  | [] => [s]
  | x :: r => if s < x then s :: x :: r else x :: insertSorted s r

def sortStrings (l : List String) : List String := l.foldr insertSorted []

/-- the injected tasks, as a set -/
def UseReq.injected (r : UseReq) : List TaskId :=
  ((r.injKwargs.map fun x => x.2.1) ++ r.injArgs.map (·.1)).eraseDups

/-- `pytask_name` -/
def useName (st : St) (r : UseReq) : String :=
  match r.depsType with
  | .soft => r.func.name
  | .hard =>
    if r.injected.isEmpty then r.func.name
    else ",".intercalate (sortStrings (r.injected.map st.nameOf)) ++ "." ++ r.func.name

/-- what `get_task` remembers of a request: injected tasks count by *name* (injection reads `env[task.name]`) -/
def UseReq.sig (st : St) (r : UseReq) :
    Func × List (String × Option String) × List (String × String × Option String) × DepsType × Bool :=
  (r.func, r.injArgs.map (fun x => (st.nameOf x.1, x.2)),
   r.injKwargs.map (fun x => (x.1, st.nameOf x.2.1, x.2.2)), r.depsType, r.serialize)

def sameSig (st : St) (r r' : UseReq) : Bool :=
  decide (r.func = r'.func) && decide ((r.sig st).2.1 = (r'.sig st).2.1) && decide ((r.sig st).2.2.1 = (r'.sig st).2.2.1)
    && decide (r.depsType = r'.depsType) && decide (r.serialize = r'.serialize)

inductive Res where
  | ok (t : TaskId)
  | valueError
  deriving DecidableEq, Repr

/-- `Use.get_task()` -/
def getTask (v : Variant) (st : St) (r : UseReq) : Res × St :=
  let name := useName st r
  match lookup st.useCache name with
  | some (t, r') =>
    match v with
    | .pinned => (.ok t, st)
    | .fixed => if sameSig st r r' then (.ok t, st) else (.valueError, st)
  | none =>
    let (t, st) := st.newTask name (.use r)
    (.ok t, { st with useCache := st.useCache ++ [(name, t, r)] })

def mergeKw (defaults call : List (String × String)) : List (String × String) :=
  let d := defaults.filter fun p => (lookup call p.1).isNone
  let all := d ++ call
  let keys := sortStrings (all.map (·.1))
  keys.filterMap fun k => (lookup all k).map fun v => (k, v)

def setAt {α : Type} (l : List α) (i : Nat) (a : α) : List α := l.set i a

/-- `RunTaskFactory.make(...)`; `r.kwargs` are the keywords of the call (merged with the defaults here) -/
def make (v : Variant) (st : St) (f : Nat) (r : MakeReq) : Res × St :=
  match st.factories[f]? with
  | none => (.valueError, st)
  | some fac =>
    let kw := mergeKw fac.defaults r.kwargs
    let r := { r with kwargs := kw }
    let key : FKey := match r.userName with
      | some n => .user n
      | none => .hashed r.extraArgs kw
    match lookup fac.cache key with
    | some (t, r') =>
      match v with
      | .pinned => (.ok t, st)
      | .fixed =>
        if r.extraArgs = r'.extraArgs ∧ r.kwargs = r'.kwargs ∧ r.subprocessArgs = r'.subprocessArgs
            ∧ r.deps = r'.deps ∧ r.softDeps = r'.softDeps
        then (.ok t, st) else (.valueError, st)
    | none =>
      let tname := (match r.userName with | some n => n | none => "#" ++ toString (repr key)) ++ "." ++ fac.name
      let (t, st) := st.newTask tname (.run f r)
      (.ok t, { st with factories := setAt st.factories f { fac with cache := fac.cache ++ [(key, t, r)] } })

/-- `RunTaskFactory.copy()` / a new factory -/
def newFactory (st : St) (name : String) (defaults : List (String × String)) : Nat × St :=
  (st.factories.length, { st with factories := st.factories ++ [⟨name, defaults, []⟩] })

/-- `UseRun(factory, posts)(**kwargs)`: the run task, then one Python task per post-processing function,
each injecting the result of the previous one -/
def useRunCall (v : Variant) (st : St) (f : Nat) (posts : List Func) (r : MakeReq) : Res × St :=
  posts.foldl (fun (acc : Res × St) post =>
    match acc with
    | (.ok t, st) => getTask v st ⟨post, [(t, some "result")], [], .hard, false⟩
    | e => e) (make v st f r)

/-! ### collecting the tasks of a job -/

/-- `close_dependency_graph`: `deps t` = hard and soft dependencies of `t`; `fuel` bounds the number of rounds -/
def closeLoop (deps : TaskId → List TaskId) : Nat → List TaskId → List TaskId → List TaskId
  | 0, _, all => all
  | fuel + 1, queue, all =>
    if queue.isEmpty then all
    else
      let nxt := (queue.flatMap deps).eraseDups
      closeLoop deps fuel nxt (all ++ nxt.filter (· ∉ all))

def closeDeps (deps : TaskId → List TaskId) (fuel : Nat) (tasks : List TaskId) : List TaskId :=
  let q := tasks.eraseDups
  closeLoop deps fuel q q

/-- `check_unique_task_names`: `true` = accepted -/
def uniqueNames (names : List String) : Bool :=
  let rec go : List String → List String → Bool
    | [], _ => true
    | n :: r, seen => if n ∈ seen then false else go r (n :: seen)
  go names []

end UseM
