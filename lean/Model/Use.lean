/-
Model of the task generators: valjean/cosette/use.py (`Use.get_task`, `UseRun.__call__`), valjean/cosette/run.py
(`RunTaskFactory.make`/`copy`), valjean/cosette/task.py (`close_dependency_graph`) and
valjean/cambronne/common.py (`check_unique_task_names`) — property C15.

Task objects are identities (`Nat`); functions are identities with a `__name__`.  A generated task records the
request it was generated from (its *behaviour*: the function and the injected tasks/keys, or the command line
and dependencies).  `det_hash` is modelled as an injective name (the hashed content itself).
-/
namespace UseM

-- task objects are identities: natural numbers

structure Func where
  id : Nat
  name : String
  deriving DecidableEq, Repr

inductive DepsType | hard | soft
  deriving DecidableEq, Repr

structure UseReq where
  func : Func
  injArgs : List (Nat × Option String)                 -- positional: (task, key)
  injKwargs : List (String × Nat × Option String)      -- keyword ↦ (task, key), sorted by keyword
  depsType : DepsType
  serialize : Bool
  deriving DecidableEq, Repr

structure MakeReq where
  userName : Option String
  extraArgs : List String
  kwargs : List (String × String)            -- factory defaults updated with the call's keywords, sorted
  subprocessArgs : List (String × String)
  deps : List Nat
  softDeps : List Nat
  deriving DecidableEq, Repr

/-- the key of a factory's cache: the user-supplied name, or the hash of (factory name, extra args, kwargs) -/
inductive FKey where
  | user (name : String)
  | hashed (extraArgs : List String) (kwargs : List (String × String))
  deriving DecidableEq, Repr

inductive Behaviour where
  | base                                        -- a task that was not generated here
  | use (req : UseReq)
  | run (factory : Nat) (req : MakeReq)
  deriving DecidableEq, Repr

inductive Variant | pinned | fixed
  deriving DecidableEq, Repr

structure Factory where
  name : String
  defaults : List (String × String)
  cache : List (FKey × Nat × MakeReq)
  deriving Repr

structure St where
  names : List (Nat × String)              -- name of every task object, in creation order
  behaviour : List (Nat × Behaviour)
  useCache : List (String × Nat × UseReq)  -- `Use._CACHE` (class level)
  factories : List Factory
  next : Nat
  deriving Repr

def St.init : St := ⟨[], [], [], [], 0⟩

def lookup {α β : Type} [DecidableEq α] : List (α × β) → α → Option β
  | [], _ => none
  | (k, v) :: r, a => if k = a then some v else lookup r a

def St.nameOf (st : St) (t : Nat) : String := (lookup st.names t).getD ""

/-- a new task object -/
def St.newTask (st : St) (name : String) (b : Behaviour) : Nat × St :=
  (st.next, { st with names := st.names ++ [(st.next, name)], behaviour := st.behaviour ++ [(st.next, b)],
                      next := st.next + 1 })

def insertSorted (s : String) : List String → List String
  | [] => [s]
  | x :: r => if s < x then s :: x :: r else x :: insertSorted s r

def sortStrings (l : List String) : List String := l.foldr insertSorted []

/-- the injected tasks, as a set -/
def UseReq.injected (r : UseReq) : List Nat :=
  ((r.injKwargs.map fun x => x.2.1) ++ r.injArgs.map (·.1)).eraseDups

/-- `pytask_name` -/
def useName (st : St) (r : UseReq) : String :=
  match r.depsType with
  | .soft => r.func.name
  | .hard =>
    if r.injected.isEmpty then r.func.name
    else ",".intercalate (sortStrings (r.injected.map st.nameOf)) ++ "." ++ r.func.name

inductive Res where
  | ok (t : Nat)
  | valueError
  deriving DecidableEq, Repr

/-- the repaired cache: a task is reused only for the very same request -/
def findUse (cache : List (String × Nat × UseReq)) (name : String) (r : UseReq) : Option Nat :=
  (cache.find? fun e => decide (e.1 = name) && decide (e.2.2 = r)).map (·.2.1)

/-- `Use.get_task()` -/
def getTask (v : Variant) (st : St) (r : UseReq) : Res × St :=
  let name := useName st r
  let hit := match v with
    | .pinned => (lookup st.useCache name).map (·.1)     -- the pinned cache: by name only
    | .fixed => findUse st.useCache name r
  match hit with
  | some t => (.ok t, st)
  | none =>
    let (t, st) := st.newTask name (.use r)
    (.ok t, { st with useCache := st.useCache ++ [(name, t, r)] })

def mergeKw (defaults call : List (String × String)) : List (String × String) :=
  let d := defaults.filter fun p => (lookup call p.1).isNone
  let all := d ++ call
  let keys := sortStrings (all.map (·.1))
  keys.filterMap fun k => (lookup all k).map fun v => (k, v)

def setAt {α : Type} (l : List α) (i : Nat) (a : α) : List α := l.set i a

def fkey (r : MakeReq) : FKey :=
  match r.userName with
  | some n => .user n
  | none => .hashed r.extraArgs r.kwargs

def runTaskName (r : MakeReq) (facName : String) : String :=
  (match r.userName with | some n => n | none => "#" ++ toString (repr (fkey r))) ++ "." ++ facName

def findRun (cache : List (FKey × Nat × MakeReq)) (key : FKey) (r : MakeReq) : Option Nat :=
  (cache.find? fun e => decide (e.1 = key) && decide (e.2.2 = r)).map (·.2.1)

/-- `make` on factory `fac` (number `f`), once the keywords have been merged with the factory defaults -/
def makeIn (v : Variant) (st : St) (f : Nat) (fac : Factory) (r : MakeReq) : Res × St :=
  let hit := match v with
    | .pinned => (lookup fac.cache (fkey r)).map (·.1)
    | .fixed => findRun fac.cache (fkey r) r
  match hit with
  | some t => (.ok t, st)
  | none =>
    let (t, st) := st.newTask (runTaskName r fac.name) (.run f r)
    (.ok t, { st with factories := setAt st.factories f { fac with cache := fac.cache ++ [(fkey r, t, r)] } })

/-- `RunTaskFactory.make(...)`; `r.kwargs` are the keywords of the call (merged with the defaults here) -/
def make (v : Variant) (st : St) (f : Nat) (r : MakeReq) : Res × St :=
  match st.factories[f]? with
  | none => (.valueError, st)
  | some fac => makeIn v st f fac { r with kwargs := mergeKw fac.defaults r.kwargs }

/-- `RunTaskFactory.copy()` / a new factory -/
def newFactory (st : St) (name : String) (defaults : List (String × String)) : Nat × St :=
  (st.factories.length, { st with factories := st.factories ++ [⟨name, defaults, []⟩] })

/-- `UseRun(factory, posts)(**kwargs)`: the run task, then one Python task per post-processing function,
each injecting the result of the previous one -/
def useRunCall (v : Variant) (st : St) (f : Nat) (posts : List Func) (r : MakeReq) : Res × St :=
  posts.foldl (fun (acc : Res × St) post =>
    match acc with
    | (.ok t, st) => getTask v st ⟨post, [(t, some "result")], [], .hard, false⟩
    | e => e) (make v st f r)

/-! ### collecting the tasks of a job -/

/-- `close_dependency_graph`: `deps t` = hard and soft dependencies of `t`; `fuel` bounds the number of rounds
(the real loop has no bound: `UseM.close_complete` shows that the number of tasks + 1 rounds always suffice) -/
def closeLoop (deps : Nat → List Nat) : Nat → List Nat → List Nat → List Nat
  | 0, _, all => all
  | fuel + 1, queue, all =>
    if queue.isEmpty then all
    else
      -- only the tasks seen for the first time are visited in the next round
      let nxt := (queue.flatMap deps).eraseDups.filter (· ∉ all)
      closeLoop deps fuel nxt (all ++ nxt)

def closeDeps (deps : Nat → List Nat) (fuel : Nat) (tasks : List Nat) : List Nat :=
  let q := tasks.eraseDups
  closeLoop deps fuel q q

/-- `check_unique_task_names`: `true` = accepted -/
def uniqueNames (names : List String) : Bool :=
  let rec go : List String → List String → Bool
    | [], _ => true
    | n :: r, seen => if n ∈ seen then false else go r (n :: seen)
  go names []

end UseM
