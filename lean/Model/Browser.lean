/-
Model of valjean/eponine/browser.py (Index, Browser) — property C17.

Python values used as metadata are hashable; the harness maps every value to a `Val`:
integers (and everything `==` to an integer: `True`, `1.0`) to `Val.int`, every other
equality class to `Val.atom id` (ids assigned through a Python dict, i.e. by Python's own
`__eq__`/`__hash__`).  Items are Python dicts: association lists with distinct keys,
insertion ordered.  The data entry is one of the keys (its value is an opaque payload id).
-/
namespace Browser

inductive Val where
  | int (i : Int)
  | atom (n : Nat)
  deriving DecidableEq, Repr, Inhabited

abbrev Item := List (String × Val)

/-- `d[k]` / `d.get(k)` on a dict. -/
def Item.get (it : Item) (k : String) : Option Val :=
  match it with
  | [] => none
  | (k', v) :: r => if k' = k then some v else Item.get r k

/-- `k in d`. -/
def Item.has (it : Item) (k : String) : Bool := (Item.get it k).isSome

/-- `d[k] = v` : overwrite in place when present, append otherwise (dict insertion order). -/
def Item.set (it : Item) (k : String) (v : Val) : Item :=
  match it with
  | [] => [(k, v)]
  | (k', v') :: r => if k' = k then (k, v) :: r else (k', v') :: Item.set r k v

def Item.keys (it : Item) : List String := it.map (·.1)

/-- The index: `defaultdict(defaultdict(set))`, key → value → set of positions.
Sets of positions are kept as lists without duplicates. -/
abbrev Index := List (String × List (Val × List Nat))

def valAdd (l : List (Val × List Nat)) (v : Val) (p : Nat) : List (Val × List Nat) :=
  match l with
  | [] => [(v, [p])]
  | (v', ps) :: r => if v' = v then (v', if p ∈ ps then ps else ps ++ [p]) :: r
                     else (v', ps) :: valAdd r v p

/-- `index[k][v].add(p)`. -/
def idxAdd (idx : Index) (k : String) (v : Val) (p : Nat) : Index :=
  match idx with
  | [] => [(k, [(v, [p])])]
  | (k', vs) :: r => if k' = k then (k', valAdd vs v p) :: r else (k', vs) :: idxAdd r k v p

def valGet (l : List (Val × List Nat)) (v : Val) : Option (List Nat) :=
  match l with
  | [] => none
  | (v', ps) :: r => if v' = v then some ps else valGet r v

def idxKey (idx : Index) (k : String) : Option (List (Val × List Nat)) :=
  match idx with
  | [] => none
  | (k', vs) :: r => if k' = k then some vs else idxKey r k

/-- positions recorded under `index[k][v]` (empty when absent). -/
def idxGet (idx : Index) (k : String) (v : Val) : List Nat :=
  match idxKey idx k with
  | none => []
  | some vs => (valGet vs v).getD []

structure Browser where
  content : List Item
  dataKey : String
  globals : List (String × Val)
  index   : Index
  deriving Repr

/-- one element of `_build_index`: `for key in elt: if key != data_key: index[key][elt[key]].add(ielt)` -/
def indexItem (dataKey : String) (idx : Index) (p : Nat) (it : Item) : Index :=
  it.foldl (fun acc kv => if kv.1 = dataKey then acc else idxAdd acc kv.1 kv.2 p) idx

/-- `elt['index'] = ielt` for every element, positions starting at `p`. -/
def reindexFrom (p : Nat) : List Item → List Item
  | [] => []
  | it :: r => Item.set it "index" (.int p) :: reindexFrom (p + 1) r

def buildIndexFrom (dataKey : String) (idx : Index) (p : Nat) : List Item → Index
  | [] => idx
  | it :: r => buildIndexFrom dataKey (indexItem dataKey idx p it) (p + 1) r

/-- `Browser(content, data_key, global_vars)`. -/
def mk' (content : List Item) (dataKey : String) (globals : List (String × Val)) : Browser :=
  let c := reindexFrom 0 content
  { content := c, dataKey := dataKey, globals := globals,
    index := buildIndexFrom dataKey [] 0 c }

/-- `_filter_items_id_by(**kwargs)`; the result is the sorted list of the id set. -/
def filterIds (b : Browser) (kwargs : List (String × Val)) : List Nat :=
  let rec go (ids : List Nat) : List (String × Val) → List Nat
    | [] => ids
    | (k, v) :: r =>
      match idxKey b.index k with
      | none => []
      | some vs =>
        match valGet vs v with
        | none => []
        | some ps => go (ids.filter (· ∈ ps)) r
  go (List.range b.content.length) kwargs

def inclExclOk (it : Item) (incl excl : List String) : Bool :=
  incl.all (fun k => Item.has it k) && !(excl.any (fun k => Item.has it k))

/-- items picked by `filter_by` / `select_by` before the sub-browser is built. -/
def pick (b : Browser) (kwargs : List (String × Val)) (incl excl : List String) : List Item :=
  ((filterIds b kwargs).filterMap (fun i => b.content[i]?)).filter (fun it => inclExclOk it incl excl)

/-- `filter_by` as repaired (A20): the sub-browser keeps the data key. -/
def filterBy (b : Browser) (kwargs : List (String × Val)) (incl excl : List String) : Browser :=
  mk' (pick b kwargs incl excl) b.dataKey b.globals

/-- `filter_by` of the pinned tree: the sub-browser is built with the default data key. -/
def filterByPinned (b : Browser) (kwargs : List (String × Val)) (incl excl : List String) : Browser :=
  mk' (pick b kwargs incl excl) "results" b.globals

inductive SelErr | noItem | tooMany deriving DecidableEq, Repr

def selectBy (b : Browser) (kwargs : List (String × Val)) (incl excl : List String) : Except SelErr Item :=
  match pick b kwargs incl excl with
  | [] => .error .noItem
  | [it] => .ok it
  | _ => .error .tooMany

def dictUpdate (g h : List (String × Val)) : List (String × Val) :=
  h.foldl (fun acc kv => Item.set acc kv.1 kv.2) g

/-- `merge`; `none` models the ValueError on different data keys. -/
def merge (a b : Browser) : Option Browser :=
  if a.dataKey ≠ b.dataKey then none
  else some (mk' (a.content ++ b.content) a.dataKey (dictUpdate a.globals b.globals))

def keys (b : Browser) : List String := b.index.map (·.1)

def availableValues (b : Browser) (k : String) : List Val :=
  match idxKey b.index k with
  | none => []
  | some vs => vs.map (·.1)

/-- the direct-scan specification: an item matches when every requested metadata key
(never the data key) has the requested value, all `incl` keys are present, no `excl` key is. -/
def matchesKw (dataKey : String) (it : Item) (kwargs : List (String × Val)) : Bool :=
  kwargs.all (fun kv => kv.1 ≠ dataKey && Item.get it kv.1 = some kv.2)

def scan (b : Browser) (kwargs : List (String × Val)) (incl excl : List String) : List Item :=
  b.content.filter (fun it => matchesKw b.dataKey it kwargs && inclExclOk it incl excl)

end Browser
