/-
Model of valjean/cosette/rlist.py (RList) and valjean/cosette/depgraph.py (DepGraph) — property C16.

Nodes are Python objects compared by identity (`RList(key=id)`): the model uses their identity, a `Nat`.
Node ids `≥ nestedBase` stand for nested graphs: id `nestedBase + v` is the graph held by variable `v`
of the store.  Python `dict`s are insertion-ordered association lists, Python `set`s of positions are
lists without duplicates (iteration order of a set is not observable through the property; outputs are
sorted by the driver).  Python exceptions are `Except Err`.
-/
namespace DG

inductive Err where
  | valueError | keyError | indexError | cyclic | recursion | typeError
  deriving DecidableEq, Repr

abbrev AL := List (Nat × List Nat)

/-- `d.get(k)` -/
def AL.get : AL → Nat → Option (List Nat)
  | [], _ => none
  | (k', v) :: r, k => if k' = k then some v else AL.get r k

/-- `d[k] = v` (in place when present, appended otherwise) -/
def AL.set : AL → Nat → List Nat → AL
  | [], k, v => [(k, v)]
  | (k', v') :: r, k, v => if k' = k then (k, v) :: r else (k', v') :: AL.set r k v

/-- `del d[k]` (keys of a dict are unique) -/
def AL.erase (l : AL) (k : Nat) : AL := l.filter (·.1 ≠ k)

def AL.filterMapVals (f : List Nat → Option (List Nat)) (l : AL) : AL :=
  l.filterMap fun (k, v) => (f v).map (k, ·)

def AL.mapVals (f : List Nat → List Nat) (l : AL) : AL := l.map fun (k, v) => (k, f v)

/-- `s.add(x)` on a set kept as a duplicate-free list -/
def sadd (s : List Nat) (x : Nat) : List Nat := if x ∈ s then s else s ++ [x]

def sunion (s t : List Nat) : List Nat := t.foldl sadd s

/-! ### RList -/

structure RList where
  seq : List Nat
  index : AL
  deriving Repr

def RList.empty : RList := ⟨[], []⟩

/-- `self._index[key].append(i)` on the `defaultdict(list)` -/
def idxPush (ix : AL) (k i : Nat) : AL := ix.set k ((ix.get k).getD [] ++ [i])

def RList.append (r : RList) (x : Nat) : RList :=
  { seq := r.seq ++ [x], index := idxPush r.index x r.seq.length }

def RList.ofList (l : List Nat) : RList := l.foldl RList.append RList.empty

/-- `__setitem__` (index already made non-negative) -/
def RList.setItem (r : RList) (i v : Nat) : Except Err RList :=
  match r.seq[i]? with
  | none => .error .indexError
  | some old =>
    let inds := (r.index.get old).getD []
    if i ∈ inds then
      let inds' := inds.erase i
      let ix := if inds'.isEmpty then r.index.erase old else r.index.set old inds'
      .ok { seq := r.seq.set i v, index := idxPush ix v i }
    else .error .valueError

def delShift (i : Nat) (inds : List Nat) : List Nat :=
  (inds.filter (· ≠ i)).map fun j => if j < i then j else j - 1

def insShift (i : Nat) (inds : List Nat) : List Nat := inds.map fun j => if j < i then j else j + 1

def nonEmpty? (l : List Nat) : Option (List Nat) := if l.isEmpty then none else some l

/-- `__delitem__` (index already made non-negative) -/
def RList.delItem (r : RList) (i : Nat) : Except Err RList :=
  if i < r.seq.length then
    let ix := r.index.filterMapVals fun inds => nonEmpty? (delShift i inds)
    .ok { seq := r.seq.eraseIdx i, index := ix }
  else .error .indexError

/-- `insert` (index already normalised to `0..len`) -/
def RList.insert (r : RList) (i v : Nat) : RList :=
  let i := min r.seq.length i
  let ix := r.index.mapVals (insShift i)
  { seq := r.seq.insertIdx i v, index := idxPush ix v i }

def RList.swap (r : RList) (i j : Nat) : Except Err RList :=
  match r.seq[i]?, r.seq[j]? with
  | some a, some b => do
    let r1 ← r.setItem i b
    r1.setItem j a
  | _, _ => .error .indexError

/-- `get_index(value, None)` -/
def RList.getIndex (r : RList) (x : Nat) : Option Nat :=
  match r.index.get x with
  | some (i :: _) => some i
  | _ => none

/-- `index(value)` -/
def RList.indexOf (r : RList) (x : Nat) : Except Err Nat :=
  match r.index.get x with
  | some (i :: _) => .ok i
  | _ => .error .valueError

def RList.contains (r : RList) (x : Nat) : Bool := (r.index.get x).isSome

/-! ### DepGraph -/

structure G where
  nodes : RList
  edges : AL
  deriving Repr

def G.empty : G := ⟨RList.empty, []⟩

def G.size (g : G) : Nat := g.nodes.seq.length

def G.contains (g : G) (x : Nat) : Bool := g.nodes.contains x

def G.addNode (g : G) (x : Nat) : G :=
  if g.contains x then g
  else { nodes := g.nodes.append x, edges := g.edges.set g.size [] }

/-- `self._edges[k]` -/
def G.edgesAt (g : G) (k : Nat) : Except Err (List Nat) :=
  match g.edges.get k with
  | some s => .ok s
  | none => .error .keyError

def swapper (i last k : Nat) : Nat := if k = i then last else if k = last then i else k

def G.removeNode (g : G) (x : Nat) : Except Err G :=
  match g.nodes.getIndex x with
  | none => .ok g
  | some i => do
    let last := g.size - 1
    let nodes ← g.nodes.swap i last
    let ei ← g.edgesAt i
    let el ← g.edgesAt last
    let e1 := (g.edges.set i el).set last ei
    let e2 := e1.mapVals fun vals => (vals.map (swapper i last)).eraseDups
    let e3 := e2.erase last
    let e4 := e3.mapVals fun vals => vals.filter (· ≠ last)
    let nodes ← nodes.delItem last
    .ok { nodes := nodes, edges := e4 }

def G.addDep (g : G) (x on : Nat) : Except Err G := do
  let g := (g.addNode x).addNode on
  let i ← g.nodes.indexOf x
  let j ← g.nodes.indexOf on
  let s ← g.edgesAt i
  .ok { g with edges := g.edges.set i (sadd s j) }

def G.removeDep (g : G) (x on : Nat) : Except Err G := do
  let i ← g.nodes.indexOf x
  let j ← g.nodes.indexOf on
  let s ← g.edgesAt i
  if j ∈ s then .ok { g with edges := g.edges.set i (s.filter (· ≠ j)) } else .error .keyError

/-- `DepGraph._complete` -/
def complete (e : AL) : AL :=
  let c := e.foldl (fun (acc : AL) (_, vals) =>
    vals.foldl (fun (acc : AL) v => if (acc.get v).isSome then acc else acc.set v []) acc) e
  c.mapVals List.eraseDups

/-- `DepGraph(nodes, edges)` -/
def G.mk' (nodes : List Nat) (edges : AL) : G := ⟨RList.ofList nodes, complete edges⟩

def G.copy (g : G) : G := G.mk' g.nodes.seq g.edges

/-- `__iter__` : `(node, [nodes[j] for j in edges[i]])` for every position -/
def G.items (g : G) : Except Err (List (Nat × List Nat)) :=
  (List.range g.size).mapM fun i => do
    let s ← g.edgesAt i
    let vals ← s.mapM fun j => match g.nodes.seq[j]? with
      | some y => .ok y
      | none => .error .indexError
    match g.nodes.seq[i]? with
    | some x => .ok (x, vals)
    | none => .error .indexError

def G.merge (g other : G) : Except Err G := do
  let its ← other.items
  its.foldlM (fun g (key, vals) => do
    let g := g.addNode key
    vals.foldlM (fun g v => g.addDep key v) g) g

def G.invert (g : G) : G :=
  let inv := g.edges.foldl (fun (acc : AL) (key, vals) =>
      let acc : AL := if (acc.get key).isSome then acc else acc.set key []
      vals.foldl (fun (acc : AL) v => acc.set v ((acc.get v).getD [] ++ [key])) acc) ([] : AL)
  G.mk' g.nodes.seq inv

def nodeAt (g : G) (j : Nat) : Except Err Nat :=
  match g.nodes.seq[j]? with
  | some y => .ok y
  | none => .error .indexError

/-- `dependencies(node, recurse=False)` -/
def G.dependencies (g : G) (x : Nat) : Except Err (List Nat) := do
  let i ← g.nodes.indexOf x
  let s ← g.edgesAt i
  s.mapM (nodeAt g)

/-- the work-list loop of `dependencies(node, recurse=True)`; `fuel` bounds the number of pops (the code has no such
bound: running out of it is reported as `recursion`, which the correspondence would show as a disagreement) -/
def depsLoop (g : G) : Nat → List Nat → List Nat → List Nat → Except Err (List Nat)
  | 0, [], _, deps => .ok deps
  | 0, _ :: _, _, _ => .error .recursion
  | fuel + 1, queue, seen, deps =>
    match queue.reverse with
    | [] => .ok deps
    | nxt :: restRev => do
      let queue := restRev.reverse
      let seen := sadd seen nxt
      let res ← g.edgesAt nxt
      let deps := sunion deps res
      -- `result` is a Python set: the generator yields each of its elements once
      depsLoop g fuel (queue ++ res.eraseDups.filter (· ∉ seen)) seen deps

def G.dependenciesRec (g : G) (x : Nat) : Except Err (List Nat) := do
  let i ← g.nodes.indexOf x
  let n := g.size
  let d ← depsLoop g (n * n + n + 1) [i] [] []
  d.mapM (nodeAt g)

def G.dependees (g : G) (x : Nat) : Except Err (List Nat) := do
  let i ← g.nodes.indexOf x
  let idx ← (List.range g.size).filterMapM fun n => do
    let s ← g.edgesAt n
    pure (if i ∈ s then some n else none)
  idx.mapM (nodeAt g)

/-! #### topological sort (marks keyed by position: nodes are pairwise distinct) -/

inductive Mark | temp | perm deriving DecidableEq, Repr

structure TopoSt where
  marks : List (Nat × Mark)
  result : List Nat
  deriving Repr

def TopoSt.mark (st : TopoSt) (p : Nat) : Option Mark :=
  match st.marks.find? (·.1 = p) with
  | some (_, m) => some m
  | none => none

def TopoSt.setMark (st : TopoSt) (p : Nat) (m : Mark) : TopoSt :=
  { st with marks := (p, m) :: st.marks.filter (·.1 ≠ p) }

mutual
/-- `_visit(node)`; `fuel` bounds the recursion depth (never exhausted when `fuel > size`) -/
def visit (g : G) : Nat → TopoSt → Nat → Except Err TopoSt
  | 0, _, _ => .error .recursion
  | fuel + 1, st, p =>
    match st.mark p with
    | some .temp => .error .cyclic
    | some .perm => .ok st
    | none => do
      let st := st.setMark p .temp
      let st ← visitList g fuel st ((g.edges.get p).getD [])
      let st := st.setMark p .perm
      .ok { st with result := st.result ++ [p] }
def visitList (g : G) : Nat → TopoSt → List Nat → Except Err TopoSt
  | _, st, [] => .ok st
  | fuel, st, t :: ts => do
    let st ← visit g fuel st t
    visitList g fuel st ts
end

def G.topoPositions (g : G) : Except Err (List Nat) := do
  let st ← (List.range g.size).foldlM (fun st p =>
    if (st.mark p).isSome then pure st else visit g (g.size + 1) st p) (⟨[], []⟩ : TopoSt)
  pure st.result

def G.topologicalSort (g : G) : Except Err (List Nat) := do
  let ps ← g.topoPositions
  ps.mapM (nodeAt g)

/-! #### transitive reduction / closure (recursive visits without marks, as in the code) -/

mutual
def redVisit (g : G) (start : List Nat) : Nat → Nat → Except Err (List Nat)
  | 0, _ => .error .recursion
  | fuel + 1, cur => do
    let ce ← g.edgesAt cur
    redVisitList g start fuel ce []
def redVisitList (g : G) (start : List Nat) : Nat → List Nat → List Nat → Except Err (List Nat)
  | _, [], acc => .ok acc
  | fuel, d :: ds, acc => do
    let acc := if d ∈ start then sadd acc d else acc
    let sub ← redVisit g start fuel d
    redVisitList g start fuel ds (sunion acc sub)
end

def G.transitiveReduction (g : G) : Except Err G :=
  (List.range g.size).foldlM (fun g i => do
    let start ← g.edgesAt i
    let rm ← start.foldlM (fun acc j => do
      let r ← redVisit g start (g.size + 1) j
      pure (sunion acc r)) []
    pure { g with edges := g.edges.set i (start.filter (· ∉ rm)) }) g

mutual
def cloVisit (g : G) (start : List Nat) : Nat → Nat → Except Err (List Nat)
  | 0, _ => .error .recursion
  | fuel + 1, cur => do
    let ce ← g.edgesAt cur
    cloVisitList g start fuel ce []
def cloVisitList (g : G) (start : List Nat) : Nat → List Nat → List Nat → Except Err (List Nat)
  | _, [], acc => .ok acc
  | fuel, d :: ds, acc => do
    let acc := if d ∈ start then acc else sadd acc d
    let sub ← cloVisit g start fuel d
    cloVisitList g start fuel ds (sunion acc sub)
end

def G.transitiveClosure (g : G) : Except Err G :=
  (List.range g.size).foldlM (fun g i => do
    let start ← g.edgesAt i
    let add ← start.foldlM (fun acc j => do
      let r ← cloVisit g start (g.size + 1) j
      pure (sunion acc r)) []
    pure { g with edges := g.edges.set i (sunion start add) }) g

def G.initial (g : G) : Except Err (List Nat) := do
  let targets := g.edges.foldl (fun acc (_, vals) => sunion acc vals) []
  ((List.range g.size).filter (· ∉ targets)).mapM (nodeAt g)

def G.terminal (g : G) : Except Err (List Nat) :=
  g.nodes.seq.filterM fun x => do
    let d ← g.dependencies x
    pure d.isEmpty

/-- `graft(node)` where `sub` is the graph that `node` denotes -/
def G.graft (g : G) (x : Nat) (sub : G) : Except Err G := do
  -- an edge from the node to itself disappears with it
  let deps := (← g.dependencies x).filter (· ≠ x)
  let dependees := (← g.dependees x).filter (· ≠ x)
  let g ← g.removeNode x
  let inits ← sub.initial
  let terms ← sub.terminal
  let g ← g.merge sub
  let g ← deps.foldlM (fun g dep => terms.foldlM (fun g term => g.addDep term dep) g) g
  let g ← dependees.foldlM (fun g dpe => inits.foldlM (fun g ini => g.addDep dpe ini) g) g
  if sub.size = 0 then
    dependees.foldlM (fun g dpe => deps.foldlM (fun g dep => g.addDep dpe dep) g) g
  else pure g

/-- the pinned `graft` (before the repair of A19): no special case for an empty nested graph -/
def G.graftPinned (g : G) (x : Nat) (sub : G) : Except Err G := do
  let deps ← g.dependencies x
  let dependees ← g.dependees x
  let g ← g.removeNode x
  let inits ← sub.initial
  let terms ← sub.terminal
  let g ← g.merge sub
  let g ← deps.foldlM (fun g dep => terms.foldlM (fun g term => g.addDep term dep) g) g
  dependees.foldlM (fun g dpe => inits.foldlM (fun g ini => g.addDep dpe ini) g) g

def nestedBase : Nat := 100

/-- graft the graph that the nested node `x` stands for -/
def graftNested (store : Nat → Option G) (g : G) (x : Nat) : Except Err G :=
  match store (x - nestedBase) with
  | some sub => g.graft x sub
  | none => .error .typeError

/-- `flatten(recurse)`: `store v` is the graph held by variable `v`; `fuel` bounds the number of rounds -/
def flattenLoop (store : Nat → Option G) (recurse : Bool) : Nat → G → Except Err G
  | 0, _ => .error .recursion
  | fuel + 1, g =>
    let nested := g.nodes.seq.filter (· ≥ nestedBase)
    if nested.isEmpty then .ok g else do
      let g ← nested.foldlM (graftNested store) g
      if recurse then flattenLoop store recurse fuel g else .ok g

def G.dependsDirect (g : G) (x y : Nat) : Except Err Bool := do
  let i ← g.nodes.indexOf x
  let j ← g.nodes.indexOf y
  let s ← g.edgesAt i
  pure (decide (j ∈ s))

/-- `depends(x, y, recurse=True)`: breadth-first waves of positions, each position visited once (`seen`); the loop of
the code has no budget, `DG.dependsRec_total` shows that `size + 1` rounds are always enough (the pinned loop had no
`seen` set and never ended on a cycle that does not lead to `y`: defect A32) -/
def dependsLoop (g : G) (j : Nat) : Nat → List Nat → List Nat → Except Err Bool
  | 0, _, _ => .error .recursion
  | fuel + 1, seen, deps1 =>
    if deps1.isEmpty then .ok false
    else if j ∈ deps1 then .ok true
    else do
      let nxt ← deps1.foldlM (fun acc i => do let s ← g.edgesAt i; pure (acc ++ s)) []
      let seen := seen ++ deps1
      dependsLoop g j fuel seen (nxt.eraseDups.filter (· ∉ seen))

def G.dependsRec (g : G) (x y : Nat) : Except Err Bool := do
  let i ← g.nodes.indexOf x
  let j ← g.nodes.indexOf y
  let s ← g.edgesAt i
  dependsLoop g j (g.size + 1) [] s.eraseDups

/-- `g <= h` for graphs of plain nodes -/
def G.le (g h : G) : Except Err Bool := do
  let nodesIn := g.nodes.seq.all h.contains
  if !nodesIn then return false
  let oks ← g.nodes.seq.mapM fun x => do
    let dg ← g.dependencies x
    let dh ← h.dependencies x
    pure (dg.all (· ∈ dh))
  pure (oks.all id)

/-- `isomorphic_to` / `==` -/
def G.eqv (g h : G) : Except Err Bool := do
  if g.size ≠ h.size then return false
  let i2o := g.nodes.seq.map h.nodes.getIndex
  if i2o.any Option.isNone then return false
  let i2o := i2o.map (·.getD 0)
  -- o2i: position in h -> position in g
  let o2i : List (Option Nat) := (List.range h.size).map fun o => i2o.idxOf? o
  if o2i.any Option.isNone then return false
  let oks ← g.edges.mapM fun (key, vals) => do
    let ok ← h.edgesAt (i2o.getD key 0)
    let ovals := ok.map fun o => (o2i.getD o none).getD 0
    pure (vals.all (· ∈ ovals) && ovals.all (· ∈ vals))
  pure (oks.all id)

/-! ### The abstract graph a `G` denotes -/

/-- `x → y` is an edge of the mathematical graph denoted by `g` -/
def G.Edge (g : G) (x y : Nat) : Prop :=
  ∃ a b s, g.nodes.seq[a]? = some x ∧ g.nodes.seq[b]? = some y ∧ g.edges.get a = some s ∧ b ∈ s

/-- edge pairs, as data (for the driver) -/
def G.edgePairs (g : G) : List (Nat × Nat) :=
  (List.range g.size).flatMap fun a =>
    match g.nodes.seq[a]?, g.edges.get a with
    | some x, some s => s.filterMap fun b => (g.nodes.seq[b]?).map fun y => (x, y)
    | _, _ => []

end DG
