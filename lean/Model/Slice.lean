/-
Model of Dataset.__getitem__ / _get_bins_slice / _get_bins_items / squeeze
(valjean/eponine/dataset.py:825-842, 964-1003) — property C09.

Arrays are row-major flat lists with a shape; slices have unit step (`step = None`).
Python slice normalisation (`slice.indices(n)` for a positive step) is transcribed in `normStart/normStop`.
-/
namespace Slice

/-- `slice(start, stop)` with omitted (`None`) bounds -/
structure Sl where
  start : Option Int
  stop : Option Int
  deriving Repr, DecidableEq

/-- clamp of one bound, as `PySlice_AdjustIndices` does for step > 0 -/
def normBound (n : Nat) (i : Int) : Nat :=
  if i < 0 then (i + n).toNat else min i.toNat n

def normStart (n : Nat) (s : Sl) : Nat := match s.start with | none => 0 | some i => normBound n i
def normStop (n : Nat) (s : Sl) : Nat := match s.stop with | none => n | some i => normBound n i

/-- `l[start:stop]` -/
def sliceList {α : Type} (l : List α) (s : Sl) : List α :=
  (l.drop (normStart l.length s)).take (normStop l.length s - normStart l.length s)

/-- `_get_bins_slice` of the pinned tree: only the stop is shifted -/
def binsSlicePinned (s : Sl) : Sl :=
  match s.stop with
  | some st => { start := s.start, stop := some (if st > 0 then st + 1 else st) }
  | none => s

/-- `_get_bins_slice` as repaired (A10): a negative start counts from the last *cell* (`dim` cells) -/
def binsSlice (dim : Nat) (s : Sl) : Sl :=
  let start := match s.start with
    | some i => some (if i < 0 then ((i + dim).toNat : Int) else i)
    | none => none
  match s.stop with
  | some st => { start := start, stop := some (if st > 0 then st + 1 else st) }
  | none => { start := start, stop := none }

/-- one axis of `_get_bins_items`: centres (len = dim) use the slice itself, edges the shifted one -/
def binsItem (pinned : Bool) (dim : Nat) (bins : List Int) (s : Sl) : List Int :=
  if bins.length = dim then sliceList bins s
  else sliceList bins (if pinned then binsSlicePinned s else binsSlice dim s)

/-- N-d slicing of a row-major array: outermost axis first -/
def sliceND {α : Type} : List Nat → List Sl → List α → List α
  | n :: shape, s :: ss, flat =>
    let inner := shape.foldl (· * ·) 1
    let a := normStart n s
    let b := normStop n s
    ((List.range (b - a)).flatMap fun i => sliceND shape ss ((flat.drop ((a + i) * inner)).take inner))
  | _, _, flat => flat

def sliceShape : List Nat → List Sl → List Nat
  | n :: shape, s :: ss => (normStop n s - normStart n s) :: sliceShape shape ss
  | _, _ => []

structure DS where
  shape : List Nat
  value : List Int            -- cell ids (value and error are sliced identically)
  bins : List (String × List Int)
  deriving Repr, DecidableEq

/-- `Dataset.__getitem__` (index = tuple of slices, one per dimension) -/
def getItem (pinned : Bool) (d : DS) (ss : List Sl) : DS :=
  { shape := sliceShape d.shape ss,
    value := sliceND d.shape ss d.value,
    bins := (d.bins.zip (d.shape.zip ss)).map fun (kb, dim, s) => (kb.1, binsItem pinned dim kb.2 s) }

/-- `Dataset.squeeze`: bins of axes with fewer than 2 cells are dropped, `ndarray.squeeze` drops extent-1 axes -/
def squeeze (d : DS) : DS :=
  { shape := d.shape.filter (· ≠ 1),
    value := d.value,
    bins := ((d.bins.zip d.shape).filter (fun kb => ¬ kb.2 < 2)).map (·.1) }

end Slice
