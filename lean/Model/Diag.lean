import Model.Browser
/-
Model of valjean/gavroche/diagnostics/stats.py — properties C18 (counting) and C13 (reads).

TaskStatus codes: WAITING=1 PENDING=2 DONE=3 FAILED=4 SKIPPED=5.
TestOutcome codes: SUCCESS=0 FAILURE=1 MISSING=2 NOT_A_TEST=3.
Names and fingerprints are opaque ids (`NameFingerprint(name, fingerprint)` = `(name, some fp)`).
-/
namespace Diag
open Browser (Val Index idxAdd idxKey idxGet valGet)

structure TestRes where
  verdict : Bool
  name : Nat
  fp : Nat
  labels : List (String × Val)     -- the test's `labels` dict
  deriving Repr, DecidableEq

structure TaskRes where
  name : Nat
  status : Nat
  results : Option (List TestRes)  -- the `'result'` key of the task's environment section
  deriving Repr

abbrev NF := Nat × Option Nat
/-- `defaultdict(list)`: key → list, keys in order of first insertion. -/
abbrev Classify := List (Nat × List NF)

/-- `d[k].append(x)` on a `defaultdict(list)`. -/
def clsAppend (c : Classify) (k : Nat) (x : NF) : Classify :=
  match c with
  | [] => [(k, [x])]
  | (k', l) :: r => if k' = k then (k', l ++ [x]) :: r else (k', l) :: clsAppend r k x

/-- `d.get(k, [])` (no insertion). -/
def clsGet (c : Classify) (k : Nat) : List NF :=
  match c with
  | [] => []
  | (k', l) :: r => if k' = k then l else clsGet r k

def clsHas (c : Classify) (k : Nat) : Bool := c.any (·.1 == k)

/-- `d[k]` on a `defaultdict(list)`: a missing key is *inserted* (finding A15). -/
def clsIndex (c : Classify) (k : Nat) : Classify × List NF :=
  if clsHas c k then (c, clsGet c k) else (c ++ [(k, [])], [])

def DONE : Nat := 3
def SUCCESS : Nat := 0
def FAILURE : Nat := 1
def MISSING : Nat := 2

/-- `TestStatsTasks.evaluate` -/
def evalTasks (ts : List TaskRes) : Classify :=
  ts.foldl (fun c t => clsAppend c t.status (t.name, none)) []

/-- the (outcome, NameFingerprint) events of `TestStatsTests.evaluate`, in order -/
def testEvents (ts : List TaskRes) : List (Nat × NF) :=
  ts.flatMap fun t =>
    match t.results with
    | none => [(MISSING, (t.name, none))]
    | some rs => rs.map fun r => (if r.verdict then SUCCESS else FAILURE, (r.name, some r.fp))

/-- `TestStatsTests.evaluate` -/
def evalTests (ts : List TaskRes) : Classify :=
  (testEvents ts).foldl (fun c e => clsAppend c e.1 e.2) []

/-- `TestResultStatsTasks.__bool__` -/
def boolTasks (c : Classify) : Bool := clsHas c DONE && c.length == 1
/-- `TestResultStatsTests.__bool__` -/
def boolTests (c : Classify) : Bool := clsHas c SUCCESS && c.length == 1

/-! ### statistics by labels -/

abbrev LDict := List (String × Val)

def dictSet (d : LDict) (k : String) (v : Val) : LDict := Browser.Item.set d k v

/-- `_build_labels_lod` -/
def buildLod (ts : List TaskRes) : List LDict :=
  ts.flatMap fun t =>
    match t.results with
    | none => []
    | some rs => rs.map fun r =>
        dictSet (dictSet r.labels "_test_name" (.atom (2000 + r.name))) "_result"
          (.int (if r.verdict then 0 else 1))

def indexDict (idx : Index) (p : Nat) (d : LDict) : Index :=
  d.foldl (fun acc kv => idxAdd acc kv.1 kv.2 p) idx

/-- `_build_index` -/
def buildIndexFrom (idx : Index) (p : Nat) : List LDict → Index
  | [] => idx
  | d :: r => buildIndexFrom (indexDict idx p d) (p + 1) r

/-- `Index.keep_only(ids)` -/
def keepOnly (idx : Index) (ids : List Nat) : Index :=
  if ids = [] then [] else
  idx.filterMap fun (k, vs) =>
    let vs' := vs.filterMap fun (v, ps) =>
      let t := ps.filter (· ∈ ids)
      if t = [] then none else some (v, t)
    if vs' = [] then none else some (k, vs')

structure Row where
  labels : List Val
  ok : Nat
  ko : Nat
  total : Nat
  ids : List Nat      -- ghost: the id set the row was computed from
  deriving Repr

def mkRow (plab : List Val) (rok rko : List Nat) (v : Val) (ps : List Nat) : Row :=
  { labels := plab ++ [v], ok := (ps.filter (· ∈ rok)).length, ko := (ps.filter (· ∈ rko)).length,
    total := ps.length, ids := ps }

/-- `_rloop_over_labels` -/
def rloop (rok rko : List Nat) : List String → Index → List Val → List Row
  | [], _, _ => []
  | [l], idx, plab =>
    match idxKey idx l with
    | none => []
    | some vs => vs.map fun (v, ps) => mkRow plab rok rko v ps
  | l :: l2 :: rest, idx, plab =>
    match idxKey idx l with
    | none => []
    | some vs => vs.flatMap fun (v, ps) => rloop rok rko (l2 :: rest) (keepOnly idx ps) (plab ++ [v])

structure ByLabels where
  rows : List Row
  nLabels : Nat
  deriving Repr

/-- `TestStatsTestsByLabels.evaluate`; `none` models `TestStatsTestsByLabelsException`. -/
def evalByLabels (ts : List TaskRes) (byLabels : List String) : Option ByLabels :=
  let lod := buildLod ts
  let idx := buildIndexFrom [] 0 lod
  if byLabels.all (fun l => (idxKey idx l).isSome) then
    some { rows := rloop (idxGet idx "_result" (.int 0)) (idxGet idx "_result" (.int 1)) byLabels idx [],
           nLabels := lod.length }
  else none

def ByLabels.oracles (r : ByLabels) : List Bool := r.rows.map fun t => t.ok == t.total
def ByLabels.bool (r : ByLabels) : Bool := r.oracles.all id
def ByLabels.nbMissing (r : ByLabels) : Int := (r.nLabels : Int) - ((r.rows.map (·.total)).sum : Nat)

/-! ### C13: read operations on a stats result (`classify` is a live `defaultdict`) -/

inductive ReadOp
  | bool | len | get (k : Nat) | contains (k : Nat)
  | view                                          -- table / plot representation, rst formatting, fingerprint, pickle, copy
  | countsPinned (first : Nat) (all : List Nat)   -- `classification_counts` with `classify[status]`
  | counts (first : Nat) (all : List Nat)         -- repaired: `classify.get(status, [])`
  deriving Repr

/-- pinned `classification_counts`: indexes the dict for every status → inserts keys -/
def countsPinned (c : Classify) (statuses : List Nat) : Classify × List (Nat × Nat) :=
  let (c', counts) := statuses.foldl
    (fun (acc : Classify × List (Nat × Nat)) s =>
      let (c1, l) := clsIndex acc.1 s
      (c1, acc.2 ++ [(s, l.length)])) (c, [])
  (c', counts.filter (·.2 ≠ 0))

def counts (c : Classify) (statuses : List Nat) : List (Nat × Nat) :=
  (statuses.map fun s => (s, (clsGet c s).length)).filter (·.2 ≠ 0)

/-- one read; returns the new state of the dictionary (unchanged for honest reads) -/
def applyRead (c : Classify) : ReadOp → Classify
  | .bool => c
  | .len => c
  | .get _ => c
  | .contains _ => c
  | .view => c
  | .countsPinned f all => (countsPinned c (f :: all.filter (· ≠ f))).1
  | .counts _ _ => c

end Diag
