/-
Model of valjean/cosette/run.py (`run`, `RunTask.run_task.runner`) and valjean/path.py
(`sanitize_filename`) — property C19.

What a command does when spawned is a parameter: `exec cli` is either "could not be started"
(`subprocess.call` raises OSError) or "exited with code k after writing `out` to stdout and `err` to stderr".
-/
namespace RunCmd

inductive ExecRes where
  | exited (code : Int) (out err : String)
  | spawnError
  deriving Repr, DecidableEq

structure Cli where
  echo : String        -- the line `$ cmd args…` (shlex-quoted) that `run` prints to stderr
  res : ExecRes        -- scripted behaviour of the command
  deriving Repr, DecidableEq

inductive Status | done | failed
  deriving Repr, DecidableEq

structure Acc where
  codes : List Int := []
  out : String := ""
  err : String := ""
  deriving Repr, DecidableEq

inductive RunRes where
  | finished (status : Status) (acc : Acc)
  | raised (acc : Acc)            -- `call` raised: what the files hold at that moment
  deriving Repr, DecidableEq

/-- the loop of `run(clis, stdout, stderr)` -/
def runLoop : List Cli → Acc → RunRes
  | [], acc => .finished .done acc
  | c :: cs, acc =>
    let acc := { acc with err := acc.err ++ c.echo }
    match c.res with
    | .spawnError => .raised acc
    | .exited k o e =>
      let acc := { codes := acc.codes ++ [k], out := acc.out ++ o, err := acc.err ++ e }
      if k ≠ 0 then .finished .failed acc else runLoop cs acc

def run (clis : List Cli) : RunRes := runLoop clis {}

/-- `sanitize_filename` -/
def sanitize (name : List Char) : Option (List Char) :=
  if '\x00' ∈ name then none
  else if '/' ∈ name then none
  else if name = [] ∨ name = ['.'] ∨ name = ['.', '.'] then none
  else some name

inductive TaskOutcome where
  | done (codes : List Int) (out err : String) (dir : List Char)
  | failedReturned (codes : List Int) (out err : String) (dir : List Char)
  | raisedInTask        -- `do()` raised: the scheduler's worker turns this into FAILED
  deriving Repr, DecidableEq

/-- `RunTask.do` -/
def runTask (name : List Char) (clis : List Cli) : TaskOutcome :=
  match sanitize name with
  | none => .raisedInTask
  | some dir =>
    match run clis with
    | .finished .done acc => .done acc.codes acc.out acc.err dir
    | .finished .failed acc => .failedReturned acc.codes acc.out acc.err dir
    | .raised _ => .raisedInTask

/-- final task status under the scheduler (the worker maps an exception to FAILED) -/
def finalStatus : TaskOutcome → Status
  | .done .. => .done
  | _ => .failed

/-- `BuildTask.cmake_build_sys` (valjean/cosette/code.py): the configure command is run on its own; if it does not
exit with 0 its status is returned and the build command is not run; otherwise the status is that of the build command.
Both write to the same log (here: the accumulated records are appended). -/
def buildSys (configure build : Cli) : RunRes :=
  match run [configure] with
  | .finished .done acc1 =>
    (match run [build] with
     | .finished st acc2 => .finished st ⟨acc1.codes ++ acc2.codes, acc1.out ++ acc2.out, acc1.err ++ acc2.err⟩
     | .raised acc2 => .raised ⟨acc1.codes ++ acc2.codes, acc1.out ++ acc2.out, acc1.err ++ acc2.err⟩)
  | other => other

end RunCmd
