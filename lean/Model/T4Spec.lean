import Model.Num
/-!
Model of the assembly of a Tripoli-4 spectrum response from what the grammar hands over
(valjean/eponine/tripoli4/common.py: `_get_number_of_bins`, `SpectrumDictBuilder.fill_arrays_and_bins`,
`KinematicDictBuilder.add_last_bins / _add_last_bin_for_dim`, `DictBuilder.convert_bins_to_increasing_arrays`,
`convert_spectrum`) and of the conversion to a dataset (`data_convertor.array_result`: `error = sigma * score * 0.01`)
— property C10.
-/
namespace T4Spec
open Num

variable {α : Type} [Num α]

/-- one printed line of a spectrum: `lo hi score sigma score/lethargy` -/
structure Row (α : Type) where
  lo : α
  hi : α
  score : α
  sigma : α
  leth : α

/-- `(index, first printed bound, second printed bound)` of a time step / mu zone / phi zone -/
structure Step (α : Type) where
  idx : Nat
  a : α
  b : α

/-- one block of lines under one (time step, mu zone, phi zone); a key is present only when its value changes -/
structure Block (α : Type) where
  time : Option (Step α)
  mu : Option (Step α)
  phi : Option (Step α)
  rows : List (Row α)
  integ : Option (α × α)

inductive Err | index | bins | empty
  deriving Repr, DecidableEq

/-- `_get_number_of_bins`: (nphi, nmu, nt, ne) -/
def nbBins (d : List (Block α)) : Except Err (Nat × Nat × Nat × Nat) :=
  match d with
  | [] => .error .empty
  | first :: _ =>
    let n := d.length
    let get (k : Nat) : Option (Block α) := if k = 0 ∨ k > n then none else d[n - k]?   -- d[-k]
    match (if first.phi.isSome then ((get 1).bind (·.phi)).map (·.idx + 1) else some 1) with
    | none => .error .index
    | some nphi =>
      match (if first.mu.isSome then ((get nphi).bind (·.mu)).map (·.idx + 1) else some 1) with
      | none => .error .index
      | some nmu =>
        match (if first.time.isSome then ((get (nphi * nmu)).bind (·.time)).map (·.idx + 1) else some 1) with
        | none => .error .index
        | some nt => .ok (nphi, nmu, nt, first.rows.length)

/-- the builder while it reads the blocks -/
structure B (α : Type) where
  ne : Nat
  nt : Nat
  nmu : Nat
  nphi : Nat
  itime : Nat := 0
  imu : Nat := 0
  iphi : Nat := 0
  ebins : List α := []
  tbins : List α := []
  mubins : List α := []
  phibins : List α := []
  cells : List ((Nat × Nat × Nat × Nat) × Row α) := []      -- assignments `arrays['default'][index] = ...`, latest first
  integ : List ((Nat × Nat × Nat) × (α × α)) := []

/-- the rows of one block (`for ienergy, ivals in enumerate(...)`) -/
def fillRows (b : B α) (all : List (Row α)) : Nat → List (Row α) → Except Err (B α)
  | _, [] => .ok b
  | ie, r :: rs =>
    let first := b.itime == 0 && b.imu == 0 && b.iphi == 0
    -- `_check_bins`
    let bad := first && !b.ebins.isEmpty && !(Num.beq r.lo ((all.getD (ie - 1) r).hi)) && ie != 0
    let bad0 := first && !b.ebins.isEmpty && ie == 0 && !(Num.beq r.lo ((all.getLastD r).hi))   -- vals[-1] for ienergy = 0
    if bad || bad0 then .error .bins
    else
      let b := if first then { b with ebins := b.ebins ++ [r.lo] } else b
      if ie < b.ne ∧ b.itime < b.nt ∧ b.imu < b.nmu ∧ b.iphi < b.nphi then
        fillRows { b with cells := ((ie, b.itime, b.imu, b.iphi), r) :: b.cells } all (ie + 1) rs
      else .error .index

/-- `fill_arrays_and_bins` -/
def fill (b : B α) : List (Block α) → Except Err (B α)
  | [] => .ok b
  | k :: ks =>
    let b := match k.time with | some s => { b with itime := s.idx, tbins := b.tbins ++ [s.a] } | none => b
    let b := match k.mu with
      | some s => { b with imu := s.idx, mubins := if b.itime == 0 then b.mubins ++ [s.a] else b.mubins }
      | none => b
    let b := match k.phi with
      | some s => { b with iphi := s.idx, phibins := if b.itime == 0 && b.imu == 0 then b.phibins ++ [s.a] else b.phibins }
      | none => b
    match fillRows b k.rows 0 k.rows with
    | .error e => .error e
    | .ok b =>
      match k.integ with
      | some v =>
        if b.itime < b.nt ∧ b.imu < b.nmu ∧ b.iphi < b.nphi then
          fill { b with integ := ((b.itime, b.imu, b.iphi), v) :: b.integ } ks
        else .error .index
      | none => fill b ks

/-- `_add_last_bin_for_dim` -/
def addLast (bins : List α) (first : Option (Step α)) (last : Option (Step α)) : Except Err (List α) :=
  match bins with
  | x :: y :: _ =>
    if Num.gt x y then (match first with | some s => .ok (s.b :: bins) | none => .error .index)
    else (match last with | some s => .ok (bins ++ [s.b]) | none => .error .index)
  | _ => match last with | some s => .ok (bins ++ [s.b]) | none => .error .index

def decreasing (bins : List α) : Bool :=
  match bins with
  | x :: y :: _ => Num.gt x y
  | _ => false

structure Spectrum (α : Type) where
  ne : Nat
  nt : Nat
  nmu : Nat
  nphi : Nat
  ebins : List α
  tbins : List α
  mubins : List α
  phibins : List α
  /-- C order over (e, t, mu, phi); `none` = never filled (NaN in the arrays) -/
  cells : List (Option (Row α))
  integ : Option (List (Option (α × α)))

def lookup {κ ν : Type} [BEq κ] (l : List (κ × ν)) (k : κ) : Option ν := (l.find? (·.1 == k)).map (·.2)

/-- `convert_spectrum` -/
def convert (d : List (Block α)) : Except Err (Spectrum α) := do
  let (nphi, nmu, nt, ne) ← nbBins d
  let first := d.head?
  let hasInteg := (first.bind (·.integ)).isSome
  let b ← fill { ne := ne, nt := nt, nmu := nmu, nphi := nphi } d
  -- add_last_bins
  let lastRow := (d.getLast?.bind (·.rows.getLast?))
  let ebins ← match lastRow with | some r => Except.ok (b.ebins ++ [r.hi]) | none => Except.error Err.index
  let nphib := if b.phibins.isEmpty then 1 else b.phibins.length
  let nmub := if b.mubins.isEmpty then 1 else b.mubins.length
  let n := d.length
  let neg (k : Nat) : Option (Block α) := if k = 0 ∨ k > n then none else d[n - k]?
  let tbins ← if (first.bind (·.time)).isSome then addLast b.tbins (first.bind (·.time)) ((neg (nphib * nmub)).bind (·.time)) else pure b.tbins
  let mubins ← if (first.bind (·.mu)).isSome then addLast b.mubins (first.bind (·.mu)) ((neg nphib).bind (·.mu)) else pure b.mubins
  let phibins ← if (first.bind (·.phi)).isSome then addLast b.phibins (first.bind (·.phi)) ((neg 1).bind (·.phi)) else pure b.phibins
  -- convert_bins_to_increasing_arrays
  let fe := decreasing ebins
  let ft := decreasing tbins
  let fm := decreasing mubins
  let fp := decreasing phibins
  let ix (flip : Bool) (n i : Nat) : Nat := if flip then n - 1 - i else i
  let cells := (List.range ne).flatMap fun ie => (List.range nt).flatMap fun it => (List.range nmu).flatMap fun im =>
    (List.range nphi).map fun ip => lookup b.cells (ix fe ne ie, ix ft nt it, ix fm nmu im, ix fp nphi ip)
  let integ := if hasInteg then
      some ((List.range nt).flatMap fun it => (List.range nmu).flatMap fun im => (List.range nphi).map fun ip =>
        lookup b.integ (ix ft nt it, ix fm nmu im, ix fp nphi ip))
    else none
  let rev (flip : Bool) (l : List α) : List α := if flip then l.reverse else l
  pure { ne := ne, nt := nt, nmu := nmu, nphi := nphi, ebins := rev fe ebins, tbins := rev ft tbins,
         mubins := rev fm mubins, phibins := rev fp phibins, cells := cells, integ := integ }

/-- `array_result`: the absolute error of a cell, `sigma * score * 0.01` -/
def errorOf (hundredth : α) (score sigma : α) : α := Num.mul (Num.mul sigma score) hundredth

end T4Spec
