import Model.Num
/-
Model of valjean/gavroche/stat_tests/bonferroni.py (bonferroni_correction, holm_bonferroni_method,
verdicts) — property C06.  P-value arrays are flat lists (flatten / reshape is the identity on them).
-/
namespace Bonf
variable {α : Type} [Num α]

def get (p : List α) (i : Nat) : α := p.getD i (Num.ofNat 0)

/-- pinned `bonferroni_correction`: `pvalues <= level` (a NaN p-value is *accepted*, finding A7) -/
def bonfPinned (p : List α) (level : α) : List Bool := p.map fun x => Num.le x level

/-- repaired: `~(pvalues > level)` — flagged unless the p-value is known to exceed the level -/
def bonf (p : List α) (level : α) : List Bool := p.map fun x => !Num.lt level x

/-- the order `np.argsort` sorts by: increasing, NaN last -/
def leKey (x y : α) : Bool := Num.isNaN y || (!Num.isNaN x && Num.le x y)

/-- `np.argsort(flat_pvals)` — one valid sorting permutation (stable merge sort);
numpy's introsort may order the members of a tie group differently. -/
def argsort (p : List α) : List Nat :=
  (List.range p.length).mergeSort fun i j => leKey (get p i) (get p j)

/-- `np.argsort(sorted_inds)` on a list of naturals -/
def argsortNat (s : List Nat) : List Nat :=
  (List.range s.length).mergeSort fun i j => decide (s.getD i 0 ≤ s.getD j 0)

/-- per-rank level `alpha / (size - (i+1) + 1)`, `i` from 0 -/
def alphaI (alpha : α) (m k : Nat) : α := Num.div alpha (Num.ofNat (m - (k + 1) + 1))

/-- per-rank decision; pinned: `pval < alpha_i`; repaired: `not pval >= alpha_i` -/
def rejectRank (pinned : Bool) (x a : α) : Bool := if pinned then Num.lt x a else !Num.le a x

/-- `holm_bonferroni_method`: (levels, flags), both back at the original positions -/
def holm (pinned : Bool) (p : List α) (alpha : α) : List α × List Bool :=
  let m := p.length
  let σ := argsort p
  let al := (List.range m).map fun k => alphaI alpha m k
  let rej := (List.range m).map fun k => rejectRank pinned (get p (σ.getD k 0)) (alphaI alpha m k)
  let inv := argsortNat σ
  (inv.map fun j => al.getD j (Num.ofNat 0), inv.map fun j => rej.getD j false)

/-- `__bool__` : `not np.any(rejected)` over all compared datasets -/
def verdict (flags : List (List Bool)) : Bool := !(flags.any fun f => f.any id)
def oracles (flags : List (List Bool)) : List Bool := flags.map fun f => !(f.any id)
def nbRejected (flags : List (List Bool)) : List Nat := flags.map fun f => f.count true

end Bonf
