/-!
Model of the table side of the report — property C12.

(L1) the per-kind builders of `valjean/javert/table_repr.py` and the verbosity dispatch, over an abstract result
     (which bins / datasets / rows passed): which templates are produced, which rows they show, which cells are
     highlighted;
(L2) `RstTable.format_columns / highlight / compute_column_widths / tabularize / concat_rows` (rst.py:334-554) over
     already formatted cell strings, and a reader of reST simple tables;
(L3) `TableTemplate.__getitem__` / `join` on columns and highlights (templates.py:239-310).
Strings are lists of characters.
-/
namespace Table

abbrev Cell := List Char

/-! ### L2 — reST simple tables -/

def stripL (c : Cell) : Cell := c.dropWhile (· == ' ')
def strip (c : Cell) : Cell := (stripL (stripL c).reverse).reverse

/-- `RstTable.highlight` -/
def highlight (val : Cell) (flag : Bool) : Cell :=
  if flag then ":hl:`".toList ++ strip val ++ "`".toList else val

/-- `f'{val:>{w}}'` -/
def padLeft (w : Nat) (c : Cell) : Cell := List.replicate (w - c.length) ' ' ++ c

/-- `f'{header:^{w}}'` -/
def center (w : Nat) (c : Cell) : Cell :=
  let total := w - c.length
  let left := total / 2
  List.replicate left ' ' ++ c ++ List.replicate (total - left) ' '

/-- `compute_column_widths` -/
def widths (headers : List Cell) (rows : List (List Cell)) : List Nat :=
  rows.foldl (fun ws row => List.zipWith max ws (row.map List.length)) (headers.map List.length)

def sep : Cell := "  ".toList

def joinSep : List Cell → Cell
  | [] => []
  | [c] => c
  | c :: cs => c ++ sep ++ joinSep cs

def zipPad (f : Nat → Cell → Cell) : List Nat → List Cell → List Cell
  | w :: ws, c :: cs => f w c :: zipPad f ws cs
  | _, _ => []

def sepRow (ws : List Nat) : Cell := joinSep (ws.map fun w => List.replicate w '=')
def dataRow (ws : List Nat) (row : List Cell) : Cell := joinSep (zipPad padLeft ws row)
def headerRow (ws : List Nat) (headers : List Cell) : Cell := joinSep (zipPad center ws headers)

/-- `tabularize(headers, rows, indent)`: the lines of the table (each one is indented) -/
def tabularize (indent : Nat) (headers : List Cell) (rows : List (List Cell)) : List Cell :=
  let ws := widths headers rows
  let ind := List.replicate indent ' '
  ([sepRow ws, headerRow ws headers, sepRow ws] ++ rows.map (dataRow ws) ++ [sepRow ws, []]).map (ind ++ ·)

/-- `format_columns` on formatted cells: one list of cells per row, highlights applied; rows beyond the shorter of the
two are dropped (`zip`) -/
def formatRows : List (List Cell) → List (List Bool) → List (List Cell)
  | r :: rs, h :: hs => List.zipWith highlight r h :: formatRows rs hs
  | _, _ => []

/-- reading a data line back, given the column widths of the border line -/
def readRow : List Nat → Cell → List Cell
  | [], _ => []
  | [w], line => [strip (line.take w)]
  | w :: ws, line => strip (line.take w) :: readRow ws (line.drop (w + 2))

/-- the widths announced by a border line of `=` runs separated by blanks -/
def borderWidths (line : Cell) : List Nat :=
  let rec go (fuel : Nat) (l : Cell) (acc : List Nat) : List Nat :=
    match fuel with
    | 0 => acc.reverse
    | fuel + 1 =>
      let l := l.dropWhile (· == ' ')
      if l.isEmpty then acc.reverse
      else
        let run := l.takeWhile (· == '=')
        if run.isEmpty then acc.reverse else go fuel (l.drop run.length) (run.length :: acc)
  go (line.length + 1) line []

/-! ### L3 — slicing and joining a table template -/

structure Template where
  headers : List Cell
  columns : List (List Cell)      -- one list per column
  hl : List (List Bool)           -- one list per column

/-- `t[a:b]` on 1-d columns (the repaired code slices the highlights too) -/
def Template.slice (t : Template) (a b : Nat) : Template :=
  { t with columns := t.columns.map (fun c => (c.take b).drop a), hl := t.hl.map (fun h => (h.take b).drop a) }

/-- the pinned `__getitem__`: highlights of the whole table are kept -/
def Template.slicePinned (t : Template) (a b : Nat) : Template :=
  { t with columns := t.columns.map (fun c => (c.take b).drop a) }

def appendCols {α : Type} : List (List α) → List (List α) → List (List α)
  | a :: as, b :: bs => (a ++ b) :: appendCols as bs
  | _, _ => []

/-- `join`: same headers required -/
def Template.join (t u : Template) : Option Template :=
  if t.headers = u.headers then some { t with columns := appendCols t.columns u.columns, hl := appendCols t.hl u.hl }
  else none

/-! ### L1 — which templates, rows and highlights for which result -/

inductive Kind
  | equal | approx | student | bonf | holm | stats | byLabels | metadata | failed
  deriving Repr, DecidableEq

/-- the abstract result.
* `equal / approx / student`: `masks[d][i]` = bin `i` of compared dataset `d` passed;
* `bonf / holm`: `masks = [oracles]`, one flag per compared dataset;
* `byLabels`: `masks = [oracles]`, one flag per row;
* `metadata`: `masks[k][s]` = key `k` agrees for sample `s`;
* `stats`: `masks = [present]`, one flag per status present in the classification (in display order): is it the
  success status? -/
structure Res where
  kind : Kind
  masks : List (List Bool)
  nbins : Nat        -- number of bins (equal / approx / student)
  nb : Nat           -- number of bin-label columns
  scalar : Bool      -- `dsref.shape == ()`
  nlabels : Nat      -- byLabels: number of labels
  missing : Bool     -- byLabels: `nb_missing_labels() != 0`

def allTrue (m : List (List Bool)) : Bool := m.all fun l => l.all id

/-- `bool(result)` -/
def verdict (r : Res) : Bool :=
  match r.kind with
  | .failed => false
  | .stats => r.masks == [[true]]
  | _ => allTrue r.masks

inductive Out
  | text (ko : Bool)
  | table (rows : List Nat) (hl : List (List Bool))    -- one list of flags per shown row (all the columns)
  deriving Repr, DecidableEq

def hasMark : List Out → Bool
  | [] => false
  | .text ko :: rest => ko || hasMark rest
  | .table _ hl :: rest => hl.any (·.any id) || hasMark rest

def getD2 (m : List (List Bool)) (d i : Nat) : Bool := (m.getD d []).getD i true

/-- the flags of row `i` in an equal-like table: `pre` unmarked columns, then per dataset `gap` unmarked + the verdict -/
def rowFlags (pre gap : Nat) (masks : List (List Bool)) (i : Nat) : List Bool :=
  List.replicate pre false ++ (masks.flatMap fun m => List.replicate gap false ++ [!(m.getD i true)])

def fullTable (pre gap : Nat) (r : Res) (rows : List Nat) : Out :=
  .table rows (rows.map (rowFlags pre gap r.masks))

/-- rows where at least one compared dataset fails -/
def failingRows (r : Res) : List Nat :=
  (List.range r.nbins).filter fun i => r.masks.any fun m => !(m.getD i true)

def perRowTable (flags : List Bool) (ncols : Nat) (marked : Nat → Bool → List Bool) (keep : Bool → Bool) : Out :=
  let idx := (List.range flags.length).filter fun i => keep (flags.getD i true)
  .table idx (idx.map fun i => marked ncols (flags.getD i true))

/-- verbosity: 0 SILENT, 1 SUMMARY, 2 DEFAULT, 3 INTERMEDIATE, 4 FULL_DETAILS, 5 DEVELOPMENT -/
def render (r : Res) (v : Nat) : List Out :=
  let ok := verdict r
  match r.kind with
  | .equal =>
    if ok then (if v ≠ 4 then [] else [fullTable (r.nb + 1) 1 r (List.range r.nbins)])
    else if v < 2 then [.text true] else [fullTable (r.nb + 1) 1 r (List.range r.nbins)]
  | .approx =>
    if v = 0 && ok then [] else if v = 1 then [.text (!ok)] else [fullTable (r.nb + 1) 1 r (List.range r.nbins)]
  | .student =>
    if v = 0 then [] else if v = 1 then [.text (!ok)]
    else if v = 2 || v = 3 then
      (if ok then [.text false]
       else if r.scalar then [fullTable (r.nb + 2) 3 r (List.range r.nbins)]
       else [fullTable (r.nb + 2) 3 r (failingRows r)])
    else [fullTable (r.nb + 2) 3 r (List.range r.nbins)]
  | .bonf =>
    if v = 0 && ok then [] else if v = 1 then [.text (!ok)]
    else [perRowTable (r.masks.getD 0 []) 5 (fun n o => List.replicate n false ++ [!o]) (fun _ => true)]
  | .holm =>
    if v = 0 then (if ok then [] else [.text true]) else if v = 1 then [.text (!ok)]
    else [perRowTable (r.masks.getD 0 []) 6 (fun n o => List.replicate n false ++ [!o]) (fun _ => true)]
  | .stats =>
    if v = 0 && ok then []
    else
      let present := r.masks.getD 0 []
      [.table (List.range (present.length + 1)) (present.map (fun isOk => [!isOk, !isOk]) ++ [[false, false]]), .text false]
  | .byLabels =>
    if v = 0 && ok then []
    else
      let flags := r.masks.getD 0 []
      let miss := if r.missing then [Out.text false] else []
      if v = 1 then
        (if flags.all id then [.text false] ++ miss
         else [perRowTable flags (r.nlabels + 2) (fun n o => List.replicate n (!o)) (fun o => !o)] ++ miss)
      else [perRowTable flags (r.nlabels + 2) (fun n o => List.replicate n (!o)) (fun _ => true)] ++ miss
  | .metadata =>
    let keyRow (k : List Bool) : List Bool := false :: k.map (!·)
    let failing := (List.range r.masks.length).filter fun i => !((r.masks.getD i []).all id)
    if v = 0 then [] else if v = 1 then [.text (!ok)]
    else if v = 2 then [.table [0] [[false, !ok]]]
    else if v = 3 then
      (if failing.isEmpty then [.text (!ok)] else [.table failing (failing.map fun i => keyRow (r.masks.getD i []))])
    else [.table (List.range r.masks.length) (r.masks.map keyRow)]
  | .failed => [.text true]

end Table
