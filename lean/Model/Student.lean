import Model.Num
/-!
Model of `TestStudent.student_test`, `TestResultStudent.test_alpha / oracles / __bool__ / test_pvalue`
(valjean/gavroche/stat_tests/student.py:352-481) — property C05.

Datasets are flat lists of bins (the shape plays no role: every operation is cell by cell).  The critical value and the
p-values come from scipy and are *parameters* of the model.
-/
namespace Student
open Num

variable {α : Type} [Num α]

/-- Student's t for one bin: `(v1 - v2) / sqrt(e1**2 + e2**2)` with the three conventions of the code -/
def tStat (v1 e1 v2 e2 : α) : α :=
  let dv := Num.sub v1 v2
  let de := quadSum e1 e2
  if Num.beq dv zero && Num.beq de zero then zero
  else if Num.beq dv zero && Num.isNaN e1 && Num.isNaN e2 then zero
  else if Num.isNaN v1 && Num.isNaN v2 then zero
  else Num.div dv de

/-- `test_alpha`: `np.less(np.fabs(tstud), threshold)` -/
def oracle (thr t : α) : Bool := Num.lt (Num.abs t) thr

structure Bin (α : Type) where
  v : α
  e : α

/-- t of every bin of one compared dataset against the reference -/
def tList : List (Bin α) → List (Bin α) → List α
  | r :: rs, d :: ds => tStat r.v r.e d.v d.e :: tList rs ds
  | _, _ => []

def oracles (thr : α) (ref : List (Bin α)) (dss : List (List (Bin α))) : List (List Bool) :=
  dss.map fun ds => (tList ref ds).map (oracle thr)

/-- `__bool__`: every bin of every compared dataset -/
def verdict (thr : α) (ref : List (Bin α)) (dss : List (List (Bin α))) : Bool :=
  (oracles thr ref dss).all fun l => l.all id

/-- `test_pvalue`: `pval > alpha` -/
def pDecision (alpha p : α) : Bool := Num.lt alpha p

end Student
