/-
Model of the queue scheduling backend: valjean/cosette/backends/queue.py (`QueueScheduling.execute_tasks`,
`_enqueue`, `decide_new_state`, `decide_new_state_waiting`, `last_end_time`, `WorkerThread.run`) with the parts of
valjean/cosette/env.py it relies on — properties C01–C04.

Granularity: one atomic step per call of a synchronisation primitive (queue put/get/task_done/join, condition
variable enter/wait/notify_all, outermost acquisition of the environment lock, Thread.start/join, time.time()).
The thread-local code that follows a primitive, up to the next one, belongs to the same step.  The environment
lock is never held across two primitives, so it does not appear in the state; the condition variable's lock is.

Tasks are numbered in the order returned by `full_graph.topological_sort()`: dependencies have smaller numbers.
Thread ids: 0 is the master (the caller of `schedule`), `w + 1` is worker `w`.
-/
namespace Sched

inductive St | waiting | pending | done | failed | skipped
  deriving DecidableEq, Repr

def St.final : St → Bool
  | .done | .failed | .skipped => true
  | _ => false

structure Entry where
  st : St
  pay : Option Nat          -- version of the environment update merged for this task (the start clock of the run that produced it)
  startC : Option Nat
  endC : Option Nat
  deriving DecidableEq, Repr

/-- what the body of a task does when it is executed -/
inductive Outcome | done | failedRet | raises | retNone | notPair | badStatus | badUpdate
  deriving DecidableEq, Repr

/-- the status the worker publishes -/
def Outcome.status : Outcome → St
  | .done => .done
  | _ => .failed

/-- is there an environment update to merge? (`(update, DONE)` and `(update, FAILED)`) -/
def Outcome.hasUpdate : Outcome → Bool
  | .done | .failedRet => true
  | _ => false

structure Cfg where
  n : Nat
  deps : List (List Nat)      -- deps[t]: every dependency of t (hard and soft)
  hard : List (List Nat)      -- hard[t] ⊆ deps[t]
  out : List Outcome
  workers : Nat
  cyclic : Bool               -- the real graph is cyclic: `topological_sort` raises
  deriving Repr

def Cfg.depsOf (c : Cfg) (t : Nat) : List Nat := c.deps.getD t []
def Cfg.hardOf (c : Cfg) (t : Nat) : List Nat := c.hard.getD t []
def Cfg.outOf (c : Cfg) (t : Nat) : Outcome := c.out.getD t .done

/-- the environment: task ↦ its entry, if any (a structure, so that updates are evaluated when they are made) -/
structure Env where
  get : Nat → Option Entry

def upd {α : Type} (f : Nat → α) (i : Nat) (a : α) : Nat → α := fun x => if x = i then a else f x

def Env.entry (e : Env) (t : Nat) : Option Entry := e.get t
def Env.st? (e : Env) (t : Nat) : Option St := (e.entry t).map (·.st)
def Env.set (e : Env) (t : Nat) (v : Option Entry) : Env := ⟨upd e.get t v⟩

/-- `get_status(task)`: `setdefault(name, {'status': WAITING})` -/
def Env.touch (e : Env) (t : Nat) : Env :=
  match e.entry t with
  | some _ => e
  | none => e.set t (some ⟨.waiting, none, none, none⟩)

def Env.setSt (e : Env) (t : Nat) (s : St) : Env :=
  match e.entry t with
  | some x => e.set t (some { x with st := s })
  | none => e.set t (some ⟨s, none, none, none⟩)

def Env.isSt (e : Env) (t : Nat) (s : St) : Bool := e.st? t == some s

inductive Decision | wait | skip | pending | drop
  deriving DecidableEq, Repr

/-- `last_end_time(tasks, env)` -/
def lastEnd (e : Env) : List Nat → Option Nat
  | [] => none
  | d :: ds =>
    match (e.entry d).bind (·.endC), ds with
    | none, _ => none
    | some x, [] => some x
    | some x, _ =>
      match lastEnd e ds with
      | none => none
      | some y => some (max x y)

/-- `decide_new_state(task, deps, hard_deps, env, undecided)` of the repaired code: the decision and the new
environment.  `left` are the tasks already left for the next pass (the undecided ones). -/
def decide (c : Cfg) (e : Env) (left : List Nat) (t : Nat) : Decision × Env :=
  let deps := c.depsOf t
  let hard := c.hardOf t
  if deps.any (fun d => left.contains d || (e.entry d).isNone || e.isSt d .pending) then
    let e := e.touch t
    (.wait, if e.isSt t .done then e else e.setSt t .waiting)
  else if hard.any (fun d => e.isSt d .failed || e.isSt d .skipped) then
    (.skip, e.setSt t .skipped)
  else
    let e := e.touch t
    if e.isSt t .done then
      let doneDeps := deps.filter (fun d => e.isSt d .done)
      if doneDeps.isEmpty then (.drop, e)
      else
        match lastEnd e doneDeps, (e.entry t).bind (·.startC) with
        | some le, some ts => if le ≤ ts then (.drop, e) else (.pending, e.setSt t .pending)
        | _, _ => (.pending, e.setSt t .pending)
    else
      let e := e.setSt t .waiting
      if deps.all (fun d => e.isSt d .done || e.isSt d .failed || e.isSt d .skipped) then
        (.pending, e.setSt t .pending)
      else (.wait, e)

/-- the pinned `decide_new_state` (before the repair of A2): waits only for PENDING or missing dependencies, sets
a DONE task WAITING, takes the DONE branch before the failed-hard-dependency test, and `last_end_time` over all
dependencies -/
def decidePinned (c : Cfg) (e : Env) (t : Nat) : Decision × Env :=
  let deps := c.depsOf t
  let hard := c.hardOf t
  if deps.any (fun d => (e.entry d).isNone || e.isSt d .pending) then
    (.wait, (e.touch t).setSt t .waiting)
  else
    let e := e.touch t
    if e.isSt t .done then
      match lastEnd e deps with
      | none => (.drop, e)
      | some le =>
        match (e.entry t).bind (·.startC) with
        | some ts => if le ≤ ts then (.drop, e) else (.pending, e.setSt t .pending)
        | none => (.pending, e.setSt t .pending)
    else if hard.any (fun d => e.isSt d .failed || e.isSt d .skipped) then
      (.skip, e.setSt t .skipped)
    else if deps.all (fun d => e.isSt d .done || e.isSt d .failed || e.isSt d .skipped) then
      (.pending, e.setSt t .pending)
    else (.wait, e.setSt t .waiting)

inductive MPc
  | spawn (k : Nat)          -- next primitive: Thread.start of worker k
  | acq                      -- cond_var.__enter__
  | consider                 -- env.atomically(decide_new_state) for the head of `todo`
  | put (t : Nat)            -- queue.put(t)
  | wake                     -- inside cond_var.wait(): waiting to be notified
  | qjoin                    -- queue.join()
  | sentinel (k : Nat)       -- queue.put(None), k-th
  | joinW (k : Nat)          -- thread.join() of worker k
  | returned
  | raised                   -- DepGraphError from the topological sort
  deriving DecidableEq, Repr

inductive WPc
  | notStarted
  | begin                    -- started, has not run yet
  | get                      -- queue.get()
  | timeStart (t : Nat)      -- time.time() before task.do()
  | timeEnd (t : Nat) (start : Nat)
  | apply (t : Nat) (start stop : Nat)     -- env.apply(env_update)
  | clocks (t : Nat) (start stop : Nat)    -- env.set_start_end_clock
  | status (t : Nat)                       -- env.set_status
  | taskDone                               -- queue.task_done()
  | cacq                                   -- cond_var.__enter__
  | notify                                 -- cond_var.notify_all()
  | sentinelDone                           -- queue.task_done() for the sentinel
  | exited
  deriving DecidableEq, Repr

structure State where
  env : Env
  queue : List (Option Nat)
  unfinished : Nat
  condOwner : Option Nat        -- thread holding the condition variable's lock
  waiting : Bool                -- the master is inside cond_var.wait()
  notified : Bool
  clock : Nat
  execCount : Nat → Nat
  seen : Nat → Option (List (Option Entry))    -- what each task found for its dependencies when it started
  mpc : MPc
  todo : List Nat               -- rest of the current pass (its head is the task under consideration)
  left : List Nat               -- tasks left for the next pass
  nBefore : Nat
  wpc : Nat → WPc

/-- state at the call of `execute_tasks` (`env`, queue and its counter are those left by earlier calls) -/
def init (c : Cfg) (env : Env) (queue : List (Option Nat)) (unfinished : Nat) (clock : Nat := 0) : State :=
  { env := env, queue := queue, unfinished := unfinished, condOwner := none, waiting := false, notified := false,
    clock := clock, execCount := fun _ => 0, seen := fun _ => none,
    mpc := if c.cyclic then .raised else if c.workers = 0 then (if c.n = 0 then .qjoin else .acq) else .spawn 0,
    todo := List.range c.n, left := [], nBefore := c.n, wpc := fun _ => .notStarted }

/-- what the master does after the last task of a pass: leave the loop, start a new pass, or go to sleep -/
def passEnd (s : State) : State :=
  if s.left.isEmpty then { s with mpc := .qjoin, condOwner := none }
  else if s.nBefore = s.left.length then
    { s with mpc := .wake, condOwner := none, waiting := true, notified := false }
  else { s with mpc := .acq, condOwner := none, todo := s.left, left := [], nBefore := s.left.length }

/-- the task at the head of `todo` has been dealt with -/
def advance (s : State) : State :=
  let s := { s with todo := s.todo.tail }
  if s.todo.isEmpty then passEnd s else { s with mpc := .consider }

def afterSpawn (c : Cfg) (k : Nat) : MPc :=
  if k + 1 < c.workers then .spawn (k + 1) else if c.n = 0 then .qjoin else .acq

/-- one step of the master; `kind` is the primitive the real thread announced -/
def stepMaster (c : Cfg) (s : State) (kind : String) : Option State :=
  match s.mpc, kind with
  | .spawn k, "tstart" => some { s with wpc := upd s.wpc k .begin, mpc := afterSpawn c k }
  | .acq, "cacq" => if s.condOwner.isNone then some { s with condOwner := some 0, mpc := .consider } else none
  | .consider, "elock" =>
    match s.todo with
    | [] => none
    | t :: _ =>
      let (d, env) := decide c s.env s.left t
      let s := { s with env := env }
      match d with
      | .wait => some (advance { s with left := s.left ++ [t] })
      | .skip | .drop => some (advance s)
      | .pending => some { s with mpc := .put t }
  | .put t, "qput" => some (advance { s with queue := s.queue ++ [some t], unfinished := s.unfinished + 1 })
  | .wake, "cwake" =>
    if s.notified && s.condOwner.isNone then
      some { s with waiting := false, notified := false, mpc := .acq, todo := s.left, left := [], nBefore := s.left.length }
    else none
  | .qjoin, "qjoin" =>
    if s.unfinished = 0 then some { s with mpc := if c.workers = 0 then .returned else .sentinel 0 } else none
  | .sentinel k, "qput" =>
    some { s with queue := s.queue ++ [none], unfinished := s.unfinished + 1,
                  mpc := if k + 1 < c.workers then .sentinel (k + 1) else .joinW 0 }
  | .joinW k, "tjoin" =>
    if s.wpc k = .exited then
      some { s with mpc := if k + 1 < c.workers then .joinW (k + 1) else .returned }
    else none
  | _, _ => none

def snapshot (c : Cfg) (e : Env) (t : Nat) : List (Option Entry) := (c.depsOf t).map e.entry

def updEntry (e : Env) (t : Nat) (f : Entry → Entry) : Env :=
  match e.entry t with
  | some x => e.set t (some (f x))
  | none => e.set t (some (f ⟨.waiting, none, none, none⟩))

/-- one step of worker `w` -/
def stepWorker (c : Cfg) (s : State) (w : Nat) (kind : String) : Option State :=
  let setPc (s : State) (pc : WPc) : State := { s with wpc := upd s.wpc w pc }
  match s.wpc w, kind with
  | .begin, "begin" => some (setPc s .get)
  | .get, "qget" =>
    match s.queue with
    | [] => none
    | some t :: rest => some (setPc { s with queue := rest } (.timeStart t))
    | none :: rest => some (setPc { s with queue := rest } .sentinelDone)
  | .timeStart t, "time" =>
    -- start = time.time(); then task.do(env, config) runs: it sees the environment as it is now
    let start := s.clock + 1
    some (setPc { s with clock := start, execCount := upd s.execCount t (s.execCount t + 1),
                         seen := upd s.seen t (some (snapshot c s.env t)) } (.timeEnd t start))
  | .timeEnd t start, "time" =>
    let stop := s.clock + 1
    some (setPc { s with clock := stop }
      (if (c.outOf t).hasUpdate then .apply t start stop else .clocks t start stop))
  | .apply t start stop, "elock" =>
    some (setPc { s with env := updEntry s.env t fun x => { x with pay := some start } } (.clocks t start stop))
  | .clocks t start stop, "elock" =>
    some (setPc { s with env := updEntry s.env t fun x => { x with startC := some start, endC := some stop } } (.status t))
  | .status t, "elock" =>
    some (setPc { s with env := s.env.setSt t (c.outOf t).status } .taskDone)
  | .taskDone, "qdone" => if s.unfinished = 0 then none else some (setPc { s with unfinished := s.unfinished - 1 } .cacq)
  | .cacq, "cacq" => if s.condOwner.isNone then some (setPc { s with condOwner := some (w + 1) } .notify) else none
  | .notify, "cnotify" =>
    some (setPc { s with notified := s.notified || s.waiting, condOwner := none } .get)
  | .sentinelDone, "qdone" => if s.unfinished = 0 then none else some (setPc { s with unfinished := s.unfinished - 1 } .exited)
  | _, _ => none

def step (c : Cfg) (s : State) (tid : Nat) (kind : String) : Option State :=
  if tid = 0 then stepMaster c s kind else stepWorker c s (tid - 1) kind

/-- is the next primitive of the thread enabled? (threads that have finished are not) -/
def enabledMaster (s : State) : Bool :=
  match s.mpc with
  | .spawn _ | .consider | .put _ | .sentinel _ => true
  | .acq => s.condOwner.isNone
  | .wake => s.notified && s.condOwner.isNone
  | .qjoin => s.unfinished = 0
  | .joinW k => s.wpc k = .exited
  | .returned | .raised => false

def enabledWorker (s : State) (w : Nat) : Bool :=
  match s.wpc w with
  | .notStarted | .exited => false
  | .get => !s.queue.isEmpty
  | .cacq => s.condOwner.isNone
  | _ => true

def enabled (c : Cfg) (s : State) : List Nat :=
  (if enabledMaster s then [0] else []) ++ ((List.range c.workers).filter (enabledWorker s)).map (· + 1)

def masterDone (s : State) : Bool := s.mpc = .returned || s.mpc = .raised
def workerDone (s : State) (w : Nat) : Bool :=
  let pc := s.wpc w
  pc = .exited || pc = .notStarted

/-- every thread has finished -/
def terminal (c : Cfg) (s : State) : Bool := masterDone s && (List.range c.workers).all (workerDone s)

end Sched
