import Model.Num
/-!
Model of `Dataset` arithmetic, `copy` and `squeeze` (valjean/eponine/dataset.py:786-962) — property C08.

Arrays are row-major flat lists with a shape; numbers are generic (`Num α`): `Float` in the driver, `XReal` in the
theorems.  The model is the *repaired* code (a constant factor scales the error by its magnitude; `copy` copies the
bins); `mulScalarPinned`/`divScalarPinned` keep the pinned behaviour for the refutation theorem.
-/
namespace DSet
open Num

structure Dataset (α : Type) where
  shape : List Nat
  value : List α
  error : List α
  bins : List (String × List α)
  what : String

inductive DErr where
  | shape      -- ValueError: "... do not have same shape" / "Value and error do not have the same shape"
  | binNames   -- ValueError: "... do not have same bin names"
  | binValues  -- ValueError: "... do not have the same bins"
  deriving Repr, DecidableEq

variable {α : Type} [Num α]

/-- `np.array_equal` on 1-d float arrays (NaN is different from itself) -/
def arrayEqual : List α → List α → Bool
  | [], [] => true
  | a :: as, b :: bs => Num.beq a b && arrayEqual as bs
  | _, _ => false

/-- `_check_datasets_consistency`: both tests run over `zip(self.bins, other.bins)` -/
def consistency (a b : Dataset α) : Except DErr Unit :=
  if b.shape ≠ a.shape then .error .shape
  else if b.bins.isEmpty then .ok ()
  else if (a.bins.zip b.bins).any (fun p => p.1.1 ≠ p.2.1) then .error .binNames
  else if (a.bins.zip b.bins).all (fun p => arrayEqual p.1.2 p.2.2) then .ok ()
  else .error .binValues

def map2 (f : α → α → α) : List α → List α → List α
  | a :: as, b :: bs => f a b :: map2 f as bs
  | _, _ => []

/-- error of a product: `sqrt((e1*v2)**2 + (e2*v1)**2)` -/
def mulErr (v1 e1 v2 e2 : α) : α := Num.sqrt (Num.add (sq (Num.mul e1 v2)) (sq (Num.mul e2 v1)))
/-- error of a quotient: `sqrt((e1/v2)**2 + (v1*e2/v2**2)**2)` -/
def divErr (v1 e1 v2 e2 : α) : α :=
  Num.sqrt (Num.add (sq (Num.div e1 v2)) (sq (Num.div (Num.mul v1 e2) (sq v2))))

def map4 (f : α → α → α → α → α) : List α → List α → List α → List α → List α
  | a :: as, b :: bs, c :: cs, d :: ds => f a b c d :: map4 f as bs cs ds
  | _, _, _, _ => []

inductive Op where
  | add | sub | mul | div
  deriving Repr, DecidableEq

def Op.sym : Op → String
  | .add => "+" | .sub => "-" | .mul => "*" | .div => "/"

def Op.val (o : Op) : α → α → α :=
  match o with
  | .add => Num.add | .sub => Num.sub | .mul => Num.mul | .div => Num.div

/-- the `what` of the result (`+` and `-` keep a common `what`) -/
def whatOf (o : Op) (a b : String) : String :=
  match o with
  | .add | .sub => if b = a then a else a ++ o.sym ++ b
  | _ => a ++ o.sym ++ b

/-- dataset `op` dataset -/
def opDS (o : Op) (a b : Dataset α) : Except DErr (Dataset α) :=
  match consistency a b with
  | .error e => .error e
  | .ok () =>
    let value := map2 o.val a.value b.value
    let error := match o with
      | .add | .sub => map2 quadSum a.error b.error
      | .mul => map4 mulErr a.value a.error b.value b.error
      | .div => map4 divErr a.value a.error b.value b.error
    .ok { shape := a.shape, value := value, error := error, bins := a.bins, what := whatOf o a.what b.what }

/-- dataset `op` number (int or float) -/
def opScalar (o : Op) (a : Dataset α) (c : α) : Dataset α :=
  { a with value := a.value.map (fun v => o.val v c),
           error := match o with
             | .add | .sub => a.error
             | .mul => a.error.map (fun e => Num.mul e (Num.abs c))
             | .div => a.error.map (fun e => Num.div e (Num.abs c)) }

/-- the pinned code: the error is scaled by the factor itself -/
def opScalarPinned (o : Op) (a : Dataset α) (c : α) : Dataset α :=
  { a with value := a.value.map (fun v => o.val v c),
           error := match o with
             | .add | .sub => a.error
             | .mul => a.error.map (fun e => Num.mul e c)
             | .div => a.error.map (fun e => Num.div e c) }

/-- dataset `op` ndarray of the same shape -/
def opArray (o : Op) (a : Dataset α) (shape : List Nat) (arr : List α) : Except DErr (Dataset α) :=
  if shape ≠ a.shape then .error .shape
  else .ok { a with value := map2 o.val a.value arr,
                    error := match o with
                      | .add | .sub => a.error
                      | .mul => map2 (fun e c => Num.mul e (Num.abs c)) a.error arr
                      | .div => map2 (fun e c => Num.div e (Num.abs c)) a.error arr }

/-- `Dataset.squeeze` (shapes without empty axes) -/
def squeeze (d : Dataset α) : Dataset α :=
  { d with shape := d.shape.filter (· ≠ 1),
           bins := ((d.bins.zip d.shape).filter (fun kb => ¬ kb.2 < 2)).map (·.1) }

/-- well-formed: value and error have the shape's number of cells; one bins entry per axis (or none at all), each
with N or N+1 entries (or empty); no empty axis -/
def WF (d : Dataset α) : Prop :=
  d.value.length = d.shape.foldl (· * ·) 1 ∧ d.error.length = d.value.length ∧
  (d.bins = [] ∨ d.bins.length = d.shape.length) ∧ (∀ n ∈ d.shape, 0 < n)

/-! ### chains over several variables (what the correspondence runs) -/

inductive Rhs (α : Type) where
  | scalar (c : α)
  | array (shape : List Nat) (a : List α)
  | var (j : Nat)

inductive Which where
  | value | error | bin (k : Nat)
  deriving Repr, DecidableEq

inductive Cmd (α : Type) where
  | arith (dst src : Nat) (o : Op) (r : Rhs α)   -- v[dst] = v[src] o r
  | copy (dst src : Nat)
  | squeeze (dst src : Nat)
  | poke (v : Nat) (w : Which) (i : Nat) (x : α)  -- in-place write into one array of one variable

abbrev Store (α : Type) := List (Option (Dataset α))

def Store.get : Store α → Nat → Option (Dataset α)
  | [], _ => none
  | x :: _, 0 => x
  | _ :: xs, i + 1 => Store.get xs i

/-- bind variable `i` (the store grows with unbound slots when needed) -/
def Store.put : Store α → Nat → Dataset α → Store α
  | [], 0, d => [some d]
  | [], i + 1, d => none :: Store.put [] i d
  | _ :: xs, 0, d => some d :: xs
  | x :: xs, i + 1, d => x :: Store.put xs i d

def pokeList (l : List α) (i : Nat) (x : α) : List α := if i < l.length then l.set i x else l

def pokeDS (d : Dataset α) (w : Which) (i : Nat) (x : α) : Dataset α :=
  match w with
  | .value => { d with value := pokeList d.value i x }
  | .error => { d with error := pokeList d.error i x }
  | .bin k => { d with bins := d.bins.zipIdx.map fun (kb, j) => if j = k then (kb.1, pokeList kb.2 i x) else kb }

/-- the outcome of one command: the new store and what the command raised (if anything) -/
def stepCmd (s : Store α) : Cmd α → Store α × Option DErr
  | .arith dst src o r =>
    match s.get src with
    | none => (s, none)
    | some a =>
      match r with
      | .scalar c => (s.put dst (opScalar o a c), none)
      | .array sh arr =>
        match opArray o a sh arr with
        | .ok d => (s.put dst d, none)
        | .error e => (s, some e)
      | .var j =>
        match s.get j with
        | none => (s, none)
        | some b =>
          match opDS o a b with
          | .ok d => (s.put dst d, none)
          | .error e => (s, some e)
  | .copy dst src =>
    match s.get src with
    | none => (s, none)
    | some a => (s.put dst a, none)
  | .squeeze dst src =>
    match s.get src with
    | none => (s, none)
    | some a => (s.put dst (squeeze a), none)
  | .poke v w i x =>
    match s.get v with
    | none => (s, none)
    | some a => (s.put v (pokeDS a w i x), none)

def runCmds (s : Store α) : List (Cmd α) → Store α × List (Option DErr)
  | [] => (s, [])
  | c :: cs =>
    let (s', e) := stepCmd s c
    let (s'', es) := runCmds s' cs
    (s'', e :: es)

end DSet
