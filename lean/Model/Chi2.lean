import Model.Num
/-!
Model of `TestChi2` (valjean/gavroche/stat_tests/chi2.py:317-421) — property C07.

Datasets are flat lists of bins.  The chi-square survival function comes from scipy and is a *parameter*: the model
takes the p-values as data.
-/
namespace Chi2
open Num

variable {α : Type} [Num α]

structure Bin (α : Type) where
  v : α
  e : α

/-- `_nonzero_bins`: with `ignore_empty`, a bin is used when at least one of the two errors is `> 0` -/
def used (ignore : Bool) (r d : Bin α) : Bool := if ignore then (Num.gt r.e zero || Num.gt d.e zero) else true

/-- one term of the sum: `((v1 - v2) / sqrt(e1**2 + e2**2))**2` -/
def term (r d : Bin α) : α := sq (Num.div (Num.sub r.v d.v) (quadSum r.e d.e))

def sum : List α → α
  | [] => zero
  | x :: xs => Num.add x (sum xs)

/-- the pairs (reference bin, compared bin) that are used -/
def usedPairs (ignore : Bool) : List (Bin α) → List (Bin α) → List (Bin α × Bin α)
  | r :: rs, d :: ds => if used ignore r d then (r, d) :: usedPairs ignore rs ds else usedPairs ignore rs ds
  | _, _ => []

/-- the statistic: sum over the used bins -/
def chi2 (ignore : Bool) (ref ds : List (Bin α)) : α := sum ((usedPairs ignore ref ds).map fun p => term p.1 p.2)

/-- number of degrees of freedom = number of used bins -/
def ndf (ignore : Bool) (ref ds : List (Bin α)) : Nat := (usedPairs ignore ref ds).length

/-- `oracles`: `np.greater(pvalue, alpha)` per compared dataset; `__bool__`: all of them -/
def oracles (alpha : α) (ps : List α) : List Bool := ps.map fun p => Num.gt p alpha
def verdict (alpha : α) (ps : List α) : Bool := (oracles alpha ps).all id

end Chi2
