/-!
Model of the Tripoli-4 listing scanner (valjean/eponine/tripoli4/scan.py:150-470, `Scanner._get_collres` and the
classes it drives) and of `Parser.__init__`'s mapping of scanner failures (parse.py:96-156) — property C11.

A listing is a list of lines (each with its end of line, the last one possibly cut anywhere).  Every
`int(line.split()[k])` is a partial function: its failure is the outcome `crash IndexError | crash ValueError` in the
pinned code and `scannerError` in the repaired one.
-/
namespace T4Scan

abbrev Line := List Char

/-! ### Python string primitives -/

def isWs (c : Char) : Bool := c == ' ' || c == '\t' || c == '\n' || c == '\r' || c == '\x0b' || c == '\x0c'

def isPrefix : Line → Line → Bool
  | [], _ => true
  | _ :: _, [] => false
  | a :: as, b :: bs => a == b && isPrefix as bs

/-- `sub in line` -/
def contains (line sub : Line) : Bool :=
  match line with
  | [] => sub.isEmpty
  | c :: cs => isPrefix sub (c :: cs) || contains cs sub

def has (line : Line) (s : String) : Bool := contains line s.toList

def lstrip (l : Line) : Line := l.dropWhile isWs

/-- `line.split()` -/
def split (l : Line) : List Line :=
  let rec go (l : Line) (cur : Line) (acc : List Line) : List Line :=
    match l with
    | [] => (if cur.isEmpty then acc else cur.reverse :: acc).reverse
    | c :: cs => if isWs c then go cs [] (if cur.isEmpty then acc else cur.reverse :: acc) else go cs (c :: cur) acc
  go l [] []

def isDigits (t : Line) : Bool := !t.isEmpty && t.all Char.isDigit

def digitsVal (t : Line) : Nat := t.foldl (fun n c => 10 * n + (c.toNat - '0'.toNat)) 0

inductive Crash | indexError | valueError
  deriving Repr, DecidableEq

/-- `int(tok)` for what a listing can contain: an optional sign and decimal digits -/
def pyInt (t : Line) : Except Crash Int :=
  match t with
  | '-' :: r => if isDigits r then .ok (-(digitsVal r : Int)) else .error .valueError
  | '+' :: r => if isDigits r then .ok (digitsVal r : Int) else .error .valueError
  | r => if isDigits r then .ok (digitsVal r : Int) else .error .valueError

/-- `int(line.split()[k])` -/
def intAt (toks : List Line) (k : Nat) : Except Crash Int :=
  match toks[k]? with
  | none => .error .indexError
  | some t => pyInt t

def intLast (toks : List Line) : Except Crash Int :=
  match toks.getLast? with
  | none => .error .indexError
  | some t => pyInt t

/-! ### `PhEmEpBalanceOutput`, `HomogMatOutput`, `BatchResultScanner` -/

structure Homog where
  inDump : Bool := false
  nbGroups : Nat := 0
  counting : Bool := false
  nbCorrLines : Nat := 0
  content : List Line := []      -- reversed

def Homog.addLine (h : Homog) (line : Line) : Homog :=
  let h := { h with content := line :: h.content }
  -- _count
  let h := if h.counting then
      (if h.nbCorrLines > 0 then { h with nbCorrLines := h.nbCorrLines + 1 }
       else if (line.head?.map Char.isDigit).getD false then { h with nbGroups := h.nbGroups + 1 } else h)
    else h
  if has line "dump total section :" then { h with counting := true }
  else if has line "dump absorption section :" then { h with counting := false }
  else if has line "correlation between absorption and total cross section" then
    { h with nbCorrLines := h.nbCorrLines + 1, counting := true }
  else if h.nbCorrLines > h.nbGroups then { h with counting := false, inDump := false }
  else h

structure BatchScan where
  number : Int := -1
  current : Int
  greater : Int := 0
  result : List Line             -- reversed
  para : Bool
  inPhemep : Bool := false
  phemepCount : Nat := 0
  phemep : List Line := []       -- reversed
  homog : Homog := {}

def sharps : Line := List.replicate 64 '#'

/-- `build_result` -/
def BatchScan.build (b : BatchScan) (line : Line) : Except Crash BatchScan := do
  let toks := split line
  let b ←
    if has line "Edition after batch number" then
      (do let n ← intLast toks; pure { b with number := n })
    else if contains line sharps && !b.inPhemep then pure { b with inPhemep := true }
    else if has line "DUMP HOMOGENIZED MATERIAL" then pure { b with homog := { b.homog with inDump := true } }
    else pure b
  let b ←
    if b.para && has line "number of batches used" then
      (do let n ← intAt toks 4; pure (if b.greater < n then { b with greater := n } else b))
    else pure b
  -- _store_line
  if b.inPhemep then
    let cnt := if has line "Total" then b.phemepCount + 1 else b.phemepCount
    pure { b with phemep := line :: b.phemep, phemepCount := cnt,
                  inPhemep := if has line "Total" && cnt == 3 then false else b.inPhemep }
  else if b.homog.inDump then pure { b with homog := b.homog.addLine line }
  else pure { b with result := line :: b.result }

/-- `check_batch_number` -/
def BatchScan.check (b : BatchScan) : BatchScan :=
  if !b.para then
    (if b.number ≠ b.current ∧ b.number < b.current then { b with number := b.current } else b)
  else if b.greater > b.number then { b with number := b.greater } else b

/-! ### `Scanner` -/

/-- a recorded time: `none` is the string "Not a time" -/
abbrev TimeVal := Option Nat

structure S where
  batches : Option Int := none
  packetLength : Int := 1
  tasks : Int := 1
  normalend : Bool := false
  para : Bool := false
  partialEd : Bool := false
  warnings : Nat := 0
  errors : Nat := 0
  initTime : Option Int := none
  times : List (String × List (Int × TimeVal)) := []      -- in insertion order
  fatal : Bool := false
  collres : List (Int × List Line) := []                   -- the OrderedDict
  history : List (Int × List Line) := []                   -- ghost: every block closed, in order (reversed)
  cur : Option BatchScan := none
  currentBatch : Int := 0
  genState : Bool := false

def S.timesEmpty (s : S) : Bool := s.initTime.isNone && s.times.isEmpty

def endFlags : List String := ["simulation time", "exploitation time", "elapsed time"]

/-- `_is_end_flag` (no user flag) -/
def isEndFlag (line : Line) : Option String :=
  if !has line "time" then none else endFlags.find? (has line ·)

def dictSet {κ ν : Type} [BEq κ] (d : List (κ × ν)) (k : κ) (v : ν) : List (κ × ν) :=
  if d.any (·.1 == k) then d.map (fun p => if p.1 == k then (k, v) else p) else d ++ [(k, v)]

def dictGet {κ ν : Type} [BEq κ] (d : List (κ × ν)) (k : κ) : Option ν := (d.find? (·.1 == k)).map (·.2)

/-- `_add_time` -/
def S.addTime (s : S) (flag : String) (line : Line) : S :=
  let batch : Int := match s.collres.getLast? with | some p => p.1 | none => 0
  let eflag := flag.replace " " "_"
  let time : TimeVal := match (split line).getLast? with
    | some t => if isDigits t then some (digitsVal t) else none
    | none => none
  let sub := (dictGet s.times eflag).getD []
  let newTimes := match dictGet sub batch with
    | none => dictSet s.times eflag (dictSet sub batch time)
    | some old =>
      if old != time && s.partialEd then dictSet s.times eflag (dictSet sub batch time)
      else dictSet s.times eflag sub
  { s with times := newTimes }

/-- `_set_counters_and_flags` -/
def S.counters (s : S) (line : Line) : S :=
  if has line "WARNING" then { s with warnings := s.warnings + 1 }
  else if has line "ERROR" then
    { s with errors := s.errors + 1, fatal := s.fatal || has line "FATAL ERROR" }
  else if has line "PARTIAL EDITION" then { s with partialEd := true }
  else if has line "NORMAL COMPLETION" then { s with normalend := true }
  else s

/-- `_check_input_data` -/
def S.inputData (s : S) (line : Line) : Except Crash S := do
  let toks := split line
  if has line "BATCH" && !line.contains '_' && !has line "THIS" then
    match toks.findIdx? (· == "BATCH".toList) with
    | none => .error .valueError                      -- list.index raises ValueError
    | some i =>
      if toks.length > 1 then (do let n ← intAt toks (i + 1); pure { s with batches := some n })
      else pure { s with batches := none }
  else if has line "number of tasks is" then
    (do let n ← intAt toks 5; pure { s with para := true, tasks := n })
  else if has line "BATCH_PER_SIMULATOR" then
    (do let n ← intAt toks 1; pure { s with batches := some (n * (if s.tasks > 1 then s.tasks - 2 else 1)) })
  else if has line "PACKET_LENGTH" then
    match toks.findIdx? (· == "PACKET_LENGTH".toList) with
    | none => .error .valueError
    | some i => if s.para then (do let n ← intAt toks (i + 1); pure { s with packetLength := n }) else pure s
  else if has line "initialization time" then
    (do let n ← intAt toks 3; pure { s with initTime := some n })
  else pure s

/-- one line of `_get_collres` -/
def S.step (s : S) (line : Line) : Except Crash S := do
  let ls := lstrip line
  if isPrefix "//".toList ls then return s
  if isPrefix "!!!".toList ls then return s
  let s := s.counters line
  match s.cur with
  | some b =>
    let b ← b.build line
    match isEndFlag line with
    | some flag =>
      let b := b.check
      let block := b.result.reverse
      let s := { s with collres := dictSet s.collres b.number block, history := (b.number, block) :: s.history, cur := none }
      pure (s.addTime flag line)
    | none => pure { s with cur := some b }
  | none =>
    if s.fatal then pure s
    else if s.timesEmpty then s.inputData line
    else if has line "RESULTS ARE GIVEN" then
      pure { s with cur := some { current := s.currentBatch, result := [line], para := s.para } }
    else if (s.partialEd && isPrefix " number of batch".toList line) || isPrefix " batch number :".toList line then
      (do let n ← intLast (split line); pure { s with currentBatch := n })
    else
      match isEndFlag line with
      | some flag =>
        let check := match s.collres.getLast? with | some p => s.currentBatch == p.1 | none => false
        if !s.para && !check then pure s else pure (s.addTime flag line)
      | none =>
        if has line "Type and parameters of random generator at the end of simulation:" then pure { s with genState := true }
        else if s.genState then pure { s with genState := !has line "COUNTER" }
        else pure s

def scanLines (s : S) : List Line → Except Crash S
  | [] => .ok s
  | l :: ls => match s.step l with
    | .ok s' => scanLines s' ls
    | .error e => .error e

inductive Outcome
  | ok (s : S)
  | scannerError            -- → `ParserException("Scan failed.")`
  | crash (c : Crash)       -- any other exception escaping `Parser.__init__`

/-- `Scanner.__init__` followed by `Parser._check_scan`.  `repaired = false` is the pinned code. -/
def parserInit (repaired : Bool) (lines : List Line) : Outcome :=
  match scanLines {} lines with
  | .error c => if repaired then .scannerError else .crash c
  | .ok s =>
    if s.collres.isEmpty then .scannerError      -- "No scan result built" or "No result found"
    else .ok s

/-- the lines of a text, each with its end of line -/
def splitLines (t : List Char) : List Line :=
  let rec go (t : List Char) (cur : Line) (acc : List Line) : List Line :=
    match t with
    | [] => (if cur.isEmpty then acc else cur.reverse :: acc).reverse
    | c :: cs => if c == '\n' then go cs [] ((c :: cur).reverse :: acc) else go cs (c :: cur) acc
  go t [] []

end T4Scan
