/-! Apollo3 HDF5 results: what `Reader` (hdf5_reader.py: `make_bins`, `hdfdataset_to_dataset`, `build_dataset`,
`extract_output_info`) and `Picker` (hdf5_picker.py: `_make_bins`, `_make_dataset`, `nb_anisotropies`,
`pick_standard_value`) make of one stored array: the bins they attach, the shape they give it, the cells they keep.
The HDF5 library itself is not modelled: the input is what h5py hands over for one dataset (name, shape, cells in
C order) together with the few numbers the two classes look up around it (number of groups, anisotropy information,
number of surfaces). -/
namespace Ap3

inductive Err | size | typeError | attributeError | zeroDivision | index | shape
  deriving Repr, DecidableEq, BEq

/-- where the array is stored: directly in `totaloutput`, directly in a zone, or under an isotope (`macro` included) -/
inductive Level | total | zone | iso
  deriving Repr, DecidableEq, BEq

structure Stored (α : Type) where
  name : String
  level : Level
  shape : List Nat
  data : List α                    -- the cells, C order
  ngroups : Nat                    -- info/<output>/NG
  infoPresent : Bool               -- the group holding the array has an `info` sub-group
  resAniso : Option Nat            -- info/<name>/nbAnisotropy
  defAniso : Option Nat            -- info/nbAnisotropy
  nsurf : Option Nat               -- NSURF next to the array

/-- bins: dimension name and number of bin values (`np.arange(n)`, or the two directions) -/
abbrev Bins := List (String × Nat)

structure DS (α : Type) where
  shape : List Nat
  value : List α
  bins : Bins
  deriving Repr, DecidableEq, BEq

def prod (l : List Nat) : Nat := l.foldl (· * ·) 1

def special (n : String) : Bool := n == "KEFF" || n == "KINF" || n == "MIGRATIONAREA" || n == "Buckling"

def hasDim (b : Bins) (n : String) : Bool := b.any (·.1 == n)
def dimLen (b : Bins) (n : String) : Nat := ((b.find? (·.1 == n)).map (·.2)).getD 0

/-- the consistency checks of `Dataset.__init__` (dataset.py:768-780) -/
def ctorOk (shape : List Nat) (b : Bins) : Bool :=
  b.isEmpty || (b.length == shape.length && (b.zip shape).all fun (kb, s) => kb.2 == s || kb.2 == s + 1)

/-- the shape after the reshape of `build_dataset` / `_make_dataset` -/
def newShape (b : Bins) (shape : List Nat) : List Nat :=
  if hasDim b "anisotropies" then [dimLen b "anisotropies", dimLen b "groups"]
  else if hasDim b "incident neutron groups" then [dimLen b "incident neutron groups", dimLen b "groups"]
  else shape

/-- `build_dataset` / `_make_dataset`: the reshape for anisotropies and incident groups, then the constructor -/
def build {α : Type} (bins : Option Bins) (shape : List Nat) (data : List α) : Except Err (DS α) :=
  match bins with
  | none => .ok ⟨shape, data, []⟩
  | some b =>
    if b.isEmpty then .ok ⟨shape, data, []⟩
    else if prod (newShape b shape) != prod shape then .error .shape
    else if ctorOk (newShape b shape) b then .ok ⟨newShape b shape, data, b⟩ else .error .shape

/-- the number of anisotropies the `Reader` uses: `anisotropies.get(nres, anisotropies['anisotropy'])` with the default 1 -/
def readerAniso {α : Type} (s : Stored α) : Nat := s.resAniso.getD (s.defAniso.getD 1)

/-- `Picker.nb_anisotropies`: nothing without an `info` group -/
def pickerAniso {α : Type} (s : Stored α) : Option Nat :=
  if s.infoPresent then some (s.resAniso.getD (s.defAniso.getD 1)) else none

/-- `make_bins` (hdf5_reader.py:482-516); arrays stored directly in a zone are handed over without anisotropies and
without a number of surfaces -/
def readerBins {α : Type} (s : Stored α) : Except Err (Option Bins) :=
  let size := prod s.shape
  let ng := s.ngroups
  let nsurf := if s.level == .zone then none else s.nsurf
  if special s.name then .ok none
  else if ng == size then .ok (some [("groups", ng)])
  else if s.name == "SURFFLUX" then
    match nsurf with
    | some k => .ok (some [("groups", ng), ("surfaces", k)])
    | none => .error .typeError
  else if s.name == "CURRENT" then
    match nsurf with
    | some k => .ok (some [("groups", ng), ("surfaces", k), ("direction", 2)])
    | none => .error .typeError
  else if s.name == "MultigroupSpectrum" then
    if ng == 0 then .error .zeroDivision
    else .ok (some [("incident neutron groups", size / ng), ("groups", ng)])
  else if s.level == .zone then .error .attributeError
  else if ng * readerAniso s != size then .error .size
  else .ok (some [("anisotropies", readerAniso s), ("groups", ng)])

def noBins : Option Bins → Bool
  | none => true
  | some b => b.isEmpty

/-- `hdfdataset_to_dataset`: a one-cell array without bins becomes a number -/
def reader {α : Type} (s : Stored α) : Except Err (DS α) := do
  let bins ← readerBins s
  if s.shape == [1] && noBins bins then
    match s.data with
    | x :: _ => .ok ⟨[], [x], []⟩
    | [] => .error .index
  else build bins s.shape s.data

/-- `Picker._make_bins` (hdf5_picker.py:301-333) -/
def pickerBins {α : Type} (s : Stored α) (naniso : Option Nat) : Except Err (Option Bins) :=
  let size := prod s.shape
  let ng := s.ngroups
  if ng == 0 then .ok none
  else if ng == size then .ok (some [("groups", ng)])
  else if s.name == "SURFFLUX" then
    match s.nsurf with
    | some k => .ok (some [("groups", ng), ("surfaces", k)])
    | none => .error .typeError
  else if s.name == "CURRENT" then
    match s.nsurf with
    | some k => .ok (some [("groups", ng), ("surfaces", k), ("direction", 2)])
    | none => .error .typeError
  else if s.name == "MultigroupSpectrum" then
    .ok (some [("incident neutron groups", size / ng), ("groups", ng)])
  else match naniso with
    | none => .error .typeError
    | some na => if ng * na != size then .error .size else .ok (some [("anisotropies", na), ("groups", ng)])

/-- `Picker.pick_standard_value` (the concentration branch is `pickConcentration`) -/
def picker {α : Type} (s : Stored α) : Except Err (DS α) := do
  if special s.name || s.name == "NSURF" then
    match s.data with
    | x :: _ => .ok ⟨[], [x], []⟩
    | [] => .error .index
  else
    let bins ← pickerBins s (if s.level == .iso then pickerAniso s else none)
    build bins s.shape s.data

/-- concentrations: `CONCEN[isotopes.index(isotope)]` (Picker) against the pairing of `ISOTOPE` and `CONCEN` by position
(Reader, `extract_concentrations`) -/
def pickConcentration {α : Type} (isotopes : List String) (concen : List α) (iso : String) : Option α :=
  match isotopes.findIdx? (· == iso) with
  | some i => concen[i]?
  | none => none

def readConcentrations {α : Type} (isotopes : List String) (concen : List α) : List (String × α) := isotopes.zip concen

end Ap3
