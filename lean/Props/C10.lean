import Proofs.XRealArith
import Model.T4Spec
import Proofs.T4SpecTie
import Proofs.T4SpecFill
import Proofs.T4SpecGrid
import Proofs.T4SpecGridReturns
import Mathlib.Data.List.Pairwise
import Mathlib.Tactic.Linarith
/-!
# C10 — numbers read from Tripoli-4 and Apollo3 outputs are the numbers written there

Model: `Model/T4Spec.lean` (assembly of a spectrum response from the grammar's tokens, conversion to a dataset).
Proved here: the error formula (exact arithmetic) and the orientation step shared by the four axes — deciding that a
grid was printed decreasing, and reversing bins and cells together, yields strictly increasing edges with every printed
group still attached to its own score.  `convert_energy_axis` ties these statements to the executable model `convert` for responses with the energy
axis only.  For all four axes together (`all_axes_score_attached`, any sequence of blocks): when `convert` returns and
no two blocks were read under the same (time step, mu zone, phi zone) indices, every printed row is the content of the
cell at (its row index, those indices), each axis being read through the very flip that `convert` applies to the bins of
that axis; `axis_bins_increasing` shows that this flip makes any strictly monotone edge list strictly increasing; and
`time_edges_collected` says which edges the time axis is made of.  `grid_scores_attached` instantiates this on a response
printed over a full time x mu x phi grid (blocks in lexicographic order, each key printed with the first block it applies
to): such a sequence is read under pairwise distinct indices, `_get_number_of_bins` finds the three dimensions, and the
row printed for (group ie, time step it, mu zone im, phi zone ip) is the content of the cell at those indices.  PARTIAL:
that `convert` *returns* on such a grid (the `-a` contiguity check of the first block, the last-bin look-ups) is a
hypothesis, as is the absence of an axis (a grid without time / mu / phi keys); the pyparsing grammar, the mesh / Green bands / IFP / keff builders and the Apollo3 reader are
covered by the correspondence (bit-exact unit level, ground-truth end to end), not by theorems.
-/
namespace T4Spec
open XReal

/-- **the error is the printed value times the printed relative sigma (a percentage)**, sign included -/
theorem error_eq_value_times_sigma (v s : ℝ) :
    errorOf (fin (1 / 100)) (fin v) (fin s) = fin (v * (s / 100)) := by
  show XReal.mul (XReal.mul (fin s) (fin v)) (fin (1 / 100)) = _
  simp only [mul_fin_fin]
  congr 1
  ring

/-! ### orientation of one axis -/

/-- the printed groups of one axis: `(first bound, second bound, payload)`; contiguous: the second bound of a group is
the first bound of the next one -/
def Contig {β : Type} : List (ℝ × ℝ × β) → Prop
  | [] => True
  | [_] => True
  | a :: b :: rest => a.2.1 = b.1 ∧ Contig (b :: rest)

/-- edges as the code collects them: every first bound, then the last second bound -/
def edges {β : Type} : List (ℝ × ℝ × β) → List ℝ
  | [] => []
  | [a] => [a.1, a.2.1]
  | a :: b :: rest => a.1 :: edges (b :: rest)

/-- the orientation step: a grid whose first two edges decrease is reversed, bins and cells together -/
noncomputable def orient {β : Type} (g : List (ℝ × ℝ × β)) : List ℝ × List β :=
  match edges g with
  | x :: y :: _ => if y < x then ((edges g).reverse, (g.map (·.2.2)).reverse) else (edges g, g.map (·.2.2))
  | _ => (edges g, g.map (·.2.2))

theorem edges_length {β : Type} (g : List (ℝ × ℝ × β)) (h : g ≠ []) : (edges g).length = g.length + 1 := by
  induction g with
  | nil => exact absurd rfl h
  | cons a rest ih =>
    cases rest with
    | nil => rfl
    | cons b r => simp [edges, ih (by simp)]

/-- every group is printed in the same direction: increasing (`lo < hi`) -/
def AllInc {β : Type} (g : List (ℝ × ℝ × β)) : Prop := ∀ p ∈ g, p.1 < p.2.1
/-- … or decreasing -/
def AllDec {β : Type} (g : List (ℝ × ℝ × β)) : Prop := ∀ p ∈ g, p.2.1 < p.1

theorem edges_inc {β : Type} (g : List (ℝ × ℝ × β)) (hc : Contig g) (hi : AllInc g) : (edges g).Pairwise (· < ·) := by
  induction g with
  | nil => exact List.Pairwise.nil
  | cons a rest ih =>
    cases rest with
    | nil =>
      have := hi a (by simp)
      simp [edges, this]
    | cons b r =>
      have ihr := ih hc.2 (fun p hp => hi p (by simp [hp]))
      have hab : a.1 < b.1 := by rw [← hc.1]; exact hi a (by simp)
      show (a.1 :: edges (b :: r)).Pairwise (· < ·)
      refine List.Pairwise.cons ?_ ihr
      intro x hx
      -- every edge of the rest is at least the first one of the rest
      have hge : ∀ y ∈ edges (b :: r), b.1 ≤ y := by
        have hb : edges (b :: r) = b.1 :: (edges (b :: r)).tail := by
          cases r <;> rfl
        intro y hy
        rw [hb] at hy ihr
        rcases List.mem_cons.1 hy with hy | hy
        · exact le_of_eq hy.symm
        · exact le_of_lt ((List.pairwise_cons.1 ihr).1 y hy)
      exact lt_of_lt_of_le hab (hge x hx)

theorem edges_dec {β : Type} (g : List (ℝ × ℝ × β)) (hc : Contig g) (hd : AllDec g) : (edges g).Pairwise (· > ·) := by
  induction g with
  | nil => exact List.Pairwise.nil
  | cons a rest ih =>
    cases rest with
    | nil =>
      have := hd a (by simp)
      simp [edges, this]
    | cons b r =>
      have ihr := ih hc.2 (fun p hp => hd p (by simp [hp]))
      have hab : b.1 < a.1 := by rw [← hc.1]; exact hd a (by simp)
      show (a.1 :: edges (b :: r)).Pairwise (· > ·)
      refine List.Pairwise.cons ?_ ihr
      intro x hx
      have hle : ∀ y ∈ edges (b :: r), y ≤ b.1 := by
        have hb : edges (b :: r) = b.1 :: (edges (b :: r)).tail := by
          cases r <;> rfl
        intro y hy
        rw [hb] at hy ihr
        rcases List.mem_cons.1 hy with hy | hy
        · exact le_of_eq hy
        · exact le_of_lt ((List.pairwise_cons.1 ihr).1 y hy)
      exact lt_of_le_of_lt (hle x hx) hab

/-- **the decision "printed decreasing" is right**: on a contiguous grid printed in one direction, the first two edges
decrease exactly when the grid was printed decreasing -/
theorem decreasing_iff {β : Type} (g : List (ℝ × ℝ × β)) (hne : g ≠ []) (hc : Contig g) (h : AllInc g ∨ AllDec g) :
    ∃ x y rest, edges g = x :: y :: rest ∧ (y < x ↔ AllDec g) := by
  cases g with
  | nil => exact absurd rfl hne
  | cons a r =>
    have key : ∀ (y : ℝ) (rest : List ℝ), edges (a :: r) = a.1 :: y :: rest → (y = a.2.1) → (y < a.1 ↔ AllDec (a :: r)) := by
      intro y rest _ hy
      subst hy
      constructor
      · intro hlt
        rcases h with hi | hd
        · exact absurd (hi a (by simp)) (not_lt.2 (le_of_lt hlt))
        · exact hd
      · intro hd; exact hd a (by simp)
    cases r with
    | nil => exact ⟨a.1, a.2.1, [], rfl, key a.2.1 [] rfl rfl⟩
    | cons b r2 =>
      have hb : edges (b :: r2) = b.1 :: (edges (b :: r2)).tail := by cases r2 <;> rfl
      refine ⟨a.1, b.1, (edges (b :: r2)).tail, congrArg (List.cons a.1) hb, ?_⟩
      exact key b.1 _ (congrArg (List.cons a.1) hb) hc.1.symm

/-- **bins come out strictly increasing whatever the order they were printed in** -/
theorem orient_edges {β : Type} (g : List (ℝ × ℝ × β)) (hne : g ≠ []) (hc : Contig g) (h : AllInc g ∨ AllDec g) :
    (orient g).1.Pairwise (· < ·) := by
  obtain ⟨x, y, rest, he, hiff⟩ := decreasing_iff g hne hc h
  unfold orient
  rw [he]
  simp only
  by_cases hlt : y < x
  · rw [if_pos hlt]
    have hd := hiff.1 hlt
    rw [← he, List.pairwise_reverse]
    exact edges_dec g hc hd
  · rw [if_neg hlt]
    have hi : AllInc g := by
      rcases h with hi | hd
      · exact hi
      · exact absurd (hiff.2 hd) hlt
    rw [← he]; exact edges_inc g hc hi

theorem edges_getElem {β : Type} (g : List (ℝ × ℝ × β)) (hc : Contig g) (i : Nat) (hi : i < g.length) :
    (edges g)[i]? = some g[i].1 ∧ (edges g)[i + 1]? = some g[i].2.1 := by
  induction g generalizing i with
  | nil => simp at hi
  | cons a rest ih =>
    cases rest with
    | nil =>
      have : i = 0 := by simpa using hi
      subst this; exact ⟨rfl, rfl⟩
    | cons b r =>
      cases i with
      | zero =>
        refine ⟨rfl, ?_⟩
        show (edges (b :: r))[0]? = some a.2.1
        have hb : edges (b :: r) = b.1 :: (edges (b :: r)).tail := by cases r <;> rfl
        rw [hb, hc.1]; rfl
      | succ j =>
        have := ih hc.2 j (by simpa using hi)
        exact this

/-- **every printed group keeps its own payload**: after the orientation step, the cell whose edges are the two printed
bounds of group `i` holds the payload (score, sigma) printed on that line -/
theorem orient_cells {β : Type} (g : List (ℝ × ℝ × β)) (hne : g ≠ []) (hc : Contig g) (h : AllInc g ∨ AllDec g)
    (i : Nat) (hi : i < g.length) :
    ∃ j, (orient g).2[j]? = some g[i].2.2 ∧
      (((orient g).1[j]? = some g[i].1 ∧ (orient g).1[j + 1]? = some g[i].2.1) ∨
       ((orient g).1[j]? = some g[i].2.1 ∧ (orient g).1[j + 1]? = some g[i].1)) := by
  obtain ⟨x, y, rest, he, _⟩ := decreasing_iff g hne hc h
  obtain ⟨e1, e2⟩ := edges_getElem g hc i hi
  have hlen := edges_length g hne
  unfold orient
  rw [he]
  simp only
  by_cases hlt : y < x
  · rw [if_pos hlt, ← he]
    refine ⟨g.length - 1 - i, ?_, Or.inr ⟨?_, ?_⟩⟩
    · rw [List.getElem?_reverse (by simp; omega)]
      simp only [List.length_map]
      have : g.length - 1 - (g.length - 1 - i) = i := by omega
      rw [this, List.getElem?_map, List.getElem?_eq_getElem hi]; rfl
    · rw [List.getElem?_reverse (by rw [hlen]; omega), hlen]
      have : g.length + 1 - 1 - (g.length - 1 - i) = i + 1 := by omega
      rw [this]; exact e2
    · rw [List.getElem?_reverse (by rw [hlen]; omega), hlen]
      have : g.length + 1 - 1 - (g.length - 1 - i + 1) = i := by omega
      rw [this]; exact e1
  · rw [if_neg hlt, ← he]
    exact ⟨i, by rw [List.getElem?_map, List.getElem?_eq_getElem hi]; rfl, Or.inl ⟨e1, e2⟩⟩

/-- non-vacuity: three energy groups printed decreasing -/
example : orient [((20 : ℝ), (15 : ℝ), "a"), (15, 10, "b"), (10, 5, "c")] = ([5, 10, 15, 20], ["c", "b", "a"]) := by
  unfold orient
  norm_num [edges]

end T4Spec

namespace T4Spec

/-- the energy axis of a response, in the words of the property: **bins equal to the printed group boundaries in
increasing order whatever the order they were printed in** -/
theorem energy_bins_increasing {β : Type} (rows : List (ℝ × ℝ × β)) (hne : rows ≠ []) (hc : Contig rows)
    (h : AllInc rows ∨ AllDec rows) : (orient rows).1.Pairwise (· < ·) ∧ (orient rows).1.length = rows.length + 1 := by
  refine ⟨orient_edges rows hne hc h, ?_⟩
  unfold orient
  split
  · split <;> simp [edges_length rows hne]
  · exact edges_length rows hne

/-- … **each score attached to the group under which it was printed** -/
theorem energy_score_attached {β : Type} (rows : List (ℝ × ℝ × β)) (hne : rows ≠ []) (hc : Contig rows)
    (h : AllInc rows ∨ AllDec rows) (i : Nat) (hi : i < rows.length) :
    ∃ j, (orient rows).2[j]? = some rows[i].2.2 ∧
      ((orient rows).1[j]? = some (min rows[i].1 rows[i].2.1) ∧ (orient rows).1[j + 1]? = some (max rows[i].1 rows[i].2.1)) := by
  obtain ⟨j, hj, hb⟩ := orient_cells rows hne hc h i hi
  have hsorted := orient_edges rows hne hc h
  refine ⟨j, hj, ?_⟩
  -- the two edges of cell j are increasing, so they are (min, max) of the printed bounds
  have hlt : ∀ a b, (orient rows).1[j]? = some a → (orient rows).1[j + 1]? = some b → a < b := by
    intro a b ha hb'
    obtain ⟨hj1, e1⟩ := List.getElem?_eq_some_iff.1 ha
    obtain ⟨hj2, e2⟩ := List.getElem?_eq_some_iff.1 hb'
    rw [← e1, ← e2]
    exact List.pairwise_iff_getElem.1 hsorted j (j + 1) hj1 hj2 (Nat.lt_succ_self j)
  rcases hb with ⟨h1, h2⟩ | ⟨h1, h2⟩
  · have := hlt _ _ h1 h2
    rw [min_eq_left (le_of_lt this), max_eq_right (le_of_lt this)]; exact ⟨h1, h2⟩
  · have := hlt _ _ h1 h2
    rw [min_eq_right (le_of_lt this), max_eq_left (le_of_lt this)]; exact ⟨h1, h2⟩

end T4Spec

namespace T4Spec
open XReal

/-! ### the executable model `convert` performs exactly this step (energy axis only) -/

theorem edges_eq {β : Type} (g : List (ℝ × ℝ × β)) (hne : g ≠ []) :
    edges g = g.map (·.1) ++ [(g.getLast hne).2.1] := by
  induction g with
  | nil => exact absurd rfl hne
  | cons a rest ih =>
    cases rest with
    | nil => rfl
    | cons b r =>
      show a.1 :: edges (b :: r) = _
      rw [ih (by simp)]
      simp

/-- the rows of a response, as the model takes them -/
def rowsOf (g : List (ℝ × ℝ × Row XReal)) : List (Row XReal) := g.map fun p => p.2.2

/-- the printed bounds of every line are the bounds of its row -/
def Bounds (g : List (ℝ × ℝ × Row XReal)) : Prop := ∀ p ∈ g, p.2.2.lo = fin p.1 ∧ p.2.2.hi = fin p.2.1

theorem rowsOK_of_contig (g : List (ℝ × ℝ × Row XReal)) (hb : Bounds g) (hc : Contig g) : RowsOK (rowsOf g) := by
  unfold rowsOf
  induction g with
  | nil => trivial
  | cons a rest ih =>
    cases rest with
    | nil => trivial
    | cons b r =>
      refine ⟨?_, ih (fun p hp => hb p (by simp [hp])) hc.2⟩
      show XReal.beq b.2.2.lo a.2.2.hi = true
      rw [(hb b (by simp)).1, (hb a (by simp)).2]
      simp [XReal.beq, hc.1]

theorem orientL_map {β γ : Type} (b : Bool) (f : β → γ) (l : List β) : orientL b (l.map f) = (orientL b l).map f := by
  cases b <;> simp [orientL, List.map_reverse]

theorem decreasing_fin (l : List ℝ) :
    decreasing (l.map fin) = match l with | x :: y :: _ => decide (y < x) | _ => false := by
  cases l with
  | nil => rfl
  | cons x r =>
    cases r with
    | nil => rfl
    | cons y r2 => show XReal.lt (fin y) (fin x) = _; rw [lt_fin_fin]

/-- **the model's `convert`, on a response with the energy axis only, returns exactly the oriented edges and the oriented
rows**: so `energy_bins_increasing` and `energy_score_attached` are statements about what the executable model — the one
compared with `convert_spectrum` on every run — computes -/
theorem convert_energy_axis (g : List (ℝ × ℝ × Row XReal)) (hne : g ≠ []) (hb : Bounds g) (hc : Contig g) :
    ∃ sp, convert [⟨none, none, none, rowsOf g, none⟩] = .ok sp ∧
      sp.ebins = (orient g).1.map fin ∧ sp.cells = (orient g).2.map some ∧
      sp.nt = 1 ∧ sp.nmu = 1 ∧ sp.nphi = 1 ∧ sp.integ = none := by
  have hne' : rowsOf g ≠ [] := by unfold rowsOf; simpa using hne
  obtain ⟨sp, hsp, _, h2, h3, h4, h5, h6, _, _, _, h10⟩ := convert_single (rowsOf g) hne' (rowsOK_of_contig g hb hc)
  have hL : (rowsOf g).map (fun r => r.lo) ++ [((rowsOf g).getLast hne').hi] = (edges g).map fin := by
    rw [edges_eq g hne, List.map_append]
    unfold rowsOf
    rw [List.map_map, List.map_map]
    congr 1
    · apply List.map_congr_left
      intro p hp; exact (hb p hp).1
    · have : (g.map fun p : ℝ × ℝ × Row XReal => p.2.2).getLast (by simpa using hne) = (g.getLast hne).2.2 := by
        rw [List.getLast_map]
      rw [this, (hb _ (List.getLast_mem hne)).2]; rfl
  have hcells : (orient g).2 = orientL (match edges g with | x :: y :: _ => decide (y < x) | _ => false) (rowsOf g) := by
    unfold orient orientL rowsOf
    cases he : edges g with
    | nil => rfl
    | cons x r =>
      cases r with
      | nil => rfl
      | cons y r2 => simp only; by_cases hlt : y < x <;> simp [hlt]
  have hedges : (orient g).1 = orientL (match edges g with | x :: y :: _ => decide (y < x) | _ => false) (edges g) := by
    unfold orient orientL
    cases he : edges g with
    | nil => rfl
    | cons x r =>
      cases r with
      | nil => rfl
      | cons y r2 => simp only; by_cases hlt : y < x <;> simp [hlt]
  rw [hL] at h5 h6
  rw [decreasing_fin] at h5 h6
  refine ⟨sp, hsp, ?_, ?_, h2, h3, h4, h10⟩
  · rw [h5, hedges, orientL_map]
  · rw [h6, hcells]

end T4Spec

namespace T4Spec
open XReal

/-! ### all four axes -/

/-- **each score attached to the group, time step, mu zone and phi zone under which it was printed** (executable
model, any block sequence; `ixf` is the identity or the reversal of an axis, the same one as for the bins) -/
theorem all_axes_score_attached {d : List (Block XReal)} {sp : Spectrum XReal} (h : convert d = .ok sp)
    (hnd : (cursors (0, 0, 0) d).Nodup) (k : Nat) (hk : k < d.length) (ie : Nat) (hie : ie < d[k].rows.length) :
    ∃ (cu : Cur) (fe ft fm fp : Bool) (eb tb mb pb : List XReal),
      (cursors (0, 0, 0) d)[k]? = some cu ∧
      sp.ebins = orientL fe eb ∧ fe = decreasing eb ∧ sp.tbins = orientL ft tb ∧ ft = decreasing tb ∧
      sp.mubins = orientL fm mb ∧ fm = decreasing mb ∧ sp.phibins = orientL fp pb ∧ fp = decreasing pb ∧
      ie < sp.ne ∧ cu.1 < sp.nt ∧ cu.2.1 < sp.nmu ∧ cu.2.2 < sp.nphi ∧
      sp.cells[((ixf fe sp.ne ie * sp.nt + ixf ft sp.nt cu.1) * sp.nmu + ixf fm sp.nmu cu.2.1) * sp.nphi
        + ixf fp sp.nphi cu.2.2]? = some (some d[k].rows[ie]) :=
  score_at_cursor h hnd k hk ie hie

/-- **the flip decided on the first two edges puts any strictly monotone grid in increasing order** (any axis) -/
theorem axis_bins_increasing (l : List ℝ) (h : l.Pairwise (· < ·) ∨ l.Pairwise (· > ·)) :
    ∃ l' : List ℝ, orientL (decreasing (l.map fin)) (l.map fin) = l'.map fin ∧ l'.Pairwise (· < ·) ∧ l'.Perm l := by
  rw [decreasing_fin]
  cases l with
  | nil => exact ⟨[], rfl, List.Pairwise.nil, List.Perm.refl _⟩
  | cons x r =>
    cases r with
    | nil => exact ⟨[x], rfl, by simp, List.Perm.refl _⟩
    | cons y r2 =>
      simp only
      by_cases hlt : y < x
      · have hd : (x :: y :: r2).Pairwise (· > ·) := by
          rcases h with hi | hd
          · have : x < y := (List.pairwise_cons.1 hi).1 y (by simp)
            exact absurd hlt (not_lt.2 (le_of_lt this))
          · exact hd
        refine ⟨(x :: y :: r2).reverse, ?_, List.pairwise_reverse.2 hd, List.reverse_perm _⟩
        simp [orientL, hlt, List.map_reverse]
      · have hi : (x :: y :: r2).Pairwise (· < ·) := by
          rcases h with hi | hd
          · exact hi
          · exact absurd ((List.pairwise_cons.1 hd).1 y (by simp)) hlt
        exact ⟨x :: y :: r2, by simp [orientL, hlt], hi, List.Perm.refl _⟩

/-- the time edges `fill` collects: the first printed bound of every time step read, in order -/
theorem time_edges_collected {d : List (Block XReal)} {b : B XReal} (ne nt nmu nphi : Nat)
    (h : fill { ne := ne, nt := nt, nmu := nmu, nphi := nphi } d = .ok b) :
    b.tbins = (d.filterMap (·.time)).map (·.a) := by
  have := fill_tbins d _ _ h
  simpa using this

/-- non-vacuity: a 2 (time) x 2 (mu) grid printed with the time steps decreasing is read under four distinct indices -/
example : (cursors (0, 0, 0)
    [(⟨some ⟨0, fin 5, fin 9⟩, some ⟨0, fin (-1), fin 0⟩, none, [⟨fin 1, fin 2, fin 7, fin 1, fin 0⟩], none⟩ : Block XReal),
     ⟨none, some ⟨1, fin 0, fin 1⟩, none, [⟨fin 1, fin 2, fin 8, fin 1, fin 0⟩], none⟩,
     ⟨some ⟨1, fin 1, fin 5⟩, some ⟨0, fin (-1), fin 0⟩, none, [⟨fin 1, fin 2, fin 9, fin 1, fin 0⟩], none⟩,
     ⟨none, some ⟨1, fin 0, fin 1⟩, none, [⟨fin 1, fin 2, fin 6, fin 1, fin 0⟩], none⟩]).Nodup := by
  simp [cursors, curStep]

end T4Spec

namespace T4Spec
open XReal

/-- the position, in the sequence read, of the block printed for (it, im, ip) -/
def Grid.pos (G : Grid XReal) (it im ip : Nat) : Nat := it * (G.nmu * G.nphi) + (im * G.nphi + ip)

theorem cursors_get (G : Grid XReal) (hp : 0 < G.nphi) (it im ip : Nat) (h1 : it < G.nt) (h2 : im < G.nmu)
    (h3 : ip < G.nphi) : (cursors (0, 0, 0) G.blocks)[G.pos it im ip]? = some (it, im, ip) := by
  rw [cursors_blocks G hp]
  have b2 : im * G.nphi + ip < G.nmu * G.nphi := by
    calc im * G.nphi + ip < im * G.nphi + G.nphi := by omega
      _ = (im + 1) * G.nphi := (Nat.succ_mul _ _).symm
      _ ≤ G.nmu * G.nphi := Nat.mul_le_mul_right _ h2
  unfold Grid.pos
  rw [getElem?_flatMap_const _ _ (G.nmu * G.nphi) (fun x _ => by simp [List.length_flatMap, sum_const_range]) it _ b2,
    List.getElem?_range h1]
  simp only [Option.bind_some]
  rw [getElem?_flatMap_const _ _ G.nphi (fun x _ => by simp) im _ h3, List.getElem?_range h2]
  simp only [Option.bind_some]
  rw [List.getElem?_map, List.getElem?_range h3]
  rfl

/-- **`fill_arrays_and_bins` returns on a printed grid**: when no block has more rows than the first one and the rows of
the first block continue each other (the lower bound of a group is the upper bound of the group printed before it — what
`_check_bins` demands), reading the blocks raises neither the `bins` nor the `index` error: every block but the first is
read under indices other than (0, 0, 0), in range. -/
theorem grid_fill_returns (G : Grid XReal) (ht : 0 < G.nt) (hm : 0 < G.nmu) (hp : 0 < G.nphi)
    (hrows : ∀ it im ip, it < G.nt → im < G.nmu → ip < G.nphi → (G.rows it im ip).length ≤ (G.rows 0 0 0).length)
    (hc : RowsContig (G.rows 0 0 0) 0 (G.rows 0 0 0)) :
    ∃ b, fill { ne := (G.rows 0 0 0).length, nt := G.nt, nmu := G.nmu, nphi := G.nphi } G.blocks = .ok b :=
  fill_grid_returns G ht hm hp hrows hc

/-- **`convert_spectrum` returns on a printed grid** — the hypothesis of `grid_scores_attached` discharged: `fill` returns
(above), it has collected exactly one edge per mu zone and per phi zone (`muKeys_grid`, `phiKeys_grid`: the first printed
bounds, in order), so `add_last_bins` looks for the last edges in the blocks that carry them (`negBlock_grid`), and the
last block has a row to close the energy grid with. -/
theorem grid_convert_returns (G : Grid XReal) (ht : 0 < G.nt) (hm : 0 < G.nmu) (hp : 0 < G.nphi)
    (hrows : ∀ it im ip, it < G.nt → im < G.nmu → ip < G.nphi → (G.rows it im ip).length ≤ (G.rows 0 0 0).length)
    (hlast : G.rows (G.nt - 1) (G.nmu - 1) (G.nphi - 1) ≠ [])
    (hc : RowsContig (G.rows 0 0 0) 0 (G.rows 0 0 0)) :
    ∃ sp, convert G.blocks = .ok sp :=
  convert_grid_returns G ht hm hp hrows hlast hc

/-- non-vacuity: two groups that continue each other satisfy `RowsContig` -/
example : RowsContig [(⟨fin 1, fin 2, fin 7, fin 1, fin 0⟩ : Row XReal), ⟨fin 2, fin 3, fin 8, fin 1, fin 0⟩] 0
    [⟨fin 1, fin 2, fin 7, fin 1, fin 0⟩, ⟨fin 2, fin 3, fin 8, fin 1, fin 0⟩] := by
  intro k hk hne
  have : k = 1 := by simp at hk; omega
  subst this
  simp [Num.beq, XReal.beq]

/-- **a response printed over a full time x mu x phi grid**: when `convert` returns, it has found the three dimensions
and the row printed for (group `ie`, time step `it`, mu zone `im`, phi zone `ip`) is the content of the cell at those
indices, each axis read through the flip applied to its bins -/
theorem grid_scores_attached (G : Grid XReal) (ht : 0 < G.nt) (hm : 0 < G.nmu) (hp : 0 < G.nphi)
    {sp : Spectrum XReal} (h : convert G.blocks = .ok sp)
    (it im ip ie : Nat) (h1 : it < G.nt) (h2 : im < G.nmu) (h3 : ip < G.nphi) (h4 : ie < (G.rows it im ip).length) :
    sp.nt = G.nt ∧ sp.nmu = G.nmu ∧ sp.nphi = G.nphi ∧ sp.ne = (G.rows 0 0 0).length ∧
    ∃ (fe ft fm fp : Bool) (eb tb mb pb : List XReal),
      sp.ebins = orientL fe eb ∧ fe = decreasing eb ∧ sp.tbins = orientL ft tb ∧ ft = decreasing tb ∧
      sp.mubins = orientL fm mb ∧ fm = decreasing mb ∧ sp.phibins = orientL fp pb ∧ fp = decreasing pb ∧
      ie < sp.ne ∧
      sp.cells[((ixf fe sp.ne ie * sp.nt + ixf ft sp.nt it) * sp.nmu + ixf fm sp.nmu im) * sp.nphi
        + ixf fp sp.nphi ip]? = some (some (G.rows it im ip)[ie]) := by
  have hnb := nbBins_blocks G ht hm hp
  obtain ⟨dims, b, eb, tb, mb, pb, k1, _, _, _, _, _, hsp⟩ := convert_ok h
  rw [hnb] at k1
  cases k1
  have hdims : sp.nt = G.nt ∧ sp.nmu = G.nmu ∧ sp.nphi = G.nphi ∧ sp.ne = (G.rows 0 0 0).length := by
    subst hsp; exact ⟨rfl, rfl, rfl, rfl⟩
  refine ⟨hdims.1, hdims.2.1, hdims.2.2.1, hdims.2.2.2, ?_⟩
  have hget : G.blocks[G.pos it im ip]? = some (G.blk it im ip) := blocks_get G it im ip h1 h2 h3
  have hk : G.pos it im ip < G.blocks.length := (List.getElem?_eq_some_iff.1 hget).1
  have hblk : G.blocks[G.pos it im ip] = G.blk it im ip := (List.getElem?_eq_some_iff.1 hget).2
  have hie : ie < (G.blocks[G.pos it im ip]).rows.length := by rw [hblk]; exact h4
  obtain ⟨cu, fe, ft, fm, fp, eb', tb', mb', pb', hcu, e1, e2, e3, e4, e5, e6, e7, e8, r1, _, _, _, hcell⟩ :=
    all_axes_score_attached h (cursors_blocks_nodup G hp) (G.pos it im ip) hk ie hie
  rw [cursors_get G hp it im ip h1 h2 h3] at hcu
  cases hcu
  refine ⟨fe, ft, fm, fp, eb', tb', mb', pb', e1, e2, e3, e4, e5, e6, e7, e8, r1, ?_⟩
  simp only [hblk] at hcell
  exact hcell

/-- **a response printed over a full grid is read, and read right** (`grid_convert_returns` + `grid_scores_attached`):
`convert` returns, with the three dimensions of the grid, and every printed row is the content of the cell at its
indices, each axis read through the flip applied to its bins -/
theorem grid_read (G : Grid XReal) (ht : 0 < G.nt) (hm : 0 < G.nmu) (hp : 0 < G.nphi)
    (hrows : ∀ it im ip, it < G.nt → im < G.nmu → ip < G.nphi → (G.rows it im ip).length ≤ (G.rows 0 0 0).length)
    (hlast : G.rows (G.nt - 1) (G.nmu - 1) (G.nphi - 1) ≠ [])
    (hc : RowsContig (G.rows 0 0 0) 0 (G.rows 0 0 0)) :
    ∃ sp, convert G.blocks = .ok sp ∧
      ∀ (it im ip ie : Nat) (_ : it < G.nt) (_ : im < G.nmu) (_ : ip < G.nphi) (_ : ie < (G.rows it im ip).length),
        sp.nt = G.nt ∧ sp.nmu = G.nmu ∧ sp.nphi = G.nphi ∧ sp.ne = (G.rows 0 0 0).length ∧
        ∃ (fe ft fm fp : Bool) (eb tb mb pb : List XReal),
          sp.ebins = orientL fe eb ∧ fe = decreasing eb ∧ sp.tbins = orientL ft tb ∧ ft = decreasing tb ∧
          sp.mubins = orientL fm mb ∧ fm = decreasing mb ∧ sp.phibins = orientL fp pb ∧ fp = decreasing pb ∧
          ie < sp.ne ∧
          sp.cells[((ixf fe sp.ne ie * sp.nt + ixf ft sp.nt it) * sp.nmu + ixf fm sp.nmu im) * sp.nphi
            + ixf fp sp.nphi ip]? = some (some (G.rows it im ip)[ie]) := by
  obtain ⟨sp, hsp⟩ := grid_convert_returns G ht hm hp hrows hlast hc
  exact ⟨sp, hsp, fun it im ip ie h1 h2 h3 h4 => grid_scores_attached G ht hm hp hsp it im ip ie h1 h2 h3 h4⟩

end T4Spec
