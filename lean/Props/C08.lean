import Proofs.XRealArith
import Model.Dataset
/-!
# C08 — dataset arithmetic propagates uncorrelated errors and keeps datasets well formed

Model: `Model/Dataset.lean`.  Structural theorems are generic in the number type; the error rules are stated over
`XReal` (exact reals + NaN/±∞: rounding is not modelled, it is covered by the bit-exact correspondence).
"Operands are never modified" and "a copy shares no data" cannot be stated about immutable values: they are decided by
the correspondence (chains with in-place writes into every array of every copy) — see DESIGN.md.
-/
set_option linter.unusedSectionVars false
namespace DSet
open XReal

section generic
variable {α : Type} [Num α]

theorem map2_length (f : α → α → α) (a b : List α) : (map2 f a b).length = min a.length b.length := by
  induction a generalizing b with
  | nil => simp [map2]
  | cons x xs ih =>
    cases b with
    | nil => simp [map2]
    | cons y ys => simp [map2, ih, Nat.succ_min_succ]

theorem map4_length (f : α → α → α → α → α) (a b c d : List α) :
    (map4 f a b c d).length = min (min a.length b.length) (min c.length d.length) := by
  induction a generalizing b c d with
  | nil => simp [map4]
  | cons x xs ih =>
    cases b with
    | nil => simp [map4]
    | cons y ys =>
      cases c with
      | nil => simp [map4]
      | cons z zs =>
        cases d with
        | nil => simp [map4]
        | cons w ws => simp [map4, ih, Nat.succ_min_succ]

theorem mem_map2 {f : α → α → α} {a b : List α} {x : α} (h : x ∈ map2 f a b) : ∃ u v, x = f u v := by
  induction a generalizing b with
  | nil => simp [map2] at h
  | cons p ps ih =>
    cases b with
    | nil => simp [map2] at h
    | cons q qs =>
      simp only [map2, List.mem_cons] at h
      rcases h with h | h
      · exact ⟨p, q, h⟩
      · exact ih h

theorem mem_map2_mem {f : α → α → α} {a b : List α} {x : α} (h : x ∈ map2 f a b) : ∃ u ∈ a, ∃ v ∈ b, x = f u v := by
  induction a generalizing b with
  | nil => simp [map2] at h
  | cons p ps ih =>
    cases b with
    | nil => simp [map2] at h
    | cons q qs =>
      simp only [map2, List.mem_cons] at h
      rcases h with h | h
      · exact ⟨p, by simp, q, by simp, h⟩
      · obtain ⟨u, hu, v, hv, e⟩ := ih h
        exact ⟨u, by simp [hu], v, by simp [hv], e⟩

theorem mem_map4 {f : α → α → α → α → α} {a b c d : List α} {x : α} (h : x ∈ map4 f a b c d) :
    ∃ p q r s, x = f p q r s := by
  induction a generalizing b c d with
  | nil => simp [map4] at h
  | cons p ps ih =>
    cases b with
    | nil => simp [map4] at h
    | cons q qs =>
      cases c with
      | nil => simp [map4] at h
      | cons r rs =>
        cases d with
        | nil => simp [map4] at h
        | cons s ss =>
          simp only [map4, List.mem_cons] at h
          rcases h with h | h
          · exact ⟨p, q, r, s, h⟩
          · exact ih h

/-- the operation goes through exactly when the consistency test of the code passes -/
theorem opDS_ok_iff (o : Op) (a b : Dataset α) : (∃ r, opDS o a b = .ok r) ↔ consistency a b = .ok () := by
  unfold opDS
  cases h : consistency a b with
  | error e => simp
  | ok u => simp

theorem consistency_shape {a b : Dataset α} (h : consistency a b = .ok ()) : b.shape = a.shape := by
  unfold consistency at h
  split at h
  · cases h
  · rename_i hs; simpa using hs

/-- **value = the plain array operation**, cell by cell -/
theorem opDS_value {o : Op} {a b r : Dataset α} (h : opDS o a b = .ok r) : r.value = map2 o.val a.value b.value := by
  unfold opDS at h
  split at h
  · cases h
  · injection h with h; subst h; rfl

/-- the shape, **the bins of the left operand** are kept -/
theorem opDS_keeps_left {o : Op} {a b r : Dataset α} (h : opDS o a b = .ok r) : r.shape = a.shape ∧ r.bins = a.bins := by
  unfold opDS at h
  split at h
  · cases h
  · injection h with h; subst h; exact ⟨rfl, rfl⟩

/-- sums: quadratic sum of the absolute errors -/
theorem add_err {a b r : Dataset α} (h : opDS .add a b = .ok r) : r.error = map2 Num.quadSum a.error b.error := by
  unfold opDS at h
  split at h
  · cases h
  · injection h with h; subst h; rfl

/-- differences: quadratic sum of the absolute errors -/
theorem sub_err {a b r : Dataset α} (h : opDS .sub a b = .ok r) : r.error = map2 Num.quadSum a.error b.error := by
  unfold opDS at h
  split at h
  · cases h
  · injection h with h; subst h; rfl

theorem mul_err {a b r : Dataset α} (h : opDS .mul a b = .ok r) : r.error = map4 mulErr a.value a.error b.value b.error := by
  unfold opDS at h
  split at h
  · cases h
  · injection h with h; subst h; rfl

theorem div_err {a b r : Dataset α} (h : opDS .div a b = .ok r) : r.error = map4 divErr a.value a.error b.value b.error := by
  unfold opDS at h
  split at h
  · cases h
  · injection h with h; subst h; rfl

/-- **every result is a well-formed dataset** (dataset ∘ dataset) -/
theorem opDS_wf {o : Op} {a b r : Dataset α} (ha : WF a) (hb : WF b) (h : opDS o a b = .ok r) : WF r := by
  have hc : consistency a b = .ok () := (opDS_ok_iff o a b).1 ⟨r, h⟩
  have hs := consistency_shape hc
  obtain ⟨a1, a2, a3, a4⟩ := ha
  obtain ⟨b1, b2, b3, b4⟩ := hb
  have hlen : b.value.length = a.value.length := by rw [a1, b1, hs]
  unfold opDS at h
  rw [hc] at h
  injection h with h; subst h
  refine ⟨?_, ?_, a3, a4⟩
  · show (map2 o.val a.value b.value).length = _
    rw [map2_length, hlen, Nat.min_self, a1]
  · show _ = (map2 o.val a.value b.value).length
    rw [map2_length, hlen, Nat.min_self]
    cases o <;> simp only [map2_length, map4_length, a2, b2, hlen, Nat.min_self]

/-- dataset ∘ number -/
theorem opScalar_wf {o : Op} {a : Dataset α} (c : α) (ha : WF a) : WF (opScalar o a c) := by
  obtain ⟨a1, a2, a3, a4⟩ := ha
  refine ⟨?_, ?_, a3, a4⟩
  · show (a.value.map _).length = _; rw [List.length_map, a1]; rfl
  · show _ = (a.value.map _).length
    rw [List.length_map]
    cases o <;> simp [opScalar, a2]

/-- dataset ∘ ndarray -/
theorem opArray_wf {o : Op} {a r : Dataset α} {sh : List Nat} {arr : List α} (ha : WF a)
    (hlen : arr.length = sh.foldl (· * ·) 1) (h : opArray o a sh arr = .ok r) : WF r := by
  obtain ⟨a1, a2, a3, a4⟩ := ha
  unfold opArray at h
  split at h
  · cases h
  · rename_i hs
    have hs' : sh = a.shape := by simpa using hs
    have hl : arr.length = a.value.length := by rw [hlen, hs', a1]
    injection h with h; subst h
    refine ⟨?_, ?_, a3, a4⟩
    · show (map2 o.val a.value arr).length = _
      rw [map2_length, hl, Nat.min_self, a1]
    · show _ = (map2 o.val a.value arr).length
      rw [map2_length, hl, Nat.min_self]
      cases o <;> simp [map2_length, a2, hl]

theorem opScalar_keeps_left (o : Op) (a : Dataset α) (c : α) :
    (opScalar o a c).shape = a.shape ∧ (opScalar o a c).bins = a.bins ∧
    (opScalar o a c).value = a.value.map (fun v => o.val v c) := ⟨rfl, rfl, rfl⟩

end generic

/-! ### the error rules, over exact numbers -/

theorem quadSum_fin (x y : ℝ) : Num.quadSum (fin x) (fin y) = fin (Real.sqrt (x * x + y * y)) := by
  show XReal.sqrt (XReal.add (XReal.mul (fin x) (fin x)) (XReal.mul (fin y) (fin y))) = _
  simp only [mul_fin_fin, add_fin_fin, sqrt_fin]
  rw [if_neg (not_lt.2 (add_nonneg (mul_self_nonneg x) (mul_self_nonneg y)))]

/-- **products: quadratic sum of the relative errors** (times the magnitude of the product) -/
theorem mul_err_rel (v1 e1 v2 e2 : ℝ) (h1 : v1 ≠ 0) (h2 : v2 ≠ 0) :
    mulErr (fin v1) (fin e1) (fin v2) (fin e2) =
      XReal.mul (XReal.abs (XReal.mul (fin v1) (fin v2)))
        (Num.quadSum (XReal.div (fin e1) (fin v1)) (XReal.div (fin e2) (fin v2))) := by
  rw [div_fin_fin _ _ h1, div_fin_fin _ _ h2, quadSum_fin]
  show XReal.sqrt (XReal.add (XReal.mul (XReal.mul (fin e1) (fin v2)) (XReal.mul (fin e1) (fin v2)))
      (XReal.mul (XReal.mul (fin e2) (fin v1)) (XReal.mul (fin e2) (fin v1)))) = _
  simp only [mul_fin_fin, add_fin_fin, sqrt_fin, abs_fin]
  rw [if_neg (not_lt.2 (add_nonneg (mul_self_nonneg _) (mul_self_nonneg _)))]
  congr 1
  rw [← Real.sqrt_sq (abs_nonneg (v1 * v2)), ← Real.sqrt_mul (sq_nonneg _)]
  congr 1
  rw [sq_abs]
  field_simp

/-- **quotients: quadratic sum of the relative errors** (times the magnitude of the quotient) -/
theorem div_err_rel (v1 e1 v2 e2 : ℝ) (h1 : v1 ≠ 0) (h2 : v2 ≠ 0) :
    divErr (fin v1) (fin e1) (fin v2) (fin e2) =
      XReal.mul (XReal.abs (XReal.div (fin v1) (fin v2)))
        (Num.quadSum (XReal.div (fin e1) (fin v1)) (XReal.div (fin e2) (fin v2))) := by
  rw [div_fin_fin _ _ h1, div_fin_fin _ _ h2, div_fin_fin _ _ h2, quadSum_fin]
  have h22 : v2 * v2 ≠ 0 := mul_ne_zero h2 h2
  show XReal.sqrt (XReal.add (XReal.mul (XReal.div (fin e1) (fin v2)) (XReal.div (fin e1) (fin v2)))
      (XReal.mul (XReal.div (XReal.mul (fin v1) (fin e2)) (XReal.mul (fin v2) (fin v2)))
        (XReal.div (XReal.mul (fin v1) (fin e2)) (XReal.mul (fin v2) (fin v2))))) = _
  simp only [mul_fin_fin, div_fin_fin _ _ h2, div_fin_fin _ _ h22, add_fin_fin, sqrt_fin, abs_fin]
  rw [if_neg (not_lt.2 (add_nonneg (mul_self_nonneg _) (mul_self_nonneg _)))]
  congr 1
  rw [← Real.sqrt_sq (abs_nonneg (v1 / v2)), ← Real.sqrt_mul (sq_nonneg _)]
  congr 1
  rw [sq_abs]
  field_simp

/-- **a constant factor scales the error by its magnitude** -/
theorem scalar_scales_err (a : Dataset XReal) (c : XReal) :
    (opScalar .mul a c).error = a.error.map (fun e => XReal.mul e (XReal.abs c)) ∧
    (opScalar .div a c).error = a.error.map (fun e => XReal.div e (XReal.abs c)) ∧
    (opScalar .add a c).error = a.error ∧ (opScalar .sub a c).error = a.error := ⟨rfl, rfl, rfl, rfl⟩

/-- **errors are never negative** after an operation between datasets (whatever the inputs) -/
theorem opDS_err_nonneg {o : Op} {a b r : Dataset XReal} (h : opDS o a b = .ok r) : ∀ x ∈ r.error, NotNeg x := by
  intro x hx
  cases o with
  | add => rw [add_err h] at hx; obtain ⟨u, v, e⟩ := mem_map2 hx; rw [e]; exact notNeg_sqrt _
  | sub => rw [sub_err h] at hx; obtain ⟨u, v, e⟩ := mem_map2 hx; rw [e]; exact notNeg_sqrt _
  | mul => rw [mul_err h] at hx; obtain ⟨p, q, r', s, e⟩ := mem_map4 hx; rw [e]; exact notNeg_sqrt _
  | div => rw [div_err h] at hx; obtain ⟨p, q, r', s, e⟩ := mem_map4 hx; rw [e]; exact notNeg_sqrt _

/-- … and after an operation with a number of either sign, when the input's errors are not negative -/
theorem opScalar_err_nonneg (o : Op) (a : Dataset XReal) (c : XReal) (ha : ∀ e ∈ a.error, NotNeg e) :
    ∀ x ∈ (opScalar o a c).error, NotNeg x := by
  intro x hx
  cases o with
  | add => exact ha x hx
  | sub => exact ha x hx
  | mul =>
    obtain ⟨e, he, rfl⟩ := List.mem_map.1 hx
    exact notNeg_mul (ha e he) (notNeg_abs c)
  | div =>
    obtain ⟨e, he, rfl⟩ := List.mem_map.1 hx
    exact notNeg_div (ha e he) (notNeg_abs c)

/-- … and with an array of numbers of either sign -/
theorem opArray_err_nonneg {o : Op} {a r : Dataset XReal} {sh : List Nat} {arr : List XReal}
    (ha : ∀ e ∈ a.error, NotNeg e) (h : opArray o a sh arr = .ok r) : ∀ x ∈ r.error, NotNeg x := by
  unfold opArray at h
  split at h
  · cases h
  · injection h with h; subst h
    intro x hx
    cases o with
    | add => exact ha x hx
    | sub => exact ha x hx
    | mul =>
      obtain ⟨e, he, cc, _, rfl⟩ := mem_map2_mem hx
      exact notNeg_mul (ha e he) (notNeg_abs cc)
    | div =>
      obtain ⟨e, he, cc, _, rfl⟩ := mem_map2_mem hx
      exact notNeg_div (ha e he) (notNeg_abs cc)

/-- the pinned code (error scaled by the factor itself) gives a negative error from a non-negative one -/
theorem c08_pinned_refuted :
    (opScalarPinned .mul (⟨[1], [fin 3], [fin 1], [], ""⟩ : Dataset XReal) (fin (-2))).error = [fin (-2)] ∧
    ¬ NotNeg (fin (-2)) := by
  refine ⟨?_, ?_⟩
  · show [XReal.mul (fin 1) (fin (-2))] = _
    simp
  · rw [notNeg_fin]; norm_num

/-- non-vacuity of the relative-error rules: 3 ± 0.3 times 4 ± 0.8 -/
example : mulErr (fin 3) (fin 0.3) (fin 4) (fin 0.8) =
    XReal.mul (XReal.abs (XReal.mul (fin 3) (fin 4))) (Num.quadSum (XReal.div (fin 0.3) (fin 3)) (XReal.div (fin 0.8) (fin 4))) :=
  mul_err_rel 3 0.3 4 0.8 (by norm_num) (by norm_num)

end DSet

namespace DSet
open XReal

/-! ### finite chains of operations, copies, squeezes and in-place writes -/

section store
variable {α : Type} [Num α]

theorem Store.get_put (s : Store α) (i j : Nat) (d : Dataset α) :
    (s.put i d).get j = if j = i then some d else s.get j := by
  induction s generalizing i j with
  | nil =>
    induction i generalizing j with
    | zero => cases j <;> simp [Store.put, Store.get]
    | succ i ih => cases j <;> simp [Store.put, Store.get, ih]
  | cons x xs ih =>
    cases i with
    | zero => cases j <;> simp [Store.put, Store.get]
    | succ i => cases j <;> simp [Store.put, Store.get, ih]

end store

/-- what the property asks of every dataset: well formed, errors not negative -/
def Good (d : Dataset XReal) : Prop := WF d ∧ ∀ e ∈ d.error, NotNeg e

def GoodStore (s : Store XReal) : Prop := ∀ i d, s.get i = some d → Good d

/-- the commands of a chain: arrays have the size of their shape; an in-place write into an error array writes a
non-negative number (the writes stand for the user's own edits of a copy) -/
def CmdOK : Cmd XReal → Prop
  | .arith _ _ _ (.array sh arr) => arr.length = sh.foldl (· * ·) 1
  | .poke _ .error _ x => NotNeg x
  | _ => True

theorem foldl_mul_filter (l : List Nat) (k : Nat) : (l.filter (· ≠ 1)).foldl (· * ·) k = l.foldl (· * ·) k := by
  induction l generalizing k with
  | nil => rfl
  | cons a as ih =>
    by_cases h : a = 1
    · subst h
      rw [List.filter_cons_of_neg (by simp), List.foldl_cons, Nat.mul_one]; exact ih k
    · rw [List.filter_cons_of_pos (by simpa using h), List.foldl_cons, List.foldl_cons]; exact ih _

theorem squeeze_wf {d : Dataset XReal} (h : WF d) : WF (squeeze d) := by
  obtain ⟨h1, h2, h3, h4⟩ := h
  refine ⟨?_, h2, ?_, ?_⟩
  · show d.value.length = (d.shape.filter (· ≠ 1)).foldl (· * ·) 1
    rw [foldl_mul_filter, h1]
  · rcases h3 with h3 | h3
    · left; show List.map _ (List.filter _ (d.bins.zip d.shape)) = []; rw [h3]; rfl
    · right
      show (List.map _ (List.filter _ (d.bins.zip d.shape))).length = (d.shape.filter (· ≠ 1)).length
      rw [List.length_map]
      -- both filters keep the same positions: an axis without empty extent is `< 2` exactly when it is `1`
      have key : ∀ (bs : List (String × List XReal)) (sh : List Nat), bs.length = sh.length → (∀ n ∈ sh, 0 < n) →
          ((bs.zip sh).filter (fun kb => decide (¬ kb.2 < 2))).length = (sh.filter (· ≠ 1)).length := by
        intro bs
        induction bs with
        | nil => intro sh hl _; cases sh with
          | nil => rfl
          | cons _ _ => simp at hl
        | cons b bs ih =>
          intro sh hl hp
          cases sh with
          | nil => simp at hl
          | cons n ns =>
            have hn : 0 < n := hp n (by simp)
            have ih' := ih ns (by simpa using hl) (fun m hm => hp m (by simp [hm]))
            by_cases e : n = 1
            · subst e
              rw [List.zip_cons_cons, List.filter_cons_of_neg (by simp), List.filter_cons_of_neg (by simp)]
              exact ih'
            · have : ¬ n < 2 := by omega
              rw [List.zip_cons_cons, List.filter_cons_of_pos (by simpa using this),
                List.filter_cons_of_pos (by simpa using e), List.length_cons, List.length_cons, ih']
      exact key d.bins d.shape h3 h4
  · intro n hn
    exact h4 n (List.mem_filter.1 hn).1

theorem pokeList_length (l : List XReal) (i : Nat) (x : XReal) : (pokeList l i x).length = l.length := by
  unfold pokeList; split <;> simp

theorem mem_pokeList {l : List XReal} {i : Nat} {x y : XReal} (h : y ∈ pokeList l i x) : y ∈ l ∨ y = x := by
  unfold pokeList at h
  split at h
  · rcases List.mem_or_eq_of_mem_set h with h | h
    · exact Or.inl h
    · exact Or.inr h
  · exact Or.inl h

theorem pokeDS_good {d : Dataset XReal} (h : Good d) (w : Which) (i : Nat) (x : XReal)
    (hx : w = .error → NotNeg x) : Good (pokeDS d w i x) := by
  obtain ⟨⟨h1, h2, h3, h4⟩, h5⟩ := h
  cases w with
  | value =>
    refine ⟨⟨?_, ?_, h3, h4⟩, h5⟩
    · show (pokeList d.value i x).length = _; rw [pokeList_length, h1]; rfl
    · show _ = (pokeList d.value i x).length; rw [pokeList_length]; exact h2
  | error =>
    refine ⟨⟨h1, ?_, h3, h4⟩, ?_⟩
    · show (pokeList d.error i x).length = _; rw [pokeList_length]; exact h2
    · intro e he
      rcases mem_pokeList he with he | he
      · exact h5 e he
      · rw [he]; exact hx rfl
  | bin k =>
    refine ⟨⟨h1, h2, ?_, h4⟩, h5⟩
    rcases h3 with h3 | h3
    · left; show List.map _ d.bins.zipIdx = []; rw [h3]; rfl
    · right; show (List.map _ d.bins.zipIdx).length = _; rw [List.length_map, List.length_zipIdx]; exact h3

theorem GoodStore.put {s : Store XReal} (h : GoodStore s) (i : Nat) {d : Dataset XReal} (hd : Good d) :
    GoodStore (s.put i d) := by
  intro j d' hj
  rw [Store.get_put] at hj
  split at hj
  · injection hj with hj; subst hj; exact hd
  · exact h j d' hj

/-- one command keeps every variable good -/
theorem stepCmd_good {s : Store XReal} (h : GoodStore s) (c : Cmd XReal) (hc : CmdOK c) : GoodStore (stepCmd s c).1 := by
  cases c with
  | arith dst src o r =>
    simp only [stepCmd]
    cases hs : s.get src with
    | none => exact h
    | some a =>
      have ga := h src a hs
      cases r with
      | scalar c => exact h.put dst ⟨opScalar_wf c ga.1, opScalar_err_nonneg o a c ga.2⟩
      | array sh arr =>
        simp only
        cases hr : opArray o a sh arr with
        | error e => exact h
        | ok d => exact h.put dst ⟨opArray_wf ga.1 hc hr, opArray_err_nonneg ga.2 hr⟩
      | var j =>
        simp only
        cases hj : s.get j with
        | none => exact h
        | some b =>
          simp only
          cases hr : opDS o a b with
          | error e => exact h
          | ok d => exact h.put dst ⟨opDS_wf ga.1 (h j b hj).1 hr, opDS_err_nonneg hr⟩
  | copy dst src =>
    simp only [stepCmd]
    cases hs : s.get src with
    | none => exact h
    | some a => exact h.put dst (h src a hs)
  | squeeze dst src =>
    simp only [stepCmd]
    cases hs : s.get src with
    | none => exact h
    | some a => exact h.put dst ⟨squeeze_wf (h src a hs).1, (h src a hs).2⟩
  | poke v w i x =>
    simp only [stepCmd]
    cases hs : s.get v with
    | none => exact h
    | some a =>
      refine h.put v (pokeDS_good (h v a hs) w i x ?_)
      intro hw; subst hw; exact hc

/-- **all finite chains**: starting from well-formed datasets with non-negative errors, after any finite chain of
`+ - * /` with datasets, arrays and numbers of either sign, copies, squeezes and edits of copies, every variable holds
a well-formed dataset whose errors are not negative -/
theorem chain_wf_nonneg (s : Store XReal) (cmds : List (Cmd XReal)) (h : GoodStore s) (hc : ∀ c ∈ cmds, CmdOK c) :
    GoodStore (runCmds s cmds).1 := by
  induction cmds generalizing s with
  | nil => exact h
  | cons c cs ih =>
    have h1 := stepCmd_good h c (hc c (by simp))
    have := ih (stepCmd s c).1 h1 (fun c' hc' => hc c' (by simp [hc']))
    simpa [runCmds] using this

/-- non-vacuity: a good store and a chain with a negative factor -/
example : GoodStore ([some ⟨[2], [fin 1, fin (-2)], [fin 0, fin 1], [("e", [fin 0, fin 1, fin 2])], "flux"⟩] : Store XReal) := by
  intro i d hd
  cases i with
  | zero =>
    simp [Store.get] at hd; subst hd
    refine ⟨⟨rfl, rfl, Or.inr rfl, by simp⟩, ?_⟩
    intro e he
    simp at he
    rcases he with he | he <;> subst he <;> simp [notNeg_fin]
  | succ i => simp [Store.get] at hd

end DSet
