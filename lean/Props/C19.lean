import Model.RunCmd
/-!
# C19 — a failing command is never reported as done and its output is captured intact

Model: `Model/RunCmd.lean`.  `ranPrefix clis` is the list of commands that are actually run: the longest
prefix of commands exiting with 0, plus the first command that exits with a non-zero status (if it could be
started).  All theorems hold for every list of command lines and every scripted behaviour.
-/
namespace RunCmd
set_option linter.unusedVariables false

def codeOf (c : Cli) : Int := match c.res with | .exited k _ _ => k | .spawnError => 0
def outText (c : Cli) : String := match c.res with | .exited _ o _ => o | .spawnError => ""
def errText (c : Cli) : String := c.echo ++ (match c.res with | .exited _ _ e => e | .spawnError => "")

/-- the commands actually run -/
def ranPrefix : List Cli → List Cli
  | [] => []
  | c :: cs =>
    match c.res with
    | .spawnError => []
    | .exited k _ _ => if k ≠ 0 then [c] else c :: ranPrefix cs

def catOut : List Cli → String
  | [] => ""
  | c :: cs => outText c ++ catOut cs
def catErr : List Cli → String
  | [] => ""
  | c :: cs => errText c ++ catErr cs

/-- how the loop stops -/
inductive Stop where
  | allZero                 -- every command exited with 0
  | nonZero                 -- some command exited with a non-zero status
  | spawn (c : Cli)         -- command `c` could not be started
  deriving DecidableEq

def stopOf : List Cli → Stop
  | [] => .allZero
  | c :: cs =>
    match c.res with
    | .spawnError => .spawn c
    | .exited k _ _ => if k ≠ 0 then .nonZero else stopOf cs

def accOf (acc : Acc) (r : List Cli) : Acc :=
  { codes := acc.codes ++ r.map codeOf, out := acc.out ++ catOut r, err := acc.err ++ catErr r }

def expected (clis : List Cli) (acc : Acc) : RunRes :=
  match stopOf clis with
  | .allZero => .finished .done (accOf acc (ranPrefix clis))
  | .nonZero => .finished .failed (accOf acc (ranPrefix clis))
  | .spawn c => .raised { accOf acc (ranPrefix clis) with err := (accOf acc (ranPrefix clis)).err ++ c.echo }

theorem runLoop_spec (clis : List Cli) (acc : Acc) : runLoop clis acc = expected clis acc := by
  induction clis generalizing acc with
  | nil => simp [runLoop, expected, stopOf, ranPrefix, accOf, catOut, catErr]
  | cons c cs ih =>
    cases hres : c.res with
    | spawnError =>
      simp [runLoop, expected, stopOf, ranPrefix, accOf, catOut, catErr, hres]
    | exited k o e =>
      by_cases hk : k = 0
      · subst hk
        simp only [runLoop, hres, ne_eq, not_true_eq_false, if_false, ih]
        simp only [expected, stopOf, hres, ne_eq, not_true_eq_false, if_false, ranPrefix]
        cases stopOf cs <;>
          simp [accOf, catOut, catErr, codeOf, outText, errText, hres, String.append_assoc, List.append_assoc]
      · simp [runLoop, expected, stopOf, ranPrefix, accOf, catOut, catErr, hres, hk, codeOf, outText, errText,
          String.append_assoc]

/-- all commands exited with status zero -/
def AllZero (clis : List Cli) : Prop := ∀ c ∈ clis, ∃ o e, c.res = .exited 0 o e

theorem stopOf_allZero_iff (clis : List Cli) : stopOf clis = .allZero ↔ AllZero clis := by
  induction clis with
  | nil => simp [stopOf, AllZero]
  | cons c cs ih =>
    cases hres : c.res with
    | spawnError =>
      simp only [stopOf, hres, AllZero]
      constructor
      · intro h; cases h
      · intro h; obtain ⟨o, e, h⟩ := h c (by simp); rw [hres] at h; cases h
    | exited k o e =>
      by_cases hk : k = 0
      · subst hk
        simp only [stopOf, hres, ne_eq, not_true_eq_false, if_false, ih, AllZero, List.mem_cons]
        constructor
        · intro h c' hc'; rcases hc' with rfl | hc'
          · exact ⟨o, e, hres⟩
          · exact h c' hc'
        · intro h c' hc'; exact h c' (Or.inr hc')
      · simp only [stopOf, hres, ne_eq, hk, not_false_eq_true, if_true, AllZero]
        constructor
        · intro h; cases h
        · intro h; obtain ⟨o', e', h⟩ := h c (by simp); rw [hres] at h; injection h with h; exact absurd h hk

/-- **The run is DONE exactly when every command exited with status zero.** -/
theorem done_iff_all_zero (clis : List Cli) : (∃ acc, run clis = .finished .done acc) ↔ AllZero clis := by
  rw [← stopOf_allZero_iff]
  simp only [run, runLoop_spec, expected]
  cases h : stopOf clis <;> simp

theorem ranPrefix_prefix (clis : List Cli) : ranPrefix clis <+: clis := by
  induction clis with
  | nil => simp [ranPrefix]
  | cons c cs ih =>
    simp only [ranPrefix]
    cases c.res with
    | spawnError => exact List.nil_prefix
    | exited k o e =>
      simp only
      split
      · exact ⟨cs, rfl⟩
      · exact List.prefix_cons_inj c |>.2 ih

/-- the recorded accumulators of a run, however it ended -/
def RunRes.acc : RunRes → Acc
  | .finished _ a => a
  | .raised a => a

/-- **The recorded return codes are those of the commands actually run** (a prefix of the command list,
stopping at the first non-zero status). -/
theorem codes_are_prefix (clis : List Cli) :
    (run clis).acc.codes = (ranPrefix clis).map codeOf ∧ ranPrefix clis <+: clis := by
  refine ⟨?_, ranPrefix_prefix clis⟩
  simp only [run, runLoop_spec, expected]
  cases stopOf clis <;> simp [RunRes.acc, accOf]

theorem ranPrefix_stop (pre post : List Cli) (c : Cli) (hpre : AllZero pre) (hc : ∀ o e, c.res ≠ .exited 0 o e) :
    ranPrefix (pre ++ c :: post) = ranPrefix (pre ++ [c]) ∧ stopOf (pre ++ c :: post) = stopOf (pre ++ [c]) := by
  induction pre with
  | nil =>
    cases hres : c.res with
    | spawnError => simp [ranPrefix, stopOf, hres]
    | exited k o e =>
      have hk : k ≠ 0 := fun h => hc o e (by rw [hres, h])
      simp [ranPrefix, stopOf, hres, hk]
  | cons p pre ih =>
    obtain ⟨o, e, hp⟩ := hpre p (by simp)
    have := ih (fun c' hc' => hpre c' (by simp [hc']))
    simp [ranPrefix, stopOf, hp, this]

/-- **At the first non-zero status (or start failure) the remaining commands are not run**: they have no
influence on the result. -/
theorem not_run_after_failure (pre post : List Cli) (c : Cli) (hpre : AllZero pre)
    (hc : ∀ o e, c.res ≠ .exited 0 o e) : run (pre ++ c :: post) = run (pre ++ [c]) := by
  obtain ⟨h1, h2⟩ := ranPrefix_stop pre post c hpre hc
  simp only [run, runLoop_spec, expected, h1, h2]

/-- `sanitize_filename` accepts a name unchanged or rejects it -/
theorem sanitize_some {a p : List Char} (h : sanitize a = some p) : p = a := by
  unfold sanitize at h
  split at h; · cases h
  split at h; · cases h
  split at h; · cases h
  injection h with h; exact h.symm

/-- **Distinct task names never share an output directory.** -/
theorem outdir_injective {a b p : List Char} (ha : sanitize a = some p) (hb : sanitize b = some p) : a = b := by
  rw [← sanitize_some ha, ← sanitize_some hb]

theorem sanitize_none_iff (a : List Char) :
    sanitize a = none ↔ ('\x00' ∈ a ∨ '/' ∈ a ∨ a = [] ∨ a = ['.'] ∨ a = ['.', '.']) := by
  unfold sanitize
  by_cases h1 : '\x00' ∈ a
  · simp [h1]
  · by_cases h2 : '/' ∈ a
    · simp [h1, h2]
    · by_cases h3 : a = [] ∨ a = ['.'] ∨ a = ['.', '.']
      · simp [h1, h2, h3]
      · simp only [h1, h2, h3, if_false, false_or]; simp

/-- **A task whose name cannot be used as a file name fails (it does not abort the run).** -/
theorem bad_name_fails_task (name : List Char) (clis : List Cli) (h : sanitize name = none) :
    finalStatus (runTask name clis) = .failed := by
  simp [runTask, h, finalStatus]

/-- **A command that cannot be started makes the task fail, and the commands after it are not run.** -/
theorem spawn_error_fails_task_not_run (name : List Char) (pre post : List Cli) (c : Cli) (hpre : AllZero pre)
    (hc : c.res = .spawnError) :
    finalStatus (runTask name (pre ++ c :: post)) = .failed ∧
    run (pre ++ c :: post) = .raised { accOf {} pre with err := (accOf {} pre).err ++ c.echo } := by
  have hne : ∀ o e, c.res ≠ .exited 0 o e := by intro o e; rw [hc]; intro h; cases h
  have hrun := not_run_after_failure pre post c hpre hne
  have hspec : run (pre ++ [c]) = .raised { accOf {} pre with err := (accOf {} pre).err ++ c.echo } := by
    simp only [run, runLoop_spec, expected]
    have h1 : stopOf (pre ++ [c]) = .spawn c ∧ ranPrefix (pre ++ [c]) = pre := by
      clear hrun
      induction pre with
      | nil => simp [stopOf, ranPrefix, hc]
      | cons p pre ih =>
        obtain ⟨o, e, hp⟩ := hpre p (by simp)
        have := ih (fun c' hc' => hpre c' (by simp [hc']))
        simp [stopOf, ranPrefix, hp, this]
    simp [h1.1, h1.2]
  refine ⟨?_, hrun.trans hspec⟩
  unfold runTask
  cases sanitize name with
  | none => rfl
  | some dir => simp [hrun, hspec, finalStatus]

/-- **The captured files hold what the commands actually run wrote, in order** (stderr with valjean's
`$ command` echo line before each command's own output). -/
theorem output_in_order (clis : List Cli) :
    (run clis).acc.out = catOut (ranPrefix clis) ∧
    (∃ tail, (run clis).acc.err = catErr (ranPrefix clis) ++ tail ∧
      (tail = "" ∨ ∃ c, stopOf clis = .spawn c ∧ tail = c.echo)) := by
  simp only [run, runLoop_spec, expected]
  cases h : stopOf clis with
  | allZero => simp [RunRes.acc, accOf]
  | nonZero => simp [RunRes.acc, accOf]
  | spawn c => simp [RunRes.acc, accOf]

/-- **The final status of the task is DONE exactly when its name is usable and every command exited with 0.** -/
theorem status_total (name : List Char) (clis : List Cli) :
    finalStatus (runTask name clis) = .done ↔ (sanitize name ≠ none ∧ AllZero clis) := by
  unfold runTask
  cases hs : sanitize name with
  | none => simp [finalStatus]
  | some dir =>
    rw [← stopOf_allZero_iff]
    simp only [run, runLoop_spec, expected]
    cases h : stopOf clis <;> simp [finalStatus]

/-- non-vacuity: three commands, the second fails, the third is not run -/
example : run [⟨"$ a\n", .exited 0 "A" "x"⟩, ⟨"$ b\n", .exited 3 "B" "y"⟩, ⟨"$ c\n", .exited 0 "C" "z"⟩]
    = .finished .failed { codes := [0, 3], out := "AB", err := "$ a\nx$ b\ny" } := by decide

/-- **A build (configure, then build) is the two commands run in sequence**: same status, same return codes, same
captured output as `run [configure, build]` — so everything proved about `run` (DONE iff every command exited with 0, the
build step is not run after a failed configure step, output in order) holds for `BuildTask`. -/
theorem build_eq_run (configure build : Cli) : buildSys configure build = run [configure, build] := by
  cases hc : configure.res with
  | spawnError => simp [buildSys, run, runLoop, hc]
  | exited k o e =>
    by_cases hk : k = 0
    · subst hk
      cases hb : build.res with
      | spawnError => simp [buildSys, run, runLoop, hc, hb, String.append_assoc]
      | exited k2 o2 e2 =>
        by_cases hk2 : k2 = 0
        · subst hk2; simp [buildSys, run, runLoop, hc, hb, String.append_assoc]
        · simp [buildSys, run, runLoop, hc, hb, hk2, String.append_assoc]
    · simp [buildSys, run, runLoop, hc, hk]

theorem build_done_iff (configure build : Cli) :
    (∃ acc, buildSys configure build = .finished .done acc) ↔ AllZero [configure, build] := by
  rw [build_eq_run]; exact done_iff_all_zero _

end RunCmd
