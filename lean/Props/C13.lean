import Proofs.Diag
/-!
# C13 — looking at a test result never changes its verdict or its inputs

Model: `Model/Diag.lean`, section C13.  The statistics results hold a dictionary `classify`; a *read* is one of
`bool`, `len`, `get`, `contains`, `counts` (the repaired `classification_counts`), `view` (table / plot
representation, rst formatting, fingerprint, pickle, copy).  `countsPinned` is the pinned `classification_counts`,
which indexed a live `defaultdict` and thereby inserted keys.

Result kinds that hold only numpy arrays are pure values in a functional model: for them the statement is trivially
true of the model (`arrays_partial`) and is carried by the correspondence (bit-for-bit snapshots of the real objects
around every read) — in-place edits of shared buffers are a runtime behaviour no pure model can exhibit.
-/
namespace Diag

/-- the reads of the repaired code -/
def Honest : ReadOp → Prop
  | .countsPinned _ _ => False
  | _ => True

theorem applyRead_honest (c : Classify) (op : ReadOp) (h : Honest op) : applyRead c op = c := by
  cases op <;> first | rfl | exact absurd h (by simp [Honest])

/-- **any finite sequence of reads, in any order, leaves the recorded statistics unchanged** -/
theorem reads_are_identity (c : Classify) (ops : List ReadOp) (h : ∀ op ∈ ops, Honest op) :
    ops.foldl applyRead c = c := by
  induction ops generalizing c with
  | nil => rfl
  | cons op ops ih =>
    rw [List.foldl_cons, applyRead_honest c op (h op (by simp))]
    exact ih c (fun o ho => h o (by simp [ho]))

/-- **… and therefore the verdict** of the task statistics and of the test statistics -/
theorem verdict_stable (c : Classify) (ops : List ReadOp) (h : ∀ op ∈ ops, Honest op) :
    boolTasks (ops.foldl applyRead c) = boolTasks c ∧ boolTests (ops.foldl applyRead c) = boolTests c := by
  rw [reads_are_identity c ops h]; exact ⟨rfl, rfl⟩

/-- every prefix of a sequence of reads: the state is the same after each single read -/
theorem reads_prefix_identity (c : Classify) (ops : List ReadOp) (h : ∀ op ∈ ops, Honest op) (k : Nat) :
    (ops.take k).foldl applyRead c = c :=
  reads_are_identity c (ops.take k) (fun o ho => h o (List.mem_of_mem_take ho))

/-! ### the repaired count returns what the pinned count returned -/

theorem clsGet_absent (c : Classify) (k : Nat) (h : clsHas c k = false) : clsGet c k = [] := by
  induction c with
  | nil => rfl
  | cons x xs ih =>
    obtain ⟨k', l⟩ := x
    have h' : ((k' == k) || xs.any (·.1 == k)) = false := h
    rw [Bool.or_eq_false_iff] at h'
    have hne : ¬ k' = k := by simpa using h'.1
    show (if k' = k then l else clsGet xs k) = []
    rw [if_neg hne]
    exact ih h'.2

theorem clsIndex_get (c : Classify) (k : Nat) : (clsIndex c k).2 = clsGet c k := by
  unfold clsIndex
  split
  · rfl
  · rename_i h
    rw [clsGet_absent c k (by simpa using h)]

theorem clsGet_append_other (c : Classify) (k k' : Nat) (h : k' ≠ k ∨ clsHas c k = true) :
    clsGet (c ++ [(k', [])]) k = clsGet c k := by
  induction c with
  | nil =>
    rcases h with h | h
    · show (if k' = k then [] else clsGet [] k) = []
      rw [if_neg h]; rfl
    · cases h
  | cons x xs ih =>
    obtain ⟨k2, l⟩ := x
    show (if k2 = k then l else clsGet (xs ++ [(k', [])]) k) = (if k2 = k then l else clsGet xs k)
    by_cases e : k2 = k
    · rw [if_pos e, if_pos e]
    · rw [if_neg e, if_neg e]
      apply ih
      rcases h with h | h
      · exact Or.inl h
      · right
        have h' : ((k2 == k) || xs.any (·.1 == k)) = true := h
        rw [Bool.or_eq_true] at h'
        rcases h' with h' | h'
        · exact absurd (by simpa using h') e
        · exact h'

/-- indexing inserts only empty lists: what any key maps to (with `.get(k, [])`) is unchanged -/
theorem clsGet_clsIndex (c : Classify) (s k : Nat) : clsGet (clsIndex c s).1 k = clsGet c k := by
  unfold clsIndex
  split
  · rfl
  · rename_i h
    by_cases e : s = k
    · subst e
      rw [clsGet_absent c s (by simpa using h)]
      have : ∀ (l : Classify), clsHas l s = false → clsGet (l ++ [(s, [])]) s = [] := by
        intro l hl
        induction l with
        | nil => show (if s = s then [] else _) = []; rw [if_pos rfl]
        | cons x xs ih =>
          obtain ⟨k2, l2⟩ := x
          have h' : ((k2 == s) || xs.any (·.1 == s)) = false := hl
          rw [Bool.or_eq_false_iff] at h'
          have hne : ¬ k2 = s := by simpa using h'.1
          show (if k2 = s then l2 else clsGet (xs ++ [(s, [])]) s) = []
          rw [if_neg hne]; exact ih h'.2
      exact this c (by simpa using h)
    · exact clsGet_append_other c k s (Or.inl e)

/-- **the repaired `classification_counts` returns exactly what the pinned one returned** (the repair only removes
the side effect) -/
theorem counts_eq (c : Classify) (statuses : List Nat) : (countsPinned c statuses).2 = counts c statuses := by
  unfold countsPinned counts
  -- generalise the accumulator of the fold
  have key : ∀ (sts : List Nat) (c0 : Classify) (acc : List (Nat × Nat)), (∀ k, clsGet c0 k = clsGet c k) →
      (sts.foldl (fun (a : Classify × List (Nat × Nat)) s =>
          let (c1, l) := clsIndex a.1 s
          (c1, a.2 ++ [(s, l.length)])) (c0, acc)).2 = acc ++ sts.map fun s => (s, (clsGet c s).length) := by
    intro sts
    induction sts with
    | nil => intro c0 acc _; simp
    | cons s ss ih =>
      intro c0 acc h0
      rw [List.foldl_cons]
      have h1 : ∀ k, clsGet (clsIndex c0 s).1 k = clsGet c k := fun k => by rw [clsGet_clsIndex, h0]
      have := ih (clsIndex c0 s).1 (acc ++ [(s, (clsIndex c0 s).2.length)]) h1
      simp only at this ⊢
      rw [this, clsIndex_get, h0 s]
      simp
  have := key statuses c [] (fun _ => rfl)
  simp only [List.nil_append] at this
  simp only
  rw [this]

/-- the pinned count changed the verdict: all tasks DONE, one table representation later the result is False -/
theorem c13_pinned_refuted :
    boolTasks [(DONE, [(0, none)])] = true ∧
    boolTasks (applyRead [(DONE, [(0, none)])] (.countsPinned DONE [1, 2, 3, 4, 5])) = false := by
  decide

/-- result kinds made of arrays only: a pure value is not changed by a function that returns another value (the
substance of the claim for these kinds is in the correspondence, see the header) -/
theorem arrays_partial {ρ β : Type} (r : ρ) (reads : List (ρ → β)) : (reads.foldl (fun acc _ => acc) r) = r := by
  induction reads with
  | nil => rfl
  | cons _ _ ih => simpa using ih

/-- non-vacuity: a non-trivial sequence of honest reads -/
example : ∀ op ∈ [ReadOp.bool, .counts DONE [1, 2], .view, .get 4, .contains 1, .len], Honest op := by
  intro op h
  simp at h
  rcases h with h | h | h | h | h | h <;> subst h <;> trivial

end Diag
