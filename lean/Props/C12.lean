import Model.Table
import Mathlib.Tactic.Ring
import Mathlib.Tactic.Linarith
import Mathlib.Tactic.ByContra
/-!
# C12 — a rendered report shows a failure mark exactly for the results that failed

Model: `Model/Table.lean`.  (L1) builders and verbosity dispatch over an abstract result; (L2) the reST writer and a
reader of simple tables; (L3) slicing / joining templates.
-/
namespace Table

/-! ### L2 — what is written reads back -/

theorem stripL_replicate_append (n : Nat) (c : Cell) : stripL (List.replicate n ' ' ++ c) = stripL c := by
  induction n with
  | zero => rfl
  | succ n ih =>
    rw [List.replicate_succ, List.cons_append]
    unfold stripL
    rw [List.dropWhile_cons_of_pos (by rfl)]
    exact ih

/-- right-justifying a cell does not change what it reads back as -/
theorem strip_padLeft (w : Nat) (c : Cell) : strip (padLeft w c) = strip c := by
  unfold strip padLeft
  rw [stripL_replicate_append]

theorem padLeft_length (w : Nat) (c : Cell) (h : c.length ≤ w) : (padLeft w c).length = w := by
  unfold padLeft
  rw [List.length_append, List.length_replicate]
  omega

theorem take_append_exact {α : Type} (a b : List α) : (a ++ b).take a.length = a := by
  rw [List.take_append_of_le_length (Nat.le_refl _), List.take_length]

theorem drop_append_exact {α : Type} (a b : List α) : (a ++ b).drop a.length = b := by
  rw [List.drop_append_of_le_length (Nat.le_refl _), List.drop_length, List.nil_append]

/-- **a data line reads back as its cells** (stripped), whatever the cells contain, as long as each fits its column -/
theorem readRow_dataRow (ws : List Nat) (row : List Cell) (hlen : row.length = ws.length)
    (hfit : ∀ p ∈ ws.zip row, p.2.length ≤ p.1) : readRow ws (dataRow ws row) = row.map strip := by
  induction ws generalizing row with
  | nil =>
    cases row with
    | nil => rfl
    | cons _ _ => simp at hlen
  | cons w ws ih =>
    cases row with
    | nil => simp at hlen
    | cons c cs =>
      have hc : c.length ≤ w := hfit (w, c) (by simp)
      have hrest : ∀ p ∈ ws.zip cs, p.2.length ≤ p.1 := fun p hp => hfit p (by simp [hp])
      have hl : cs.length = ws.length := by simpa using hlen
      cases ws with
      | nil =>
        cases cs with
        | nil =>
          show [strip ((padLeft w c).take w)] = [strip c]
          have : (padLeft w c).take w = padLeft w c := by
            conv => lhs; arg 1; rw [← padLeft_length w c hc]
            exact List.take_length
          rw [this, strip_padLeft]
        | cons _ _ => simp at hl
      | cons w2 ws2 =>
        cases cs with
        | nil => simp at hl
        | cons c2 cs2 =>
          have ih' := ih (c2 :: cs2) hl hrest
          show strip ((padLeft w c ++ sep ++ joinSep (zipPad padLeft (w2 :: ws2) (c2 :: cs2))).take w)
              :: readRow (w2 :: ws2) ((padLeft w c ++ sep ++ joinSep (zipPad padLeft (w2 :: ws2) (c2 :: cs2))).drop (w + 2))
            = strip c :: (c2 :: cs2).map strip
          have e1 : (padLeft w c ++ sep ++ joinSep (zipPad padLeft (w2 :: ws2) (c2 :: cs2))).take w = padLeft w c := by
            rw [List.append_assoc]
            conv => lhs; arg 1; rw [← padLeft_length w c hc]
            exact take_append_exact _ _
          have e2 : (padLeft w c ++ sep ++ joinSep (zipPad padLeft (w2 :: ws2) (c2 :: cs2))).drop (w + 2)
              = joinSep (zipPad padLeft (w2 :: ws2) (c2 :: cs2)) := by
            have : (padLeft w c ++ sep).length = w + 2 := by
              rw [List.length_append, padLeft_length w c hc]; rfl
            conv => lhs; arg 1; rw [← this]
            exact drop_append_exact _ _
          rw [e1, e2, strip_padLeft]
          congr 1

/-- a highlighted cell is written as the role around its stripped text -/
theorem highlight_strip (v : Cell) : highlight v true = ":hl:`".toList ++ strip v ++ "`".toList ∧ highlight v false = v :=
  ⟨rfl, rfl⟩

/-! ### L3 — slicing and joining keep cells and highlights aligned -/

theorem slice_getElem {α : Type} (l : List α) (a b i : Nat) (h : a + i < b) : ((l.take b).drop a)[i]? = l[a + i]? := by
  rw [List.getElem?_drop, List.getElem?_take]
  simp [h]

/-- **slicing**: the columns and the highlights are cut at the same places; entry `i` of the slice is entry `a + i` of
the table, in every column and every highlight column -/
theorem slice_aligned (t : Template) (a b : Nat) :
    (t.slice a b).columns = t.columns.map (fun c => (c.take b).drop a) ∧
    (t.slice a b).hl = t.hl.map (fun h => (h.take b).drop a) ∧
    (∀ (c : List Cell) (i : Nat), a + i < b → ((c.take b).drop a)[i]? = c[a + i]?) ∧
    (∀ (h : List Bool) (i : Nat), a + i < b → ((h.take b).drop a)[i]? = h[a + i]?) :=
  ⟨rfl, rfl, fun c i hi => slice_getElem c a b i hi, fun h i hi => slice_getElem h a b i hi⟩

theorem appendCols_length {α : Type} (x y : List (List α)) (h : x.length = y.length) :
    (appendCols x y).length = x.length ∧
    ∀ j (hj : j < (appendCols x y).length) (hx : j < x.length) (hy : j < y.length),
      (appendCols x y)[j] = x[j] ++ y[j] := by
  induction x generalizing y with
  | nil => cases y with
    | nil => exact ⟨rfl, fun j hj => absurd hj (by simp [appendCols])⟩
    | cons _ _ => simp at h
  | cons a as ih =>
    cases y with
    | nil => simp at h
    | cons b bs =>
      obtain ⟨l, g⟩ := ih bs (by simpa using h)
      refine ⟨by simp [appendCols, l], ?_⟩
      intro j hj hx hy
      cases j with
      | zero => rfl
      | succ j => exact g j (by simpa [appendCols] using hj) (by simpa using hx) (by simpa using hy)

/-- **joining**: column `j` of the result is column `j` of the first table followed by column `j` of the second, and
the same for the highlights: rows keep their own highlights -/
theorem join_aligned (t u w : Template) (h : t.join u = some w) (hc : t.columns.length = u.columns.length)
    (hh : t.hl.length = u.hl.length) :
    w.columns = appendCols t.columns u.columns ∧ w.hl = appendCols t.hl u.hl ∧
    w.columns.length = t.columns.length ∧ w.hl.length = t.hl.length := by
  unfold Template.join at h
  split at h
  · injection h with h; subst h
    exact ⟨rfl, rfl, (appendCols_length _ _ hc).1, (appendCols_length _ _ hh).1⟩
  · cases h

/-- the pinned `__getitem__` kept the highlights of the whole table: rows 1.. of a table whose row 0 is highlighted -/
theorem c12_pinned_refuted :
    let t : Template := ⟨["x".toList], [["a".toList, "b".toList]], [[true, false]]⟩
    (t.slicePinned 1 2).columns = [["b".toList]] ∧ (t.slicePinned 1 2).hl = [[true, false]] ∧
    (t.slice 1 2).hl = [[false]] := by
  decide

end Table

namespace Table
/-! ### L1 — a failure mark exactly for the results that failed -/

theorem any_replicate_false (n : Nat) : (List.replicate n false).any id = false := by
  induction n with
  | zero => rfl
  | succ n ih => rw [List.replicate_succ, List.any_cons, ih]; rfl

theorem rowFlags_any (pre gap : Nat) (masks : List (List Bool)) (i : Nat) :
    (rowFlags pre gap masks i).any id = masks.any (fun m => !(m.getD i true)) := by
  unfold rowFlags
  rw [List.any_append, any_replicate_false, Bool.false_or]
  induction masks with
  | nil => rfl
  | cons m ms ih =>
    rw [List.flatMap_cons, List.any_append, List.any_append, any_replicate_false, List.any_cons, ih, Bool.false_or,
      List.any_nil, Bool.or_false, List.any_cons]
    rfl

theorem hasMark_table (rows : List Nat) (hl : List (List Bool)) : hasMark [Out.table rows hl] = hl.any (·.any id) := by
  simp [hasMark]

theorem hasMark_fullTable (pre gap : Nat) (r : Res) (rows : List Nat) :
    hasMark [fullTable pre gap r rows] = rows.any (fun i => r.masks.any (fun m => !(m.getD i true))) := by
  unfold fullTable
  rw [hasMark_table, List.any_map]
  congr 1
  funext i
  exact rowFlags_any pre gap r.masks i

theorem all_getD {m : List Bool} (h : m.all id = true) (i : Nat) : m.getD i true = true := by
  induction m generalizing i with
  | nil => rfl
  | cons b bs ih =>
    rw [List.all_cons, Bool.and_eq_true] at h
    cases i with
    | zero => exact h.1
    | succ i => exact ih h.2 i

theorem allTrue_no_fail {masks : List (List Bool)} (h : allTrue masks = true) (i : Nat) :
    masks.any (fun m => !(m.getD i true)) = false := by
  unfold allTrue at h
  rw [List.all_eq_true] at h
  rw [List.any_eq_false]
  intro m hm
  rw [all_getD (h m hm) i]
  decide

theorem not_all_exists {m : List Bool} (h : m.all id = false) : ∃ i, i < m.length ∧ m.getD i true = false := by
  induction m with
  | nil => cases h
  | cons b bs ih =>
    cases b with
    | false => exact ⟨0, Nat.zero_lt_succ _, rfl⟩
    | true =>
      have : bs.all id = false := by rw [List.all_cons] at h; exact h
      obtain ⟨i, hi, hv⟩ := ih this
      exact ⟨i + 1, Nat.succ_lt_succ hi, hv⟩

theorem not_allTrue_fail {masks : List (List Bool)} {n : Nat} (h : allTrue masks = false)
    (hlen : ∀ m ∈ masks, m.length = n) : ∃ i, i < n ∧ masks.any (fun m => !(m.getD i true)) = true := by
  unfold allTrue at h
  have : ∃ m ∈ masks, m.all id = false := by
    by_contra hc
    have hall : masks.all (fun l => l.all id) = true := by
      rw [List.all_eq_true]
      intro m hm
      cases hh : m.all id with
      | true => rfl
      | false => exact absurd ⟨m, hm, hh⟩ hc
    rw [hall] at h; cases h
  obtain ⟨m, hm, hf⟩ := this
  obtain ⟨i, hi, hv⟩ := not_all_exists hf
  refine ⟨i, by rw [← hlen m hm]; exact hi, ?_⟩
  rw [List.any_eq_true]
  exact ⟨m, hm, by rw [hv]; rfl⟩

theorem range_any_of {n : Nat} {f : Nat → Bool} {i : Nat} (hi : i < n) (hf : f i = true) : (List.range n).any f = true := by
  rw [List.any_eq_true]; exact ⟨i, List.mem_range.2 hi, hf⟩

/-- per-row tables (Bonferroni, Holm, by labels): a mark iff some flag is false -/
theorem hasMark_perRow (flags : List Bool) (n : Nat) (marked : Nat → Bool → List Bool) (keep : Bool → Bool)
    (hm : ∀ o, (marked n o).any id = !o) (hk : ∀ o, o = false → keep o = true) :
    hasMark [perRowTable flags n marked keep] = !(flags.all id) := by
  unfold perRowTable
  rw [hasMark_table, List.any_map]
  cases h : flags.all id with
  | true =>
    show _ = false
    rw [List.any_eq_false]
    intro i _
    show ¬ ((marked n (flags.getD i true)).any id = true)
    rw [hm, all_getD h i]
    decide
  | false =>
    obtain ⟨i, hi, hv⟩ := not_all_exists h
    show _ = true
    rw [List.any_eq_true]
    refine ⟨i, List.mem_filter.2 ⟨List.mem_range.2 hi, by rw [hv]; exact hk false rfl⟩, ?_⟩
    show (marked n (flags.getD i true)).any id = true
    rw [hm, hv]; rfl

theorem marked_last (n : Nat) (o : Bool) : (List.replicate n false ++ [!o]).any id = !o := by
  rw [List.any_append, any_replicate_false, Bool.false_or, List.any_cons, List.any_nil, Bool.or_false]; rfl

theorem marked_all (n : Nat) (o : Bool) : (List.replicate (n + 2) (!o)).any id = !o := by
  rw [List.replicate_succ, List.any_cons]
  cases o
  · rfl
  · show (false || (List.replicate (n + 1) false).any id) = false
    rw [any_replicate_false]; rfl

end Table

namespace Table

/-- what `evaluate()` guarantees about the abstract result -/
structure WFRes (r : Res) : Prop where
  lens : r.kind = .equal ∨ r.kind = .approx ∨ r.kind = .student → ∀ m ∈ r.masks, m.length = r.nbins
  stats : r.kind = .stats → ∃ p, r.masks = [p] ∧ p ≠ [] ∧ ∀ b ∈ p.tail, b = false
  single : r.kind = .bonf ∨ r.kind = .holm ∨ r.kind = .byLabels → ∃ f, r.masks = [f]

theorem allTrue_single (f : List Bool) : allTrue [f] = f.all id := by
  unfold allTrue; rw [List.all_cons, List.all_nil, Bool.and_true]

theorem hasMark_append (a b : List Out) : hasMark (a ++ b) = (hasMark a || hasMark b) := by
  induction a with
  | nil => rfl
  | cons x xs ih =>
    cases x with
    | text ko => show (ko || hasMark (xs ++ b)) = ((ko || hasMark xs) || hasMark b); rw [ih, Bool.or_assoc]
    | table rows hl =>
      show (hl.any (·.any id) || hasMark (xs ++ b)) = ((hl.any (·.any id) || hasMark xs) || hasMark b)
      rw [ih, Bool.or_assoc]

theorem hasMark_text (ko : Bool) : hasMark [Out.text ko] = ko := by
  show (ko || false) = ko; rw [Bool.or_false]

theorem full_mark (pre gap : Nat) (r : Res) (hlen : ∀ m ∈ r.masks, m.length = r.nbins) :
    hasMark [fullTable pre gap r (List.range r.nbins)] = !(allTrue r.masks) := by
  rw [hasMark_fullTable]
  cases hok : allTrue r.masks with
  | true =>
    show _ = false
    rw [List.any_eq_false]
    intro i _
    rw [allTrue_no_fail hok i]; decide
  | false =>
    obtain ⟨i, hi, hf⟩ := not_allTrue_fail hok hlen
    rw [range_any_of hi hf]; rfl

theorem mark_equal (r : Res) (v : Nat) (hk : r.kind = .equal) (hlen : ∀ m ∈ r.masks, m.length = r.nbins) :
    hasMark (render r v) = !(verdict r) := by
  have hvd : verdict r = allTrue r.masks := by unfold verdict; rw [hk]
  unfold render
  rw [hk]
  simp only
  rw [hvd]
  cases hok : allTrue r.masks with
  | true =>
    rw [if_pos rfl]
    by_cases h4 : v = 4
    · rw [if_neg (by simpa using h4), full_mark _ _ r hlen, hok]
    · rw [if_pos h4]; rfl
  | false =>
    rw [if_neg (by decide)]
    by_cases h2 : v < 2
    · rw [if_pos h2]; rfl
    · rw [if_neg h2, full_mark _ _ r hlen, hok]

theorem mark_approx (r : Res) (v : Nat) (hv : v ≠ 0) (hk : r.kind = .approx) (hlen : ∀ m ∈ r.masks, m.length = r.nbins) :
    hasMark (render r v) = !(verdict r) := by
  have hvd : verdict r = allTrue r.masks := by unfold verdict; rw [hk]
  unfold render
  rw [hk]
  simp only
  rw [hvd]
  have : (decide (v = 0) && allTrue r.masks) = false := by rw [decide_eq_false hv]; rfl
  rw [this, if_neg (by decide)]
  by_cases h1 : v = 1
  · rw [if_pos h1, hasMark_text]
  · rw [if_neg h1, full_mark _ _ r hlen]

theorem mark_student (r : Res) (v : Nat) (hv : v ≠ 0) (hk : r.kind = .student) (hlen : ∀ m ∈ r.masks, m.length = r.nbins) :
    hasMark (render r v) = !(verdict r) := by
  have hvd : verdict r = allTrue r.masks := by unfold verdict; rw [hk]
  unfold render
  rw [hk]
  simp only
  rw [hvd, if_neg hv]
  by_cases h1 : v = 1
  · rw [if_pos h1, hasMark_text]
  · rw [if_neg h1]
    by_cases h23 : (decide (v = 2) || decide (v = 3)) = true
    · rw [if_pos h23]
      cases hok : allTrue r.masks with
      | true => rw [if_pos rfl]; rfl
      | false =>
        rw [if_neg (by decide)]
        by_cases hs : r.scalar = true
        · rw [if_pos hs, full_mark _ _ r hlen, hok]
        · rw [if_neg hs, hasMark_fullTable]
          obtain ⟨i, hi, hf⟩ := not_allTrue_fail hok hlen
          have : i ∈ failingRows r := List.mem_filter.2 ⟨List.mem_range.2 hi, hf⟩
          rw [List.any_eq_true.2 ⟨i, this, hf⟩]; rfl
    · rw [if_neg h23, full_mark _ _ r hlen]

theorem mark_bonf (r : Res) (v : Nat) (hv : v ≠ 0) (hk : r.kind = .bonf) (f : List Bool) (hf : r.masks = [f]) :
    hasMark (render r v) = !(verdict r) := by
  have hvd : verdict r = f.all id := by unfold verdict; rw [hk, hf]; exact allTrue_single f
  unfold render
  rw [hk]
  simp only
  rw [hvd]
  have : (decide (v = 0) && f.all id) = false := by rw [decide_eq_false hv]; rfl
  rw [this, if_neg (by decide)]
  by_cases h1 : v = 1
  · rw [if_pos h1, hasMark_text]
  · rw [if_neg h1, hf]
    exact hasMark_perRow f 5 _ _ (marked_last 5) (fun _ _ => rfl)

theorem mark_holm (r : Res) (v : Nat) (hv : v ≠ 0) (hk : r.kind = .holm) (f : List Bool) (hf : r.masks = [f]) :
    hasMark (render r v) = !(verdict r) := by
  have hvd : verdict r = f.all id := by unfold verdict; rw [hk, hf]; exact allTrue_single f
  unfold render
  rw [hk]
  simp only
  rw [hvd, if_neg hv]
  by_cases h1 : v = 1
  · rw [if_pos h1, hasMark_text]
  · rw [if_neg h1, hf]
    exact hasMark_perRow f 6 _ _ (marked_last 6) (fun _ _ => rfl)

theorem mark_byLabels (r : Res) (v : Nat) (hv : v ≠ 0) (hk : r.kind = .byLabels) (f : List Bool) (hf : r.masks = [f]) :
    hasMark (render r v) = !(verdict r) := by
  have hvd : verdict r = f.all id := by unfold verdict; rw [hk, hf]; exact allTrue_single f
  have hmiss : ∀ (b : Bool), hasMark (if b = true then [Out.text false] else []) = false := by
    intro b; cases b <;> rfl
  unfold render
  rw [hk]
  simp only
  rw [hvd]
  have : (decide (v = 0) && f.all id) = false := by rw [decide_eq_false hv]; rfl
  rw [this, if_neg (by decide), hf]
  show hasMark (if v = 1 then (if f.all id = true then [Out.text false] ++ (if r.missing = true then [Out.text false] else [])
      else [perRowTable f (r.nlabels + 2) (fun n o => List.replicate n (!o)) (fun o => !o)] ++ (if r.missing = true then [Out.text false] else []))
    else [perRowTable f (r.nlabels + 2) (fun n o => List.replicate n (!o)) (fun _ => true)] ++ (if r.missing = true then [Out.text false] else []))
    = !(f.all id)
  by_cases h1 : v = 1
  · rw [if_pos h1]
    cases hall : f.all id with
    | true => rw [if_pos rfl, hasMark_append, hmiss]; rfl
    | false =>
      rw [if_neg (by decide), hasMark_append, hmiss, Bool.or_false,
        hasMark_perRow f (r.nlabels + 2) _ _ (marked_all r.nlabels) (fun o ho => by rw [ho]; rfl), hall]
  · rw [if_neg h1, hasMark_append, hmiss, Bool.or_false]
    exact hasMark_perRow f (r.nlabels + 2) _ _ (marked_all r.nlabels) (fun _ _ => rfl)

theorem keyAny (k : List Bool) : (false :: k.map (!·)).any id = !(k.all id) := by
  rw [List.any_cons]
  show (false || (k.map (!·)).any id) = !(k.all id)
  rw [Bool.false_or]
  induction k with
  | nil => rfl
  | cons b bs ih =>
    rw [List.map_cons, List.any_cons, List.all_cons, ih]
    cases b <;> rfl

theorem mark_metadata (r : Res) (v : Nat) (hv : v ≠ 0) (hk : r.kind = .metadata) :
    hasMark (render r v) = !(verdict r) := by
  have hvd : verdict r = allTrue r.masks := by unfold verdict; rw [hk]
  have allRows : ∀ (ms : List (List Bool)) (rows : List Nat), hasMark [Out.table rows (ms.map fun k => false :: k.map (!·))]
      = !(allTrue ms) := by
    intro ms rows
    rw [hasMark_table, List.any_map]
    unfold allTrue
    induction ms with
    | nil => rfl
    | cons k ks ih =>
      rw [List.any_cons, List.all_cons, ih]
      show ((false :: k.map (!·)).any id || !(ks.all fun l => l.all id)) = !(k.all id && ks.all fun l => l.all id)
      rw [keyAny]
      cases k.all id <;> rfl
  unfold render
  rw [hk]
  simp only
  rw [hvd, if_neg hv]
  by_cases h1 : v = 1
  · rw [if_pos h1, hasMark_text]
  · rw [if_neg h1]
    by_cases h2 : v = 2
    · rw [if_pos h2, hasMark_table]
      show ((false || ((!(allTrue r.masks)) || false)) || false) = _
      cases allTrue r.masks <;> rfl
    · rw [if_neg h2]
      by_cases h3 : v = 3
      · rw [if_pos h3]
        generalize hF : ((List.range r.masks.length).filter fun i => !((r.masks.getD i []).all id)) = failing
        cases failing with
        | nil =>
          rw [if_pos (by rfl), hasMark_text]
        | cons i rest =>
          rw [if_neg (by simp)]
          have hi : i ∈ (List.range r.masks.length).filter fun i => !((r.masks.getD i []).all id) := by rw [hF]; simp
          have hmem := List.mem_filter.1 hi
          have hilt := List.mem_range.1 hmem.1
          have hbad : (r.masks.getD i []).all id = false := by
            have := hmem.2
            cases hh : (r.masks.getD i []).all id with
            | false => rfl
            | true => rw [hh] at this; cases this
          have hnot : allTrue r.masks = false := by
            cases hh : allTrue r.masks with
            | false => rfl
            | true =>
              unfold allTrue at hh
              rw [List.all_eq_true] at hh
              have h2 := hh (r.masks[i]) (List.getElem_mem hilt)
              have e : r.masks.getD i [] = r.masks[i] := by
                rw [List.getD_eq_getElem?_getD, List.getElem?_eq_getElem hilt]; rfl
              rw [e, h2] at hbad; cases hbad
          rw [hasMark_table, List.any_map, hnot]
          show _ = true
          rw [List.any_eq_true]
          exact ⟨i, by simp, by show (false :: (r.masks.getD i []).map (!·)).any id = true; rw [keyAny, hbad]; rfl⟩
      · rw [if_neg h3]
        exact allRows r.masks _

theorem mark_stats (r : Res) (v : Nat) (hv : v ≠ 0) (hk : r.kind = .stats) (p : List Bool) (hp : r.masks = [p])
    (hne : p ≠ []) (htail : ∀ b ∈ p.tail, b = false) : hasMark (render r v) = !(verdict r) := by
  have hvd : verdict r = (p == [true]) := by
    unfold verdict; rw [hk, hp]
    show ([p] == [[true]]) = (p == [true])
    cases hh : p == [true] with
    | true => have : p = [true] := by simpa using hh
              subst this; rfl
    | false =>
      have : p ≠ [true] := by simpa using hh
      simp [this]
  unfold render
  rw [hk]
  simp only
  rw [hvd]
  have : (decide (v = 0) && (p == [true])) = false := by rw [decide_eq_false hv]; rfl
  rw [this, if_neg (by decide), hp]
  show hasMark [Out.table (List.range (p.length + 1)) (p.map (fun isOk => [!isOk, !isOk]) ++ [[false, false]]), Out.text false]
    = !(p == [true])
  show ((p.map (fun isOk => [!isOk, !isOk]) ++ [[false, false]]).any (·.any id) || (false || false)) = !(p == [true])
  rw [Bool.or_false, Bool.or_false, List.any_append, List.any_map]
  cases p with
  | nil => exact absurd rfl hne
  | cons b t =>
    cases t with
    | nil => cases b <;> rfl
    | cons c t2 =>
      have hc : c = false := htail c (by simp)
      subst hc
      have e : ((b :: false :: t2) == [true]) = false := by simp
      rw [e]
      simp

/-- **the rendering carries a highlight or a KO mark if and only if the result is false**, for every built-in kind, at
every non-silent verbosity -/
theorem mark_iff_false (r : Res) (v : Nat) (hv : v ≠ 0) (hw : WFRes r) : hasMark (render r v) = !(verdict r) := by
  cases hk : r.kind with
  | failed => unfold render verdict; rw [hk]; rfl
  | equal => exact mark_equal r v hk (hw.lens (Or.inl hk))
  | approx => exact mark_approx r v hv hk (hw.lens (Or.inr (Or.inl hk)))
  | student => exact mark_student r v hv hk (hw.lens (Or.inr (Or.inr hk)))
  | bonf => obtain ⟨f, hf⟩ := hw.single (Or.inl hk); exact mark_bonf r v hv hk f hf
  | holm => obtain ⟨f, hf⟩ := hw.single (Or.inr (Or.inl hk)); exact mark_holm r v hv hk f hf
  | byLabels => obtain ⟨f, hf⟩ := hw.single (Or.inr (Or.inr hk)); exact mark_byLabels r v hv hk f hf
  | metadata => exact mark_metadata r v hv hk
  | stats => obtain ⟨p, hp, hne, htail⟩ := hw.stats hk; exact mark_stats r v hv hk p hp hne htail

/-- the empty statistics result: False, yet nothing to mark (the recorded finding) -/
theorem stats_empty_no_mark (v : Nat) :
    verdict ⟨.stats, [[]], 0, 0, false, 0, false⟩ = false ∧
    hasMark (render ⟨.stats, [[]], 0, 0, false, 0, false⟩ v) = false := by
  refine ⟨by decide, ?_⟩
  unfold render
  simp only
  have : verdict ⟨.stats, [[]], 0, 0, false, 0, false⟩ = false := by decide
  rw [this, Bool.and_false, if_neg (by decide)]
  rfl

end Table

namespace Table

/-- **the rows of the Student table at the default / intermediate verbosity are exactly the failing bins** -/
theorem student_rows_eq_failing (r : Res) (v : Nat) (hk : r.kind = .student) (hv : v = 2 ∨ v = 3)
    (hbad : verdict r = false) (hns : r.scalar = false) :
    render r v = [fullTable (r.nb + 2) 3 r (failingRows r)] ∧
    ∀ i, i ∈ failingRows r ↔ (i < r.nbins ∧ ∃ m ∈ r.masks, m.getD i true = false) := by
  have hvd : allTrue r.masks = false := by
    have : verdict r = allTrue r.masks := by unfold verdict; rw [hk]
    rw [← this]; exact hbad
  constructor
  · unfold render
    rw [hk]
    simp only
    have e : verdict r = false := hbad
    rw [e]
    rcases hv with hv | hv <;> subst hv <;> simp [hns]
  · intro i
    unfold failingRows
    rw [List.mem_filter, List.mem_range, List.any_eq_true]
    constructor
    · rintro ⟨h1, m, hm, hf⟩
      refine ⟨h1, m, hm, ?_⟩
      cases hh : m.getD i true with
      | false => rfl
      | true => rw [hh] at hf; cases hf
    · rintro ⟨h1, m, hm, hf⟩
      exact ⟨h1, m, hm, by rw [hf]; rfl⟩

/-- **in a detailed table the highlighted cells are exactly the failing bins**: in the row of bin `i` the first `pre`
columns (labels, reference) are never highlighted, and the verdict column of compared dataset `d` is highlighted iff
that bin failed for that dataset -/
theorem fullTable_marks_failing (pre gap : Nat) (masks : List (List Bool)) (i d : Nat) (hd : d < masks.length) :
    (rowFlags pre gap masks i)[pre + d * (gap + 1) + gap]? = some (!((masks[d]).getD i true)) ∧
    ∀ j, j < pre → (rowFlags pre gap masks i)[j]? = some false := by
  unfold rowFlags
  constructor
  · rw [List.getElem?_append_right (by rw [List.length_replicate]; omega)]
    rw [List.length_replicate]
    have : pre + d * (gap + 1) + gap - pre = d * (gap + 1) + gap := by omega
    rw [this]
    clear this
    induction masks generalizing d with
    | nil => cases hd
    | cons m ms ih =>
      rw [List.flatMap_cons]
      cases d with
      | zero =>
        rw [Nat.zero_mul, Nat.zero_add, List.getElem?_append_left (by simp)]
        rw [List.getElem?_append_right (by simp)]
        simp
      | succ d =>
        have hlen : (List.replicate gap false ++ [!(m.getD i true)]).length = gap + 1 := by simp
        have e : (d + 1) * (gap + 1) + gap = (gap + 1) + (d * (gap + 1) + gap) := by ring
        rw [e, List.getElem?_append_right (by rw [hlen]; omega), hlen, Nat.add_sub_cancel_left]
        have := ih d (by simpa using hd)
        simpa using this
  · intro j hj
    rw [List.getElem?_append_left (by rw [List.length_replicate]; exact hj)]
    simp [hj]

/-- non-vacuity: a Student result with one failing bin out of three, two compared datasets -/
example : WFRes ⟨.student, [[true, false, true], [true, true, true]], 3, 1, false, 0, false⟩ ∧
    render ⟨.student, [[true, false, true], [true, true, true]], 3, 1, false, 0, false⟩ 2
      = [.table [1] [[false, false, false, false, false, false, true, false, false, false, false]]] := by
  refine ⟨⟨?_, ?_, ?_⟩, by decide⟩
  · intro _ m hm
    simp at hm
    rcases hm with hm | hm <;> subst hm <;> rfl
  · intro h; cases h
  · intro h; rcases h with h | h | h <;> cases h

end Table
