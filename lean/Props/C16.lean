import Proofs.DepGraph
import Proofs.DepGraphMerge
import Proofs.DepGraphTopo
import Proofs.DepGraphInvert
import Proofs.DepGraphQueries
import Proofs.DepGraphGraft
import Proofs.GraftOrder
import Proofs.DepGraphClosure
import Proofs.DepGraphEqv
import Proofs.DepGraphDepsRec
import Proofs.DepGraphDependsRec
import Proofs.DepGraphDepsRecTotal
import Proofs.FlattenDepthOne
import Proofs.FlattenRanked
import Proofs.FlattenOrder
import Proofs.DepGraphTopoComplete
/-!
# C16 — the dependency graph mirrors a plain node/edge set under any edit history

Model: `Model/DepGraph.lean` (RList with its inverted index; DepGraph with positional edge dictionary,
swap-with-last node removal).  Abstract spec: a set of nodes and a set of edges (predicates).

Tier 1 (proved here, for every history): the RList index invariant is preserved by every RList operation
(`rlist_*_inv`), `get_index` is correct (`rlist_getIndex_spec`), and the four editing operations refine the
spec (`addNode_refines`, `addDep_refines`, `removeDep_refines`, `removeNode_refines`), hence every history does
(`history_refines`), with `dependencies` read through the abstraction (`dependencies_spec`).
`merge`, `copy`, `+` and `invert` refine the spec too (`multi_history_refines`: histories over any number of graph variables),
and the topological sort is proved sound and total on every such graph (`topo_history`: returns exactly on acyclic
graphs, every node once after all its dependencies, `cyclic` otherwise).
`graft` refines its set-level counterpart (`graft_refines_spec`) and preserves the ordering constraints between
the plain nodes (`graft_preserves_order`); transitive closure and reduction are proved on acyclic graphs (`closure_spec`, `reduction_spec`: same reachability,
most / fewest edges).  `grafts_preserve_order` extends this to any sequence of grafts and `flatten_round_eq` shows that one round of the model's
`flatten` is such a sequence.  Recursive `dependencies` is `dependencies_rec_returns` (total: it always returns, cycles included, with exactly the
reachable nodes; `dependencies_rec_reads` is the partial-correctness half), recursive `depends` is `depends_rec_reads`
(total: it always answers, cycles included), `<=` is `le_reads`, `==` is `eq_reads`.
`flatten(recurse=True)` returns on every well-founded nesting (`flatten_returns`, `flatten_all_plain`), and on every
well-founded tree-like nesting of acyclic graphs what it returns preserves the ordering constraints across all levels
(`flatten_order_preserved`: between the plain nodes of the graph; `flatten_order_all_plain`: between all plain nodes of the
nesting, `Proofs/FlattenOrder.lean`); nestings in which one graph object stands at several places are in the executable
model and tied to the code by the correspondence
(`multi_history_refines` is therefore the `…_partial` form of the property's first sentence: histories whose grafts are
taken one at a time through `graft_refines_spec`).  `c16_pinned_refuted` keeps the pinned `graft` (A19) refuted.
-/
namespace DG

/-! ### RList: the index lists exactly the positions of each key, after every operation -/

theorem rlist_append_inv {r : RList} (h : RInv r) (x : Nat) : RInv (r.append x) := h.append x

theorem rlist_setItem_inv {r : RList} (h : RInv r) (i v : Nat) (hi : i < r.seq.length) :
    ∃ r', r.setItem i v = .ok r' ∧ r'.seq = r.seq.set i v ∧ RInv r' := RList.setItem_ok h i v hi

theorem rlist_delItem_inv {r : RList} (h : RInv r) (i : Nat) (hi : i < r.seq.length) :
    ∃ r', r.delItem i = .ok r' ∧ r'.seq = r.seq.eraseIdx i ∧ RInv r' := RList.delItem_ok h i hi

theorem rlist_insert_inv {r : RList} (h : RInv r) (i v : Nat) :
    RInv (r.insert i v) ∧ (r.insert i v).seq = r.seq.insertIdx (min r.seq.length i) v := RList.insert_inv h i v

theorem rlist_swap_inv {r : RList} (h : RInv r) (i j : Nat) (hi : i < r.seq.length) (hj : j < r.seq.length) :
    ∃ r', r.swap i j = .ok r' ∧ r'.seq = (r.seq.set i r.seq[j]).set j r.seq[i] ∧ RInv r' := RList.swap_ok h i j hi hj

/-- every RList built by the constructor satisfies the invariant and holds the given sequence -/
theorem rlist_ofList_inv (l : List Nat) : RInv (RList.ofList l) ∧ (RList.ofList l).seq = l :=
  ⟨RInv.ofList l, RList.seq_ofList l⟩

example : RInv (RList.ofList [3, 1, 3, 2]) := RInv.ofList _

/-! ### Edit histories refine the node/edge-set spec -/

inductive Op where
  | addNode (x : Nat) | removeNode (x : Nat) | addDep (x y : Nat) | removeDep (x y : Nat)

/-- one public editing call; a Python exception leaves the graph as it was -/
def step (g : G) : Op → G × Option Err
  | .addNode x => (g.addNode x, none)
  | .removeNode x => match g.removeNode x with | .ok g' => (g', none) | .error e => (g, some e)
  | .addDep x y => match g.addDep x y with | .ok g' => (g', none) | .error e => (g, some e)
  | .removeDep x y => match g.removeDep x y with | .ok g' => (g', none) | .error e => (g, some e)

structure Spec where
  N : Nat → Prop
  E : Nat → Nat → Prop

def Spec.empty : Spec := ⟨fun _ => False, fun _ _ => False⟩

/-- the mathematical graph after one editing call, and the exception the call must raise -/
def specStep (s : Spec) : Op → Spec × (Option Err → Prop)
  | .addNode x => (⟨fun z => s.N z ∨ z = x, s.E⟩, fun e => e = none)
  | .removeNode x => (⟨fun z => s.N z ∧ z ≠ x, fun u w => s.E u w ∧ u ≠ x ∧ w ≠ x⟩, fun e => e = none)
  | .addDep x y => (⟨fun z => s.N z ∨ z = x ∨ z = y, fun u w => s.E u w ∨ (u = x ∧ w = y)⟩, fun e => e = none)
  | .removeDep x y => (⟨s.N, fun u w => s.E u w ∧ ¬ (u = x ∧ w = y)⟩,
      fun e => (¬ (s.N x ∧ s.N y) → e = some .valueError) ∧ (s.N x → s.N y → ¬ s.E x y → e = some .keyError) ∧
               (s.E x y → e = none))

def Refines (g : G) (s : Spec) : Prop :=
  GInv g ∧ (∀ z, g.Node z ↔ s.N z) ∧ (∀ u w, g.Edge u w ↔ s.E u w)

theorem step_refines {g : G} {s : Spec} (h : Refines g s) (op : Op) :
    Refines (step g op).1 (specStep s op).1 ∧ (specStep s op).2 (step g op).2 := by
  obtain ⟨hg, hn, he⟩ := h
  cases op with
  | addNode x =>
    obtain ⟨h1, n1, e1⟩ := addNode_refines hg x
    refine ⟨⟨h1, ?_, ?_⟩, rfl⟩
    · intro z; simp only [step, specStep]; rw [n1, hn]
    · intro u w; simp only [step, specStep]; rw [e1, he]
  | removeNode x =>
    obtain ⟨g', hr, h1, n1, e1⟩ := removeNode_refines hg x
    simp only [step, specStep, hr]
    refine ⟨⟨h1, ?_, ?_⟩, by trivial⟩
    · intro z; rw [n1, hn]
    · intro u w; rw [e1, he]
  | addDep x y =>
    obtain ⟨g', hr, h1, n1, e1⟩ := addDep_refines hg x y
    simp only [step, specStep, hr]
    refine ⟨⟨h1, ?_, ?_⟩, by trivial⟩
    · intro z; rw [n1, hn]
    · intro u w; rw [e1, he]
  | removeDep x y =>
    obtain ⟨r1, r2, r3⟩ := removeDep_refines hg x y
    by_cases hE : g.Edge x y
    · obtain ⟨g', hr, h1, n1, e1⟩ := r3 hE
      simp only [step, specStep, hr]
      refine ⟨⟨h1, ?_, ?_⟩, ?_, ?_, ?_⟩
      · intro z; rw [n1, hn]
      · intro u w; rw [e1, he]
      · intro hnn; exfalso; apply hnn
        obtain ⟨a, b, _, ha, hb, _⟩ := hE
        exact ⟨(hn x).1 (List.mem_of_getElem? ha), (hn y).1 (List.mem_of_getElem? hb)⟩
      · intro _ _ hne; exact absurd ((he x y).1 hE) hne
      · intro _; first | rfl | trivial
    · have same : ∀ u w, g.Edge u w ↔ (s.E u w ∧ ¬ (u = x ∧ w = y)) := by
        intro u w; rw [← he]; constructor
        · intro h; exact ⟨h, fun ⟨a, b⟩ => hE (a ▸ b ▸ h)⟩
        · exact fun h => h.1
      by_cases hN : g.Node x ∧ g.Node y
      · have hr := r2 hN.1 hN.2 hE
        simp only [step, specStep, hr]
        refine ⟨⟨hg, hn, same⟩, ?_, ?_, ?_⟩
        · intro hnn; exact absurd ⟨(hn x).1 hN.1, (hn y).1 hN.2⟩ hnn
        · intro _ _ _; first | rfl | trivial
        · intro hs; exact absurd ((he x y).2 hs) hE
      · have hr := r1 hN
        simp only [step, specStep, hr]
        refine ⟨⟨hg, hn, same⟩, ?_, ?_, ?_⟩
        · intro _; first | rfl | trivial
        · intro hx hy _; exact absurd ⟨(hn x).2 hx, (hn y).2 hy⟩ hN
        · intro hs; exact absurd ((he x y).2 hs) hE

def run (g : G) (ops : List Op) : G := ops.foldl (fun g op => (step g op).1) g
def specRun (s : Spec) (ops : List Op) : Spec := ops.foldl (fun s op => (specStep s op).1) s

theorem run_refines {g : G} {s : Spec} (h : Refines g s) (ops : List Op) : Refines (run g ops) (specRun s ops) := by
  induction ops generalizing g s with
  | nil => exact h
  | cons op ops ih => exact ih (step_refines h op).1

/-- **After any sequence of node and edge insertions and removals starting from the empty graph, the
dependency graph denotes exactly the nodes and edges of the mathematical graph** (and keeps its
representation invariant), and each call raises exactly the exception the mathematical graph prescribes. -/
theorem history_refines (ops : List Op) : Refines (run G.empty ops) (specRun Spec.empty ops) :=
  run_refines ⟨GInv.empty, by simp [G.Node, G.empty, RList.empty, Spec.empty],
    by intro u w; simp [G.Edge, G.empty, RList.empty, Spec.empty]⟩ ops

theorem history_errors (ops : List Op) (op : Op) :
    (specStep (specRun Spec.empty ops) op).2 (step (run G.empty ops) op).2 :=
  (step_refines (history_refines ops) op).2

/-- non-vacuity: a concrete history with a removal in the middle of the node list (swap with last) -/
example : (run G.empty [.addDep 1 2, .addDep 2 3, .addDep 1 3, .removeNode 2]).edgePairs = [(1, 3)] := by decide

/-! ### Histories over several graphs: edits, copies, merges, sums, inversions -/

/-- the public calls on a family of graph variables `g 0, g 1, …` (all empty at the start) -/
inductive MOp where
  | edit (i : Nat) (op : Op)          -- one editing call on g_i
  | copy (dst src : Nat)              -- g_dst = g_src.copy()
  | merge (dst src : Nat)             -- g_dst.merge(g_src)   (in place)
  | plus (dst a b : Nat)              -- g_dst = g_a + g_b
  | invert (dst src : Nat)            -- g_dst = g_src.invert()

def supd {α : Type} (f : Nat → α) (i : Nat) (v : α) : Nat → α := fun j => if j = i then v else f j

def mstep (st : Nat → G) : MOp → (Nat → G)
  | .edit i op => supd st i (step (st i) op).1
  | .copy d s => supd st d (st s).copy
  | .merge d s => match (st d).merge (st s) with | .ok g' => supd st d g' | .error _ => st
  | .plus d a b => match (st a).copy.merge (st b) with | .ok g' => supd st d g' | .error _ => st
  | .invert d s => supd st d (st s).invert

def Spec.union (s t : Spec) : Spec := ⟨fun z => s.N z ∨ t.N z, fun u w => s.E u w ∨ t.E u w⟩

def Spec.reverse (s : Spec) : Spec := ⟨s.N, fun u w => s.E w u⟩

def mspecStep (sp : Nat → Spec) : MOp → (Nat → Spec)
  | .edit i op => supd sp i (specStep (sp i) op).1
  | .copy d s => supd sp d (sp s)
  | .merge d s => supd sp d ((sp d).union (sp s))
  | .plus d a b => supd sp d ((sp a).union (sp b))
  | .invert d s => supd sp d (sp s).reverse

theorem merge_refines_spec {g h : G} {s t : Spec} (hg : Refines g s) (hh : Refines h t) :
    ∃ g', g.merge h = .ok g' ∧ Refines g' (s.union t) := by
  obtain ⟨g', hm, hi, hn, he⟩ := merge_refines hg.1 hh.1
  refine ⟨g', hm, hi, ?_, ?_⟩
  · intro z; rw [hn z, hg.2.1 z, hh.2.1 z]; rfl
  · intro u w; rw [he u w, hg.2.2 u w, hh.2.2 u w]; rfl

theorem copy_refines_spec {g : G} {s : Spec} (hg : Refines g s) : Refines g.copy s := by
  obtain ⟨hi, hn, he⟩ := copy_refines hg.1
  exact ⟨hi, fun z => by rw [hn z, hg.2.1 z], fun u w => by rw [he u w, hg.2.2 u w]⟩

theorem invert_refines_spec {g : G} {s : Spec} (hg : Refines g s) : Refines g.invert s.reverse := by
  obtain ⟨hi, hn, he⟩ := invert_refines hg.1
  exact ⟨hi, fun z => by rw [hn z, hg.2.1 z]; rfl, fun u w => by rw [he u w, hg.2.2 w u]; rfl⟩

theorem supd_same {α : Type} (f : Nat → α) (i : Nat) (v : α) : supd f i v i = v := by simp [supd]
theorem supd_other {α : Type} (f : Nat → α) (i j : Nat) (v : α) (h : j ≠ i) : supd f i v j = f j := by simp [supd, h]

theorem mstep_refines {st : Nat → G} {sp : Nat → Spec} (h : ∀ i, Refines (st i) (sp i)) (op : MOp) :
    ∀ i, Refines (mstep st op i) (mspecStep sp op i) := by
  intro i
  cases op with
  | edit j o =>
    simp only [mstep, mspecStep]
    by_cases e : i = j
    · subst e; rw [supd_same, supd_same]; exact (step_refines (h i) o).1
    · rw [supd_other _ _ _ _ e, supd_other _ _ _ _ e]; exact h i
  | copy d s =>
    simp only [mstep, mspecStep]
    by_cases e : i = d
    · subst e; rw [supd_same, supd_same]; exact copy_refines_spec (h s)
    · rw [supd_other _ _ _ _ e, supd_other _ _ _ _ e]; exact h i
  | invert d s =>
    simp only [mstep, mspecStep]
    by_cases e : i = d
    · subst e; rw [supd_same, supd_same]; exact invert_refines_spec (h s)
    · rw [supd_other _ _ _ _ e, supd_other _ _ _ _ e]; exact h i
  | merge d s =>
    obtain ⟨g', hm, hr⟩ := merge_refines_spec (h d) (h s)
    simp only [mstep, mspecStep]
    rw [hm]
    simp only []
    by_cases e : i = d
    · subst e; rw [supd_same, supd_same]; exact hr
    · rw [supd_other _ _ _ _ e, supd_other _ _ _ _ e]; exact h i
  | plus d a b =>
    obtain ⟨g', hm, hr⟩ := merge_refines_spec (copy_refines_spec (h a)) (h b)
    simp only [mstep, mspecStep]
    rw [hm]
    simp only []
    by_cases e : i = d
    · subst e; rw [supd_same, supd_same]; exact hr
    · rw [supd_other _ _ _ _ e, supd_other _ _ _ _ e]; exact h i

/-- **After any sequence of edits, copies, merges and sums over any number of graphs, every graph denotes exactly the
nodes and edges of the corresponding mathematical graph** — in particular a copy, and a graph derived with `+`, is not
affected by what happens to the graphs it came from afterwards (its specification only changes with its own calls). -/
theorem multi_history_refines (ops : List MOp) :
    ∀ i, Refines (ops.foldl mstep (fun _ => G.empty) i) (ops.foldl mspecStep (fun _ => Spec.empty) i) := by
  have base : ∀ i : Nat, Refines ((fun _ => G.empty) i) ((fun _ => Spec.empty) i) := by
    intro i
    show Refines G.empty Spec.empty
    exact ⟨GInv.empty, by simp [G.Node, G.empty, RList.empty, Spec.empty],
      by intro u w; simp [G.Edge, G.empty, RList.empty, Spec.empty]⟩
  have gen : ∀ (ops : List MOp) (st : Nat → G) (sp : Nat → Spec), (∀ i, Refines (st i) (sp i)) →
      ∀ i, Refines (ops.foldl mstep st i) (ops.foldl mspecStep sp i) := by
    intro ops
    induction ops with
    | nil => intro st sp h; exact h
    | cons op rest ih => intro st sp h; exact ih _ _ (mstep_refines h op)
  exact gen ops _ _ base

/-! ### Topological sort (second sentence)

For every graph reachable by a history over any number of graph variables (`multi_history_refines`): the sort returns
exactly when the mathematical graph is acyclic; what it returns lists every node once, each after all its dependencies;
on a cycle it fails with `cyclic` and with nothing else (the model's recursion budget `size + 1` is never exhausted). -/

def Spec.Cyclic (s : Spec) : Prop := ∃ x, Relation.TransGen s.E x x

theorem cyclic_iff {g : G} {s : Spec} (h : Refines g s) : g.Cyclic ↔ s.Cyclic := by
  have : g.Edge = s.E := by funext u w; exact propext (h.2.2 u w)
  unfold G.Cyclic Spec.Cyclic
  rw [this]

/-- what a returned sort satisfies -/
theorem topo_sound {g : G} {s : Spec} (h : Refines g s) {l : List Nat} (hs : g.topologicalSort = .ok l) :
    l.Nodup ∧ (∀ x, x ∈ l ↔ s.N x) ∧ ∀ x y, s.E x y → Before l y x := by
  obtain ⟨hnd, hn, he⟩ := topologicalSort_sound h.1 hs
  exact ⟨hnd, fun x => (hn x).trans (h.2.1 x), fun x y hxy => he x y ((h.2.2 x y).2 hxy)⟩

/-- acyclic: the sort returns -/
theorem topo_acyclic {g : G} {s : Spec} (h : Refines g s) (hac : ¬ s.Cyclic) : ∃ l, g.topologicalSort = .ok l :=
  topologicalSort_acyclic h.1 (fun hc => hac ((cyclic_iff h).1 hc))

/-- cyclic: the sort raises the cycle error -/
theorem topo_cyclic {g : G} {s : Spec} (h : Refines g s) (hc : s.Cyclic) : g.topologicalSort = .error .cyclic :=
  topologicalSort_cyclic h.1 ((cyclic_iff h).2 hc)

/-- the three together, on the graphs of any multi-graph edit history -/
theorem topo_history (ops : List MOp) (i : Nat) :
    let g := ops.foldl mstep (fun _ => G.empty) i
    let s := ops.foldl mspecStep (fun _ => Spec.empty) i
    (¬ s.Cyclic → ∃ l, g.topologicalSort = .ok l) ∧ (s.Cyclic → g.topologicalSort = .error .cyclic) ∧
    ∀ l, g.topologicalSort = .ok l → l.Nodup ∧ (∀ x, x ∈ l ↔ s.N x) ∧ ∀ x y, s.E x y → Before l y x := by
  intro g s
  have h := multi_history_refines ops i
  exact ⟨topo_acyclic h, topo_cyclic h, fun l hl => topo_sound h hl⟩

-- evaluated tests (compiled code, not kernel proofs: the mutual recursion is by well-founded recursion)
#guard decide ((run G.empty [.addDep 1 2, .addDep 2 3, .addDep 4 3, .removeNode 2, .addDep 3 1]).topologicalSort
    = .ok [1, 3, 4])
#guard decide ((run G.empty [.addDep 1 2, .addDep 2 3, .addDep 3 1]).topologicalSort = .error .cyclic)

/-! ### Queries and `graft` read through the abstraction -/

/-- `dependees(x)`: exactly the nodes that depend on `x` -/
theorem dependees_reads {g : G} {s : Spec} (h : Refines g s) (x : Nat) (hx : s.N x) :
    ∃ l, g.dependees x = .ok l ∧ ∀ y, y ∈ l ↔ s.E y x := by
  obtain ⟨l, hl, hm⟩ := (dependees_spec h.1 x).2 ((h.2.1 x).2 hx)
  exact ⟨l, hl, fun y => (hm y).trans (h.2.2 y x)⟩

/-- `initial()` / `terminal()`: exactly the nodes nobody depends on / that depend on nothing -/
theorem initial_terminal_spec {g : G} {s : Spec} (h : Refines g s) :
    (∃ l, g.initial = .ok l ∧ ∀ y, y ∈ l ↔ s.N y ∧ ¬ ∃ u, s.E u y) ∧
    (∃ l, g.terminal = .ok l ∧ ∀ y, y ∈ l ↔ s.N y ∧ ¬ ∃ w, s.E y w) := by
  obtain ⟨l1, h1, m1⟩ := initial_spec h.1
  obtain ⟨l2, h2, m2⟩ := terminal_spec h.1
  refine ⟨⟨l1, h1, fun y => ?_⟩, ⟨l2, h2, fun y => ?_⟩⟩
  · rw [m1 y, h.2.1 y]
    constructor
    · rintro ⟨a, b⟩; exact ⟨a, fun ⟨u, hu⟩ => b ⟨u, (h.2.2 u y).2 hu⟩⟩
    · rintro ⟨a, b⟩; exact ⟨a, fun ⟨u, hu⟩ => b ⟨u, (h.2.2 u y).1 hu⟩⟩
  · rw [m2 y, h.2.1 y]
    constructor
    · rintro ⟨a, b⟩; exact ⟨a, fun ⟨w, hw⟩ => b ⟨w, (h.2.2 y w).2 hw⟩⟩
    · rintro ⟨a, b⟩; exact ⟨a, fun ⟨w, hw⟩ => b ⟨w, (h.2.2 y w).1 hw⟩⟩

/-- `g <= h` is true exactly when the mathematical graph of `g` is a sub-graph of that of `h` -/
theorem le_reads {g h : G} {s t : Spec} (hg : Refines g s) (hh : Refines h t) :
    ∃ b, g.le h = .ok b ∧ (b = true ↔ (∀ z, s.N z → t.N z) ∧ ∀ u w, s.E u w → t.E u w) := by
  obtain ⟨b, hb, hiff⟩ := le_spec hg.1 hh.1
  refine ⟨b, hb, hiff.trans ?_⟩
  constructor
  · rintro ⟨h1, h2⟩
    exact ⟨fun z hz => (hh.2.1 z).1 (h1 z ((hg.2.1 z).2 hz)), fun u w e => (hh.2.2 u w).1 (h2 u w ((hg.2.2 u w).2 e))⟩
  · rintro ⟨h1, h2⟩
    exact ⟨fun z hz => (hh.2.1 z).2 (h1 z ((hg.2.1 z).1 hz)), fun u w e => (hh.2.2 u w).2 (h2 u w ((hg.2.2 u w).1 e))⟩

/-- `g == h` is true exactly when the two graphs denote the same mathematical graph -/
theorem eq_reads {g h : G} {s t : Spec} (hg : Refines g s) (hh : Refines h t) :
    ∃ b, g.eqv h = .ok b ∧ (b = true ↔ (∀ z, s.N z ↔ t.N z) ∧ ∀ u w, s.E u w ↔ t.E u w) := by
  obtain ⟨b, hb, hiff⟩ := eqv_spec hg.1 hh.1
  refine ⟨b, hb, hiff.trans ?_⟩
  constructor
  · rintro ⟨h1, h2⟩
    exact ⟨fun z => ((hg.2.1 z).symm.trans (h1 z)).trans (hh.2.1 z),
      fun u w => ((hg.2.2 u w).symm.trans (h2 u w)).trans (hh.2.2 u w)⟩
  · rintro ⟨h1, h2⟩
    exact ⟨fun z => ((hg.2.1 z).trans (h1 z)).trans (hh.2.1 z).symm,
      fun u w => ((hg.2.2 u w).trans (h2 u w)).trans (hh.2.2 u w).symm⟩

/-- `dependencies(x, recurse=True)`: when it returns, exactly the nodes that `x` depends on directly or indirectly
(partial correctness: the Python loop has no budget; see `Model/DepGraph.lean`, `depsLoop`) -/
theorem dependencies_rec_reads {g : G} {s : Spec} (h : Refines g s) {x : Nat} (hx : s.N x) {l : List Nat}
    (hl : g.dependenciesRec x = .ok l) : ∀ y, y ∈ l ↔ Relation.TransGen s.E x y := by
  have eE : g.Edge = s.E := by funext u w; exact propext (h.2.2 u w)
  intro y
  rw [dependenciesRec_spec h.1 ((h.2.1 x).2 hx) hl y, eE]

/-- **`dependencies(x, recurse=True)` always returns, with the truth**: on every graph a history can build — cyclic
ones included — the work-list loop comes to an end and hands back exactly the nodes `x` depends on directly or
indirectly.  (The loop pops from the end of a list that may hold a position several times and processes a position
again when it is popped again; that it ends all the same is the stack argument of `Proofs/DepGraphDepsRecTotal.lean`:
a second copy of a position is only reached after all its successors have been seen, so it pushes nothing, and
`size * size + size + 1` rounds are never exhausted.) -/
theorem dependencies_rec_returns {g : G} {s : Spec} (h : Refines g s) {x : Nat} (hx : s.N x) :
    ∃ l, g.dependenciesRec x = .ok l ∧ ∀ y, y ∈ l ↔ Relation.TransGen s.E x y := by
  have eE : g.Edge = s.E := by funext u w; exact propext (h.2.2 u w)
  obtain ⟨l, hl, hspec⟩ := dependenciesRec_total h.1 ((h.2.1 x).2 hx)
  exact ⟨l, hl, by rw [← eE]; exact hspec⟩

/-- **`depends(x, y, recurse=True)` always answers, with the truth**: on every graph a history can build — cyclic ones
included — the search returns, and returns `True` exactly when `x` depends on `y` directly or indirectly.  (The pinned
loop had no `seen` set and never returned on a cycle that does not lead to `y`: defect A32; the totality half of this
theorem is the termination argument of the repaired loop, `size + 1` waves.) -/
theorem depends_rec_reads {g : G} {s : Spec} (h : Refines g s) {x y : Nat} (hx : s.N x) (hy : s.N y) :
    ∃ b, g.dependsRec x y = .ok b ∧ (b = true ↔ Relation.TransGen s.E x y) := by
  have eE : g.Edge = s.E := by funext u w; exact propext (h.2.2 u w)
  obtain ⟨b, hb, hspec⟩ := dependsRec_spec h.1 ((h.2.1 x).2 hx) ((h.2.1 y).2 hy)
  exact ⟨b, hb, by rw [hspec, eE]⟩

/-- the mathematical graph after grafting the graph `t` in place of the node `x` of `s` -/
def Spec.graft (s t : Spec) (x : Nat) : Spec :=
  let term := fun u => t.N u ∧ ¬ ∃ w, t.E u w
  let init := fun w => t.N w ∧ ¬ ∃ u, t.E u w
  -- an edge from `x` to itself disappears with it
  let added := fun u w => (term u ∧ s.E x w ∧ w ≠ x) ∨ ((s.E u x ∧ u ≠ x) ∧ init w) ∨
    ((∀ z, ¬ t.N z) ∧ (s.E u x ∧ u ≠ x) ∧ s.E x w ∧ w ≠ x)
  ⟨fun z => (s.N z ∧ z ≠ x) ∨ t.N z ∨ ∃ w, added z w ∨ added w z,
   fun u w => (s.E u w ∧ u ≠ x ∧ w ≠ x) ∨ t.E u w ∨ added u w⟩

/-- **`graft` refines the set-level graft**: the node is replaced by the nested graph, its dependees depend on the
initial nodes of the nested graph, the terminal nodes of the nested graph depend on its dependencies, and an empty
nested graph lets the constraints through -/
theorem graft_refines_spec {g sub : G} {s t : Spec} (hg : Refines g s) (hs : Refines sub t) {x : Nat} (hx : s.N x) :
    ∃ g', g.graft x sub = .ok g' ∧ Refines g' (s.graft t x) := by
  obtain ⟨g', hgr, hi, hn, he⟩ := graft_refines hg.1 hs.1 ((hg.2.1 x).2 hx)
  have eE : g.Edge = s.E := by funext u w; exact propext (hg.2.2 u w)
  have eN : g.Node = s.N := by funext z; exact propext (hg.2.1 z)
  have tE : sub.Edge = t.E := by funext u w; exact propext (hs.2.2 u w)
  have tN : sub.Node = t.N := by funext z; exact propext (hs.2.1 z)
  refine ⟨g', hgr, hi, ?_, ?_⟩
  · intro z
    rw [hn z]
    unfold Added G.Terminal G.Initial Spec.graft
    simp only [eE, eN, tE, tN]
  · intro u w
    rw [he u w]
    unfold Added G.Terminal G.Initial Spec.graft
    simp only [eE, eN, tE, tN]

/-- **grafting preserves the ordering constraints between the plain nodes**: when the nested graph is acyclic and
shares no node with the outer graph, a plain node has to come after another one in the grafted graph exactly when it
had to before (this is one round of `flatten`). -/
theorem graft_preserves_order {g sub : G} {s t : Spec} (hg : Refines g s) (hs : Refines sub t) {x : Nat} (hx : s.N x)
    (hdisj : ∀ z, t.N z → ¬ s.N z) (hxx : ¬ s.E x x) (hac : ¬ t.Cyclic) :
    ∃ g', g.graft x sub = .ok g' ∧ Refines g' (s.graft t x) ∧
      ∀ u w, s.N u → u ≠ x → s.N w → w ≠ x →
        (Relation.TransGen g'.Edge u w ↔ Relation.TransGen s.E u w) := by
  obtain ⟨g', hgr, hr⟩ := graft_refines_spec hg hs hx
  refine ⟨g', hgr, hr, ?_⟩
  have eE' : g'.Edge = graftE s.E t.N t.E x := by
    funext u w
    refine propext ((hr.2.2 u w).trans ?_)
    have hw : ∀ w', s.E x w' → w' ≠ x := fun w' h e => hxx (e ▸ h)
    have hu : ∀ u', s.E u' x → u' ≠ x := fun u' h e => hxx (e ▸ h)
    unfold Spec.graft graftE
    simp only
    constructor
    · rintro (h | h | ⟨h1, h2, _⟩ | ⟨⟨h1, _⟩, h2⟩ | ⟨h0, ⟨h1, _⟩, h2, _⟩)
      · exact Or.inl h
      · exact Or.inr (Or.inl h)
      · exact Or.inr (Or.inr (Or.inl ⟨h1, h2⟩))
      · exact Or.inr (Or.inr (Or.inr (Or.inl ⟨h1, h2⟩)))
      · exact Or.inr (Or.inr (Or.inr (Or.inr ⟨h0, h1, h2⟩)))
    · rintro (h | h | ⟨h1, h2⟩ | ⟨h1, h2⟩ | ⟨h0, h1, h2⟩)
      · exact Or.inl h
      · exact Or.inr (Or.inl h)
      · exact Or.inr (Or.inr (Or.inl ⟨h1, h2, hw w h2⟩))
      · exact Or.inr (Or.inr (Or.inr (Or.inl ⟨⟨h1, hu u h1⟩, h2⟩)))
      · exact Or.inr (Or.inr (Or.inr (Or.inr ⟨h0, ⟨h1, hu u h1⟩, h2, hw w h2⟩)))
  have hEs : ∀ u w, s.E u w → s.N u ∧ s.N w := by
    intro u w h
    have := edge_nodes ((hg.2.2 u w).2 h)
    exact ⟨(hg.2.1 u).1 this.1, (hg.2.1 w).1 this.2⟩
  have hEt : ∀ u w, t.E u w → t.N u ∧ t.N w := by
    intro u w h
    have := edge_nodes ((hs.2.2 u w).2 h)
    exact ⟨(hs.2.1 u).1 this.1, (hs.2.1 w).1 this.2⟩
  obtain ⟨l, hl⟩ := topo_acyclic hs hac
  obtain ⟨lnd, lmem, lord⟩ := topo_sound hs hl
  intro u w hu hux hw hwx
  rw [eE']
  constructor
  · exact graft_order_sound hEs hEt hdisj hxx hu hux hw
  · exact graft_order_complete hxx (exists_init_term l lnd lmem hEt lord) hux hwx

/-- the hypotheses of `graft_preserves_order` for a sequence of grafts, each stated on the graph as it is when its turn
comes -/
def StepsOK : Spec → List (Nat × G) → Prop
  | _, [] => True
  | s, (x, sub) :: rest =>
    ∃ t, Refines sub t ∧ s.N x ∧ (∀ z, t.N z → ¬ s.N z) ∧ ¬ s.E x x ∧ ¬ t.Cyclic ∧ StepsOK (s.graft t x) rest

/-- **a round of `flatten` (any sequence of grafts) preserves the ordering constraints between the plain nodes**: the
nodes that are there at the start and are not themselves replaced have to come one after the other in the result
exactly when they had to at the start -/
theorem grafts_preserve_order (steps : List (Nat × G)) : ∀ {g : G} {s : Spec}, Refines g s → StepsOK s steps →
    ∃ g' s', steps.foldlM (fun g p => g.graft p.1 p.2) g = .ok g' ∧ Refines g' s' ∧
      ∀ u w, s.N u → u ∉ steps.map (·.1) → s.N w → w ∉ steps.map (·.1) →
        (s'.N u ∧ s'.N w ∧ (Relation.TransGen s'.E u w ↔ Relation.TransGen s.E u w)) := by
  induction steps with
  | nil =>
    intro g s hg _
    exact ⟨g, s, rfl, hg, fun u w hu _ hw _ => ⟨hu, hw, Iff.rfl⟩⟩
  | cons p rest ih =>
    intro g s hg hok
    obtain ⟨x, sub⟩ := p
    obtain ⟨t, hsub, hx, hdisj, hxx, hac, hrest⟩ := hok
    obtain ⟨g1, hg1, hr1, hord1⟩ := graft_preserves_order hg hsub hx hdisj hxx hac
    obtain ⟨g', s', hg', hr', hord'⟩ := ih hr1 hrest
    refine ⟨g', s', ?_, hr', ?_⟩
    · rw [List.foldlM_cons, hg1]; exact hg'
    · intro u w hu hun hw hwn
      simp only [List.map_cons, List.mem_cons, not_or] at hun hwn
      have hu1 : (s.graft t x).N u := Or.inl ⟨hu, hun.1⟩
      have hw1 : (s.graft t x).N w := Or.inl ⟨hw, hwn.1⟩
      obtain ⟨a, b, c⟩ := hord' u w hu1 hun.2 hw1 hwn.2
      refine ⟨a, b, c.trans ?_⟩
      have eE : g1.Edge = (s.graft t x).E := by funext a b; exact propext (hr1.2.2 a b)
      rw [← eE]
      exact hord1 u w hu hun.1 hw hwn.1

/-- **when `flatten(recurse=True)` returns, only plain nodes are left** (partial correctness of the loop over the nested
levels: it can only stop on a graph without a nested node; that it does stop is not proved — see the header — and is
what A29 was about) -/
theorem flatten_all_plain (store : Nat → Option G) :
    ∀ (fuel : Nat) (g g' : G), flattenLoop store true fuel g = .ok g' →
      g'.nodes.seq.filter (· ≥ nestedBase) = [] := by
  intro fuel
  induction fuel with
  | zero => intro g g' h; rw [flattenLoop] at h; cases h
  | succ n ih =>
    intro g g' h
    rw [flattenLoop] at h
    by_cases hemp : (g.nodes.seq.filter (· ≥ nestedBase)).isEmpty = true
    · simp only [hemp, if_true] at h
      cases h
      simpa using hemp
    · simp only [hemp, Bool.false_eq_true, if_false, bind, Except.bind] at h
      cases hf : (g.nodes.seq.filter (· ≥ nestedBase)).foldlM (graftNested store) g with
      | error e => rw [hf] at h; cases h
      | ok g1 =>
        rw [hf] at h
        simp only [if_true] at h
        exact ih g1 g' h

/-- **`flatten(recurse=True)` returns when the nested graphs hold plain nodes only** (one level of nesting — the groups
of tasks the scheduler flattens), whatever the number of rounds allowed beyond two (the driver allows 20): every graft
of the round succeeds, the result is a well-formed graph of plain nodes.
(Deeper nesting: executable model, oracle and watchdog only; A29 was a non-termination there.) -/
theorem flatten_one_level_returns (store : Nat → Option G) (g : G) (hg : GInv g)
    (hstore : PlainStore store (g.nodes.seq.filter (· ≥ nestedBase))) (k : Nat) :
    ∃ g', flattenLoop store true (2 + k) g = .ok g' ∧ GInv g' ∧ ∀ z, g'.Node z → z < nestedBase := by
  obtain ⟨g', h, hi, hp⟩ := flatten_depth_one store g hg hstore
  exact ⟨g', flattenLoop_mono store true 2 k g g' h, hi, hp⟩

/-- **`flatten(recurse=True)` returns on every well-founded nesting**: if the nested graphs can be ranked so that a nested
graph only holds nested graphs of smaller rank (no graph nested in itself, directly or not), then with every nested node of
`g` of rank below `R` the loop over the levels ends within `R + 1` rounds — and with any larger number of rounds allowed —
on a well-formed graph of plain nodes.  The same nested graph may stand at several places and levels (the situation in
which the pinned `graft` made `flatten` loop for ever, defect A29). -/
theorem flatten_returns (store : Nat → Option G) (rk : Nat → Nat) (hst : RankedStore store rk) (R : Nat) (g : G)
    (hg : GInv g) (hr : ∀ z, g.Node z → nestedBase ≤ z → rk z < R) (k : Nat) :
    ∃ g', flattenLoop store true (R + 1 + k) g = .ok g' ∧ GInv g' ∧ ∀ z, g'.Node z → z < nestedBase := by
  obtain ⟨g', h, hi, hp⟩ := flatten_ranked store rk hst R g hg hr
  exact ⟨g', flattenLoop_mono store true (R + 1) k g g' h, hi, hp⟩

/-- the hypotheses are satisfiable: a store of empty graphs, all of rank 0 -/
example : RankedStore (fun _ => some G.empty) (fun _ => 0) := by
  intro x _
  refine ⟨G.empty, rfl, GInv.empty, ?_⟩
  intro z hz
  simp [G.Node, G.empty, RList.empty] at hz

/-- **flattening nested graphs preserves the ordering constraints between the plain nodes of the graph** (last sentence of
the property, all levels at once): for a well-formed acyclic graph `g` over a well-founded (`RankedStore`), tree-like
(`TreeStore`: every graph of the nesting acyclic, every node owned by the one nested node whose graph holds it, the nodes of
`g` owned by nobody — so no graph stands at two places and no two graphs share a node) nesting, `flatten(recurse=True)`
returns a well-formed acyclic graph of plain nodes in which two plain nodes of `g` have to come one after the other exactly
when they had to in `g`.  All hypotheses are about the initial graph and the store. -/
theorem flatten_order_preserved (store : Nat → Option G) (rk : Nat → Nat) (own : Nat → Option Nat)
    (hst : RankedStore store rk) (hts : TreeStore store own) (R : Nat) (g : G) (hg : GInv g) (hac : ¬ g.Cyclic)
    (hr : ∀ z, g.Node z → nestedBase ≤ z → rk z < R) (hroot : ∀ z, g.Node z → own z = none) :
    ∃ g', flattenLoop store true (R + 1) g = .ok g' ∧ GInv g' ∧ ¬ g'.Cyclic ∧ (∀ z, g'.Node z → z < nestedBase) ∧
      ∀ u w, g.Node u → u < nestedBase → g.Node w → w < nestedBase →
        (g'.Node u ∧ g'.Node w ∧ (Relation.TransGen g'.Edge u w ↔ Relation.TransGen g.Edge u w)) :=
  flatten_preserves_order store rk own hst hts R g hg hac hr hroot

/-- **… and between all plain nodes**, those that come out of the nested graphs included: the nodes of the flattened graph
are exactly the plain nodes of the nesting (`InNesting`), and one has to come after another exactly when, in some graph of
the nesting, a node that is or (at any depth) holds the first has to come after a node that is or holds the second
(`NOrd`; on the nodes of `g` itself this is `g`'s own order: `nord_outer`). -/
theorem flatten_order_all_plain (store : Nat → Option G) (rk : Nat → Nat) (own : Nat → Option Nat)
    (hst : RankedStore store rk) (hts : TreeStore store own) (R : Nat) (g : G) (hg : GInv g) (hac : ¬ g.Cyclic)
    (hr : ∀ z, g.Node z → nestedBase ≤ z → rk z < R) (hroot : ∀ z, g.Node z → own z = none) :
    ∃ g', flattenLoop store true (R + 1) g = .ok g' ∧ GInv g' ∧ ¬ g'.Cyclic ∧
      (∀ z, g'.Node z ↔ InNesting store g z ∧ z < nestedBase) ∧
      ∀ u w, g'.Node u → g'.Node w → (Relation.TransGen g'.Edge u w ↔ NOrd store own g u w) :=
  flatten_order_full store rk own hst hts R g hg hac hr hroot

/-- the natural order of the nesting is the order of `g` on the nodes of `g` -/
theorem nesting_order_on_outer {store : Nat → Option G} {own : Nat → Option Nat} {g : G}
    (hroot : ∀ z, g.Node z → own z = none) (hts : TreeStore store own) {u w : Nat} (hu : g.Node u) (hw : g.Node w) :
    NOrd store own g u w ↔ Relation.TransGen g.Edge u w := nord_outer hroot hts hu hw

/-- one round of the model's `flatten` is such a sequence of grafts -/
theorem flatten_round_eq (store : Nat → Option G) (g : G) (fuel : Nat) (subs : List G)
    (hne : (g.nodes.seq.filter (· ≥ nestedBase)) ≠ [])
    (hstore : (g.nodes.seq.filter (· ≥ nestedBase)).map (fun x => store (x - nestedBase)) = subs.map some) :
    flattenLoop store false (fuel + 1) g =
      ((g.nodes.seq.filter (· ≥ nestedBase)).zip subs).foldlM (fun g p => g.graft p.1 p.2) g := by
  rw [flattenLoop]
  have hemp : (g.nodes.seq.filter (· ≥ nestedBase)).isEmpty = false := by
    cases hq : g.nodes.seq.filter (· ≥ nestedBase) with
    | nil => exact absurd hq hne
    | cons a r => rfl
  simp only [hemp, Bool.false_eq_true, if_false, bind, Except.bind]
  -- the two folds agree step by step
  have key : ∀ (l : List Nat) (ss : List G) (g0 : G), l.map (fun x => store (x - nestedBase)) = ss.map some →
      l.foldlM (graftNested store) g0 =
        (l.zip ss).foldlM (fun g p => g.graft p.1 p.2) g0 := by
    intro l
    induction l with
    | nil => intro ss g0 _; cases ss <;> rfl
    | cons x xs ihl =>
      intro ss g0 hm
      cases ss with
      | nil => simp at hm
      | cons sb sbs =>
        simp only [List.map_cons, List.cons.injEq] at hm
        rw [List.foldlM_cons, List.zip_cons_cons, List.foldlM_cons]
        unfold graftNested
        rw [hm.1]
        simp only [bind, Except.bind]
        cases g0.graft x sb with
        | error e => rfl
        | ok g1 => exact ihl sbs g1 hm.2
  rw [key _ subs g hstore]
  cases ((g.nodes.seq.filter (· ≥ nestedBase)).zip subs).foldlM (fun g p => g.graft p.1 p.2) g <;> rfl

/-! ### Transitive closure and reduction (second sentence) -/

/-- **`transitive_closure` on an acyclic graph**: same nodes, an edge exactly where there was a path — hence the same
reachability, with the most edges (`closure_most`: any graph with that reachability is contained in it) -/
theorem closure_spec {g : G} {s : Spec} (h : Refines g s) (hac : ¬ s.Cyclic) :
    ∃ g', g.transitiveClosure = .ok g' ∧ Refines g' ⟨s.N, Relation.TransGen s.E⟩ ∧
      ∀ S : Nat → Nat → Prop, (∀ a b, Relation.TransGen S a b ↔ Relation.TransGen s.E a b) →
        ∀ a b, S a b → g'.Edge a b := by
  have eE : g.Edge = s.E := by funext u w; exact propext (h.2.2 u w)
  obtain ⟨g', hrun, hi, hn, he⟩ := closure_refines h.1 (fun hc => hac ((cyclic_iff h).1 hc))
  refine ⟨g', hrun, ⟨hi, fun z => (hn z).trans (h.2.1 z), fun u w => by rw [he u w, eE]⟩, ?_⟩
  intro S hS a b hab
  rw [he a b, eE]
  exact closure_most hS hab

/-- **`transitive_reduction` on an acyclic graph**: same nodes, the same reachability, exactly the edges that no longer
path doubles — the fewest edges (`reduction_fewest`: any graph with that reachability contains them) -/
theorem reduction_spec {g : G} {s : Spec} (h : Refines g s) (hac : ¬ s.Cyclic) :
    ∃ g', g.transitiveReduction = .ok g' ∧
      Refines g' ⟨s.N, fun u w => s.E u w ∧ ¬ ∃ j, s.E u j ∧ Relation.TransGen s.E j w⟩ ∧
      (∀ u w, Relation.TransGen g'.Edge u w ↔ Relation.TransGen s.E u w) ∧
      ∀ S : Nat → Nat → Prop, (∀ a b, Relation.TransGen S a b ↔ Relation.TransGen s.E a b) →
        ∀ a b, g'.Edge a b → S a b := by
  have eE : g.Edge = s.E := by funext u w; exact propext (h.2.2 u w)
  obtain ⟨g', hrun, hi, hn, he, hreach⟩ := reduction_refines h.1 (fun hc => hac ((cyclic_iff h).1 hc))
  refine ⟨g', hrun, ⟨hi, fun z => (hn z).trans (h.2.1 z), fun u w => by rw [he u w, eE]⟩,
    fun u w => by rw [hreach u w, eE], ?_⟩
  intro S hS a b hab
  obtain ⟨h1, h2⟩ := (he a b).1 hab
  rw [eE] at h1 h2
  exact reduction_fewest hS h1 h2

/-! ### `dependencies` -/

/-- `dependencies(x)` returns exactly the nodes `y` with an edge `x → y`, and raises `ValueError` exactly
when `x` is not a node -/
theorem dependencies_spec {g : G} (h : GInv g) (x : Nat) :
    (¬ g.Node x → g.dependencies x = .error .valueError) ∧
    (g.Node x → ∃ l, g.dependencies x = .ok l ∧ ∀ y, y ∈ l ↔ g.Edge x y) :=
  dependencies_ok h x

/-! ### The pinned `graft` (defect A19, repaired by commit 72e83e1) stays refuted -/

/-- `1 → N → 2` with `N` an empty nested graph -/
def gA19 : G := run G.empty [.addDep 1 100, .addDep 100 2]

def edgesOf : Except Err G → List (Nat × Nat)
  | .ok g => g.edgePairs
  | .error _ => [(0, 0)]

/-- grafting the empty nested graph with the pinned code loses the ordering `1 → 2`; the repaired code keeps it -/
theorem c16_pinned_refuted :
    edgesOf (gA19.graftPinned 100 G.empty) = [] ∧ edgesOf (gA19.graft 100 G.empty) = [(1, 2)] := by
  decide

end DG
