import Proofs.XRealArith
import Model.Student
import Mathlib.Order.Monotone.Basic
/-!
# C05 — the Student verdict is true exactly when every bin is statistically compatible

Model: `Model/Student.lean`.  Numbers are `XReal` (exact reals + NaN/±∞; rounding is covered by the bit-exact
correspondence).  The critical value `thr` and the survival function of the law are parameters; the hypotheses on them
(`pvalue_agrees`) are checked numerically against scipy on every run.
-/
namespace Student
open XReal

/-! ### the model in `XReal` operations -/

/-- `sqrt(e1**2 + e2**2)` -/
noncomputable def qs (e1 e2 : XReal) : XReal := XReal.sqrt (XReal.add (XReal.mul e1 e1) (XReal.mul e2 e2))

theorem zero_x : (Num.zero : XReal) = fin 0 := by
  show fin ((0 : ℕ) : ℝ) = fin 0
  simp

theorem tStat_x (v1 e1 v2 e2 : XReal) :
    tStat v1 e1 v2 e2 =
      if XReal.beq (XReal.sub v1 v2) (fin 0) && XReal.beq (qs e1 e2) (fin 0) then fin 0
      else if XReal.beq (XReal.sub v1 v2) (fin 0) && XReal.isNaN e1 && XReal.isNaN e2 then fin 0
      else if XReal.isNaN v1 && XReal.isNaN v2 then fin 0
      else XReal.div (XReal.sub v1 v2) (qs e1 e2) := by
  show (if XReal.beq (XReal.sub v1 v2) Num.zero && XReal.beq (qs e1 e2) Num.zero then Num.zero
      else if XReal.beq (XReal.sub v1 v2) Num.zero && XReal.isNaN e1 && XReal.isNaN e2 then Num.zero
      else if XReal.isNaN v1 && XReal.isNaN v2 then Num.zero
      else XReal.div (XReal.sub v1 v2) (qs e1 e2)) = _
  rw [zero_x]

theorem oracle_x (thr t : XReal) : oracle thr t = XReal.lt (XReal.abs t) thr := rfl

/-! ### verdict ⇔ every bin of every compared dataset -/

/-- **the verdict is true iff every per-bin oracle of every compared dataset is true** -/
theorem verdict_iff_all_bins {α : Type} [Num α] (thr : α) (ref : List (Bin α)) (dss : List (List (Bin α))) :
    verdict thr ref dss = true ↔ ∀ l ∈ oracles thr ref dss, ∀ b ∈ l, b = true := by
  unfold verdict
  rw [List.all_eq_true]
  constructor
  · intro h l hl b hb
    have := h l hl
    rw [List.all_eq_true] at this
    simpa using this b hb
  · intro h l hl
    rw [List.all_eq_true]
    intro b hb
    simpa using h l hl b hb

/-- one incompatible bin in one compared dataset makes the verdict false -/
theorem verdict_false_of_bad_bin {α : Type} [Num α] (thr : α) (ref : List (Bin α)) (dss : List (List (Bin α)))
    (l : List Bool) (hl : l ∈ oracles thr ref dss) (hb : false ∈ l) : verdict thr ref dss = false := by
  cases h : verdict thr ref dss with
  | false => rfl
  | true => exact absurd ((verdict_iff_all_bins thr ref dss).1 h l hl false hb) (by simp)

/-! ### one bin, finite inputs: the ratio against the critical value -/

theorem qs_fin (e1 e2 : ℝ) : qs (fin e1) (fin e2) = fin (Real.sqrt (e1 * e1 + e2 * e2)) := by
  unfold qs
  simp only [mul_fin_fin, add_fin_fin, sqrt_fin]
  rw [if_neg (not_lt.2 (add_nonneg (mul_self_nonneg _) (mul_self_nonneg _)))]

theorem beq_fin_fin (x y : ℝ) : XReal.beq (fin x) (fin y) = decide (x = y) := rfl

/-- for finite values and errors that are not both zero, Student's t is the plain ratio -/
theorem tStat_fin (v1 e1 v2 e2 : ℝ) (hs : 0 < e1 * e1 + e2 * e2) :
    tStat (fin v1) (fin e1) (fin v2) (fin e2) = fin ((v1 - v2) / Real.sqrt (e1 * e1 + e2 * e2)) := by
  have hpos : 0 < Real.sqrt (e1 * e1 + e2 * e2) := Real.sqrt_pos.2 hs
  rw [tStat_x, qs_fin, sub_fin_fin]
  simp only [beq_fin_fin, XReal.isNaN, ne_of_gt hpos, decide_false, Bool.and_false]
  simp [div_fin_fin _ _ (ne_of_gt hpos)]

/-- **a bin is compatible iff |v1 − v2| / sqrt(e1² + e2²) is below the critical value** -/
theorem oracle_iff_ratio (v1 e1 v2 e2 thr : ℝ) (hs : 0 < e1 * e1 + e2 * e2) :
    oracle (fin thr) (tStat (fin v1) (fin e1) (fin v2) (fin e2)) = true ↔
      |v1 - v2| / Real.sqrt (e1 * e1 + e2 * e2) < thr := by
  rw [tStat_fin _ _ _ _ hs, oracle_x, abs_fin, lt_fin_fin, decide_eq_true_eq, abs_div,
    abs_of_nonneg (Real.sqrt_nonneg _)]

/-- equal values with zero errors: the documented 0/0 convention, the bin is compatible -/
theorem zero_zero_passes (v thr : ℝ) (ht : 0 < thr) :
    oracle (fin thr) (tStat (fin v) (fin 0) (fin v) (fin 0)) = true := by
  rw [tStat_x, qs_fin, sub_fin_fin]
  simp [beq_fin_fin, oracle_x, ht]

/-! ### symmetry -/

theorem sub_swap (a b : XReal) : XReal.sub b a = XReal.neg (XReal.sub a b) := by
  cases a <;> cases b <;> simp [XReal.sub, XReal.add, XReal.neg]

theorem add_comm' (a b : XReal) : XReal.add a b = XReal.add b a := by
  cases a <;> cases b <;> simp [XReal.add]
  ring

theorem qs_comm (a b : XReal) : qs a b = qs b a := by unfold qs; rw [add_comm']

theorem beq_neg_zero (a : XReal) : XReal.beq (XReal.neg a) (fin 0) = XReal.beq a (fin 0) := by
  cases a <;> simp [XReal.neg, XReal.beq]

theorem div_neg_left (a b : XReal) (hb : NotNeg b) : XReal.div (XReal.neg a) b = XReal.neg (XReal.div a b) := by
  cases a with
  | nan => cases b <;> rfl
  | pinf =>
    cases b with
    | nan => rfl
    | ninf => rfl
    | pinf => rfl
    | fin y =>
      have hy := notNeg_fin.1 hb
      show (if 0 ≤ y then ninf else pinf) = XReal.neg (if 0 ≤ y then pinf else ninf)
      rw [if_pos hy, if_pos hy]; rfl
  | ninf =>
    cases b with
    | nan => rfl
    | ninf => rfl
    | pinf => rfl
    | fin y =>
      have hy := notNeg_fin.1 hb
      show (if 0 ≤ y then pinf else ninf) = XReal.neg (if 0 ≤ y then ninf else pinf)
      rw [if_pos hy, if_pos hy]; rfl
  | fin x =>
    cases b with
    | nan => rfl
    | ninf => show fin 0 = XReal.neg (fin 0); simp
    | pinf => show fin 0 = XReal.neg (fin 0); simp
    | fin y =>
      show (if y = 0 then (if -x = 0 then nan else if 0 < -x then pinf else ninf) else fin (-x / y)) =
        XReal.neg (if y = 0 then (if x = 0 then nan else if 0 < x then pinf else ninf) else fin (x / y))
      by_cases hy : y = 0
      · rw [if_pos hy, if_pos hy]
        by_cases hx : x = 0
        · subst hx; simp [XReal.neg]
        · have hx' : ¬ (-x = 0) := by simpa using hx
          rw [if_neg hx', if_neg hx]
          rcases lt_or_gt_of_ne hx with h | h
          · rw [if_pos (by linarith), if_neg (by linarith)]; rfl
          · rw [if_neg (by linarith), if_pos h]; rfl
      · rw [if_neg hy, if_neg hy]; simp [neg_div]

theorem notNeg_qs (a b : XReal) : NotNeg (qs a b) := notNeg_sqrt _

/-- swapping the two datasets changes the sign of t, nothing else -/
theorem tStat_symm (v1 e1 v2 e2 : XReal) : tStat v2 e2 v1 e1 = XReal.neg (tStat v1 e1 v2 e2) := by
  rw [tStat_x, tStat_x, sub_swap v1 v2, beq_neg_zero, qs_comm e2 e1, div_neg_left _ _ (notNeg_qs e1 e2),
    Bool.and_comm (XReal.isNaN v2), Bool.and_assoc, Bool.and_comm (XReal.isNaN e2), ← Bool.and_assoc]
  split
  · simp
  · split
    · simp
    · split
      · simp
      · rfl

theorem abs_neg' (a : XReal) : XReal.abs (XReal.neg a) = XReal.abs a := by
  cases a <;> simp [XReal.abs, XReal.neg]

/-- **the verdict is symmetric in the two datasets** (per bin) -/
theorem oracle_symmetric (thr v1 e1 v2 e2 : XReal) :
    oracle thr (tStat v2 e2 v1 e1) = oracle thr (tStat v1 e1 v2 e2) := by
  rw [tStat_symm, oracle_x, oracle_x, abs_neg']

/-! ### a bin whose comparison is undefined on one side only is not compatible -/

theorem div_nan_left (b : XReal) : XReal.div nan b = nan := by cases b <;> rfl
theorem div_nan_right (a : XReal) : XReal.div a nan = nan := by cases a <;> rfl
theorem sub_nan_left (b : XReal) : XReal.sub nan b = nan := by cases b <;> rfl
theorem sub_nan_right (a : XReal) : XReal.sub a nan = nan := by cases a <;> simp [XReal.sub, XReal.neg, XReal.add]
theorem beq_nan_left (b : XReal) : XReal.beq nan b = false := by cases b <;> rfl

/-- exactly one of the two values is NaN ⇒ the bin is rejected, whatever the errors and the critical value -/
theorem one_sided_nan_value_false (thr e1 v2 e2 : XReal) (h2 : XReal.isNaN v2 = false) :
    oracle thr (tStat nan e1 v2 e2) = false ∧ oracle thr (tStat v2 e2 nan e1) = false := by
  have h : oracle thr (tStat nan e1 v2 e2) = false := by
    rw [tStat_x, sub_nan_left, beq_nan_left]
    simp [h2, div_nan_left, oracle_x, XReal.abs]
  exact ⟨h, by rw [oracle_symmetric]; exact h⟩

theorem qs_nan_left (b : XReal) : qs nan b = nan := by
  unfold qs
  cases b <;> simp [XReal.mul, XReal.add, XReal.sqrt]

/-- exactly one of the two errors is NaN (and the values are not both NaN) ⇒ the bin is rejected -/
theorem one_sided_nan_error_false (thr v1 v2 e2 : XReal) (h2 : XReal.isNaN e2 = false)
    (hv : (XReal.isNaN v1 && XReal.isNaN v2) = false) :
    oracle thr (tStat v1 nan v2 e2) = false ∧ oracle thr (tStat v2 e2 v1 nan) = false := by
  have h : oracle thr (tStat v1 nan v2 e2) = false := by
    rw [tStat_x, qs_nan_left, hv]
    simp [h2, div_nan_right, oracle_x, XReal.abs, XReal.beq]
  exact ⟨h, by rw [oracle_symmetric]; exact h⟩

/-! ### never improves when a difference grows or an error shrinks -/

/-- a larger difference (same errors): accepted after ⇒ accepted before -/
theorem monotone_diff (v1 v2 v1' v2' e1 e2 thr : ℝ) (hs : 0 < e1 * e1 + e2 * e2) (hd : |v1 - v2| ≤ |v1' - v2'|)
    (h : oracle (fin thr) (tStat (fin v1') (fin e1) (fin v2') (fin e2)) = true) :
    oracle (fin thr) (tStat (fin v1) (fin e1) (fin v2) (fin e2)) = true := by
  rw [oracle_iff_ratio _ _ _ _ _ hs] at h ⊢
  exact lt_of_le_of_lt (div_le_div_of_nonneg_right hd (Real.sqrt_nonneg _)) h

/-- smaller errors (same values): accepted after ⇒ accepted before -/
theorem monotone_err (v1 v2 e1 e2 e1' e2' thr : ℝ) (hs' : 0 < e1' * e1' + e2' * e2')
    (h1 : 0 ≤ e1') (h2 : 0 ≤ e2') (hle1 : e1' ≤ e1) (hle2 : e2' ≤ e2)
    (h : oracle (fin thr) (tStat (fin v1) (fin e1') (fin v2) (fin e2')) = true) :
    oracle (fin thr) (tStat (fin v1) (fin e1) (fin v2) (fin e2)) = true := by
  have hle : e1' * e1' + e2' * e2' ≤ e1 * e1 + e2 * e2 :=
    add_le_add (mul_le_mul hle1 hle1 h1 (le_trans h1 hle1)) (mul_le_mul hle2 hle2 h2 (le_trans h2 hle2))
  have hs : 0 < e1 * e1 + e2 * e2 := lt_of_lt_of_le hs' hle
  rw [oracle_iff_ratio _ _ _ _ _ hs'] at h
  rw [oracle_iff_ratio _ _ _ _ _ hs]
  refine lt_of_le_of_lt ?_ h
  exact div_le_div_of_nonneg_left (abs_nonneg _) (Real.sqrt_pos.2 hs') (Real.sqrt_le_sqrt hle)

/-! ### invariance under a common positive rescaling -/

/-- multiply by the finite positive factor `c` -/
noncomputable def scale (c : ℝ) (x : XReal) : XReal := XReal.mul (fin c) x

theorem scale_fin (c x : ℝ) : scale c (fin x) = fin (c * x) := rfl
theorem scale_nan (c : ℝ) : scale c nan = nan := rfl

section scaling
variable {c : ℝ} (hc : 0 < c)
include hc

theorem scale_pinf : scale c pinf = pinf := by
  show (if c = 0 then nan else if 0 < c then pinf else ninf) = pinf
  rw [if_neg (ne_of_gt hc), if_pos hc]
theorem scale_ninf : scale c ninf = ninf := by
  show (if c = 0 then nan else if 0 < c then ninf else pinf) = ninf
  rw [if_neg (ne_of_gt hc), if_pos hc]

theorem scale_isNaN (a : XReal) : XReal.isNaN (scale c a) = XReal.isNaN a := by
  cases a
  · rfl
  · rw [scale_ninf hc]
  · rfl
  · rw [scale_pinf hc]

theorem scale_beq_zero (a : XReal) : XReal.beq (scale c a) (fin 0) = XReal.beq a (fin 0) := by
  cases a with
  | nan => rfl
  | ninf => rw [scale_ninf hc]
  | pinf => rw [scale_pinf hc]
  | fin x =>
    rw [scale_fin, beq_fin_fin, beq_fin_fin]
    congr 1
    exact propext ⟨fun h => (mul_eq_zero.1 h).resolve_left (ne_of_gt hc), fun h => by rw [h, mul_zero]⟩

theorem scale_sub (a b : XReal) : XReal.sub (scale c a) (scale c b) = scale c (XReal.sub a b) := by
  cases a <;> cases b <;>
    simp only [scale_nan, scale_pinf hc, scale_ninf hc, scale_fin, sub_fin_fin, sub_nan_left, sub_nan_right] <;>
    first
    | (congr 1; ring1)
    | (simp [XReal.sub, XReal.neg, XReal.add, scale_nan, scale_pinf hc, scale_ninf hc])

theorem scale_qs (a b : XReal) : qs (scale c a) (scale c b) = scale c (qs a b) := by
  cases a <;> cases b <;>
    simp only [scale_nan, scale_pinf hc, scale_ninf hc, scale_fin, qs_fin]
  case fin.fin x y =>
    congr 1
    have : c * x * (c * x) + c * y * (c * y) = c ^ 2 * (x * x + y * y) := by ring
    rw [this, Real.sqrt_mul (sq_nonneg c), Real.sqrt_sq (le_of_lt hc)]
  all_goals
    simp [qs, XReal.mul, XReal.add, XReal.sqrt, scale_nan, scale_pinf hc, scale_ninf hc]

theorem scale_div (a b : XReal) : XReal.div (scale c a) (scale c b) = XReal.div a b := by
  cases a <;> cases b <;>
    simp only [scale_nan, scale_pinf hc, scale_ninf hc, scale_fin]
  case fin.fin x y =>
    show (if c * y = 0 then (if c * x = 0 then nan else if 0 < c * x then pinf else ninf) else fin (c * x / (c * y))) =
      (if y = 0 then (if x = 0 then nan else if 0 < x then pinf else ninf) else fin (x / y))
    have e1 : (c * y = 0) ↔ (y = 0) := ⟨fun h => (mul_eq_zero.1 h).resolve_left (ne_of_gt hc), fun h => by rw [h, mul_zero]⟩
    have e2 : (c * x = 0) ↔ (x = 0) := ⟨fun h => (mul_eq_zero.1 h).resolve_left (ne_of_gt hc), fun h => by rw [h, mul_zero]⟩
    have e3 : (0 < c * x) ↔ (0 < x) := ⟨fun h => by
      by_contra hx
      exact absurd h (not_lt.2 (mul_nonpos_of_nonneg_of_nonpos (le_of_lt hc) (not_lt.1 hx))), fun h => mul_pos hc h⟩
    simp only [e1, e2, e3]
    split
    · rfl
    · rw [mul_div_mul_left _ _ (ne_of_gt hc)]
  case pinf.fin y =>
    show (if 0 ≤ c * y then pinf else ninf) = (if 0 ≤ y then pinf else ninf)
    have : (0 ≤ c * y) ↔ (0 ≤ y) := ⟨fun h => by
      by_contra hy
      exact absurd h (not_le.2 (mul_neg_of_pos_of_neg hc (not_le.1 hy))), fun h => mul_nonneg (le_of_lt hc) h⟩
    simp only [this]
  case ninf.fin y =>
    show (if 0 ≤ c * y then ninf else pinf) = (if 0 ≤ y then ninf else pinf)
    have : (0 ≤ c * y) ↔ (0 ≤ y) := ⟨fun h => by
      by_contra hy
      exact absurd h (not_le.2 (mul_neg_of_pos_of_neg hc (not_le.1 hy))), fun h => mul_nonneg (le_of_lt hc) h⟩
    simp only [this]
  all_goals rfl

/-- **t, hence every oracle and the verdict, is invariant under a common positive rescaling** of the values and
errors of both datasets (exact arithmetic; all special values included) -/
theorem scale_invariant (v1 e1 v2 e2 : XReal) :
    tStat (scale c v1) (scale c e1) (scale c v2) (scale c e2) = tStat v1 e1 v2 e2 := by
  rw [tStat_x, tStat_x, scale_sub hc, scale_qs hc, scale_beq_zero hc, scale_beq_zero hc, scale_div hc,
    scale_isNaN hc, scale_isNaN hc, scale_isNaN hc, scale_isNaN hc]

end scaling

/-! ### the p-value decision agrees with the oracle -/

/-- two-sided p-value of `t` for a law with survival function `sf` (`2 * sf(|t|)`, as the code computes it) -/
noncomputable def pOf (sf : ℝ → ℝ) (t : XReal) : XReal :=
  match XReal.abs t with
  | fin x => fin (2 * sf x)
  | pinf => fin 0
  | _ => nan

/-- **`pval > alpha` decides exactly like `|t| < threshold`** for every t (NaN and ±∞ included), for any law whose
survival function is strictly decreasing on `[0, ∞)` and whose critical value satisfies `2 sf(thr) = alpha` -/
theorem pvalue_agrees (sf : ℝ → ℝ) (thr alpha : ℝ) (hanti : StrictAntiOn sf (Set.Ici 0)) (hthr : 2 * sf thr = alpha)
    (h0 : 0 ≤ thr) (ha : 0 < alpha) (t : XReal) :
    pDecision (fin alpha) (pOf sf t) = oracle (fin thr) t := by
  show XReal.lt (fin alpha) (pOf sf t) = XReal.lt (XReal.abs t) (fin thr)
  cases t with
  | nan => rfl
  | ninf =>
    show XReal.lt (fin alpha) (fin 0) = XReal.lt pinf (fin thr)
    simp [le_of_lt ha]
  | pinf =>
    show XReal.lt (fin alpha) (fin 0) = XReal.lt pinf (fin thr)
    simp [le_of_lt ha]
  | fin x =>
    show XReal.lt (fin alpha) (fin (2 * sf |x|)) = XReal.lt (fin |x|) (fin thr)
    rw [lt_fin_fin, lt_fin_fin, ← hthr]
    congr 1
    have hx : |x| ∈ Set.Ici (0 : ℝ) := abs_nonneg x
    have ht : thr ∈ Set.Ici (0 : ℝ) := h0
    exact propext ⟨fun h => (hanti.lt_iff_gt ht hx).1 (by linarith), fun h => by
      have := (hanti.lt_iff_gt ht hx).2 h; linarith⟩

/-- non-vacuity: a 3-bin, 2-dataset instance, one incompatible bin -/
example : oracle (fin 2) (tStat (fin 5) (fin 3) (fin 1) (fin 4)) = true ∧
    oracle (fin 2) (tStat (fin 50) (fin 3) (fin 1) (fin 4)) = false := by
  have h : (0 : ℝ) < 3 * 3 + 4 * 4 := by norm_num
  have hsq : Real.sqrt (3 * 3 + 4 * 4) = 5 := by
    rw [show (3 : ℝ) * 3 + 4 * 4 = 5 ^ 2 by norm_num]; exact Real.sqrt_sq (by norm_num)
  constructor
  · rw [oracle_iff_ratio _ _ _ _ _ h, hsq]; norm_num
  · have := oracle_iff_ratio 50 3 1 4 2 h
    rw [hsq] at this
    cases hh : oracle (fin 2) (tStat (fin 50) (fin 3) (fin 1) (fin 4)) with
    | false => rfl
    | true => rw [hh] at this; have := this.1 rfl; norm_num at this

end Student
