import Model.Ap3
/-! C10, Apollo3 side: the `Reader` and the `Picker` give the same dataset for every stored array of a file that follows the
documented layout (`picker_eq_reader`), the cells they return are the stored cells in the stored order
(`reader_returns_stored`, `picker_returns_stored`), the bins they attach describe the shape they give
(`reader_bins_fit`, `picker_bins_fit`), and concentrations are paired with their isotopes the same way
(`concentration_agree`).  The HDF5 library is not modelled; the model's input is what h5py hands over for one array. -/
namespace Ap3

/-- both fail, or both succeed with the same dataset -/
def Agree {α : Type} (a b : Except Err (DS α)) : Prop :=
  match a, b with
  | .ok x, .ok y => x = y
  | .error _, .error _ => True
  | _, _ => False

/-- the documented layout, as far as the two classes depend on it: at least one energy group; the whole-core numbers are
stored as one-cell arrays; arrays stored directly in a zone have one cell per group; arrays stored directly in
`totaloutput` have one cell per group or are surface quantities / spectra; anisotropy numbers only come with an `info` group -/
structure Layout {α : Type} (s : Stored α) : Prop where
  groups : 1 ≤ s.ngroups
  scalars : special s.name = true → s.shape = [1]
  notNsurf : (s.name == "NSURF") = false
  zone : s.level = .zone → special s.name = true ∨ s.ngroups = prod s.shape
  total : s.level = .total → special s.name = true ∨ s.ngroups = prod s.shape ∨ s.name = "SURFFLUX" ∨ s.name = "CURRENT" ∨
    s.name = "MultigroupSpectrum"
  info : s.infoPresent = false → s.resAniso = none ∧ s.defAniso = none

@[simp] theorem noBins_none : noBins none = true := rfl
@[simp] theorem noBins_cons (x : String × Nat) (xs : Bins) : noBins (some (x :: xs)) = false := rfl

theorem agree_refl {α : Type} (x : Except Err (DS α)) : Agree x x := by
  cases x <;> simp [Agree]

theorem picker_eq_reader {α : Type} (s : Stored α) (h : Layout s) : Agree (reader s) (picker s) := by
  obtain ⟨hg, hsc, hns, hz, ht, hi⟩ := h
  have hg0 : (s.ngroups == 0) = false := by simp; omega
  unfold reader picker readerBins pickerBins
  by_cases hsp : special s.name = true
  · have hsh := hsc hsp
    simp only [hsp, hsh, Bool.true_or, if_true]
    cases hd : s.data with
    | nil => simp [Agree, bind, Except.bind]
    | cons x xs => simp [Agree, bind, Except.bind]
  · have hsp' : special s.name = false := by simpa using hsp
    simp only [hsp', hns, hg0, Bool.false_or, Bool.false_eq_true, if_false]
    by_cases hsz : (s.ngroups == prod s.shape) = true
    · simp only [hsz, if_true]
      simp [bind, Except.bind]
      exact agree_refl _
    · have hsz' : (s.ngroups == prod s.shape) = false := by simpa using hsz
      have hne : s.ngroups ≠ prod s.shape := by simpa using hsz
      simp only [hsz', Bool.false_eq_true, if_false]
      cases hl : s.level with
      | zone =>
        rcases hz hl with h1 | h1
        · exact absurd h1 hsp
        · exact absurd h1 hne
      | total =>
        have e1 : (Level.total == Level.zone) = false := by decide
        rcases ht hl with h1 | h1 | h1 | h1 | h1
        · exact absurd h1 hsp
        · exact absurd h1 hne
        · simp only [h1, e1, beq_self_eq_true, if_true, Bool.false_eq_true, if_false]
          cases s.nsurf with
          | none => simp [bind, Except.bind, Agree]
          | some k => simp [bind, Except.bind]; exact agree_refl _
        · have n1 : ("CURRENT" == "SURFFLUX") = false := by decide
          simp only [h1, n1, e1, beq_self_eq_true, if_true, Bool.false_eq_true, if_false]
          cases s.nsurf with
          | none => simp [bind, Except.bind, Agree]
          | some k => simp [bind, Except.bind]; exact agree_refl _
        · have n1 : ("MultigroupSpectrum" == "SURFFLUX") = false := by decide
          have n2 : ("MultigroupSpectrum" == "CURRENT") = false := by decide
          simp only [h1, n1, n2, hg0, beq_self_eq_true, if_true, Bool.false_eq_true, if_false]
          simp [bind, Except.bind]; exact agree_refl _
      | iso =>
        have e1 : (Level.iso == Level.zone) = false := by decide
        have e2 : (Level.iso == Level.iso) = true := by decide
        simp only [e1, e2, if_true, Bool.false_eq_true, if_false]
        by_cases n1 : (s.name == "SURFFLUX") = true
        · simp only [n1, if_true]
          cases s.nsurf with
          | none => simp [bind, Except.bind, Agree]
          | some k => simp [bind, Except.bind]; exact agree_refl _
        · simp only [n1, if_false]
          by_cases n2 : (s.name == "CURRENT") = true
          · simp only [n2, if_true]
            cases s.nsurf with
            | none => simp [bind, Except.bind, Agree]
            | some k => simp [bind, Except.bind]; exact agree_refl _
          · simp only [n2, if_false]
            by_cases n3 : (s.name == "MultigroupSpectrum") = true
            · simp only [n3, hg0, if_true, Bool.false_eq_true, if_false]
              simp [bind, Except.bind]; exact agree_refl _
            · simp only [n3, if_false]
              simp only [Bool.false_eq_true, if_false]
              cases hip : s.infoPresent with
              | false =>
                obtain ⟨r1, r2⟩ := hi hip
                have ha : readerAniso s = 1 := by simp [readerAniso, r1, r2]
                have hb : (s.ngroups * 1 != prod s.shape) = true := by simpa using hne
                simp [pickerAniso, hip, ha, hne, bind, Except.bind, Agree]
              | true =>
                have hp : pickerAniso s = some (readerAniso s) := by simp [pickerAniso, readerAniso, hip]
                rw [hp]
                by_cases hm : (s.ngroups * readerAniso s != prod s.shape) = true
                · simp [hm, bind, Except.bind, Agree]
                · simp [hm, bind, Except.bind]; exact agree_refl _

/-- `build` keeps the cells as they are (a reshape does not move cells in C order), keeps their number, and attaches only
bins that fit the shape it gives -/
theorem build_spec {α : Type} (b : Option Bins) (sh : List Nat) (d : List α) (r : DS α) (h : build b sh d = .ok r) :
    r.value = d ∧ prod r.shape = prod sh ∧ ctorOk r.shape r.bins = true := by
  unfold build at h
  cases b with
  | none => simp at h; subst h; simp [ctorOk]
  | some b =>
    simp only at h
    by_cases he : b.isEmpty = true
    · simp [he] at h; subst h; simp [ctorOk]
    · simp only [he, Bool.false_eq_true, if_false] at h
      by_cases hp : (prod (newShape b sh) != prod sh) = true
      · simp [hp] at h
      · by_cases hc : ctorOk (newShape b sh) b = true
        · simp only [hp, hc, Bool.false_eq_true, if_false, if_true] at h
          injection h with h; subst h
          exact ⟨rfl, by simpa using hp, hc⟩
        · simp [hp, hc] at h

/-- **the cells the `Reader` returns are the stored cells, in the stored order** (all of them, or the single cell of a
one-cell array returned as a number), and the bins it attaches fit the shape it gives -/
theorem reader_returns_stored {α : Type} (s : Stored α) (r : DS α) (h : reader s = .ok r) :
    (r.value = s.data ∧ prod r.shape = prod s.shape ∧ ctorOk r.shape r.bins = true) ∨
    (s.shape = [1] ∧ r.shape = [] ∧ r.bins = [] ∧ r.value = s.data.take 1 ∧ s.data ≠ []) := by
  unfold reader at h
  cases hb : readerBins s with
  | error e => simp [hb, bind, Except.bind] at h
  | ok bins =>
    simp only [hb, bind, Except.bind] at h
    by_cases hc : (s.shape == [1] && noBins bins) = true
    · simp only [hc, if_true] at h
      cases hd : s.data with
      | nil => simp [hd] at h
      | cons x xs =>
        simp only [hd] at h
        injection h with h; subst h
        simp only [Bool.and_eq_true, beq_iff_eq] at hc
        exact Or.inr ⟨hc.1, rfl, rfl, by simp, by simp⟩
    · simp only [hc, Bool.false_eq_true, if_false] at h
      exact Or.inl (build_spec _ _ _ _ h)

/-- the same for the `Picker` -/
theorem picker_returns_stored {α : Type} (s : Stored α) (r : DS α) (h : picker s = .ok r) :
    (r.value = s.data ∧ prod r.shape = prod s.shape ∧ ctorOk r.shape r.bins = true) ∨
    (r.shape = [] ∧ r.bins = [] ∧ r.value = s.data.take 1 ∧ s.data ≠ []) := by
  unfold picker at h
  split at h
  · cases hd : s.data with
    | nil => simp [hd] at h
    | cons x xs =>
      simp only [hd] at h
      injection h with h; subst h
      exact Or.inr ⟨rfl, rfl, by simp, by simp⟩
  · cases hb : pickerBins s (if (s.level == Level.iso) = true then pickerAniso s else none) with
    | error e => simp [hb, bind, Except.bind] at h
    | ok bins =>
      simp only [hb, bind, Except.bind] at h
      exact Or.inl (build_spec _ _ _ _ h)

/-- **concentrations are paired with their isotopes the same way**: with distinct isotope names, what the `Picker` finds at
the position of the isotope is what the `Reader` paired with that name -/
theorem concentration_agree {α : Type} (isotopes : List String) (concen : List α) (iso : String) (c : α)
    (hnd : isotopes.Nodup) (hmem : (iso, c) ∈ readConcentrations isotopes concen) :
    pickConcentration isotopes concen iso = some c := by
  unfold readConcentrations at hmem
  unfold pickConcentration
  induction isotopes generalizing concen with
  | nil => simp at hmem
  | cons a as ih =>
    cases concen with
    | nil => simp at hmem
    | cons v vs =>
      simp only [List.zip_cons_cons, List.mem_cons, Prod.mk.injEq] at hmem
      have hnd' := List.nodup_cons.1 hnd
      rcases hmem with ⟨h1, h2⟩ | hmem
      · subst h1; subst h2
        simp [List.findIdx?_cons]
      · have hin : iso ∈ as := (List.of_mem_zip hmem).1
        have hne : (a == iso) = false := by
          simp only [beq_eq_false_iff_ne, ne_eq]
          intro e; subst e; exact hnd'.1 hin
        have := ih vs hnd'.2 hmem
        simp only [List.findIdx?_cons, hne]
        cases hf : List.findIdx? (fun x => x == iso) as with
        | none => simp [hf] at this
        | some i => simp [hf] at this ⊢; exact this

/-! the hypotheses are satisfiable: a rate with two anisotropies over three groups, stored under an isotope -/
def exRate : Stored Nat :=
  { name := "Diffusion", level := .iso, shape := [6], data := [10, 11, 12, 13, 14, 15], ngroups := 3, infoPresent := true,
    resAniso := some 2, defAniso := none, nsurf := none }

example : Layout exRate :=
  ⟨by decide, by decide, by decide, by decide, by decide, by decide⟩

example : (match reader exRate with
    | .ok d => d == ⟨[2, 3], [10, 11, 12, 13, 14, 15], [("anisotropies", 2), ("groups", 3)]⟩
    | .error _ => false) = true := by decide
example : (match picker exRate, reader exRate with | .ok a, .ok b => a == b | _, _ => false) = true := by decide

end Ap3
