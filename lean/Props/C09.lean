import Model.Slice

/-!
# C09 — slicing a dataset keeps exactly the selected cells together with their bin edges
Model: `Model/Slice.lean` (transcription of `Dataset.__getitem__`, `_get_bins_slice`, `_get_bins_items`, `squeeze`).
Notation: for an axis of `n` cells and a slice `s`, `a = normStart n s`, `b = normStop n s`
(Python's normalisation); the retained cells are `[a, b)`.
-/
namespace Slice

theorem normBound_le (n : Nat) (i : Int) : normBound n i ≤ n := by
  unfold normBound; split <;> omega

theorem normStart_le (n : Nat) (s : Sl) : normStart n s ≤ n := by
  unfold normStart; split
  · omega
  · exact normBound_le n _

theorem normStop_le (n : Nat) (s : Sl) : normStop n s ≤ n := by
  unfold normStop; split
  · omega
  · exact normBound_le n _

/-- Python semantics of the bounds, stated outright. -/
theorem normBound_spec (n : Nat) (i : Int) :
    (0 ≤ i → (normBound n i : Int) = min i n) ∧ (i < 0 → (normBound n i : Int) = max (i + n) 0) := by
  unfold normBound
  constructor
  · intro h; split <;> omega
  · intro h; split <;> omega

/-- **Cells**: a 1-d slice returns exactly the cells `a … b-1`, in the same order. -/
theorem slice_cells {α : Type} (l : List α) (s : Sl) (j : Nat) :
    (sliceList l s)[j]? =
      if j < normStop l.length s - normStart l.length s then l[normStart l.length s + j]? else none := by
  unfold sliceList
  rw [List.getElem?_take]
  split
  · rw [List.getElem?_drop]
  · rfl

theorem slice_length {α : Type} (l : List α) (s : Sl) :
    (sliceList l s).length = normStop l.length s - normStart l.length s := by
  unfold sliceList
  have := normStop_le l.length s
  rw [List.length_take, List.length_drop]
  omega

/-- **Edges**: on an axis whose bins are the `n+1` edges, a non-empty selection `[a, b)` keeps exactly the
edges `a … b` (`b - a + 1` of them, same order) — repaired code. -/
theorem slice_bins_edges (n : Nat) (e : List Int) (s : Sl) (he : e.length = n + 1)
    (hne : normStart n s < normStop n s) :
    binsItem false n e s = (e.drop (normStart n s)).take (normStop n s - normStart n s + 1) := by
  have hlen : ¬ e.length = n := by omega
  unfold binsItem sliceList
  simp only [hlen, if_false, Bool.false_eq_true]
  have hbn := normStop_le n s
  have ha : normStart e.length (binsSlice n s) = normStart n s := by
    rw [he]
    rcases s with ⟨_ | i, _ | st⟩ <;> simp only [binsSlice, normStart, normStop, normBound] at hne hbn ⊢ <;>
      (repeat' split) <;> (repeat' split at hne) <;> omega
  have hb : normStop e.length (binsSlice n s) = normStop n s + 1 := by
    rw [he]
    rcases s with ⟨_ | i, _ | st⟩ <;> simp only [binsSlice, normStart, normStop, normBound] at hne ⊢ <;>
      (repeat' split) <;> (repeat' split at hne) <;> omega
  rw [ha, hb]
  congr 1
  omega

/-- **Centres**: on an axis whose bins are the `n` centres, the bins of the result are the centres
`a … b-1` (same order). -/
theorem slice_bins_centres (pinned : Bool) (n : Nat) (c : List Int) (s : Sl) (hc : c.length = n) :
    binsItem pinned n c s = (c.drop (normStart n s)).take (normStop n s - normStart n s) := by
  unfold binsItem sliceList
  simp [hc]

/-- The result is well formed on every axis: `b-a` cells with `b-a+1` edges or `b-a` centres. -/
theorem slice_wf (n : Nat) (bins : List Int) (s : Sl) (h : bins.length = n ∨ bins.length = n + 1)
    (hne : normStart n s < normStop n s) :
    (binsItem false n bins s).length = normStop n s - normStart n s ∨
    (binsItem false n bins s).length = normStop n s - normStart n s + 1 := by
  have hb := normStop_le n s
  rcases h with h | h
  · left
    rw [slice_bins_centres false n bins s h, List.length_take, List.length_drop]; omega
  · right
    rw [slice_bins_edges n bins s h hne, List.length_take, List.length_drop]; omega

/-- A selection that retains no cell on some axis is empty on that axis. -/
theorem empty_selection_empty {α : Type} (l : List α) (s : Sl)
    (h : normStop l.length s ≤ normStart l.length s) : sliceList l s = [] := by
  apply List.eq_nil_of_length_eq_zero
  rw [slice_length]; omega

/-- The pinned `_get_bins_slice` is wrong for a negative start on an axis with edges (finding A10):
4 cells / 5 edges, `[-2:]` keeps 2 cells but only 2 edges. -/
theorem c09_pinned_refuted :
    let s : Sl := { start := some (-2), stop := none }
    normStop 4 s - normStart 4 s = 2 ∧ binsItem true 4 [0, 1, 2, 3, 4] s = [3, 4] ∧
    binsItem false 4 [0, 1, 2, 3, 4] s = [2, 3, 4] := by decide

/-! ### N-d -/

def prod (l : List Nat) : Nat := l.foldl (· * ·) 1

theorem prod_cons (n : Nat) (l : List Nat) : prod (n :: l) = n * prod l := by
  unfold prod
  simp only [List.foldl_cons, Nat.one_mul]
  have : ∀ (l : List Nat) (k : Nat), l.foldl (· * ·) k = k * l.foldl (· * ·) 1 := by
    intro l
    induction l with
    | nil => intro k; simp
    | cons a t ih => intro k; simp only [List.foldl_cons, Nat.one_mul]; rw [ih (k * a), ih a, Nat.mul_assoc]
  exact this l n

theorem sum_const (k c : Nat) (f : Nat → Nat) (h : ∀ i < k, f i = c) : ((List.range k).map f).sum = k * c := by
  induction k with
  | zero => simp
  | succ k ih =>
    rw [List.range_succ, List.map_append, List.sum_append, ih (fun i hi => h i (by omega))]
    simp [h k (by omega), Nat.succ_mul]

/-- The N-d result has exactly `∏ (b_k - a_k)` cells (row-major), for any number of dimensions. -/
theorem sliceND_length {α : Type} (shape : List Nat) (ss : List Sl) (flat : List α)
    (hs : ss.length = shape.length) (hf : flat.length = prod shape) :
    (sliceND shape ss flat).length = prod (sliceShape shape ss) := by
  induction shape generalizing ss flat with
  | nil =>
    cases ss with
    | nil => simp [sliceND, sliceShape, hf]
    | cons _ _ => simp at hs
  | cons n shape ih =>
    cases ss with
    | nil => simp at hs
    | cons s ss =>
      simp only [List.length_cons, Nat.add_right_cancel_iff] at hs
      simp only [sliceND, sliceShape, prod_cons, List.length_flatMap]
      rw [prod_cons] at hf
      apply sum_const
      intro i hi
      apply ih ss _ hs
      have hb := normStop_le n s
      have hle : (normStart n s + i + 1) * prod shape ≤ n * prod shape := Nat.mul_le_mul_right _ (by omega)
      rw [List.length_take, List.length_drop, hf]
      change min (prod shape) _ = prod shape
      have : (normStart n s + i + 1) * prod shape = (normStart n s + i) * prod shape + prod shape := by
        rw [Nat.add_mul, Nat.one_mul]
      unfold prod at *
      omega

/-- row-major offset of a multi-index -/
def offset : List Nat → List Nat → Nat
  | n :: shape, i :: idx => i * prod shape + offset shape idx
  | _, _ => 0

def InBounds : List Nat → List Nat → Prop
  | n :: shape, i :: idx => i < n ∧ InBounds shape idx
  | [], [] => True
  | _, _ => False

def shift : List Nat → List Sl → List Nat → List Nat
  | n :: shape, s :: ss, i :: idx => (normStart n s + i) :: shift shape ss idx
  | _, _, _ => []

theorem offset_lt (shape idx : List Nat) (h : InBounds shape idx) : offset shape idx < prod shape := by
  induction shape generalizing idx with
  | nil =>
    cases idx with
    | nil => simp [offset, prod]
    | cons _ _ => simp [InBounds] at h
  | cons n shape ih =>
    cases idx with
    | nil => simp [InBounds] at h
    | cons i idx =>
      simp only [InBounds] at h
      rw [offset, prod_cons]
      have h2 := ih idx h.2
      calc i * prod shape + offset shape idx < i * prod shape + prod shape := by omega
        _ = (i + 1) * prod shape := by rw [Nat.add_mul, Nat.one_mul]
        _ ≤ n * prod shape := Nat.mul_le_mul_right _ (by omega)

theorem inBounds_shift (shape : List Nat) (ss : List Sl) (idx : List Nat) (hs : ss.length = shape.length)
    (h : InBounds (sliceShape shape ss) idx) : InBounds shape (shift shape ss idx) := by
  induction shape generalizing ss idx with
  | nil =>
    cases ss with
    | nil => cases idx <;> simp_all [sliceShape, InBounds, shift]
    | cons _ _ => simp at hs
  | cons n shape ih =>
    cases ss with
    | nil => simp at hs
    | cons s ss =>
      cases idx with
      | nil => simp [sliceShape, InBounds] at h
      | cons i idx =>
        simp only [List.length_cons, Nat.add_right_cancel_iff] at hs
        simp only [sliceShape, InBounds] at h
        have := normStop_le n s
        exact ⟨by omega, ih ss idx hs h.2⟩

theorem getElem?_flatMap_const {α : Type} (k c : Nat) (f : Nat → List α) (hlen : ∀ i < k, (f i).length = c)
    (i j : Nat) (hi : i < k) (hj : j < c) :
    ((List.range k).flatMap f)[i * c + j]? = (f i)[j]? := by
  induction k with
  | zero => omega
  | succ k ih =>
    rw [List.range_succ, List.flatMap_append]
    have hl : ((List.range k).flatMap f).length = k * c := by
      rw [List.length_flatMap]; exact sum_const k c _ (fun i hi => hlen i (by omega))
    by_cases hik : i < k
    · have : i * c + j < k * c := by
        calc i * c + j < i * c + c := by omega
          _ = (i + 1) * c := by rw [Nat.add_mul, Nat.one_mul]
          _ ≤ k * c := Nat.mul_le_mul_right _ (by omega)
      rw [List.getElem?_append_left (by rw [hl]; exact this)]
      exact ih (fun i hi => hlen i (by omega)) hik
    · have hik' : i = k := by omega
      subst hik'
      rw [List.getElem?_append_right (by rw [hl]; omega), hl]
      simp

/-- **Cells, N-d**: the cell at multi-index `idx` of the result is the cell at `a + idx` of the original,
for every number of dimensions (induction over the axes). -/
theorem sliceND_cells {α : Type} (shape : List Nat) (ss : List Sl) (flat : List α) (idx : List Nat)
    (hs : ss.length = shape.length) (hf : flat.length = prod shape)
    (hin : InBounds (sliceShape shape ss) idx) :
    (sliceND shape ss flat)[offset (sliceShape shape ss) idx]? = flat[offset shape (shift shape ss idx)]? := by
  induction shape generalizing ss flat idx with
  | nil =>
    cases ss with
    | nil => simp [sliceND, sliceShape, offset]
    | cons _ _ => simp at hs
  | cons n shape ih =>
    cases ss with
    | nil => simp at hs
    | cons s ss =>
      cases idx with
      | nil => simp [sliceShape, InBounds] at hin
      | cons i idx =>
        simp only [List.length_cons, Nat.add_right_cancel_iff] at hs
        simp only [sliceShape, InBounds] at hin
        rw [prod_cons] at hf
        have hb := normStop_le n s
        have chunk : ∀ k, k < normStop n s - normStart n s →
            ((flat.drop ((normStart n s + k) * prod shape)).take (prod shape)).length = prod shape := by
          intro k hk
          have hle : (normStart n s + k + 1) * prod shape ≤ n * prod shape := Nat.mul_le_mul_right _ (by omega)
          have : (normStart n s + k + 1) * prod shape = (normStart n s + k) * prod shape + prod shape := by
            rw [Nat.add_mul, Nat.one_mul]
          rw [List.length_take, List.length_drop, hf]
          omega
        have hlen : ∀ k, k < normStop n s - normStart n s →
            (sliceND shape ss ((flat.drop ((normStart n s + k) * prod shape)).take (prod shape))).length
              = prod (sliceShape shape ss) := fun k hk => sliceND_length shape ss _ hs (chunk k hk)
        simp only [sliceND, sliceShape, offset, shift]
        change ((List.range (normStop n s - normStart n s)).flatMap fun k =>
            sliceND shape ss ((flat.drop ((normStart n s + k) * prod shape)).take (prod shape)))[_]? = _
        have hlt := offset_lt (sliceShape shape ss) idx hin.2
        have hlt2 := offset_lt shape (shift shape ss idx) (inBounds_shift shape ss idx hs hin.2)
        rw [getElem?_flatMap_const _ (prod (sliceShape shape ss)) _ hlen i _ hin.1 hlt]
        rw [ih ss _ idx hs (chunk i hin.1) hin.2]
        rw [List.getElem?_take, if_pos hlt2, List.getElem?_drop]

/-! ### squeeze -/

/-- Squeezing a dataset with one bins entry per axis and no empty axis removes exactly the axes of
length one together with their bins; cells are untouched and the result has again one bins entry per axis. -/
theorem squeeze_drops_unit_axes (d : DS) (hb : d.bins.length = d.shape.length) (h0 : ∀ n ∈ d.shape, n ≠ 0) :
    (squeeze d).shape = d.shape.filter (· ≠ 1) ∧
    (squeeze d).bins = ((d.bins.zip d.shape).filter (fun kb => kb.2 ≠ 1)).map (·.1) ∧
    (squeeze d).bins.length = (squeeze d).shape.length ∧
    (squeeze d).value = d.value := by
  refine ⟨rfl, ?_, ?_, rfl⟩
  · unfold squeeze
    simp only
    congr 1
    apply List.filter_congr
    intro kb hkb
    have := h0 kb.2 (List.of_mem_zip hkb).2
    simp only [decide_eq_decide]
    omega
  · unfold squeeze
    simp only [List.length_map]
    have key : ∀ (bs : List (String × List Int)) (sh : List Nat), bs.length = sh.length → (∀ n ∈ sh, n ≠ 0) →
        ((bs.zip sh).filter (fun kb => decide (¬ kb.2 < 2))).length = (sh.filter (fun n => decide (n ≠ 1))).length := by
      intro bs
      induction bs with
      | nil => intro sh h _; cases sh <;> simp_all
      | cons b bs ih =>
        intro sh h h0
        cases sh with
        | nil => simp at h
        | cons n sh =>
          simp only [List.length_cons, Nat.add_right_cancel_iff] at h
          have hn := h0 n (by simp)
          have := ih sh h (fun m hm => h0 m (by simp [hm]))
          simp only [List.zip_cons_cons, List.filter_cons]
          by_cases h1 : n = 1
          · subst h1; simpa using this
          · have h2 : ¬ n < 2 := by omega
            simp only [h1, h2, not_false_eq_true, decide_true, if_true, List.length_cons, this, ne_eq]
    exact key d.bins d.shape hb h0

/-! Non-vacuity -/
example : normStart 4 ⟨some (-3), some (-1)⟩ < normStop 4 ⟨some (-3), some (-1)⟩ := by decide
example : binsItem false 4 [10, 11, 12, 13, 14] ⟨some (-3), some (-1)⟩ = [11, 12, 13] := by decide
example : sliceND [2, 3] [⟨some 1, none⟩, ⟨none, some 2⟩] [0, 1, 2, 3, 4, 5] = [3, 4] := by decide
example : (squeeze ⟨[1, 3, 1], [7, 8, 9], [("a", [0, 1]), ("b", [0, 1, 2, 3]), ("c", [5])]⟩).bins = [("b", [0, 1, 2, 3])] := by
  decide

end Slice
