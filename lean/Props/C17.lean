import Proofs.Browser

/-!
# C17 — browser selections return exactly the items that match

Property theorems about `Model/Browser.lean` (transcription of `valjean/eponine/browser.py`).
`WF b` : the browser was produced by the constructor from dicts (distinct keys per item).
-/
namespace Browser

/-- The inverted index is exact: position `p` is recorded under `index[k][v]` iff item `p` exists,
`k` is not the data key and the item has `k ↦ v`. -/
theorem index_spec (b : Browser) (h : WF b) (k : String) (v : Val) (p : Nat) :
    p ∈ idxGet b.index k v ↔ ∃ it, b.content[p]? = some it ∧ k ≠ b.dataKey ∧ Item.get it k = some v := by
  have hnd := wf_content_nodup h
  obtain ⟨c, _, e⟩ := h
  have hidx : b.index = buildIndexFrom b.dataKey [] 0 b.content := by
    rw [e]; rfl
  rw [hidx, mem_idxGet_buildIndexFrom]
  constructor
  · rintro (⟨i, it, h1, h2, h3, h4⟩ | h)
    · have : p = i := by omega
      subst this
      exact ⟨it, h1, h3, (get_eq_some_of_mem (hnd it (List.mem_of_getElem? h1))).mp h4⟩
    · simp [idxGet_nil] at h
  · rintro ⟨it, h1, h2, h3⟩
    exact Or.inl ⟨p, it, h1, by omega, h2, (get_eq_some_of_mem (hnd it (List.mem_of_getElem? h1))).mpr h3⟩

theorem filterIds_go (b : Browser) (kw : List (String × Val)) (ids : List Nat) :
    filterIds.go b ids kw = ids.filter (fun p => kw.all (fun kv => decide (p ∈ idxGet b.index kv.1 kv.2))) := by
  induction kw generalizing ids with
  | nil =>
    simp only [filterIds.go, List.all_nil]
    exact (List.filter_eq_self.mpr (fun _ _ => rfl)).symm
  | cons hd tl ih =>
    obtain ⟨k, v⟩ := hd
    simp only [filterIds.go, List.all_cons]
    cases hk : idxKey b.index k with
    | none =>
      simp only [idxGet, hk, List.not_mem_nil, decide_false, Bool.false_and]
      simp
    | some vs =>
      simp only
      cases hv : valGet vs v with
      | none =>
        simp only [idxGet, hk, hv, Option.getD_none, List.not_mem_nil, decide_false, Bool.false_and]
        simp
      | some ps =>
        simp only [ih, List.filter_filter, idxGet, hk, hv, Option.getD_some]
        congr 1
        funext p
        rw [Bool.and_comm]

/-- `_filter_items_id_by`: the early exits and the set intersections select exactly the positions
recorded in every requested index entry, in increasing order. -/
theorem filterIds_spec (b : Browser) (kw : List (String × Val)) :
    filterIds b kw = (List.range b.content.length).filter
      (fun p => kw.all (fun kv => decide (p ∈ idxGet b.index kv.1 kv.2))) := by
  simp [filterIds, filterIds_go]

/-- The items picked by `filter_by`/`select_by` are exactly those a direct scan of the content
selects, in their original order. -/
theorem pick_eq_scan (b : Browser) (h : WF b) (kw : List (String × Val)) (incl excl : List String) :
    pick b kw incl excl = scan b kw incl excl := by
  unfold pick scan
  rw [filterIds_spec, filterMap_range_filter b.content _ (fun it => matchesKw b.dataKey it kw), List.filter_filter]
  · congr 1
    funext it
    rw [Bool.and_comm]
  · intro i it hi
    unfold matchesKw
    congr 1
    funext kv
    have := index_spec b h kv.1 kv.2 i
    by_cases hm : i ∈ idxGet b.index kv.1 kv.2
    · obtain ⟨it', h1, h2, h3⟩ := this.mp hm
      rw [hi] at h1
      cases h1
      simp [hm, h2, h3]
    · have hn : ¬ (kv.1 ≠ b.dataKey ∧ Item.get it kv.1 = some kv.2) := by
        intro ⟨h2, h3⟩
        exact hm (this.mpr ⟨it, hi, h2, h3⟩)
      simp only [hm, decide_false]
      by_cases h2 : kv.1 = b.dataKey
      · simp [h2]
      · have h3 : ¬ Item.get it kv.1 = some kv.2 := fun h3 => hn ⟨h2, h3⟩
        simp [h3]

/-- `filter_by` returns a browser whose content is the direct scan (re-numbered by the constructor). -/
theorem filter_eq_scan (b : Browser) (h : WF b) (kw : List (String × Val)) (incl excl : List String) :
    (filterBy b kw incl excl).content = reindexFrom 0 (scan b kw incl excl) := by
  simp [filterBy, mk', pick_eq_scan b h]

/-- … with the same global variables and the same data key (repaired code, finding A20). -/
theorem filter_keeps_globals_datakey (b : Browser) (kw : List (String × Val)) (incl excl : List String) :
    (filterBy b kw incl excl).globals = b.globals ∧ (filterBy b kw incl excl).dataKey = b.dataKey := by
  simp [filterBy, mk']

/-- The pinned code loses a custom data key (A20). -/
theorem filter_pinned_refuted :
    ∃ b : Browser, WF b ∧ (filterByPinned b [] [] []).dataKey ≠ b.dataKey :=
  ⟨mk' [[("data", .atom 0)]] "data" [], wf_mk' _ _ _ (by simp [Item.keys]), by decide⟩

/-- `select_by` returns the unique match, `NoItem` iff nothing matches, `TooMany` iff several do. -/
theorem select_single_or_error (b : Browser) (h : WF b) (kw : List (String × Val)) (incl excl : List String) :
    selectBy b kw incl excl =
      match scan b kw incl excl with
      | [] => .error .noItem
      | [it] => .ok it
      | _ => .error .tooMany := by
  simp only [selectBy, pick_eq_scan b h]
  generalize scan b kw incl excl = l
  rcases l with _ | ⟨a, _ | ⟨b, t⟩⟩ <;> rfl

/-- `merge` yields the concatenation (re-numbered), or fails only on different data keys. -/
theorem merge_concat (a b : Browser) :
    (a.dataKey = b.dataKey → ∃ r, merge a b = some r ∧ r.content = reindexFrom 0 (a.content ++ b.content)
        ∧ r.dataKey = a.dataKey) ∧
    (a.dataKey ≠ b.dataKey → merge a b = none) := by
  constructor
  · intro h
    exact ⟨mk' (a.content ++ b.content) a.dataKey (dictUpdate a.globals b.globals), by simp [merge, h], rfl, rfl⟩
  · intro h
    simp [merge, h]

theorem wf_filterBy (b : Browser) (h : WF b) (kw : List (String × Val)) (incl excl : List String) :
    WF (filterBy b kw incl excl) := by
  apply wf_mk'
  intro it hit
  rw [pick_eq_scan b h] at hit
  exact wf_content_nodup h it (List.mem_filter.mp hit).1

theorem wf_merge (a b r : Browser) (ha : WF a) (hb : WF b) (h : merge a b = some r) : WF r := by
  unfold merge at h
  split at h
  · cases h
  · cases h
    apply wf_mk'
    intro it hit
    rcases List.mem_append.mp hit with h1 | h1
    · exact wf_content_nodup ha it h1
    · exact wf_content_nodup hb it h1

/-- A query of a chain: keyword selections, required keys, forbidden keys. -/
abbrev Query := List (String × Val) × List String × List String

/-- Any chain of filters starting from a constructed browser: every intermediate browser is well
formed and every step equals the direct scan of the previous step's content (induction over the chain). -/
theorem chain_eq_scan (qs : List Query) (b : Browser) (h : WF b) :
    WF (qs.foldl (fun b q => filterBy b q.1 q.2.1 q.2.2) b) ∧
    ∀ (pre : List Query) (q : Query) (post : List Query), qs = pre ++ q :: post →
      let b' := pre.foldl (fun b q => filterBy b q.1 q.2.1 q.2.2) b
      (filterBy b' q.1 q.2.1 q.2.2).content = reindexFrom 0 (scan b' q.1 q.2.1 q.2.2) ∧
      (filterBy b' q.1 q.2.1 q.2.2).dataKey = b.dataKey ∧ (filterBy b' q.1 q.2.1 q.2.2).globals = b.globals := by
  have wfall : ∀ (l : List Query) (b : Browser), WF b → WF (l.foldl (fun b q => filterBy b q.1 q.2.1 q.2.2) b) := by
    intro l
    induction l with
    | nil => intro b hb; exact hb
    | cons q l ih => intro b hb; exact ih _ (wf_filterBy b hb _ _ _)
  have keep : ∀ (l : List Query) (b : Browser),
      (l.foldl (fun b q => filterBy b q.1 q.2.1 q.2.2) b).dataKey = b.dataKey ∧
      (l.foldl (fun b q => filterBy b q.1 q.2.1 q.2.2) b).globals = b.globals := by
    intro l
    induction l with
    | nil => intro b; exact ⟨rfl, rfl⟩
    | cons q l ih =>
      intro b
      have := ih (filterBy b q.1 q.2.1 q.2.2)
      simpa [filterBy, mk'] using this
  refine ⟨wfall qs b h, ?_⟩
  intro pre q post _
  refine ⟨filter_eq_scan _ (wfall pre b h) _ _ _, ?_, ?_⟩
  · have := (keep pre b).1
    simpa [filterBy, mk'] using this
  · have := (keep pre b).2
    simpa [filterBy, mk'] using this

/-! Non-vacuity: a concrete well-formed browser with a proper, non-empty selection. -/
def exB : Browser :=
  mk' [[("menu", .int 1), ("drink", .atom 0), ("results", .atom 7)],
       [("menu", .int 2), ("results", .atom 8)],
       [("drink", .atom 0), ("menu", .int 1), ("results", .atom 9)]] "results" [("g", .int 3)]

example : WF exB := wf_mk' _ _ _ (by decide)
example : (scan exB [("menu", .int 1)] ["drink"] []).length = 2 := by decide
example : (filterBy exB [("menu", .int 1)] ["drink"] []).content.length = 2 := by decide
example : selectBy exB [("menu", .int 2)] [] [] =
    .ok [("menu", .int 2), ("results", .atom 8), ("index", .int 1)] := by rfl

end Browser
