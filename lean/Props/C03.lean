import Props.C01
import Proofs.SchedLive
import Proofs.SchedTerm
/-!
# C03 — scheduling always terminates and leaves no worker thread behind

Model: `Model/Sched.lean`.  Deadlock is the property's own definition: no runnable thread while some thread is
unfinished.  `no_deadlock` holds in every reachable state, i.e. for every graph (cyclic ones included), every worker
count ≥ 1, every task outcome, every initial environment and every interleaving.  `clean_exit` describes the state in
which every thread has finished.  Termination proper (every execution is finite) is `always_terminates` /
`bounded_executions`: a natural-number measure (`Proofs/SchedTerm.lean`, `mu`) strictly decreases at every step of every
thread, so no execution from a reachable state has more than `mu` steps, and with `no_deadlock` every maximal execution
ends in the state described by `clean_exit`.
-/
namespace Sched
set_option linter.unusedVariables false

theorem cnt_const_false (p : WPc → Bool) (f : Nat → WPc) (n : Nat) (h : ∀ w, p (f w) = false) : cnt p f n = 0 :=
  (cnt_zero_iff p f n).2 (fun w _ => h w)

theorem InvC_init {c : Cfg} (hw : 0 < c.workers) (env : Env) (clk : Nat) : InvC c (init c env [] 0 clk) := by
  have hmpc : (init c env [] 0 clk).mpc = if c.cyclic then .raised else .spawn 0 := by
    simp only [init]
    split
    · rfl
    · have : c.workers ≠ 0 := by omega
      simp [this]
  by_cases hcyc : c.cyclic = true
  · have hm : (init c env [] 0 clk).mpc = .raised := by rw [hmpc, if_pos hcyc]
    exact {
      unstarted := by intro w _; rfl
      started := by rw [hm]; intro w; rfl
      count := by show 0 = 0 + cnt owes (fun _ => WPc.notStarted) c.workers; rw [cnt_const_false _ _ _ (fun _ => rfl)]
      cond_master := by rw [hm]; simp [holdsCond, init]
      cond_worker := by intro w; simp [init]
      sentinels := by
        rw [hm]; show nones [] + cnt gone (fun _ => WPc.notStarted) c.workers = 0
        rw [cnt_const_false _ _ _ (fun _ => rfl)]; rfl
      sentinel_lt := by intro k hk; rw [hm] at hk; cases hk
      join_lt := by intro k hk; rw [hm] at hk; cases hk
      returned_exited := by intro hk; rw [hm] at hk; cases hk
      after_loop := by intro hk; rw [hm] at hk; cases hk
      after_join := by intro hk; rw [hm] at hk; cases hk
      waiting_iff := by rw [hm]; simp [init]
      pass_work := by intro hk; rw [hm] at hk; cases hk
      sleep_work := by intro hk; rw [hm] at hk; cases hk
      pending_inflight := by
        intro t x ht hu; exfalso; apply hu; left; show t ∈ List.range c.n; simp [ht]
      consider_todo := by intro hk; rw [hm] at hk; cases hk
      spawn_todo := by intro k hk; rw [hm] at hk; cases hk
      acq_todo := by intro hk; rw [hm] at hk; cases hk
      wake_left := by intro hk; rw [hm] at hk; cases hk }
  · have hm : (init c env [] 0 clk).mpc = .spawn 0 := by rw [hmpc, if_neg hcyc]
    exact {
      unstarted := by intro w _; rfl
      started := by
        rw [hm]; refine ⟨hw, ?_⟩
        intro w _; constructor
        · intro h; omega
        · intro h; exact absurd rfl h
      count := by show 0 = 0 + cnt owes (fun _ => WPc.notStarted) c.workers; rw [cnt_const_false _ _ _ (fun _ => rfl)]
      cond_master := by rw [hm]; simp [holdsCond, init]
      cond_worker := by intro w; simp [init]
      sentinels := by
        rw [hm]; show nones [] + cnt gone (fun _ => WPc.notStarted) c.workers = 0
        rw [cnt_const_false _ _ _ (fun _ => rfl)]; rfl
      sentinel_lt := by intro k hk; rw [hm] at hk; cases hk
      join_lt := by intro k hk; rw [hm] at hk; cases hk
      returned_exited := by intro hk; rw [hm] at hk; cases hk
      after_loop := by intro hk; rw [hm] at hk; cases hk
      after_join := by intro hk; rw [hm] at hk; cases hk
      waiting_iff := by rw [hm]; simp [init]
      pass_work := by intro hk; rw [hm] at hk; cases hk
      sleep_work := by intro hk; rw [hm] at hk; cases hk
      pending_inflight := by
        intro t x ht hu; exfalso; apply hu; left; show t ∈ List.range c.n; simp [ht]
      consider_todo := by intro hk; rw [hm] at hk; cases hk
      spawn_todo := by intro k _; exact ⟨rfl, rfl⟩
      acq_todo := by intro hk; rw [hm] at hk; cases hk
      wake_left := by intro hk; rw [hm] at hk; cases hk }

/-- both invariants hold in every reachable state -/
theorem Inv_reach {c : Cfg} (hc : c.WF) {s0 s : State} (ha : InvA c s0) (hcc : InvC c s0) (hr : Reach c s0 s) :
    InvA c s ∧ InvC c s := by
  induction hr with
  | init => exact ⟨ha, hcc⟩
  | step _ hs ih => exact ⟨InvA_step hc ih.1 hs, InvC_step hc ih.1 ih.2 hs⟩

theorem enabled_ne_nil_of_master {c : Cfg} {s : State} (h : enabledMaster s = true) : enabled c s ≠ [] := by
  simp [enabled, h]

theorem enabled_ne_nil_of_worker {c : Cfg} {s : State} {w : Nat} (hw : w < c.workers) (h : enabledWorker s w = true) :
    enabled c s ≠ [] := by
  intro he
  have : w + 1 ∈ enabled c s := by
    simp only [enabled, List.mem_append, List.mem_map, List.mem_filter, List.mem_range]
    right; exact ⟨w, ⟨hw, h⟩, rfl⟩
  rw [he] at this; simp at this

/-- a worker that is not blocked on the queue, not exited and not waiting for the condition variable can move -/
theorem enabledWorker_of {s : State} {w : Nat} (h1 : s.wpc w ≠ .notStarted) (h2 : s.wpc w ≠ .exited)
    (h3 : s.wpc w = .get → s.queue ≠ []) (h4 : s.wpc w = .cacq → s.condOwner = none) : enabledWorker s w = true := by
  unfold enabledWorker
  cases hpc : s.wpc w with
  | notStarted => exact absurd hpc h1
  | exited => exact absurd hpc h2
  | get => have := h3 hpc; simp; exact this
  | cacq => simp [h4 hpc]
  | begin | timeStart _ | timeEnd _ _ | apply _ _ _ | clocks _ _ _ | status _ | taskDone | notify | sentinelDone => rfl

/-- when the condition variable is not free and the master does not hold it, the worker that holds it can move -/
theorem notifier_enabled {c : Cfg} {s : State} (h : InvC c s) (hm : holdsCond s.mpc = false) (hco : s.condOwner ≠ none) :
    enabled c s ≠ [] := by
  cases hc : s.condOwner with
  | none => exact absurd hc hco
  | some o =>
    cases o with
    | zero => have := h.cond_master.2 hc; rw [hm] at this; cases this
    | succ w =>
      have hw := (h.cond_worker w).2 hc
      exact enabled_ne_nil_of_worker (h.worker_lt (by rw [hw]; simp)) (by unfold enabledWorker; rw [hw])

/-- **No deadlock**: in every reachable state in which some thread is unfinished, some thread is runnable — for every
graph (cyclic or not), worker count ≥ 1, task outcomes, initial environment and interleaving. -/
theorem no_deadlock {c : Cfg} (hc : c.WF) (hw : 0 < c.workers) (env : Env) (clk : Nat) (he : EnvOK env) {s : State}
    (hr : Reach c (init c env [] 0 clk) s) (hnt : terminal c s = false) : enabled c s ≠ [] := by
  obtain ⟨ha, h⟩ := Inv_reach hc (InvA_init env [] 0 clk he rfl) (InvC_init hw env clk) hr
  -- every started, non-exited worker that is neither waiting on an empty queue nor on the lock can move
  have hst := h.started
  cases hm : s.mpc with
  | spawn k => exact enabled_ne_nil_of_master (by unfold enabledMaster; rw [hm])
  | consider => exact enabled_ne_nil_of_master (by unfold enabledMaster; rw [hm])
  | put t => exact enabled_ne_nil_of_master (by unfold enabledMaster; rw [hm])
  | sentinel k => exact enabled_ne_nil_of_master (by unfold enabledMaster; rw [hm])
  | acq =>
    by_cases hco : s.condOwner = none
    · exact enabled_ne_nil_of_master (by unfold enabledMaster; rw [hm]; simp [hco])
    · exact notifier_enabled h (by rw [hm]; rfl) hco
  | wake =>
    rw [hm] at hst
    by_cases hco : s.condOwner = none
    · by_cases hn : s.notified = true
      · exact enabled_ne_nil_of_master (by unfold enabledMaster; rw [hm]; simp [hn, hco])
      · have hn' : s.notified = false := by simpa using hn
        rcases h.sleep_work hm hn' with ⟨t, ht⟩ | ⟨t, ht⟩ | ⟨w, hwl, hwn⟩
        · -- a task is queued: worker 0 is either able to take it or busy (hence runnable)
          have h0 := hst 0 hw
          have hex : s.wpc 0 ≠ .exited := by
            intro e
            have hs := h.sentinels; rw [hm] at hs
            have : 0 < cnt gone s.wpc c.workers := (cnt_pos_iff _ _ _).2 ⟨0, hw, by rw [e]; rfl⟩
            simp [sentinelsPut] at hs; omega
          exact enabled_ne_nil_of_worker hw (enabledWorker_of h0 hex (by intro _ e; rw [e] at ht; simp at ht) (fun _ => hco))
        · rw [hm] at ht; cases ht
        · have h1 : s.wpc w ≠ .notStarted := by intro e; rw [e] at hwn; cases hwn
          have h2 : s.wpc w ≠ .exited := by intro e; rw [e] at hwn; cases hwn
          exact enabled_ne_nil_of_worker hwl (enabledWorker_of h1 h2 (by intro e; rw [e] at hwn; cases hwn) (fun _ => hco))
    · exact notifier_enabled h (by rw [hm]; rfl) hco
  | qjoin =>
    rw [hm] at hst
    by_cases hu : s.unfinished = 0
    · exact enabled_ne_nil_of_master (by unfold enabledMaster; rw [hm]; simp [hu])
    · by_cases hco : s.condOwner = none
      · -- some item is unfinished: it is in the queue, or a worker owes its task_done
        have hcount := h.count
        by_cases hq : s.queue = []
        · have : 0 < cnt owes s.wpc c.workers := by rw [hq] at hcount; simp at hcount; omega
          obtain ⟨w, hwl, hwo⟩ := (cnt_pos_iff _ _ _).1 this
          have h1 : s.wpc w ≠ .notStarted := by intro e; rw [e] at hwo; cases hwo
          have h2 : s.wpc w ≠ .exited := by intro e; rw [e] at hwo; cases hwo
          exact enabled_ne_nil_of_worker hwl (enabledWorker_of h1 h2 (by intro e; rw [e] at hwo; cases hwo) (fun _ => hco))
        · have h0 := hst 0 hw
          have hex : s.wpc 0 ≠ .exited := by
            intro e
            have hs := h.sentinels; rw [hm] at hs
            have : 0 < cnt gone s.wpc c.workers := (cnt_pos_iff _ _ _).2 ⟨0, hw, by rw [e]; rfl⟩
            simp [sentinelsPut] at hs; omega
          exact enabled_ne_nil_of_worker hw (enabledWorker_of h0 hex (fun _ => hq) (fun _ => hco))
      · exact notifier_enabled h (by rw [hm]; rfl) hco
  | joinW k =>
    rw [hm] at hst
    obtain ⟨hk, hex⟩ := h.join_lt k hm
    by_cases he' : s.wpc k = .exited
    · exact enabled_ne_nil_of_master (by unfold enabledMaster; rw [hm]; simp [he'])
    · by_cases hco : s.condOwner = none
      · -- worker k has not consumed its sentinel yet: one is waiting for it in the queue
        have hs := h.sentinels; rw [hm] at hs
        simp only [sentinelsPut] at hs
        have hq : s.wpc k = .get → s.queue ≠ [] := by
          intro hg hq
          rw [hq] at hs
          -- no sentinel queued: all workers are gone, in particular k
          have hall : cnt gone s.wpc c.workers = c.workers := by simpa [nones] using hs
          have : gone (s.wpc k) = true := by
            apply Classical.byContradiction
            intro hng
            have hng' : gone (s.wpc k) = false := by simpa using hng
            -- counting: moving k to `exited` would exceed the number of workers
            have hcu := cnt_upd gone s.wpc k .exited c.workers hk
            rw [hng'] at hcu
            have hle := cnt_le gone (upd s.wpc k .exited) c.workers
            simp [gone] at hcu; omega
          rw [hg] at this; cases this
        exact enabled_ne_nil_of_worker hk (enabledWorker_of (hst k hk) he' hq (fun _ => hco))
      · exact notifier_enabled h (by rw [hm]; rfl) hco
  | returned =>
    -- every worker has exited: the state is terminal
    exfalso
    have hall := h.returned_exited hm
    have : terminal c s = true := by
      simp only [terminal, masterDone, hm, Bool.and_eq_true, List.all_eq_true, List.mem_range]
      refine ⟨by simp, ?_⟩
      intro w hwl
      simp [workerDone, hall w hwl]
    rw [this] at hnt; cases hnt
  | raised =>
    exfalso
    rw [hm] at hst
    have : terminal c s = true := by
      simp only [terminal, masterDone, hm, Bool.and_eq_true, List.all_eq_true, List.mem_range]
      refine ⟨by simp, ?_⟩
      intro w _
      simp [workerDone, hst w]
    rw [this] at hnt; cases hnt

theorem advance_mpc_ne_raised (s : State) : (advance s).mpc ≠ .raised := by
  rcases advance_cases s with ⟨_, e⟩ | ⟨_, _, e⟩ | ⟨_, _, _, e⟩ | ⟨_, _, _, e⟩ <;> rw [e] <;> simp

/-- nothing happens after the topological sort has raised -/
theorem no_step_from_raised {c : Cfg} {s s' : State} (h : InvC c s) (hs : Step c s s') : s'.mpc ≠ .raised := by
  intro hr
  have hst := h.started
  cases hs with
  | mSpawn k hm => revert hr; show afterSpawn c k = _ → False; unfold afterSpawn; split <;> (try split) <;> simp
  | mAcq hm _ => cases hr
  | mWait _ _ _ _ _ _ => exact advance_mpc_ne_raised _ hr
  | mSkip _ _ _ _ _ _ => exact advance_mpc_ne_raised _ hr
  | mDrop _ _ _ _ _ _ => exact advance_mpc_ne_raised _ hr
  | mPending _ _ _ _ _ _ => cases hr
  | mPut _ _ => exact advance_mpc_ne_raised _ hr
  | mWake _ _ _ => cases hr
  | mQjoin _ _ => revert hr; show (if c.workers = 0 then MPc.returned else MPc.sentinel 0) = _ → False; split <;> simp
  | mSentinel k _ => revert hr; show (if k + 1 < c.workers then MPc.sentinel (k + 1) else MPc.joinW 0) = _ → False; split <;> simp
  | mJoin k _ _ => revert hr; show (if k + 1 < c.workers then MPc.joinW (k + 1) else MPc.returned) = _ → False; split <;> simp
  | wBegin w hw => have hr' : s.mpc = .raised := hr; rw [hr'] at hst; rw [hst w] at hw; cases hw
  | wGetTask w _ _ hw _ => have hr' : s.mpc = .raised := hr; rw [hr'] at hst; rw [hst w] at hw; cases hw
  | wGetSentinel w _ hw _ => have hr' : s.mpc = .raised := hr; rw [hr'] at hst; rw [hst w] at hw; cases hw
  | wTimeStart w _ hw => have hr' : s.mpc = .raised := hr; rw [hr'] at hst; rw [hst w] at hw; cases hw
  | wTimeEnd w _ _ hw => have hr' : s.mpc = .raised := hr; rw [hr'] at hst; rw [hst w] at hw; cases hw
  | wApply w _ _ _ hw => have hr' : s.mpc = .raised := hr; rw [hr'] at hst; rw [hst w] at hw; cases hw
  | wClocks w _ _ _ hw => have hr' : s.mpc = .raised := hr; rw [hr'] at hst; rw [hst w] at hw; cases hw
  | wStatus w _ hw => have hr' : s.mpc = .raised := hr; rw [hr'] at hst; rw [hst w] at hw; cases hw
  | wTaskDone w hw _ => have hr' : s.mpc = .raised := hr; rw [hr'] at hst; rw [hst w] at hw; cases hw
  | wCacq w hw _ => have hr' : s.mpc = .raised := hr; rw [hr'] at hst; rw [hst w] at hw; cases hw
  | wNotify w hw => have hr' : s.mpc = .raised := hr; rw [hr'] at hst; rw [hst w] at hw; cases hw
  | wSentinelDone w hw _ => have hr' : s.mpc = .raised := hr; rw [hr'] at hst; rw [hst w] at hw; cases hw

/-- a reachable state whose master has raised is the initial state -/
theorem reach_raised {c : Cfg} (hc : c.WF) {s0 s : State} (ha : InvA c s0) (hcc : InvC c s0) (hr : Reach c s0 s)
    (hm : s.mpc = .raised) : s = s0 := by
  cases hr with
  | init => rfl
  | step hprev hs =>
    obtain ⟨_, hc'⟩ := Inv_reach hc ha hcc hprev
    exact absurd hm (no_step_from_raised hc' hs)

/-- **Clean exit**: when every thread has finished, the call has returned or raised (raised exactly when the graph
is cyclic — in which case no worker was ever started), every worker has exited, the queue is empty and its counter of
unfinished items is back to zero: the next call on the same backend starts from the same state. -/
theorem clean_exit {c : Cfg} (hc : c.WF) (hw : 0 < c.workers) (env : Env) (clk : Nat) (he : EnvOK env) {s : State}
    (hr : Reach c (init c env [] 0 clk) s) (ht : terminal c s = true) :
    (s.mpc = .returned ∨ s.mpc = .raised) ∧ s.queue = [] ∧ s.unfinished = 0 ∧
    (s.mpc = .returned → ∀ w, w < c.workers → s.wpc w = .exited) ∧
    (s.mpc = .raised → ∀ w, s.wpc w = .notStarted) := by
  obtain ⟨ha, h⟩ := Inv_reach hc (InvA_init env [] 0 clk he rfl) (InvC_init hw env clk) hr
  simp only [terminal, masterDone, Bool.and_eq_true, Bool.or_eq_true, decide_eq_true_eq] at ht
  obtain ⟨hmd, _⟩ := ht
  have hst := h.started
  have hcount := h.count
  have hsent := h.sentinels
  rcases hmd with hm | hm
  · have hall := h.returned_exited hm
    have hgone : cnt gone s.wpc c.workers = c.workers := by
      have hz : cnt (fun pc => !gone pc) s.wpc c.workers = 0 :=
        (cnt_zero_iff _ _ _).2 (fun w hwl => by rw [hall w hwl]; rfl)
      -- all workers are gone
      have : ∀ n, n ≤ c.workers → cnt gone s.wpc n = n := by
        intro n hn
        induction n with
        | zero => rfl
        | succ k ih => rw [cnt_succ, ih (by omega), hall k (by omega)]; rfl
      exact this _ (Nat.le_refl _)
    have howes : cnt owes s.wpc c.workers = 0 :=
      (cnt_zero_iff _ _ _).2 (fun w hwl => by rw [hall w hwl]; rfl)
    rw [hm] at hsent
    simp only [sentinelsPut] at hsent
    have hn0 : nones s.queue = 0 := by omega
    have hq : s.queue = [] := by
      have hnt := (h.after_join (by rw [hm]; rfl)).1
      cases hqq : s.queue with
      | nil => rfl
      | cons x r =>
        exfalso
        cases x with
        | none => rw [hqq] at hn0; simp [nones] at hn0
        | some t => exact hnt t (by rw [hqq]; simp)
    exact ⟨Or.inl hm, hq, by rw [hcount, hq, howes]; rfl, fun _ => hall, (by intro h2; rw [hm] at h2; cases h2)⟩
  · rw [hm] at hst
    -- nothing ever happened: the only state with mpc = raised is the initial one, but we only need the counters
    have howes : cnt owes s.wpc c.workers = 0 := (cnt_zero_iff _ _ _).2 (fun w _ => by rw [hst w]; rfl)
    have hgone : cnt gone s.wpc c.workers = 0 := (cnt_zero_iff _ _ _).2 (fun w _ => by rw [hst w]; rfl)
    rw [hm] at hsent
    simp only [sentinelsPut] at hsent
    have hq : s.queue = [] := by
      rw [reach_raised hc (InvA_init env [] 0 clk he rfl) (InvC_init hw env clk) hr hm]; rfl
    exact ⟨Or.inr hm, hq, by rw [hcount, hq, howes]; rfl, (by intro h2; rw [hm] at h2; cases h2), fun _ => hst⟩

/-- from a state whose master has raised no thread can take a step -/
theorem raised_stuck {c : Cfg} {s s' : State} (h : InvC c s) (hm : s.mpc = .raised) (hs : Step c s s') : False := by
  have hst := h.started; rw [hm] at hst
  cases hs with
  | mSpawn k hm' => rw [hm] at hm'; cases hm'
  | mAcq hm' _ => rw [hm] at hm'; cases hm'
  | mWait _ _ _ hm' _ _ => rw [hm] at hm'; cases hm'
  | mSkip _ _ _ hm' _ _ => rw [hm] at hm'; cases hm'
  | mDrop _ _ _ hm' _ _ => rw [hm] at hm'; cases hm'
  | mPending _ _ _ hm' _ _ => rw [hm] at hm'; cases hm'
  | mPut _ hm' => rw [hm] at hm'; cases hm'
  | mWake hm' _ _ => rw [hm] at hm'; cases hm'
  | mQjoin hm' _ => rw [hm] at hm'; cases hm'
  | mSentinel k hm' => rw [hm] at hm'; cases hm'
  | mJoin k hm' _ => rw [hm] at hm'; cases hm'
  | wBegin w hw => rw [hst w] at hw; cases hw
  | wGetTask w _ _ hw _ => rw [hst w] at hw; cases hw
  | wGetSentinel w _ hw _ => rw [hst w] at hw; cases hw
  | wTimeStart w _ hw => rw [hst w] at hw; cases hw
  | wTimeEnd w _ _ hw => rw [hst w] at hw; cases hw
  | wApply w _ _ _ hw => rw [hst w] at hw; cases hw
  | wClocks w _ _ _ hw => rw [hst w] at hw; cases hw
  | wStatus w _ hw => rw [hst w] at hw; cases hw
  | wTaskDone w hw _ => rw [hst w] at hw; cases hw
  | wCacq w hw _ => rw [hst w] at hw; cases hw
  | wNotify w hw => rw [hst w] at hw; cases hw
  | wSentinelDone w hw _ => rw [hst w] at hw; cases hw

/-- **The call raises exactly when the dependency graph is cyclic** — and then before any worker is started. -/
theorem raises_iff_cyclic {c : Cfg} (hc : c.WF) (hw : 0 < c.workers) (env : Env) (clk : Nat) (he : EnvOK env) {s : State}
    (hr : Reach c (init c env [] 0 clk) s) : s.mpc = .raised ↔ c.cyclic = true := by
  have ha0 := InvA_init (c := c) env [] 0 clk he rfl
  have hc0 := InvC_init hw env clk
  have hinit : (init c env [] 0 clk).mpc = .raised ↔ c.cyclic = true := by
    simp only [init]
    constructor
    · intro h; split at h
      · assumption
      · split at h <;> (try split at h) <;> cases h
    · intro h; simp [h]
  constructor
  · intro hm
    have := reach_raised hc ha0 hc0 hr hm
    rw [this] at hm; exact hinit.1 hm
  · intro hcy
    -- every reachable state is the initial one
    have : s = init c env [] 0 clk := by
      induction hr with
      | init => rfl
      | step hprev hs ih =>
        exfalso
        have hprev_eq := ih
        obtain ⟨_, hcc⟩ := Inv_reach hc ha0 hc0 hprev
        exact raised_stuck hcc (by rw [hprev_eq]; exact hinit.2 hcy) hs
    rw [this]; exact hinit.2 hcy

/-! ### termination -/

theorem InvG_init {c : Cfg} (env : Env) (clk : Nat) : InvG c (init c env [] 0 clk) := by
  refine ⟨Nat.le_refl _, ?_, ?_, ?_⟩
  · intro _; show (List.range c.n).length + ([] : List Nat).length ≤ c.n; simp
  · intro hh; exfalso; revert hh; simp only [init]; split <;> (try split) <;> (try split) <;> simp
  · intro k _; exact ⟨rfl, by show (List.range c.n).length = c.n; simp, rfl⟩

/-- an execution of `k` steps -/
inductive Steps (c : Cfg) (s0 : State) : Nat → State → Prop
  | zero : Steps c s0 0 s0
  | succ {k s s'} : Steps c s0 k s → Step c s s' → Steps c s0 (k + 1) s'

/-- **every execution is finite, with an explicit bound**: an execution of `k` steps from the initial state has
`k + mu s ≤ mu init` (the measure `mu` of Proofs/SchedTerm.lean strictly decreases at every step of every thread, for
every interleaving) -/
theorem bounded_executions {c : Cfg} (hc : c.WF) (hw : 0 < c.workers) (env : Env) (clk : Nat) (he : EnvOK env)
    {k : Nat} {s : State} (hx : Steps c (init c env [] 0 clk) k s) : k + mu c s ≤ mu c (init c env [] 0 clk) := by
  have key : (InvA c s ∧ InvC c s ∧ InvG c s) ∧ k + mu c s ≤ mu c (init c env [] 0 clk) := by
    induction hx with
    | zero => exact ⟨⟨InvA_init env [] 0 clk he rfl, InvC_init hw env clk, InvG_init env clk⟩, by omega⟩
    | succ _ hs ih =>
      obtain ⟨⟨ha, hcc, hg⟩, hle⟩ := ih
      have := mu_decreases ha hcc hg hs
      exact ⟨⟨InvA_step hc ha hs, InvC_step hc ha hcc hs, InvG_step ha hcc hg hs⟩, by omega⟩
  exact key.2

/-- **scheduling always terminates**: there is no infinite execution, whatever the interleaving -/
theorem always_terminates {c : Cfg} (hc : c.WF) (hw : 0 < c.workers) (env : Env) (clk : Nat) (he : EnvOK env)
    (f : Nat → State) (h0 : f 0 = init c env [] 0 clk) (hstep : ∀ i, Step c (f i) (f (i + 1))) : False := by
  have hx : ∀ k, Steps c (init c env [] 0 clk) k (f k) := by
    intro k
    induction k with
    | zero => rw [h0]; exact Steps.zero
    | succ k ih => exact Steps.succ ih (hstep k)
  have := bounded_executions hc hw env clk he (hx (mu c (init c env [] 0 clk) + 1))
  omega

/-- an execution is also a reachability witness: with `no_deadlock` and `clean_exit`, an execution that cannot be
extended has returned (or raised, for a cyclic graph) with every worker thread exited -/
theorem steps_reach {c : Cfg} {s0 s : State} {k : Nat} (hx : Steps c s0 k s) : Reach c s0 s := by
  induction hx with
  | zero => exact Reach.init
  | succ _ hs ih => exact Reach.step ih hs

end Sched
