import Proofs.XRealArith
import Model.Chi2
import Mathlib.Data.List.Perm.Basic
/-!
# C07 — the chi-square verdict matches the chi-square law on the bins actually used

Model: `Model/Chi2.lean`.  Numbers are `XReal` for the arithmetic statements (exact reals + NaN/±∞); the chi-square
survival function is a parameter (p-values are data).
-/
namespace Chi2
open XReal

section generic
variable {α : Type} [Num α]

theorem usedPairs_eq_filter (ignore : Bool) (ref ds : List (Bin α)) :
    usedPairs ignore ref ds = (ref.zip ds).filter (fun p => used ignore p.1 p.2) := by
  induction ref generalizing ds with
  | nil => simp [usedPairs]
  | cons r rs ih =>
    cases ds with
    | nil => simp [usedPairs]
    | cons d ds =>
      simp only [usedPairs, List.zip_cons_cons, List.filter_cons]
      split <;> simp [ih]

/-- **the number of degrees of freedom is the number of used bins** -/
theorem ndf_eq_count (ignore : Bool) (ref ds : List (Bin α)) :
    ndf ignore ref ds = ((ref.zip ds).filter (fun p => used ignore p.1 p.2)).length := by
  unfold ndf; rw [usedPairs_eq_filter]

/-- a bin that is left out contributes to neither the sum nor the count -/
theorem left_out_not_counted (ignore : Bool) (r d : Bin α) (rs ds : List (Bin α)) (h : used ignore r d = false) :
    chi2 ignore (r :: rs) (d :: ds) = chi2 ignore rs ds ∧ ndf ignore (r :: rs) (d :: ds) = ndf ignore rs ds := by
  unfold chi2 ndf
  simp [usedPairs, h]

/-- a used bin contributes its term and counts for one -/
theorem used_counted (ignore : Bool) (r d : Bin α) (rs ds : List (Bin α)) (h : used ignore r d = true) :
    chi2 ignore (r :: rs) (d :: ds) = Num.add (term r d) (chi2 ignore rs ds) ∧
    ndf ignore (r :: rs) (d :: ds) = ndf ignore rs ds + 1 := by
  unfold chi2 ndf
  simp [usedPairs, h, sum]

/-- without the option every bin is used -/
theorem chi2_all_used (ref ds : List (Bin α)) : usedPairs false ref ds = ref.zip ds := by
  rw [usedPairs_eq_filter]
  simp [used]

/-- **the verdict is true exactly when every probability exceeds the significance level** -/
theorem verdict_iff_all_p (alpha : α) (ps : List α) : verdict alpha ps = true ↔ ∀ p ∈ ps, Num.gt p alpha = true := by
  unfold verdict oracles
  simp [List.all_eq_true]

end generic

/-! ### exact arithmetic -/

/-- with the option, for finite non-negative errors: **left out ⇔ both errors are zero** -/
theorem left_out_iff_both_zero (v1 e1 v2 e2 : ℝ) (h1 : 0 ≤ e1) (h2 : 0 ≤ e2) :
    used true (⟨fin v1, fin e1⟩ : Bin XReal) ⟨fin v2, fin e2⟩ = false ↔ (e1 = 0 ∧ e2 = 0) := by
  show (XReal.lt (fin ((0 : ℕ) : ℝ)) (fin e1) || XReal.lt (fin ((0 : ℕ) : ℝ)) (fin e2)) = false ↔ _
  simp only [Nat.cast_zero, lt_fin_fin, Bool.or_eq_false_iff, decide_eq_false_iff_not, not_lt]
  exact ⟨fun ⟨a, b⟩ => ⟨le_antisymm a h1, le_antisymm b h2⟩, fun ⟨a, b⟩ => ⟨le_of_eq a, le_of_eq b⟩⟩

/-- one term is **the squared value difference divided by the sum of the squared errors** -/
theorem term_eq_ratio (v1 e1 v2 e2 : ℝ) (hs : 0 < e1 * e1 + e2 * e2) :
    term (⟨fin v1, fin e1⟩ : Bin XReal) ⟨fin v2, fin e2⟩ = fin ((v1 - v2) ^ 2 / (e1 * e1 + e2 * e2)) := by
  have hpos : 0 < Real.sqrt (e1 * e1 + e2 * e2) := Real.sqrt_pos.2 hs
  show XReal.mul (XReal.div (XReal.sub (fin v1) (fin v2)) (XReal.sqrt (XReal.add (XReal.mul (fin e1) (fin e1)) (XReal.mul (fin e2) (fin e2)))))
      (XReal.div (XReal.sub (fin v1) (fin v2)) (XReal.sqrt (XReal.add (XReal.mul (fin e1) (fin e1)) (XReal.mul (fin e2) (fin e2))))) = _
  simp only [mul_fin_fin, add_fin_fin, sub_fin_fin, sqrt_fin, if_neg (not_lt.2 (le_of_lt hs)),
    div_fin_fin _ _ (ne_of_gt hpos)]
  congr 1
  rw [div_mul_div_comm, Real.mul_self_sqrt (le_of_lt hs)]
  ring

theorem add_comm' (a b : XReal) : XReal.add a b = XReal.add b a := by
  cases a <;> cases b <;> simp [XReal.add]
  ring

theorem add_assoc' (a b c : XReal) : XReal.add (XReal.add a b) c = XReal.add a (XReal.add b c) := by
  cases a <;> cases b <;> cases c <;> simp [XReal.add]
  ring

theorem sum_x_cons (x : XReal) (xs : List XReal) : sum (x :: xs) = XReal.add x (sum xs) := rfl

theorem sum_perm {l1 l2 : List XReal} (h : l1.Perm l2) : sum l1 = sum l2 := by
  induction h with
  | nil => rfl
  | cons x _ ih => rw [sum_x_cons, sum_x_cons, ih]
  | swap x y l =>
    rw [sum_x_cons, sum_x_cons, sum_x_cons, sum_x_cons, ← add_assoc', ← add_assoc', add_comm' y x]
  | trans _ _ ih1 ih2 => rw [ih1, ih2]

/-- **the statistic does not depend on the order of the bins** (exact arithmetic, special values included) -/
theorem chi2_perm_invariant (ignore : Bool) (ref ds ref' ds' : List (Bin XReal))
    (h : (ref.zip ds).Perm (ref'.zip ds')) : chi2 ignore ref ds = chi2 ignore ref' ds' := by
  unfold chi2
  rw [usedPairs_eq_filter, usedPairs_eq_filter]
  exact sum_perm ((h.filter _).map _)

theorem ndf_perm_invariant {α : Type} [Num α] (ignore : Bool) (ref ds ref' ds' : List (Bin α))
    (h : (ref.zip ds).Perm (ref'.zip ds')) : ndf ignore ref ds = ndf ignore ref' ds' := by
  rw [ndf_eq_count, ndf_eq_count]
  exact (h.filter _).length_eq

theorem add_nan_left (a : XReal) : XReal.add nan a = nan := by cases a <;> rfl
theorem add_nan_right (a : XReal) : XReal.add a nan = nan := by cases a <;> rfl

/-- an undefined term makes the whole statistic undefined -/
theorem sum_nan_of_mem (l : List XReal) (h : nan ∈ l) : sum l = nan := by
  induction l with
  | nil => cases h
  | cons x xs ih =>
    rw [sum_x_cons]
    rcases List.mem_cons.1 h with h | h
    · rw [← h, add_nan_left]
    · rw [ih h, add_nan_right]

/-- **an undefined statistic never passes**: with `sf nan = nan` the p-value is NaN, and a NaN p-value is never
greater than the level -/
theorem nan_never_passes (sf : XReal → Nat → XReal) (hsf : ∀ n, sf nan n = nan) (alpha : XReal)
    (ref : List (Bin XReal)) (dss : List (List (Bin XReal))) (ds : List (Bin XReal)) (hds : ds ∈ dss)
    (hnan : chi2 false ref ds = nan) :
    verdict alpha (dss.map fun d => sf (chi2 false ref d) (ndf false ref d)) = false := by
  cases hv : verdict alpha (dss.map fun d => sf (chi2 false ref d) (ndf false ref d)) with
  | false => rfl
  | true =>
    have := (verdict_iff_all_p alpha _).1 hv (sf (chi2 false ref ds) (ndf false ref ds)) (List.mem_map.2 ⟨ds, hds, rfl⟩)
    rw [hnan, hsf] at this
    exact absurd this (by show ¬ XReal.lt alpha nan = true; simp)

/-- non-vacuity: two bins, the second with both errors zero is left out by the option -/
example : ndf true [(⟨fin 1, fin 1⟩ : Bin XReal), ⟨fin 2, fin 0⟩] [⟨fin 2, fin 1⟩, ⟨fin 2, fin 0⟩] = 1 ∧
    ndf false [(⟨fin 1, fin 1⟩ : Bin XReal), ⟨fin 2, fin 0⟩] [⟨fin 2, fin 1⟩, ⟨fin 2, fin 0⟩] = 2 := by
  have h0 := (left_out_iff_both_zero 2 0 2 0 (le_refl 0) (le_refl 0)).2 ⟨rfl, rfl⟩
  have h1 : used true (⟨fin 1, fin 1⟩ : Bin XReal) ⟨fin 2, fin 1⟩ = true := by
    cases h : used true (⟨fin 1, fin 1⟩ : Bin XReal) ⟨fin 2, fin 1⟩ with
    | true => rfl
    | false => have := (left_out_iff_both_zero 1 1 2 1 (by norm_num) (by norm_num)).1 h; norm_num at this
  constructor
  · rw [(used_counted true _ _ _ _ h1).2, (left_out_not_counted true _ _ _ _ h0).2]; rfl
  · rw [ndf_eq_count]; simp [used]

end Chi2
