import Model.Report
/-!
# C20 — a written report contains every section and every result exactly once

Model: `Model/Report.lean` (tree-level; trees whose sibling sections have distinct titles).  `write r` is either an
error — then *nothing* is written: the `Written` value does not exist — or the complete set of files.
-/
namespace Rep
set_option linter.unusedVariables false

/-! ### the specification side: the sections of a report and their results -/

mutual
/-- chains of titles of all sections, pre-order; `chain` is the chain of the section itself -/
def Report.chains (chain : Chain) : Report → List Chain
  | .node _ items => chain :: items.subChains chain
def Items.subChains (chain : Chain) : Items → List Chain
  | .nil => []
  | .sec r rest => r.chains (chain ++ [r.title]) ++ rest.subChains chain
  | .res _ rest => rest.subChains chain
end

mutual
/-- all results of a report in document order -/
def Report.allResults : Report → List Nat
  | .node _ items => items.allResults
def Items.allResults : Items → List Nat
  | .nil => []
  | .sec r rest => r.allResults ++ rest.allResults
  | .res x rest => x.id :: rest.allResults
end

mutual
theorem Report.pages_chains (r : Report) (c : Chain) : (r.pages c).map (·.chain) = r.chains c := by
  match r with
  | .node t items => simp [Report.pages, Report.chains, Items.subPages_chains items c]
theorem Items.subPages_chains (i : Items) (c : Chain) : (i.subPages c).map (·.chain) = i.subChains c := by
  match i with
  | .nil => rfl
  | .sec r rest => simp [Items.subPages, Items.subChains, Report.pages_chains r, Items.subPages_chains rest c]
  | .res x rest => simp [Items.subPages, Items.subChains, Items.subPages_chains rest c]
end

/-- helper: in-order results = the section's own results followed by those of its subsections, up to order -/
def Items.subResults : Items → List Nat
  | .nil => []
  | .sec r rest => r.allResults ++ rest.subResults
  | .res _ rest => rest.subResults

theorem Items.allResults_perm (i : Items) : i.allResults.Perm (i.anchors ++ i.subResults) := by
  match i with
  | .nil => exact List.Perm.refl _
  | .sec r rest =>
    simp only [Items.allResults, Items.anchors, Items.subResults]
    have ih := Items.allResults_perm rest
    -- r ++ (a ++ s)  ~  a ++ (r ++ s)
    have h1 : (r.allResults ++ rest.allResults).Perm (r.allResults ++ (rest.anchors ++ rest.subResults)) :=
      List.Perm.append_left _ ih
    refine h1.trans ?_
    rw [← List.append_assoc, ← List.append_assoc]
    exact List.Perm.append_right _ List.perm_append_comm
  | .res x rest =>
    simp only [Items.allResults, Items.anchors, Items.subResults, List.cons_append]
    exact List.Perm.cons _ (Items.allResults_perm rest)

mutual
theorem Report.pages_anchors (r : Report) (c : Chain) : ((r.pages c).flatMap (·.anchors)).Perm r.allResults := by
  match r with
  | .node t items =>
    simp only [Report.pages, Report.allResults, List.flatMap_cons]
    exact (List.Perm.append_left _ (Items.subPages_anchors items c)).trans (Items.allResults_perm items).symm
theorem Items.subPages_anchors (i : Items) (c : Chain) : ((i.subPages c).flatMap (·.anchors)).Perm i.subResults := by
  match i with
  | .nil => exact List.Perm.refl _
  | .sec r rest =>
    simp only [Items.subPages, Items.subResults, List.flatMap_append]
    exact List.Perm.append (Report.pages_anchors r _) (Items.subPages_anchors rest c)
  | .res x rest =>
    simp only [Items.subPages, Items.subResults]
    exact Items.subPages_anchors rest c
end

/-! ### what `write` returns -/

theorem write_ok_iff (r : Report) (w : Written) :
    write r = .ok w ↔
      (r.depth < HEADER_LEVELS ∧ (∀ p ∈ r.pages [], ∀ t ∈ p.chain, validTitle t = true) ∧ pathsOk (r.pages []) = true ∧
       w.setup = setupFiles ∧ w.pages = r.pages [] ∧ w.figures = ((r.pages []).flatMap (·.images)).eraseDups) := by
  unfold write
  simp only []
  by_cases hd : r.depth ≥ HEADER_LEVELS
  · rw [if_pos hd]
    constructor
    · intro h; cases h
    · intro h; omega
  · rw [if_neg hd]
    by_cases ht : (r.pages []).all (fun p => p.chain.all validTitle) = true
    · have ht' : ¬ ((!(r.pages []).all (fun p => p.chain.all validTitle)) = true) := by simp [ht]
      rw [if_neg ht']
      by_cases hp : pathsOk (r.pages []) = true
      · have hp' : ¬ ((!pathsOk (r.pages [])) = true) := by simp [hp]
        rw [if_neg hp']
        constructor
        · intro h; injection h with h; subst h
          refine ⟨by omega, ?_, hp, rfl, rfl, rfl⟩
          intro p hp2 t ht2
          simp only [List.all_eq_true] at ht
          exact ht p hp2 t ht2
        · rintro ⟨_, _, _, h1, h2, h3⟩
          obtain ⟨s, p, f⟩ := w
          simp only at h1 h2 h3
          subst h1; subst h2; subst h3; rfl
      · have hp' : (!pathsOk (r.pages [])) = true := by simp [hp]
        rw [if_pos hp']
        constructor
        · intro h; cases h
        · rintro ⟨_, _, h, _⟩; exact absurd h hp
    · have ht' : (!(r.pages []).all (fun p => p.chain.all validTitle)) = true := by simp [ht]
      rw [if_pos ht']
      constructor
      · intro h; cases h
      · rintro ⟨_, h, _⟩
        exfalso; apply ht
        simp only [List.all_eq_true]
        exact h

/-- **A title that cannot be used as a file name is rejected before anything is written** (`write` returns an
error, hence no `Written` value exists). -/
theorem bad_title_writes_nothing (r : Report) (p : Page) (t : String) (hp : p ∈ r.pages []) (ht : t ∈ p.chain)
    (hbad : validTitle t = false) : ∃ e, write r = .error e := by
  cases h : write r with
  | error e => exact ⟨e, rfl⟩
  | ok w =>
    have := ((write_ok_iff r w).1 h).2.1 p hp t ht
    rw [hbad] at this; cases this

/-- **One page per section, at the path given by its chain of titles, the root page among them.** -/
theorem pages_bijective (r : Report) (w : Written) (h : write r = .ok w) :
    w.pages.map (·.chain) = r.chains [] ∧ (w.pages.map fun p => pagePath p.chain) = (r.chains []).map pagePath := by
  have hw := ((write_ok_iff r w).1 h).2.2.2.2.1
  rw [hw, ← Report.pages_chains r []]
  simp [List.map_map, Function.comp_def]

/-- **No page is overwritten**: all written files have distinct paths, and none of them is needed as a directory. -/
theorem no_overwrite (r : Report) (w : Written) (h : write r = .ok w) :
    (allFiles w.pages).Nodup ∧ ∀ f ∈ allFiles w.pages, f ∉ allDirs w.pages := by
  obtain ⟨_, _, hp, _, hw, _⟩ := (write_ok_iff r w).1 h
  rw [hw]
  simp only [pathsOk, Bool.and_eq_true, decide_eq_true_eq, List.all_eq_true, Bool.not_eq_true',
    List.contains_eq_mem, decide_eq_false_iff_not] at hp
  exact hp

/-- **Every result appears exactly once** over all pages (as many times as it occurs in the report tree), and the
root page shows exactly the results the root section holds. -/
theorem result_exactly_once (r : Report) (w : Written) (h : write r = .ok w) :
    (w.pages.flatMap (·.anchors)).Perm r.allResults := by
  rw [((write_ok_iff r w).1 h).2.2.2.2.1]
  exact Report.pages_anchors r []

/-- the page of a section shows the results that the section itself holds, in order -/
theorem page_holds_own_results (t : String) (items : Items) (c : Chain) :
    ((Report.node t items).pages c).head? = some ⟨c, items.anchors, items.images, items.tocEntries c⟩ := by
  simp [Report.pages]

theorem lastTwo_snoc (c : Chain) (t : String) (hc : c ≠ []) : c.dropLast ++ lastTwo (c ++ [t]) = c ++ [t] := by
  unfold lastTwo
  obtain ⟨l, a, rfl⟩ : ∃ l a, c = l ++ [a] := ⟨c.dropLast, c.getLast hc, (List.dropLast_concat_getLast hc).symm⟩
  simp only [List.dropLast_concat, List.length_append, List.length_singleton, List.append_assoc]
  have : l.length + 1 + 1 - 2 = l.length := by omega
  rw [this, List.drop_left' rfl]

theorem resolve_child (c : Chain) (t : String) :
    (pagePath c).dropLast ++ lastTwo (c ++ [t]) = pagePath (c ++ [t]) := by
  unfold pagePath
  by_cases hc : c = []
  · subst hc; simp [lastTwo]
  · simp only [hc, if_false]
    rw [lastTwo_snoc c t hc]; simp

mutual
theorem Report.toc_targets (r : Report) (c : Chain) :
    ∀ p ∈ r.pages c, ∀ e ∈ p.toc, resolveToc p e ∈ (r.pages c).map (fun q => pagePath q.chain) := by
  match r with
  | .node t items =>
    intro p hp e he
    simp only [Report.pages, List.mem_cons] at hp
    rcases hp with rfl | hp
    · -- the section's own page: each entry is the page of a subsection
      simp only [Report.pages, List.map_cons, List.mem_cons]
      right
      exact Items.toc_own items c e he
    · simp only [Report.pages, List.map_cons, List.mem_cons]
      right
      exact Items.toc_sub items c p hp e he
theorem Items.toc_own (i : Items) (c : Chain) :
    ∀ e ∈ i.tocEntries c, (pagePath c).dropLast ++ e ∈ (i.subPages c).map (fun q => pagePath q.chain) := by
  match i with
  | .nil => intro e he; simp [Items.tocEntries] at he
  | .sec r rest =>
    intro e he
    simp only [Items.tocEntries, List.mem_cons] at he
    simp only [Items.subPages, List.map_append, List.mem_append]
    rcases he with rfl | he
    · left
      rw [resolve_child]
      match r with
      | .node t its => simp [Report.pages, Report.title]
    · right; exact Items.toc_own rest c e he
  | .res x rest =>
    intro e he
    simp only [Items.tocEntries] at he
    simp only [Items.subPages]
    exact Items.toc_own rest c e he
theorem Items.toc_sub (i : Items) (c : Chain) :
    ∀ p ∈ i.subPages c, ∀ e ∈ p.toc, resolveToc p e ∈ (i.subPages c).map (fun q => pagePath q.chain) := by
  match i with
  | .nil => intro p hp; simp [Items.subPages] at hp
  | .sec r rest =>
    intro p hp e he
    simp only [Items.subPages, List.mem_append] at hp
    simp only [Items.subPages, List.map_append, List.mem_append]
    rcases hp with hp | hp
    · left; exact Report.toc_targets r _ p hp e he
    · right; exact Items.toc_sub rest c p hp e he
  | .res x rest =>
    intro p hp e he
    simp only [Items.subPages] at hp ⊢
    exact Items.toc_sub rest c p hp e he
end

/-- **Every table-of-contents entry points to a page that was written.** -/
theorem toc_targets_written (r : Report) (w : Written) (h : write r = .ok w) :
    ∀ p ∈ w.pages, ∀ e ∈ p.toc, resolveToc p e ∈ w.pages.map (fun q => pagePath q.chain) := by
  rw [((write_ok_iff r w).1 h).2.2.2.2.1]
  exact Report.toc_targets r []

/-- **Every referenced figure exists.** -/
theorem figures_written (r : Report) (w : Written) (h : write r = .ok w) :
    ∀ p ∈ w.pages, ∀ i ∈ p.images, i ∈ w.figures := by
  obtain ⟨_, _, _, _, hw, hf⟩ := (write_ok_iff r w).1 h
  intro p hp i hi
  rw [hf, List.mem_eraseDups, List.mem_flatMap]
  exact ⟨p, hw ▸ hp, hi⟩

/-! ### non-vacuity and the pinned code -/

def exTree : Report :=
  .node "Main" (.res ⟨1, none⟩ (.sec (.node "A" (.res ⟨2, some 7⟩ (.sec (.node "B" (.res ⟨3, some 7⟩ .nil)) .nil)))
    (.sec (.node "figures" .nil) .nil)))

example : (match write exTree with
    | .ok w => (w.pages.map (·.chain), w.figures, allFiles w.pages)
    | .error _ => ([], [], [])) =
    ([[], ["A"], ["A", "B"], ["figures"]], [7],
     [["conf.py"], [".static", "valjean.css"], ["index.rst"], ["A.rst"], ["A", "B.rst"], ["figures.rst"]]) := by decide

/-- a top-level section titled `index`, and a bad title met after other pages -/
def exIndex : Report := .node "Main" (.sec (.node "index" .nil) .nil)
def exLate : Report := .node "Main" (.sec (.node "A" .nil) (.sec (.node "a/b" .nil) .nil))

/-- the pinned writer overwrites the root page with the section titled `index`, and reports a bad title only
after `conf.py`, `index.rst` and the pages of the earlier sections were written; the repaired `write` rejects both
before writing anything -/
theorem c20_pinned_refuted :
    writePinnedLog exIndex = ([["conf.py"], [".static", "valjean.css"], ["index"], ["index"]], none) ∧
    writePinnedLog exLate = ([["conf.py"], [".static", "valjean.css"], ["index"], ["A"]], some .badTitle) ∧
    write exIndex matches .error .collision ∧ write exLate matches .error .badTitle := by
  decide

end Rep
