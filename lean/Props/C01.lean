import Proofs.SchedInv
/-!
# C01 — a task never starts before its dependencies have finished and published their results

Model: `Model/Sched.lean` (the repaired `queue.py`).  An execution is any sequence of steps of the master and worker
threads (`Step`, one constructor per synchronisation primitive); `Reach c s0 s` quantifies over **all** interleavings,
worker counts, graphs and task outcomes.  `s.seen t` is what task `t` found in the environment for each of its
dependencies at the instant its `do()` was called (`Step.wTimeStart`).
-/
namespace Sched

/-- the initial environment is one left by earlier runs: a DONE entry has its results and clocks -/
def EnvOK (e : Env) : Prop :=
  ∀ t x, e.entry t = some x → x.st = .done → x.pay.isSome = true ∧ x.startC.isSome = true ∧ x.endC.isSome = true

/-- no task is waiting in the queue when the call starts (sentinels of an earlier call may be) -/
def QueueOK (q : List (Option Nat)) : Prop := q.filterMap id = []

theorem InvA_init {c : Cfg} (env : Env) (q : List (Option Nat)) (u clk : Nat) (he : EnvOK env) (hq : QueueOK q) :
    InvA c (init c env q u clk) := by
  have hnp : ∀ t, (init c env q u clk).mpc ≠ .put t := by
    intro t; simp only [init]; split <;> (try split) <;> (try split) <;> simp
  have hqm : ∀ t, some t ∉ q := by
    intro t ht
    have : t ∈ q.filterMap id := List.mem_filterMap.2 ⟨some t, ht, rfl⟩
    rw [hq] at this; simp at this
  have hnf : ∀ t, ¬ InFlight (init c env q u clk) t := by
    rintro t (ht | ht | ⟨w, hw⟩)
    · exact hqm t ht
    · exact hnp t ht
    · simp [init, held] at hw
  refine ⟨⟨by show (q.filterMap id).Nodup; rw [hq]; simp, ?_, ?_, ?_⟩, ?_, by simp [init], by simp [init], ?_, ?_, ?_, ?_,
    he, ?_, ?_, ?_, ?_, ?_⟩
  · intro w t hw; simp [init, held] at hw
  · intro w w' t hw; simp [init, held] at hw
  · intro t ht; exact absurd ht (hnp t)
  · show (List.range c.n).Pairwise (· < ·)
    exact List.pairwise_lt_range
  · intro t ht; exact absurd ht (hnp t)
  · intro t ht; exact absurd ht (hnf t)
  · intro t ht; exact absurd ht (hnf t)
  · intro t ht hu; exfalso; apply hu; left; show t ∈ List.range c.n; simp [ht]
  · intro w t hw; simp [init] at hw
  · intro w t a b hw; simp [init] at hw
  · intro t snap hs; simp [init] at hs
  · rintro x (hx | hx)
    · have : x ∈ List.range c.n := hx
      simpa using this
    · simp [init] at hx
  · intro hw; simp only [init] at hw; split at hw <;> (try split at hw) <;> (try split at hw) <;> cases hw

/-- the invariant holds in every reachable state -/
theorem InvA_reach {c : Cfg} (hc : c.WF) {s0 s : State} (h0 : InvA c s0) (hr : Reach c s0 s) : InvA c s := by
  induction hr with
  | init => exact h0
  | step _ hs ih => exact InvA_step hc ih hs

/-- **C01.**  For every acyclic hard/soft dependency graph (`c.WF`: tasks numbered in topological order), every number
of workers, every outcome of every task (success, exception, explicit FAILED, any malformed return) and **every
interleaving** of the master and the workers at every synchronisation point: whenever a task starts, every task it
depends on (hard or soft) has reached a final state, and every successfully finished dependency has its complete
environment update and its clocks readable from the environment handed to the task. -/
theorem dep_safe_inv {c : Cfg} (hc : c.WF) (env : Env) (q : List (Option Nat)) (u clk : Nat) (he : EnvOK env)
    (hq : QueueOK q) {s : State} (hr : Reach c (init c env q u clk) s) (t : Nat) (snap : List (Option Entry))
    (hseen : s.seen t = some snap) :
    ∀ x ∈ snap, ∃ y, x = some y ∧ y.st.final = true ∧
      (y.st = .done → y.pay.isSome = true ∧ y.startC.isSome = true ∧ y.endC.isSome = true) :=
  (InvA_reach hc (InvA_init env q u clk he hq) hr).seen_pub t snap hseen

/-- what a task sees is the environment entry of each of its dependencies at the step at which it starts -/
theorem seen_is_snapshot {c : Cfg} {s s' : State} (hs : Step c s s') (t : Nat) (hnew : s.seen t ≠ s'.seen t) :
    s'.seen t = some ((c.depsOf t).map s.env.entry) ∧ ∃ w, s.wpc w = .timeStart t := by
  cases hs with
  | wTimeStart w t' hw =>
    by_cases e : t = t'
    · subst e; exact ⟨by simp [upd, snapshot], w, hw⟩
    · exfalso; apply hnew; simp [upd, e]
  | mWait _ _ _ _ _ _ => exfalso; apply hnew; rw [(advance_fields _).2.2.2.1]
  | mSkip _ _ _ _ _ _ => exfalso; apply hnew; rw [(advance_fields _).2.2.2.1]
  | mDrop _ _ _ _ _ _ => exfalso; apply hnew; rw [(advance_fields _).2.2.2.1]
  | mPut _ _ => exfalso; apply hnew; rw [(advance_fields _).2.2.2.1]
  | _ => exfalso; apply hnew; rfl

/-- executions really reach task starts: a two-task chain on one worker (non-vacuity) -/
example : ∃ s, Reach ⟨2, [[], [0]], [[], [0]], [.done, .done], 1, false⟩
    (init ⟨2, [[], [0]], [[], [0]], [.done, .done], 1, false⟩ ⟨fun _ => none⟩ [] 0 0) s ∧ s.mpc = .acq :=
  ⟨_, Reach.step Reach.init (Step.mSpawn 0 rfl), rfl⟩

end Sched
