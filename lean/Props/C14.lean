import Proofs.EnvPersist
/-!
# C14 — persisted environments survive crashes: a bad file means not-done, not an abort

Model: `Model/EnvPersist.lean`.  `pickle` is a parameter `c : Codec` with the two hypotheses of `Codec.Good`
(round trip; every proper prefix of an encoding makes `load` raise EOFError/UnpicklingError); they are
satisfiable (`simpleCodec_good`) and are checked on the real `pickle` at every byte of every file the
correspondence harness writes.

A ghost state `gh : Nat → FileState` records, per directory, what the file *is*: absent, the complete
encoding of the single-entry environment `{t: ent}`, or bad (a truncated encoding, or content on which
`load` raises one of the documented exception kinds / returns something that is not an `Env`).
-/
namespace EnvP
set_option linter.unusedVariables false

inductive FileState
  | absent
  | complete (t : Nat) (ent : Entry)
  | bad

def FileOk (c : Codec) (content : Option (List Nat)) : FileState → Prop
  | .absent => content = none
  | .complete t ent => content = some (c.dump [(t, ent)])
  | .bad => ∃ bytes, content = some bytes ∧
      ((∃ k, c.load bytes = .error k ∧ caught .fixed k = true) ∨ c.load bytes = .ok .notEnv)

def Inv (c : Codec) (fs : FS) (gh : Nat → FileState) : Prop := ∀ d, FileOk c (fs.get d) (gh d)

def upd (gh : Nat → FileState) (d : Nat) (s : FileState) : Nat → FileState := fun d' => if d' = d then s else gh d'

/-- what `read_env` must return, computed from the ghost state only -/
def readSpec (gh : Nat → FileState) : List Nat → Env → Env
  | [], env => env
  | t :: names, env =>
    match gh t with
    | .complete u ent => readSpec gh names (if ent.status = .done then env.set u ent else env)
    | _ => readSpec gh names env

def expectFF : FileState → FromFile
  | .complete t ent => .env [(t, ent)]
  | _ => .none

theorem fromFile_spec {c : Codec} (hc : c.Good) {fs : FS} {d : Nat} {st : FileState} (h : FileOk c (fs.get d) st) :
    fromFile .fixed c fs d = expectFF st := by
  cases st with
  | absent => simp only [FileOk] at h; simp [fromFile, h, expectFF]
  | complete t ent => simp only [FileOk] at h; simp [fromFile, h, hc.roundtrip, expectFF]
  | bad =>
    obtain ⟨bytes, hb, hl⟩ := h
    rcases hl with ⟨k, hk, hcaught⟩ | hl
    · simp [fromFile, hb, hk, hcaught, expectFF]
    · simp [fromFile, hb, hl, expectFF]

/-- **Reading never raises and returns exactly what the completely written files hold.** -/
theorem read_total {c : Codec} (hc : c.Good) {fs : FS} {gh : Nat → FileState} (h : Inv c fs gh)
    (names : List Nat) (env : Env) : readEnv .fixed c fs names env = .ok (readSpec gh names env) := by
  induction names generalizing env with
  | nil => rfl
  | cons t names ih =>
    have hf := fromFile_spec hc (h t)
    simp only [readEnv, readSpec]
    cases hg : gh t with
    | absent => rw [hg] at hf; simp [hf, ih, expectFF]
    | bad => rw [hg] at hf; simp [hf, ih, expectFF]
    | complete u ent =>
      rw [hg] at hf; simp only [hf, expectFF]
      have : mergeDone env [(u, ent)] = if ent.status = .done then env.set u ent else env := by
        simp [mergeDone]
      rw [this]; exact ih _

/-- **A task is reported only with a DONE entry that is the content of a completely written file.** -/
theorem never_spurious_done (gh : Nat → FileState) (names : List Nat) (env : Env) (t : Nat) (ent : Entry)
    (h : (readSpec gh names env).get t = some ent) :
    env.get t = some ent ∨ (ent.status = .done ∧ ∃ d ∈ names, gh d = .complete t ent) := by
  induction names generalizing env with
  | nil => exact Or.inl h
  | cons d names ih =>
    simp only [readSpec] at h
    cases hg : gh d with
    | absent => rw [hg] at h; rcases ih env h with h | ⟨h1, d', hd', h2⟩
                · exact Or.inl h
                · exact Or.inr ⟨h1, d', by simp [hd'], h2⟩
    | bad => rw [hg] at h; rcases ih env h with h | ⟨h1, d', hd', h2⟩
             · exact Or.inl h
             · exact Or.inr ⟨h1, d', by simp [hd'], h2⟩
    | complete u e =>
      rw [hg] at h; simp only at h
      rcases ih _ h with h | ⟨h1, d', hd', h2⟩
      · by_cases hdone : e.status = .done
        · simp only [hdone, if_true, Env.get_set] at h
          by_cases htu : t = u
          · subst htu; simp at h; subst h
            exact Or.inr ⟨hdone, d, by simp, hg⟩
          · simp [htu] at h; exact Or.inl h
        · simp only [hdone, if_false] at h; exact Or.inl h
      · exact Or.inr ⟨h1, d', by simp [hd'], h2⟩

/-! ### ghost evolution: writes, crashes, deletions, corruption -/

def ghWrite (gh : Nat → FileState) (env : Env) : Nat → FileState :=
  env.foldl (fun gh (p : Nat × Entry) =>
    match p.2.outputDir with
    | some d => upd gh d (.complete p.1 p.2)
    | none => gh) gh

theorem inv_set_complete {c : Codec} {fs : FS} {gh : Nat → FileState} (h : Inv c fs gh) (d t : Nat) (ent : Entry) :
    Inv c (fs.set d (c.dump [(t, ent)])) (upd gh d (.complete t ent)) := by
  intro d'
  simp only [FS.get_set, upd]
  split
  · simp [FileOk]
  · exact h d'

theorem inv_write {c : Codec} {fs : FS} {gh : Nat → FileState} (h : Inv c fs gh) (env : Env) :
    Inv c (writeEnv c fs env) (ghWrite gh env) := by
  induction env generalizing fs gh with
  | nil => exact h
  | cons p env ih =>
    simp only [writeEnv, ghWrite, List.foldl_cons]
    cases hd : p.2.outputDir with
    | none => exact ih h
    | some d => exact ih (inv_set_complete h d p.1 p.2)

def ghCrash (c : Codec) (gh : Nat → FileState) (env : Env) (n k : Nat) : Nat → FileState :=
  let gh := ghWrite gh (env.take n)
  match env[n]? with
  | some (t, ent) =>
    match ent.outputDir with
    | some d => upd gh d (if k < (c.dump [(t, ent)]).length then .bad else .complete t ent)
    | none => gh
  | none => gh

theorem inv_crash {c : Codec} (hc : c.Good) {fs : FS} {gh : Nat → FileState} (h : Inv c fs gh) (env : Env) (n k : Nat) :
    Inv c (writeEnvCrash c fs env n k) (ghCrash c gh env n k) := by
  have h1 := inv_write h (env.take n)
  cases hn : env[n]? with
  | none => simp only [writeEnvCrash, ghCrash, hn]; exact h1
  | some p =>
    obtain ⟨t, ent⟩ := p
    cases hd : ent.outputDir with
    | none => simp only [writeEnvCrash, ghCrash, hn, hd]; exact h1
    | some d =>
      simp only [writeEnvCrash, ghCrash, hn, hd]
      by_cases hk : k < (c.dump [(t, ent)]).length
      · simp only [hk, if_true]
        intro d'
        simp only [FS.get_set, upd]
        split
        · obtain ⟨err, he, hkind⟩ := hc.prefixFails [(t, ent)] k hk
          refine ⟨_, rfl, Or.inl ⟨err, he, ?_⟩⟩
          rcases hkind with rfl | rfl <;> rfl
        · exact h1 d'
      · simp only [hk, if_false]
        have : (c.dump [(t, ent)]).take k = c.dump [(t, ent)] := List.take_of_length_le (by omega)
        rw [this]
        exact inv_set_complete h1 d t ent

theorem inv_delete {c : Codec} {fs : FS} {gh : Nat → FileState} (h : Inv c fs gh) (d : Nat) :
    Inv c (fs.erase d) (upd gh d .absent) := by
  intro d'
  simp only [FS.get_erase, upd]
  split
  · simp [FileOk]
  · exact h d'

/-- content that is unreadable in one of the documented ways -/
def Unreadable (c : Codec) (bytes : List Nat) : Prop :=
  (∃ k, c.load bytes = .error k ∧ caught .fixed k = true) ∨ c.load bytes = .ok .notEnv

theorem inv_garbage {c : Codec} {fs : FS} {gh : Nat → FileState} (h : Inv c fs gh) (d : Nat) (bytes : List Nat)
    (hb : Unreadable c bytes) : Inv c (fs.set d bytes) (upd gh d .bad) := by
  intro d'
  simp only [FS.get_set, upd]
  split
  · exact ⟨bytes, rfl, hb⟩
  · exact h d'

/-- events between two reads -/
inductive HOp where
  | write (env : Env)                       -- `write_env` ran to completion
  | crash (env : Env) (n k : Nat)           -- `write_env` killed after `k` bytes of its `n`-th file
  | delete (d : Nat)                        -- a file disappears
  | garbage (d : Nat) (bytes : List Nat)    -- a file is replaced by unreadable content

def HOp.Valid (c : Codec) : HOp → Prop
  | .garbage _ bytes => Unreadable c bytes
  | _ => True

def stepFS (c : Codec) (fs : FS) : HOp → FS
  | .write env => writeEnv c fs env
  | .crash env n k => writeEnvCrash c fs env n k
  | .delete d => fs.erase d
  | .garbage d bytes => fs.set d bytes

def stepGh (c : Codec) (gh : Nat → FileState) : HOp → Nat → FileState
  | .write env => ghWrite gh env
  | .crash env n k => ghCrash c gh env n k
  | .delete d => upd gh d .absent
  | .garbage d _ => upd gh d .bad

def runFS (c : Codec) (ops : List HOp) : FS := ops.foldl (stepFS c) []
def runGh (c : Codec) (ops : List HOp) : Nat → FileState := ops.foldl (stepGh c) (fun _ => .absent)

theorem history_inv {c : Codec} (hc : c.Good) (ops : List HOp) (hv : ∀ op ∈ ops, op.Valid c) :
    Inv c (runFS c ops) (runGh c ops) := by
  unfold runFS runGh
  suffices ∀ fs gh, Inv c fs gh → Inv c (ops.foldl (stepFS c) fs) (ops.foldl (stepGh c) gh) from
    this [] _ (fun d => by simp [FileOk, FS.get])
  induction ops with
  | nil => intro fs gh h; exact h
  | cons op ops ih =>
    intro fs gh h
    simp only [List.foldl_cons]
    apply ih (fun o ho => hv o (by simp [ho]))
    have hvo := hv op (by simp)
    cases op with
    | write env => exact inv_write h env
    | crash env n k => exact inv_crash hc h env n k
    | delete d => exact inv_delete h d
    | garbage d bytes => exact inv_garbage h d bytes hvo

/-- **For every history of writes, crashes during a write (at any byte), deletions and corruptions,
`read_env` does not raise, and every entry it returns is a DONE entry found in a completely written file.** -/
theorem bad_file_not_done {c : Codec} (hc : c.Good) (ops : List HOp) (hv : ∀ op ∈ ops, op.Valid c) (names : List Nat) :
    ∃ env, readEnv .fixed c (runFS c ops) names [] = .ok env ∧
      ∀ t ent, env.get t = some ent → ent.status = .done ∧ ∃ d ∈ names, runGh c ops d = .complete t ent := by
  refine ⟨_, read_total hc (history_inv hc ops hv) names [], ?_⟩
  intro t ent h
  rcases never_spurious_done _ names [] t ent h with h | h
  · simp [Env.get] at h
  · exact h

/-! ### round trip -/

/-- every file holds the entry of the task whose directory it is -/
def GhSelf (gh : Nat → FileState) : Prop := ∀ d u ent, gh d = .complete u ent → u = d

/-- output directories are `root/<name>` (or absent) -/
def SelfDirs (env : Env) : Prop := ∀ p ∈ env, p.2.outputDir = none ∨ p.2.outputDir = some p.1

theorem ghWrite_self {gh : Nat → FileState} (hs : GhSelf gh) (env : Env) (he : SelfDirs env) : GhSelf (ghWrite gh env) := by
  induction env generalizing gh with
  | nil => exact hs
  | cons p env ih =>
    simp only [ghWrite, List.foldl_cons]
    have hp := he p (by simp)
    have he' : SelfDirs env := fun q hq => he q (by simp [hq])
    rcases hp with hp | hp
    · simp only [hp]; exact ih hs he'
    · simp only [hp]
      apply ih _ he'
      intro d u ent h
      simp only [upd] at h
      split at h
      · rename_i hd; injection h with h1 h2; rw [hd, ← h1]
      · exact hs d u ent h

theorem ghWrite_get {gh : Nat → FileState} (env : Env) (he : SelfDirs env) (hk : (env.map (·.1)).Nodup)
    (t : Nat) (ent : Entry) (hm : (t, ent) ∈ env) (hd : ent.outputDir = some t) :
    ghWrite gh env t = .complete t ent := by
  induction env generalizing gh with
  | nil => simp at hm
  | cons p env ih =>
    simp only [ghWrite, List.foldl_cons]
    have he' : SelfDirs env := fun q hq => he q (by simp [hq])
    simp only [List.map_cons, List.nodup_cons] at hk
    rcases List.mem_cons.1 hm with hm | hm
    · subst hm
      simp only [hd]
      -- later entries do not touch directory t
      have : ∀ (env : Env) (gh : Nat → FileState), SelfDirs env → t ∉ env.map (·.1) → ghWrite gh env t = gh t := by
        intro env
        induction env with
        | nil => intro gh _ _; rfl
        | cons q env ih2 =>
          intro gh hs hn
          simp only [ghWrite, List.foldl_cons]
          have hs' : SelfDirs env := fun r hr => hs r (by simp [hr])
          simp only [List.map_cons, List.mem_cons, not_or] at hn
          rcases hs q (by simp) with hq | hq
          · simp only [hq]; exact ih2 gh hs' hn.2
          · simp only [hq]
            have := ih2 (upd gh q.1 (.complete q.1 q.2)) hs' hn.2
            simp only [ghWrite] at this
            rw [this]; simp [upd, hn.1]
      have h2 := this env (upd gh t (.complete t ent)) he' hk.1
      simp only [ghWrite] at h2
      rw [h2]; simp [upd]
    · exact ih he' hk.2 hm

theorem readSpec_self {gh : Nat → FileState} (hs : GhSelf gh) (names : List Nat) (env : Env) (t : Nat) (ent : Entry)
    (hg : gh t = .complete t ent) (hdone : ent.status = .done) :
    (t ∈ names → (readSpec gh names env).get t = some ent) ∧
    (t ∉ names → (readSpec gh names env).get t = env.get t) := by
  induction names generalizing env with
  | nil => simp [readSpec]
  | cons d names ih =>
    simp only [readSpec]
    by_cases hdt : d = t
    · subst hdt
      simp only [hg, hdone, if_true]
      have := ih (env.set d ent)
      refine ⟨fun _ => ?_, fun h => absurd (by simp) h⟩
      by_cases hin : d ∈ names
      · exact this.1 hin
      · rw [this.2 hin, Env.get_set]; simp
    · have hmem : t ∈ d :: names ↔ t ∈ names := by
        simp only [List.mem_cons]; constructor
        · rintro (e | e); exact absurd e.symm hdt; exact e
        · exact Or.inr
      rw [hmem]
      cases hgd : gh d with
      | absent => exact ih env
      | bad => exact ih env
      | complete u e =>
        have hu : u = d := hs d u e hgd
        subst hu
        simp only
        have := ih (if e.status = .done then env.set u e else env)
        have hget : (if e.status = .done then env.set u e else env).get t = env.get t := by
          split
          · rw [Env.get_set]; have : ¬ t = u := fun h => hdt h.symm
            simp [this]
          · rfl
        rw [hget] at this; exact this

/-- **Writing the environment and reading it back returns, for every DONE task whose output directory is
`root/<name>`, exactly the entry that was written** — whatever the files held before. -/
theorem roundtrip {c : Codec} (hc : c.Good) {fs : FS} {gh : Nat → FileState} (h : Inv c fs gh) (hs : GhSelf gh)
    (env : Env) (he : SelfDirs env) (hk : (env.map (·.1)).Nodup) (names : List Nat)
    (t : Nat) (ent : Entry) (hm : (t, ent) ∈ env) (hd : ent.outputDir = some t) (hdone : ent.status = .done)
    (hn : t ∈ names) :
    ∃ r, readEnv .fixed c (writeEnv c fs env) names [] = .ok r ∧ r.get t = some ent := by
  refine ⟨_, read_total hc (inv_write h env) names [], ?_⟩
  exact (readSpec_self (ghWrite_self hs env he) names [] t ent (ghWrite_get env he hk t ent hm hd) hdone).1 hn

/-- non-vacuity: a concrete history with a crash, and a concrete round trip -/
example : readEnv .fixed simpleCodec
    (runFS simpleCodec [.write [(1, ⟨.done, some 1, 7⟩), (2, ⟨.failed, some 2, 8⟩)], .crash [(1, ⟨.done, some 1, 9⟩)] 0 4])
    [1, 2] [] = .ok [] := by rfl
example : readEnv .fixed simpleCodec (writeEnv simpleCodec [] [(1, ⟨.done, some 1, 7⟩), (2, ⟨.failed, some 2, 8⟩)]) [2, 1] []
    = .ok [(1, ⟨.done, some 1, 7⟩)] := by rfl

/-- the pinned `from_file` (only `ValueError`/`IOError` caught) aborts on a truncated file -/
theorem c14_pinned_refuted :
    readEnv .pinned simpleCodec (writeEnvCrash simpleCodec [] [(0, ⟨.done, some 0, 7⟩)] 0 3) [0] [] = .error .unpickling ∧
    readEnv .pinned simpleCodec (writeEnvCrash simpleCodec [] [(0, ⟨.done, some 0, 7⟩)] 0 0) [0] [] = .error .eof :=
  ⟨rfl, rfl⟩

theorem simpleCodec_good' : simpleCodec.Good := simpleCodec_good

end EnvP
