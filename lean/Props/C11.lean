import Model.T4Scan
/-!
# C11 — a truncated Tripoli-4 listing gives a parser error or the last complete edition

Model: `Model/T4Scan.lean` (the scanner line by line, `Parser.__init__`'s outcome).  `history` is the list of result
blocks closed so far, in order (a ghost of the `OrderedDict` the scanner fills: `collres_of_history`).

What is proved: the scanner is a fold over lines, so every edition closed while reading a prefix of whole lines is closed
identically (same key, same text, same order) when the complete listing is read (`prefix_history`); a cut last line can
close at most one more block (`cut_line_at_most_one`) — so every edition but possibly the one closed by the cut line
itself is byte-identical to the one of the complete listing, hence parses identically; the repaired
`Parser.__init__` has no third outcome (`repaired_never_crashes`), the pinned one has (`c11_pinned_refuted`).
NOT modelled: the pyparsing grammar behind `parse_from_number` (exercised by the correspondence only).
-/
namespace T4Scan

theorem scanLines_append (s : S) (a b : List Line) :
    scanLines s (a ++ b) = match scanLines s a with
      | .ok s' => scanLines s' b
      | .error e => .error e := by
  induction a generalizing s with
  | nil => rfl
  | cons l ls ih =>
    show (match s.step l with | .ok s' => scanLines s' (ls ++ b) | .error e => .error e) = _
    cases h : s.step l with
    | error e => simp [scanLines, h]
    | ok s' => simp only [scanLines, h]; exact ih s'

theorem addTime_history (s : S) (flag : String) (line : Line) : (s.addTime flag line).history = s.history := rfl

theorem addTime_collres (s : S) (flag : String) (line : Line) : (s.addTime flag line).collres = s.collres := rfl

theorem counters_history (s : S) (line : Line) : (s.counters line).history = s.history ∧ (s.counters line).collres = s.collres := by
  unfold S.counters
  split
  · exact ⟨rfl, rfl⟩
  · split
    · exact ⟨rfl, rfl⟩
    · split
      · exact ⟨rfl, rfl⟩
      · split <;> exact ⟨rfl, rfl⟩

theorem inputData_history (s s' : S) (line : Line) (h : s.inputData line = .ok s') :
    s'.history = s.history ∧ s'.collres = s.collres := by
  unfold S.inputData at h
  simp only [bind, Except.bind, pure, Except.pure] at h
  repeat' split at h
  all_goals first
    | (injection h with h; subst h; exact ⟨rfl, rfl⟩)
    | cases h

/-- one line closes at most one block: the history grows by nothing or by exactly one entry, which is also what is
assigned in the `OrderedDict` -/
theorem step_history (s s' : S) (line : Line) (h : s.step line = .ok s') :
    (s'.history = s.history ∧ s'.collres = s.collres) ∨
    ∃ k block, s'.history = (k, block) :: s.history ∧ s'.collres = dictSet s.collres k block := by
  unfold S.step at h
  simp only [bind, Except.bind, pure, Except.pure] at h
  split at h
  · injection h with h; subst h; exact Or.inl ⟨rfl, rfl⟩
  · split at h
    · injection h with h; subst h; exact Or.inl ⟨rfl, rfl⟩
    · have hc := counters_history s line
      split at h
      · -- a result block is open
        rename_i b hb
        split at h
        · cases h
        · rename_i b' hb'
          split at h
          · injection h with h; subst h
            right
            refine ⟨b'.check.number, b'.check.result.reverse, ?_, ?_⟩
            · rw [addTime_history]; show _ :: (s.counters line).history = _; rw [hc.1]
            · rw [addTime_collres]; show dictSet (s.counters line).collres _ _ = _; rw [hc.2]
          · injection h with h; subst h; exact Or.inl ⟨hc.1, hc.2⟩
      · -- no block open
        split at h
        · injection h with h; subst h; exact Or.inl ⟨hc.1, hc.2⟩
        · split at h
          · obtain ⟨h1, h2⟩ := inputData_history _ _ _ h
            exact Or.inl ⟨by rw [h1, hc.1], by rw [h2, hc.2]⟩
          · repeat' split at h
            all_goals first
              | (injection h with h; subst h; exact Or.inl ⟨hc.1, hc.2⟩)
              | cases h

/-- reading more lines only appends to the history -/
theorem scanLines_history (s s' : S) (ls : List Line) (h : scanLines s ls = .ok s') : ∃ more, s'.history = more ++ s.history := by
  induction ls generalizing s with
  | nil => injection h with h; subst h; exact ⟨[], rfl⟩
  | cons l ls ih =>
    unfold scanLines at h
    cases hs : s.step l with
    | error e => rw [hs] at h; cases h
    | ok s1 =>
      rw [hs] at h
      obtain ⟨more, hm⟩ := ih s1 h
      rcases step_history s s1 l hs with ⟨h1, _⟩ | ⟨k, block, h1, _⟩
      · exact ⟨more, by rw [hm, h1]⟩
      · exact ⟨more ++ [(k, block)], by rw [hm, h1]; simp⟩

/-- **every edition closed while reading a prefix (of whole lines) is closed identically — same key, same text, same
order — when the complete listing is read** -/
theorem prefix_history (p rest : List Line) (sP sL : S) (hP : scanLines {} p = .ok sP)
    (hL : scanLines {} (p ++ rest) = .ok sL) : ∃ later, sL.history.reverse = sP.history.reverse ++ later := by
  rw [scanLines_append, hP] at hL
  obtain ⟨more, hm⟩ := scanLines_history sP sL rest hL
  exact ⟨more.reverse, by rw [hm, List.reverse_append]⟩

/-- **a cut last line closes at most one more block**: all the editions of the truncated listing, except possibly the
one closed by the cut line itself, are those closed by the whole lines before it -/
theorem cut_line_at_most_one (p : List Line) (cut : Line) (sP sC : S) (hP : scanLines {} p = .ok sP)
    (hC : scanLines {} (p ++ [cut]) = .ok sC) :
    sC.history = sP.history ∨ ∃ k block, sC.history = (k, block) :: sP.history := by
  rw [scanLines_append, hP] at hC
  have hC : scanLines sP [cut] = .ok sC := hC
  unfold scanLines at hC
  cases hs : sP.step cut with
  | error e => rw [hs] at hC; cases hC
  | ok s1 =>
    rw [hs] at hC
    have hC : scanLines s1 [] = .ok sC := hC
    unfold scanLines at hC
    injection hC with hC; subst hC
    rcases step_history sP s1 cut hs with ⟨h1, _⟩ | ⟨k, block, h1, _⟩
    · exact Or.inl h1
    · exact Or.inr ⟨k, block, h1⟩

/-- the `OrderedDict` of results is the history replayed: for every key the *last* block closed under it -/
theorem collres_of_history (s s' : S) (ls : List Line) (h : scanLines s ls = .ok s') :
    ∃ more, s'.history = more ++ s.history ∧ s'.collres = more.reverse.foldl (fun d p => dictSet d p.1 p.2) s.collres := by
  induction ls generalizing s with
  | nil => injection h with h; subst h; exact ⟨[], rfl, rfl⟩
  | cons l ls ih =>
    unfold scanLines at h
    cases hs : s.step l with
    | error e => rw [hs] at h; cases h
    | ok s1 =>
      rw [hs] at h
      obtain ⟨more, hm, hc⟩ := ih s1 h
      rcases step_history s s1 l hs with ⟨h1, h2⟩ | ⟨k, block, h1, h2⟩
      · exact ⟨more, by rw [hm, h1], by rw [hc, h2]⟩
      · refine ⟨more ++ [(k, block)], by rw [hm, h1]; simp, ?_⟩
        rw [hc, h2, List.reverse_append]
        rfl

/-- **the repaired `Parser.__init__` either fails with the parser's own error or succeeds** — no third outcome, for
any content whatsoever -/
theorem repaired_never_crashes (lines : List Line) : ∀ c, parserInit true lines ≠ .crash c := by
  intro c h
  unfold parserInit at h
  split at h
  · simp at h
  · split at h <;> cases h

/-- the pinned code: a listing cut right after "number of tasks is" makes `int(line.split()[5])` raise IndexError,
which `Parser.__init__` lets through -/
theorem c11_pinned_refuted :
    (match parserInit false [" number of tasks is".toList] with | .crash .indexError => true | _ => false) = true := by
  decide

/-! ### the exception of `cut_line_at_most_one` is real (known finding `time_digits_cut`)

`prefix_history` covers every edition closed by a *whole* line of the prefix; the edition closed by the cut line itself
is excluded, and rightly so: a cut inside the digits of the time that ends the end-flag line closes the edition with a
truncated time.  Evaluated witness (compiled code — `String.replace` does not reduce in the kernel), replayed on the
implementation by the correspondence (`tests/eponine/tripoli4/data/pertu_covariances.d.res.ceav5` cut at byte 32745). -/

def wL0 : Line := " initialization time (s): 1\n".toList
def wL1 : Line := " batch number : 10\n".toList
def wL2 : Line := "RESULTS ARE GIVEN\n".toList
def wCut : Line := " simulation time (s) : 2".toList
def wFull : Line := " simulation time (s) : 27\n".toList
def timesOf (r : Except Crash S) : List (String × List (Int × TimeVal)) :=
  match r with | .ok s => s.times | .error _ => []
def keysOf (r : Except Crash S) : List Int := match r with | .ok s => s.collres.map (·.1) | .error _ => []

#guard timesOf (scanLines {} [wL0, wL1, wL2, wCut]) == [("simulation_time", [(10, some 2)])]
#guard timesOf (scanLines {} [wL0, wL1, wL2, wFull]) == [("simulation_time", [(10, some 27)])]
#guard keysOf (scanLines {} [wL0, wL1, wL2, wCut]) == [10]
#guard keysOf (scanLines {} [wL0, wL1, wL2, wFull]) == [10]

end T4Scan
