import Proofs.Diag
import Proofs.DiagLabels

/-!
# C18 — diagnostic statistics count every task and every test result exactly once
Model: `Model/Diag.lean` (transcription of `valjean/gavroche/diagnostics/stats.py`).
-/
namespace Diag
open Browser (Val Index idxGet idxKey)

/-- Each observed task is listed once, under the status it ended with, in observation order:
the class of status `s` is exactly the sub-list of tasks with that status. -/
theorem tasks_partition (ts : List TaskRes) (s : Nat) :
    clsGet (evalTasks ts) s = (ts.filter (fun t => t.status = s)).map (fun t => (t.name, none)) := by
  simp [evalTasks, clsGet_foldl, clsGet]

/-- Each evaluated test result is listed once, as SUCCESS or FAILURE according to its verdict; tasks
without results are listed as MISSING (the events are the flattened results, in order). -/
theorem tests_partition (ts : List TaskRes) (o : Nat) :
    clsGet (evalTests ts) o = ((testEvents ts).filter (fun e => e.1 = o)).map (·.2) := by
  simp [evalTests, clsGet_foldl, clsGet]

/-- what the events are: one per result (verdict ↦ outcome), one MISSING per task without results -/
theorem testEvents_spec (t : TaskRes) :
    testEvents [t] = match t.results with
      | none => [(MISSING, (t.name, none))]
      | some rs => rs.map fun r => (if r.verdict then SUCCESS else FAILURE, (r.name, some r.fp)) := by
  cases h : t.results <;> simp [testEvents, h]

/-- A task summary is successful exactly when it observed something and everything is DONE. -/
theorem tasks_success_iff (ts : List TaskRes) :
    boolTasks (evalTasks ts) = true ↔ ts ≠ [] ∧ ∀ t ∈ ts, t.status = DONE := by
  unfold boolTasks evalTasks
  exact only_key_iff ts (fun t => t.status) (fun t => (t.name, none)) DONE

/-- A test summary is successful exactly when it observed something and every event is a SUCCESS
(no failure, no missing result). -/
theorem tests_success_iff (ts : List TaskRes) :
    boolTests (evalTests ts) = true ↔ testEvents ts ≠ [] ∧ ∀ e ∈ testEvents ts, e.1 = SUCCESS := by
  unfold boolTests evalTests
  exact only_key_iff (testEvents ts) (·.1) (·.2) SUCCESS

/-- the label dictionaries are Python dicts -/
def WFTasks (ts : List TaskRes) : Prop :=
  ∀ t ∈ ts, ∀ rs, t.results = some rs → ∀ r ∈ rs, (Browser.Item.keys r.labels).Nodup

theorem lod_result (ts : List TaskRes) (h : WFTasks ts) (d : LDict) (hd : d ∈ buildLod ts) :
    (("_result", Val.int 0) ∈ d ∧ ("_result", Val.int 1) ∉ d) ∨
    (("_result", Val.int 0) ∉ d ∧ ("_result", Val.int 1) ∈ d) := by
  simp only [buildLod, List.mem_flatMap] at hd
  obtain ⟨t, ht, hd⟩ := hd
  cases hr : t.results with
  | none => simp [hr] at hd
  | some rs =>
    simp only [hr, List.mem_map] at hd
    obtain ⟨r, hrm, rfl⟩ := hd
    have hnd : (Browser.Item.keys (dictSet (dictSet r.labels "_test_name" (.atom (2000 + r.name))) "_result"
        (.int (if r.verdict then 0 else 1)))).Nodup :=
      Browser.keys_set_nodup _ _ _ (Browser.keys_set_nodup _ _ _ (h t ht rs hr r hrm))
    have hget := get_set_self (dictSet r.labels "_test_name" (.atom (2000 + r.name))) "_result"
        (.int (if r.verdict then 0 else 1))
    rw [Browser.get_eq_some_of_mem hnd, Browser.get_eq_some_of_mem hnd]
    unfold dictSet at hget ⊢
    rw [hget]
    cases r.verdict <;> simp

/-- **Per label combination, successes plus failures equal the number of results counted**:
every row of the by-labels summary satisfies `OK + KO = total`. -/
theorem labels_row_sum (ts : List TaskRes) (h : WFTasks ts) (byLabels : List String) (res : ByLabels)
    (he : evalByLabels ts byLabels = some res) : ∀ r ∈ res.rows, r.ok + r.ko = r.total := by
  unfold evalByLabels at he
  simp only at he
  split at he
  · simp only [Option.some.injEq] at he
    subst he
    intro r hr
    simp only at hr
    have hsat : IdsSat (buildIndexFrom [] 0 (buildLod ts)) (· < (buildLod ts).length) :=
      idsSat_buildIndexFrom _ _ 0 _ (by intro k vs hk; cases hk) (by omega)
    obtain ⟨h1, h2, h3, h4⟩ := rloop_rows_sat _ _ _ byLabels _ [] hsat r hr
    rw [h2, h3, h4]
    apply filter_partition_length
    intro p hp
    have hlt := h1 p hp
    have hd : (buildLod ts)[p]? = some (buildLod ts)[p] := List.getElem?_eq_getElem hlt
    have key : ∀ v, p ∈ idxGet (buildIndexFrom [] 0 (buildLod ts)) "_result" v ↔ ("_result", v) ∈ (buildLod ts)[p] := by
      intro v
      rw [mem_idxGet_buildIndexFrom]
      constructor
      · rintro (⟨i, d, h1, h2, h3⟩ | h)
        · have : p = i := by omega
          subst this
          rw [hd] at h1; cases h1; exact h3
        · simp [Browser.idxGet_nil] at h
      · intro hm; exact Or.inl ⟨p, _, hd, by omega, hm⟩
    rw [key, key]
    exact lod_result ts h _ (List.getElem_mem hlt)
  · cases he

theorem buildLod_length (ts : List TaskRes) :
    (buildLod ts).length = ((ts.filterMap (·.results)).map List.length).sum := by
  induction ts with
  | nil => simp [buildLod]
  | cons t tl ih =>
    simp only [buildLod, List.flatMap_cons, List.length_append] at ih ⊢
    rw [ih]
    cases h : t.results <;> simp [List.filterMap_cons, h]

/-- the number of results observed by the by-labels summary is the number of evaluated results -/
theorem labels_n (ts : List TaskRes) (byLabels : List String) (res : ByLabels)
    (he : evalByLabels ts byLabels = some res) :
    res.nLabels = ((ts.filterMap (·.results)).map List.length).sum := by
  unfold evalByLabels at he
  simp only at he
  split at he
  · simp only [Option.some.injEq] at he
    subst he
    exact buildLod_length ts
  · cases he

/-- a by-labels summary is successful exactly when every row has only successes -/
theorem labels_success_iff (res : ByLabels) : res.bool = true ↔ ∀ r ∈ res.rows, r.ok = r.total := by
  simp [ByLabels.bool, ByLabels.oracles]

/-! ### The rows of the by-labels summary, exactly -/

theorem lod_nodup (ts : List TaskRes) (h : WFTasks ts) (d : LDict) (hd : d ∈ buildLod ts) :
    (Browser.Item.keys d).Nodup := by
  simp only [buildLod, List.mem_flatMap] at hd
  obtain ⟨t, ht, hd⟩ := hd
  cases hr : t.results with
  | none => simp [hr] at hd
  | some rs =>
    simp only [hr, List.mem_map] at hd
    obtain ⟨r, hrm, rfl⟩ := hd
    exact Browser.keys_set_nodup _ _ _ (Browser.keys_set_nodup _ _ _ (h t ht rs hr r hrm))

/-- a result carries at most one combination of values for the requested labels -/
theorem carries_unique (ts : List TaskRes) (h : WFTasks ts) (p : Nat) (ls : List String) (v1 v2 : List Val)
    (h1 : Carries (buildLod ts) p ls v1) (h2 : Carries (buildLod ts) p ls v2) : v1 = v2 := by
  obtain ⟨d, hd, f1⟩ := h1
  obtain ⟨d', hd', f2⟩ := h2
  rw [hd] at hd'; cases hd'
  have hnd := lod_nodup ts h d (List.mem_of_getElem? hd)
  induction f1 generalizing v2 with
  | nil => cases f2; rfl
  | cons a _ ih =>
    cases f2 with
    | cons b f2' =>
      have e1 := (Browser.get_eq_some_of_mem hnd).1 a
      have e2 := (Browser.get_eq_some_of_mem hnd).1 b
      rw [e1] at e2
      cases e2
      rw [ih _ f2']

/-- **Each row counts exactly the results that carry the requested labels with the row's values** (`ids` is the set
the row's `total` is the size of), **every result carrying all the requested labels is in the row of its
combination, and no combination has two rows.** -/
theorem labels_rows_exact (ts : List TaskRes) (byLabels : List String) (hne : byLabels ≠ []) (res : ByLabels)
    (he : evalByLabels ts byLabels = some res) :
    (∀ r ∈ res.rows, r.ids.Nodup ∧ r.total = r.ids.length ∧
      ∀ p, p ∈ r.ids ↔ Carries (buildLod ts) p byLabels r.labels) ∧
    (∀ p vals, Carries (buildLod ts) p byLabels vals → ∃ r ∈ res.rows, r.labels = vals ∧ p ∈ r.ids) ∧
    (res.rows.map (·.labels)).Nodup := by
  unfold evalByLabels at he
  simp only at he
  split at he
  · simp only [Option.some.injEq] at he
    subst he
    simp only
    have hwf : IdxWF (buildIndexFrom [] 0 (buildLod ts)) := idxWF_buildIndexFrom _ _ _ idxWF_nil
    have hsem : Sem (buildLod ts) (buildIndexFrom [] 0 (buildLod ts)) (fun _ => True) := by
      intro k v p
      rw [mem_idxGet_buildIndexFrom]
      constructor
      · rintro (⟨i, d, h1, h2, h3⟩ | h)
        · have : p = i := by omega
          subst this; exact ⟨trivial, d, h1, h3⟩
        · simp [Browser.idxGet_nil] at h
      · rintro ⟨_, d, h1, h3⟩; exact Or.inl ⟨p, d, h1, by omega, h3⟩
    obtain ⟨hA, hB, hC⟩ := rloop_exact (buildLod ts) _ _ byLabels _ [] (fun _ => True) hwf hsem
    refine ⟨?_, ?_, hC⟩
    · intro r hr
      obtain ⟨hnd, vals, hlab, hmem⟩ := hA r hr
      have hsat : IdsSat (buildIndexFrom [] 0 (buildLod ts)) (fun _ => True) := fun _ _ _ _ _ _ _ _ => trivial
      obtain ⟨_, htot, _, _⟩ := rloop_rows_sat _ _ _ byLabels _ [] hsat r hr
      refine ⟨hnd, htot, ?_⟩
      intro p
      rw [hmem p]
      simp only [List.nil_append] at hlab
      rw [hlab]
      simp
    · intro p vals hc
      obtain ⟨r, hr, hlab, hp⟩ := hB hne p vals trivial hc
      exact ⟨r, hr, by simpa using hlab, hp⟩
  · cases he

/-- **The totals add up to the number of results carrying the requested labels**: the rows' id sets are pairwise
disjoint, so the sum of the `total` column is the size of a duplicate-free list holding exactly the results that carry
all the requested labels (each counted once). -/
theorem labels_total (ts : List TaskRes) (h : WFTasks ts) (byLabels : List String) (hne : byLabels ≠ [])
    (res : ByLabels) (he : evalByLabels ts byLabels = some res) :
    ∃ L : List Nat, L.Nodup ∧ (∀ p, p ∈ L ↔ ∃ vals, Carries (buildLod ts) p byLabels vals) ∧
      (res.rows.map (·.total)).sum = L.length := by
  obtain ⟨hA, hB, hC⟩ := labels_rows_exact ts byLabels hne res he
  refine ⟨res.rows.flatMap (·.ids), ?_, ?_, ?_⟩
  · rw [List.nodup_flatMap]
    refine ⟨fun r hr => (hA r hr).1, ?_⟩
    have hpw : res.rows.Pairwise (fun a b => a.labels ≠ b.labels) := by
      rw [List.Nodup, List.pairwise_map] at hC; exact hC
    have hpw' : res.rows.Pairwise (fun a b => a ∈ res.rows ∧ b ∈ res.rows ∧ a.labels ≠ b.labels) := by
      rw [List.pairwise_iff_forall_sublist] at hpw ⊢
      intro a b hab
      exact ⟨hab.subset (by simp), hab.subset (by simp), hpw hab⟩
    refine hpw'.imp ?_
    rintro a b ⟨ha, hb, hab⟩ p hpa hpb
    exact hab (carries_unique ts h p byLabels _ _ (((hA a ha).2.2 p).1 hpa) (((hA b hb).2.2 p).1 hpb))
  · intro p
    rw [List.mem_flatMap]
    constructor
    · rintro ⟨r, hr, hp⟩; exact ⟨r.labels, ((hA r hr).2.2 p).1 hp⟩
    · rintro ⟨vals, hc⟩
      obtain ⟨r, hr, _, hp⟩ := hB p vals hc
      exact ⟨r, hr, hp⟩
  · rw [List.length_flatMap]
    congr 1
    apply List.map_congr_left
    intro r hr
    exact (hA r hr).2.1

/-! Non-vacuity -/
def exTasks : List TaskRes :=
  [ { name := 1, status := 3, results := some [
        { verdict := true, name := 10, fp := 100, labels := [("meal", .atom 0), ("day", .atom 1)] },
        { verdict := false, name := 11, fp := 101, labels := [("meal", .atom 0)] } ] },
    { name := 2, status := 4, results := none },
    { name := 3, status := 3, results := some [
        { verdict := true, name := 12, fp := 102, labels := [("day", .atom 1), ("meal", .atom 2)] } ] } ]

example : WFTasks exTasks := by
  intro t ht rs hrs r hr
  simp only [exTasks, List.mem_cons, List.mem_nil_iff, or_false] at ht
  rcases ht with rfl | rfl | rfl <;> simp at hrs <;> subst hrs <;> simp at hr
  · rcases hr with rfl | rfl <;> decide
  · subst hr; decide
example : clsGet (evalTasks exTasks) 3 = [(1, none), (3, none)] := by decide
example : clsGet (evalTests exTasks) FAILURE = [(11, some 101)] := by decide
example : ((evalByLabels exTasks ["meal"]).map (fun r => r.rows.map (fun t => (t.ok, t.ko, t.total)))) =
    some [(1, 1, 2), (1, 0, 1)] := by decide
example : boolTasks (evalTasks exTasks) = false := by decide

end Diag
