import Proofs.Use
import Mathlib.Tactic.Tauto
/-!
# C15 — generated tasks correspond one-to-one to what was asked for

Model: `Model/Use.lean`.  The *signature* of a `Use` request is what the generated task does: the function, the
names and keys of the injected tasks (injection reads `env[task.name][key]`), the kind of dependency and the
serialization flag.  Interpretation (DESIGN.md, C15): injected tasks count by name — two task objects with the same
name cannot coexist in a job (`duplicate_names_rejected`).
-/
namespace UseM
set_option linter.unusedVariables false
set_option linter.unusedSimpArgs false

def UseReq.tasks (r : UseReq) : List Nat := r.injKwargs.map (fun x => x.2.1) ++ r.injArgs.map (·.1)

/-- the request only mentions existing tasks -/
def UseReq.WF (st : St) (r : UseReq) : Prop := ∀ t ∈ r.tasks, t < st.next

theorem sameSig_iff (st : St) (r r' : UseReq) : sameSig st r r' = true ↔ r.sig st = r'.sig st := by
  simp only [sameSig, UseReq.sig, Bool.and_eq_true, decide_eq_true_iff, Prod.mk.injEq]
  constructor
  · rintro ⟨⟨⟨⟨a, b⟩, c⟩, d⟩, e⟩
    exact ⟨a, of_decide_eq_true b, of_decide_eq_true c, d, e⟩
  · rintro ⟨a, b, c, d, e⟩
    exact ⟨⟨⟨⟨a, decide_eq_true b⟩, decide_eq_true c⟩, d⟩, e⟩

theorem injected_sub (r : UseReq) : ∀ t ∈ r.injected, t ∈ r.tasks := by
  intro t ht
  simpa [UseReq.injected, UseReq.tasks, List.mem_eraseDups] using ht

theorem sig_ext {st st' : St} (h : Ext st st') {r : UseReq} (hr : r.WF st) : r.sig st' = r.sig st := by
  have hn : ∀ t ∈ r.tasks, st'.nameOf t = st.nameOf t := fun t ht => nameOf_ext h t (hr t ht)
  simp only [UseReq.sig, Prod.mk.injEq, true_and, and_true]
  constructor
  · apply List.map_congr_left
    intro x hx
    rw [hn x.1 (by simp [UseReq.tasks]; right; exact ⟨x.2, by simpa using hx⟩)]
  · apply List.map_congr_left
    intro x hx
    rw [hn x.2.1 (by simp [UseReq.tasks]; left; exact ⟨x.1, x.2.2, by simpa using hx⟩)]

theorem useName_ext {st st' : St} (h : Ext st st') {r : UseReq} (hr : r.WF st) : useName st' r = useName st r := by
  have hn : ∀ t ∈ r.injected, st'.nameOf t = st.nameOf t :=
    fun t ht => nameOf_ext h t (hr t (injected_sub r t ht))
  simp only [useName]
  rw [List.map_congr_left hn]

theorem WF_ext {st st' : St} (h : Ext st st') {r : UseReq} (hr : r.WF st) : r.WF st' :=
  fun t ht => Nat.lt_of_lt_of_le (hr t ht) h.next_le

/-- invariant: cached requests mention existing tasks only -/
def CacheWF (st : St) : Prop := ∀ n t r, lookup st.useCache n = some (t, r) → r.WF st ∧ t < st.next

/-- one call of `Use.get_task()` -/
theorem getTask_spec {st : St} (hg : Good st) (hc : CacheWF st) (r : UseReq) (hr : r.WF st) :
    let out := getTask .fixed st r
    Good out.2 ∧ CacheWF out.2 ∧ Ext st out.2 ∧
    (∀ t, out.1 = .ok t → ∃ r', lookup out.2.behaviour t = some (.use r') ∧ r.sig out.2 = r'.sig out.2 ∧
        lookup out.2.useCache (useName st r) = some (t, r') ∧ t < out.2.next) := by
  simp only [getTask]
  cases hl : lookup st.useCache (useName st r) with
  | some x =>
    obtain ⟨t, r'⟩ := x
    simp only
    by_cases hs : sameSig st r r' = true
    · simp only [hs, if_true]
      refine ⟨hg, hc, Ext.refl st, ?_⟩
      intro t' ht'; injection ht' with ht'; subst ht'
      exact ⟨r', hg.cache_beh _ _ _ hl, (sameSig_iff st r r').1 hs, hl, (hc _ _ _ hl).2⟩
    · simp only [hs]
      refine ⟨hg, hc, Ext.refl st, ?_⟩
      intro t' ht'; cases ht'
  | none =>
    simp only
    obtain ⟨h1, h2, h3, h4, h5, h6, h7, h8⟩ := newTask_spec hg (useName st r) (.use r)
    generalize hnt : st.newTask (useName st r) (.use r) = nt at h1 h2 h3 h4 h5 h6 h7 h8
    obtain ⟨t, st1⟩ := nt
    simp only at h1 h2 h3 h4 h5 h6 h7 h8 ⊢
    subst h1
    have hext : Ext st { st1 with useCache := st1.useCache ++ [(useName st r, st.next, r)] } := by
      refine ⟨by simp [h2], h5, h6, ?_⟩
      intro n x hx
      simp only [lookup_append, h7, hx]
    have hnames1 : ∀ p ∈ st1.names, p.1 < st1.next := by
      intro p hp
      have hnt' := congrArg Prod.snd hnt
      simp only [St.newTask] at hnt'
      rw [← hnt'] at hp
      simp only [List.mem_append, List.mem_singleton] at hp
      rcases hp with hp | hp
      · have := hg.names_lt p hp; omega
      · rw [hp]; simp; omega
    have hbeh1 : ∀ p ∈ st1.behaviour, p.1 < st1.next := by
      intro p hp
      have hnt' := congrArg Prod.snd hnt
      simp only [St.newTask] at hnt'
      rw [← hnt'] at hp
      simp only [List.mem_append, List.mem_singleton] at hp
      rcases hp with hp | hp
      · have := hg.beh_lt p hp; omega
      · rw [hp]; simp; omega
    have hext1 : Ext st st1 := ⟨by omega, h5, h6, fun n x hx => by rw [h7]; exact hx⟩
    refine ⟨⟨hnames1, hbeh1, ?_, ?_⟩, ?_, hext, ?_⟩
    · -- cache_beh
      intro n t' r'' hlk
      simp only [lookup_append, h7] at hlk
      cases hl2 : lookup st.useCache n with
      | some x =>
        simp only [hl2] at hlk; injection hlk with hlk; subst hlk
        have := hg.cache_beh _ _ _ hl2
        rw [h6 t' (hc _ _ _ hl2).2]; exact this
      | none =>
        simp only [hl2] at hlk
        split at hlk
        · injection hlk with hlk; injection hlk with e1 e2; subst e1; subst e2; exact h4
        · cases hlk
    · -- cache_name
      intro n t' r'' hlk
      simp only [lookup_append, h7] at hlk
      cases hl2 : lookup st.useCache n with
      | some x =>
        simp only [hl2] at hlk; injection hlk with hlk; subst hlk
        rw [useName_ext hext (hc _ _ _ hl2).1]; exact hg.cache_name _ _ _ hl2
      | none =>
        simp only [hl2] at hlk
        split at hlk
        · rename_i hn; injection hlk with hlk; injection hlk with e1 e2; subst e2
          rw [useName_ext hext hr]; exact hn
        · cases hlk
    · -- CacheWF
      intro n t' r'' hlk
      simp only [lookup_append, h7] at hlk
      cases hl2 : lookup st.useCache n with
      | some x =>
        simp only [hl2] at hlk; injection hlk with hlk; subst hlk
        exact ⟨WF_ext hext (hc _ _ _ hl2).1, by have := (hc _ _ _ hl2).2; show t' < st1.next; omega⟩
      | none =>
        simp only [hl2] at hlk
        split at hlk
        · injection hlk with hlk; injection hlk with e1 e2; subst e1; subst e2
          exact ⟨WF_ext hext hr, by show st.next < st1.next; omega⟩
        · cases hlk
    · intro t' ht'; injection ht' with ht'; subst ht'
      refine ⟨r, h4, rfl, ?_, by show st.next < st1.next; omega⟩
      simp only [lookup_append, h7, hl, if_true]

/-- **A task obtained from an argument-injection wrapper runs that wrapper's function on the results of that
wrapper's injected tasks and keys**: the behaviour recorded for the returned task has the signature of the request. -/
theorem task_runs_its_own_request {st : St} (hg : Good st) (hc : CacheWF st) (r : UseReq) (hr : r.WF st) (t : Nat)
    (h : (getTask .fixed st r).1 = .ok t) :
    ∃ r', lookup (getTask .fixed st r).2.behaviour t = some (.use r') ∧
      r.sig (getTask .fixed st r).2 = r'.sig (getTask .fixed st r).2 := by
  obtain ⟨_, _, _, h4⟩ := getTask_spec hg hc r hr
  obtain ⟨r', h1, h2, _⟩ := h4 t h
  exact ⟨r', h1, h2⟩

/-- **Identical requests get the same task**, whatever was created in between (`st2` is any later state). -/
theorem same_request_same_task {st st2 : St} (hg : Good st) (hc : CacheWF st) (r : UseReq) (hr : r.WF st) (t : Nat)
    (h : (getTask .fixed st r).1 = .ok t)
    (hg2 : Good st2) (hext : Ext (getTask .fixed st r).2 st2) :
    (getTask .fixed st2 r).1 = .ok t := by
  obtain ⟨_, _, he, h4⟩ := getTask_spec hg hc r hr
  obtain ⟨r', hb, hs, hl, hlt⟩ := h4 t h
  have hname : useName st2 r = useName st r := useName_ext (he.trans hext) hr
  have hl2 := hext.cache _ _ hl
  simp only [getTask, hname, hl2]
  have hrw : r'.WF (getTask .fixed st r).2 := by
    obtain ⟨_, hc', _, _⟩ := getTask_spec hg hc r hr
    exact (hc' _ _ _ hl).1
  have : sameSig st2 r r' = true := by
    rw [sameSig_iff, sig_ext hext (WF_ext he hr), sig_ext hext hrw]; exact hs
  simp [this]

/-- **Two requests that get the same task have the same signature**: requests that differ in function, injected
task (name), key, kind of dependency or serialization never silently share a task — the second one gets a task
of its own or `ValueError`. -/
theorem different_request_not_shared {st st2 : St} (hg : Good st) (hc : CacheWF st) (r1 : UseReq) (hr1 : r1.WF st)
    (t : Nat) (h1 : (getTask .fixed st r1).1 = .ok t)
    (hg2 : Good st2) (hc2 : CacheWF st2) (hext : Ext (getTask .fixed st r1).2 st2)
    (r2 : UseReq) (hr2 : r2.WF st2) (h2 : (getTask .fixed st2 r2).1 = .ok t) :
    r1.sig (getTask .fixed st2 r2).2 = r2.sig (getTask .fixed st2 r2).2 := by
  obtain ⟨_, hc1', he1, h41⟩ := getTask_spec hg hc r1 hr1
  obtain ⟨r1', hb1, hs1, hl1, hlt1⟩ := h41 t h1
  obtain ⟨_, _, he2, h42⟩ := getTask_spec hg2 hc2 r2 hr2
  obtain ⟨r2', hb2, hs2, _, _⟩ := h42 t h2
  -- the behaviour of `t` never changed
  have hb1' : lookup (getTask .fixed st2 r2).2.behaviour t = some (.use r1') := by
    rw [(hext.trans he2).beh t hlt1]; exact hb1
  rw [hb1'] at hb2; injection hb2 with hb2; injection hb2 with hb2; subst hb2
  have hw1 : r1.WF (getTask .fixed st r1).2 := WF_ext he1 hr1
  have hw1' : r1'.WF (getTask .fixed st r1).2 := (hc1' _ _ _ hl1).1
  rw [sig_ext (hext.trans he2) hw1, hs1, ← sig_ext (hext.trans he2) hw1', hs2]

/-! ### the hypotheses `Good`/`CacheWF` hold in every reachable state -/

theorem newTask_good {st : St} (hg : Good st) (hc : CacheWF st) (name : String) (b : Behaviour) :
    Good (st.newTask name b).2 ∧ CacheWF (st.newTask name b).2 ∧ Ext st (st.newTask name b).2 := by
  obtain ⟨h1, h2, h3, h4, h5, h6, h7, h8⟩ := newTask_spec hg name b
  have hext : Ext st (st.newTask name b).2 := ⟨by rw [h2]; omega, h5, h6, fun n x hx => by rw [h7]; exact hx⟩
  refine ⟨⟨?_, ?_, ?_, ?_⟩, ?_, hext⟩
  · intro p hp
    simp only [St.newTask, List.mem_append, List.mem_singleton] at hp ⊢
    rcases hp with hp | hp
    · have := hg.names_lt p hp; omega
    · rw [hp]; simp
  · intro p hp
    simp only [St.newTask, List.mem_append, List.mem_singleton] at hp ⊢
    rcases hp with hp | hp
    · have := hg.beh_lt p hp; omega
    · rw [hp]; simp
  · intro n t r hl
    rw [h7] at hl
    rw [h6 t (hc _ _ _ hl).2]; exact hg.cache_beh _ _ _ hl
  · intro n t r hl
    rw [h7] at hl
    rw [useName_ext hext (hc _ _ _ hl).1]; exact hg.cache_name _ _ _ hl
  · intro n t r hl
    rw [h7] at hl
    exact ⟨WF_ext hext (hc _ _ _ hl).1, by rw [h2]; have := (hc _ _ _ hl).2; omega⟩

/-- the calls of a history (requests are those the caller can form: they mention existing tasks only) -/
inductive Op where
  | base (name : String)
  | use (r : UseReq)
  | factory (name : String) (defaults : List (String × String))
  | make (f : Nat) (r : MakeReq)

def stepOp (st : St) : Op → St
  | .base name => (st.newTask name .base).2
  | .use r => if r.tasks.all (· < st.next) then (getTask .fixed st r).2 else st
  | .factory name d => (newFactory st name d).2
  | .make f r => (make .fixed st f r).2

theorem good_factories {st : St} (hg : Good st) (hc : CacheWF st) (fs : List Factory) :
    Good { st with factories := fs } ∧ CacheWF { st with factories := fs } :=
  ⟨⟨hg.names_lt, hg.beh_lt, hg.cache_beh, hg.cache_name⟩, hc⟩

/-- **Every reachable state satisfies the hypotheses of the theorems above.** -/
theorem history_good (ops : List Op) : Good (ops.foldl stepOp St.init) ∧ CacheWF (ops.foldl stepOp St.init) := by
  suffices ∀ st, Good st ∧ CacheWF st → Good (ops.foldl stepOp st) ∧ CacheWF (ops.foldl stepOp st) from
    this _ ⟨Good.init, by intro n t r h; simp [St.init, lookup] at h⟩
  induction ops with
  | nil => intro st h; exact h
  | cons op ops ih =>
    intro st ⟨hg, hc⟩
    simp only [List.foldl_cons]
    apply ih
    cases op with
    | base name => exact ⟨(newTask_good hg hc name .base).1, (newTask_good hg hc name .base).2.1⟩
    | use r =>
      simp only [stepOp]
      split
      · rename_i hall
        have hr : r.WF st := by intro t ht; simpa using (List.all_eq_true.1 hall) t ht
        obtain ⟨h1, h2, _, _⟩ := getTask_spec hg hc r hr
        exact ⟨h1, h2⟩
      · exact ⟨hg, hc⟩
    | factory name d => exact good_factories hg hc _
    | make f r =>
      simp only [stepOp, make]
      cases st.factories[f]? with
      | none => exact ⟨hg, hc⟩
      | some fac =>
        simp only [makeIn]
        split
        · split
          · exact ⟨hg, hc⟩
          · exact ⟨hg, hc⟩
        · obtain ⟨g1, g2, _⟩ := newTask_good hg hc (runTaskName { r with kwargs := mergeKw fac.defaults r.kwargs } fac.name)
            (.run f { r with kwargs := mergeKw fac.defaults r.kwargs })
          exact good_factories g1 g2 _

/-! ### run-task factories -/

/-- one call of `RunTaskFactory.make`: the behaviour recorded for the returned task is the requested command
line (extra arguments, keywords over the factory defaults, subprocess arguments) with the requested dependencies -/
theorem make_runs_its_own_request (st : St) (f : Nat) (r : MakeReq) (fac : Factory) (hf : st.factories[f]? = some fac)
    (hcache : ∀ k t r', lookup fac.cache k = some (t, r') → lookup st.behaviour t = some (.run f r'))
    (hg : Good st) (t : Nat) (h : (make .fixed st f r).1 = .ok t) :
    ∃ r', lookup (make .fixed st f r).2.behaviour t = some (.run f r') ∧
      r'.extraArgs = r.extraArgs ∧ r'.kwargs = mergeKw fac.defaults r.kwargs ∧
      r'.subprocessArgs = r.subprocessArgs ∧ r'.deps = r.deps ∧ r'.softDeps = r.softDeps := by
  simp only [make, hf] at h ⊢
  generalize hr2 : ({ r with kwargs := mergeKw fac.defaults r.kwargs } : MakeReq) = r2 at h ⊢
  have e1 : r2.extraArgs = r.extraArgs := by rw [← hr2]
  have e2 : r2.kwargs = mergeKw fac.defaults r.kwargs := by rw [← hr2]
  have e3 : r2.subprocessArgs = r.subprocessArgs := by rw [← hr2]
  have e4 : r2.deps = r.deps := by rw [← hr2]
  have e5 : r2.softDeps = r.softDeps := by rw [← hr2]
  unfold makeIn at h ⊢
  cases hl : lookup fac.cache (fkey r2) with
  | some x =>
    obtain ⟨t', r'⟩ := x
    rw [hl] at h
    simp only [] at h ⊢
    by_cases hc : r2.extraArgs = r'.extraArgs ∧ r2.kwargs = r'.kwargs ∧
        r2.subprocessArgs = r'.subprocessArgs ∧ r2.deps = r'.deps ∧ r2.softDeps = r'.softDeps
    · rw [if_pos hc] at h ⊢
      injection h with h; subst h
      obtain ⟨c1, c2, c3, c4, c5⟩ := hc
      exact ⟨r', hcache _ _ _ hl, by rw [← c1, e1], by rw [← c2, e2], by rw [← c3, e3], by rw [← c4, e4], by rw [← c5, e5]⟩
    · rw [if_neg hc] at h; cases h
  | none =>
    rw [hl] at h
    simp only [] at h ⊢
    injection h with h
    obtain ⟨h1, _, _, h4, _⟩ := newTask_spec hg (runTaskName r2 fac.name) (.run f r2)
    rw [h1] at h; subst h
    exact ⟨r2, h4, e1, e2, e3, e4, e5⟩

/-! ### collecting the tasks of a job -/

theorem uniqueNames_go_iff (names seen : List String) :
    uniqueNames.go names seen = true ↔ names.Nodup ∧ ∀ n ∈ names, n ∉ seen := by
  induction names generalizing seen with
  | nil => simp [uniqueNames.go]
  | cons n r ih =>
    simp only [uniqueNames.go]
    by_cases hn : n ∈ seen
    · simp only [hn, if_true]
      constructor
      · intro h; cases h
      · rintro ⟨_, h⟩; exact absurd hn (h n (by simp))
    · simp only [hn, if_false, ih, List.nodup_cons, List.mem_cons]
      constructor
      · rintro ⟨hnd, hns⟩
        refine ⟨⟨fun hmem => (hns n hmem) (Or.inl rfl), hnd⟩, ?_⟩
        rintro m (rfl | hm)
        · exact hn
        · exact fun hms => hns m hm (Or.inr hms)
      · rintro ⟨⟨hnr, hnd⟩, hall⟩
        refine ⟨hnd, ?_⟩
        rintro m hm (rfl | hms)
        · exact hnr hm
        · exact hall m (Or.inr hm) hms

/-- **Two different tasks with the same name are rejected** (`check_unique_task_names` accepts exactly the lists
without a repeated name). -/
theorem duplicate_names_rejected (names : List String) : uniqueNames names = true ↔ names.Nodup := by
  simp [uniqueNames, uniqueNames_go_iff]

/-- `Reach deps roots t`: `t` is one of the given tasks or a transitive (hard or soft) dependency of one -/
inductive Reach (deps : Nat → List Nat) (roots : List Nat) : Nat → Prop
  | root {t} : t ∈ roots → Reach deps roots t
  | step {t d} : Reach deps roots t → d ∈ deps t → Reach deps roots d

theorem closeLoop_nodup (deps : Nat → List Nat) (fuel : Nat) (queue all : List Nat) (h : all.Nodup) :
    (closeLoop deps fuel queue all).Nodup := by
  induction fuel generalizing queue all with
  | zero => exact h
  | succ n ih =>
    simp only [closeLoop]
    split
    · exact h
    · apply ih
      rw [List.nodup_append]
      refine ⟨h, (nodup_eraseDups _).filter _, ?_⟩
      intro a ha b hb
      simp only [List.mem_filter, decide_eq_true_eq] at hb
      intro e; subst e; exact hb.2 ha

/-- **Every collected task appears exactly once.** -/
theorem close_nodup (deps : Nat → List Nat) (fuel : Nat) (tasks : List Nat) :
    (closeDeps deps fuel tasks).Nodup :=
  closeLoop_nodup deps fuel _ _ (nodup_eraseDups _)

theorem closeLoop_sound (deps : Nat → List Nat) (roots : List Nat) (fuel : Nat) (queue all : List Nat)
    (hq : ∀ t ∈ queue, Reach deps roots t) (ha : ∀ t ∈ all, Reach deps roots t) :
    ∀ t ∈ closeLoop deps fuel queue all, Reach deps roots t := by
  induction fuel generalizing queue all with
  | zero => exact ha
  | succ n ih =>
    simp only [closeLoop]
    split
    · exact ha
    · have hnx : ∀ t ∈ (queue.flatMap deps).eraseDups, Reach deps roots t := by
        intro t ht
        rw [List.mem_eraseDups, List.mem_flatMap] at ht
        obtain ⟨q, hq', hd⟩ := ht
        exact Reach.step (hq q hq') hd
      apply ih _ _ hnx
      intro t ht
      rcases List.mem_append.1 ht with ht | ht
      · exact ha t ht
      · exact hnx t (List.mem_filter.1 ht).1

/-- **Every collected task is one of the job's tasks or a transitive dependency.** -/
theorem close_sound (deps : Nat → List Nat) (fuel : Nat) (tasks : List Nat) :
    ∀ t ∈ closeDeps deps fuel tasks, Reach deps tasks t := by
  apply closeLoop_sound
  all_goals (intro t ht; exact Reach.root (by simpa [List.mem_eraseDups] using ht))

/-- a task at distance `n` from the roots -/
inductive ReachN (deps : Nat → List Nat) (roots : List Nat) : Nat → Nat → Prop
  | root {t} : t ∈ roots → ReachN deps roots 0 t
  | step {n t d} : ReachN deps roots n t → d ∈ deps t → ReachN deps roots (n + 1) d

theorem closeLoop_mono (deps : Nat → List Nat) (fuel : Nat) (queue all : List Nat) :
    ∀ t ∈ all, t ∈ closeLoop deps fuel queue all := by
  induction fuel generalizing queue all with
  | zero => intro t h; exact h
  | succ n ih =>
    intro t h
    simp only [closeLoop]
    split
    · exact h
    · exact ih _ _ t (List.mem_append_left _ h)

theorem closeLoop_complete (deps : Nat → List Nat) (fuel : Nat) (queue all : List Nat)
    (hqa : ∀ t ∈ queue, t ∈ all) (k : Nat) (hk : k ≤ fuel) :
    ∀ t, ReachN deps queue k t → t ∈ closeLoop deps fuel queue all := by
  induction k generalizing fuel queue all with
  | zero =>
    intro t ht
    cases ht with
    | root h => exact closeLoop_mono deps fuel queue all t (hqa t h)
  | succ k ih =>
    intro t ht
    -- peel the *first* step: t is at distance k from the next queue
    have hfirst : ∀ (n : Nat) (t : Nat), ReachN deps queue (n + 1) t →
        ReachN deps ((queue.flatMap deps).eraseDups) n t := by
      intro n
      induction n with
      | zero =>
        intro t ht
        cases ht with
        | step h0 hd =>
          cases h0 with
          | root hr => exact ReachN.root (by rw [List.mem_eraseDups, List.mem_flatMap]; exact ⟨_, hr, hd⟩)
      | succ n ihn =>
        intro t ht
        cases ht with
        | step h0 hd => exact ReachN.step (ihn _ h0) hd
    have h' := hfirst k t ht
    match fuel, hk with
    | f + 1, hk =>
      simp only [closeLoop]
      split
      · rename_i he
        -- empty queue: nothing is reachable in ≥ 1 steps
        exfalso
        have : queue = [] := by simpa using he
        subst this
        have : ∀ n t, ¬ ReachN deps [] n t := by
          intro n
          induction n with
          | zero => intro t h; cases h with | root h => simp at h
          | succ n ihn => intro t h; cases h with | step h0 _ => exact ihn _ h0
        exact this _ _ ht
      · apply ih f _ _ ?_ (by omega) t h'
        intro x hx
        by_cases hxa : x ∈ all
        · exact List.mem_append_left _ hxa
        · exact List.mem_append_right _ (List.mem_filter.2 ⟨hx, by simpa using hxa⟩)

/-- **Every transitive hard or soft dependency is collected** (given enough rounds: `fuel` at least the length of
the longest dependency chain; the driver uses the number of tasks). -/
theorem close_complete (deps : Nat → List Nat) (fuel : Nat) (tasks : List Nat) (k : Nat) (hk : k ≤ fuel)
    (t : Nat) (h : ReachN deps tasks k t) : t ∈ closeDeps deps fuel tasks := by
  have hroots : ∀ n t, ReachN deps tasks n t → ReachN deps tasks.eraseDups n t := by
    intro n
    induction n with
    | zero => intro t h; cases h with | root h => exact ReachN.root (by simpa [List.mem_eraseDups] using h)
    | succ n ih => intro t h; cases h with | step h0 hd => exact ReachN.step (ih _ h0) hd
  exact closeLoop_complete deps fuel _ _ (fun _ h => h) k hk t (hroots k t h)

/-! ### non-vacuity and the pinned code -/

def lam1 : Func := ⟨1, "<lambda>"⟩
def lam2 : Func := ⟨2, "<lambda>"⟩
def stBase : St := (St.init.newTask "t" .base).2

/-- two different lambdas on the same task: the pinned cache silently hands the first task to the second request;
the repaired one answers `ValueError` -/
theorem c15_pinned_refuted :
    (getTask .pinned (getTask .pinned stBase ⟨lam1, [(0, some "result")], [], .hard, false⟩).2
        ⟨lam2, [(0, some "result")], [], .hard, false⟩).1 = .ok 1 ∧
    (getTask .fixed (getTask .fixed stBase ⟨lam1, [(0, some "result")], [], .hard, false⟩).2
        ⟨lam2, [(0, some "result")], [], .hard, false⟩).1 = .valueError ∧
    (getTask .fixed (getTask .fixed stBase ⟨lam1, [(0, some "result")], [], .hard, false⟩).2
        ⟨lam1, [(0, some "result")], [], .hard, false⟩).1 = .ok 1 := by
  decide

end UseM
