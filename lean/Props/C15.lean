import Proofs.Use
import Mathlib.Tactic.Tauto
/-!
# C15 — generated tasks correspond one-to-one to what was asked for

Model: `Model/Use.lean`.  The *signature* of a `Use` request is what the generated task does: the function, the
names and keys of the injected tasks (injection reads `env[task.name][key]`), the kind of dependency and the
serialization flag.  Interpretation (DESIGN.md, C15): injected tasks count by name — two task objects with the same
name cannot coexist in a job (`duplicate_names_rejected`).
-/
namespace UseM
set_option linter.unusedVariables false
set_option linter.unusedSimpArgs false

def UseReq.tasks (r : UseReq) : List Nat := r.injKwargs.map (fun x => x.2.1) ++ r.injArgs.map (·.1)

/-- the request only mentions existing tasks -/
def UseReq.WF (st : St) (r : UseReq) : Prop := ∀ t ∈ r.tasks, t < st.next

theorem injected_sub (r : UseReq) : ∀ t ∈ r.injected, t ∈ r.tasks := by
  intro t ht
  simpa [UseReq.injected, UseReq.tasks, List.mem_eraseDups] using ht

theorem useName_ext {st st' : St} (h : Ext st st') {r : UseReq} (hr : r.WF st) : useName st' r = useName st r := by
  have hn : ∀ t ∈ r.injected, st'.nameOf t = st.nameOf t :=
    fun t ht => nameOf_ext h t (hr t (injected_sub r t ht))
  simp only [useName]
  rw [List.map_congr_left hn]

theorem findUse_some {cache : List (String × Nat × UseReq)} {name : String} {r : UseReq} {t : Nat}
    (h : findUse cache name r = some t) : (name, t, r) ∈ cache := by
  simp only [findUse, Option.map_eq_some_iff] at h
  obtain ⟨e, he, rfl⟩ := h
  have hm := List.mem_of_find?_eq_some he
  have hp := List.find?_some he
  simp only [Bool.and_eq_true, decide_eq_true_eq] at hp
  obtain ⟨n, t', r'⟩ := e
  simp only at hp; obtain ⟨rfl, rfl⟩ := hp
  exact hm

theorem findUse_append {cache l : List (String × Nat × UseReq)} {name : String} {r : UseReq} {t : Nat}
    (h : findUse cache name r = some t) : findUse (cache ++ l) name r = some t := by
  simp only [findUse, Option.map_eq_some_iff] at h ⊢
  obtain ⟨e, he, rfl⟩ := h
  exact ⟨e, by rw [List.find?_append, he]; rfl, rfl⟩

/-- one call of `Use.get_task()` -/
theorem getTask_spec {st : St} (hg : Good st) (r : UseReq) :
    let out := getTask .fixed st r
    Good out.2 ∧ Ext st out.2 ∧
    (∃ t, out.1 = .ok t ∧ lookup out.2.behaviour t = some (.use r) ∧
        findUse out.2.useCache (useName st r) r = some t ∧ t < out.2.next) := by
  simp only [getTask]
  cases hl : findUse st.useCache (useName st r) r with
  | some t =>
    simp only
    have hm := findUse_some hl
    exact ⟨hg, Ext.refl st, t, rfl, hg.cache_beh _ hm, hl, hg.cache_lt _ hm⟩
  | none =>
    simp only
    obtain ⟨h1, h2, h3, h4, h5, h6, h7, h8⟩ := newTask_spec hg (useName st r) (.use r)
    generalize hnt : st.newTask (useName st r) (.use r) = nt at h1 h2 h3 h4 h5 h6 h7 h8
    obtain ⟨t, st1⟩ := nt
    simp only at h1 h2 h3 h4 h5 h6 h7 h8 ⊢
    subst h1
    have hnt' := congrArg Prod.snd hnt
    simp only [St.newTask] at hnt'
    have hnames1 : ∀ p ∈ st1.names, p.1 < st1.next := by
      intro p hp
      rw [← hnt'] at hp
      simp only [List.mem_append, List.mem_singleton] at hp
      rcases hp with hp | hp
      · have := hg.names_lt p hp; omega
      · rw [hp]; simp; omega
    have hbeh1 : ∀ p ∈ st1.behaviour, p.1 < st1.next := by
      intro p hp
      rw [← hnt'] at hp
      simp only [List.mem_append, List.mem_singleton] at hp
      rcases hp with hp | hp
      · have := hg.beh_lt p hp; omega
      · rw [hp]; simp; omega
    refine ⟨⟨hnames1, hbeh1, ?_, ?_⟩, ⟨by simp [h2], h5, h6, ⟨[(useName st r, st.next, r)], by simp [h7]⟩⟩, st.next, rfl, h4, ?_, by simp [h2]⟩
    · intro e he
      simp only [h7, List.mem_append, List.mem_singleton] at he
      rcases he with he | rfl
      · show lookup st1.behaviour e.2.1 = _
        rw [h6 _ (hg.cache_lt e he)]; exact hg.cache_beh e he
      · exact h4
    · intro e he
      simp only [h7, List.mem_append, List.mem_singleton] at he
      rcases he with he | rfl
      · have := hg.cache_lt e he; show e.2.1 < st1.next; omega
      · show st.next < st1.next; omega
    · -- the new entry is the first one matching
      simp only [findUse, h7, List.find?_append]
      have hnone : st.useCache.find? (fun e => decide (e.1 = useName st r) && decide (e.2.2 = r)) = none := by
        simp only [findUse, Option.map_eq_none_iff] at hl; exact hl
      simp [hnone]

/-- **A task obtained from an argument-injection wrapper runs that wrapper's function on the results of that
wrapper's injected tasks and keys**: the behaviour recorded for the returned task is the request itself. -/
theorem task_runs_its_own_request {st : St} (hg : Good st) (r : UseReq) :
    ∃ t, (getTask .fixed st r).1 = .ok t ∧ lookup (getTask .fixed st r).2.behaviour t = some (.use r) := by
  obtain ⟨_, _, t, h1, h2, _⟩ := getTask_spec hg r
  exact ⟨t, h1, h2⟩

/-- **Identical requests get the same task**, whatever was created in between (`st2` is any later state). -/
theorem same_request_same_task {st st2 : St} (hg : Good st) (r : UseReq) (hr : r.WF st) (t : Nat)
    (h : (getTask .fixed st r).1 = .ok t) (hext : Ext (getTask .fixed st r).2 st2) :
    (getTask .fixed st2 r).1 = .ok t := by
  obtain ⟨_, he, t', h1, _, hf, _⟩ := getTask_spec hg r
  rw [h1] at h; injection h with h; subst h
  have hname : useName st2 r = useName st r := useName_ext (he.trans hext) hr
  obtain ⟨l, hl⟩ := hext.cache
  have := findUse_append (l := l) hf
  rw [← hl] at this
  simp only [getTask, hname, this]

/-- **Two requests that get the same task are the same request**: requests that differ in function, injected task,
key, kind of dependency or serialization never share a task — the second one gets a task of its own. -/
theorem different_request_not_shared {st st2 : St} (hg : Good st) (r1 : UseReq) (t : Nat)
    (h1 : (getTask .fixed st r1).1 = .ok t)
    (hg2 : Good st2) (hext : Ext (getTask .fixed st r1).2 st2)
    (r2 : UseReq) (h2 : (getTask .fixed st2 r2).1 = .ok t) : r1 = r2 := by
  obtain ⟨_, _, t1, e1, hb1, _, hlt1⟩ := getTask_spec hg r1
  obtain ⟨_, he2, t2, e2, hb2, _, _⟩ := getTask_spec hg2 r2
  rw [e1] at h1; injection h1 with h1; subst h1
  rw [e2] at h2; injection h2 with h2; subst h2
  -- the behaviour of the task never changed
  have : lookup (getTask .fixed st2 r2).2.behaviour t2 = some (.use r1) := by
    rw [(hext.trans he2).beh t2 hlt1]; exact hb1
  rw [this] at hb2; injection hb2 with hb2; injection hb2

/-! ### the hypothesis `Good` holds in every reachable state -/

theorem newTask_good {st : St} (hg : Good st) (name : String) (b : Behaviour) :
    Good (st.newTask name b).2 ∧ Ext st (st.newTask name b).2 := by
  obtain ⟨h1, h2, h3, h4, h5, h6, h7, h8⟩ := newTask_spec hg name b
  refine ⟨⟨?_, ?_, ?_, ?_⟩, ⟨by rw [h2]; omega, h5, h6, ⟨[], by simp [h7]⟩⟩⟩
  · intro p hp
    simp only [St.newTask, List.mem_append, List.mem_singleton] at hp ⊢
    rcases hp with hp | hp
    · have := hg.names_lt p hp; omega
    · rw [hp]; simp
  · intro p hp
    simp only [St.newTask, List.mem_append, List.mem_singleton] at hp ⊢
    rcases hp with hp | hp
    · have := hg.beh_lt p hp; omega
    · rw [hp]; simp
  · intro e he
    rw [h7] at he
    rw [h6 _ (hg.cache_lt e he)]; exact hg.cache_beh e he
  · intro e he
    rw [h7] at he
    rw [h2]; have := hg.cache_lt e he; omega

/-- the calls of a history -/
inductive Op where
  | base (name : String)
  | use (r : UseReq)
  | factory (name : String) (defaults : List (String × String))
  | make (f : Nat) (r : MakeReq)

def stepOp (st : St) : Op → St
  | .base name => (st.newTask name .base).2
  | .use r => (getTask .fixed st r).2
  | .factory name d => (newFactory st name d).2
  | .make f r => (make .fixed st f r).2

theorem good_factories {st : St} (hg : Good st) (fs : List Factory) : Good { st with factories := fs } :=
  ⟨hg.names_lt, hg.beh_lt, hg.cache_beh, hg.cache_lt⟩

/-- **Every reachable state satisfies the hypothesis of the theorems above.** -/
theorem history_good (ops : List Op) : Good (ops.foldl stepOp St.init) := by
  suffices ∀ st, Good st → Good (ops.foldl stepOp st) from this _ Good.init
  induction ops with
  | nil => intro st h; exact h
  | cons op ops ih =>
    intro st hg
    simp only [List.foldl_cons]
    apply ih
    cases op with
    | base name => exact (newTask_good hg name .base).1
    | use r => exact (getTask_spec hg r).1
    | factory name d => exact good_factories hg _
    | make f r =>
      simp only [stepOp, make]
      cases st.factories[f]? with
      | none => exact hg
      | some fac =>
        simp only [makeIn]
        split
        · exact hg
        · exact good_factories (newTask_good hg _ _).1 _

/-! ### run-task factories -/

/-- one call of `RunTaskFactory.make`: the behaviour recorded for the returned task is the requested command
line (extra arguments, keywords over the factory defaults, subprocess arguments) with the requested dependencies -/
theorem make_runs_its_own_request (st : St) (f : Nat) (r : MakeReq) (fac : Factory) (hf : st.factories[f]? = some fac)
    (hcache : ∀ k t r', (k, t, r') ∈ fac.cache → lookup st.behaviour t = some (.run f r'))
    (hg : Good st) (t : Nat) (h : (make .fixed st f r).1 = .ok t) :
    ∃ r', lookup (make .fixed st f r).2.behaviour t = some (.run f r') ∧
      r'.extraArgs = r.extraArgs ∧ r'.kwargs = mergeKw fac.defaults r.kwargs ∧
      r'.subprocessArgs = r.subprocessArgs ∧ r'.deps = r.deps ∧ r'.softDeps = r.softDeps := by
  simp only [make, hf] at h ⊢
  generalize hr2 : ({ r with kwargs := mergeKw fac.defaults r.kwargs } : MakeReq) = r2 at h ⊢
  have e1 : r2.extraArgs = r.extraArgs := by rw [← hr2]
  have e2 : r2.kwargs = mergeKw fac.defaults r.kwargs := by rw [← hr2]
  have e3 : r2.subprocessArgs = r.subprocessArgs := by rw [← hr2]
  have e4 : r2.deps = r.deps := by rw [← hr2]
  have e5 : r2.softDeps = r.softDeps := by rw [← hr2]
  unfold makeIn at h ⊢
  simp only [] at h ⊢
  cases hl : findRun fac.cache (fkey r2) r2 with
  | some t' =>
    rw [hl] at h
    simp only [] at h ⊢
    injection h with h; subst h
    simp only [findRun, Option.map_eq_some_iff] at hl
    obtain ⟨e, he, rfl⟩ := hl
    have hm := List.mem_of_find?_eq_some he
    have hp := List.find?_some he
    simp only [Bool.and_eq_true, decide_eq_true_eq] at hp
    obtain ⟨k, t', r'⟩ := e
    simp only at hp; obtain ⟨rfl, rfl⟩ := hp
    exact ⟨r', hcache _ _ _ hm, e1, e2, e3, e4, e5⟩
  | none =>
    rw [hl] at h
    simp only [] at h ⊢
    injection h with h
    obtain ⟨h1, _, _, h4, _⟩ := newTask_spec hg (runTaskName r2 fac.name) (.run f r2)
    rw [h1] at h; subst h
    exact ⟨r2, h4, e1, e2, e3, e4, e5⟩

/-! ### collecting the tasks of a job -/

theorem uniqueNames_go_iff (names seen : List String) :
    uniqueNames.go names seen = true ↔ names.Nodup ∧ ∀ n ∈ names, n ∉ seen := by
  induction names generalizing seen with
  | nil => simp [uniqueNames.go]
  | cons n r ih =>
    simp only [uniqueNames.go]
    by_cases hn : n ∈ seen
    · simp only [hn, if_true]
      constructor
      · intro h; cases h
      · rintro ⟨_, h⟩; exact absurd hn (h n (by simp))
    · simp only [hn, if_false, ih, List.nodup_cons, List.mem_cons]
      constructor
      · rintro ⟨hnd, hns⟩
        refine ⟨⟨fun hmem => (hns n hmem) (Or.inl rfl), hnd⟩, ?_⟩
        rintro m (rfl | hm)
        · exact hn
        · exact fun hms => hns m hm (Or.inr hms)
      · rintro ⟨⟨hnr, hnd⟩, hall⟩
        refine ⟨hnd, ?_⟩
        rintro m hm (rfl | hms)
        · exact hnr hm
        · exact hall m (Or.inr hm) hms

/-- **Two different tasks with the same name are rejected** (`check_unique_task_names` accepts exactly the lists
without a repeated name). -/
theorem duplicate_names_rejected (names : List String) : uniqueNames names = true ↔ names.Nodup := by
  simp [uniqueNames, uniqueNames_go_iff]

/-- `Reach deps roots t`: `t` is one of the given tasks or a transitive (hard or soft) dependency of one -/
inductive Reach (deps : Nat → List Nat) (roots : List Nat) : Nat → Prop
  | root {t} : t ∈ roots → Reach deps roots t
  | step {t d} : Reach deps roots t → d ∈ deps t → Reach deps roots d

theorem closeLoop_nodup (deps : Nat → List Nat) (fuel : Nat) (queue all : List Nat) (h : all.Nodup) :
    (closeLoop deps fuel queue all).Nodup := by
  induction fuel generalizing queue all with
  | zero => exact h
  | succ n ih =>
    simp only [closeLoop]
    split
    · exact h
    · apply ih
      rw [List.nodup_append]
      refine ⟨h, (nodup_eraseDups _).filter _, ?_⟩
      intro a ha b hb
      simp only [List.mem_filter, decide_eq_true_eq] at hb
      intro e; subst e; exact hb.2 ha

/-- **Every collected task appears exactly once.** -/
theorem close_nodup (deps : Nat → List Nat) (fuel : Nat) (tasks : List Nat) :
    (closeDeps deps fuel tasks).Nodup :=
  closeLoop_nodup deps fuel _ _ (nodup_eraseDups _)

theorem closeLoop_sound (deps : Nat → List Nat) (roots : List Nat) (fuel : Nat) (queue all : List Nat)
    (hq : ∀ t ∈ queue, Reach deps roots t) (ha : ∀ t ∈ all, Reach deps roots t) :
    ∀ t ∈ closeLoop deps fuel queue all, Reach deps roots t := by
  induction fuel generalizing queue all with
  | zero => exact ha
  | succ n ih =>
    simp only [closeLoop]
    split
    · exact ha
    · have hnx : ∀ t ∈ (queue.flatMap deps).eraseDups.filter (· ∉ all), Reach deps roots t := by
        intro t ht
        have ht := (List.mem_filter.1 ht).1
        rw [List.mem_eraseDups, List.mem_flatMap] at ht
        obtain ⟨q, hq', hd⟩ := ht
        exact Reach.step (hq q hq') hd
      apply ih _ _ hnx
      intro t ht
      rcases List.mem_append.1 ht with ht | ht
      · exact ha t ht
      · exact hnx t ht

/-- **Every collected task is one of the job's tasks or a transitive dependency.** -/
theorem close_sound (deps : Nat → List Nat) (fuel : Nat) (tasks : List Nat) :
    ∀ t ∈ closeDeps deps fuel tasks, Reach deps tasks t := by
  apply closeLoop_sound
  all_goals (intro t ht; exact Reach.root (by simpa [List.mem_eraseDups] using ht))

theorem closeLoop_mono (deps : Nat → List Nat) (fuel : Nat) (queue all : List Nat) :
    ∀ t ∈ all, t ∈ closeLoop deps fuel queue all := by
  induction fuel generalizing queue all with
  | zero => intro t h; exact h
  | succ n ih =>
    intro t h
    simp only [closeLoop]
    split
    · exact h
    · exact ih _ _ t (List.mem_append_left _ h)

theorem closeLoop_empty (deps : Nat → List Nat) (fuel : Nat) (all : List Nat) : closeLoop deps fuel [] all = all := by
  cases fuel <;> simp [closeLoop]

/-- a duplicate-free list inside `U` is not longer than `U` -/
theorem nodup_length_le {l U : List Nat} (hnd : l.Nodup) (hsub : ∀ t ∈ l, t ∈ U) : l.length ≤ U.length := by
  induction l generalizing U with
  | nil => simp
  | cons a l ih =>
    have ha : a ∈ U := hsub a (by simp)
    have hnd' := List.nodup_cons.1 hnd
    have := ih (U := U.erase a) hnd'.2 (by
      intro t ht
      have htU := hsub t (by simp [ht])
      have hne : t ≠ a := fun e => hnd'.1 (e ▸ ht)
      exact (List.mem_erase_of_ne hne).2 htU)
    rw [List.length_erase_of_mem ha] at this
    have hpos : 0 < U.length := List.length_pos_of_mem ha
    simp only [List.length_cons]
    omega

/-- The loop invariant ("everything collected so far is closed under dependencies, except for the tasks still in the
queue") and the termination measure (every round with a non-empty queue that is not the last one collects a new task,
and the collected tasks are distinct members of the finite set `U`): with more rounds than `U` has tasks, the loop ends
on a set closed under dependencies. -/
theorem closeLoop_closed (deps : Nat → List Nat) (roots U : List Nat) (hU : ∀ t, Reach deps roots t → t ∈ U)
    (fuel : Nat) (queue all : List Nat)
    (hq : ∀ t ∈ queue, t ∈ all) (hcl : ∀ t ∈ all, t ∉ queue → ∀ d ∈ deps t, d ∈ all)
    (hr : ∀ t ∈ all, Reach deps roots t) (hnd : all.Nodup) (hf : U.length < fuel + all.length) :
    ∀ t ∈ closeLoop deps fuel queue all, ∀ d ∈ deps t, d ∈ closeLoop deps fuel queue all := by
  induction fuel generalizing queue all with
  | zero =>
    have := nodup_length_le hnd (fun t ht => hU t (hr t ht))
    omega
  | succ n ih =>
    simp only [closeLoop]
    split
    · rename_i he
      have hqe : queue = [] := by simpa using he
      subst hqe
      intro t ht d hd
      exact hcl t ht (by simp) d hd
    · -- the invariant after one round
      have hnx : ∀ t ∈ (queue.flatMap deps).eraseDups.filter (· ∉ all), Reach deps roots t := by
        intro t ht
        have ht := (List.mem_filter.1 ht).1
        rw [List.mem_eraseDups, List.mem_flatMap] at ht
        obtain ⟨q, hq', hd⟩ := ht
        exact Reach.step (hr q (hq q hq')) hd
      have hcl' : ∀ t ∈ all ++ (queue.flatMap deps).eraseDups.filter (· ∉ all),
          t ∉ (queue.flatMap deps).eraseDups.filter (· ∉ all) →
          ∀ d ∈ deps t, d ∈ all ++ (queue.flatMap deps).eraseDups.filter (· ∉ all) := by
        intro t ht hnt d hd
        have hta : t ∈ all := by
          rcases List.mem_append.1 ht with h | h
          · exact h
          · exact absurd h hnt
        by_cases htq : t ∈ queue
        · by_cases hda : d ∈ all
          · exact List.mem_append_left _ hda
          · refine List.mem_append_right _ (List.mem_filter.2 ⟨?_, by simpa using hda⟩)
            rw [List.mem_eraseDups, List.mem_flatMap]
            exact ⟨t, htq, hd⟩
        · exact List.mem_append_left _ (hcl t hta htq d hd)
      have hnd' : (all ++ (queue.flatMap deps).eraseDups.filter (· ∉ all)).Nodup := by
        rw [List.nodup_append]
        refine ⟨hnd, (nodup_eraseDups _).filter _, ?_⟩
        intro a ha b hb
        simp only [List.mem_filter, decide_eq_true_eq] at hb
        intro e; subst e; exact hb.2 ha
      have hr' : ∀ t ∈ all ++ (queue.flatMap deps).eraseDups.filter (· ∉ all), Reach deps roots t := by
        intro t ht
        rcases List.mem_append.1 ht with h | h
        · exact hr t h
        · exact hnx t h
      by_cases hne : (queue.flatMap deps).eraseDups.filter (· ∉ all) = []
      · -- nothing new: the next round stops
        rw [hne, closeLoop_empty]
        rw [hne] at hcl'
        intro t ht d hd
        exact hcl' t ht (by simp) d hd
      · apply ih _ _ (fun t ht => List.mem_append_right _ ht) hcl' hr' hnd'
        have hpos : 0 < ((queue.flatMap deps).eraseDups.filter (· ∉ all)).length :=
          List.length_pos_iff.2 hne
        rw [List.length_append]
        omega

/-- The collected set is closed under (hard and soft) dependencies: the loop has ended because nothing new was left to
visit, not because the rounds ran out. -/
theorem close_closed (deps : Nat → List Nat) (tasks U : List Nat) (hU : ∀ t, Reach deps tasks t → t ∈ U)
    (fuel : Nat) (hf : U.length < fuel) :
    ∀ t ∈ closeDeps deps fuel tasks, ∀ d ∈ deps t, d ∈ closeDeps deps fuel tasks := by
  have hroot : ∀ t ∈ tasks.eraseDups, Reach deps tasks t :=
    fun t ht => Reach.root (by simpa [List.mem_eraseDups] using ht)
  have hU' : ∀ t, Reach deps tasks t → t ∈ U := hU
  apply closeLoop_closed deps tasks U hU' fuel _ _ (fun _ h => h) (fun t ht hn => absurd ht hn) hroot
    (nodup_eraseDups _)
  omega

/-- **Every transitive hard or soft dependency is collected**, whatever the shape of the dependencies (cycles
included), as soon as the number of rounds exceeds the number of tasks that exist (`U` lists them; the driver uses
the number of task objects + 1, the real loop is unbounded). -/
theorem close_complete (deps : Nat → List Nat) (tasks U : List Nat) (hU : ∀ t, Reach deps tasks t → t ∈ U)
    (fuel : Nat) (hf : U.length < fuel) (t : Nat) (h : Reach deps tasks t) : t ∈ closeDeps deps fuel tasks := by
  induction h with
  | root hr => exact closeLoop_mono deps fuel _ _ _ (by simpa [List.mem_eraseDups] using hr)
  | step _ hd ih => exact close_closed deps tasks U hU fuel hf _ ih _ hd

/-- the form the driver (and the correspondence) uses: task objects are numbered below `n`, `n + 1` rounds -/
theorem close_complete_bounded (deps : Nat → List Nat) (n : Nat) (hdeps : ∀ t d, d ∈ deps t → d < n)
    (tasks : List Nat) (ht : ∀ t ∈ tasks, t < n) (t : Nat) (h : Reach deps tasks t) :
    t ∈ closeDeps deps (n + 1) tasks := by
  apply close_complete deps tasks (List.range n) ?_ (n + 1) (by simp) t h
  intro u hu
  induction hu with
  | root hr => exact List.mem_range.2 (ht _ hr)
  | step _ hd _ => exact List.mem_range.2 (hdeps _ _ hd)

/-- non-vacuity: two tasks that depend on each other (possible with `Task.add_dependency`); the pinned loop never
ended on this input (defect A30), the repaired one collects both tasks in two rounds. -/
def cyc2 : Nat → List Nat := fun t => if t = 0 then [1] else if t = 1 then [0] else []
example : closeDeps cyc2 3 [0] = [0, 1] := by decide
example : ∀ t, Reach cyc2 [0] t → t ∈ [0, 1] := by
  intro t h
  induction h with
  | root hr => simp at hr; simp [hr]
  | @step a b _ hd ih =>
    have : a = 0 ∨ a = 1 := by simpa using ih
    rcases this with rfl | rfl <;> simp [cyc2] at hd <;> simp [hd]

/-! ### non-vacuity and the pinned code -/

def lam1 : Func := ⟨1, "<lambda>"⟩
def lam2 : Func := ⟨2, "<lambda>"⟩
def stBase : St := (St.init.newTask "t" .base).2

/-- two different lambdas on the same task: the pinned cache silently hands the first task to the second request;
the repaired one gives the second request a task of its own and still reuses the first for an identical request -/
theorem c15_pinned_refuted :
    (getTask .pinned (getTask .pinned stBase ⟨lam1, [(0, some "result")], [], .hard, false⟩).2
        ⟨lam2, [(0, some "result")], [], .hard, false⟩).1 = .ok 1 ∧
    (getTask .fixed (getTask .fixed stBase ⟨lam1, [(0, some "result")], [], .hard, false⟩).2
        ⟨lam2, [(0, some "result")], [], .hard, false⟩).1 = .ok 2 ∧
    (getTask .fixed (getTask .fixed stBase ⟨lam1, [(0, some "result")], [], .hard, false⟩).2
        ⟨lam1, [(0, some "result")], [], .hard, false⟩).1 = .ok 1 := by
  decide

end UseM
