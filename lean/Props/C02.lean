import Props.C03
import Proofs.SchedSpec
import Proofs.SchedExec
/-!
# C02 — the run outcome depends on the graph and the task results only, not on the schedule

`spec c t` (Proofs/SchedSpec.lean) is defined by recursion on the task number from the hard dependencies and the task
outcomes alone: neither the number of workers, nor the soft dependencies, nor any interleaving appears in it.
`final_status_eq_spec`: after scheduling from an empty environment, **every** terminal state of **every** execution has
status map `spec`; `exec_at_most_once` / `exec_count_eq_spec`: no task body runs twice, and at return exactly the
non-SKIPPED tasks have run once (invariant `InvE`, Proofs/SchedExec.lean).
-/
namespace Sched
set_option linter.unusedVariables false

/-- the environment has no entry yet -/
def EmptyEnv (e : Env) : Prop := ∀ t, e.entry t = none

theorem InvB_init {c : Cfg} (env : Env) (he : EmptyEnv env) (clk : Nat) : InvB c (init c env [] 0 clk) := by
  have hnf : ∀ t, ¬ InFlight (init c env [] 0 clk) t := by
    rintro t (ht | ht | ⟨w, hw⟩)
    · simp [init] at ht
    · revert ht; simp only [init]; split <;> (try split) <;> (try split) <;> simp
    · simp [init, held] at hw
  refine ⟨?_, fun t ht => absurd ht (hnf t), fun t _ _ => Or.inl (he t), fun t ht => absurd ht (hnf t)⟩
  intro t x ht hu; exfalso; apply hu; left; show t ∈ List.range c.n; simp [ht]

theorem EmptyEnv.ok {e : Env} (he : EmptyEnv e) : EnvOK e := by
  intro t x hx; rw [he t] at hx; cases hx

theorem InvABC_reach {c : Cfg} (hc : c.WF) {s0 s : State} (ha : InvA c s0) (hcc : InvC c s0) (hb : InvB c s0)
    (hr : Reach c s0 s) : InvA c s ∧ InvC c s ∧ InvB c s := by
  induction hr with
  | init => exact ⟨ha, hcc, hb⟩
  | step _ hs ih => exact ⟨InvA_step hc ih.1 hs, InvC_step hc ih.1 ih.2.1 hs, InvB_step hc ih.1 ih.2.1 ih.2.2 hs⟩

/-- **C02 (status part).**  After scheduling from an empty environment, when the call has returned every task is in
exactly one final state, and that state is the one determined by the graph and the task results: SKIPPED iff one of its
hard dependencies ended FAILED or SKIPPED, otherwise DONE or FAILED according to what the task returned (FAILED for an
exception or any malformed result) — for every interleaving and every number of workers. -/
theorem final_status_eq_spec {c : Cfg} (hc : c.WF) (hw : 0 < c.workers) (env : Env) (he : EmptyEnv env) (clk : Nat)
    {s : State} (hr : Reach c (init c env [] 0 clk) s) (hret : s.mpc = .returned) (t : Nat) (ht : t < c.n) :
    ∃ x, s.env.entry t = some x ∧ x.st = spec c t ∧ x.st.final = true := by
  obtain ⟨ha, hcc, hb⟩ := InvABC_reach hc (InvA_init env [] 0 clk he.ok rfl) (InvC_init hw env clk) (InvB_init env he clk) hr
  obtain ⟨htodo, hleft⟩ := hcc.after_loop (by rw [hret]; rfl)
  have hu : ¬ Undecided s t := by rintro (h | h) <;> simp [htodo, hleft] at h
  obtain ⟨x, hx, hs⟩ := ha.decided_status t ht hu
  have hfin : x.st.final = true := by
    rcases hs with hp | hf
    · -- a pending task would still be in flight; nothing is, after the call has returned
      exfalso
      obtain ⟨hq, hheld⟩ := hcc.after_join (by rw [hret]; rfl)
      rcases hcc.pending_inflight t x ht hu hx hp with h1 | h1 | ⟨w, h1⟩
      · exact hq t h1
      · rw [hret] at h1; cases h1
      · rw [(hheld w).1] at h1; cases h1
    · exact hf
  exact ⟨x, hx, hb.final_spec t x ht hu hx hfin, hfin⟩

/-- **The status map is the same for every interleaving and every worker count**: two terminal states of two
executions of the same graph with the same task results — possibly with different numbers of workers — agree. -/
theorem schedule_independent {c1 c2 : Cfg} (hc1 : c1.WF) (hc2 : c2.WF) (hw1 : 0 < c1.workers) (hw2 : 0 < c2.workers)
    (hn : c1.n = c2.n) (hh : c1.hard = c2.hard) (ho : c1.out = c2.out)
    (env1 env2 : Env) (he1 : EmptyEnv env1) (he2 : EmptyEnv env2) (k1 k2 : Nat) {s1 s2 : State}
    (hr1 : Reach c1 (init c1 env1 [] 0 k1) s1) (hr2 : Reach c2 (init c2 env2 [] 0 k2) s2)
    (hret1 : s1.mpc = .returned) (hret2 : s2.mpc = .returned) (t : Nat) (ht : t < c1.n) :
    (s1.env.entry t).map (·.st) = (s2.env.entry t).map (·.st) := by
  obtain ⟨x1, hx1, hs1, _⟩ := final_status_eq_spec hc1 hw1 env1 he1 k1 hr1 hret1 t ht
  obtain ⟨x2, hx2, hs2, _⟩ := final_status_eq_spec hc2 hw2 env2 he2 k2 hr2 hret2 t (hn ▸ ht)
  have hspec : ∀ k, specUpTo c1 k = specUpTo c2 k := by
    intro k
    induction k with
    | zero => rfl
    | succ k ih =>
      have e1 : c1.hardOf k = c2.hardOf k := by simp [Cfg.hardOf, hh]
      have e2 : c1.outOf k = c2.outOf k := by simp [Cfg.outOf, ho]
      simp only [specUpTo, ih, e1, e2]
  rw [hx1, hx2]; simp only [Option.map_some]; rw [hs1, hs2]
  unfold spec; rw [hspec]

/-- **Failed or skipped soft dependencies delay but never prevent execution**: the specification does not mention the
soft dependencies at all (only `hard` and `out` occur in it). -/
theorem soft_never_blocks (c : Cfg) (deps' : List (List Nat)) (t : Nat) :
    spec { c with deps := deps' } t = spec c t := by
  have : ∀ k, specUpTo { c with deps := deps' } k = specUpTo c k := by
    intro k
    induction k with
    | zero => rfl
    | succ k ih => simp only [specUpTo, ih]; rfl
  unfold spec; rw [this]

/-! ### execution counts -/

theorem InvE_init {c : Cfg} (env : Env) (q : List (Option Nat)) (u clk : Nat) (hq : QueueOK q) :
    InvE c (init c env q u clk) := by
  have hnp : ∀ t, (init c env q u clk).mpc ≠ .put t := by
    intro t; simp only [init]; split <;> (try split) <;> (try split) <;> simp
  have hqm : ∀ t, some t ∉ q := by
    intro t ht
    have : t ∈ q.filterMap id := List.mem_filterMap.2 ⟨some t, ht, rfl⟩
    rw [hq] at this; simp at this
  refine ⟨fun _ _ => rfl, fun _ _ => rfl, ?_, ?_, fun _ _ => rfl⟩
  · intro w t hr
    rcases hr with ⟨a, hh⟩ | ⟨a, b, hh⟩ | ⟨a, b, hh⟩ | hh <;> simp [init] at hh
  · intro t x ht hu; exfalso; apply hu; left; show t ∈ List.range c.n; simp [ht]

theorem InvABCE_reach {c : Cfg} (hc : c.WF) {s0 s : State} (ha : InvA c s0) (hcc : InvC c s0) (hb : InvB c s0)
    (he : InvE c s0) (hr : Reach c s0 s) : InvA c s ∧ InvC c s ∧ InvB c s ∧ InvE c s := by
  induction hr with
  | init => exact ⟨ha, hcc, hb, he⟩
  | step _ hs ih =>
    exact ⟨InvA_step hc ih.1 hs, InvC_step hc ih.1 ih.2.1 hs, InvB_step hc ih.1 ih.2.1 ih.2.2.1 hs,
      InvE_step hc ih.1 ih.2.2.1 ih.2.2.2 hs⟩

/-- **no task body is ever executed twice**: in every reachable state of every execution, for every interleaving -/
theorem exec_at_most_once {c : Cfg} (hc : c.WF) (hw : 0 < c.workers) (env : Env) (he : EmptyEnv env) (clk : Nat)
    {s : State} (hr : Reach c (init c env [] 0 clk) s) (t : Nat) : s.execCount t ≤ 1 := by
  obtain ⟨ha, hcc, hb, hE⟩ := InvABCE_reach hc (InvA_init env [] 0 clk he.ok rfl) (InvC_init hw env clk) (InvB_init env he clk)
    (InvE_init env [] 0 clk rfl) hr
  by_cases ht : t < c.n
  · by_cases hu : Undecided s t
    · rw [hE.undecided_zero t hu]; exact Nat.zero_le _
    · obtain ⟨x, hx, hs⟩ := ha.decided_status t ht hu
      rcases hs with hp | hf
      · -- pending: the task is in flight, either not started yet or running
        rcases hcc.pending_inflight t x ht hu hx hp with h1 | h1 | ⟨w, h1⟩
        · rw [hE.notstarted_zero t (Or.inl h1)]; exact Nat.zero_le _
        · rw [hE.notstarted_zero t (Or.inr (Or.inl h1))]; exact Nat.zero_le _
        · cases hpc : s.wpc w with
          | timeStart t' =>
            rw [hpc] at h1; injection h1 with h1; subst h1
            rw [hE.notstarted_zero _ (Or.inr (Or.inr ⟨w, hpc⟩))]; exact Nat.zero_le _
          | timeEnd t' a =>
            rw [hpc] at h1; injection h1 with h1; subst h1
            rw [hE.running_one w _ (by rw [hpc]; exact Or.inl ⟨a, rfl⟩)]; exact Nat.le_refl _
          | apply t' a b =>
            rw [hpc] at h1; injection h1 with h1; subst h1
            rw [hE.running_one w _ (by rw [hpc]; exact Or.inr (Or.inl ⟨a, b, rfl⟩))]; exact Nat.le_refl _
          | clocks t' a b =>
            rw [hpc] at h1; injection h1 with h1; subst h1
            rw [hE.running_one w _ (by rw [hpc]; exact Or.inr (Or.inr (Or.inl ⟨a, b, rfl⟩)))]; exact Nat.le_refl _
          | status t' =>
            rw [hpc] at h1; injection h1 with h1; subst h1
            rw [hE.running_one w _ (by rw [hpc]; exact Or.inr (Or.inr (Or.inr rfl)))]; exact Nat.le_refl _
          | notStarted | begin | get | taskDone | cacq | notify | sentinelDone | exited => rw [hpc] at h1; cases h1
      · obtain ⟨h0, h1⟩ := hE.decided t x ht hu hx
        cases hst : x.st with
        | skipped => rw [h0 hst]; exact Nat.zero_le _
        | done => rw [h1 (Or.inl hst)]; exact Nat.le_refl _
        | failed => rw [h1 (Or.inr hst)]; exact Nat.le_refl _
        | waiting => rw [hst] at hf; cases hf
        | pending => rw [hst] at hf; cases hf
  · rw [hE.beyond t (by omega)]; exact Nat.zero_le _

/-- **each task is executed exactly once, except the SKIPPED ones, which are never executed** (when the call has
returned, from an empty environment, for every interleaving and worker count) -/
theorem exec_count_eq_spec {c : Cfg} (hc : c.WF) (hw : 0 < c.workers) (env : Env) (he : EmptyEnv env) (clk : Nat)
    {s : State} (hr : Reach c (init c env [] 0 clk) s) (hret : s.mpc = .returned) (t : Nat) (ht : t < c.n) :
    s.execCount t = if spec c t = .skipped then 0 else 1 := by
  obtain ⟨ha, hcc, hb, hE⟩ := InvABCE_reach hc (InvA_init env [] 0 clk he.ok rfl) (InvC_init hw env clk) (InvB_init env he clk)
    (InvE_init env [] 0 clk rfl) hr
  obtain ⟨x, hx, hs, hf⟩ := final_status_eq_spec hc hw env he clk hr hret t ht
  obtain ⟨htodo, hleft⟩ := hcc.after_loop (by rw [hret]; rfl)
  have hu : ¬ Undecided s t := by rintro (h | h) <;> simp [htodo, hleft] at h
  obtain ⟨h0, h1⟩ := hE.decided t x ht hu hx
  rw [← hs]
  cases hst : x.st with
  | skipped => rw [h0 hst]; rfl
  | done => rw [h1 (Or.inl hst)]; rfl
  | failed => rw [h1 (Or.inr hst)]; rfl
  | waiting => rw [hst] at hf; cases hf
  | pending => rw [hst] at hf; cases hf

/-- non-vacuity: a diamond with a failing task; `spec` is computed by the kernel -/
example : (List.range 4).map (spec ⟨4, [[], [0], [0], [1, 2]], [[], [0], [], [1]], [.done, .raises, .done, .done], 2, false⟩)
    = [.done, .failed, .done, .skipped] := by decide

end Sched
