import Proofs.SchedClock
import Proofs.SchedFresh
import Props.C03
/-!
# C04 — re-running a job re-executes exactly the tasks whose results are out of date

Model: `Model/Sched.lean` (the repaired `queue.py`), started on an **arbitrary carried-over environment** (`EnvOK`:
a DONE entry has its results and clocks; `ClockOK`: the recorded clocks are in the past of the run's clock).
`Reach` quantifies over all interleavings, worker counts, graphs, task outcomes.
-/
namespace Sched

/-- the clocks recorded by earlier runs are not in the future -/
def ClockOK (e : Env) (clk : Nat) : Prop :=
  ∀ t x, e.entry t = some x → (∀ v, x.startC = some v → v ≤ clk) ∧ (∀ v, x.endC = some v → v ≤ clk)

theorem InvD_init {c : Cfg} (env : Env) (q : List (Option Nat)) (u clk : Nat) (hk : ClockOK env clk) (hq : QueueOK q) :
    InvD c (init c env q u clk) := by
  have hnp : ∀ t, (init c env q u clk).mpc ≠ .put t := by
    intro t; simp only [init]; split <;> (try split) <;> (try split) <;> simp
  have hqm : ∀ t, some t ∉ q := by
    intro t ht
    have : t ∈ q.filterMap id := List.mem_filterMap.2 ⟨some t, ht, rfl⟩
    rw [hq] at this; simp at this
  have hnf : ∀ t, ¬ InFlight (init c env q u clk) t := by
    rintro t (ht | ht | ⟨w, hw⟩)
    · exact hqm t ht
    · exact hnp t ht
    · simp [init, held] at hw
  have hund : ∀ t, t < c.n → Undecided (init c env q u clk) t := by
    intro t ht; left; show t ∈ List.range c.n; simp [ht]
  refine ⟨hk, fun w => trivial, fun t ht hu => absurd (hund t ht) hu, fun t hf => absurd hf (hnf t), ?_, ?_,
    fun t hf => absurd hf (hnf t), fun t x ht hu => absurd (hund t ht) hu⟩
  · intro w t a hs
    rcases hs with hs | ⟨b, hs | hs⟩ <;> simp [init] at hs
  · intro w t hs; simp [init] at hs

theorem InvACD_reach {c : Cfg} (hc : c.WF) {s0 s : State} (ha : InvA c s0) (hcc : InvC c s0) (hd : InvD c s0)
    (hr : Reach c s0 s) : InvA c s ∧ InvC c s ∧ InvD c s := by
  induction hr with
  | init => exact ⟨ha, hcc, hd⟩
  | step _ hs ih => exact ⟨InvA_step hc ih.1 hs, InvC_step hc ih.1 ih.2.1 hs, InvD_step hc ih.1 ih.2.2 hs⟩

/-- **C04, first sentence.**  When a job is run on *any* environment carried over from earlier runs (stale, partial,
with failed or skipped or missing entries, with entries of tasks that are new to the graph), then at the end of the run
no task is reported DONE unless every DONE task it depends on finished before it started and none of its hard
dependencies is FAILED or SKIPPED — for every acyclic graph, every number of workers, every task outcome and every
interleaving. -/
theorem rerun_consistent {c : Cfg} (hc : c.WF) (hw : 0 < c.workers) (env : Env) (clk : Nat) (he : EnvOK env)
    (hk : ClockOK env clk) {s : State} (hr : Reach c (init c env [] 0 clk) s) (hret : s.mpc = .returned)
    (t : Nat) (ht : t < c.n) (x : Entry) (hx : s.env.entry t = some x) (hdone : x.st = .done) :
    (∀ d ∈ c.depsOf t, ∀ y, s.env.entry d = some y → y.st = .done →
        ∃ ev sv, y.endC = some ev ∧ x.startC = some sv ∧ ev ≤ sv) ∧
    (∀ d ∈ c.hardOf t, ∀ y, s.env.entry d = some y → y.st ≠ .failed ∧ y.st ≠ .skipped) := by
  obtain ⟨ha, hcc, hd⟩ := InvACD_reach hc (InvA_init env [] 0 clk he rfl) (InvC_init hw env clk)
    (InvD_init env [] 0 clk hk rfl) hr
  obtain ⟨htodo, hleft⟩ := hcc.after_loop (by rw [hret]; rfl)
  have hu : ¬ Undecided s t := by rintro (h | h) <;> simp [htodo, hleft] at h
  exact hd.consistent t x ht hu hx hdone

/-- the same holds at every moment of the run for the tasks that are already decided (not only at the end), and the
entry of a decided, final task is never written again -/
theorem decided_final_frozen {c : Cfg} (hc : c.WF) (env : Env) (clk : Nat) (he : EnvOK env) {s s' : State}
    (hr : Reach c (init c env [] 0 clk) s) (hs : Step c s s') (d : Nat) (hd : Stable s d) :
    s'.env.entry d = s.env.entry d :=
  (stable_step (InvA_reach hc (InvA_init env [] 0 clk he rfl) hr) hs d hd).1

/-- the consistency condition is inherited by what the next run starts from: keeping only some of the entries of a
consistent environment (the documented merge keeps the DONE ones; a lost file drops entries) keeps it consistent -/
def EnvCons (c : Cfg) (e : Env) : Prop := ∀ t x, t < c.n → e.entry t = some x → x.st = .done → Cons c e t x

theorem EnvCons_sub {c : Cfg} {e e' : Env} (h : EnvCons c e) (hsub : ∀ t, e'.entry t = e.entry t ∨ e'.entry t = none) :
    EnvCons c e' := by
  intro t x ht hx hxd
  have hin : ∀ d y, e'.entry d = some y → e.entry d = some y := by
    intro d y hy
    rcases hsub d with h1 | h1
    · rw [← h1]; exact hy
    · rw [h1] at hy; cases hy
  obtain ⟨c1, c2⟩ := h t x ht (hin t x hx) hxd
  exact ⟨fun d hd y hy hyd => c1 d hd y (hin d y hy) hyd, fun d hd y hy => c2 d hd y (hin d y hy)⟩

theorem rerun_envcons {c : Cfg} (hc : c.WF) (hw : 0 < c.workers) (env : Env) (clk : Nat) (he : EnvOK env)
    (hk : ClockOK env clk) {s : State} (hr : Reach c (init c env [] 0 clk) s) (hret : s.mpc = .returned) :
    EnvCons c s.env := fun t x ht hx hxd => rerun_consistent hc hw env clk he hk hr hret t ht x hx hxd

/-! ### second sentence: what is up to date is not executed again -/

theorem InvF_init {c : Cfg} (env0 : Env) (D : Nat → Prop) (q : List (Option Nat)) (u clk : Nat) (hq : QueueOK q) :
    InvF env0 D (init c env0 q u clk) := by
  have hnp : ∀ t, (init c env0 q u clk).mpc ≠ .put t := by
    intro t; simp only [init]; split <;> (try split) <;> (try split) <;> simp
  have hqm : ∀ t, some t ∉ q := by
    intro t ht
    have : t ∈ q.filterMap id := List.mem_filterMap.2 ⟨some t, ht, rfl⟩
    rw [hq] at this; simp at this
  intro d _
  refine ⟨rfl, rfl, ?_, by simp [init]⟩
  rintro (ht | ht | ⟨w, hw⟩)
  · exact hqm d ht
  · exact hnp d ht
  · simp [init, held] at hw

/-- **C04, second sentence.**  Let `D` be a set of tasks, closed under dependencies, that the carried-over environment
records as DONE, each one started after the end of all its dependencies (`FreshSet`: "a task that was DONE and whose
transitive dependencies were all DONE", up to date).  Then **in every state of every execution** — every interleaving,
worker count, outcome of the other tasks — no task of `D` has been executed and the recorded results of every task of `D`
are exactly those carried over. -/
theorem fresh_not_rerun {c : Cfg} (hc : c.WF) (env0 : Env) (clk : Nat) (he : EnvOK env0) (D : Nat → Prop)
    (hD : FreshSet c env0 D) {s : State} (hr : Reach c (init c env0 [] 0 clk) s) (d : Nat) (hd : D d) :
    s.execCount d = 0 ∧ s.env.entry d = env0.entry d := by
  have key : InvA c s ∧ InvF env0 D s := by
    induction hr with
    | init => exact ⟨InvA_init env0 [] 0 clk he rfl, InvF_init env0 D [] 0 clk rfl⟩
    | step _ hs ih => exact ⟨InvA_step hc ih.1 hs, InvF_step hc hD ih.1 ih.2 hs⟩
  exact ⟨(key.2 d hd).2.1, (key.2 d hd).1⟩

/-- in a history of runs the hypothesis comes for free: an environment inherited from a run of the scheduler (`EnvCons`,
established by `rerun_envcons` and kept by `EnvCons_sub`) makes every dependency-closed set of DONE tasks a fresh set -/
theorem freshSet_of_envcons {c : Cfg} (env0 : Env) (he : EnvOK env0) (hcons : EnvCons c env0) (D : Nat → Prop)
    (hclosed : ∀ d, D d → ∀ d' ∈ c.depsOf d, D d') (hlt : ∀ d, D d → d < c.n)
    (hdone : ∀ d, D d → ∃ x, env0.entry d = some x ∧ x.st = .done) : FreshSet c env0 D := by
  refine ⟨hclosed, hlt, ?_⟩
  intro d hDd
  obtain ⟨x, hx, hxd⟩ := hdone d hDd
  obtain ⟨_, hs, _⟩ := he d x hx hxd
  cases hsv : x.startC with
  | none => rw [hsv] at hs; cases hs
  | some sv =>
    refine ⟨x, sv, hx, hxd, hsv, ?_⟩
    intro d' hd'
    obtain ⟨y, hy, hyd⟩ := hdone d' (hclosed d hDd d' hd')
    obtain ⟨ev, sv', h1, h2, h3⟩ := (hcons d x (hlt d hDd) hx hxd).1 d' hd' y hy hyd
    rw [hsv] at h2; injection h2 with h2; subst h2
    exact ⟨y, ev, hy, h1, h3⟩

/-- non-vacuity: a chain 0 <- 1 carried over DONE and up to date is a fresh set -/
example : FreshSet ⟨2, [[], [0]], [[], [0]], [.done, .done], 1, false⟩
    ⟨fun t => if t = 0 then some ⟨.done, some 1, some 1, some 2⟩ else if t = 1 then some ⟨.done, some 1, some 3, some 4⟩ else none⟩
    (fun d => d < 2) := by
  refine ⟨?_, fun d h => h, ?_⟩
  · intro d hd d' hd'
    have : d = 0 ∨ d = 1 := by omega
    rcases this with e | e <;> subst e <;> simp [Cfg.depsOf] at hd' <;> omega
  · intro d hd
    have : d = 0 ∨ d = 1 := by omega
    rcases this with e | e <;> subst e
    · exact ⟨_, 1, rfl, rfl, rfl, by intro d' hd'; simp [Cfg.depsOf] at hd'⟩
    · refine ⟨_, 3, rfl, rfl, rfl, ?_⟩
      intro d' hd'
      simp [Cfg.depsOf] at hd'
      subst hd'
      exact ⟨_, 2, rfl, rfl, by omega⟩

/-- non-vacuity: a stale DONE entry (dependency ended at 9, task started at 5) satisfies the hypotheses -/
example : EnvOK ⟨fun t => if t = 0 then some ⟨.done, some 1, some 8, some 9⟩ else if t = 1 then some ⟨.done, some 1, some 5, some 6⟩ else none⟩
    ∧ ClockOK ⟨fun t => if t = 0 then some ⟨.done, some 1, some 8, some 9⟩ else if t = 1 then some ⟨.done, some 1, some 5, some 6⟩ else none⟩ 10 := by
  constructor
  · intro t x hx hd
    simp only [Env.entry] at hx
    split at hx
    · injection hx with hx; subst hx; simp
    · split at hx
      · injection hx with hx; subst hx; simp
      · cases hx
  · intro t x hx
    simp only [Env.entry] at hx
    split at hx
    · injection hx with hx; subst hx; simp
    · split at hx
      · injection hx with hx; subst hx; simp
      · cases hx

end Sched
