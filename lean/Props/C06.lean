import Proofs.Bonferroni
import Proofs.XReal

/-!
# C06 — Bonferroni and Holm-Bonferroni flag exactly the bins their definitions reject
Model: `Model/Bonferroni.lean`.  Numbers are `XReal` (exact reals + NaN/±∞) unless the statement is generic.
`σ = argsort p` is the model's sorting permutation (stable; numpy may permute the members of a tie group,
which only changes *which* member of the tie gets which rank).
-/
namespace Bonf
open XReal

/-! ### Bonferroni -/

/-- A bin is flagged exactly when its p-value is at most the level — or is undefined (repaired code). -/
theorem bonf_flag_iff (p : List XReal) (level : XReal) (hl : isNaN level = false) (j : Nat) (hj : j < p.length) :
    (bonf p level).getD j false = (Num.isNaN p[j] || Num.le p[j] level) := by
  rw [getD_eq _ j false (by simpa [bonf] using hj)]
  simp only [bonf, List.getElem_map]
  show (!XReal.lt level p[j]) = (XReal.isNaN p[j] || XReal.le p[j] level)
  cases hx : p[j] with
  | nan => simp [XReal.lt_nan, XReal.isNaN]
  | _ =>
    rw [← XReal.not_le_iff_lt (by simp [XReal.isNaN]) hl]
    simp [XReal.isNaN]

/-- pinned code: a NaN p-value is accepted by the Bonferroni correction (finding A7) -/
theorem bonf_pinned_refuted : (bonfPinned [XReal.nan] (XReal.fin 1)) = [false] := by
  simp [bonfPinned, Num.le, XReal.nan_le]

/-! ### Holm-Bonferroni -/

/-- `σ` is a permutation of the positions: every bin gets exactly one rank. -/
theorem holm_ranks_perm {α : Type} [Num α] (p : List α) : (argsort p).Perm (List.range p.length) :=
  argsort_perm p

theorem leKey_trans (a b c : XReal) (h1 : leKey a b = true) (h2 : leKey b c = true) : leKey a c = true := by
  simp only [leKey, Num.isNaN, Num.le] at *
  cases a <;> cases b <;> cases c <;> simp_all [XReal.isNaN, XReal.le] <;> exact _root_.le_trans h1 h2

theorem leKey_total (a b : XReal) : (leKey a b || leKey b a) = true := by
  simp only [leKey, Num.isNaN, Num.le]
  cases a <;> cases b <;> simp [XReal.isNaN, XReal.le] <;> exact _root_.le_total _ _

/-- the p-values taken in rank order are sorted increasingly, undefined ones last -/
theorem holm_ranks_sorted (p : List XReal) : ((argsort p).map (get p)).Pairwise (fun x y => leKey x y = true) := by
  rw [List.pairwise_map]
  exact List.pairwise_mergeSort (le := fun i j => leKey (get p i) (get p j))
    (fun a b c h1 h2 => leKey_trans _ _ _ h1 h2) (fun a b => leKey_total _ _) (List.range p.length)

/-- **Rank rule at the original position**: the flag and the level reported at position `σ k` are the ones
of rank `k` (k from 0): level `alpha / (m - k)`, flag by strict comparison with it. Any shape: arrays are flat. -/
theorem holm_flag_rank {α : Type} [Num α] (pinned : Bool) (p : List α) (alpha : α) (k : Nat) (hk : k < p.length) :
    (holm pinned p alpha).2.getD ((argsort p).getD k 0) false
        = rejectRank pinned (get p ((argsort p).getD k 0)) (alphaI alpha p.length k) ∧
    (holm pinned p alpha).1.getD ((argsort p).getD k 0) (Num.ofNat 0) = alphaI alpha p.length k := by
  have hl := argsort_length p
  have hp : (argsort p).Perm (List.range (argsort p).length) := by rw [hl]; exact argsort_perm p
  constructor
  · have := unsort_at (argsort p) hp
      ((List.range p.length).map fun k => rejectRank pinned (get p ((argsort p).getD k 0)) (alphaI alpha p.length k))
      false (by simp [hl]) k (by omega)
    simp only [holm]
    rw [this, getD_eq _ k false (by simpa using hk)]
    simp
  · have := unsort_at (argsort p) hp ((List.range p.length).map fun k => alphaI alpha p.length k)
      (Num.ofNat 0) (by simp [hl]) k (by omega)
    simp only [holm]
    rw [this, getD_eq _ k _ (by simpa using hk)]
    simp

/-- every position is the image of exactly one rank -/
theorem holm_position_has_rank {α : Type} [Num α] (p : List α) (j : Nat) (hj : j < p.length) :
    ∃ k, k < p.length ∧ (argsort p).getD k 0 = j := by
  have hm : j ∈ argsort p := (argsort_perm p).mem_iff.mpr (by simpa using hj)
  obtain ⟨k, hk, e⟩ := List.getElem_of_mem hm
  exact ⟨k, by simpa [argsort_length] using hk, by rw [getD_eq _ k 0 hk]; exact e⟩

theorem alphaI_fin (a : ℝ) (m k : Nat) (hk : k < m) :
    alphaI (XReal.fin a) m k = XReal.fin (a / ((m - k : ℕ) : ℝ)) := by
  have h1 : m - (k + 1) + 1 = m - k := by omega
  have h2 : ((m - k : ℕ) : ℝ) ≠ 0 := by
    have : 0 < m - k := by omega
    exact_mod_cast this.ne'
  simp only [alphaI, h1]
  show XReal.div (XReal.fin a) (XReal.fin ((m - k : ℕ) : ℝ)) = _
  simp [XReal.div, h2]

/-- The per-rank flag, in plain terms: `p < alpha / (m - k)`, or `p` undefined (repaired code). -/
theorem holm_rank_rule (a : ℝ) (x : XReal) (m k : Nat) (hk : k < m) :
    rejectRank false x (alphaI (XReal.fin a) m k) =
      (Num.isNaN x || Num.lt x (XReal.fin (a / ((m - k : ℕ) : ℝ)))) := by
  rw [alphaI_fin a m k hk]
  show (!XReal.le _ x) = (XReal.isNaN x || XReal.lt x _)
  cases x with
  | nan => simp [XReal.le_nan, XReal.isNaN]
  | _ => rw [XReal.not_le_iff_lt (by simp [XReal.isNaN]) (by simp [XReal.isNaN])]; simp [XReal.isNaN]

/-- pinned code: a NaN p-value is accepted by the Holm-Bonferroni method (finding A7) -/
theorem holm_pinned_refuted : rejectRank true XReal.nan (XReal.fin 1) = false := by
  simp [rejectRank, Num.lt, XReal.nan_lt]

/-- **A bin without a defined p-value is never accepted** (both corrections, repaired code). -/
theorem nan_never_accepted (p : List XReal) (level alpha : XReal) (j : Nat) (hj : j < p.length)
    (hnan : p[j] = XReal.nan) :
    (bonf p level).getD j false = true ∧ (holm false p alpha).2.getD j false = true := by
  constructor
  · rw [getD_eq _ j false (by simpa [bonf] using hj)]
    simp only [bonf, List.getElem_map, hnan]
    show (!XReal.lt level XReal.nan) = true
    simp [XReal.lt_nan]
  · obtain ⟨k, hk, e⟩ := holm_position_has_rank p j hj
    have := (holm_flag_rank false p alpha k hk).1
    rw [e] at this
    rw [this]
    have hg : get p j = XReal.nan := by rw [get, getD_eq p j _ hj, hnan]
    rw [hg]
    show (!XReal.le _ XReal.nan) = true
    simp [XReal.le_nan]

/-- The verdict is true exactly when nothing is flagged (any number of compared datasets). -/
theorem verdict_iff_no_flag (flags : List (List Bool)) :
    verdict flags = true ↔ ∀ f ∈ flags, ∀ b ∈ f, b = false := by
  simp only [verdict, Bool.not_eq_true', List.any_eq_false, List.any_eq_true, id, not_exists, not_and]
  constructor
  · intro h f hf b hb
    cases b
    · rfl
    · exact absurd rfl (h f hf true hb)
  · intro h f hf b hb e
    have := h f hf b hb
    rw [this] at e; cases e

/-- **Every bin flagged by Bonferroni is flagged by Holm-Bonferroni** — away from the single point where the
property's own clauses ("at most" for Bonferroni, "below" for Holm) contradict each other: the smallest p-value
(rank 0) being exactly `alpha / m`.  `_partial` because of that excluded point (see `bonf_subset_holm_edge`). -/
theorem bonf_subset_holm_partial (a : ℝ) (ha : 0 < a) (p : List XReal) (k : Nat) (hk : k < p.length)
    (hb : (bonf p (XReal.fin (a / (p.length : ℝ)))).getD ((argsort p).getD k 0) false = true)
    (hedge : 1 ≤ k ∨ get p ((argsort p).getD k 0) ≠ XReal.fin (a / (p.length : ℝ))) :
    (holm false p (XReal.fin a)).2.getD ((argsort p).getD k 0) false = true := by
  rw [(holm_flag_rank false p (XReal.fin a) k hk).1, holm_rank_rule a _ p.length k hk]
  obtain ⟨k', hk', e⟩ := holm_position_has_rank p ((argsort p).getD k 0) (by
    have : (argsort p).getD k 0 ∈ argsort p := by
      rw [getD_eq _ k 0 (by simpa [argsort_length] using hk)]; exact List.getElem_mem _
    simpa using (argsort_perm p).mem_iff.mp this)
  have hj : (argsort p).getD k 0 < p.length := by
    have : (argsort p).getD k 0 ∈ argsort p := by
      rw [getD_eq _ k 0 (by simpa [argsort_length] using hk)]; exact List.getElem_mem _
    simpa using (argsort_perm p).mem_iff.mp this
  rw [getD_eq _ _ false (by simpa [bonf] using hj)] at hb
  simp only [bonf, List.getElem_map] at hb
  have hg : get p ((argsort p).getD k 0) = p[(argsort p).getD k 0] := by rw [get, getD_eq p _ _ hj]
  rw [hg] at hedge ⊢
  generalize p[(argsort p).getD k 0] = x at hb hedge ⊢
  have hmk : (0 : ℝ) < ((p.length - k : ℕ) : ℝ) := by
    have : 0 < p.length - k := by omega
    exact_mod_cast this
  have hm : (0 : ℝ) < (p.length : ℝ) := by
    have : 0 < p.length := by omega
    exact_mod_cast this
  cases x with
  | nan => simp [Num.isNaN, XReal.isNaN]
  | ninf => simp [Num.isNaN, Num.lt, XReal.isNaN, XReal.lt]
  | pinf => simp [Num.lt, XReal.lt] at hb
  | fin y =>
    simp only [Num.lt, XReal.lt, Bool.not_eq_true', decide_eq_false_iff_not, not_lt] at hb
    simp only [Num.isNaN, XReal.isNaN, Num.lt, XReal.lt, Bool.false_or, decide_eq_true_eq]
    rcases Nat.eq_zero_or_pos k with hk0 | hkpos
    · subst hk0
      have hne : y ≠ a / (p.length : ℝ) := by
        rcases hedge with h1 | h1
        · omega
        · intro e; exact h1 (by rw [e])
      simpa using lt_of_le_of_ne hb hne
    · have hlt : a / (p.length : ℝ) < a / ((p.length - k : ℕ) : ℝ) := by
        apply div_lt_div_of_pos_left ha hmk
        have : p.length - k < p.length := by omega
        exact_mod_cast this
      exact lt_of_le_of_lt hb hlt

/-- At the excluded point the first two clauses of the property already disagree: with a single bin whose p-value
is exactly `alpha / m`, "at most" flags it for Bonferroni and "below" does not for Holm-Bonferroni. -/
theorem bonf_subset_holm_edge :
    (bonf [XReal.fin 1] (XReal.fin (1 / 1))).getD 0 false = true ∧
    rejectRank false (XReal.fin 1) (alphaI (XReal.fin 1) 1 0) = false := by
  constructor
  · simp [bonf, Num.lt, XReal.lt]
  · rw [holm_rank_rule 1 _ 1 0 (by omega)]
    simp [Num.isNaN, XReal.isNaN, Num.lt, XReal.lt]

/-- **A comparison that passes bin by bin also passes both corrections at the same level**: if every p-value
exceeds `A` then nothing is flagged at the two-sided level `A/2` (Bonferroni level `A/2/m`, Holm levels `A/2/(m-k)`). -/
theorem student_pass_passes_both (A : ℝ) (hA : 0 < A) (p : List XReal) (hp : ∀ x ∈ p, Num.lt (XReal.fin A) x = true) :
    (∀ b ∈ bonf p (XReal.fin (A / 2 / (p.length : ℝ))), b = false) ∧
    (∀ b ∈ (holm false p (XReal.fin (A / 2))).2, b = false) := by
  constructor
  · intro b hb
    simp only [bonf, List.mem_map] at hb
    obtain ⟨x, hx, rfl⟩ := hb
    have hm : (0 : ℝ) < (p.length : ℝ) := by
      have : 0 < p.length := List.length_pos_of_mem hx
      exact_mod_cast this
    have h1 : A / 2 / (p.length : ℝ) ≤ A / 2 := by
      apply div_le_self (by linarith)
      have : 1 ≤ p.length := List.length_pos_of_mem hx
      exact_mod_cast this
    have : XReal.lt (XReal.fin (A / 2 / (p.length : ℝ))) x = true :=
      XReal.lt_of_le_of_lt (b := XReal.fin A) (by simp [XReal.le]; linarith) (hp x hx)
    simp [Num.lt, this]
  · intro b hb
    obtain ⟨j, hj, e⟩ := List.getElem_of_mem hb
    have hlen : (holm false p (XReal.fin (A / 2))).2.length = p.length := by
      simp [holm, (argsortNat_perm _).length_eq, argsort_length]
    rw [hlen] at hj
    obtain ⟨k, hk, ek⟩ := holm_position_has_rank p j hj
    have := (holm_flag_rank false p (XReal.fin (A / 2)) k hk).1
    rw [ek, getD_eq _ j false (by rw [hlen]; exact hj), e] at this
    rw [this, holm_rank_rule (A / 2) _ p.length k hk]
    have hx : get p j ∈ p := by rw [get, getD_eq p j _ hj]; exact List.getElem_mem _
    have hlt := hp _ hx
    have hmk : (1 : ℝ) ≤ ((p.length - k : ℕ) : ℝ) := by
      have : 1 ≤ p.length - k := by omega
      exact_mod_cast this
    have h1 : A / 2 / ((p.length - k : ℕ) : ℝ) ≤ A / 2 := div_le_self (by linarith) hmk
    generalize get p j = x at hlt ⊢
    cases x with
    | nan => simp [Num.lt, XReal.lt_nan] at hlt
    | ninf => simp [Num.lt, XReal.lt] at hlt
    | pinf => simp [Num.isNaN, XReal.isNaN, Num.lt, XReal.lt]
    | fin y =>
      simp only [Num.lt, XReal.lt, decide_eq_true_eq] at hlt
      simp only [Num.isNaN, XReal.isNaN, Num.lt, XReal.lt, Bool.false_or, decide_eq_false_iff_not, not_lt]
      linarith

/-! Non-vacuity -/
example : (holm false [XReal.fin 3, XReal.nan, XReal.fin 1] (XReal.fin 1)).2.length = 3 := by
  simp [holm, (argsortNat_perm _).length_eq, argsort_length]

end Bonf
