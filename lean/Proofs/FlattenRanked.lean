import Proofs.FlattenDepthOne
/-! `flatten(recurse=True)` returns for every well-founded nesting: if the nested graphs can be ranked so that a nested
graph only holds nested graphs of smaller rank (no graph nested in itself, directly or not — the situation of defect A29
was a node that came to depend on itself, not an ill-founded nesting), the loop over the levels ends after at most
`rank + 1` rounds on a well-formed graph of plain nodes.  The same nested graph may stand at several places and levels. -/
set_option linter.unusedVariables false
namespace DG

/-- every nested node resolves to a well-formed graph whose own nested nodes have a smaller rank -/
def RankedStore (store : Nat → Option G) (rk : Nat → Nat) : Prop :=
  ∀ x, nestedBase ≤ x → ∃ sub, store (x - nestedBase) = some sub ∧ GInv sub ∧
    ∀ z, sub.Node z → nestedBase ≤ z → rk z < rk x

theorem graft_round_ranked (store : Nat → Option G) (rk : Nat → Nat) (hst : RankedStore store rk) (R : Nat) :
    ∀ (l : List Nat) (g : G), GInv g → l.Nodup → (∀ x ∈ l, g.Node x ∧ nestedBase ≤ x ∧ rk x < R + 1) →
      (∀ z, g.Node z → nestedBase ≤ z → z ∈ l ∨ rk z < R) →
      ∃ g', l.foldlM (graftNested store) g = .ok g' ∧ GInv g' ∧ ∀ z, g'.Node z → nestedBase ≤ z → rk z < R := by
  intro l
  induction l with
  | nil =>
    intro g hg _ _ hnest
    refine ⟨g, rfl, hg, ?_⟩
    intro z hz hb
    rcases hnest z hz hb with h | h
    · cases h
    · exact h
  | cons x xs ih =>
    intro g hg hnd hl hnest
    obtain ⟨hxn, hxb, hxr⟩ := hl x (by simp)
    obtain ⟨sub, hsub, hsinv, hsrank⟩ := hst x hxb
    obtain ⟨g2, hgr, hg2, n, _⟩ := graft_refines hg hsinv hxn
    have hnd' := List.nodup_cons.1 hnd
    have step : graftNested store g x = .ok g2 := by
      unfold graftNested; rw [hsub]; exact hgr
    rw [List.foldlM_cons, step]
    show ∃ g', xs.foldlM (graftNested store) g2 = .ok g' ∧ _
    apply ih g2 hg2 hnd'.2
    · intro y hy
      have hne : y ≠ x := fun e => hnd'.1 (e ▸ hy)
      obtain ⟨hyn, hyb, hyr⟩ := hl y (by simp [hy])
      exact ⟨(n y).2 (Or.inl ⟨hyn, hne⟩), hyb, hyr⟩
    · intro z hz hbase
      rcases graft_node_sub n z hz with ⟨hzg, hne⟩ | hzs
      · rcases hnest z hzg hbase with h | h
        · rcases List.mem_cons.1 h with e | h'
          · exact absurd e hne
          · exact Or.inl h'
        · exact Or.inr h
      · have := hsrank z hzs hbase
        exact Or.inr (by omega)

/-- **`flatten(recurse=True)` returns on every well-founded nesting**: with all nested nodes of rank below `R`, `R + 1`
rounds are enough, and the result is a well-formed graph of plain nodes -/
theorem flatten_ranked (store : Nat → Option G) (rk : Nat → Nat) (hst : RankedStore store rk) :
    ∀ (R : Nat) (g : G), GInv g → (∀ z, g.Node z → nestedBase ≤ z → rk z < R) →
      ∃ g', flattenLoop store true (R + 1) g = .ok g' ∧ GInv g' ∧ ∀ z, g'.Node z → z < nestedBase := by
  intro R
  induction R with
  | zero =>
    intro g hg hr
    rw [flattenLoop]
    have he : (g.nodes.seq.filter (· ≥ nestedBase)).isEmpty = true := by
      rw [List.isEmpty_iff]
      apply List.filter_eq_nil_iff.2
      intro z hz
      simp only [ge_iff_le, decide_eq_true_eq]
      intro hb
      exact absurd (hr z hz hb) (by omega)
    simp only [he, if_true]
    refine ⟨g, rfl, hg, ?_⟩
    intro z hz
    by_cases hb : nestedBase ≤ z
    · exact absurd (hr z hz hb) (by omega)
    · omega
  | succ R ih =>
    intro g hg hr
    rw [flattenLoop]
    by_cases hemp : (g.nodes.seq.filter (· ≥ nestedBase)).isEmpty = true
    · simp only [hemp, if_true]
      refine ⟨g, rfl, hg, ?_⟩
      intro z hz
      by_cases h : nestedBase ≤ z
      · have : z ∈ g.nodes.seq.filter (· ≥ nestedBase) := List.mem_filter.2 ⟨hz, by simpa using h⟩
        have he : g.nodes.seq.filter (· ≥ nestedBase) = [] := by simpa using hemp
        rw [he] at this; cases this
      · omega
    · simp only [hemp, Bool.false_eq_true, if_false, bind, Except.bind]
      obtain ⟨g1, hf, hg1, hrank⟩ := graft_round_ranked store rk hst R (g.nodes.seq.filter (· ≥ nestedBase)) g hg
        (hg.nodup.filter _)
        (fun x hx => by
          have hm := List.mem_filter.1 hx
          have hb : nestedBase ≤ x := by simpa using hm.2
          exact ⟨hm.1, hb, hr x hm.1 hb⟩)
        (fun z hz hb => Or.inl (List.mem_filter.2 ⟨hz, by simpa using hb⟩))
      rw [hf]
      simp only [if_true]
      exact ih g1 hg1 hrank

end DG
