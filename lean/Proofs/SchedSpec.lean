import Proofs.SchedLive
/-! The outcome of a run from an empty environment is a function of the graph and the task results (C02). -/
set_option linter.unusedVariables false
set_option linter.unusedSimpArgs false
namespace Sched

def bad (s : St) : Bool := s == .failed || s == .skipped

/-- statuses of tasks `0 … k-1` as determined by the graph and the task results alone -/
def specUpTo (c : Cfg) : Nat → List St
  | 0 => []
  | k + 1 =>
    let l := specUpTo c k
    l ++ [if (c.hardOf k).any (fun h => bad (l.getD h .done)) then .skipped else (c.outOf k).status]

/-- **the specification**: a task is SKIPPED iff one of its hard dependencies is FAILED or SKIPPED; otherwise it is
DONE or FAILED according to what it returned -/
def spec (c : Cfg) (t : Nat) : St := (specUpTo c (t + 1)).getD t .done

theorem specUpTo_length (c : Cfg) (k : Nat) : (specUpTo c k).length = k := by
  induction k with
  | zero => rfl
  | succ k ih => simp [specUpTo, ih]

theorem specUpTo_getD (c : Cfg) (k h : Nat) (hk : h < k) (d : St) : (specUpTo c k).getD h d = spec c h := by
  induction k with
  | zero => omega
  | succ k ih =>
    by_cases e : h = k
    · subst e; unfold spec
      have hlen := specUpTo_length c (h + 1)
      rw [List.getD_eq_getElem?_getD, List.getD_eq_getElem?_getD]
      have : h < (specUpTo c (h + 1)).length := by omega
      rw [List.getElem?_eq_getElem this]; simp
    · have hlt : h < k := by omega
      have := ih hlt
      simp only [specUpTo]
      rw [List.getD_eq_getElem?_getD, List.getElem?_append_left (by rw [specUpTo_length]; exact hlt),
        ← List.getD_eq_getElem?_getD]
      exact this

theorem spec_eq (c : Cfg) (hc : c.WF) (t : Nat) :
    spec c t = if (c.hardOf t).any (fun h => bad (spec c h)) then .skipped else (c.outOf t).status := by
  have key : spec c t = if (c.hardOf t).any (fun h => bad ((specUpTo c t).getD h .done)) then .skipped
      else (c.outOf t).status := by
    show (specUpTo c (t + 1)).getD t .done = _
    have hdef : specUpTo c (t + 1) = specUpTo c t ++ [if (c.hardOf t).any (fun h => bad ((specUpTo c t).getD h .done))
        then .skipped else (c.outOf t).status] := rfl
    rw [hdef, List.getD_eq_getElem?_getD, List.getElem?_append_right (by rw [specUpTo_length]; omega), specUpTo_length]
    simp
  rw [key]
  have : (c.hardOf t).any (fun h => bad ((specUpTo c t).getD h .done)) = (c.hardOf t).any (fun h => bad (spec c h)) := by
    rw [Bool.eq_iff_iff]
    simp only [List.any_eq_true]
    constructor
    · rintro ⟨h, hh, hb⟩
      exact ⟨h, hh, by rw [← specUpTo_getD c t h (hc.deps_lt t h (hc.hard_sub t h hh)) .done]; exact hb⟩
    · rintro ⟨h, hh, hb⟩
      exact ⟨h, hh, by rw [specUpTo_getD c t h (hc.deps_lt t h (hc.hard_sub t h hh)) .done]; exact hb⟩
  rw [this]

/-- the specification is one of the three final statuses -/
theorem spec_final (c : Cfg) (hc : c.WF) (t : Nat) : (spec c t).final = true := by
  rw [spec_eq c hc]; split
  · rfl
  · exact Outcome.status_final _

structure InvB (c : Cfg) (s : State) : Prop where
  final_spec : ∀ t x, t < c.n → ¬ Undecided s t → s.env.entry t = some x → x.st.final = true → x.st = spec c t
  inflight_hard : ∀ t, InFlight s t → ∀ d ∈ c.hardOf t, ∃ x, s.env.entry d = some x ∧ x.st = .done
  fresh : ∀ t, Undecided s t → s.mpc ≠ .put t → s.env.entry t = none ∨ ∃ x, s.env.entry t = some x ∧ x.st = .waiting
  inflight_lt : ∀ t, InFlight s t → t < c.n

theorem InvB.transfer {c : Cfg} {s s' : State} (h : InvB c s) (henv : s'.env = s.env)
    (hU : ∀ t, Undecided s' t ↔ Undecided s t) (hF : ∀ t, InFlight s' t → InFlight s t)
    (hput : ∀ t, s'.mpc ≠ .put t → s.mpc ≠ .put t) : InvB c s' := by
  refine ⟨?_, ?_, ?_, fun t ht => h.inflight_lt t (hF t ht)⟩
  · intro t x ht hu hx hf; rw [henv] at hx; exact h.final_spec t x ht (fun hc => hu ((hU t).2 hc)) hx hf
  · intro t ht d hd; rw [henv]; exact h.inflight_hard t (hF t ht) d hd
  · intro t hu hp; rw [henv]; exact h.fresh t ((hU t).1 hu) (hput t hp)

/-- a hard dependency that is DONE is neither undecided nor in flight, so nobody rewrites its entry -/
theorem bad_iff (s : St) : bad s = true ↔ s = .failed ∨ s = .skipped := by
  cases s <;> simp [bad]

/-- the decision steps of the master followed by `advance` -/
theorem InvB_decide_advance {c : Cfg} (hc : c.WF) {s : State} (ha : InvA c s) (h : InvB c s)
    (hm : s.mpc = .consider) (t : Nat) (rest : List Nat) (ht : s.todo = t :: rest) (env' : Env)
    (hframe : ∀ x, x ≠ t → env'.entry x = s.env.entry x) (newLeft : List Nat)
    (hmode : (newLeft = s.left ∧ ∀ y, env'.entry t = some y → y.st.final = true → y.st = spec c t) ∨
             (newLeft = s.left ++ [t] ∧ ∃ y, env'.entry t = some y ∧ y.st = .waiting)) :
    InvB c (advance { s with env := env', left := newLeft }) := by
  have hnp : ∀ x, s.mpc ≠ .put x := by intro x hx; rw [hm] at hx; cases hx
  have hUa := undecided_advance { s with env := env', left := newLeft }
  have hFa := inflight_advance { s with env := env', left := newLeft }
  obtain ⟨a_env, _, _, _, _, _, _, a_mpc⟩ := advance_fields { s with env := env', left := newLeft }
  have hnl : ∀ x, x ∈ newLeft → x ∈ s.left ∨ x = t := by
    intro x hx
    rcases hmode with ⟨e, _⟩ | ⟨e, _⟩
    · exact Or.inl (e ▸ hx)
    · rw [e] at hx; rcases List.mem_append.1 hx with hx | hx
      · exact Or.inl hx
      · simp at hx; exact Or.inr hx
  have hUsub : ∀ x, Undecided (advance { s with env := env', left := newLeft }) x → Undecided s x := by
    intro x hx
    rw [hUa] at hx
    rcases hx with hx | hx
    · left; rw [ht]; exact List.mem_cons_of_mem _ (by simpa [ht] using hx)
    · rcases hnl x hx with hx | hx
      · exact Or.inr hx
      · subst hx; left; rw [ht]; simp
  have hFsub : ∀ x, InFlight (advance { s with env := env', left := newLeft }) x → InFlight s x := by
    intro x hx; rw [hFa] at hx
    rcases hx with hx | hx
    · exact Or.inl hx
    · exact Or.inr (Or.inr hx)
  have htnf : ¬ InFlight s t := fun hf => inflight_decided ha hnp hf (Or.inl (by rw [ht]; simp))
  refine ⟨?_, ?_, ?_, fun x hx => h.inflight_lt x (hFsub x hx)⟩
  · intro x y hx hu hy hf
    rw [a_env] at hy
    by_cases e : x = t
    · subst e
      rcases hmode with ⟨_, hsp⟩ | ⟨e2, _⟩
      · exact hsp y hy hf
      · exfalso; apply hu; rw [hUa]; right; show x ∈ newLeft; rw [e2]; simp
    · have hu' : ¬ Undecided s x := by
        rintro (hc' | hc')
        · rw [ht] at hc'
          rcases List.mem_cons.1 hc' with hc' | hc'
          · exact e hc'
          · apply hu; rw [hUa]; left; simpa [ht] using hc'
        · apply hu; rw [hUa]; right
          show x ∈ newLeft
          rcases hmode with ⟨e2, _⟩ | ⟨e2, _⟩ <;> rw [e2]
          · exact hc'
          · exact List.mem_append_left _ hc'
      have hy' : s.env.entry x = some y := by rw [← hframe x e]; exact hy
      exact h.final_spec x y hx hu' hy' hf
  · intro x hx d hd
    rw [a_env]
    have hfl := hFsub x hx
    obtain ⟨z, hz, hzd⟩ := h.inflight_hard x hfl d hd
    have hdu : ¬ Undecided s d := (ha.inflight_deps x hfl d (hc.hard_sub x d hd)).2
    have hne : d ≠ t := fun e => hdu (e ▸ Or.inl (by rw [ht]; simp))
    exact ⟨z, by show env'.entry d = _; rw [hframe d hne]; exact hz, hzd⟩
  · intro x hu hp
    rw [a_env]
    rw [hUa] at hu
    by_cases e : x = t
    · subst e
      rcases hmode with ⟨e2, _⟩ | ⟨_, y, hy, hyw⟩
      · -- x is the head of todo: it is neither in the rest (sorted) nor in the old left
        exfalso
        rcases hu with hu | hu
        · have hs := ha.todo_sorted; rw [ht, List.pairwise_cons] at hs
          exact Nat.lt_irrefl x (hs.1 x (by simpa [ht] using hu))
        · have : x ∈ s.left := e2 ▸ hu
          exact Nat.lt_irrefl x (ha.left_lt_todo x this x (by rw [ht]; simp))
      · exact Or.inr ⟨y, hy, hyw⟩
    · have hu' : Undecided s x := hUsub x ((hUa x).2 hu)
      have := h.fresh x hu' (hnp x)
      show env'.entry x = none ∨ _
      rw [hframe x e]; exact this

/-- worker steps that do not touch the environment keep `InvB` -/
theorem InvB_worker_pc {c : Cfg} {s : State} (h : InvB c s) (w : Nat) (pn : WPc) (q' : List (Option Nat))
    (hsub : ∀ t, some t ∈ q' ∨ held pn = some t → some t ∈ s.queue ∨ held (s.wpc w) = some t)
    (u cO : _) (nt : Bool) (ck : Nat) (ec : Nat → Nat) (sn : Nat → Option (List (Option Entry))) :
    InvB c { s with queue := q', wpc := upd s.wpc w pn, unfinished := u, condOwner := cO, notified := nt, clock := ck,
                    execCount := ec, seen := sn } := by
  refine h.transfer (by rfl) (by intro _; exact Iff.rfl) ?_ (fun _ hp => hp)
  rintro t (ht | ht | ⟨x, hx⟩)
  · rcases hsub t (Or.inl ht) with hh | hh
    · exact Or.inl hh
    · exact Or.inr (Or.inr ⟨w, hh⟩)
  · exact Or.inr (Or.inl ht)
  · have hx' : held (upd s.wpc w pn x) = some t := hx
    rw [held_upd] at hx'
    split at hx'
    · rcases hsub t (Or.inr hx') with hh | hh
      · exact Or.inl hh
      · exact Or.inr (Or.inr ⟨w, hh⟩)
    · exact Or.inr (Or.inr ⟨x, hx'⟩)


/-- a worker rewrites the entry of the task it holds; `keepsPending`: the status stays PENDING -/
theorem InvB_held_env {c : Cfg} (hc : c.WF) {s : State} (ha : InvA c s) (h : InvB c s) (w t : Nat)
    (hheld : held (s.wpc w) = some t) (env' : Env) (pn : WPc)
    (hpn : ∀ t', held pn = some t' → t' = t)
    (hframe : ∀ x, x ≠ t → env'.entry x = s.env.entry x)
    (hown : ∀ y, env'.entry t = some y → y.st.final = true → y.st = spec c t) :
    InvB c { s with env := env', wpc := upd s.wpc w pn } := by
  have hfl : InFlight s t := Or.inr (Or.inr ⟨w, hheld⟩)
  obtain ⟨⟨o, ho, hop⟩, hdec⟩ := ha.inflight_pending t hfl
  have htu : ¬ Undecided s t := by
    rcases hdec with hdec | hdec
    · exact hdec
    · exact absurd hdec (ha.uniq.held_not_queued w t hheld).2
  have hF : ∀ x, InFlight { s with env := env', wpc := upd s.wpc w pn } x → InFlight s x := by
    rintro x (hx | hx | ⟨y, hy⟩)
    · exact Or.inl hx
    · exact Or.inr (Or.inl hx)
    · have hy' : held (upd s.wpc w pn y) = some x := hy
      rw [held_upd] at hy'
      split at hy'
      · have := hpn x hy'; subst this; exact hfl
      · exact Or.inr (Or.inr ⟨y, hy'⟩)
  refine ⟨?_, ?_, ?_, fun x hx => h.inflight_lt x (hF x hx)⟩
  · intro x y hx hu hy hf
    by_cases e : x = t
    · subst e; exact hown y hy hf
    · have hy' : s.env.entry x = some y := by rw [← hframe x e]; exact hy
      exact h.final_spec x y hx hu hy' hf
  · intro x hx d hd
    obtain ⟨z, hz, hzd⟩ := h.inflight_hard x (hF x hx) d hd
    have hne : d ≠ t := by
      intro e; subst e; rw [ho] at hz; injection hz with hz; subst hz; rw [hop] at hzd; cases hzd
    exact ⟨z, by show env'.entry d = _; rw [hframe d hne]; exact hz, hzd⟩
  · intro x hu hp
    have hne : x ≠ t := fun e => htu (e ▸ hu)
    show env'.entry x = none ∨ _
    rw [hframe x hne]; exact h.fresh x hu hp

/-- **`InvB` is preserved by every step** (runs that start from an environment without entries for the tasks). -/
theorem InvB_step {c : Cfg} (hc : c.WF) {s s' : State} (ha : InvA c s) (hcc : InvC c s) (h : InvB c s) (hs : Step c s s') :
    InvB c s' := by
  cases hs with
  | mSpawn k hm =>
    refine h.transfer (by rfl) (by intro _; exact Iff.rfl) ?_ (by intro t _ hp; rw [hm] at hp; cases hp)
    rintro t (ht | ht | ⟨x, hx⟩)
    · exact Or.inl ht
    · exfalso; revert ht; show afterSpawn c k = _ → False; unfold afterSpawn; split <;> (try split) <;> simp
    · have hx' : held (upd s.wpc k .begin x) = some t := hx
      rw [held_upd] at hx'; split at hx'
      · cases hx'
      · exact Or.inr (Or.inr ⟨x, hx'⟩)
  | mAcq hm _ =>
    refine h.transfer (by rfl) (by intro _; exact Iff.rfl) ?_ (by intro t _ hp; rw [hm] at hp; cases hp)
    rintro t (ht | ht | hx)
    · exact Or.inl ht
    · cases ht
    · exact Or.inr (Or.inr hx)
  | mWait t rest env' hm ht hd =>
    obtain ⟨hframe, ⟨y, hy, _, _, hwait, _, _, _⟩, _⟩ := decide_spec c s.env s.left t _ env' hd
    have hnp : ∀ x, s.mpc ≠ .put x := by intro x hx; rw [hm] at hx; cases hx
    apply InvB_decide_advance hc ha h hm t rest ht env' hframe (s.left ++ [t])
    right
    refine ⟨rfl, y, hy, ?_⟩
    rcases hwait rfl with hw | ⟨hyd, hold⟩
    · exact hw
    · -- a fresh task is not DONE
      rcases h.fresh t (Or.inl (by rw [ht]; simp)) (hnp t) with hn | ⟨z, hz, hzw⟩
      · rw [hn] at hold; cases hold
      · rw [hz] at hold; injection hold with hold; subst hold; rw [hzw] at hyd; cases hyd
  | mSkip t rest env' hm ht hd =>
    obtain ⟨hframe, ⟨y, hy, _, _, _, hskip, _, _⟩, hdeps, _, hbad, _⟩ := decide_spec c s.env s.left t _ env' hd
    apply InvB_decide_advance hc ha h hm t rest ht env' hframe s.left
    left
    refine ⟨rfl, ?_⟩
    intro y' hy' _
    rw [hy] at hy'; injection hy' with hy'; subst hy'
    rw [hskip rfl]
    -- one hard dependency is FAILED or SKIPPED; it is decided, so its status is the specified one
    obtain ⟨d, hdh, z, hz, hzs⟩ := hbad rfl
    have hdm := hc.hard_sub t d hdh
    have hdlt : d < t := hc.deps_lt t d hdm
    have ht_lt : t < c.n := ha.undecided_lt t (Or.inl (by rw [ht]; simp))
    have hdu : ¬ Undecided s d := by
      rintro (hdt | hdl)
      · rw [ht] at hdt
        rcases List.mem_cons.1 hdt with e | hdt
        · omega
        · have hs := ha.todo_sorted; rw [ht, List.pairwise_cons] at hs
          have := hs.1 d hdt; omega
      · exact (hdeps (by simp) d hdm).1 hdl
    have hzf : z.st.final = true := by rcases hzs with e | e <;> rw [e] <;> rfl
    have hsp := h.final_spec d z (by omega) hdu hz hzf
    rw [spec_eq c hc t]
    have : (c.hardOf t).any (fun h => bad (spec c h)) = true := by
      rw [List.any_eq_true]; exact ⟨d, hdh, by rw [← hsp, bad_iff]; exact hzs⟩
    rw [this]; rfl
  | mDrop t rest env' hm ht hd =>
    obtain ⟨hframe, ⟨y, hy, _, _, _, _, hdrop, _⟩, _⟩ := decide_spec c s.env s.left t _ env' hd
    have hnp : ∀ x, s.mpc ≠ .put x := by intro x hx; rw [hm] at hx; cases hx
    -- impossible from a fresh environment: the task would have to be DONE already
    exfalso
    obtain ⟨hyd, hold⟩ := hdrop rfl
    rcases h.fresh t (Or.inl (by rw [ht]; simp)) (hnp t) with hn | ⟨z, hz, hzw⟩
    · rw [hn] at hold; cases hold
    · rw [hz] at hold; injection hold with hold; subst hold; rw [hzw] at hyd; cases hyd
  | mPending t rest env' hm ht hd =>
    obtain ⟨hframe, ⟨y, hy, _, _, _, _, _, hpend⟩, hdeps, hhard, _, hfinal⟩ := decide_spec c s.env s.left t _ env' hd
    have hnp : ∀ x, s.mpc ≠ .put x := by intro x hx; rw [hm] at hx; cases hx
    have htu : Undecided s t := Or.inl (by rw [ht]; simp)
    have hnotdone : ∀ x, s.env.entry t = some x → x.st ≠ .done := by
      intro x hx hxd
      rcases h.fresh t htu (hnp t) with hn | ⟨z, hz, hzw⟩
      · rw [hn] at hx; cases hx
      · rw [hz] at hx; injection hx with hx; subst hx; rw [hzw] at hxd; cases hxd
    refine ⟨?_, ?_, ?_, ?_⟩
    rotate_left 3
    · rintro x (hx | hx | hx)
      · exact h.inflight_lt x (Or.inl hx)
      · injection hx with hx; rw [← hx]; exact ha.undecided_lt t htu
      · exact h.inflight_lt x (Or.inr (Or.inr hx))
    · intro x z hx hu hz hf
      have hne : x ≠ t := fun e => hu (e ▸ htu)
      have hz' : s.env.entry x = some z := by rw [← hframe x hne]; exact hz
      exact h.final_spec x z hx hu hz' hf
    · intro x hx d hdh
      by_cases e : x = t
      · subst e
        have hdm := hc.hard_sub x d hdh
        obtain ⟨z, hz, hzf⟩ := hfinal rfl hnotdone d hdm
        obtain ⟨hnf, hns⟩ := hhard (Or.inl rfl) d hdh z hz
        have hne : d ≠ x := Nat.ne_of_lt (hc.deps_lt x d hdm)
        refine ⟨z, by show env'.entry d = _; rw [hframe d hne]; exact hz, ?_⟩
        cases hzs : z.st with
        | done => rfl
        | failed => exact absurd hzs hnf
        | skipped => exact absurd hzs hns
        | waiting => rw [hzs] at hzf; cases hzf
        | pending => rw [hzs] at hzf; cases hzf
      · have hfl : InFlight s x := by
          rcases hx with hx | hx | hx
          · exact Or.inl hx
          · injection hx with hx; exact absurd hx.symm e
          · exact Or.inr (Or.inr hx)
        obtain ⟨z, hz, hzd⟩ := h.inflight_hard x hfl d hdh
        have hdu : ¬ Undecided s d := (ha.inflight_deps x hfl d (hc.hard_sub x d hdh)).2
        have hne : d ≠ t := fun e => hdu (e ▸ htu)
        exact ⟨z, by show env'.entry d = _; rw [hframe d hne]; exact hz, hzd⟩
    · intro x hu hp
      have hne : x ≠ t := by intro e; subst e; exact hp rfl
      have := h.fresh x hu (hnp x)
      show env'.entry x = none ∨ _
      rw [hframe x hne]; exact this
  | mPut t hm =>
    obtain ⟨rest, ht⟩ := ha.put_head t hm
    have hUa := undecided_advance { s with queue := s.queue ++ [some t], unfinished := s.unfinished + 1 }
    have hFa := inflight_advance { s with queue := s.queue ++ [some t], unfinished := s.unfinished + 1 }
    obtain ⟨a_env, _, _, _, _, _, _, a_mpc⟩ := advance_fields { s with queue := s.queue ++ [some t], unfinished := s.unfinished + 1 }
    have hFl : ∀ x, InFlight (advance { s with queue := s.queue ++ [some t], unfinished := s.unfinished + 1 }) x → InFlight s x := by
      intro x hx
      rw [hFa] at hx
      rcases hx with hx | hx
      · rcases List.mem_append.1 hx with hx | hx
        · exact Or.inl hx
        · simp at hx; subst hx; exact Or.inr (Or.inl hm)
      · exact Or.inr (Or.inr hx)
    refine ⟨?_, ?_, ?_, fun x hx => h.inflight_lt x (hFl x hx)⟩
    · intro x y hx hu hy hf
      rw [a_env] at hy
      by_cases e : x = t
      · subst e
        obtain ⟨⟨z, hz, hzp⟩, _⟩ := ha.inflight_pending x (Or.inr (Or.inl hm))
        have : s.env.entry x = some y := hy
        rw [hz] at this; injection this with this; subst this; rw [hzp] at hf; cases hf
      · have hu' : ¬ Undecided s x := by
          rintro (hc' | hc')
          · rw [ht] at hc'
            rcases List.mem_cons.1 hc' with hc' | hc'
            · exact e hc'
            · apply hu; rw [hUa]; left; simpa [ht] using hc'
          · apply hu; rw [hUa]; right; exact hc'
        exact h.final_spec x y hx hu' hy hf
    · intro x hx d hd
      rw [a_env]
      rw [hFa] at hx
      have hfl : InFlight s x := by
        rcases hx with hx | hx
        · rcases List.mem_append.1 hx with hx | hx
          · exact Or.inl hx
          · simp at hx; subst hx; exact Or.inr (Or.inl hm)
        · exact Or.inr (Or.inr hx)
      exact h.inflight_hard x hfl d hd
    · intro x hu _
      rw [a_env]
      rw [hUa] at hu
      have hxne : x ≠ t := by
        intro e; subst e
        rcases hu with hu | hu
        · have hs := ha.todo_sorted; rw [ht, List.pairwise_cons] at hs
          exact Nat.lt_irrefl x (hs.1 x (by simpa [ht] using hu))
        · exact Nat.lt_irrefl x (ha.left_lt_todo x hu x (by rw [ht]; simp))
      have hu' : Undecided s x := by
        rcases hu with hu | hu
        · left; rw [ht]; exact List.mem_cons_of_mem _ (by simpa [ht] using hu)
        · exact Or.inr hu
      exact h.fresh x hu' (by rw [hm]; intro e; injection e with e; exact hxne e.symm)
  | mWake hm _ _ =>
    have htodo := ha.wake_todo hm
    refine h.transfer (by rfl) ?_ ?_ (by intro t _ hp; rw [hm] at hp; cases hp)
    · intro t; simp [Undecided, htodo]
    · rintro t (ht | ht | hx)
      · exact Or.inl ht
      · cases ht
      · exact Or.inr (Or.inr hx)
  | mQjoin hm _ =>
    refine h.transfer (by rfl) (by intro _; exact Iff.rfl) ?_ (by intro t _ hp; rw [hm] at hp; cases hp)
    rintro t (ht | ht | hx)
    · exact Or.inl ht
    · exfalso; revert ht; show (if c.workers = 0 then MPc.returned else MPc.sentinel 0) = _ → False; split <;> simp
    · exact Or.inr (Or.inr hx)
  | mSentinel k hm =>
    refine h.transfer (by rfl) (by intro _; exact Iff.rfl) ?_ (by intro t _ hp; rw [hm] at hp; cases hp)
    rintro t (ht | ht | hx)
    · have : some t ∈ s.queue ++ [none] := ht
      rcases List.mem_append.1 this with hh | hh
      · exact Or.inl hh
      · simp at hh
    · exfalso; revert ht; show (if k + 1 < c.workers then MPc.sentinel (k + 1) else MPc.joinW 0) = _ → False; split <;> simp
    · exact Or.inr (Or.inr hx)
  | mJoin k hm _ =>
    refine h.transfer (by rfl) (by intro _; exact Iff.rfl) ?_ (by intro t _ hp; rw [hm] at hp; cases hp)
    rintro t (ht | ht | hx)
    · exact Or.inl ht
    · exfalso; revert ht; show (if k + 1 < c.workers then MPc.joinW (k + 1) else MPc.returned) = _ → False; split <;> simp
    · exact Or.inr (Or.inr hx)
  | wBegin w hw =>
    exact InvB_worker_pc h w .get s.queue (by rintro t (ht | ht); exact Or.inl ht; cases ht) _ _ _ _ _ _
  | wGetTask w t rest hw hq =>
    exact InvB_worker_pc h w (.timeStart t) rest
      (by rintro t' (ht | ht)
          · exact Or.inl (by rw [hq]; exact List.mem_cons_of_mem _ ht)
          · injection ht with ht; subst ht; exact Or.inl (by rw [hq]; simp)) _ _ _ _ _ _
  | wGetSentinel w rest hw hq =>
    exact InvB_worker_pc h w .sentinelDone rest
      (by rintro t' (ht | ht)
          · exact Or.inl (by rw [hq]; exact List.mem_cons_of_mem _ ht)
          · cases ht) _ _ _ _ _ _
  | wTimeStart w t hw =>
    exact InvB_worker_pc h w _ s.queue
      (by rintro t' (ht | ht)
          · exact Or.inl ht
          · injection ht with ht; subst ht; right; rw [hw]; rfl) _ _ _ _ _ _
  | wTimeEnd w t start hw =>
    exact InvB_worker_pc h w _ s.queue
      (by rintro t' (ht | ht)
          · exact Or.inl ht
          · right; rw [hw]; split at ht <;> (injection ht with ht; subst ht; rfl)) _ _ _ _ _ _
  | wTaskDone w hw _ =>
    exact InvB_worker_pc h w .cacq s.queue (by rintro t (ht | ht); exact Or.inl ht; cases ht) _ _ _ _ _ _
  | wCacq w hw _ =>
    exact InvB_worker_pc h w .notify s.queue (by rintro t (ht | ht); exact Or.inl ht; cases ht) _ _ _ _ _ _
  | wNotify w hw =>
    exact InvB_worker_pc h w .get s.queue (by rintro t (ht | ht); exact Or.inl ht; cases ht) _ _ _ _ _ _
  | wSentinelDone w hw _ =>
    exact InvB_worker_pc h w .exited s.queue (by rintro t (ht | ht); exact Or.inl ht; cases ht) _ _ _ _ _ _
  | wApply w t start stop hw =>
    have hheld : held (s.wpc w) = some t := by rw [hw]; rfl
    obtain ⟨⟨o, ho, hop⟩, _⟩ := ha.inflight_pending t (Or.inr (Or.inr ⟨w, hheld⟩))
    exact InvB_held_env hc ha h w t hheld _ (.clocks t start stop) (by intro t' ht'; injection ht' with ht'; exact ht'.symm)
      (fun x hx => entry_updEntry_other _ _ _ _ hx)
      (by intro y hy hf
          rw [entry_updEntry_same, ho] at hy; injection hy with hy; subst hy
          simp only [Option.getD_some] at hf; rw [hop] at hf; cases hf)
  | wClocks w t start stop hw =>
    have hheld : held (s.wpc w) = some t := by rw [hw]; rfl
    obtain ⟨⟨o, ho, hop⟩, _⟩ := ha.inflight_pending t (Or.inr (Or.inr ⟨w, hheld⟩))
    exact InvB_held_env hc ha h w t hheld _ (.status t) (by intro t' ht'; injection ht' with ht'; exact ht'.symm)
      (fun x hx => entry_updEntry_other _ _ _ _ hx)
      (by intro y hy hf
          rw [entry_updEntry_same, ho] at hy; injection hy with hy; subst hy
          simp only [Option.getD_some] at hf; rw [hop] at hf; cases hf)
  | wStatus w t hw =>
    have hheld : held (s.wpc w) = some t := by rw [hw]; rfl
    have hfl : InFlight s t := Or.inr (Or.inr ⟨w, hheld⟩)
    exact InvB_held_env hc ha h w t hheld _ .taskDone (by intro t' ht'; cases ht')
      (fun x hx => entry_setSt_other _ _ _ _ hx)
      (by intro y hy _
          obtain ⟨y', hy', hys, _⟩ := entry_setSt_same s.env t (c.outOf t).status
          rw [hy'] at hy; injection hy with hy; subst hy
          rw [hys, spec_eq c hc t]
          -- every hard dependency is DONE, and DONE is what the specification says for it
          have : (c.hardOf t).any (fun h => bad (spec c h)) = false := by
            rw [Bool.eq_false_iff]
            intro hany
            rw [List.any_eq_true] at hany
            obtain ⟨d, hd, hb⟩ := hany
            obtain ⟨z, hz, hzd⟩ := h.inflight_hard t hfl d hd
            have hdu := (ha.inflight_deps t hfl d (hc.hard_sub t d hd)).2
            have hdlt : d < t := hc.deps_lt t d (hc.hard_sub t d hd)
            have htlt : t < c.n := h.inflight_lt t hfl
            have := h.final_spec d z (by omega) hdu hz (by rw [hzd]; rfl)
            rw [← this, hzd] at hb; cases hb
          rw [this]; rfl)

end Sched
