import Proofs.DepGraph
/-! Refinement of `merge` (and hence of `+`, which is `copy` then `merge`) for C16. -/
set_option linter.unusedVariables false
namespace DG

theorem mapM_ok_of_forall {α β : Type} (f : α → Except Err β) (g : α → β) (l : List α)
    (h : ∀ a ∈ l, f a = .ok (g a)) : l.mapM f = .ok (l.map g) := by
  induction l with
  | nil => rfl
  | cons a r ih =>
    rw [List.mapM_cons, h a (by simp), ih (fun b hb => h b (by simp [hb]))]
    rfl

/-- the inner loop of `merge`: add the dependencies `key -> v` one by one -/
theorem addDeps_refines {g : G} (h : GInv g) (key : Nat) (vals : List Nat) :
    ∃ g', vals.foldlM (fun g v => g.addDep key v) g = .ok g' ∧ GInv g' ∧
      (∀ z, g'.Node z ↔ g.Node z ∨ (vals ≠ [] ∧ z = key) ∨ z ∈ vals) ∧
      (∀ u w, g'.Edge u w ↔ g.Edge u w ∨ (u = key ∧ w ∈ vals)) := by
  induction vals generalizing g with
  | nil =>
    exact ⟨g, rfl, h, fun z => by simp, fun u w => by simp⟩
  | cons v rest ih =>
    obtain ⟨g1, hg1, hi1, n1, e1⟩ := addDep_refines h key v
    obtain ⟨g2, hg2, hi2, n2, e2⟩ := ih hi1
    refine ⟨g2, ?_, hi2, ?_, ?_⟩
    · rw [List.foldlM_cons, hg1]; exact hg2
    · intro z
      rw [n2 z, n1 z]
      constructor
      · rintro ((hz | hz | hz) | ⟨_, hz⟩ | hz)
        · exact Or.inl hz
        · exact Or.inr (Or.inl ⟨by simp, hz⟩)
        · exact Or.inr (Or.inr (by simp [hz]))
        · exact Or.inr (Or.inl ⟨by simp, hz⟩)
        · exact Or.inr (Or.inr (by simp [hz]))
      · rintro (hz | ⟨_, hz⟩ | hz)
        · exact Or.inl (Or.inl hz)
        · exact Or.inl (Or.inr (Or.inl hz))
        · rcases List.mem_cons.1 hz with hz | hz
          · exact Or.inl (Or.inr (Or.inr hz))
          · exact Or.inr (Or.inr hz)
    · intro u w
      rw [e2 u w, e1 u w]
      constructor
      · rintro ((huw | ⟨hu, hw⟩) | ⟨hu, hw⟩)
        · exact Or.inl huw
        · exact Or.inr ⟨hu, by simp [hw]⟩
        · exact Or.inr ⟨hu, by simp [hw]⟩
      · rintro (huw | ⟨hu, hw⟩)
        · exact Or.inl (Or.inl huw)
        · rcases List.mem_cons.1 hw with hw | hw
          · exact Or.inl (Or.inr ⟨hu, hw⟩)
          · exact Or.inr ⟨hu, hw⟩

/-- the outer loop of `merge` over any list of `(node, dependencies)` items -/
theorem mergeItems_refines {g : G} (h : GInv g) (its : List (Nat × List Nat)) :
    ∃ g', its.foldlM (fun g (p : Nat × List Nat) => do
        let g := g.addNode p.1
        p.2.foldlM (fun g v => g.addDep p.1 v) g) g = .ok g' ∧ GInv g' ∧
      (∀ z, g'.Node z ↔ g.Node z ∨ (∃ p ∈ its, z = p.1 ∨ z ∈ p.2)) ∧
      (∀ u w, g'.Edge u w ↔ g.Edge u w ∨ ∃ p ∈ its, u = p.1 ∧ w ∈ p.2) := by
  induction its generalizing g with
  | nil => exact ⟨g, rfl, h, fun z => by simp, fun u w => by simp⟩
  | cons p rest ih =>
    obtain ⟨hi0, n0, e0⟩ := addNode_refines h p.1
    obtain ⟨g1, hg1, hi1, n1, e1⟩ := addDeps_refines hi0 p.1 p.2
    obtain ⟨g2, hg2, hi2, n2, e2⟩ := ih hi1
    refine ⟨g2, ?_, hi2, ?_, ?_⟩
    · rw [List.foldlM_cons]
      simp only [bind, Except.bind]
      rw [hg1]; exact hg2
    · intro z
      rw [n2 z, n1 z, n0 z]
      constructor
      · rintro (((hz | hz) | ⟨_, hz⟩ | hz) | ⟨q, hq, hz⟩)
        · exact Or.inl hz
        · exact Or.inr ⟨p, by simp, Or.inl hz⟩
        · exact Or.inr ⟨p, by simp, Or.inl hz⟩
        · exact Or.inr ⟨p, by simp, Or.inr hz⟩
        · exact Or.inr ⟨q, by simp [hq], hz⟩
      · rintro (hz | ⟨q, hq, hz⟩)
        · exact Or.inl (Or.inl (Or.inl hz))
        · rcases List.mem_cons.1 hq with hq | hq
          · subst hq
            rcases hz with hz | hz
            · exact Or.inl (Or.inl (Or.inr hz))
            · exact Or.inl (Or.inr (Or.inr hz))
          · exact Or.inr ⟨q, hq, hz⟩
    · intro u w
      rw [e2 u w, e1 u w, e0 u w]
      constructor
      · rintro ((huw | ⟨hu, hw⟩) | ⟨q, hq, hu, hw⟩)
        · exact Or.inl huw
        · exact Or.inr ⟨p, by simp, hu, hw⟩
        · exact Or.inr ⟨q, by simp [hq], hu, hw⟩
      · rintro (huw | ⟨q, hq, hu, hw⟩)
        · exact Or.inl (Or.inl huw)
        · rcases List.mem_cons.1 hq with hq | hq
          · subst hq; exact Or.inl (Or.inr ⟨hu, hw⟩)
          · exact Or.inr ⟨q, hq, hu, hw⟩

/-- `__iter__`: one item per node, with the nodes it depends on -/
theorem items_spec {h : G} (hi : GInv h) :
    ∃ its, h.items = .ok its ∧
      (∀ z, h.Node z ↔ ∃ p ∈ its, z = p.1) ∧
      (∀ p ∈ its, ∀ y ∈ p.2, h.Node y) ∧
      (∀ u w, h.Edge u w ↔ ∃ p ∈ its, u = p.1 ∧ w ∈ p.2) := by
  let item : Nat → Nat × List Nat := fun i =>
    (h.nodes.seq.getD i 0, ((h.edges.get i).getD []).map fun j => h.nodes.seq.getD j 0)
  have hitems : h.items = .ok ((List.range h.size).map item) := by
    unfold G.items
    apply mapM_ok_of_forall
    intro i hir
    have hlt : i < h.size := List.mem_range.1 hir
    obtain ⟨s, hs, hgs⟩ := hi.edgesAt_ok hlt
    have hil : i < h.nodes.seq.length := hlt
    simp only [bind, Except.bind, hs, List.getElem?_eq_getElem hil]
    rw [mapM_ok_of_forall _ (fun j => h.nodes.seq.getD j 0) s (by
      intro j hj
      have hjl : j < h.nodes.seq.length := hi.erange i s hgs j hj
      simp [List.getElem?_eq_getElem hjl, List.getD_eq_getElem?_getD])]
    simp [item, hgs, List.getD_eq_getElem?_getD, List.getElem?_eq_getElem hil]
  refine ⟨_, hitems, ?_, ?_, ?_⟩
  · intro z
    constructor
    · intro hz
      obtain ⟨i, hil, hiz⟩ := List.getElem_of_mem hz
      refine ⟨item i, List.mem_map.2 ⟨i, List.mem_range.2 hil, rfl⟩, ?_⟩
      simp [item, List.getD_eq_getElem?_getD, List.getElem?_eq_getElem hil, hiz]
    · rintro ⟨p, hp, rfl⟩
      obtain ⟨i, hir, rfl⟩ := List.mem_map.1 hp
      have hil : i < h.nodes.seq.length := List.mem_range.1 hir
      show h.nodes.seq.getD i 0 ∈ h.nodes.seq
      simp [List.getD_eq_getElem?_getD, List.getElem?_eq_getElem hil]
  · intro p hp y hy
    obtain ⟨i, hir, rfl⟩ := List.mem_map.1 hp
    have hlt : i < h.size := List.mem_range.1 hir
    obtain ⟨s, hs, hgs⟩ := hi.edgesAt_ok hlt
    have hy' : y ∈ ((h.edges.get i).getD []).map fun j => h.nodes.seq.getD j 0 := hy
    rw [hgs] at hy'
    obtain ⟨j, hj, rfl⟩ := List.mem_map.1 hy'
    have hjl : j < h.nodes.seq.length := hi.erange i s hgs j hj
    show h.nodes.seq.getD j 0 ∈ h.nodes.seq
    simp [List.getD_eq_getElem?_getD, List.getElem?_eq_getElem hjl]
  · intro u w
    constructor
    · rintro ⟨a, b, s, ha, hb, hs, hbs⟩
      have hal := lt_of_getElem?_some ha
      refine ⟨item a, List.mem_map.2 ⟨a, List.mem_range.2 hal, rfl⟩, ?_, ?_⟩
      · simp [item, List.getD_eq_getElem?_getD, ha]
      · show w ∈ ((h.edges.get a).getD []).map fun j => h.nodes.seq.getD j 0
        rw [hs]
        exact List.mem_map.2 ⟨b, hbs, by simp [List.getD_eq_getElem?_getD, hb]⟩
    · rintro ⟨p, hp, rfl, hw⟩
      obtain ⟨i, hir, rfl⟩ := List.mem_map.1 hp
      have hlt : i < h.size := List.mem_range.1 hir
      have hil : i < h.nodes.seq.length := hlt
      obtain ⟨s, hs, hgs⟩ := hi.edgesAt_ok hlt
      have hw' : w ∈ ((h.edges.get i).getD []).map fun j => h.nodes.seq.getD j 0 := hw
      rw [hgs] at hw'
      obtain ⟨j, hj, rfl⟩ := List.mem_map.1 hw'
      have hjl : j < h.nodes.seq.length := hi.erange i s hgs j hj
      refine ⟨i, j, s, ?_, ?_, hgs, hj⟩
      · simp [item, List.getD_eq_getElem?_getD, List.getElem?_eq_getElem hil]
      · simp [List.getD_eq_getElem?_getD, List.getElem?_eq_getElem hjl]

/-- **`merge` (and `+`): the result has exactly the nodes of both graphs and exactly the edges of both graphs** -/
theorem merge_refines {g h : G} (hg : GInv g) (hh : GInv h) :
    ∃ g', g.merge h = .ok g' ∧ GInv g' ∧ (∀ z, g'.Node z ↔ g.Node z ∨ h.Node z) ∧
      (∀ u w, g'.Edge u w ↔ g.Edge u w ∨ h.Edge u w) := by
  obtain ⟨its, hits, hn, hv, he⟩ := items_spec hh
  obtain ⟨g', hg', hi', n', e'⟩ := mergeItems_refines hg its
  refine ⟨g', ?_, hi', ?_, ?_⟩
  · unfold G.merge
    rw [hits]
    exact hg'
  · intro z
    rw [n' z]
    constructor
    · rintro (hz | ⟨p, hp, hz | hz⟩)
      · exact Or.inl hz
      · exact Or.inr ((hn z).2 ⟨p, hp, hz⟩)
      · exact Or.inr (hv p hp z hz)
    · rintro (hz | hz)
      · exact Or.inl hz
      · obtain ⟨p, hp, hz⟩ := (hn z).1 hz
        exact Or.inr ⟨p, hp, Or.inl hz⟩
  · intro u w
    rw [e' u w, he u w]

end DG

namespace DG

/-! ### `copy` -/

theorem complete_inner_closed (acc : AL) (vals : List Nat) (h : ∀ v ∈ vals, (acc.get v).isSome = true) :
    vals.foldl (fun (acc : AL) v => if (acc.get v).isSome then acc else acc.set v []) acc = acc := by
  induction vals with
  | nil => rfl
  | cons v r ih =>
    rw [List.foldl_cons, if_pos (h v (by simp))]
    exact ih (fun w hw => h w (by simp [hw]))

theorem complete_outer_closed (acc : AL) (l : AL) (h : ∀ p ∈ l, ∀ v ∈ p.2, (acc.get v).isSome = true) :
    l.foldl (fun (acc : AL) (p : Nat × List Nat) =>
      p.2.foldl (fun (acc : AL) v => if (acc.get v).isSome then acc else acc.set v []) acc) acc = acc := by
  induction l with
  | nil => rfl
  | cons p r ih =>
    rw [List.foldl_cons, complete_inner_closed acc p.2 (h p (by simp))]
    exact ih (fun q hq => h q (by simp [hq]))

/-- on the edge table of a well-formed graph `_complete` adds nothing: it only removes duplicates -/
theorem complete_of_closed (e : AL) (h : ∀ p ∈ e, ∀ v ∈ p.2, (e.get v).isSome = true) :
    complete e = e.mapVals List.eraseDups := by
  unfold complete
  simp only
  have : e.foldl (fun (acc : AL) (x : Nat × List Nat) =>
      x.2.foldl (fun (acc : AL) v => if (acc.get v).isSome then acc else acc.set v []) acc) e = e :=
    complete_outer_closed e e h
  have e2 : (e.foldl (fun (acc : AL) (x : Nat × List Nat) =>
      match x with
      | (_, vals) => vals.foldl (fun (acc : AL) v => if (acc.get v).isSome then acc else acc.set v []) acc) e) = e := by
    simpa using this
  rw [e2]

end DG

namespace DG

theorem AL.get_of_mem (l : AL) (hn : l.keys.Nodup) (k : Nat) (v : List Nat) (h : (k, v) ∈ l) : l.get k = some v := by
  induction l with
  | nil => cases h
  | cons p r ih =>
    obtain ⟨k', v'⟩ := p
    have hn' : k' ∉ AL.keys r ∧ (AL.keys r).Nodup := by simpa [AL.keys] using hn
    rcases List.mem_cons.1 h with h | h
    · injection h with h1 h2; subst h1 h2; simp
    · have hk : k' ≠ k := by
        intro e; subst e
        exact hn'.1 (List.mem_map.2 ⟨(k', v), h, rfl⟩)
      simp [hk, ih hn'.2 h]

/-- **a copy denotes the same graph** (and, being another value, is independent of the original) -/
theorem copy_refines {g : G} (h : GInv g) :
    GInv g.copy ∧ (∀ z, g.copy.Node z ↔ g.Node z) ∧ (∀ u w, g.copy.Edge u w ↔ g.Edge u w) := by
  have hclosed : ∀ p ∈ g.edges, ∀ v ∈ p.2, (g.edges.get v).isSome = true := by
    intro p hp v hv
    have hget := AL.get_of_mem g.edges h.ekeys p.1 p.2 hp
    have := h.erange p.1 p.2 hget v hv
    exact (h.edom v).2 this
  have hseq : g.copy.nodes.seq = g.nodes.seq := RList.seq_ofList _
  have hedges : g.copy.edges = g.edges.mapVals List.eraseDups := by
    show complete g.edges = _
    exact complete_of_closed g.edges hclosed
  have hsize : g.copy.size = g.size := by unfold G.size; rw [hseq]
  refine ⟨⟨RInv.ofList _, by rw [hseq]; exact h.nodup, by rw [hedges, AL.keys_mapVals]; exact h.ekeys, ?_, ?_⟩, ?_, ?_⟩
  · intro a
    rw [hedges, AL.get_mapVals, hsize, ← h.edom a]
    cases g.edges.get a <;> simp
  · intro a s hs b hb
    rw [hedges, AL.get_mapVals] at hs
    rw [hsize]
    cases hg : g.edges.get a with
    | none => rw [hg] at hs; cases hs
    | some s0 =>
      rw [hg] at hs
      simp at hs; subst hs
      exact h.erange a s0 hg b (List.mem_eraseDups.1 hb)
  · intro z; unfold G.Node; rw [hseq]
  · intro u w
    unfold G.Edge
    rw [hseq, hedges]
    constructor
    · rintro ⟨a, b, s, ha, hb, hs, hbs⟩
      rw [AL.get_mapVals] at hs
      cases hg : g.edges.get a with
      | none => rw [hg] at hs; cases hs
      | some s0 =>
        rw [hg] at hs; simp at hs; subst hs
        exact ⟨a, b, s0, ha, hb, hg, List.mem_eraseDups.1 hbs⟩
    · rintro ⟨a, b, s, ha, hb, hs, hbs⟩
      exact ⟨a, b, s.eraseDups, ha, hb, by rw [AL.get_mapVals, hs]; rfl, List.mem_eraseDups.2 hbs⟩

end DG
