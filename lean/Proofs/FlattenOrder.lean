import Proofs.FlattenRanked
import Proofs.GraftOrder
/-! `flatten(recurse=True)` over several levels of nesting preserves the ordering constraints (C16, last sentence, all
levels together).  The hypotheses are about the initial data only: the outer graph `g` and the `store` of nested graphs.
The nesting is a tree: every node has one owner (`own z = none` for the nodes of the outer graph, `own z = some x` for
the nodes of the graph nested at `x`: `TreeStore`), so that the node sets of the outer graph and of all the nested graphs
are pairwise disjoint and no graph stands at two places; the nested graphs are ranked (`RankedStore`) and acyclic.

* `graft_acyclic`: grafting an acyclic graph in place of a node of an acyclic graph gives an acyclic graph;
  `graft_order_into`, `graft_order_outof`, `graft_order_inside`: the ordering constraints of the grafted graph that
  involve the nodes of the nested graph (on `graftE`, next to `graft_order_sound` / `graft_order_complete`).
* `graft_step`: one `G.graft`, on the representation, from these.
* `flatten_preserves_order`: the loop over the levels returns a well-formed acyclic graph of plain nodes in which the
  plain nodes of `g` are ordered exactly as they were in `g`.
* `flatten_order_full`: the nodes of the result are exactly the plain nodes of the nesting, and for ALL of them (those
  that came out of nested graphs included) the ordering constraints are the natural order of the nesting (`NOrd`).
-/
set_option linter.unusedVariables false
namespace DG
open Relation

/-! ### Grafting an acyclic graph into an acyclic graph gives an acyclic graph -/

section
variable {sN : Nat → Prop} {sE : Nat → Nat → Prop} {tN : Nat → Prop} {tE : Nat → Nat → Prop} {x : Nat}

/-- the source of an edge of the grafted graph is an old node other than `x`, or a node of the nested graph -/
theorem graftE_src (hEs : ∀ u w, sE u w → sN u ∧ sN w) (hEt : ∀ u w, tE u w → tN u ∧ tN w) (hxx : ¬ sE x x)
    {u w : Nat} (h : graftE sE tN tE x u w) : (sN u ∧ u ≠ x) ∨ tN u := by
  rcases h with ⟨e, hux, _⟩ | e | ⟨⟨ht, _⟩, _⟩ | ⟨e, _, _⟩ | ⟨_, e1, e2⟩
  · exact Or.inl ⟨(hEs _ _ e).1, hux⟩
  · exact Or.inr (hEt _ _ e).1
  · exact Or.inr ht
  · exact Or.inl ⟨(hEs _ _ e).1, fun e' => hxx (e' ▸ e)⟩
  · exact Or.inl ⟨(hEs _ _ e1).1, fun e' => hxx (e' ▸ e1)⟩

/-- a path of the grafted graph that starts inside the nested graph stays inside it, or goes through an old node -/
theorem graft_path_from_nested (hEs : ∀ u w, sE u w → sN u ∧ sN w) (hEt : ∀ u w, tE u w → tN u ∧ tN w)
    (hdisj : ∀ z, tN z → ¬ sN z) (hxx : ¬ sE x x) {a : Nat} (ha : tN a) :
    ∀ z, TransGen (graftE sE tN tE x) a z →
      (tN z ∧ TransGen tE a z) ∨
      ∃ b, sN b ∧ b ≠ x ∧ sE x b ∧ TransGen (graftE sE tN tE x) a b ∧ ReflTransGen (graftE sE tN tE x) b z := by
  intro z hz
  induction hz with
  | @single z h1 =>
    rcases h1 with ⟨e, _, _⟩ | e | ⟨htm, e⟩ | ⟨e, _, _⟩ | ⟨_, e1, _⟩
    · exact absurd (hEs _ _ e).1 (hdisj a ha)
    · exact Or.inl ⟨(hEt _ _ e).2, TransGen.single e⟩
    · exact Or.inr ⟨z, (hEs _ _ e).2, fun e' => hxx (e' ▸ e), e, TransGen.single (Or.inr (Or.inr (Or.inl ⟨htm, e⟩))), ReflTransGen.refl⟩
    · exact absurd (hEs _ _ e).1 (hdisj a ha)
    · exact absurd (hEs _ _ e1).1 (hdisj a ha)
  | @tail y z hay h2 ih =>
    rcases ih with ⟨hty, p⟩ | ⟨b, hb, hbx, hxb, p, q⟩
    · rcases h2 with ⟨e, _, _⟩ | e | ⟨htm, e⟩ | ⟨e, _, _⟩ | ⟨_, e1, _⟩
      · exact absurd (hEs _ _ e).1 (hdisj y hty)
      · exact Or.inl ⟨(hEt _ _ e).2, TransGen.tail p e⟩
      · exact Or.inr ⟨z, (hEs _ _ e).2, fun e' => hxx (e' ▸ e), e, TransGen.tail hay (Or.inr (Or.inr (Or.inl ⟨htm, e⟩))), ReflTransGen.refl⟩
      · exact absurd (hEs _ _ e).1 (hdisj y hty)
      · exact absurd (hEs _ _ e1).1 (hdisj y hty)
    · exact Or.inr ⟨b, hb, hbx, hxb, p, ReflTransGen.tail q h2⟩

/-- **grafting an acyclic graph in place of a node of an acyclic graph gives an acyclic graph** (the two node sets
disjoint): a cycle through an old node is a cycle of the old graph (`graft_order_sound`); a cycle that starts in the
nested graph either stays in it, or leaves it — towards an old node, through which it is a cycle again -/
theorem graft_acyclic (hEs : ∀ u w, sE u w → sN u ∧ sN w) (hEt : ∀ u w, tE u w → tN u ∧ tN w)
    (hdisj : ∀ z, tN z → ¬ sN z) (hs : ∀ a, ¬ TransGen sE a a) (ht : ∀ a, ¬ TransGen tE a a) :
    ∀ a, ¬ TransGen (graftE sE tN tE x) a a := by
  have hxx : ¬ sE x x := fun e => hs x (TransGen.single e)
  have old : ∀ b, sN b → b ≠ x → ¬ TransGen (graftE sE tN tE x) b b := fun b hb hbx hc =>
    hs b (graft_order_sound hEs hEt hdisj hxx hb hbx hb hc)
  intro a hc
  obtain ⟨c, hac, _⟩ := TransGen.head'_iff.1 hc
  rcases graftE_src hEs hEt hxx hac with ⟨hsa, hax⟩ | hta
  · exact old a hsa hax hc
  · rcases graft_path_from_nested hEs hEt hdisj hxx hta a hc with ⟨_, p⟩ | ⟨b, hb, hbx, _, p, q⟩
    · exact ht a p
    · exact old b hb hbx (TransGen.trans_right q p)

/-- a path of the grafted graph that starts at an old node reaches an old node along a path of the old graph, or a
node of the nested graph after a path of the old graph to `x` -/
theorem graft_path_from_old (hEs : ∀ u w, sE u w → sN u ∧ sN w) (hEt : ∀ u w, tE u w → tN u ∧ tN w)
    (hdisj : ∀ z, tN z → ¬ sN z) (hxx : ¬ sE x x) {u : Nat} (hu : sN u) :
    ∀ z, TransGen (graftE sE tN tE x) u z →
      (sN z ∧ z ≠ x ∧ TransGen sE u z) ∨ (tN z ∧ TransGen sE u x) := by
  intro z hz
  induction hz with
  | @single z h1 =>
    rcases h1 with ⟨e, _, hzx⟩ | e | ⟨⟨ht, _⟩, _⟩ | ⟨e, hi, _⟩ | ⟨_, e1, e2⟩
    · exact Or.inl ⟨(hEs _ _ e).2, hzx, TransGen.single e⟩
    · exact absurd hu (hdisj u (hEt _ _ e).1)
    · exact absurd hu (hdisj u ht)
    · exact Or.inr ⟨hi, TransGen.single e⟩
    · exact Or.inl ⟨(hEs _ _ e2).2, fun e' => hxx (e' ▸ e2), TransGen.tail (TransGen.single e1) e2⟩
  | @tail y z _ h2 ih =>
    rcases h2 with ⟨e, hyx, hzx⟩ | e | ⟨⟨ht, _⟩, e⟩ | ⟨e, hi, _⟩ | ⟨_, e1, e2⟩
    · rcases ih with ⟨_, _, p⟩ | ⟨hty, _⟩
      · exact Or.inl ⟨(hEs _ _ e).2, hzx, TransGen.tail p e⟩
      · exact absurd (hEs _ _ e).1 (hdisj y hty)
    · rcases ih with ⟨hsy, _, _⟩ | ⟨_, p⟩
      · exact absurd hsy (hdisj y (hEt _ _ e).1)
      · exact Or.inr ⟨(hEt _ _ e).2, p⟩
    · rcases ih with ⟨hsy, _, _⟩ | ⟨_, p⟩
      · exact absurd hsy (hdisj y ht)
      · exact Or.inl ⟨(hEs _ _ e).2, fun e' => hxx (e' ▸ e), TransGen.tail p e⟩
    · rcases ih with ⟨_, _, p⟩ | ⟨hty, _⟩
      · exact Or.inr ⟨hi, TransGen.tail p e⟩
      · exact absurd (hEs _ _ e).1 (hdisj y hty)
    · rcases ih with ⟨_, _, p⟩ | ⟨hty, _⟩
      · exact Or.inl ⟨(hEs _ _ e2).2, fun e' => hxx (e' ▸ e2), TransGen.tail (TransGen.tail p e1) e2⟩
      · exact absurd (hEs _ _ e1).1 (hdisj y hty)

theorem graft_lift_nested {a b : Nat} (h : ReflTransGen tE a b) : ReflTransGen (graftE sE tN tE x) a b := by
  induction h with
  | refl => exact ReflTransGen.refl
  | tail _ e ih => exact ReflTransGen.tail ih (Or.inr (Or.inl e))

/-- an old node has to come after a node of the nested graph exactly when it had to come after `x` -/
theorem graft_order_into (hEs : ∀ u w, sE u w → sN u ∧ sN w) (hEt : ∀ u w, tE u w → tN u ∧ tN w)
    (hdisj : ∀ z, tN z → ¬ sN z) (hxx : ¬ sE x x)
    (hdown : ∀ z, tN z → ∃ tm, (tN tm ∧ ¬ ∃ w', tE tm w') ∧ ReflTransGen tE z tm)
    (hup : ∀ z, tN z → ∃ i, (tN i ∧ ¬ ∃ u', tE u' i) ∧ ReflTransGen tE i z)
    {u w : Nat} (hu : sN u) (hux : u ≠ x) (hw : tN w) :
    TransGen (graftE sE tN tE x) u w ↔ TransGen sE u x := by
  constructor
  · intro h
    rcases graft_path_from_old hEs hEt hdisj hxx hu w h with ⟨hsw, _, _⟩ | ⟨_, p⟩
    · exact absurd hsw (hdisj w hw)
    · exact p
  · intro h
    have hpath : (∃ z, tN z) → ∃ i tm, (tN i ∧ ¬ ∃ u', tE u' i) ∧ (tN tm ∧ ¬ ∃ w', tE tm w') ∧ ReflTransGen tE i tm := by
      rintro ⟨z, hz⟩
      obtain ⟨tm, htm, p1⟩ := hdown z hz
      obtain ⟨i, hi, p2⟩ := hup z hz
      exact ⟨i, tm, hi, htm, p2.trans p1⟩
    obtain ⟨p, hup', hpx⟩ := TransGen.tail'_iff.1 h
    have hpne : p ≠ x := fun e => hxx (e ▸ hpx)
    have h1 : ReflTransGen (graftE sE tN tE x) u p := by
      rcases reflTransGen_iff_eq_or_transGen.1 hup' with e | q
      · rw [e]
      · exact (graft_order_complete hxx hpath hux hpne q).to_reflTransGen
    obtain ⟨i, hi, hiw⟩ := hup w hw
    have h2 : graftE sE tN tE x p i := Or.inr (Or.inr (Or.inr (Or.inl ⟨hpx, hi⟩)))
    exact TransGen.trans_left (TransGen.tail' h1 h2) (graft_lift_nested hiw)

/-- a node of the nested graph has to come after an old node exactly when `x` had to -/
theorem graft_order_outof (hEs : ∀ u w, sE u w → sN u ∧ sN w) (hEt : ∀ u w, tE u w → tN u ∧ tN w)
    (hdisj : ∀ z, tN z → ¬ sN z) (hxx : ¬ sE x x)
    (hdown : ∀ z, tN z → ∃ tm, (tN tm ∧ ¬ ∃ w', tE tm w') ∧ ReflTransGen tE z tm)
    (hup : ∀ z, tN z → ∃ i, (tN i ∧ ¬ ∃ u', tE u' i) ∧ ReflTransGen tE i z)
    {u w : Nat} (hu : tN u) (hw : sN w) (hwx : w ≠ x) :
    TransGen (graftE sE tN tE x) u w ↔ TransGen sE x w := by
  constructor
  · intro h
    rcases graft_path_from_nested hEs hEt hdisj hxx hu w h with ⟨htw, _⟩ | ⟨b, hb, hbx, hxb, _, q⟩
    · exact absurd hw (hdisj w htw)
    · rcases reflTransGen_iff_eq_or_transGen.1 q with e | q'
      · rw [e]; exact TransGen.single hxb
      · exact TransGen.head hxb (graft_order_sound hEs hEt hdisj hxx hb hbx hw q')
  · intro h
    have hpath : (∃ z, tN z) → ∃ i tm, (tN i ∧ ¬ ∃ u', tE u' i) ∧ (tN tm ∧ ¬ ∃ w', tE tm w') ∧ ReflTransGen tE i tm := by
      rintro ⟨z, hz⟩
      obtain ⟨tm, htm, p1⟩ := hdown z hz
      obtain ⟨i, hi, p2⟩ := hup z hz
      exact ⟨i, tm, hi, htm, p2.trans p1⟩
    obtain ⟨d, hxd, hdw⟩ := TransGen.head'_iff.1 h
    have hdne : d ≠ x := fun e => hxx (e ▸ hxd)
    have h1 : ReflTransGen (graftE sE tN tE x) d w := by
      rcases reflTransGen_iff_eq_or_transGen.1 hdw with e | q
      · rw [e]
      · exact (graft_order_complete hxx hpath hdne hwx q).to_reflTransGen
    obtain ⟨tm, htm, hutm⟩ := hdown u hu
    have h2 : graftE sE tN tE x tm d := Or.inr (Or.inr (Or.inl ⟨htm, hxd⟩))
    exact TransGen.trans_left (TransGen.tail' (graft_lift_nested hutm) h2) h1

/-- between two nodes of the nested graph, the ordering constraints are those of the nested graph -/
theorem graft_order_inside (hEs : ∀ u w, sE u w → sN u ∧ sN w) (hEt : ∀ u w, tE u w → tN u ∧ tN w)
    (hdisj : ∀ z, tN z → ¬ sN z) (hs : ∀ a, ¬ TransGen sE a a)
    {u w : Nat} (hu : tN u) (hw : tN w) :
    TransGen (graftE sE tN tE x) u w ↔ TransGen tE u w := by
  have hxx : ¬ sE x x := fun e => hs x (TransGen.single e)
  constructor
  · intro h
    rcases graft_path_from_nested hEs hEt hdisj hxx hu w h with ⟨_, p⟩ | ⟨b, hb, hbx, hxb, _, q⟩
    · exact p
    · exfalso
      rcases reflTransGen_iff_eq_or_transGen.1 q with e | q'
      · exact hdisj w hw (e ▸ hb)
      · rcases graft_path_from_old hEs hEt hdisj hxx hb w q' with ⟨hsw, _, _⟩ | ⟨_, p⟩
        · exact hdisj w hw hsw
        · exact hs x (TransGen.head hxb p)
  · intro h
    clear hw
    induction h with
    | single e => exact TransGen.single (Or.inr (Or.inl e))
    | tail _ e ih => exact TransGen.tail ih (Or.inr (Or.inl e))

end

/-- in a graph that has a topological order, every node reaches a terminal node and is reached from an initial node -/
theorem reach_term_init {N : Nat → Prop} {E : Nat → Nat → Prop} (l : List Nat) (hnd : l.Nodup)
    (hmem : ∀ z, z ∈ l ↔ N z) (hE : ∀ u w, E u w → N u ∧ N w) (hord : ∀ u w, E u w → Before l w u) :
    (∀ z, N z → ∃ tm, (N tm ∧ ¬ ∃ w', E tm w') ∧ ReflTransGen E z tm) ∧
    (∀ z, N z → ∃ i, (N i ∧ ¬ ∃ u', E u' i) ∧ ReflTransGen E i z) := by
  classical
  have down : ∀ n z, N z → l.idxOf z ≤ n → ∃ tm, (N tm ∧ ¬ ∃ w', E tm w') ∧ ReflTransGen E z tm := by
    intro n
    induction n with
    | zero =>
      intro z hz hidx
      refine ⟨z, ⟨hz, ?_⟩, ReflTransGen.refl⟩
      rintro ⟨w', hw'⟩
      have := before_idx hnd (hord z w' hw')
      omega
    | succ n ih =>
      intro z hz hidx
      by_cases ht : ∃ w', E z w'
      · obtain ⟨w', hw'⟩ := ht
        have hlt := before_idx hnd (hord z w' hw')
        obtain ⟨tm, htm, hp⟩ := ih w' (hE z w' hw').2 (by omega)
        exact ⟨tm, htm, ReflTransGen.head hw' hp⟩
      · exact ⟨z, ⟨hz, ht⟩, ReflTransGen.refl⟩
  have up : ∀ n z, N z → l.length - l.idxOf z ≤ n → ∃ i, (N i ∧ ¬ ∃ u', E u' i) ∧ ReflTransGen E i z := by
    intro n
    induction n with
    | zero =>
      intro z hz hidx
      have := List.idxOf_lt_length_of_mem ((hmem z).2 hz)
      omega
    | succ n ih =>
      intro z hz hidx
      by_cases hi : ∃ u', E u' z
      · obtain ⟨u', hu'⟩ := hi
        have hlt := before_idx hnd (hord u' z hu')
        have hul := List.idxOf_lt_length_of_mem ((hmem u').2 (hE u' z hu').1)
        obtain ⟨i, hi', hp⟩ := ih u' (hE u' z hu').1 (by omega)
        exact ⟨i, hi', ReflTransGen.tail hp hu'⟩
      · exact ⟨z, ⟨hz, hi⟩, ReflTransGen.refl⟩
  exact ⟨fun z hz => down (l.idxOf z) z hz (Nat.le_refl _), fun z hz => up (l.length - l.idxOf z) z hz (Nat.le_refl _)⟩

/-! ### One graft, on the representation -/

/-- the edges of the grafted graph are `graftE` when the grafted node does not depend on itself -/
theorem graft_edge_eq {g sub g' : G} {x : Nat} (hxx : ¬ g.Edge x x)
    (e : ∀ u w, g'.Edge u w ↔ (g.Edge u w ∧ u ≠ x ∧ w ≠ x) ∨ sub.Edge u w ∨ Added g sub x u w) :
    g'.Edge = graftE g.Edge sub.Node sub.Edge x := by
  funext u w
  refine propext ((e u w).trans ?_)
  have hw : ∀ w', g.Edge x w' → w' ≠ x := fun w' h e => hxx (e ▸ h)
  have hu : ∀ u', g.Edge u' x → u' ≠ x := fun u' h e => hxx (e ▸ h)
  unfold Added G.Terminal G.Initial graftE
  constructor
  · rintro (h | h | ⟨h1, h2, _⟩ | ⟨⟨h1, _⟩, h2⟩ | ⟨h0, ⟨h1, _⟩, h2, _⟩)
    · exact Or.inl h
    · exact Or.inr (Or.inl h)
    · exact Or.inr (Or.inr (Or.inl ⟨h1, h2⟩))
    · exact Or.inr (Or.inr (Or.inr (Or.inl ⟨h1, h2⟩)))
    · exact Or.inr (Or.inr (Or.inr (Or.inr ⟨h0, h1, h2⟩)))
  · rintro (h | h | ⟨h1, h2⟩ | ⟨h1, h2⟩ | ⟨h0, h1, h2⟩)
    · exact Or.inl h
    · exact Or.inr (Or.inl h)
    · exact Or.inr (Or.inr (Or.inl ⟨h1, h2, hw w h2⟩))
    · exact Or.inr (Or.inr (Or.inr (Or.inl ⟨⟨h1, hu u h1⟩, h2⟩)))
    · exact Or.inr (Or.inr (Or.inr (Or.inr ⟨h0, ⟨h1, hu u h1⟩, h2, hw w h2⟩)))

/-- the ordering constraints of the grafted graph `g'`, read in the two graphs it was made of: between two old nodes,
from an old node to a node of the nested graph, the other way round, and between two nodes of the nested graph -/
structure GraftOrd (g sub : G) (x : Nat) (g' : G) : Prop where
  oo : ∀ u w, g.Node u → u ≠ x → g.Node w → w ≠ x → (TransGen g'.Edge u w ↔ TransGen g.Edge u w)
  oi : ∀ u w, g.Node u → u ≠ x → sub.Node w → (TransGen g'.Edge u w ↔ TransGen g.Edge u x)
  io : ∀ u w, sub.Node u → g.Node w → w ≠ x → (TransGen g'.Edge u w ↔ TransGen g.Edge x w)
  ii : ∀ u w, sub.Node u → sub.Node w → (TransGen g'.Edge u w ↔ TransGen sub.Edge u w)

/-- **one graft of an acyclic graph with fresh nodes into an acyclic graph**: it returns a well-formed acyclic graph,
whose nodes are the old ones but `x` and those of the nested graph, with the same ordering constraints between the old
nodes; the nodes of the nested graph are ordered between themselves as they were in it, and with respect to the old nodes
as `x` was -/
theorem graft_step {g sub : G} (hg : GInv g) (hs : GInv sub) {x : Nat} (hx : g.Node x)
    (hdisj : ∀ z, sub.Node z → ¬ g.Node z) (hac : ¬ g.Cyclic) (hsac : ¬ sub.Cyclic) :
    ∃ g', g.graft x sub = .ok g' ∧ GInv g' ∧ ¬ g'.Cyclic ∧
      (∀ z, g'.Node z ↔ (g.Node z ∧ z ≠ x) ∨ sub.Node z) ∧ GraftOrd g sub x g' := by
  have hxx : ¬ g.Edge x x := fun e => hac ⟨x, TransGen.single e⟩
  obtain ⟨g', hgr, hi, hn, he⟩ := graft_refines hg hs hx
  have eE := graft_edge_eq hxx he
  have hEs : ∀ u w, g.Edge u w → g.Node u ∧ g.Node w := fun u w h => edge_nodes h
  have hEt : ∀ u w, sub.Edge u w → sub.Node u ∧ sub.Node w := fun u w h => edge_nodes h
  have hs' : ∀ a, ¬ TransGen g.Edge a a := fun a h => hac ⟨a, h⟩
  obtain ⟨l, hl⟩ := topologicalSort_acyclic hs hsac
  obtain ⟨lnd, lmem, lord⟩ := topologicalSort_sound hs hl
  obtain ⟨hdown, hup⟩ := reach_term_init l lnd lmem hEt lord
  refine ⟨g', hgr, hi, ?_, graft_nodes hg hs hx hxx hgr, ?_, ?_, ?_, ?_⟩
  · rintro ⟨a, hc⟩
    rw [eE] at hc
    exact graft_acyclic hEs hEt hdisj hs' (fun a h => hsac ⟨a, h⟩) a hc
  · intro u w hu hux hw hwx
    rw [eE]
    constructor
    · exact graft_order_sound hEs hEt hdisj hxx hu hux hw
    · exact graft_order_complete hxx (exists_init_term l lnd lmem hEt lord) hux hwx
  · intro u w hu hux hw
    rw [eE]
    exact graft_order_into hEs hEt hdisj hxx hdown hup hu hux hw
  · intro u w hu hw hwx
    rw [eE]
    exact graft_order_outof hEs hEt hdisj hxx hdown hup hu hw hwx
  · intro u w hu hw
    rw [eE]
    exact graft_order_inside hEs hEt hdisj hs' hu hw

/-! ### The nesting is a tree of acyclic graphs -/

/-- every nested graph is acyclic, and its nodes are owned by the nested node it stands for: the node sets of the
nested graphs are pairwise disjoint -/
structure TreeStore (store : Nat → Option G) (own : Nat → Option Nat) : Prop where
  acyclic : ∀ x sub, nestedBase ≤ x → store (x - nestedBase) = some sub → ¬ sub.Cyclic
  owned : ∀ x sub, nestedBase ≤ x → store (x - nestedBase) = some sub → ∀ z, sub.Node z → own z = some x

/-- the invariant of the sequence of grafts: `D` lists the nested nodes grafted so far, `g0` is the graph at the start,
`h` the graph now -/
structure FInv (own : Nat → Option Nat) (g0 : G) (D : List Nat) (h : G) : Prop where
  ginv : GInv h
  acyc : ¬ h.Cyclic
  nodeOwn : ∀ z, h.Node z → own z = none ∨ ∃ d, d ∈ D ∧ own z = some d
  nodeNotD : ∀ z, h.Node z → z ∉ D
  dOwn : ∀ d, d ∈ D → own d = none ∨ ∃ d', d' ∈ D ∧ own d = some d'
  keep : ∀ u, g0.Node u → u < nestedBase → h.Node u
  order : ∀ u w, g0.Node u → u < nestedBase → g0.Node w → w < nestedBase →
    (TransGen h.Edge u w ↔ TransGen g0.Edge u w)

theorem FInv.init {own : Nat → Option Nat} {g : G} (hg : GInv g) (hac : ¬ g.Cyclic)
    (hroot : ∀ z, g.Node z → own z = none) : FInv own g [] g :=
  ⟨hg, hac, fun z hz => Or.inl (hroot z hz), fun z _ h => (by cases h), fun d h => (by cases h),
    fun u hu _ => hu, fun u w _ _ _ _ => Iff.rfl⟩

/-- the invariant is kept by the graft of a nested node of the current graph -/
theorem FInv.graft {store : Nat → Option G} {rk : Nat → Nat} {own : Nat → Option Nat} (hst : RankedStore store rk)
    (hts : TreeStore store own) {g0 h : G} {D : List Nat} (hI : FInv own g0 D h) {x : Nat} (hx : h.Node x)
    (hxb : nestedBase ≤ x) :
    ∃ sub h', store (x - nestedBase) = some sub ∧ graftNested store h x = .ok h' ∧ FInv own g0 (x :: D) h' ∧
      (∀ z, h'.Node z ↔ (h.Node z ∧ z ≠ x) ∨ sub.Node z) ∧ (∀ z, sub.Node z → nestedBase ≤ z → rk z < rk x) ∧
      GraftOrd h sub x h' := by
  obtain ⟨sub, hsub, hsinv, hsrank⟩ := hst x hxb
  have hown := hts.owned x sub hxb hsub
  have hxD : x ∉ D := hI.nodeNotD x hx
  -- nothing owned by `x` is around yet
  have hfresh : ∀ z, own z = some x → (own z = none ∨ ∃ d, d ∈ D ∧ own z = some d) → False := by
    intro z hz h
    rcases h with h | ⟨d, hd, h⟩
    · rw [hz] at h; cases h
    · rw [hz] at h; cases h; exact hxD hd
  have hdisj : ∀ z, sub.Node z → ¬ h.Node z := fun z hz hzh => hfresh z (hown z hz) (hI.nodeOwn z hzh)
  obtain ⟨h', hgr, hi, hac', hn, hord⟩ := graft_step hI.ginv hsinv hx hdisj hI.acyc (hts.acyclic x sub hxb hsub)
  refine ⟨sub, h', hsub, ?_, ?_, hn, hsrank, hord⟩
  · unfold graftNested; rw [hsub]; exact hgr
  have hplain : ∀ u, u < nestedBase → u ≠ x := fun u hu => by omega
  refine ⟨hi, hac', ?_, ?_, ?_, ?_, ?_⟩
  · intro z hz
    rcases (hn z).1 hz with ⟨hzh, _⟩ | hzs
    · rcases hI.nodeOwn z hzh with h | ⟨d, hd, h⟩
      · exact Or.inl h
      · exact Or.inr ⟨d, List.mem_cons_of_mem _ hd, h⟩
    · exact Or.inr ⟨x, List.mem_cons_self, hown z hzs⟩
  · intro z hz hm
    rcases (hn z).1 hz with ⟨hzh, hne⟩ | hzs
    · rcases List.mem_cons.1 hm with e | hm'
      · exact hne e
      · exact hI.nodeNotD z hzh hm'
    · rcases List.mem_cons.1 hm with e | hm'
      · exact hfresh x (e ▸ hown z hzs) (hI.nodeOwn x hx)
      · exact hfresh z (hown z hzs) (hI.dOwn z hm')
  · intro d hd
    have lift : (own d = none ∨ ∃ d', d' ∈ D ∧ own d = some d') →
        own d = none ∨ ∃ d', d' ∈ x :: D ∧ own d = some d' := by
      rintro (h | ⟨d', hd', h⟩)
      · exact Or.inl h
      · exact Or.inr ⟨d', List.mem_cons_of_mem _ hd', h⟩
    rcases List.mem_cons.1 hd with e | hd'
    · exact lift (e ▸ hI.nodeOwn x hx)
    · exact lift (hI.dOwn d hd')
  · intro u hu hub
    exact (hn u).2 (Or.inl ⟨hI.keep u hu hub, hplain u hub⟩)
  · intro u w hu hub hw hwb
    exact (hord.oo u w (hI.keep u hu hub) (hplain u hub) (hI.keep w hw hwb) (hplain w hwb)).trans
      (hI.order u w hu hub hw hwb)

/-! ### One round, and all the rounds (for any invariant of the grafts) -/

/-- what an invariant `I D h` of the sequence of grafts (`D` the nested nodes grafted so far, `h` the graph now) has to
provide: the graft of a nested node of the current graph returns and keeps it, the nodes of the new graph are the old ones
but `x` and those of a graph whose nested nodes have a smaller rank than `x` -/
def GraftInv (store : Nat → Option G) (rk : Nat → Nat) (I : List Nat → G → Prop) : Prop :=
  ∀ D h x, I D h → h.Node x → nestedBase ≤ x →
    ∃ sub h' : G, graftNested store h x = .ok h' ∧ I (x :: D) h' ∧
      (∀ z, h'.Node z ↔ (h.Node z ∧ z ≠ x) ∨ sub.Node z) ∧ (∀ z, sub.Node z → nestedBase ≤ z → rk z < rk x)

/-- one round of grafts keeps the invariant (and brings the ranks of the nested nodes down, as in
`graft_round_ranked`) -/
theorem graft_round_inv {store : Nat → Option G} {rk : Nat → Nat} {I : List Nat → G → Prop}
    (hstep : GraftInv store rk I) (R : Nat) :
    ∀ (l : List Nat) (h : G) (D : List Nat), I D h → l.Nodup →
      (∀ x ∈ l, h.Node x ∧ nestedBase ≤ x ∧ rk x < R + 1) →
      (∀ z, h.Node z → nestedBase ≤ z → z ∈ l ∨ rk z < R) →
      ∃ h' D', l.foldlM (graftNested store) h = .ok h' ∧ I D' h' ∧
        ∀ z, h'.Node z → nestedBase ≤ z → rk z < R := by
  unfold GraftInv at hstep
  intro l
  induction l with
  | nil =>
    intro h D hI _ _ hnest
    refine ⟨h, D, rfl, hI, ?_⟩
    intro z hz hb
    rcases hnest z hz hb with h | h
    · cases h
    · exact h
  | cons x xs ih =>
    intro h D hI hnd hl hnest
    obtain ⟨hxn, hxb, hxr⟩ := hl x (by simp)
    obtain ⟨sub, h2, step, hI2, n, hsrank⟩ := hstep D h x hI hxn hxb
    have hnd' := List.nodup_cons.1 hnd
    rw [List.foldlM_cons, step]
    show ∃ h' D', xs.foldlM (graftNested store) h2 = .ok h' ∧ _
    apply ih h2 (x :: D) hI2 hnd'.2
    · intro y hy
      have hne : y ≠ x := fun e => hnd'.1 (e ▸ hy)
      obtain ⟨hyn, hyb, hyr⟩ := hl y (by simp [hy])
      exact ⟨(n y).2 (Or.inl ⟨hyn, hne⟩), hyb, hyr⟩
    · intro z hz hbase
      rcases (n z).1 hz with ⟨hzg, hne⟩ | hzs
      · rcases hnest z hzg hbase with h | h
        · rcases List.mem_cons.1 h with e | h'
          · exact absurd e hne
          · exact Or.inl h'
        · exact Or.inr h
      · have := hsrank z hzs hbase
        exact Or.inr (by omega)

/-- all the rounds keep the invariant, and end on a graph of plain nodes -/
theorem flatten_inv {store : Nat → Option G} {rk : Nat → Nat} {I : List Nat → G → Prop}
    (hstep : GraftInv store rk I) (hnodup : ∀ D h, I D h → h.nodes.seq.Nodup) :
    ∀ (R : Nat) (h : G) (D : List Nat), I D h → (∀ z, h.Node z → nestedBase ≤ z → rk z < R) →
      ∃ h' D', flattenLoop store true (R + 1) h = .ok h' ∧ I D' h' ∧ ∀ z, h'.Node z → z < nestedBase := by
  intro R
  induction R with
  | zero =>
    intro h D hI hr
    rw [flattenLoop]
    have he : (h.nodes.seq.filter (· ≥ nestedBase)).isEmpty = true := by
      rw [List.isEmpty_iff]
      apply List.filter_eq_nil_iff.2
      intro z hz
      simp only [ge_iff_le, decide_eq_true_eq]
      intro hb
      exact absurd (hr z hz hb) (by omega)
    simp only [he, if_true]
    refine ⟨h, D, rfl, hI, ?_⟩
    intro z hz
    by_cases hb : nestedBase ≤ z
    · exact absurd (hr z hz hb) (by omega)
    · omega
  | succ R ih =>
    intro h D hI hr
    rw [flattenLoop]
    by_cases hemp : (h.nodes.seq.filter (· ≥ nestedBase)).isEmpty = true
    · simp only [hemp, if_true]
      refine ⟨h, D, rfl, hI, ?_⟩
      intro z hz
      by_cases hb : nestedBase ≤ z
      · have : z ∈ h.nodes.seq.filter (· ≥ nestedBase) := List.mem_filter.2 ⟨hz, by simpa using hb⟩
        have he : h.nodes.seq.filter (· ≥ nestedBase) = [] := by simpa using hemp
        rw [he] at this; cases this
      · omega
    · simp only [hemp, Bool.false_eq_true, if_false, bind, Except.bind]
      obtain ⟨h1, D1, hf, hI1, hrank⟩ := graft_round_inv hstep R (h.nodes.seq.filter (· ≥ nestedBase)) h D hI
        ((hnodup D h hI).filter _)
        (fun x hx => by
          have hm := List.mem_filter.1 hx
          have hb : nestedBase ≤ x := by simpa using hm.2
          exact ⟨hm.1, hb, hr x hm.1 hb⟩)
        (fun z hz hb => Or.inl (List.mem_filter.2 ⟨hz, by simpa using hb⟩))
      rw [hf]
      simp only [if_true]
      exact ih h1 D1 hI1 hrank

theorem FInv.graftInv {store : Nat → Option G} {rk : Nat → Nat} {own : Nat → Option Nat}
    (hst : RankedStore store rk) (hts : TreeStore store own) (g0 : G) : GraftInv store rk (FInv own g0) := by
  unfold GraftInv
  intro D h x hI hx hxb
  obtain ⟨sub, h', _, step, hI', n, hsrank, _⟩ := FInv.graft hst hts hI hx hxb
  exact ⟨sub, h', step, hI', n, hsrank⟩

/-- **`flatten(recurse=True)` over all the levels of a tree of acyclic graphs preserves the ordering constraints between
the plain nodes of the outer graph**: with the nested graphs ranked (`RankedStore`: a nested graph only holds nested
graphs of smaller rank), acyclic and owned (`TreeStore`: the node sets of the outer graph and of the nested graphs are
pairwise disjoint, no graph stands at two places), an acyclic outer graph `g` whose nested nodes have rank below `R` is
flattened within `R + 1` rounds into a well-formed acyclic graph of plain nodes, in which every plain node of `g` is
still a node and has to come after another one exactly when it had to in `g`.  The hypotheses are on `g` and on the
store only. -/
theorem flatten_preserves_order (store : Nat → Option G) (rk : Nat → Nat) (own : Nat → Option Nat)
    (hst : RankedStore store rk) (hts : TreeStore store own) (R : Nat) (g : G) (hg : GInv g) (hac : ¬ g.Cyclic)
    (hr : ∀ z, g.Node z → nestedBase ≤ z → rk z < R) (hroot : ∀ z, g.Node z → own z = none) :
    ∃ g', flattenLoop store true (R + 1) g = .ok g' ∧ GInv g' ∧ ¬ g'.Cyclic ∧ (∀ z, g'.Node z → z < nestedBase) ∧
      ∀ u w, g.Node u → u < nestedBase → g.Node w → w < nestedBase →
        (g'.Node u ∧ g'.Node w ∧ (TransGen g'.Edge u w ↔ TransGen g.Edge u w)) := by
  obtain ⟨g', D', hf, hI, hp⟩ := flatten_inv (FInv.graftInv hst hts g) (fun D h hI => hI.ginv.nodup) R g []
    (FInv.init hg hac hroot) hr
  exact ⟨g', hf, hI.ginv, hI.acyc, hp, fun u w hu hub hw hwb =>
    ⟨hI.keep u hu hub, hI.keep w hw hwb, hI.order u w hu hub hw hwb⟩⟩

/-! ### The natural order of the nesting -/

/-- `a` is `u`, or one of the nested nodes `u` lies in (at any depth) -/
def Anc (own : Nat → Option Nat) : Nat → Nat → Prop := ReflTransGen (fun a u => own u = some a)

/-- `a` has to come after `b` in one of the graphs of the nesting (the outer graph, or a graph of the store) -/
def InOrd (store : Nat → Option G) (g : G) (a b : Nat) : Prop :=
  TransGen g.Edge a b ∨ ∃ x sub, nestedBase ≤ x ∧ store (x - nestedBase) = some sub ∧ TransGen sub.Edge a b

/-- the natural order of the nesting: `u` has to come after `w` when, in some graph of the nesting, a node that is or
holds `u` has to come after a node that is or holds `w` -/
def NOrd (store : Nat → Option G) (own : Nat → Option Nat) (g : G) (u w : Nat) : Prop :=
  ∃ a b, Anc own a u ∧ Anc own b w ∧ InOrd store g a b

/-- the nodes of the nesting: those of the outer graph, and those of the graphs nested at such nodes -/
inductive InNesting (store : Nat → Option G) (g : G) : Nat → Prop
  | root {z : Nat} : g.Node z → InNesting store g z
  | step {x z : Nat} {sub : G} : InNesting store g x → nestedBase ≤ x → store (x - nestedBase) = some sub → sub.Node z →
      InNesting store g z

theorem transGen_nodes {g : G} {a b : Nat} (h : TransGen g.Edge a b) : g.Node a ∧ g.Node b := by
  obtain ⟨c, hac, _⟩ := TransGen.head'_iff.1 h
  obtain ⟨d, _, hdb⟩ := TransGen.tail'_iff.1 h
  exact ⟨(edge_nodes hac).1, (edge_nodes hdb).2⟩

section
variable {store : Nat → Option G} {own : Nat → Option Nat} {g : G}

theorem inOrd_own (hroot : ∀ z, g.Node z → own z = none) (hts : TreeStore store own) {a b : Nat}
    (h : InOrd store g a b) : own a = own b := by
  rcases h with h | ⟨x, sub, hxb, hsub, h⟩
  · rw [hroot a (transGen_nodes h).1, hroot b (transGen_nodes h).2]
  · rw [hts.owned x sub hxb hsub a (transGen_nodes h).1, hts.owned x sub hxb hsub b (transGen_nodes h).2]

theorem inOrd_ne (hac : ¬ g.Cyclic) (hts : TreeStore store own) {a b : Nat} (h : InOrd store g a b) : a ≠ b := by
  rintro rfl
  rcases h with h | ⟨x, sub, hxb, hsub, h⟩
  · exact hac ⟨a, h⟩
  · exact hts.acyclic x sub hxb hsub ⟨a, h⟩

theorem inOrd_sub (hroot : ∀ z, g.Node z → own z = none) (hts : TreeStore store own) {a b x : Nat} {sub : G}
    (h : InOrd store g a b) (hsub : store (x - nestedBase) = some sub) (ha : own a = some x) :
    TransGen sub.Edge a b := by
  rcases h with h | ⟨y, sub', hyb, hsub', h⟩
  · rw [hroot a (transGen_nodes h).1] at ha; cases ha
  · have := hts.owned y sub' hyb hsub' a (transGen_nodes h).1
    rw [ha] at this
    cases this
    rw [hsub] at hsub'
    cases hsub'
    exact h

theorem anc_step {w x b : Nat} (hw : own w = some x) (h : Anc own b w) : b = w ∨ Anc own b x := by
  rcases ReflTransGen.cases_tail h with e | ⟨c, hc, hcw⟩
  · exact Or.inl e.symm
  · have hcw' : own w = some c := hcw
    rw [hw] at hcw'
    cases hcw'
    exact Or.inr hc

theorem anc_none {u a : Nat} (hu : own u = none) (h : Anc own a u) : a = u := by
  rcases ReflTransGen.cases_tail h with e | ⟨c, _, hcu⟩
  · exact e.symm
  · have hcu' : own u = some c := hcu
    rw [hu] at hcu'; cases hcu'

theorem anc_tail {a c u : Nat} (h : Anc own a c) (hu : own u = some c) : Anc own a u :=
  ReflTransGen.tail h hu

/-- the nested nodes a node lies in form a chain -/
theorem anc_linear {a z : Nat} (ha : Anc own a z) : ∀ {b : Nat}, Anc own b z → Anc own a b ∨ Anc own b a := by
  induction ha with
  | refl => intro b hb; exact Or.inr hb
  | @tail c z hac hcz ih =>
    intro b hb
    rcases anc_step hcz hb with e | hbc
    · rw [e]; exact Or.inl (ReflTransGen.tail hac hcz)
    · exact ih hbc

/-- along a chain of owners within `L`, the rank goes up -/
theorem anc_rank {rk : Nat → Nat} {L : List Nat}
    (hL : ∀ c, c ∈ L → ∀ c', own c = some c' → c' ∈ L ∧ rk c < rk c') {a c : Nat} (hc : c ∈ L)
    (h : Anc own a c) : a = c ∨ (a ∈ L ∧ rk c < rk a) := by
  induction h using ReflTransGen.head_induction_on with
  | refl => exact Or.inl rfl
  | @head a c' hac' _ ih =>
    have hc'L : c' ∈ L ∧ (c' = c ∨ rk c < rk c') := by
      rcases ih with e | ⟨h1, h2⟩
      · exact ⟨e ▸ hc, Or.inl e⟩
      · exact ⟨h1, Or.inr h2⟩
    obtain ⟨haL, hlt⟩ := hL c' hc'L.1 a hac'
    refine Or.inr ⟨haL, ?_⟩
    rcases hc'L.2 with e | h2
    · rw [← e]; exact hlt
    · omega

/-- two different nodes of the same graph do not lie one in the other -/
theorem no_sibling_anc {rk : Nat → Nat} {L : List Nat}
    (hL : ∀ c, c ∈ L → ∀ c', own c = some c' → c' ∈ L ∧ rk c < rk c') {a b : Nat} (ha : a ∈ L) (hb : b ∈ L)
    (hab : Anc own a b) (hne : a ≠ b) (ho : own a = own b) : False := by
  rcases ReflTransGen.cases_tail hab with e | ⟨c, hac, hcb⟩
  · exact hne e.symm
  · have hcb' : own b = some c := hcb
    obtain ⟨hcL, hbc⟩ := hL b hb c hcb'
    have hac' : own a = some c := ho.trans hcb'
    obtain ⟨_, halt⟩ := hL a ha c hac'
    rcases anc_rank hL hcL hac with e | ⟨_, h2⟩
    · rw [e] at halt; omega
    · omega

variable (hroot : ∀ z, g.Node z → own z = none) (hts : TreeStore store own)
include hroot hts

/-- towards a node of the graph nested at `x`: as towards `x` -/
theorem nord_into {x u w : Nat} {sub : G} (hxb : nestedBase ≤ x) (hsub : store (x - nestedBase) = some sub)
    (hw : sub.Node w) (hxa : ∀ a, Anc own a u → own a ≠ some x) :
    NOrd store own g u w ↔ NOrd store own g u x := by
  have hwx := hts.owned x sub hxb hsub w hw
  constructor
  · rintro ⟨a, b, ha, hb, hab⟩
    rcases anc_step hwx hb with e | hbx
    · exact absurd ((inOrd_own hroot hts hab).trans (e ▸ hwx)) (hxa a ha)
    · exact ⟨a, b, ha, hbx, hab⟩
  · rintro ⟨a, b, ha, hb, hab⟩
    exact ⟨a, b, ha, anc_tail hb hwx, hab⟩

/-- from a node of the graph nested at `x`: as from `x` -/
theorem nord_outof {x u w : Nat} {sub : G} (hxb : nestedBase ≤ x) (hsub : store (x - nestedBase) = some sub)
    (hu : sub.Node u) (hxa : ∀ b, Anc own b w → own b ≠ some x) :
    NOrd store own g u w ↔ NOrd store own g x w := by
  have hux := hts.owned x sub hxb hsub u hu
  constructor
  · rintro ⟨a, b, ha, hb, hab⟩
    rcases anc_step hux ha with e | hax
    · exact absurd ((inOrd_own hroot hts hab).symm.trans (e ▸ hux)) (hxa b hb)
    · exact ⟨a, b, hax, hb, hab⟩
  · rintro ⟨a, b, ha, hb, hab⟩
    exact ⟨a, b, anc_tail ha hux, hb, hab⟩

/-- between two nodes of the graph nested at `x`: as in that graph -/
theorem nord_inside {x u w : Nat} {sub : G} (hxb : nestedBase ≤ x) (hsub : store (x - nestedBase) = some sub)
    (hu : sub.Node u) (hw : sub.Node w) (hxa : ∀ a, Anc own a x → own a ≠ some x)
    (hsib : ∀ a b, Anc own a x → Anc own b x → ¬ InOrd store g a b) :
    NOrd store own g u w ↔ TransGen sub.Edge u w := by
  have hux := hts.owned x sub hxb hsub u hu
  have hwx := hts.owned x sub hxb hsub w hw
  constructor
  · rintro ⟨a, b, ha, hb, hab⟩
    rcases anc_step hux ha with ea | hax
    · rcases anc_step hwx hb with eb | hbx
      · subst ea eb
        exact inOrd_sub hroot hts hab hsub hux
      · exact absurd ((inOrd_own hroot hts hab).symm.trans (ea ▸ hux)) (hxa b hbx)
    · rcases anc_step hwx hb with eb | hbx
      · exact absurd ((inOrd_own hroot hts hab).trans (eb ▸ hwx)) (hxa a hax)
      · exact absurd hab (hsib a b hax hbx)
  · intro h
    exact ⟨u, w, ReflTransGen.refl, ReflTransGen.refl, Or.inr ⟨x, sub, hxb, hsub, h⟩⟩

end

/-! ### The invariant for all the nodes, and the full statement -/

/-- between nodes of the outer graph, the natural order is the order of the outer graph -/
theorem nord_outer {store : Nat → Option G} {own : Nat → Option Nat} {g : G} (hroot : ∀ z, g.Node z → own z = none)
    (hts : TreeStore store own) {u w : Nat} (hu : g.Node u) (hw : g.Node w) :
    NOrd store own g u w ↔ TransGen g.Edge u w := by
  constructor
  · rintro ⟨a, b, ha, hb, hab⟩
    have ea := anc_none (hroot u hu) ha
    have eb := anc_none (hroot w hw) hb
    subst ea eb
    rcases hab with h | ⟨x, sub, hxb, hsub, h⟩
    · exact h
    · have := hts.owned x sub hxb hsub a (transGen_nodes h).1
      rw [hroot a hu] at this; cases this
  · intro h
    exact ⟨u, w, ReflTransGen.refl, ReflTransGen.refl, Or.inl h⟩

/-- the owners of a node of the current graph, at any depth, have been grafted -/
theorem anc_closed {own : Nat → Option Nat} {D : List Nat}
    (hD : ∀ d, d ∈ D → own d = none ∨ ∃ d', d' ∈ D ∧ own d = some d') {z a : Nat}
    (hz : own z = none ∨ ∃ d, d ∈ D ∧ own z = some d) (h : Anc own a z) : a = z ∨ a ∈ D := by
  induction h using ReflTransGen.head_induction_on with
  | refl => exact Or.inl rfl
  | @head a c hac _ ih =>
    have hc : own c = none ∨ ∃ d, d ∈ D ∧ own c = some d := by
      rcases ih with e | hcD
      · rw [e]; exact hz
      · exact hD c hcD
    have hac' : own c = some a := hac
    rcases hc with h0 | ⟨d, hd, h1⟩
    · rw [h0] at hac'; cases hac'
    · rw [h1] at hac'; cases hac'; exact Or.inr hd

/-- nothing that `x` owns is around before `x` is grafted -/
theorem FInv.fresh {own : Nat → Option Nat} {g0 h : G} {D : List Nat} (hI : FInv own g0 D h) {x : Nat}
    (hx : h.Node x) {z : Nat} (hz : own z = some x) : ¬ h.Node z ∧ z ∉ D := by
  have hxD : x ∉ D := hI.nodeNotD x hx
  have key : (own z = none ∨ ∃ d, d ∈ D ∧ own z = some d) → False := by
    rintro (h | ⟨d, hd, h⟩)
    · rw [hz] at h; cases h
    · rw [hz] at h; cases h; exact hxD hd
  exact ⟨fun hzh => key (hI.nodeOwn z hzh), fun hzD => key (hI.dOwn z hzD)⟩

/-- the invariant of the sequence of grafts, for all the nodes: on top of `FInv`, the ranks go up along the owners, the
ordering constraints of the current graph are the natural order of the nesting, the nodes are nodes of the nesting, and
every node of a graph that has been opened is there or has been grafted in its turn -/
structure FullInv (store : Nat → Option G) (rk : Nat → Nat) (own : Nat → Option Nat) (g0 : G) (D : List Nat) (h : G) :
    Prop where
  base : FInv own g0 D h
  nodeRk : ∀ z d, h.Node z → nestedBase ≤ z → own z = some d → rk z < rk d
  dNested : ∀ d, d ∈ D → nestedBase ≤ d
  dRk : ∀ d d', d ∈ D → own d = some d' → rk d < rk d'
  full : ∀ u w, h.Node u → h.Node w → (TransGen h.Edge u w ↔ NOrd store own g0 u w)
  reach : ∀ z, h.Node z → InNesting store g0 z
  cov0 : ∀ z, g0.Node z → z ∈ D ∨ h.Node z
  covD : ∀ d sub z, d ∈ D → store (d - nestedBase) = some sub → sub.Node z → z ∈ D ∨ h.Node z

theorem FullInv.init {store : Nat → Option G} {rk : Nat → Nat} {own : Nat → Option Nat} {g : G} (hts : TreeStore store own)
    (hg : GInv g) (hac : ¬ g.Cyclic) (hroot : ∀ z, g.Node z → own z = none) : FullInv store rk own g [] g where
  base := FInv.init hg hac hroot
  nodeRk := fun z d hz _ hd => by rw [hroot z hz] at hd; cases hd
  dNested := fun d hd => by cases hd
  dRk := fun d d' hd => by cases hd
  full := fun u w hu hw => (nord_outer hroot hts hu hw).symm
  reach := fun z hz => InNesting.root hz
  cov0 := fun z hz => Or.inr hz
  covD := fun d sub z hd => by cases hd

/-- the full invariant is kept by the graft of a nested node of the current graph -/
theorem FullInv.graft {store : Nat → Option G} {rk : Nat → Nat} {own : Nat → Option Nat} (hst : RankedStore store rk)
    (hts : TreeStore store own) {g0 : G} (hroot : ∀ z, g0.Node z → own z = none) (hac0 : ¬ g0.Cyclic) {h : G}
    {D : List Nat} (hI : FullInv store rk own g0 D h) {x : Nat} (hx : h.Node x) (hxb : nestedBase ≤ x) :
    ∃ sub h' : G, graftNested store h x = .ok h' ∧ FullInv store rk own g0 (x :: D) h' ∧
      (∀ z, h'.Node z ↔ (h.Node z ∧ z ≠ x) ∨ sub.Node z) ∧ (∀ z, sub.Node z → nestedBase ≤ z → rk z < rk x) := by
  obtain ⟨sub, h', hsub, step, hB, hn, hsrank, hord⟩ := FInv.graft hst hts hI.base hx hxb
  refine ⟨sub, h', step, ?_, hn, hsrank⟩
  have hown := hts.owned x sub hxb hsub
  -- the owners of the grafted nodes are grafted nodes of higher rank
  have hL : ∀ c, c ∈ x :: D → ∀ c', own c = some c' → c' ∈ x :: D ∧ rk c < rk c' := by
    intro c hc c' hcc'
    rcases List.mem_cons.1 hc with e | hcD
    · subst e
      rcases hI.base.nodeOwn c hx with h0 | ⟨d, hd, h1⟩
      · rw [h0] at hcc'; cases hcc'
      · have h2 := h1
        rw [hcc'] at h2; cases h2
        exact ⟨List.mem_cons_of_mem _ hd, hI.nodeRk c c' hx hxb h1⟩
    · rcases hI.base.dOwn c hcD with h0 | ⟨d, hd, h1⟩
      · rw [h0] at hcc'; cases hcc'
      · have h2 := h1
        rw [hcc'] at h2; cases h2
        exact ⟨List.mem_cons_of_mem _ hd, hI.dRk c c' hcD h1⟩
  -- no node of the current graph lies in something owned by `x`
  have hanc : ∀ z, h.Node z → ∀ a, Anc own a z → own a ≠ some x := by
    intro z hz a ha hax
    rcases anc_closed hI.base.dOwn (hI.base.nodeOwn z hz) ha with e | haD
    · exact (hI.base.fresh hx hax).1 (e ▸ hz)
    · exact (hI.base.fresh hx hax).2 haD
  -- two nodes in which `x` lies are not ordered in a graph of the nesting
  have hsib : ∀ a b, Anc own a x → Anc own b x → ¬ InOrd store g0 a b := by
    intro a b ha hb hab
    have hmem : ∀ c, Anc own c x → c ∈ x :: D := by
      intro c hc
      rcases anc_rank hL List.mem_cons_self hc with e | ⟨h1, _⟩
      · rw [e]; exact List.mem_cons_self
      · exact h1
    have ho := inOrd_own hroot hts hab
    have hne := inOrd_ne hac0 hts hab
    rcases anc_linear ha hb with h1 | h1
    · exact no_sibling_anc hL (hmem a ha) (hmem b hb) h1 hne ho
    · exact no_sibling_anc hL (hmem b hb) (hmem a ha) h1 (Ne.symm hne) ho.symm
  have cov : ∀ z, z ∈ D ∨ h.Node z → z ∈ x :: D ∨ h'.Node z := by
    rintro z (hz | hz)
    · exact Or.inl (List.mem_cons_of_mem _ hz)
    · by_cases e : z = x
      · exact Or.inl (e ▸ List.mem_cons_self)
      · exact Or.inr ((hn z).2 (Or.inl ⟨hz, e⟩))
  refine ⟨hB, ?_, ?_, ?_, ?_, ?_, ?_, ?_⟩
  · intro z d hz hzb hd
    rcases (hn z).1 hz with ⟨hz0, _⟩ | hzs
    · exact hI.nodeRk z d hz0 hzb hd
    · rw [hown z hzs] at hd; cases hd
      exact hsrank z hzs hzb
  · intro d hd
    rcases List.mem_cons.1 hd with e | hd'
    · rw [e]; exact hxb
    · exact hI.dNested d hd'
  · intro d d' hd hdd'
    exact (hL d hd d' hdd').2
  · intro u w hu hw
    rcases (hn u).1 hu with ⟨hu0, hux⟩ | hus <;> rcases (hn w).1 hw with ⟨hw0, hwx⟩ | hws
    · exact (hord.oo u w hu0 hux hw0 hwx).trans (hI.full u w hu0 hw0)
    · exact (hord.oi u w hu0 hux hws).trans
        ((hI.full u x hu0 hx).trans (nord_into hroot hts hxb hsub hws (hanc u hu0)).symm)
    · exact (hord.io u w hus hw0 hwx).trans
        ((hI.full x w hx hw0).trans (nord_outof hroot hts hxb hsub hus (hanc w hw0)).symm)
    · exact (hord.ii u w hus hws).trans (nord_inside hroot hts hxb hsub hus hws (hanc x hx) hsib).symm
  · intro z hz
    rcases (hn z).1 hz with ⟨hz0, _⟩ | hzs
    · exact hI.reach z hz0
    · exact InNesting.step (hI.reach x hx) hxb hsub hzs
  · intro z hz
    exact cov z (hI.cov0 z hz)
  · intro d sub' z hd hsub' hz
    rcases List.mem_cons.1 hd with e | hd'
    · subst e
      rw [hsub] at hsub'; cases hsub'
      exact Or.inr ((hn z).2 (Or.inr hz))
    · exact cov z (hI.covD d sub' z hd' hsub' hz)

/-- **`flatten(recurse=True)` over all the levels of a tree of acyclic graphs returns the nesting laid flat, in its
natural order**: under the hypotheses of `flatten_preserves_order` (all on the outer graph `g` and on the store), the
result is a well-formed acyclic graph whose nodes are exactly the plain nodes of the nesting (`InNesting`: those of `g` and
of the graphs nested, at any depth, at nodes of `g`), and a node has to come after another one exactly when, in some
graph of the nesting, a node that is or holds the first has to come after a node that is or holds the second (`NOrd`) —
for all the nodes of the result, those that came out of nested graphs included. -/
theorem flatten_order_full (store : Nat → Option G) (rk : Nat → Nat) (own : Nat → Option Nat)
    (hst : RankedStore store rk) (hts : TreeStore store own) (R : Nat) (g : G) (hg : GInv g) (hac : ¬ g.Cyclic)
    (hr : ∀ z, g.Node z → nestedBase ≤ z → rk z < R) (hroot : ∀ z, g.Node z → own z = none) :
    ∃ g', flattenLoop store true (R + 1) g = .ok g' ∧ GInv g' ∧ ¬ g'.Cyclic ∧
      (∀ z, g'.Node z ↔ InNesting store g z ∧ z < nestedBase) ∧
      ∀ u w, g'.Node u → g'.Node w → (TransGen g'.Edge u w ↔ NOrd store own g u w) := by
  have hstep : GraftInv store rk (FullInv store rk own g) := by
    unfold GraftInv
    intro D h x hI hx hxb
    exact FullInv.graft hst hts hroot hac hI hx hxb
  obtain ⟨g', D', hf, hI, hp⟩ := flatten_inv hstep (fun D h hI => hI.base.ginv.nodup) R g []
    (FullInv.init hts hg hac hroot) hr
  refine ⟨g', hf, hI.base.ginv, hI.base.acyc, ?_, hI.full⟩
  have hcov : ∀ z, InNesting store g z → z ∈ D' ∨ g'.Node z := by
    intro z hz
    induction hz with
    | root hz => exact hI.cov0 _ hz
    | @step x z sub _ hxb hsub hz ih =>
      rcases ih with hxD | hxn
      · exact hI.covD x sub z hxD hsub hz
      · have := hp x hxn; omega
  intro z
  constructor
  · intro hz; exact ⟨hI.reach z hz, hp z hz⟩
  · rintro ⟨hz, hzb⟩
    rcases hcov z hz with hzD | hzn
    · have := hI.dNested z hzD; omega
    · exact hzn

/-! ### The hypotheses are satisfiable -/

/-- a graph whose edges all go down along a measure is acyclic -/
theorem acyclic_of_measure (g : G) (f : Nat → Nat) (h : ∀ u w, g.Edge u w → f w < f u) : ¬ g.Cyclic := by
  rintro ⟨a, hc⟩
  have key : ∀ b, TransGen g.Edge a b → f b < f a := by
    intro b hb
    induction hb with
    | single e => exact h _ _ e
    | tail _ e ih => exact Nat.lt_trans (h _ _ e) ih
  exact Nat.lt_irrefl _ (key a hc)

/-- a non-trivial instance: the outer graph `1 → N → 2` with `N = 100` a nested node that stands for the graph `3 → 4`
(every other variable of the store holds an empty graph); both theorems apply: `1` still has to come after `2` in the
flattened graph (`flatten_preserves_order`), and the nodes `3`, `4` of the nested graph are there, between `1` and `2`
(`flatten_order_full`) -/
example : ∃ (store : Nat → Option G) (g : G), g.Node 1 ∧ g.Node 100 ∧ g.Node 2 ∧
    ∃ g', flattenLoop store true 2 g = .ok g' ∧ (∀ z, g'.Node z → z < nestedBase) ∧ TransGen g'.Edge 1 2 ∧
      g'.Node 3 ∧ g'.Node 4 ∧ TransGen g'.Edge 1 3 ∧ TransGen g'.Edge 3 4 ∧ TransGen g'.Edge 4 2 ∧
      ¬ TransGen g'.Edge 4 3 := by
  have hb : nestedBase = 100 := rfl
  obtain ⟨sub, _, hsub, nsub, esub⟩ := addDep_refines GInv.empty 3 4
  obtain ⟨g1, _, hg1, n1, e1⟩ := addDep_refines GInv.empty 1 100
  obtain ⟨g, _, hg, n, e⟩ := addDep_refines hg1 100 2
  have nE : ∀ z, ¬ G.empty.Node z := by intro z hz; simp [G.Node, G.empty, RList.empty] at hz
  have eE : ∀ u w, ¬ G.empty.Edge u w := fun u w h => nE u (edge_nodes h).1
  have nsub' : ∀ z, sub.Node z ↔ z = 3 ∨ z = 4 := fun z => by
    rw [nsub z]; constructor
    · rintro (h | h); exact absurd h (nE z); exact h
    · exact Or.inr
  have esub' : ∀ u w, sub.Edge u w ↔ u = 3 ∧ w = 4 := fun u w => by
    rw [esub u w]; constructor
    · rintro (h | h); exact absurd h (eE u w); exact h
    · exact Or.inr
  have n' : ∀ z, g.Node z ↔ z = 1 ∨ z = 100 ∨ z = 2 := fun z => by
    rw [n z, n1 z]; constructor
    · rintro ((h | h | h) | h | h)
      · exact absurd h (nE z)
      · exact Or.inl h
      · exact Or.inr (Or.inl h)
      · exact Or.inr (Or.inl h)
      · exact Or.inr (Or.inr h)
    · rintro (h | h | h)
      · exact Or.inl (Or.inr (Or.inl h))
      · exact Or.inr (Or.inl h)
      · exact Or.inr (Or.inr h)
  have e' : ∀ u w, g.Edge u w ↔ (u = 1 ∧ w = 100) ∨ (u = 100 ∧ w = 2) := fun u w => by
    rw [e u w, e1 u w]; constructor
    · rintro ((h | h) | h)
      · exact absurd h (eE u w)
      · exact Or.inl h
      · exact Or.inr h
    · rintro (h | h)
      · exact Or.inl (Or.inr h)
      · exact Or.inr h
  let store : Nat → Option G := fun v => if v = 0 then some sub else some G.empty
  let own : Nat → Option Nat := fun z => if z = 3 ∨ z = 4 then some 100 else none
  have hst : RankedStore store (fun _ => 0) := by
    intro x hx
    by_cases h0 : x - nestedBase = 0
    · refine ⟨sub, by simp [store, h0], hsub, ?_⟩
      intro z hz hzb
      rcases (nsub' z).1 hz with h | h <;> omega
    · refine ⟨G.empty, by simp [store, h0], GInv.empty, ?_⟩
      intro z hz; exact absurd hz (nE z)
  have hts : TreeStore store own := by
    constructor
    · intro x s hx hs
      by_cases h0 : x - nestedBase = 0
      · simp only [store, h0, if_true, Option.some.injEq] at hs
        subst hs
        apply acyclic_of_measure sub (fun z => if z = 3 then 1 else 0)
        intro u w h
        obtain ⟨rfl, rfl⟩ := (esub' u w).1 h
        decide
      · simp only [store, h0, if_false, Option.some.injEq] at hs
        subst hs
        rintro ⟨a, hc⟩
        obtain ⟨c, hac, _⟩ := TransGen.head'_iff.1 hc
        exact eE a c hac
    · intro x s hx hs z hz
      by_cases h0 : x - nestedBase = 0
      · simp only [store, h0, if_true, Option.some.injEq] at hs
        subst hs
        have hx100 : x = 100 := by omega
        have := (nsub' z).1 hz
        simp only [own, this, if_true, hx100]
      · simp only [store, h0, if_false, Option.some.injEq] at hs
        subst hs
        exact absurd hz (nE z)
  have hac : ¬ g.Cyclic := by
    apply acyclic_of_measure g (fun z => if z = 1 then 2 else if z = 100 then 1 else 0)
    intro u w h
    rcases (e' u w).1 h with ⟨rfl, rfl⟩ | ⟨rfl, rfl⟩ <;> decide
  have hroot : ∀ z, g.Node z → own z = none := by
    intro z hz
    have : ¬ (z = 3 ∨ z = 4) := by rcases (n' z).1 hz with h | h | h <;> omega
    simp only [own, this, if_false]
  obtain ⟨g', hf, _, _, hp, hord⟩ := flatten_preserves_order store (fun _ => 0) own hst hts 1 g hg hac
    (fun _ _ _ => Nat.zero_lt_one) hroot
  obtain ⟨g'', hf', _, hac', hnodes, hfull⟩ := flatten_order_full store (fun _ => 0) own hst hts 1 g hg hac
    (fun _ _ _ => Nat.zero_lt_one) hroot
  rw [hf] at hf'
  cases hf'
  have hstore0 : store (100 - nestedBase) = some sub := by simp [store, hb]
  have h100 : g.Node 100 := (n' 100).2 (Or.inr (Or.inl rfl))
  have hn3 : g'.Node 3 := (hnodes 3).2 ⟨InNesting.step (InNesting.root h100) (by omega) hstore0 ((nsub' 3).2 (Or.inl rfl)),
    by omega⟩
  have hn4 : g'.Node 4 := (hnodes 4).2 ⟨InNesting.step (InNesting.root h100) (by omega) hstore0 ((nsub' 4).2 (Or.inr rfl)),
    by omega⟩
  have hn1 : g'.Node 1 := (hord 1 1 ((n' 1).2 (Or.inl rfl)) (by omega) ((n' 1).2 (Or.inl rfl)) (by omega)).1
  have hn2 : g'.Node 2 := (hord 2 2 ((n' 2).2 (Or.inr (Or.inr rfl))) (by omega) ((n' 2).2 (Or.inr (Or.inr rfl))) (by omega)).1
  have a3 : Anc own 100 3 := ReflTransGen.single (by simp [own])
  have a4 : Anc own 100 4 := ReflTransGen.single (by simp [own])
  have e34 : TransGen g'.Edge 3 4 := (hfull 3 4 hn3 hn4).2 ⟨3, 4, ReflTransGen.refl, ReflTransGen.refl,
    Or.inr ⟨100, sub, by omega, hstore0, TransGen.single ((esub' 3 4).2 ⟨rfl, rfl⟩)⟩⟩
  refine ⟨store, g, (n' 1).2 (Or.inl rfl), h100, (n' 2).2 (Or.inr (Or.inr rfl)),
    g', hf, hp, ?_, hn3, hn4, ?_, e34, ?_, ?_⟩
  · refine (hord 1 2 ((n' 1).2 (Or.inl rfl)) (by omega) ((n' 2).2 (Or.inr (Or.inr rfl))) (by omega)).2.2.2 ?_
    exact TransGen.tail (TransGen.single ((e' 1 100).2 (Or.inl ⟨rfl, rfl⟩))) ((e' 100 2).2 (Or.inr ⟨rfl, rfl⟩))
  · exact (hfull 1 3 hn1 hn3).2 ⟨1, 100, ReflTransGen.refl, a3,
      Or.inl (TransGen.single ((e' 1 100).2 (Or.inl ⟨rfl, rfl⟩)))⟩
  · exact (hfull 4 2 hn4 hn2).2 ⟨100, 2, a4, ReflTransGen.refl,
      Or.inl (TransGen.single ((e' 100 2).2 (Or.inr ⟨rfl, rfl⟩)))⟩
  · intro h43
    exact hac' ⟨3, TransGen.trans e34 h43⟩

#print axioms DG.flatten_preserves_order
#print axioms DG.flatten_order_full

end DG
