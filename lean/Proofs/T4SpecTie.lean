import Model.T4Spec
/-! Tie between the executable `convert` and the orientation step proved in Props/C10.lean, for a response with the
energy axis only (one block, no time / mu / phi key, no energy-integrated result). -/
set_option linter.unusedVariables false
namespace T4Spec
variable {α : Type} [Num α]

/-- the rows of a block pass the `-a` check: contiguous in the order printed -/
def RowsOK : List (Row α) → Prop
  | [] => True
  | [_] => True
  | a :: b :: rest => Num.beq b.lo a.hi = true ∧ RowsOK (b :: rest)

theorem rowsOK_adjacent (all : List (Row α)) (h : RowsOK all) (k : Nat) (hk : k + 1 < all.length) :
    Num.beq (all[k + 1]).lo (all[k]'(by omega)).hi = true := by
  induction all generalizing k with
  | nil => simp at hk
  | cons a rest ih =>
    cases rest with
    | nil => simp at hk
    | cons b r =>
      cases k with
      | zero => exact h.1
      | succ k => exact ih h.2 k (by simpa using hk)

/-- one row of the first block: the `-a` test passes, the index is in range -/
theorem fillRows_cons_first (b : B α) (all : List (Row α)) (ie : Nat) (r : Row α) (rs : List (Row α))
    (h1 : b.itime = 0) (h2 : b.imu = 0) (h3 : b.iphi = 0)
    (hgood : b.ebins.isEmpty = true ∨ (ie ≠ 0 ∧ Num.beq r.lo ((all.getD (ie - 1) r).hi) = true))
    (hidx : ie < b.ne ∧ 0 < b.nt ∧ 0 < b.nmu ∧ 0 < b.nphi) :
    fillRows b all ie (r :: rs) =
      fillRows { b with ebins := b.ebins ++ [r.lo], cells := ((ie, 0, 0, 0), r) :: b.cells } all (ie + 1) rs := by
  rw [fillRows]
  simp only [h1, h2, h3, beq_self_eq_true, Bool.and_self, Bool.true_and, if_true]
  have hbad : ((!b.ebins.isEmpty && !(Num.beq r.lo ((all.getD (ie - 1) r).hi)) && (ie != 0)) ||
      (!b.ebins.isEmpty && (ie == 0) && !(Num.beq r.lo ((all.getLastD r).hi)))) = false := by
    rcases hgood with hg | ⟨hg1, hg2⟩
    · simp [hg]
    · have hg2' : Num.beq r.lo (all[ie - 1]?.getD r).hi = true := by
        simpa [List.getD_eq_getElem?_getD] using hg2
      simp [hg1, hg2']
  rw [if_neg (by rw [hbad]; simp)]
  rw [if_pos (by simpa [h1, h2, h3] using hidx)]

/-- the builder after the rows `done` of the single block, fed the remaining rows -/
theorem fillRows_single (all : List (Row α)) (hok : RowsOK all) (done rest : List (Row α)) (hall : all = done ++ rest)
    (b : B α) (hb0 : b.itime = 0 ∧ b.imu = 0 ∧ b.iphi = 0) (hne : b.ne = all.length)
    (hnt : 0 < b.nt ∧ 0 < b.nmu ∧ 0 < b.nphi) (heb : b.ebins = done.map (·.lo)) :
    ∃ b', fillRows b all done.length rest = .ok b' ∧ b'.ebins = all.map (·.lo) ∧
      b'.cells = ((rest.zipIdx done.length).map fun p => ((p.2, 0, 0, 0), p.1)).reverse ++ b.cells ∧
      b'.integ = b.integ ∧ b'.tbins = b.tbins ∧ b'.mubins = b.mubins ∧ b'.phibins = b.phibins := by
  induction rest generalizing done b with
  | nil =>
    refine ⟨b, rfl, ?_, by simp, rfl, rfl, rfl, rfl⟩
    rw [heb, hall, List.append_nil]
  | cons r rs ih =>
    obtain ⟨h1, h2, h3⟩ := hb0
    have hlen : done.length < all.length := by rw [hall]; simp
    have hr : all[done.length]'hlen = r := by
      subst hall
      rw [List.getElem_append_right (Nat.le_refl _)]
      simp
    have hgood : b.ebins.isEmpty = true ∨ (done.length ≠ 0 ∧ Num.beq r.lo ((all.getD (done.length - 1) r).hi) = true) := by
      cases hd : done.length with
      | zero =>
        have : done = [] := List.eq_nil_of_length_eq_zero hd
        subst this
        left; rw [heb]; rfl
      | succ k =>
        right
        refine ⟨by omega, ?_⟩
        have hk : k + 1 < all.length := by omega
        have hadj := rowsOK_adjacent all hok k hk
        have e1 : all[k + 1]'hk = r := by
          have : all[k + 1]'hk = all[done.length]'hlen := by congr 1; exact hd.symm
          rw [this, hr]
        rw [e1] at hadj
        have e2 : all.getD (k + 1 - 1) r = all[k]'(by omega) := by
          simp [List.getD_eq_getElem?_getD, List.getElem?_eq_getElem (show k < all.length by omega)]
        rw [e2]; exact hadj
    rw [fillRows_cons_first b all done.length r rs h1 h2 h3 hgood ⟨by rw [hne]; exact hlen, hnt⟩]
    have := ih (done ++ [r]) (by rw [hall]; simp)
      { b with ebins := b.ebins ++ [r.lo], cells := ((done.length, 0, 0, 0), r) :: b.cells }
      ⟨h1, h2, h3⟩ hne hnt (by simp [heb])
    obtain ⟨b', hb', e1, e2, e3, e4, e5, e6⟩ := this
    have hl : (done ++ [r]).length = done.length + 1 := by simp
    rw [hl] at hb' e2
    refine ⟨b', hb', e1, ?_, e3, e4, e5, e6⟩
    rw [e2, List.zipIdx_cons, List.map_cons, List.reverse_cons]
    simp

/-- reading the assignment list of the single block back -/
theorem lookup_cells (rs : List (Row α)) (start k : Nat) :
    lookup (((rs.zipIdx start).map fun p => ((p.2, 0, 0, 0), p.1)).reverse) (k, 0, 0, 0) =
      if start ≤ k ∧ k < start + rs.length then rs[k - start]? else none := by
  induction rs generalizing start with
  | nil => simp [lookup]
  | cons r rest ih =>
    rw [List.zipIdx_cons, List.map_cons, List.reverse_cons]
    unfold lookup
    rw [List.find?_append]
    have ih' := ih (start + 1)
    unfold lookup at ih'
    by_cases hk : start + 1 ≤ k ∧ k < start + 1 + rest.length
    · rw [if_pos hk] at ih'
      have hsome : ∃ v, rest[k - (start + 1)]? = some v := by
        have : k - (start + 1) < rest.length := by omega
        exact ⟨rest[k - (start + 1)], List.getElem?_eq_getElem this⟩
      obtain ⟨v, hv⟩ := hsome
      rw [hv] at ih'
      cases hf : List.find? (fun x => x.1 == (k, 0, 0, 0)) ((rest.zipIdx (start + 1)).map fun p => ((p.2, 0, 0, 0), p.1)).reverse with
      | none => rw [hf] at ih'; simp at ih'
      | some q =>
        rw [hf] at ih'
        simp only [Option.map_some, Option.or_some]
        rw [if_pos (by simp; omega)]
        have : k - start = (k - (start + 1)) + 1 := by omega
        rw [this, List.getElem?_cons_succ, hv]
        simpa using ih'
    · rw [if_neg hk] at ih'
      have hnone : List.find? (fun x => x.1 == (k, 0, 0, 0)) ((rest.zipIdx (start + 1)).map fun p => ((p.2, 0, 0, 0), p.1)).reverse = none := by
        cases hf : List.find? (fun x => x.1 == (k, 0, 0, 0)) ((rest.zipIdx (start + 1)).map fun p => ((p.2, 0, 0, 0), p.1)).reverse with
        | none => rfl
        | some q => rw [hf] at ih'; simp at ih'
      rw [hnone]
      simp only [Option.none_or]
      by_cases e : k = start
      · subst e
        simp [List.find?]
      · have : ¬ (start ≤ k ∧ k < start + (r :: rest).length) := by
          simp only [List.length_cons]; omega
        rw [if_neg this]
        have hne : ((start, 0, 0, 0) == (k, 0, 0, 0)) = false := by
          simp; omega
        simp [List.find?, hne]

/-- orientation of a list according to the first two collected edges -/
def orientL {β : Type} (flip : Bool) (l : List β) : List β := if flip then l.reverse else l

theorem flatMap_single {β γ : Type} (g : β → γ) (l : List β) : l.flatMap (fun x => [g x]) = l.map g := by
  induction l with
  | nil => rfl
  | cons a r ih => simp [List.flatMap_cons, ih]

theorem range_flatMap_one {β : Type} (f : Nat → List β) : (List.range 1).flatMap f = f 0 := by
  simp [List.range_succ]

/-- **the executable `convert` on a response with the energy axis only**: the edges are the first bounds followed by the
last second bound, oriented; the cells are the printed rows, oriented the same way; nothing else is produced -/
theorem convert_single (rows : List (Row α)) (hne : rows ≠ []) (hok : RowsOK rows) :
    ∃ sp, convert [⟨none, none, none, rows, none⟩] = .ok sp ∧
      sp.ne = rows.length ∧ sp.nt = 1 ∧ sp.nmu = 1 ∧ sp.nphi = 1 ∧
      sp.ebins = orientL (decreasing (rows.map (·.lo) ++ [(rows.getLast hne).hi])) (rows.map (·.lo) ++ [(rows.getLast hne).hi]) ∧
      sp.cells = (orientL (decreasing (rows.map (·.lo) ++ [(rows.getLast hne).hi])) rows).map some ∧
      sp.tbins = [] ∧ sp.mubins = [] ∧ sp.phibins = [] ∧ sp.integ = none := by
  obtain ⟨b', hb', e1, e2, e3, e4, e5, e6⟩ := fillRows_single rows hok [] rows rfl
    { ne := rows.length, nt := 1, nmu := 1, nphi := 1 } ⟨rfl, rfl, rfl⟩ rfl ⟨Nat.one_pos, Nat.one_pos, Nat.one_pos⟩ rfl
  have hlast : rows.getLast? = some (rows.getLast hne) := List.getLast?_eq_some_getLast hne
  have hcv : convert [⟨none, none, none, rows, none⟩] = .ok
      { ne := rows.length, nt := 1, nmu := 1, nphi := 1,
        ebins := orientL (decreasing (rows.map (·.lo) ++ [(rows.getLast hne).hi])) (rows.map (·.lo) ++ [(rows.getLast hne).hi]),
        tbins := [], mubins := [], phibins := [],
        cells := (List.range rows.length).map fun ie => lookup b'.cells
          ((if decreasing (rows.map (·.lo) ++ [(rows.getLast hne).hi]) then rows.length - 1 - ie else ie), 0, 0, 0),
        integ := none } := by
    unfold convert
    simp only [nbBins, List.length_cons, List.length_nil, Option.isSome_none, Bool.false_eq_true, if_false, bind, Except.bind,
      List.head?_cons, Option.bind_some, fill]
    simp only [List.length_nil] at hb'
    rw [hb']
    simp only [pure, Except.pure, List.getLast?_singleton, Option.bind_some, hlast, e1, e4, e5, e6, decreasing, orientL,
      range_flatMap_one, List.isEmpty_nil, if_true, Nat.sub_zero, List.flatMap_singleton']
    have hr1 : List.range 1 = [0] := rfl
    simp only [hr1, List.map_cons, List.map_nil, Bool.false_eq_true, if_false, flatMap_single]
    rfl
  refine ⟨_, hcv, rfl, rfl, rfl, rfl, rfl, ?_, rfl, rfl, rfl, rfl⟩
  -- the cells
  show (List.range rows.length).map (fun ie => lookup b'.cells
      ((if decreasing (rows.map (·.lo) ++ [(rows.getLast hne).hi]) then rows.length - 1 - ie else ie), 0, 0, 0)) = _
  simp only [List.length_nil] at e2
  rw [e2, List.append_nil]
  apply List.ext_getElem?
  intro i
  by_cases hi : i < rows.length
  · rw [List.getElem?_map, List.getElem?_range hi]
    simp only [Option.map_some]
    rw [lookup_cells rows 0]
    unfold orientL
    by_cases hf : decreasing (rows.map (·.lo) ++ [(rows.getLast hne).hi]) = true
    · rw [if_pos hf, if_pos hf, if_pos (by omega), Nat.sub_zero, List.getElem?_map,
        List.getElem?_reverse hi]
      rw [List.getElem?_eq_getElem (show rows.length - 1 - i < rows.length by omega)]
      rfl
    · rw [if_neg hf, if_neg hf, if_pos (by omega), Nat.sub_zero, List.getElem?_map]
      rw [List.getElem?_eq_getElem hi]
      rfl
  · have h1 : ((List.range rows.length).map fun ie => lookup (((rows.zipIdx 0).map fun p => ((p.2, 0, 0, 0), p.1)).reverse)
        ((if decreasing (rows.map (·.lo) ++ [(rows.getLast hne).hi]) then rows.length - 1 - ie else ie), 0, 0, 0))[i]? = none := by
      rw [List.getElem?_eq_none]; simp; omega
    rw [h1]
    symm
    rw [List.getElem?_eq_none]
    unfold orientL; split <;> simp <;> omega

end T4Spec
