import Model.Bonferroni

/-! Helper lemmas for C06: sorting permutation and its inverse (core Lean only). -/

namespace Bonf

theorem getD_eq {α} (l : List α) (i : Nat) (d : α) (h : i < l.length) : l.getD i d = l[i] := by
  rw [List.getD_eq_getElem?_getD, List.getElem?_eq_getElem h, Option.getD_some]

theorem argsortNat_perm (s : List Nat) : (argsortNat s).Perm (List.range s.length) :=
  List.mergeSort_perm _ _

theorem range_pairwise_le (m : Nat) : (List.range m).Pairwise (· ≤ ·) := by
  have : (List.range m).Pairwise (· < ·) := List.pairwise_lt_range
  exact this.imp (fun h => Nat.le_of_lt h)

/-- inverse permutation: if `s` is a permutation of `0..m-1` then `argsortNat s` sends `s[k]` back to `k`. -/
theorem argsortNat_inv (s : List Nat) (hs : s.Perm (List.range s.length)) (k : Nat) (hk : k < s.length) :
    (argsortNat s).getD (s.getD k 0) 0 = k := by
  have htp : (argsortNat s).Perm (List.range s.length) := argsortNat_perm s
  have htl : (argsortNat s).length = s.length := by rw [htp.length_eq, List.length_range]
  have hsorted : ((argsortNat s).map fun i => s.getD i 0).Pairwise (· ≤ ·) := by
    rw [List.pairwise_map]
    have := List.pairwise_mergeSort (le := fun i j => decide (s.getD i 0 ≤ s.getD j 0))
      (fun a b c h1 h2 => by simp only [decide_eq_true_eq] at *; omega)
      (fun a b => by simp only [Bool.or_eq_true, decide_eq_true_eq]; omega) (List.range s.length)
    unfold argsortNat
    exact this.imp (fun h => by simpa using h)
  have hperm : ((argsortNat s).map fun i => s.getD i 0).Perm (List.range s.length) := by
    have h1 : ((argsortNat s).map fun i => s.getD i 0).Perm ((List.range s.length).map fun i => s.getD i 0) :=
      htp.map _
    have h2 : (List.range s.length).map (fun i => s.getD i 0) = s := by
      apply List.ext_getElem
      · simp
      · intro i h1 h2
        simp only [List.getElem_map, List.getElem_range]
        exact getD_eq s i 0 h2
    rw [h2] at h1
    exact h1.trans hs
  have heq : ((argsortNat s).map fun i => s.getD i 0) = List.range s.length :=
    List.Perm.eq_of_pairwise (le := (· ≤ ·)) (fun a b _ _ h1 h2 => Nat.le_antisymm h1 h2) hsorted
      (range_pairwise_le _) hperm
  have hst : ∀ j, j < s.length → s.getD ((argsortNat s).getD j 0) 0 = j := by
    intro j hj
    have := congrArg (fun l => l.getD j 0) heq
    rw [getD_eq _ j 0 (by simp [htl, hj]), getD_eq _ j 0 (by simp [hj])] at this
    simp only [List.getElem_map, List.getElem_range] at this
    rw [getD_eq _ j 0 (by omega)]
    exact this
  have hnd : s.Nodup := hs.nodup_iff.mpr (List.nodup_range)
  have hsk : s.getD k 0 < s.length := by
    have : s.getD k 0 ∈ s := by rw [getD_eq s k 0 hk]; exact List.getElem_mem _
    simpa using hs.mem_iff.mp this
  have htk : (argsortNat s).getD (s.getD k 0) 0 < s.length := by
    have : (argsortNat s).getD (s.getD k 0) 0 ∈ argsortNat s := by
      rw [getD_eq _ _ 0 (by omega)]; exact List.getElem_mem _
    simpa using htp.mem_iff.mp this
  have h1 := hst (s.getD k 0) hsk
  exact (List.getD_inj htk hk hnd).mp h1

theorem argsort_perm {α : Type} [Num α] (p : List α) : (argsort p).Perm (List.range p.length) :=
  List.mergeSort_perm _ _

theorem argsort_length {α : Type} [Num α] (p : List α) : (argsort p).length = p.length := by
  rw [(argsort_perm p).length_eq, List.length_range]

/-- the flag/level reported at position `σ k` is the one computed for rank `k` (inverse-argsort bookkeeping) -/
theorem unsort_at {β : Type} (s : List Nat) (hs : s.Perm (List.range s.length)) (x : List β) (d : β)
    (hx : x.length = s.length) (k : Nat) (hk : k < s.length) :
    ((argsortNat s).map fun j => x.getD j d).getD (s.getD k 0) d = x.getD k d := by
  have hsk : s.getD k 0 < s.length := by
    have : s.getD k 0 ∈ s := by rw [getD_eq s k 0 hk]; exact List.getElem_mem _
    simpa using hs.mem_iff.mp this
  have hl : (argsortNat s).length = s.length := by rw [(argsortNat_perm s).length_eq, List.length_range]
  rw [getD_eq _ _ d (by rw [List.length_map, hl]; exact hsk)]
  simp only [List.getElem_map]
  rw [← getD_eq (argsortNat s) _ 0 (by omega), argsortNat_inv s hs k hk]

end Bonf
