import Model.EnvPersist
/-! Helper lemmas for C14: dictionaries, the concrete codec, the file-state invariant. -/
set_option linter.unusedSimpArgs false
set_option linter.unusedVariables false
namespace EnvP

theorem Env.get_set (e : Env) (t t' : Nat) (v : Entry) :
    (e.set t v).get t' = if t' = t then some v else e.get t' := by
  induction e with
  | nil => simp only [Env.set, Env.get]; grind
  | cons hd tl ih =>
    obtain ⟨k, v'⟩ := hd
    simp only [Env.set]
    split <;> simp only [Env.get, ih] <;> grind

theorem FS.get_set (fs : FS) (d d' : Nat) (v : List Nat) :
    (fs.set d v).get d' = if d' = d then some v else fs.get d' := by
  induction fs with
  | nil => simp only [FS.set, FS.get]; grind
  | cons hd tl ih =>
    obtain ⟨k, v'⟩ := hd
    simp only [FS.set]
    split <;> simp only [FS.get, ih] <;> grind

theorem FS.get_erase (fs : FS) (d d' : Nat) :
    (fs.erase d).get d' = if d' = d then none else fs.get d' := by
  induction fs with
  | nil => simp [FS.erase, FS.get]
  | cons hd tl ih =>
    obtain ⟨k, v'⟩ := hd
    have ih' := ih; simp only [FS.erase] at ih'
    by_cases hk : k = d
    · have : ((k, v') :: tl).filter (·.1 ≠ d) = tl.filter (·.1 ≠ d) := by simp [List.filter_cons, hk]
      rw [FS.erase, this, ih']; simp only [FS.get]; grind
    · have : ((k, v') :: tl).filter (·.1 ≠ d) = (k, v') :: tl.filter (·.1 ≠ d) := by simp [List.filter_cons, hk]
      rw [FS.erase, this]; simp only [FS.get, ih']; grind

/-! ### the concrete codec is a good codec -/

structure Codec.Good (c : Codec) : Prop where
  roundtrip : ∀ e, c.load (c.dump e) = .ok (.env e)
  prefixFails : ∀ e k, k < (c.dump e).length →
    ∃ err, c.load ((c.dump e).take k) = .error err ∧ (err = .eof ∨ err = .unpickling)

theorem Status.ofCode_code (s : Status) : Status.ofCode s.code = some s := by cases s <;> rfl

theorem parseEntries_enc (e : Env) (r : List Nat) : parseEntries e.length (encEntries e ++ r) = some (e, r) := by
  induction e with
  | nil => simp [encEntries, parseEntries]
  | cons hd tl ih =>
    obtain ⟨t, ent⟩ := hd
    obtain ⟨st, od, p⟩ := ent
    cases od with
    | some d => simp [encEntries, parseEntries, Status.ofCode_code, ih]
    | none => simp [encEntries, parseEntries, Status.ofCode_code, ih]

theorem parseEntries_prefix (e : Env) (k : Nat) (hk : k < (encEntries e ++ [stop]).length)
    (res : Env × List Nat) (h : parseEntries e.length ((encEntries e ++ [stop]).take k) = some res) : res.2 = [] := by
  induction e generalizing k res with
  | nil =>
    simp [encEntries] at hk; subst hk
    simp [encEntries, parseEntries] at h; rw [← h]
  | cons hd tl ih =>
    obtain ⟨t, ent⟩ := hd
    obtain ⟨st, od, p⟩ := ent
    -- the five tokens of the first entry
    have henc : ∃ a b c d' e', encEntries ((t, ⟨st, od, p⟩) :: tl) = a :: b :: c :: d' :: e' :: encEntries tl := by
      cases od <;> simp [encEntries]
    obtain ⟨a, b, c, d', e', henc⟩ := henc
    rw [henc] at hk h
    simp only [List.cons_append, List.length_cons] at hk
    match k, hk, h with
    | 0, _, h => simp [parseEntries] at h
    | 1, _, h => simp [parseEntries] at h
    | 2, _, h => simp [parseEntries] at h
    | 3, _, h => simp [parseEntries] at h
    | 4, _, h => simp [parseEntries] at h
    | k + 5, hk, h =>
      simp only [List.cons_append, List.take_succ_cons, List.length_cons, parseEntries] at h
      have hk' : k < (encEntries tl ++ [stop]).length := by simp at hk ⊢; omega
      cases hp : parseEntries tl.length ((encEntries tl ++ [stop]).take k) with
      | none => simp [hp] at h
      | some res' =>
        have := ih k hk' res' hp
        rw [hp] at h
        cases hs : Status.ofCode b with
        | none => simp [hs] at h
        | some st' =>
          simp [hs] at h
          split at h
          · injection h with h; rw [← h]; exact this
          · split at h
            · injection h with h; rw [← h]; exact this
            · simp at h

theorem simpleCodec_good : simpleCodec.Good := by
  constructor
  · intro e
    show simpleLoad (simpleDump e) = _
    simp only [simpleDump]
    unfold simpleLoad
    have := parseEntries_enc e [stop]
    simp [this]
  · intro e k hk
    show ∃ err, simpleLoad ((simpleDump e).take k) = .error err ∧ _
    simp only [simpleCodec, simpleDump] at hk ⊢
    match k, hk with
    | 0, _ => exact ⟨.eof, by simp [simpleLoad], Or.inl rfl⟩
    | 1, _ => exact ⟨.unpickling, by simp [simpleLoad], Or.inr rfl⟩
    | k + 2, hk =>
      refine ⟨.unpickling, ?_, Or.inr rfl⟩
      have htk : (0 :: e.length :: (encEntries e ++ [stop])).take (k + 2) =
          0 :: e.length :: (encEntries e ++ [stop]).take k := rfl
      rw [show (0 :: e.length :: encEntries e ++ [stop]) = (0 :: e.length :: (encEntries e ++ [stop])) from rfl, htk]
      have hk' : k < (encEntries e ++ [stop]).length := by simp at hk ⊢; omega
      unfold simpleLoad
      cases hp : parseEntries e.length ((encEntries e ++ [stop]).take k) with
      | none => simp [hp]
      | some res =>
        have := parseEntries_prefix e k hk' res hp
        obtain ⟨e', r⟩ := res
        simp only at this; subst this
        simp [hp]

end EnvP
