import Model.Browser

/-! Helper lemmas for C17 (inverted index = direct scan). -/
namespace Browser

theorem mem_valGet_valAdd (l : List (Val × List Nat)) (v v' : Val) (p p' : Nat) :
    p' ∈ (valGet (valAdd l v p) v').getD [] ↔ (v = v' ∧ p = p') ∨ p' ∈ (valGet l v').getD [] := by
  induction l with
  | nil =>
    simp only [valAdd, valGet]
    by_cases h : v = v'
    · subst h; simp [eq_comm]
    · simp [h]
  | cons hd tl ih =>
    obtain ⟨w, ps⟩ := hd
    simp only [valAdd]
    by_cases hw : w = v
    · subst hw
      simp only [if_true, valGet]
      by_cases h : w = v'
      · subst h
        simp only [if_true, Option.getD_some]
        by_cases hp : p ∈ ps
        · simp only [hp, if_true]
          constructor
          · intro h; exact Or.inr h
          · rintro (⟨_, rfl⟩ | h)
            · exact hp
            · exact h
        · simp only [hp, if_false, List.mem_append, List.mem_singleton]
          constructor
          · rintro (h | h)
            · exact Or.inr h
            · exact Or.inl ⟨trivial, h.symm⟩
          · rintro (⟨_, h⟩ | h)
            · exact Or.inr h.symm
            · exact Or.inl h
      · simp [h]
    · simp only [hw, if_false, valGet]
      by_cases h : w = v'
      · subst h
        have : ¬ v = w := fun e => hw e.symm
        simp [this]
      · simp only [h, if_false]
        exact ih

theorem idxKey_idxAdd_ne (idx : Index) (k k' : String) (v : Val) (p : Nat) (h : k ≠ k') :
    idxKey (idxAdd idx k v p) k' = idxKey idx k' := by
  induction idx with
  | nil => simp [idxAdd, idxKey, h]
  | cons hd tl ih =>
    obtain ⟨w, vs⟩ := hd
    simp only [idxAdd]
    by_cases hw : w = k
    · subst hw; simp [idxKey, h]
    · simp only [hw, if_false, idxKey]
      by_cases h2 : w = k'
      · simp [h2]
      · simp [h2, ih]

theorem idxKey_idxAdd_eq (idx : Index) (k : String) (v : Val) (p : Nat) :
    idxKey (idxAdd idx k v p) k = some (valAdd ((idxKey idx k).getD []) v p) := by
  induction idx with
  | nil => simp [idxAdd, idxKey, valAdd]
  | cons hd tl ih =>
    obtain ⟨w, vs⟩ := hd
    simp only [idxAdd]
    by_cases hw : w = k
    · subst hw; simp [idxKey]
    · simp [hw, idxKey, ih]

theorem mem_idxGet_idxAdd (idx : Index) (k k' : String) (v v' : Val) (p p' : Nat) :
    p' ∈ idxGet (idxAdd idx k v p) k' v' ↔ (k = k' ∧ v = v' ∧ p = p') ∨ p' ∈ idxGet idx k' v' := by
  by_cases hk : k = k'
  · subst hk
    simp only [idxGet, idxKey_idxAdd_eq, true_and]
    rw [mem_valGet_valAdd]
    cases h : idxKey idx k with
    | none => simp [valGet]
    | some vs => simp
  · simp only [idxGet, idxKey_idxAdd_ne _ _ _ _ _ hk, hk, false_and, false_or]

theorem get_eq_some_of_mem {it : Item} (hnd : (Item.keys it).Nodup) {k : String} {v : Val} :
    (k, v) ∈ it ↔ Item.get it k = some v := by
  induction it with
  | nil => simp [Item.get]
  | cons hd tl ih =>
    obtain ⟨k', v'⟩ := hd
    simp only [Item.keys, List.map_cons, List.nodup_cons] at hnd
    have ih' := ih (by simpa [Item.keys] using hnd.2)
    simp only [List.mem_cons, Item.get, Prod.mk.injEq]
    by_cases h : k' = k
    · subst h
      simp only [if_true, Option.some.injEq]
      constructor
      · rintro (⟨_, rfl⟩ | hm)
        · rfl
        · exact absurd (List.mem_map.mpr ⟨(k', v), hm, rfl⟩) hnd.1
      · intro e; exact Or.inl ⟨trivial, e.symm⟩
    · simp only [h, if_false]
      rw [← ih']
      constructor
      · rintro (⟨e, _⟩ | hm)
        · exact absurd e.symm h
        · exact hm
      · intro hm; exact Or.inr hm

theorem mem_idxGet_foldl (dk : String) (p : Nat) (l : List (String × Val)) (idx : Index)
    (k : String) (v : Val) (p' : Nat) :
    p' ∈ idxGet (l.foldl (fun acc kv => if kv.1 = dk then acc else idxAdd acc kv.1 kv.2 p) idx) k v ↔
      (p' = p ∧ k ≠ dk ∧ (k, v) ∈ l) ∨ p' ∈ idxGet idx k v := by
  induction l generalizing idx with
  | nil => simp
  | cons hd tl ih =>
    obtain ⟨k0, v0⟩ := hd
    simp only [List.foldl_cons]
    rw [ih]
    by_cases h0 : k0 = dk
    · subst h0
      simp only [if_true, List.mem_cons, Prod.mk.injEq]
      constructor
      · rintro (⟨h1, h2, h3⟩ | h)
        · exact Or.inl ⟨h1, h2, Or.inr h3⟩
        · exact Or.inr h
      · rintro (⟨h1, h2, (⟨e, _⟩ | h3)⟩ | h)
        · exact absurd e h2
        · exact Or.inl ⟨h1, h2, h3⟩
        · exact Or.inr h
    · simp only [h0, if_false, mem_idxGet_idxAdd, List.mem_cons, Prod.mk.injEq]
      constructor
      · rintro (⟨h1, h2, h3⟩ | ⟨h1, h2, h3⟩ | h)
        · exact Or.inl ⟨h1, h2, Or.inr h3⟩
        · subst h1; subst h2
          exact Or.inl ⟨h3.symm, h0, Or.inl ⟨rfl, rfl⟩⟩
        · exact Or.inr h
      · rintro (⟨h1, h2, (⟨e1, e2⟩ | h3)⟩ | h)
        · exact Or.inr (Or.inl ⟨e1.symm, e2.symm, h1.symm⟩)
        · exact Or.inl ⟨h1, h2, h3⟩
        · exact Or.inr (Or.inr h)

theorem mem_idxGet_buildIndexFrom (dk : String) (items : List Item) (idx : Index) (p : Nat)
    (k : String) (v : Val) (p' : Nat) :
    p' ∈ idxGet (buildIndexFrom dk idx p items) k v ↔
      (∃ i it, items[i]? = some it ∧ p' = p + i ∧ k ≠ dk ∧ (k, v) ∈ it) ∨ p' ∈ idxGet idx k v := by
  induction items generalizing idx p with
  | nil => simp [buildIndexFrom]
  | cons hd tl ih =>
    simp only [buildIndexFrom]
    rw [ih, indexItem, mem_idxGet_foldl]
    constructor
    · rintro (⟨i, it, h1, h2, h3, h4⟩ | ⟨h1, h2, h3⟩ | h)
      · exact Or.inl ⟨i + 1, it, by simpa using h1, by omega, h3, h4⟩
      · exact Or.inl ⟨0, hd, by simp, by omega, h2, h3⟩
      · exact Or.inr h
    · rintro (⟨i, it, h1, h2, h3, h4⟩ | h)
      · cases i with
        | zero =>
          simp only [List.getElem?_cons_zero, Option.some.injEq] at h1
          subst h1
          exact Or.inr (Or.inl ⟨by omega, h3, h4⟩)
        | succ j =>
          exact Or.inl ⟨j, it, by simpa using h1, by omega, h3, h4⟩
      · exact Or.inr (Or.inr h)

theorem idxGet_nil (k : String) (v : Val) : idxGet [] k v = [] := by simp [idxGet, idxKey]

theorem keys_set_nodup (it : Item) (k : String) (v : Val) (h : (Item.keys it).Nodup) :
    (Item.keys (Item.set it k v)).Nodup := by
  induction it with
  | nil => simp [Item.set, Item.keys]
  | cons hd tl ih =>
    obtain ⟨k', v'⟩ := hd
    simp only [Item.keys, List.map_cons, List.nodup_cons] at h
    simp only [Item.set]
    by_cases hk : k' = k
    · subst hk
      simpa [Item.keys] using h
    · simp only [hk, if_false, Item.keys, List.map_cons, List.nodup_cons]
      refine ⟨?_, by simpa [Item.keys] using ih (by simpa [Item.keys] using h.2)⟩
      intro hm
      have : ∀ (l : Item), k' ∈ (Item.set l k v).map (·.1) → k' ∈ l.map (·.1) := by
        intro l
        induction l with
        | nil => simp [Item.set]; intro e; exact absurd e hk
        | cons a t iht =>
          obtain ⟨ka, va⟩ := a
          simp only [Item.set]
          by_cases hka : ka = k
          · subst hka; simp
          · simp only [hka, if_false, List.map_cons, List.mem_cons]
            rintro (e | e)
            · exact Or.inl e
            · exact Or.inr (iht e)
      exact h.1 (this tl hm)

theorem reindexFrom_length (p : Nat) (l : List Item) : (reindexFrom p l).length = l.length := by
  induction l generalizing p with
  | nil => rfl
  | cons hd tl ih => simp [reindexFrom, ih]

theorem reindexFrom_nodup (p : Nat) (l : List Item) (h : ∀ it ∈ l, (Item.keys it).Nodup) :
    ∀ it ∈ reindexFrom p l, (Item.keys it).Nodup := by
  induction l generalizing p with
  | nil => simp [reindexFrom]
  | cons hd tl ih =>
    intro it hit
    simp only [reindexFrom, List.mem_cons] at hit
    rcases hit with rfl | hit
    · exact keys_set_nodup _ _ _ (h hd (by simp))
    · exact ih (p + 1) (fun x hx => h x (by simp [hx])) it hit

/-- A browser is well formed when it was produced by the constructor from dicts. -/
def WF (b : Browser) : Prop :=
  ∃ c, (∀ it ∈ c, (Item.keys it).Nodup) ∧ b = mk' c b.dataKey b.globals

theorem wf_mk' (c : List Item) (dk : String) (g : List (String × Val))
    (h : ∀ it ∈ c, (Item.keys it).Nodup) : WF (mk' c dk g) := ⟨c, h, rfl⟩

theorem wf_content_nodup {b : Browser} (h : WF b) : ∀ it ∈ b.content, (Item.keys it).Nodup := by
  obtain ⟨c, hc, e⟩ := h
  rw [e]
  exact reindexFrom_nodup 0 c hc

/-- generic: filtering positions through a positional predicate = filtering the items. -/
theorem filterMap_range_filter {α : Type} (l : List α) (q : Nat → Bool) (q' : α → Bool)
    (h : ∀ i a, l[i]? = some a → q i = q' a) :
    ((List.range l.length).filter q).filterMap (fun i => l[i]?) = l.filter q' := by
  induction l generalizing q with
  | nil => simp
  | cons a l ih =>
    have h0 : q 0 = q' a := h 0 a (by simp)
    have hs : ∀ i x, l[i]? = some x → (q ∘ Nat.succ) i = q' x := by
      intro i x hx
      exact h (i + 1) x (by simpa using hx)
    rw [List.length_cons, List.range_succ_eq_map, List.filter_cons, List.filter_map, List.filter_cons]
    have e : (fun i => (a :: l)[i]?) ∘ Nat.succ = fun i => l[i]? := by
      funext i; simp
    by_cases hq : q' a = true
    · simp only [h0, hq, if_true, List.filterMap_cons, List.getElem?_cons_zero, List.filterMap_map, e]
      rw [ih _ hs]
    · have hq' : q' a = false := by simpa using hq
      simp only [h0, hq', Bool.false_eq_true, if_false, List.filterMap_map, e]
      rw [ih _ hs]

end Browser
