import Model.Sched
/-!
Helper lemmas for C01–C04: the step function as a relation with one constructor per program point,
environment update lemmas, the predicates used by the invariants.
-/
set_option linter.unusedVariables false
set_option linter.unusedSimpArgs false
namespace Sched

/-! ### environment updates -/

@[simp] theorem upd_same {α : Type} (f : Nat → α) (i : Nat) (a : α) : upd f i a i = a := by simp [upd]
theorem upd_other {α : Type} (f : Nat → α) (i x : Nat) (a : α) (h : x ≠ i) : upd f i a x = f x := by simp [upd, h]

@[simp] theorem entry_set_same (e : Env) (t : Nat) (v : Option Entry) : (e.set t v).entry t = v := by
  simp [Env.set, Env.entry, upd]
theorem entry_set_other (e : Env) (t x : Nat) (v : Option Entry) (h : x ≠ t) : (e.set t v).entry x = e.entry x := by
  simp [Env.set, Env.entry, upd, h]

theorem entry_setSt_other (e : Env) (t x : Nat) (s : St) (h : x ≠ t) : (e.setSt t s).entry x = e.entry x := by
  unfold Env.setSt; split <;> exact entry_set_other _ _ _ _ h

theorem entry_setSt_same (e : Env) (t : Nat) (s : St) :
    ∃ y, (e.setSt t s).entry t = some y ∧ y.st = s ∧
      (∀ o, e.entry t = some o → y.pay = o.pay ∧ y.startC = o.startC ∧ y.endC = o.endC) ∧
      (e.entry t = none → y.pay = none ∧ y.startC = none ∧ y.endC = none) := by
  unfold Env.setSt
  cases h : e.entry t with
  | some o =>
    refine ⟨_, entry_set_same _ _ _, rfl, ?_, ?_⟩
    · intro o' ho'; injection ho' with ho'; subst ho'; simp
    · intro h'; cases h'
  | none =>
    refine ⟨_, entry_set_same _ _ _, rfl, ?_, ?_⟩
    · intro o' ho'; cases ho'
    · intro _; simp

theorem entry_touch_other (e : Env) (t x : Nat) (h : x ≠ t) : (e.touch t).entry x = e.entry x := by
  unfold Env.touch; split
  · rfl
  · exact entry_set_other _ _ _ _ h

theorem entry_touch_same (e : Env) (t : Nat) :
    (e.touch t).entry t = match e.entry t with | some o => some o | none => some ⟨.waiting, none, none, none⟩ := by
  unfold Env.touch
  cases h : e.entry t with
  | some o => simp [h]
  | none => simp

theorem entry_updEntry_other (e : Env) (t x : Nat) (f : Entry → Entry) (h : x ≠ t) : (updEntry e t f).entry x = e.entry x := by
  unfold updEntry; split <;> exact entry_set_other _ _ _ _ h

theorem entry_updEntry_same (e : Env) (t : Nat) (f : Entry → Entry) :
    (updEntry e t f).entry t = some (f ((e.entry t).getD ⟨.waiting, none, none, none⟩)) := by
  unfold updEntry
  cases h : e.entry t with
  | some o => simp
  | none => simp

/-! ### the step function, one constructor per program point -/

inductive Step (c : Cfg) (s : State) : State → Prop
  | mSpawn (k : Nat) (h : s.mpc = .spawn k) :
      Step c s { s with wpc := upd s.wpc k .begin, mpc := afterSpawn c k }
  | mAcq (h : s.mpc = .acq) (hc : s.condOwner = none) :
      Step c s { s with condOwner := some 0, mpc := .consider }
  | mWait (t : Nat) (rest : List Nat) (env' : Env) (h : s.mpc = .consider) (ht : s.todo = t :: rest)
      (hd : decide c s.env s.left t = (.wait, env')) :
      Step c s (advance { s with env := env', left := s.left ++ [t] })
  | mSkip (t : Nat) (rest : List Nat) (env' : Env) (h : s.mpc = .consider) (ht : s.todo = t :: rest)
      (hd : decide c s.env s.left t = (.skip, env')) :
      Step c s (advance { s with env := env' })
  | mDrop (t : Nat) (rest : List Nat) (env' : Env) (h : s.mpc = .consider) (ht : s.todo = t :: rest)
      (hd : decide c s.env s.left t = (.drop, env')) :
      Step c s (advance { s with env := env' })
  | mPending (t : Nat) (rest : List Nat) (env' : Env) (h : s.mpc = .consider) (ht : s.todo = t :: rest)
      (hd : decide c s.env s.left t = (.pending, env')) :
      Step c s { s with env := env', mpc := .put t }
  | mPut (t : Nat) (h : s.mpc = .put t) :
      Step c s (advance { s with queue := s.queue ++ [some t], unfinished := s.unfinished + 1 })
  | mWake (h : s.mpc = .wake) (hn : s.notified = true) (hc : s.condOwner = none) :
      Step c s { s with waiting := false, notified := false, mpc := .acq, todo := s.left, left := [],
                        nBefore := s.left.length }
  | mQjoin (h : s.mpc = .qjoin) (hu : s.unfinished = 0) :
      Step c s { s with mpc := if c.workers = 0 then .returned else .sentinel 0 }
  | mSentinel (k : Nat) (h : s.mpc = .sentinel k) :
      Step c s { s with queue := s.queue ++ [none], unfinished := s.unfinished + 1,
                        mpc := if k + 1 < c.workers then .sentinel (k + 1) else .joinW 0 }
  | mJoin (k : Nat) (h : s.mpc = .joinW k) (he : s.wpc k = .exited) :
      Step c s { s with mpc := if k + 1 < c.workers then .joinW (k + 1) else .returned }
  | wBegin (w : Nat) (h : s.wpc w = .begin) :
      Step c s { s with wpc := upd s.wpc w .get }
  | wGetTask (w t : Nat) (rest : List (Option Nat)) (h : s.wpc w = .get) (hq : s.queue = some t :: rest) :
      Step c s { s with queue := rest, wpc := upd s.wpc w (.timeStart t) }
  | wGetSentinel (w : Nat) (rest : List (Option Nat)) (h : s.wpc w = .get) (hq : s.queue = none :: rest) :
      Step c s { s with queue := rest, wpc := upd s.wpc w .sentinelDone }
  | wTimeStart (w t : Nat) (h : s.wpc w = .timeStart t) :
      Step c s { s with clock := s.clock + 1, execCount := upd s.execCount t (s.execCount t + 1),
                        seen := upd s.seen t (some (snapshot c s.env t)),
                        wpc := upd s.wpc w (.timeEnd t (s.clock + 1)) }
  | wTimeEnd (w t start : Nat) (h : s.wpc w = .timeEnd t start) :
      Step c s { s with clock := s.clock + 1,
                        wpc := upd s.wpc w (if (c.outOf t).hasUpdate then .apply t start (s.clock + 1)
                                            else .clocks t start (s.clock + 1)) }
  | wApply (w t start stop : Nat) (h : s.wpc w = .apply t start stop) :
      Step c s { s with env := updEntry s.env t fun x => { x with pay := some start },
                        wpc := upd s.wpc w (.clocks t start stop) }
  | wClocks (w t start stop : Nat) (h : s.wpc w = .clocks t start stop) :
      Step c s { s with env := updEntry s.env t fun x => { x with startC := some start, endC := some stop },
                        wpc := upd s.wpc w (.status t) }
  | wStatus (w t : Nat) (h : s.wpc w = .status t) :
      Step c s { s with env := s.env.setSt t (c.outOf t).status, wpc := upd s.wpc w .taskDone }
  | wTaskDone (w : Nat) (h : s.wpc w = .taskDone) (hu : s.unfinished ≠ 0) :
      Step c s { s with unfinished := s.unfinished - 1, wpc := upd s.wpc w .cacq }
  | wCacq (w : Nat) (h : s.wpc w = .cacq) (hc : s.condOwner = none) :
      Step c s { s with condOwner := some (w + 1), wpc := upd s.wpc w .notify }
  | wNotify (w : Nat) (h : s.wpc w = .notify) :
      Step c s { s with notified := s.notified || s.waiting, condOwner := none, wpc := upd s.wpc w .get }
  | wSentinelDone (w : Nat) (h : s.wpc w = .sentinelDone) (hu : s.unfinished ≠ 0) :
      Step c s { s with unfinished := s.unfinished - 1, wpc := upd s.wpc w .exited }

theorem stepMaster_sound {c : Cfg} {s s' : State} {kind : String} (h : stepMaster c s kind = some s') : Step c s s' := by
  unfold stepMaster at h
  split at h
  · injection h with h; subst h; exact Step.mSpawn _ (by assumption)
  · split at h
    · injection h with h; subst h
      exact Step.mAcq (by assumption) (by rename_i hc; simpa using hc)
    · cases h
  · have hpc : s.mpc = .consider := by assumption
    split at h
    · cases h
    · rename_i t rest htodo
      generalize hd : decide c s.env s.left t = dr at h
      obtain ⟨d, env'⟩ := dr
      cases d with
      | wait => simp only at h; injection h with h; subst h; exact Step.mWait t rest env' hpc htodo hd
      | skip => simp only at h; injection h with h; subst h; exact Step.mSkip t rest env' hpc htodo hd
      | drop => simp only at h; injection h with h; subst h; exact Step.mDrop t rest env' hpc htodo hd
      | pending => simp only at h; injection h with h; subst h; exact Step.mPending t rest env' hpc htodo hd
  · injection h with h; subst h; exact Step.mPut _ (by assumption)
  · split at h
    · injection h with h; subst h
      have hpc : s.mpc = .wake := by assumption
      have hcond : (s.notified && s.condOwner.isNone) = true := by assumption
      simp only [Bool.and_eq_true, Option.isNone_iff_eq_none] at hcond
      exact Step.mWake hpc hcond.1 hcond.2
    · cases h
  · split at h
    · injection h with h; subst h; exact Step.mQjoin (by assumption) (by assumption)
    · cases h
  · injection h with h; subst h; exact Step.mSentinel _ (by assumption)
  · split at h
    · injection h with h; subst h; exact Step.mJoin _ (by assumption) (by assumption)
    · cases h
  · cases h

theorem stepWorker_sound {c : Cfg} {s s' : State} {w : Nat} {kind : String} (h : stepWorker c s w kind = some s') :
    Step c s s' := by
  unfold stepWorker at h
  simp only at h
  split at h
  · injection h with h; subst h; exact Step.wBegin w (by assumption)
  · split at h
    · cases h
    · injection h with h; subst h; exact Step.wGetTask w _ _ (by assumption) (by assumption)
    · injection h with h; subst h; exact Step.wGetSentinel w _ (by assumption) (by assumption)
  · injection h with h; subst h; exact Step.wTimeStart w _ (by assumption)
  · injection h with h; subst h; exact Step.wTimeEnd w _ _ (by assumption)
  · injection h with h; subst h; exact Step.wApply w _ _ _ (by assumption)
  · injection h with h; subst h; exact Step.wClocks w _ _ _ (by assumption)
  · injection h with h; subst h; exact Step.wStatus w _ (by assumption)
  · split at h
    · cases h
    · injection h with h; subst h; exact Step.wTaskDone w (by assumption) (by assumption)
  · split at h
    · injection h with h; subst h
      exact Step.wCacq w (by assumption) (by rename_i hc; simpa using hc)
    · cases h
  · injection h with h; subst h; exact Step.wNotify w (by assumption)
  · split at h
    · cases h
    · injection h with h; subst h; exact Step.wSentinelDone w (by assumption) (by assumption)
  · cases h

/-- every step of the executable model is one of the constructors above -/
theorem step_sound {c : Cfg} {s s' : State} {tid : Nat} {kind : String} (h : step c s tid kind = some s') : Step c s s' := by
  unfold step at h
  split at h
  · exact stepMaster_sound h
  · exact stepWorker_sound h

/-! ### what `decide` does -/

macro "dec_triv" : tactic =>
  `(tactic| first | (rintro (h | h) <;> cases h) | (intro h; cases h) | (intro hne; exact absurd rfl hne))

theorem isSt_iff (e : Env) (t : Nat) (s : St) : e.isSt t s = true ↔ ∃ x, e.entry t = some x ∧ x.st = s := by
  unfold Env.isSt Env.st?
  cases h : e.entry t with
  | none => simp
  | some x => simp

/-- `decide` only changes the entry of the task it is about, keeps its results and clocks, and reports what it did -/
theorem decide_spec (c : Cfg) (e : Env) (left : List Nat) (t : Nat) (r : Decision) (e' : Env)
    (h : decide c e left t = (r, e')) :
    (∀ x, x ≠ t → e'.entry x = e.entry x) ∧
    (∃ y, e'.entry t = some y ∧
      (∀ o, e.entry t = some o → y.pay = o.pay ∧ y.startC = o.startC ∧ y.endC = o.endC) ∧
      (e.entry t = none → y.pay = none ∧ y.startC = none ∧ y.endC = none) ∧
      (r = .wait → y.st = .waiting ∨ (y.st = .done ∧ e.entry t = some y)) ∧
      (r = .skip → y.st = .skipped) ∧
      (r = .drop → y.st = .done ∧ e.entry t = some y) ∧
      (r = .pending → y.st = .pending)) ∧
    (r ≠ .wait → ∀ d ∈ c.depsOf t, d ∉ left ∧ ∃ x, e.entry d = some x ∧ x.st ≠ .pending) ∧
    (r = .pending ∨ r = .drop → ∀ d ∈ c.hardOf t, ∀ x, e.entry d = some x → x.st ≠ .failed ∧ x.st ≠ .skipped) ∧
    (r = .skip → ∃ d ∈ c.hardOf t, ∃ x, e.entry d = some x ∧ (x.st = .failed ∨ x.st = .skipped)) ∧
    (r = .pending → (∀ x, e.entry t = some x → x.st ≠ .done) →
        ∀ d ∈ c.depsOf t, ∃ x, e.entry d = some x ∧ x.st.final = true) := by
  unfold decide at h
  simp only at h
  -- first test: some dependency undecided, missing or pending
  by_cases h1 : (c.depsOf t).any (fun d => left.contains d || (e.entry d).isNone || e.isSt d .pending) = true
  · rw [if_pos h1] at h
    injection h with hr he; subst hr
    have htouch := entry_touch_same e t
    refine ⟨?_, ?_, ?_, ?_, ?_, ?_⟩
    · intro x hx
      subst he
      split
      · exact entry_touch_other e t x hx
      · rw [entry_setSt_other _ _ _ _ hx]; exact entry_touch_other e t x hx
    · subst he
      by_cases hd : (e.touch t).isSt t .done = true
      · simp only [hd, if_true]
        obtain ⟨y, hy, hyd⟩ := (isSt_iff _ _ _).1 hd
        rw [htouch] at hy
        cases ho : e.entry t with
        | none => rw [ho] at hy; simp at hy; subst hy; cases hyd
        | some o =>
          rw [ho] at hy; simp at hy; subst hy
          refine ⟨o, by rw [htouch, ho], ?_, ?_, ?_, ?_, ?_, ?_⟩
          · intro o' ho'; injection ho' with ho'; subst ho'; simp
          · dec_triv
          · intro _; exact Or.inr ⟨hyd, rfl⟩
          · dec_triv
          · dec_triv
          · dec_triv
      · simp only [hd]
        obtain ⟨y, hy, hys, hyo, hyn⟩ := entry_setSt_same (e.touch t) t .waiting
        refine ⟨y, hy, ?_, ?_, ?_, ?_, ?_, ?_⟩
        · intro o ho
          have : (e.touch t).entry t = some o := by rw [htouch, ho]
          exact hyo o this
        · intro ho
          have : (e.touch t).entry t = some ⟨.waiting, none, none, none⟩ := by rw [htouch, ho]
          have := hyo _ this
          simpa using this
        · intro _; exact Or.inl hys
        · dec_triv
        · dec_triv
        · dec_triv
    · dec_triv
    · dec_triv
    · dec_triv
    · dec_triv
  · rw [if_neg h1] at h
    have hdeps : ∀ d ∈ c.depsOf t, d ∉ left ∧ ∃ x, e.entry d = some x ∧ x.st ≠ .pending := by
      intro d hd
      simp only [List.any_eq_true, not_exists, not_and, Bool.or_eq_true, List.contains_eq_mem, decide_eq_true_eq,
        Option.isNone_iff_eq_none, not_or] at h1
      obtain ⟨⟨a, b⟩, cc⟩ := h1 d hd
      refine ⟨a, ?_⟩
      cases hx : e.entry d with
      | none => exact absurd hx b
      | some x => exact ⟨x, rfl, fun hp => cc ((isSt_iff _ _ _).2 ⟨x, hx, hp⟩)⟩
    by_cases h2 : (c.hardOf t).any (fun d => e.isSt d .failed || e.isSt d .skipped) = true
    · rw [if_pos h2] at h
      injection h with hr he; subst hr; subst he
      obtain ⟨y, hy, hys, hyo, hyn⟩ := entry_setSt_same e t .skipped
      refine ⟨fun x hx => entry_setSt_other _ _ _ _ hx, ⟨y, hy, hyo, hyn, ?_, ?_, ?_, ?_⟩, fun _ => hdeps, ?_, ?_, ?_⟩
      · dec_triv
      · intro _; exact hys
      · dec_triv
      · dec_triv
      · dec_triv
      · intro _
        simp only [List.any_eq_true, Bool.or_eq_true] at h2
        obtain ⟨d, hd, hfs⟩ := h2
        rcases hfs with hfs | hfs
        · obtain ⟨x, hx, hxs⟩ := (isSt_iff _ _ _).1 hfs; exact ⟨d, hd, x, hx, Or.inl hxs⟩
        · obtain ⟨x, hx, hxs⟩ := (isSt_iff _ _ _).1 hfs; exact ⟨d, hd, x, hx, Or.inr hxs⟩
      · dec_triv
    · rw [if_neg h2] at h
      have hhard : ∀ d ∈ c.hardOf t, ∀ x, e.entry d = some x → x.st ≠ .failed ∧ x.st ≠ .skipped := by
        intro d hd x hx
        simp only [List.any_eq_true, not_exists, not_and, Bool.or_eq_true, not_or] at h2
        obtain ⟨a, b⟩ := h2 d hd
        exact ⟨fun hs => a ((isSt_iff _ _ _).2 ⟨x, hx, hs⟩), fun hs => b ((isSt_iff _ _ _).2 ⟨x, hx, hs⟩)⟩
      have htouch := entry_touch_same e t
      by_cases h3 : (e.touch t).isSt t .done = true
      · rw [if_pos h3] at h
        obtain ⟨y, hy, hyd⟩ := (isSt_iff _ _ _).1 h3
        have hold : e.entry t = some y := by
          rw [htouch] at hy
          cases ho : e.entry t with
          | none => rw [ho] at hy; simp at hy; subst hy; cases hyd
          | some o => rw [ho] at hy; simp at hy; rw [hy]
        have hnd : ¬ (∀ x, e.entry t = some x → x.st ≠ .done) := fun hh => hh y hold hyd
        -- the result is either (drop, touched env) or (pending, ...)
        have key : (r = .drop ∧ e' = e.touch t) ∨ (r = .pending ∧ e' = (e.touch t).setSt t .pending) := by
          split at h
          · injection h with hr he; exact Or.inl ⟨hr.symm, he.symm⟩
          · split at h
            · split at h
              · injection h with hr he; exact Or.inl ⟨hr.symm, he.symm⟩
              · injection h with hr he; exact Or.inr ⟨hr.symm, he.symm⟩
            · injection h with hr he; exact Or.inr ⟨hr.symm, he.symm⟩
        rcases key with ⟨hr, he⟩ | ⟨hr, he⟩
        · subst hr; subst he
          refine ⟨fun x hx => entry_touch_other e t x hx, ⟨y, hy, ?_, ?_, ?_, ?_, ?_, ?_⟩, fun _ => hdeps, fun _ => hhard, ?_, ?_⟩
          · intro o ho; rw [hold] at ho; injection ho with ho; subst ho; simp
          · intro ho; rw [hold] at ho; cases ho
          · dec_triv
          · dec_triv
          · intro _; exact ⟨hyd, hold⟩
          · dec_triv
          · dec_triv
          · dec_triv
        · subst hr; subst he
          obtain ⟨z, hz, hzs, hzo, hzn⟩ := entry_setSt_same (e.touch t) t .pending
          refine ⟨fun x hx => by rw [entry_setSt_other _ _ _ _ hx]; exact entry_touch_other e t x hx,
            ⟨z, hz, ?_, ?_, ?_, ?_, ?_, ?_⟩, fun _ => hdeps, fun _ => hhard, ?_, ?_⟩
          · intro o ho
            rw [hold] at ho; injection ho with ho; subst ho
            exact hzo y hy
          · intro ho; rw [hold] at ho; cases ho
          · dec_triv
          · dec_triv
          · dec_triv
          · intro _; exact hzs
          · dec_triv
          · intro _ hh; exact absurd hh hnd
      · rw [if_neg h3] at h
        obtain ⟨z, hz, hzs, hzo, hzn⟩ := entry_setSt_same (e.touch t) t .waiting
        have hframe1 : ∀ x, x ≠ t → ((e.touch t).setSt t .waiting).entry x = e.entry x := by
          intro x hx; rw [entry_setSt_other _ _ _ _ hx]; exact entry_touch_other e t x hx
        have hpay : (∀ o, e.entry t = some o → z.pay = o.pay ∧ z.startC = o.startC ∧ z.endC = o.endC) ∧
            (e.entry t = none → z.pay = none ∧ z.startC = none ∧ z.endC = none) := by
          constructor
          · intro o ho
            exact hzo o (by rw [htouch, ho])
          · intro ho
            have := hzo ⟨.waiting, none, none, none⟩ (by rw [htouch, ho])
            simpa using this
        split at h
        · rename_i hall
          injection h with hr he; subst hr; subst he
          obtain ⟨u, hu, hus, huo, hun⟩ := entry_setSt_same ((e.touch t).setSt t .waiting) t .pending
          refine ⟨fun x hx => by rw [entry_setSt_other _ _ _ _ hx]; exact hframe1 x hx,
            ⟨u, hu, ?_, ?_, ?_, ?_, ?_, ?_⟩, fun _ => hdeps, fun _ => hhard, ?_, ?_⟩
          · intro o ho
            have := huo z hz
            have h2' := hpay.1 o ho
            exact ⟨this.1.trans h2'.1, this.2.1.trans h2'.2.1, this.2.2.trans h2'.2.2⟩
          · intro ho
            have := huo z hz
            have h2' := hpay.2 ho
            exact ⟨this.1.trans h2'.1, this.2.1.trans h2'.2.1, this.2.2.trans h2'.2.2⟩
          · dec_triv
          · dec_triv
          · dec_triv
          · intro _; exact hus
          · dec_triv
          · intro _ _ d hd
            simp only [List.all_eq_true, Bool.or_eq_true] at hall
            have hdne : d ≠ t := by
              intro hh; subst hh
              have := hall d hd
              rcases this with (hh | hh) | hh <;>
                (obtain ⟨x, hx, hxs⟩ := (isSt_iff _ _ _).1 hh; rw [hz] at hx; injection hx with hx; subst hx; rw [hzs] at hxs; cases hxs)
            have := hall d hd
            rcases this with (hh | hh) | hh <;>
              (obtain ⟨x, hx, hxs⟩ := (isSt_iff _ _ _).1 hh; rw [hframe1 d hdne] at hx
               exact ⟨x, hx, by rw [hxs]; rfl⟩)
        · injection h with hr he; subst hr; subst he
          refine ⟨hframe1, ⟨z, hz, hpay.1, hpay.2, ?_, ?_, ?_, ?_⟩, ?_, ?_, ?_, ?_⟩
          · intro _; exact Or.inl hzs
          · dec_triv
          · dec_triv
          · dec_triv
          · dec_triv
          · dec_triv
          · dec_triv
          · dec_triv

theorem lastEnd_spec (e : Env) (l : List Nat) (m : Nat) (h : lastEnd e l = some m) :
    ∀ d ∈ l, ∃ y v, e.entry d = some y ∧ y.endC = some v ∧ v ≤ m := by
  induction l generalizing m with
  | nil => intro d hd; cases hd
  | cons a r ih =>
    intro d hd
    unfold lastEnd at h
    cases hy : e.entry a with
    | none => simp [hy] at h
    | some y =>
      cases hv : y.endC with
      | none => simp [hy, hv] at h
      | some v =>
        simp only [hy, hv, Option.bind_some] at h
        cases r with
        | nil =>
          simp at h; subst h
          simp at hd; subst hd
          exact ⟨y, v, hy, hv, Nat.le_refl _⟩
        | cons b r' =>
          simp only at h
          cases hl : lastEnd e (b :: r') with
          | none => simp [hl] at h
          | some m' =>
            simp only [hl] at h
            injection h with h; subst h
            rcases List.mem_cons.1 hd with hd | hd
            · subst hd; exact ⟨y, v, hy, hv, Nat.le_max_left _ _⟩
            · obtain ⟨y', v', h1, h2, h3⟩ := ih m' hl d hd
              exact ⟨y', v', h1, h2, Nat.le_trans h3 (Nat.le_max_right _ _)⟩

/-- when `decide` keeps a DONE task, every DONE dependency ended before the task started -/
theorem decide_drop_clocks (c : Cfg) (e : Env) (left : List Nat) (t : Nat) (e' : Env)
    (h : decide c e left t = (.drop, e')) :
    ∀ d ∈ c.depsOf t, ∀ y, e.entry d = some y → y.st = .done → d ≠ t →
      ∃ o ev sv, e.entry t = some o ∧ y.endC = some ev ∧ o.startC = some sv ∧ ev ≤ sv := by
  intro d hd y hy hyd hdt
  unfold decide at h
  simp only at h
  split at h
  · cases h
  · split at h
    · cases h
    · split at h
      · rename_i h3
        obtain ⟨o, ho, hod⟩ := (isSt_iff _ _ _).1 h3
        have hold : e.entry t = some o := by
          rw [entry_touch_same] at ho
          cases hx : e.entry t with
          | none => rw [hx] at ho; simp at ho; subst ho; cases hod
          | some o' => rw [hx] at ho; simp at ho; rw [ho]
        have hdin : d ∈ (c.depsOf t).filter (fun d => (e.touch t).isSt d .done) := by
          rw [List.mem_filter]
          refine ⟨hd, ?_⟩
          rw [isSt_iff]; exact ⟨y, by rw [entry_touch_other e t d hdt]; exact hy, hyd⟩
        split at h
        · rename_i hemp
          rw [List.isEmpty_iff] at hemp
          rw [hemp] at hdin; cases hdin
        · split at h
          · rename_i le ts hle hts
            split at h
            · rename_i hcmp
              obtain ⟨y', v, h1, h2, h3⟩ := lastEnd_spec _ _ _ hle d hdin
              rw [entry_touch_other e t d hdt, hy] at h1; injection h1 with h1; subst h1
              have hts' : o.startC = some ts := by
                have : ((e.touch t).entry t).bind (·.startC) = some ts := hts
                rw [entry_touch_same, hold] at this; simpa using this
              exact ⟨o, v, ts, hold, h2, hts', Nat.le_trans h3 hcmp⟩
            · cases h
          · cases h
      · split at h <;> cases h

/-- why `decide` says wait -/
theorem decide_wait_reason (c : Cfg) (e : Env) (left : List Nat) (t : Nat) (e' : Env) (hself : t ∉ c.depsOf t)
    (h : decide c e left t = (.wait, e')) :
    ∃ d ∈ c.depsOf t, d ∈ left ∨ e.entry d = none ∨ (∃ x, e.entry d = some x ∧ x.st = .pending) ∨
      (∃ x, e.entry d = some x ∧ x.st = .waiting) := by
  unfold decide at h
  simp only at h
  by_cases h1 : (c.depsOf t).any (fun d => left.contains d || (e.entry d).isNone || e.isSt d .pending) = true
  · simp only [List.any_eq_true, Bool.or_eq_true, List.contains_eq_mem, decide_eq_true_eq, Option.isNone_iff_eq_none] at h1
    obtain ⟨d, hd, hr⟩ := h1
    refine ⟨d, hd, ?_⟩
    rcases hr with (hr | hr) | hr
    · exact Or.inl hr
    · exact Or.inr (Or.inl hr)
    · exact Or.inr (Or.inr (Or.inl ((isSt_iff _ _ _).1 hr)))
  · rw [if_neg h1] at h
    split at h
    · cases h
    · split at h
      · split at h
        · cases h
        · split at h
          · split at h <;> cases h
          · cases h
      · split at h
        · cases h
        · rename_i hnd hall
          -- not every dependency is final: one of them is waiting (the others were excluded by the first test)
          have hex : ∃ d ∈ c.depsOf t, ¬ ((((e.touch t).setSt t .waiting).isSt d .done = true ∨
              ((e.touch t).setSt t .waiting).isSt d .failed = true) ∨ ((e.touch t).setSt t .waiting).isSt d .skipped = true) := by
            apply Classical.byContradiction
            intro hno
            apply hall
            simp only [List.all_eq_true, Bool.or_eq_true]
            intro d hd
            apply Classical.byContradiction
            intro hc
            exact hno ⟨d, hd, hc⟩
          obtain ⟨d, hd, hnf⟩ := hex
          simp only [List.any_eq_true, not_exists, not_and, Bool.or_eq_true, List.contains_eq_mem, decide_eq_true_eq,
            Option.isNone_iff_eq_none, not_or] at h1
          obtain ⟨⟨_, hpres⟩, hnp⟩ := h1 d hd
          refine ⟨d, hd, Or.inr (Or.inr (Or.inr ?_))⟩
          have hdt : d ≠ t := fun e => hself (e ▸ hd)
          have hfr : ((e.touch t).setSt t .waiting).entry d = e.entry d := by
            rw [entry_setSt_other _ _ _ _ hdt]; exact entry_touch_other e t d hdt
          cases hx : e.entry d with
          | none => exact absurd hx hpres
          | some x =>
            refine ⟨x, rfl, ?_⟩
            cases hs : x.st with
            | waiting => rfl
            | pending => exact absurd ((isSt_iff _ _ _).2 ⟨x, hx, hs⟩) hnp
            | done => exfalso; apply hnf; left; left; rw [isSt_iff]; exact ⟨x, by rw [hfr, hx], hs⟩
            | failed => exfalso; apply hnf; left; right; rw [isSt_iff]; exact ⟨x, by rw [hfr, hx], hs⟩
            | skipped => exfalso; apply hnf; right; rw [isSt_iff]; exact ⟨x, by rw [hfr, hx], hs⟩

/-- reachable states -/
inductive Reach (c : Cfg) (s0 : State) : State → Prop
  | init : Reach c s0 s0
  | step {s s'} : Reach c s0 s → Step c s s' → Reach c s0 s'

end Sched
