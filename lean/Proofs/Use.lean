import Model.Use
/-! Helper lemmas for C15: association lists, freshness of task ids, stability of names. -/
set_option linter.unusedSimpArgs false
set_option linter.unusedVariables false
namespace UseM

theorem lookup_append {α β : Type} [DecidableEq α] (l : List (α × β)) (k a : α) (v : β) :
    lookup (l ++ [(k, v)]) a = match lookup l a with
      | some x => some x
      | none => if k = a then some v else none := by
  induction l with
  | nil => simp [lookup]
  | cons hd tl ih =>
    obtain ⟨k', v'⟩ := hd
    simp only [List.cons_append, lookup]
    split
    · rfl
    · exact ih

theorem lookup_some_mem {α β : Type} [DecidableEq α] {l : List (α × β)} {a : α} {v : β}
    (h : lookup l a = some v) : (a, v) ∈ l := by
  induction l with
  | nil => simp [lookup] at h
  | cons hd tl ih =>
    obtain ⟨k', v'⟩ := hd
    simp only [lookup] at h
    split at h
    · rename_i hk; injection h with h; subst hk; subst h; simp
    · exact List.mem_cons_of_mem _ (ih h)

theorem lookup_none_of_not_mem {α β : Type} [DecidableEq α] {l : List (α × β)} {a : α}
    (h : ∀ p ∈ l, p.1 ≠ a) : lookup l a = none := by
  induction l with
  | nil => rfl
  | cons hd tl ih =>
    obtain ⟨k', v'⟩ := hd
    simp only [lookup]
    have : k' ≠ a := h (k', v') (by simp)
    simp only [this, if_false]
    exact ih (fun p hp => h p (by simp [hp]))

/-- well-formed state: every recorded task id is below `next`; every cached task records its request -/
structure Good (st : St) : Prop where
  names_lt : ∀ p ∈ st.names, p.1 < st.next
  beh_lt : ∀ p ∈ st.behaviour, p.1 < st.next
  cache_beh : ∀ e ∈ st.useCache, lookup st.behaviour e.2.1 = some (.use e.2.2)
  cache_lt : ∀ e ∈ st.useCache, e.2.1 < st.next

/-- `st'` extends `st`: nothing recorded is forgotten or changed -/
structure Ext (st st' : St) : Prop where
  next_le : st.next ≤ st'.next
  names : ∀ t, t < st.next → lookup st'.names t = lookup st.names t
  beh : ∀ t, t < st.next → lookup st'.behaviour t = lookup st.behaviour t
  cache : ∃ l, st'.useCache = st.useCache ++ l

theorem Ext.refl (st : St) : Ext st st := ⟨Nat.le_refl _, fun _ _ => rfl, fun _ _ => rfl, ⟨[], by simp⟩⟩

theorem Ext.trans {a b c : St} (h1 : Ext a b) (h2 : Ext b c) : Ext a c :=
  ⟨Nat.le_trans h1.next_le h2.next_le,
   fun t ht => (h2.names t (Nat.lt_of_lt_of_le ht h1.next_le)).trans (h1.names t ht),
   fun t ht => (h2.beh t (Nat.lt_of_lt_of_le ht h1.next_le)).trans (h1.beh t ht),
   by obtain ⟨l1, e1⟩ := h1.cache; obtain ⟨l2, e2⟩ := h2.cache
      exact ⟨l1 ++ l2, by rw [e2, e1, List.append_assoc]⟩⟩

theorem Good.init : Good St.init := by
  constructor <;> simp [St.init, lookup]

theorem newTask_spec {st : St} (h : Good st) (name : String) (b : Behaviour) :
    let r := st.newTask name b
    r.1 = st.next ∧ r.2.next = st.next + 1 ∧ lookup r.2.names st.next = some name ∧
    lookup r.2.behaviour st.next = some b ∧
    (∀ t, t < st.next → lookup r.2.names t = lookup st.names t) ∧
    (∀ t, t < st.next → lookup r.2.behaviour t = lookup st.behaviour t) ∧
    r.2.useCache = st.useCache ∧ r.2.factories = st.factories := by
  have hn : lookup st.names st.next = none :=
    lookup_none_of_not_mem (fun p hp => Nat.ne_of_lt (h.names_lt p hp))
  have hb : lookup st.behaviour st.next = none :=
    lookup_none_of_not_mem (fun p hp => Nat.ne_of_lt (h.beh_lt p hp))
  refine ⟨rfl, rfl, ?_, ?_, ?_, ?_, rfl, rfl⟩
  · simp [St.newTask, lookup_append, hn]
  · simp [St.newTask, lookup_append, hb]
  · intro t ht
    simp only [St.newTask, lookup_append]
    cases lookup st.names t with
    | some x => rfl
    | none =>
      have : ¬ st.next = t := Nat.ne_of_gt ht
      simp [this]
  · intro t ht
    simp only [St.newTask, lookup_append]
    cases lookup st.behaviour t with
    | some x => rfl
    | none =>
      have : ¬ st.next = t := Nat.ne_of_gt ht
      simp [this]

/-- names of tasks below `next` do not depend on later history -/
theorem nameOf_ext {st st' : St} (h : Ext st st') (t : Nat) (ht : t < st.next) : st'.nameOf t = st.nameOf t := by
  simp [St.nameOf, h.names t ht]

theorem nodup_eraseDups (l : List Nat) : l.eraseDups.Nodup := by
  match l with
  | [] => simp
  | a :: as =>
    rw [List.eraseDups_cons, List.nodup_cons]
    refine ⟨?_, nodup_eraseDups _⟩
    rw [List.mem_eraseDups]; simp
termination_by l.length
decreasing_by
  simp only [List.length_cons]
  exact Nat.lt_succ_of_le (List.length_filter_le _ _)

end UseM
