import Mathlib.Analysis.Real.Sqrt
import Model.Num

/-!
# XReal — exact IEEE-like numbers

`nan | ninf | fin x | pinf` with IEEE-754 rules on the special values and **exact** real arithmetic on the
finite ones.  Not modelled (trusted base): rounding, overflow of finite operations to ±∞, signed zeros
(`x / 0` is `+∞` for `x > 0`, `-∞` for `x < 0`: the sign of zero is taken positive).
-/
noncomputable section

inductive XReal where
  | nan
  | ninf
  | fin (x : ℝ)
  | pinf

namespace XReal

def add : XReal → XReal → XReal
  | nan, _ | _, nan => nan
  | pinf, ninf | ninf, pinf => nan
  | pinf, _ | _, pinf => pinf
  | ninf, _ | _, ninf => ninf
  | fin x, fin y => fin (x + y)

def neg : XReal → XReal
  | nan => nan
  | pinf => ninf
  | ninf => pinf
  | fin x => fin (-x)

def sub (a b : XReal) : XReal := add a (neg b)

def mul : XReal → XReal → XReal
  | nan, _ | _, nan => nan
  | fin x, fin y => fin (x * y)
  | pinf, pinf | ninf, ninf => pinf
  | pinf, ninf | ninf, pinf => ninf
  | pinf, fin y | fin y, pinf => if y = 0 then nan else if 0 < y then pinf else ninf
  | ninf, fin y | fin y, ninf => if y = 0 then nan else if 0 < y then ninf else pinf

def div : XReal → XReal → XReal
  | nan, _ | _, nan => nan
  | fin x, fin y => if y = 0 then (if x = 0 then nan else if 0 < x then pinf else ninf) else fin (x / y)
  | fin _, pinf | fin _, ninf => fin 0
  | pinf, fin y => if 0 ≤ y then pinf else ninf
  | ninf, fin y => if 0 ≤ y then ninf else pinf
  | pinf, pinf | pinf, ninf | ninf, pinf | ninf, ninf => nan

def sqrt : XReal → XReal
  | nan => nan
  | ninf => nan
  | pinf => pinf
  | fin x => if x < 0 then nan else fin (Real.sqrt x)

def abs : XReal → XReal
  | nan => nan
  | ninf => pinf
  | pinf => pinf
  | fin x => fin |x|

open Classical in
def lt : XReal → XReal → Bool
  | nan, _ | _, nan => false
  | ninf, ninf => false
  | ninf, _ => true
  | _, ninf => false
  | pinf, _ => false
  | fin _, pinf => true
  | fin x, fin y => decide (x < y)

open Classical in
def le : XReal → XReal → Bool
  | nan, _ | _, nan => false
  | ninf, _ => true
  | _, pinf => true
  | pinf, _ => false
  | fin _, ninf => false
  | fin x, fin y => decide (x ≤ y)

open Classical in
def beq : XReal → XReal → Bool
  | nan, _ | _, nan => false
  | ninf, ninf | pinf, pinf => true
  | fin x, fin y => decide (x = y)
  | _, _ => false

def isNaN : XReal → Bool
  | nan => true
  | _ => false

instance : Num XReal where
  add := add
  sub := sub
  mul := mul
  div := div
  neg := neg
  sqrt := sqrt
  abs := abs
  ofNat := fun n => fin n
  lt := lt
  le := le
  beq := beq
  isNaN := isNaN

/-! ### order laws -/

theorem lt_irrefl (a : XReal) : lt a a = false := by
  cases a <;> simp [lt]

theorem le_of_lt {a b : XReal} (h : lt a b = true) : le a b = true := by
  cases a <;> cases b <;> simp_all [lt, le] <;> exact _root_.le_of_lt h

theorem lt_trans {a b c : XReal} (h1 : lt a b = true) (h2 : lt b c = true) : lt a c = true := by
  cases a <;> cases b <;> cases c <;> simp_all [lt] <;> exact _root_.lt_trans h1 h2

theorem le_trans {a b c : XReal} (h1 : le a b = true) (h2 : le b c = true) : le a c = true := by
  cases a <;> cases b <;> cases c <;> simp_all [le] <;> exact _root_.le_trans h1 h2

theorem lt_of_lt_of_le {a b c : XReal} (h1 : lt a b = true) (h2 : le b c = true) : lt a c = true := by
  cases a <;> cases b <;> cases c <;> simp_all [lt, le] <;> exact _root_.lt_of_lt_of_le h1 h2

theorem lt_of_le_of_lt {a b c : XReal} (h1 : le a b = true) (h2 : lt b c = true) : lt a c = true := by
  cases a <;> cases b <;> cases c <;> simp_all [lt, le] <;> exact _root_.lt_of_le_of_lt h1 h2

theorem le_total_of_not_nan {a b : XReal} (ha : isNaN a = false) (hb : isNaN b = false) :
    le a b = true ∨ le b a = true := by
  cases a <;> cases b <;> simp_all [le, isNaN] <;> exact _root_.le_total _ _

theorem not_le_iff_lt {a b : XReal} (ha : isNaN a = false) (hb : isNaN b = false) :
    (!le a b) = lt b a := by
  cases a <;> cases b <;> simp_all [le, lt, isNaN]
  rename_i x y
  by_cases h : y < x
  · simp [h, not_le.mpr h]
  · simp [h, not_lt.mp h]

theorem lt_nan (a : XReal) : lt a nan = false := by cases a <;> simp [lt]
theorem nan_lt (a : XReal) : lt nan a = false := by cases a <;> simp [lt]
theorem le_nan (a : XReal) : le a nan = false := by cases a <;> simp [le]
theorem nan_le (a : XReal) : le nan a = false := by cases a <;> simp [le]

end XReal
