import Proofs.DepGraphGraft
/-! `flatten(recurse=True)` on a graph whose nested graphs hold plain nodes only (one level of nesting, the case of the
scheduler's groups of tasks): the loop returns after one round of grafts and the result has no nested node left.
Every graft of the round succeeds: the nested nodes still to be grafted stay nodes of the graph, and what a graft brings
in (the nodes of the nested graph) is plain. -/
set_option linter.unusedVariables false
namespace DG

/-- a node of the grafted graph is a node of the old graph other than `x`, or a node of the nested graph -/
theorem graft_node_sub {g sub g' : G} {x : Nat}
    (n : ∀ z, g'.Node z ↔ (g.Node z ∧ z ≠ x) ∨ sub.Node z ∨ ∃ w, Added g sub x z w ∨ Added g sub x w z)
    (z : Nat) (hz : g'.Node z) : (g.Node z ∧ z ≠ x) ∨ sub.Node z := by
  rcases (n z).1 hz with h | h | ⟨w, h | h⟩
  · exact Or.inl h
  · exact Or.inr h
  · rcases h with ⟨ht, _⟩ | ⟨⟨he, hne⟩, _⟩ | ⟨_, ⟨he, hne⟩, _⟩
    · exact Or.inr ht.1
    · exact Or.inl ⟨(edge_nodes he).1, hne⟩
    · exact Or.inl ⟨(edge_nodes he).1, hne⟩
  · rcases h with ⟨_, he, hne⟩ | ⟨_, hi⟩ | ⟨_, _, he, hne⟩
    · exact Or.inl ⟨(edge_nodes he).2, hne⟩
    · exact Or.inr hi.1
    · exact Or.inl ⟨(edge_nodes he).2, hne⟩

/-- what the store holds for the nested nodes of a list: a well-formed graph of plain nodes -/
def PlainStore (store : Nat → Option G) (l : List Nat) : Prop :=
  ∀ x ∈ l, ∃ sub, store (x - nestedBase) = some sub ∧ GInv sub ∧ ∀ z, sub.Node z → z < nestedBase

theorem graft_round_plain (store : Nat → Option G) :
    ∀ (l : List Nat) (g : G), GInv g → l.Nodup → (∀ x ∈ l, g.Node x) →
      (∀ z, g.Node z → nestedBase ≤ z → z ∈ l) → PlainStore store l →
      ∃ g', l.foldlM (graftNested store) g = .ok g' ∧ GInv g' ∧ ∀ z, g'.Node z → z < nestedBase := by
  intro l
  induction l with
  | nil =>
    intro g hg _ _ hnest _
    refine ⟨g, rfl, hg, ?_⟩
    intro z hz
    by_cases h : nestedBase ≤ z
    · exact absurd (hnest z hz h) (by simp)
    · omega
  | cons x xs ih =>
    intro g hg hnd hnodes hnest hstore
    obtain ⟨sub, hsub, hsinv, hsplain⟩ := hstore x (by simp)
    obtain ⟨g2, hgr, hg2, n, _⟩ := graft_refines hg hsinv (hnodes x (by simp))
    have hnd' := List.nodup_cons.1 hnd
    have step : graftNested store g x = .ok g2 := by
      unfold graftNested; rw [hsub]; exact hgr
    rw [List.foldlM_cons, step]
    show ∃ g', xs.foldlM (graftNested store) g2 = .ok g' ∧ _
    apply ih g2 hg2 hnd'.2
    · intro y hy
      have hne : y ≠ x := fun e => hnd'.1 (e ▸ hy)
      exact (n y).2 (Or.inl ⟨hnodes y (by simp [hy]), hne⟩)
    · intro z hz hbase
      rcases graft_node_sub n z hz with ⟨hzg, hne⟩ | hzs
      · have := hnest z hzg hbase
        rcases List.mem_cons.1 this with e | h
        · exact absurd e hne
        · exact h
      · have := hsplain z hzs
        omega
    · intro y hy; exact hstore y (by simp [hy])

/-- **`flatten(recurse=True)` returns after one round when the nested graphs hold plain nodes only**, and leaves plain
nodes only (two rounds of the loop: the round of grafts, and the look that finds nothing left) -/
theorem flatten_depth_one (store : Nat → Option G) (g : G) (hg : GInv g)
    (hstore : PlainStore store (g.nodes.seq.filter (· ≥ nestedBase))) :
    ∃ g', flattenLoop store true 2 g = .ok g' ∧ GInv g' ∧ ∀ z, g'.Node z → z < nestedBase := by
  rw [flattenLoop]
  by_cases hemp : (g.nodes.seq.filter (· ≥ nestedBase)).isEmpty = true
  · simp only [hemp, if_true]
    refine ⟨g, rfl, hg, ?_⟩
    intro z hz
    by_cases h : nestedBase ≤ z
    · have : z ∈ g.nodes.seq.filter (· ≥ nestedBase) := List.mem_filter.2 ⟨hz, by simpa using h⟩
      have he : g.nodes.seq.filter (· ≥ nestedBase) = [] := by simpa using hemp
      rw [he] at this; cases this
    · omega
  · simp only [hemp, Bool.false_eq_true, if_false, bind, Except.bind]
    obtain ⟨g1, hf, hg1, hplain⟩ := graft_round_plain store (g.nodes.seq.filter (· ≥ nestedBase)) g hg
      (hg.nodup.filter _) (fun x hx => (List.mem_filter.1 hx).1)
      (fun z hz hb => List.mem_filter.2 ⟨hz, by simpa using hb⟩) hstore
    rw [hf]
    simp only [if_true]
    rw [flattenLoop]
    have he : (g1.nodes.seq.filter (· ≥ nestedBase)).isEmpty = true := by
      rw [List.isEmpty_iff]
      apply List.filter_eq_nil_iff.2
      intro z hz
      have := hplain z hz
      simp only [ge_iff_le, decide_eq_true_eq]
      omega
    simp only [he, if_true]
    exact ⟨g1, rfl, hg1, hplain⟩

/-- more rounds than needed change nothing -/
theorem flattenLoop_succ (store : Nat → Option G) (r : Bool) :
    ∀ (fuel : Nat) (g g' : G), flattenLoop store r fuel g = .ok g' → flattenLoop store r (fuel + 1) g = .ok g' := by
  intro fuel
  induction fuel with
  | zero => intro g g' h; rw [flattenLoop] at h; cases h
  | succ n ih =>
    intro g g' h
    rw [flattenLoop] at h ⊢
    by_cases hemp : (g.nodes.seq.filter (· ≥ nestedBase)).isEmpty = true
    · simp only [hemp, if_true] at h ⊢; exact h
    · simp only [hemp, Bool.false_eq_true, if_false, bind, Except.bind] at h ⊢
      cases hf : (g.nodes.seq.filter (· ≥ nestedBase)).foldlM (graftNested store) g with
      | error e => rw [hf] at h; cases h
      | ok g1 =>
        rw [hf] at h
        simp only at h ⊢
        cases r with
        | false => exact h
        | true => simp only [if_true] at h ⊢; exact ih g1 g' h

theorem flattenLoop_mono (store : Nat → Option G) (r : Bool) (fuel k : Nat) (g g' : G)
    (h : flattenLoop store r fuel g = .ok g') : flattenLoop store r (fuel + k) g = .ok g' := by
  induction k with
  | zero => exact h
  | succ k ih => exact flattenLoop_succ store r _ g g' ih

end DG
