import Proofs.SchedLive
/-! Termination of the scheduler model (C03): a natural-number measure that strictly decreases at every step of every
thread.  Hence every execution is finite, with an explicit bound on its length. -/
set_option linter.unusedVariables false
set_option linter.unusedSimpArgs false
namespace Sched

/-- the unit of "credit": larger than anything one pass of the master can cost -/
def KK (c : Cfg) : Nat := 12 * c.n + 20

/-- weight of a worker: what it still has to do, plus one credit while it still has to notify the master -/
def wt (K : Nat) : WPc → Nat
  | .notStarted => 3
  | .begin => 2
  | .get => 1
  | .timeStart _ => K + 9
  | .timeEnd _ _ => K + 8
  | .apply _ _ _ => K + 7
  | .clocks _ _ _ => K + 6
  | .status _ => K + 5
  | .taskDone => K + 4
  | .cacq => K + 3
  | .notify => K + 2
  | .sentinelDone => 2
  | .exited => 0

def wsum (K : Nat) (f : Nat → WPc) : Nat → Nat
  | 0 => 0
  | n + 1 => wsum K f n + wt K (f n)

/-- weight of a queued item: a task carries a credit (it will be executed and notified), a sentinel does not -/
def wq (K : Nat) : Option Nat → Nat
  | some _ => K + 10
  | none => 3

def qsum (K : Nat) : List (Option Nat) → Nat
  | [] => 0
  | x :: xs => wq K x + qsum K xs

/-- rank of the master inside its current phase -/
def rank (c : Cfg) (m : MPc) (todo : Nat) : Nat :=
  let r0 := 6 * c.workers + 2
  match m with
  | .spawn k => r0 + 12 * c.n + 3 + 4 * (c.workers - k)
  | .acq => r0 + 12 * todo + 2
  | .consider => r0 + 12 * todo + 1
  | .put _ => r0 + 12 * todo
  | .wake => r0
  | .qjoin => r0
  | .sentinel k => 5 * (c.workers - k) + c.workers + 1
  | .joinW k => c.workers - k
  | .returned => 0
  | .raised => 0

/-- the measure -/
def mu (c : Cfg) (s : State) : Nat :=
  KK c * (s.nBefore + s.todo.length + s.left.length + (if s.notified then 1 else 0)) +
    (rank c s.mpc s.todo.length + wsum (KK c) s.wpc c.workers + qsum (KK c) s.queue)

theorem wsum_upd_ge (K : Nat) (f : Nat → WPc) (w : Nat) (pc : WPc) (n : Nat) (h : n ≤ w) :
    wsum K (upd f w pc) n = wsum K f n := by
  induction n with
  | zero => rfl
  | succ k ih =>
    have : k ≠ w := by omega
    simp only [wsum, ih (by omega), upd, this, if_false]

theorem wsum_upd (K : Nat) (f : Nat → WPc) (w : Nat) (pc : WPc) (n : Nat) (h : w < n) :
    wsum K (upd f w pc) n + wt K (f w) = wsum K f n + wt K pc := by
  induction n with
  | zero => omega
  | succ k ih =>
    by_cases hk : w = k
    · subst hk
      simp only [wsum, wsum_upd_ge K f w pc w (Nat.le_refl _), upd, if_true]
      omega
    · have hne : k ≠ w := fun e => hk e.symm
      have := ih (by omega)
      simp only [wsum, upd, hne, if_false]
      omega

theorem qsum_append (K : Nat) (q : List (Option Nat)) (x : Option Nat) : qsum K (q ++ [x]) = qsum K q + wq K x := by
  induction q with
  | nil => simp [qsum]
  | cons a r ih => simp only [List.cons_append, qsum, ih]; omega

/-- bookkeeping of the passes of the master -/
structure InvG (c : Cfg) (s : State) : Prop where
  nb_le : s.nBefore ≤ c.n
  pass : (s.mpc = .acq ∨ s.mpc = .consider ∨ ∃ t, s.mpc = .put t) → s.todo.length + s.left.length ≤ s.nBefore
  sleeping : s.mpc = .wake → s.left.length = s.nBefore ∧ s.todo = []
  spawning : ∀ k, s.mpc = .spawn k → s.nBefore = c.n ∧ s.todo.length = c.n ∧ s.left = []

/-- arithmetic of the measure: one credit pays for any growth below `K` -/
theorem dec_credit (K A A' B B' : Nat) (hA : A' + 1 ≤ A) (hB : B' < B + K) : K * A' + B' < K * A + B := by
  have : K * (A' + 1) ≤ K * A := Nat.mul_le_mul_left K hA
  rw [Nat.mul_add, Nat.mul_one] at this
  omega

theorem dec_same (K A A' B B' : Nat) (hA : A' ≤ A) (hB : B' < B) : K * A' + B' < K * A + B := by
  have : K * A' ≤ K * A := Nat.mul_le_mul_left K hA
  omega

/-- … and a worker that notifies hands its credit over to the `notified` flag -/
theorem dec_transfer (K A A' B B' : Nat) (hA : A' ≤ A + 1) (hB : B' + K < B) : K * A' + B' < K * A + B := by
  have : K * A' ≤ K * (A + 1) := Nat.mul_le_mul_left K hA
  rw [Nat.mul_add, Nat.mul_one] at this
  omega

theorem worker_lt {c : Cfg} {s : State} (hcc : InvC c s) (w : Nat) (h : s.wpc w ≠ .notStarted) : w < c.workers := by
  apply Classical.byContradiction
  intro hge
  exact h (hcc.unstarted w (by omega))

/-- a step of worker `w` that touches only its program counter, the queue, `unfinished`, the condition owner, the clock,
the environment and the counters: the measure goes down with the local weights -/
theorem mu_worker {c : Cfg} {s s' : State} (hm : s'.mpc = s.mpc) (ht : s'.todo = s.todo) (hl : s'.left = s.left)
    (hn : s'.nBefore = s.nBefore) (hnot : s'.notified = s.notified)
    (hB : wsum (KK c) s'.wpc c.workers + qsum (KK c) s'.queue < wsum (KK c) s.wpc c.workers + qsum (KK c) s.queue) :
    mu c s' < mu c s := by
  unfold mu
  rw [hm, ht, hl, hn, hnot]
  apply dec_same
  · exact Nat.le_refl _
  · omega

/-- what `advance` costs: whichever way the pass goes on (next task, end of the loop, sleep, new pass), the measure ends
at least one credit and eleven units below the "virtual" measure of the state it is applied to -/
theorem mu_advance (c : Cfg) (s1 : State) (h1 : s1.todo ≠ []) (h2 : s1.todo.length - 1 + s1.left.length ≤ s1.nBefore)
    (h3 : s1.nBefore ≤ c.n) :
    mu c (advance s1) + KK c + 11 ≤
      KK c * (s1.nBefore + s1.todo.length + s1.left.length + (if s1.notified then 1 else 0)) +
        (6 * c.workers + 2 + 12 * s1.todo.length + wsum (KK c) s1.wpc c.workers + qsum (KK c) s1.queue) := by
  have hK : KK c = 12 * c.n + 20 := rfl
  obtain ⟨x, tl, htodo⟩ : ∃ x tl, s1.todo = x :: tl := by
    cases hh : s1.todo with
    | nil => exact absurd hh h1
    | cons x tl => exact ⟨x, tl, rfl⟩
  have htail : s1.todo.tail = tl := by rw [htodo]; rfl
  have hlen : s1.todo.length = tl.length + 1 := by rw [htodo]; rfl
  rw [hlen] at h2 ⊢
  rcases advance_cases s1 with ⟨hne, he⟩ | ⟨hnil, hl, he⟩ | ⟨hnil, hl, hnb, he⟩ | ⟨hnil, hl, hnb, he⟩
  · rw [he]
    unfold mu
    simp only [rank, htail]
    simp only [Nat.mul_add, Nat.mul_one]
    omega
  · rw [he]
    have htl : tl = [] := by rw [← htail]; exact hnil
    unfold mu
    simp only [rank, hl, htl, List.length_nil]
    simp only [Nat.mul_add, Nat.mul_one, Nat.mul_zero, Nat.add_zero]
    omega
  · rw [he]
    have htl : tl = [] := by rw [← htail]; exact hnil
    unfold mu
    simp only [rank, htl, List.length_nil, Bool.false_eq_true, if_false]
    simp only [Nat.mul_add, Nat.mul_one, Nat.mul_zero, Nat.add_zero]
    have : KK c * (if s1.notified = true then 1 else 0) ≥ 0 := Nat.zero_le _
    omega
  · rw [he]
    have htl : tl = [] := by rw [← htail]; exact hnil
    rw [htl] at h2
    have hlt : s1.left.length + 1 ≤ s1.nBefore := by simp at h2; omega
    have hmul : KK c * (s1.left.length + 1) ≤ KK c * s1.nBefore := Nat.mul_le_mul_left _ hlt
    rw [Nat.mul_add, Nat.mul_one] at hmul
    unfold mu
    simp only [rank, htl, List.length_nil]
    simp only [Nat.mul_add, Nat.mul_one, Nat.mul_zero, Nat.add_zero]
    omega

/-- **the measure strictly decreases at every step of every thread** -/
theorem mu_decreases {c : Cfg} {s s' : State} (ha : InvA c s) (hcc : InvC c s) (hg : InvG c s) (hs : Step c s s') :
    mu c s' < mu c s := by
  have K0 : 0 < KK c := by unfold KK; omega
  cases hs with
  | wBegin w hpc =>
    have hlt := worker_lt hcc w (by rw [hpc]; simp)
    have := wsum_upd (KK c) s.wpc w .get c.workers hlt
    rw [hpc] at this
    refine mu_worker (by rfl) (by rfl) (by rfl) (by rfl) (by rfl) ?_
    show wsum (KK c) (upd s.wpc w .get) c.workers + qsum (KK c) s.queue < _
    simp only [wt] at this; omega
  | wGetTask w t rest hpc hq =>
    have hlt := worker_lt hcc w (by rw [hpc]; simp)
    have := wsum_upd (KK c) s.wpc w (.timeStart t) c.workers hlt
    rw [hpc] at this
    refine mu_worker (by rfl) (by rfl) (by rfl) (by rfl) (by rfl) ?_
    show wsum (KK c) (upd s.wpc w (.timeStart t)) c.workers + qsum (KK c) rest < _
    rw [hq]
    simp only [wt, qsum, wq] at this ⊢; omega
  | wGetSentinel w rest hpc hq =>
    have hlt := worker_lt hcc w (by rw [hpc]; simp)
    have := wsum_upd (KK c) s.wpc w .sentinelDone c.workers hlt
    rw [hpc] at this
    refine mu_worker (by rfl) (by rfl) (by rfl) (by rfl) (by rfl) ?_
    show wsum (KK c) (upd s.wpc w .sentinelDone) c.workers + qsum (KK c) rest < _
    rw [hq]
    simp only [wt, qsum, wq] at this ⊢; omega
  | wTimeStart w t hpc =>
    have hlt := worker_lt hcc w (by rw [hpc]; simp)
    have := wsum_upd (KK c) s.wpc w (.timeEnd t (s.clock + 1)) c.workers hlt
    rw [hpc] at this
    refine mu_worker (by rfl) (by rfl) (by rfl) (by rfl) (by rfl) ?_
    show wsum (KK c) (upd s.wpc w (.timeEnd t (s.clock + 1))) c.workers + qsum (KK c) s.queue < _
    simp only [wt] at this; omega
  | wTimeEnd w t a hpc =>
    have hlt := worker_lt hcc w (by rw [hpc]; simp)
    refine mu_worker (by rfl) (by rfl) (by rfl) (by rfl) (by rfl) ?_
    show wsum (KK c) (upd s.wpc w (if (c.outOf t).hasUpdate then .apply t a (s.clock + 1) else .clocks t a (s.clock + 1))) c.workers
      + qsum (KK c) s.queue < _
    split
    · have := wsum_upd (KK c) s.wpc w (.apply t a (s.clock + 1)) c.workers hlt
      rw [hpc] at this; simp only [wt] at this; omega
    · have := wsum_upd (KK c) s.wpc w (.clocks t a (s.clock + 1)) c.workers hlt
      rw [hpc] at this; simp only [wt] at this; omega
  | wApply w t a b hpc =>
    have hlt := worker_lt hcc w (by rw [hpc]; simp)
    have := wsum_upd (KK c) s.wpc w (.clocks t a b) c.workers hlt
    rw [hpc] at this
    refine mu_worker (by rfl) (by rfl) (by rfl) (by rfl) (by rfl) ?_
    show wsum (KK c) (upd s.wpc w (.clocks t a b)) c.workers + qsum (KK c) s.queue < _
    simp only [wt] at this; omega
  | wClocks w t a b hpc =>
    have hlt := worker_lt hcc w (by rw [hpc]; simp)
    have := wsum_upd (KK c) s.wpc w (.status t) c.workers hlt
    rw [hpc] at this
    refine mu_worker (by rfl) (by rfl) (by rfl) (by rfl) (by rfl) ?_
    show wsum (KK c) (upd s.wpc w (.status t)) c.workers + qsum (KK c) s.queue < _
    simp only [wt] at this; omega
  | wStatus w t hpc =>
    have hlt := worker_lt hcc w (by rw [hpc]; simp)
    have := wsum_upd (KK c) s.wpc w .taskDone c.workers hlt
    rw [hpc] at this
    refine mu_worker (by rfl) (by rfl) (by rfl) (by rfl) (by rfl) ?_
    show wsum (KK c) (upd s.wpc w .taskDone) c.workers + qsum (KK c) s.queue < _
    simp only [wt] at this; omega
  | wTaskDone w hpc hu =>
    have hlt := worker_lt hcc w (by rw [hpc]; simp)
    have := wsum_upd (KK c) s.wpc w .cacq c.workers hlt
    rw [hpc] at this
    refine mu_worker (by rfl) (by rfl) (by rfl) (by rfl) (by rfl) ?_
    show wsum (KK c) (upd s.wpc w .cacq) c.workers + qsum (KK c) s.queue < _
    simp only [wt] at this; omega
  | wCacq w hpc hcn =>
    have hlt := worker_lt hcc w (by rw [hpc]; simp)
    have := wsum_upd (KK c) s.wpc w .notify c.workers hlt
    rw [hpc] at this
    refine mu_worker (by rfl) (by rfl) (by rfl) (by rfl) (by rfl) ?_
    show wsum (KK c) (upd s.wpc w .notify) c.workers + qsum (KK c) s.queue < _
    simp only [wt] at this; omega
  | wNotify w hpc =>
    have hlt := worker_lt hcc w (by rw [hpc]; simp)
    have := wsum_upd (KK c) s.wpc w .get c.workers hlt
    rw [hpc] at this
    simp only [wt] at this
    unfold mu
    apply dec_transfer
    · show s.nBefore + s.todo.length + s.left.length + (if (s.notified || s.waiting) = true then 1 else 0) ≤ _
      cases s.notified <;> cases s.waiting <;> simp
    · show rank c s.mpc s.todo.length + wsum (KK c) (upd s.wpc w .get) c.workers + qsum (KK c) s.queue + KK c < _
      omega
  | wSentinelDone w hpc hu =>
    have hlt := worker_lt hcc w (by rw [hpc]; simp)
    have := wsum_upd (KK c) s.wpc w .exited c.workers hlt
    rw [hpc] at this
    refine mu_worker (by rfl) (by rfl) (by rfl) (by rfl) (by rfl) ?_
    show wsum (KK c) (upd s.wpc w .exited) c.workers + qsum (KK c) s.queue < _
    simp only [wt] at this; omega
  | mSpawn k hm =>
    have hst := hcc.started
    rw [hm] at hst
    obtain ⟨hk, hiff⟩ := hst
    have hns : s.wpc k = .notStarted := by
      cases hh : s.wpc k <;> first | rfl | (exact absurd ((hiff k hk).2 (by rw [hh]; simp)) (Nat.lt_irrefl k))
    have hws := wsum_upd (KK c) s.wpc k .begin c.workers hk
    rw [hns] at hws
    simp only [wt] at hws
    obtain ⟨_, htd, _⟩ := hg.spawning k hm
    unfold mu
    apply dec_same
    · exact Nat.le_refl _
    · show rank c (afterSpawn c k) s.todo.length + wsum (KK c) (upd s.wpc k .begin) c.workers + qsum (KK c) s.queue < _
      rw [hm]
      unfold afterSpawn
      split
      · simp only [rank]; omega
      · split
        · simp only [rank]; omega
        · simp only [rank]; omega
  | mAcq hm hcn =>
    unfold mu
    apply dec_same
    · exact Nat.le_refl _
    · show rank c .consider s.todo.length + _ + _ < _
      rw [hm]; simp only [rank]; omega
  | mPending t rest env' hm ht hd =>
    unfold mu
    apply dec_same
    · exact Nat.le_refl _
    · show rank c (.put t) s.todo.length + _ + _ < _
      rw [hm]; simp only [rank]; omega
  | mWake hm hn hcn =>
    obtain ⟨hl, htd⟩ := hg.sleeping hm
    have hK : KK c = 12 * c.n + 20 := rfl
    have := hg.nb_le
    unfold mu
    apply dec_credit
    · show s.left.length + s.left.length + ([] : List Nat).length + (if false = true then 1 else 0) + 1 ≤ _
      rw [htd, hn]; simp; omega
    · show rank c .acq s.left.length + _ + _ < _
      rw [hm]; simp only [rank]; omega
  | mQjoin hm hu =>
    unfold mu
    apply dec_same
    · exact Nat.le_refl _
    · show rank c (if c.workers = 0 then .returned else .sentinel 0) s.todo.length + _ + _ < _
      rw [hm]
      split <;> simp only [rank] <;> omega
  | mSentinel k hm =>
    have hk := hcc.sentinel_lt k hm
    unfold mu
    apply dec_same
    · exact Nat.le_refl _
    · show rank c (if k + 1 < c.workers then .sentinel (k + 1) else .joinW 0) s.todo.length + _ + qsum (KK c) (s.queue ++ [none]) < _
      rw [hm, qsum_append]
      split <;> simp only [rank, wq] <;> omega
  | mJoin k hm he =>
    have hk := (hcc.join_lt k hm).1
    unfold mu
    apply dec_same
    · exact Nat.le_refl _
    · show rank c (if k + 1 < c.workers then .joinW (k + 1) else .returned) s.todo.length + _ + _ < _
      rw [hm]
      split <;> simp only [rank] <;> omega
  | mWait t rest env' hm ht hd =>
    have hp := hg.pass (Or.inr (Or.inl hm))
    have hadv := mu_advance c { s with env := env', left := s.left ++ [t] } (by show s.todo ≠ []; rw [ht]; simp)
      (by show s.todo.length - 1 + (s.left ++ [t]).length ≤ s.nBefore
          rw [ht] at hp ⊢; simp at hp ⊢; omega) hg.nb_le
    have e : (s.left ++ [t]).length = s.left.length + 1 := by simp
    have hadv' : mu c (advance { s with env := env', left := s.left ++ [t] }) + KK c + 11 ≤
        KK c * (s.nBefore + s.todo.length + (s.left.length + 1) + (if s.notified then 1 else 0)) +
          (6 * c.workers + 2 + 12 * s.todo.length + wsum (KK c) s.wpc c.workers + qsum (KK c) s.queue) := by
      rw [← e]; exact hadv
    have hs : mu c s = KK c * (s.nBefore + s.todo.length + s.left.length + (if s.notified then 1 else 0)) +
        (rank c .consider s.todo.length + wsum (KK c) s.wpc c.workers + qsum (KK c) s.queue) := by
      unfold mu; rw [hm]
    rw [hs]
    simp only [rank]
    simp only [Nat.mul_add, Nat.mul_one] at hadv' ⊢
    omega
  | mSkip t rest env' hm ht hd =>
    have hp := hg.pass (Or.inr (Or.inl hm))
    have hadv := mu_advance c { s with env := env' } (by show s.todo ≠ []; rw [ht]; simp)
      (by show s.todo.length - 1 + s.left.length ≤ s.nBefore; omega) hg.nb_le
    have hadv' : mu c (advance { s with env := env' }) + KK c + 11 ≤
        KK c * (s.nBefore + s.todo.length + s.left.length + (if s.notified then 1 else 0)) +
          (6 * c.workers + 2 + 12 * s.todo.length + wsum (KK c) s.wpc c.workers + qsum (KK c) s.queue) := hadv
    have hs : mu c s = KK c * (s.nBefore + s.todo.length + s.left.length + (if s.notified then 1 else 0)) +
        (rank c .consider s.todo.length + wsum (KK c) s.wpc c.workers + qsum (KK c) s.queue) := by
      unfold mu; rw [hm]
    rw [hs]
    simp only [rank]
    omega
  | mDrop t rest env' hm ht hd =>
    have hp := hg.pass (Or.inr (Or.inl hm))
    have hadv := mu_advance c { s with env := env' } (by show s.todo ≠ []; rw [ht]; simp)
      (by show s.todo.length - 1 + s.left.length ≤ s.nBefore; omega) hg.nb_le
    have hadv' : mu c (advance { s with env := env' }) + KK c + 11 ≤
        KK c * (s.nBefore + s.todo.length + s.left.length + (if s.notified then 1 else 0)) +
          (6 * c.workers + 2 + 12 * s.todo.length + wsum (KK c) s.wpc c.workers + qsum (KK c) s.queue) := hadv
    have hs : mu c s = KK c * (s.nBefore + s.todo.length + s.left.length + (if s.notified then 1 else 0)) +
        (rank c .consider s.todo.length + wsum (KK c) s.wpc c.workers + qsum (KK c) s.queue) := by
      unfold mu; rw [hm]
    rw [hs]
    simp only [rank]
    omega
  | mPut t hm =>
    have hp := hg.pass (Or.inr (Or.inr ⟨t, hm⟩))
    obtain ⟨rest, hr⟩ := ha.put_head t hm
    have hadv := mu_advance c { s with queue := s.queue ++ [some t], unfinished := s.unfinished + 1 }
      (by show s.todo ≠ []; rw [hr]; simp) (by show s.todo.length - 1 + s.left.length ≤ s.nBefore; omega) hg.nb_le
    have hadv' : mu c (advance { s with queue := s.queue ++ [some t], unfinished := s.unfinished + 1 }) + KK c + 11 ≤
        KK c * (s.nBefore + s.todo.length + s.left.length + (if s.notified then 1 else 0)) +
          (6 * c.workers + 2 + 12 * s.todo.length + wsum (KK c) s.wpc c.workers + (qsum (KK c) s.queue + (KK c + 10))) := by
      have := hadv
      rw [show qsum (KK c) (s.queue ++ [some t]) = qsum (KK c) s.queue + (KK c + 10) from qsum_append _ _ _] at this
      exact this
    have hs : mu c s = KK c * (s.nBefore + s.todo.length + s.left.length + (if s.notified then 1 else 0)) +
        (rank c (.put t) s.todo.length + wsum (KK c) s.wpc c.workers + qsum (KK c) s.queue) := by
      unfold mu; rw [hm]
    rw [hs]
    simp only [rank]
    omega

theorem InvG.transfer {c : Cfg} {s s' : State} (h : InvG c s) (hm : s'.mpc = s.mpc) (ht : s'.todo = s.todo)
    (hl : s'.left = s.left) (hn : s'.nBefore = s.nBefore) : InvG c s' := by
  refine ⟨by rw [hn]; exact h.nb_le, ?_, ?_, ?_⟩
  · intro hh; rw [ht, hl, hn]; rw [hm] at hh; exact h.pass hh
  · intro hh; rw [hl, hn, ht]; rw [hm] at hh; exact h.sleeping hh
  · intro k hh; rw [hn, ht, hl]; rw [hm] at hh; exact h.spawning k hh

/-- the pass bookkeeping after `advance` -/
theorem InvG_advance {c : Cfg} (s1 : State) (h1 : s1.todo ≠ []) (h2 : s1.todo.length - 1 + s1.left.length ≤ s1.nBefore)
    (h3 : s1.nBefore ≤ c.n) : InvG c (advance s1) := by
  have hlen : s1.todo.tail.length = s1.todo.length - 1 := by simp
  rcases advance_cases s1 with ⟨hne, he⟩ | ⟨hnil, hl, he⟩ | ⟨hnil, hl, hnb, he⟩ | ⟨hnil, hl, hnb, he⟩
  · rw [he]
    refine ⟨h3, ?_, ?_, ?_⟩
    · intro _; show s1.todo.tail.length + s1.left.length ≤ s1.nBefore; omega
    · intro hh; cases hh
    · intro k hh; cases hh
  · rw [he]
    refine ⟨h3, ?_, ?_, ?_⟩
    · rintro (hh | hh | ⟨t, hh⟩) <;> cases hh
    · intro hh; cases hh
    · intro k hh; cases hh
  · rw [he]
    refine ⟨h3, ?_, ?_, ?_⟩
    · rintro (hh | hh | ⟨t, hh⟩) <;> cases hh
    · intro _; exact ⟨hnb.symm, rfl⟩
    · intro k hh; cases hh
  · rw [he]
    have h0 : s1.todo.tail.length = 0 := by rw [hnil]; rfl
    have : s1.left.length ≤ s1.nBefore := by omega
    refine ⟨by show s1.left.length ≤ c.n; omega, ?_, ?_, ?_⟩
    · intro _; show s1.left.length + ([] : List Nat).length ≤ s1.left.length; simp
    · intro hh; cases hh
    · intro k hh; cases hh

theorem InvG_step {c : Cfg} {s s' : State} (ha : InvA c s) (hcc : InvC c s) (h : InvG c s) (hs : Step c s s') : InvG c s' := by
  cases hs with
  | mSpawn k hm =>
    obtain ⟨h1, h2, h3⟩ := h.spawning k hm
    refine ⟨h.nb_le, ?_, ?_, ?_⟩
    · intro _; show s.todo.length + s.left.length ≤ s.nBefore; rw [h3]; simp; omega
    · intro hh
      exfalso; revert hh; show afterSpawn c k = _ → False; unfold afterSpawn; split <;> (try split) <;> simp
    · intro k' _; exact ⟨h1, h2, h3⟩
  | mAcq hm hcn =>
    refine ⟨h.nb_le, fun _ => h.pass (Or.inl hm), fun hh => (by cases hh), fun k hh => (by cases hh)⟩
  | mPending t rest env' hm ht hd =>
    refine ⟨h.nb_le, fun _ => h.pass (Or.inr (Or.inl hm)), fun hh => (by cases hh), fun k hh => (by cases hh)⟩
  | mWake hm hn hcn =>
    obtain ⟨hl, htd⟩ := h.sleeping hm
    refine ⟨by show s.left.length ≤ c.n; rw [hl]; exact h.nb_le, ?_, fun hh => (by cases hh), fun k hh => (by cases hh)⟩
    intro _; show s.left.length + ([] : List Nat).length ≤ s.left.length; simp
  | mQjoin hm hu =>
    refine ⟨h.nb_le, ?_, ?_, ?_⟩
    · rintro (hh | hh | ⟨t, hh⟩) <;> (exfalso; revert hh; show (if c.workers = 0 then MPc.returned else MPc.sentinel 0) = _ → False; split <;> simp)
    · intro hh; exfalso; revert hh; show (if c.workers = 0 then MPc.returned else MPc.sentinel 0) = _ → False; split <;> simp
    · intro k hh; exfalso; revert hh; show (if c.workers = 0 then MPc.returned else MPc.sentinel 0) = _ → False; split <;> simp
  | mSentinel k hm =>
    refine ⟨h.nb_le, ?_, ?_, ?_⟩
    · rintro (hh | hh | ⟨t, hh⟩) <;> (exfalso; revert hh; show (if k + 1 < c.workers then MPc.sentinel (k + 1) else MPc.joinW 0) = _ → False; split <;> simp)
    · intro hh; exfalso; revert hh; show (if k + 1 < c.workers then MPc.sentinel (k + 1) else MPc.joinW 0) = _ → False; split <;> simp
    · intro k' hh; exfalso; revert hh; show (if k + 1 < c.workers then MPc.sentinel (k + 1) else MPc.joinW 0) = _ → False; split <;> simp
  | mJoin k hm he =>
    refine ⟨h.nb_le, ?_, ?_, ?_⟩
    · rintro (hh | hh | ⟨t, hh⟩) <;> (exfalso; revert hh; show (if k + 1 < c.workers then MPc.joinW (k + 1) else MPc.returned) = _ → False; split <;> simp)
    · intro hh; exfalso; revert hh; show (if k + 1 < c.workers then MPc.joinW (k + 1) else MPc.returned) = _ → False; split <;> simp
    · intro k' hh; exfalso; revert hh; show (if k + 1 < c.workers then MPc.joinW (k + 1) else MPc.returned) = _ → False; split <;> simp
  | mWait t rest env' hm ht hd =>
    have hp := h.pass (Or.inr (Or.inl hm))
    exact InvG_advance _ (by show s.todo ≠ []; rw [ht]; simp)
      (by show s.todo.length - 1 + (s.left ++ [t]).length ≤ s.nBefore; rw [ht] at hp ⊢; simp at hp ⊢; omega) h.nb_le
  | mSkip t rest env' hm ht hd =>
    have hp := h.pass (Or.inr (Or.inl hm))
    exact InvG_advance _ (by show s.todo ≠ []; rw [ht]; simp)
      (by show s.todo.length - 1 + s.left.length ≤ s.nBefore; omega) h.nb_le
  | mDrop t rest env' hm ht hd =>
    have hp := h.pass (Or.inr (Or.inl hm))
    exact InvG_advance _ (by show s.todo ≠ []; rw [ht]; simp)
      (by show s.todo.length - 1 + s.left.length ≤ s.nBefore; omega) h.nb_le
  | mPut t hm =>
    have hp := h.pass (Or.inr (Or.inr ⟨t, hm⟩))
    obtain ⟨rest, hr⟩ := ha.put_head t hm
    exact InvG_advance _ (by show s.todo ≠ []; rw [hr]; simp)
      (by show s.todo.length - 1 + s.left.length ≤ s.nBefore; omega) h.nb_le
  | wBegin _ _ | wGetTask _ _ _ _ _ | wGetSentinel _ _ _ _ | wTimeStart _ _ _ | wTimeEnd _ _ _ _ | wApply _ _ _ _ _
  | wClocks _ _ _ _ _ | wStatus _ _ _ | wTaskDone _ _ _ | wCacq _ _ _ | wNotify _ _ | wSentinelDone _ _ _ =>
    exact h.transfer rfl rfl rfl rfl

end Sched
