import Proofs.Sched
/-! The safety invariant of the scheduler model (C01, C02, C04) and its preservation by every step. -/
set_option linter.unusedVariables false
set_option linter.unusedSimpArgs false
namespace Sched

/-- a final entry whose results and clocks are in place if it is DONE -/
def Fin3 (x : Entry) : Prop :=
  x.st.final = true ∧ (x.st = .done → x.pay.isSome = true ∧ x.startC.isSome = true ∧ x.endC.isSome = true)

/-- dependency `d` has finished and published -/
def Pub (e : Env) (d : Nat) : Prop := ∃ x, e.entry d = some x ∧ Fin3 x

/-- the task a worker is working on -/
def held : WPc → Option Nat
  | .timeStart t | .timeEnd t _ | .apply t _ _ | .clocks t _ _ | .status t => some t
  | _ => none

/-- released by the master and not finished yet: queued, about to be queued, or in the hands of a worker -/
def InFlight (s : State) (t : Nat) : Prop := some t ∈ s.queue ∨ s.mpc = .put t ∨ ∃ w, held (s.wpc w) = some t

/-- no decision has been taken yet for `t` in this call -/
def Undecided (s : State) (t : Nat) : Prop := t ∈ s.todo ∨ t ∈ s.left

structure Cfg.WF (c : Cfg) : Prop where
  deps_lt : ∀ t, ∀ d ∈ c.depsOf t, d < t
  hard_sub : ∀ t, ∀ d ∈ c.hardOf t, d ∈ c.depsOf t

/-- a task is in flight at most once -/
structure Uniq (s : State) : Prop where
  queue_nodup : (s.queue.filterMap id).Nodup
  held_not_queued : ∀ w t, held (s.wpc w) = some t → some t ∉ s.queue ∧ s.mpc ≠ .put t
  held_once : ∀ w w' t, held (s.wpc w) = some t → held (s.wpc w') = some t → w = w'
  put_not_queued : ∀ t, s.mpc = .put t → some t ∉ s.queue

structure InvA (c : Cfg) (s : State) : Prop where
  uniq : Uniq s
  todo_sorted : s.todo.Pairwise (· < ·)
  left_sorted : s.left.Pairwise (· < ·)
  left_lt_todo : ∀ a ∈ s.left, ∀ b ∈ s.todo, a < b
  put_head : ∀ t, s.mpc = .put t → ∃ rest, s.todo = t :: rest
  inflight_deps : ∀ t, InFlight s t → ∀ d ∈ c.depsOf t, Pub s.env d ∧ ¬ Undecided s d
  inflight_pending : ∀ t, InFlight s t →
    (∃ x, s.env.entry t = some x ∧ x.st = .pending) ∧ (¬ Undecided s t ∨ s.mpc = .put t)
  decided_status : ∀ t, t < c.n → ¬ Undecided s t →
    ∃ x, s.env.entry t = some x ∧ (x.st = .pending ∨ x.st.final = true)
  done_pub : ∀ t x, s.env.entry t = some x → x.st = .done →
    x.pay.isSome = true ∧ x.startC.isSome = true ∧ x.endC.isSome = true
  status_local : ∀ w t, s.wpc w = .status t →
    ∃ x, s.env.entry t = some x ∧ x.startC.isSome = true ∧ x.endC.isSome = true ∧ (c.outOf t = .done → x.pay.isSome = true)
  clocks_local : ∀ w t a b, s.wpc w = .clocks t a b → c.outOf t = .done → ∃ x, s.env.entry t = some x ∧ x.pay.isSome = true
  seen_pub : ∀ t snap, s.seen t = some snap → ∀ x ∈ snap, ∃ y, x = some y ∧ Fin3 y
  undecided_lt : ∀ x, Undecided s x → x < c.n
  wake_todo : s.mpc = .wake → s.todo = []

/-! ### `advance` -/

theorem passEnd_fields (s : State) :
    (passEnd s).env = s.env ∧ (passEnd s).queue = s.queue ∧ (passEnd s).wpc = s.wpc ∧ (passEnd s).seen = s.seen ∧
    (passEnd s).execCount = s.execCount ∧ (passEnd s).clock = s.clock ∧ (passEnd s).unfinished = s.unfinished ∧
    (∀ t, (passEnd s).mpc ≠ .put t) := by
  unfold passEnd
  split
  · simp
  · split <;> simp

theorem advance_fields (s : State) :
    (advance s).env = s.env ∧ (advance s).queue = s.queue ∧ (advance s).wpc = s.wpc ∧ (advance s).seen = s.seen ∧
    (advance s).execCount = s.execCount ∧ (advance s).clock = s.clock ∧ (advance s).unfinished = s.unfinished ∧
    (∀ t, (advance s).mpc ≠ .put t) := by
  unfold advance
  simp only
  split
  · have := passEnd_fields { s with todo := s.todo.tail }
    simpa using this
  · simp

theorem undecided_passEnd (s : State) (h : s.todo = []) (x : Nat) : Undecided (passEnd s) x ↔ x ∈ s.left := by
  unfold passEnd Undecided
  split
  · rename_i he; simp at he; simp [h, he]
  · split
    · simp [h]
    · simp

theorem undecided_advance (s : State) (x : Nat) : Undecided (advance s) x ↔ (x ∈ s.todo.tail ∨ x ∈ s.left) := by
  unfold advance
  simp only
  split
  · rename_i he
    have he' : s.todo.tail = [] := by simpa using he
    rw [undecided_passEnd _ (by simpa using he')]
    simp [he']
  · simp [Undecided]

theorem sorted_advance (s : State) (h1 : s.todo.Pairwise (· < ·)) (h2 : s.left.Pairwise (· < ·))
    (h3 : ∀ a ∈ s.left, ∀ b ∈ s.todo.tail, a < b) :
    (advance s).todo.Pairwise (· < ·) ∧ (advance s).left.Pairwise (· < ·) ∧
    (∀ a ∈ (advance s).left, ∀ b ∈ (advance s).todo, a < b) := by
  have htail : s.todo.tail.Pairwise (· < ·) := h1.sublist (List.tail_sublist _)
  unfold advance
  simp only
  split
  · rename_i he
    have he' : s.todo.tail = [] := by simpa using he
    unfold passEnd
    simp only [he']
    split
    · simp [h2]
    · split
      · simp [h2]
      · simp [h2]
  · simp only
    exact ⟨htail, h2, h3⟩

theorem inflight_advance (s : State) (t : Nat) :
    InFlight (advance s) t ↔ (some t ∈ s.queue ∨ ∃ w, held (s.wpc w) = some t) := by
  obtain ⟨_, hq, hw, _, _, _, _, hm⟩ := advance_fields s
  unfold InFlight
  rw [hq, hw]
  constructor
  · rintro (h | h | h)
    · exact Or.inl h
    · exact absurd h (hm t)
    · exact Or.inr h
  · rintro (h | h)
    · exact Or.inl h
    · exact Or.inr (Or.inr h)

/-! ### preservation -/

/-- removing things keeps uniqueness -/
theorem Uniq.mono {s s' : State} (h : Uniq s) (hq : s'.queue.Sublist s.queue)
    (hh : ∀ x t, held (s'.wpc x) = some t → held (s.wpc x) = some t)
    (hm : ∀ t, s'.mpc = .put t → s.mpc = .put t) : Uniq s' := by
  have hmem : ∀ t, some t ∈ s'.queue → some t ∈ s.queue := fun t ht => hq.subset ht
  refine ⟨(hq.filterMap id).nodup h.queue_nodup, ?_, ?_, ?_⟩
  · intro w t hw
    have := h.held_not_queued w t (hh w t hw)
    exact ⟨fun hc => this.1 (hmem t hc), fun hc => this.2 (hm t hc)⟩
  · intro w w' t hw hw'; exact h.held_once w w' t (hh w t hw) (hh w' t hw')
  · intro t ht hc; exact h.put_not_queued t (hm t ht) (hmem t hc)

/-- steps that do not touch the environment, the lists of undecided tasks or what tasks have seen, and do not
put anything new in flight -/
theorem InvA.transfer {c : Cfg} {s s' : State} (h : InvA c s)
    (huniq : Uniq s')
    (henv : s'.env = s.env) (htodo : s'.todo = s.todo) (hleft : s'.left = s.left)
    (hseen : ∀ t snap, s'.seen t = some snap → ∀ x ∈ snap, ∃ y, x = some y ∧ Fin3 y)
    (hfl : ∀ t, InFlight s' t → InFlight s t)
    (hput : ∀ t, s'.mpc = .put t → s.mpc = .put t) (hput' : ∀ t, s.mpc = .put t → s'.mpc = .put t)
    (hst : ∀ w t, s'.wpc w = .status t → ∃ w', s.wpc w' = .status t)
    (hcl : ∀ w t a b, s'.wpc w = .clocks t a b → c.outOf t = .done → ∃ w', s.wpc w' = .clocks t a b)
    (hwake : s'.mpc = .wake → s.mpc = .wake) : InvA c s' := by
  have hU : ∀ x, Undecided s' x ↔ Undecided s x := by intro x; simp [Undecided, htodo, hleft]
  refine ⟨huniq, by rw [htodo]; exact h.todo_sorted, by rw [hleft]; exact h.left_sorted,
    by rw [htodo, hleft]; exact h.left_lt_todo, ?_, ?_, ?_, ?_, ?_, ?_, ?_, ?_, ?_, ?_⟩
  · intro t ht; rw [htodo]; exact h.put_head t (hput t ht)
  · intro t ht d hd
    have := h.inflight_deps t (hfl t ht) d hd
    rw [henv, hU]; exact this
  · intro t ht
    obtain ⟨h1, h2⟩ := h.inflight_pending t (hfl t ht)
    rw [henv, hU]
    refine ⟨h1, ?_⟩
    rcases h2 with h2 | h2
    · exact Or.inl h2
    · exact Or.inr (hput' t h2)
  · intro t ht hu; rw [henv]; exact h.decided_status t ht (by rwa [hU] at hu)
  · intro t x; rw [henv]; exact h.done_pub t x
  · intro w t hw
    obtain ⟨w', hw'⟩ := hst w t hw
    rw [henv]; exact h.status_local w' t hw'
  · intro w t a b hw ho
    obtain ⟨w', hw'⟩ := hcl w t a b hw ho
    rw [henv]; exact h.clocks_local w' t a b hw' ho
  · exact hseen
  · intro x hx; exact h.undecided_lt x ((hU x).1 hx)
  · intro hw; rw [htodo]; exact h.wake_todo (hwake hw)

theorem held_upd (f : Nat → WPc) (w : Nat) (pc : WPc) (x : Nat) :
    held (upd f w pc x) = if x = w then held pc else held (f x) := by
  unfold upd; split <;> rfl

/-- a worker changes its program counter to one that holds the same task (or none): nothing new in flight -/
theorem inflight_upd_sub {s : State} {w : Nat} {pc : WPc} {q : List (Option Nat)} {m : MPc} {t : Nat}
    (hq : ∀ t, some t ∈ q → some t ∈ s.queue ∨ held pc = some t)
    (hheld : ∀ t, held pc = some t → held (s.wpc w) = some t ∨ some t ∈ s.queue)
    (hm : m = s.mpc)
    (h : some t ∈ q ∨ m = .put t ∨ ∃ x, held (upd s.wpc w pc x) = some t) : InFlight s t := by
  rcases h with h | h | ⟨x, hx⟩
  · rcases hq t h with h | h
    · exact Or.inl h
    · rcases hheld t h with h | h
      · exact Or.inr (Or.inr ⟨w, h⟩)
      · exact Or.inl h
  · exact Or.inr (Or.inl (hm ▸ h))
  · rw [held_upd] at hx
    split at hx
    · rcases hheld t hx with h | h
      · exact Or.inr (Or.inr ⟨w, h⟩)
      · exact Or.inl h
    · exact Or.inr (Or.inr ⟨x, hx⟩)

theorem upd_eq_iff {f : Nat → WPc} {w x : Nat} {pc v : WPc} (h : upd f w pc x = v) : (x = w ∧ pc = v) ∨ (x ≠ w ∧ f x = v) := by
  unfold upd at h; split at h
  · exact Or.inl ⟨by assumption, h⟩
  · exact Or.inr ⟨by assumption, h⟩

theorem inflight_decided {c : Cfg} {s : State} (h : InvA c s) (hm : ∀ t, s.mpc ≠ .put t) {x : Nat} (hx : InFlight s x) :
    ¬ Undecided s x := by
  rcases (h.inflight_pending x hx).2 with h2 | h2
  · exact h2
  · exact absurd h2 (hm x)

/-- the master rewrites the entry of the task it is considering (which is undecided, hence not in flight) -/
theorem InvA_env_change {c : Cfg} {s : State} (h : InvA c s) (hm : ∀ t, s.mpc ≠ .put t) (u : Nat) (hu : Undecided s u)
    (env' : Env) (hframe : ∀ x, x ≠ u → env'.entry x = s.env.entry x)
    (hown : ∀ y, env'.entry u = some y → y.st = .done → s.env.entry u = some y) :
    InvA c { s with env := env' } := by
  have hnf : ¬ InFlight s u := fun hf => inflight_decided h hm hf hu
  refine ⟨⟨h.uniq.queue_nodup, h.uniq.held_not_queued, h.uniq.held_once, h.uniq.put_not_queued⟩,
    h.todo_sorted, h.left_sorted, h.left_lt_todo, h.put_head, ?_, ?_, ?_, ?_, ?_, ?_, h.seen_pub, h.undecided_lt,
    h.wake_todo⟩
  · intro t ht d hd
    have hfl : InFlight s t := ht
    obtain ⟨⟨x, hx, hfin⟩, hdec⟩ := h.inflight_deps t hfl d hd
    have hne : d ≠ u := fun e => hdec (e ▸ hu)
    exact ⟨⟨x, by show env'.entry d = _; rw [hframe d hne]; exact hx, hfin⟩, hdec⟩
  · intro t ht
    have hfl : InFlight s t := ht
    obtain ⟨⟨x, hx, hp⟩, h2⟩ := h.inflight_pending t hfl
    have hne : t ≠ u := fun e => hnf (e ▸ hfl)
    exact ⟨⟨x, by show env'.entry t = _; rw [hframe t hne]; exact hx, hp⟩, h2⟩
  · intro t ht hud
    have hne : t ≠ u := fun e => hud (e ▸ hu)
    obtain ⟨x, hx, hs⟩ := h.decided_status t ht hud
    exact ⟨x, by show env'.entry t = _; rw [hframe t hne]; exact hx, hs⟩
  · intro t x hx hd
    by_cases hne : t = u
    · subst hne
      exact h.done_pub t x (hown x hx hd) hd
    · have : s.env.entry t = some x := by rw [← hframe t hne]; exact hx
      exact h.done_pub t x this hd
  · intro w t hw
    have hfl : InFlight s t := Or.inr (Or.inr ⟨w, by rw [hw]; rfl⟩)
    have hne : t ≠ u := fun e => hnf (e ▸ hfl)
    obtain ⟨x, hx, hr⟩ := h.status_local w t hw
    exact ⟨x, by show env'.entry t = _; rw [hframe t hne]; exact hx, hr⟩
  · intro w t a b hw ho
    have hfl : InFlight s t := Or.inr (Or.inr ⟨w, by rw [hw]; rfl⟩)
    have hne : t ≠ u := fun e => hnf (e ▸ hfl)
    obtain ⟨x, hx, hr⟩ := h.clocks_local w t a b hw ho
    exact ⟨x, by show env'.entry t = _; rw [hframe t hne]; exact hx, hr⟩

/-- the master is done with the head of `todo`: it was decided (skipped, dropped), left for the next pass, or queued -/
theorem InvA_advance {c : Cfg} {s0 : State} (h : InvA c s0) (t : Nat) (rest : List Nat) (htodo : s0.todo = t :: rest)
    (newLeft : List Nat) (q1 : List (Option Nat)) (u1 : Nat)
    (hmode :
      ((∀ x, s0.mpc ≠ .put x) ∧ q1 = s0.queue ∧ newLeft = s0.left ∧
          ∃ x, s0.env.entry t = some x ∧ (x.st = .pending ∨ x.st.final = true)) ∨
      ((∀ x, s0.mpc ≠ .put x) ∧ q1 = s0.queue ∧ newLeft = s0.left ++ [t]) ∨
      (s0.mpc = .put t ∧ q1 = s0.queue ++ [some t] ∧ newLeft = s0.left)) :
    InvA c (advance { s0 with left := newLeft, queue := q1, unfinished := u1 }) := by
  generalize hs1 : ({ s0 with left := newLeft, queue := q1, unfinished := u1 } : State) = s1
  have e_todo : s1.todo = s0.todo := by rw [← hs1]
  have e_left : s1.left = newLeft := by rw [← hs1]
  have e_queue : s1.queue = q1 := by rw [← hs1]
  have e_env : s1.env = s0.env := by rw [← hs1]
  have e_wpc : s1.wpc = s0.wpc := by rw [← hs1]
  have e_seen : s1.seen = s0.seen := by rw [← hs1]
  obtain ⟨a_env, a_queue, a_wpc, a_seen, _, _, _, a_mpc⟩ := advance_fields s1
  have ht_lt_rest : ∀ b ∈ rest, t < b := by
    have := h.todo_sorted; rw [htodo, List.pairwise_cons] at this; exact this.1
  have hleft_lt_t : ∀ a ∈ s0.left, a < t := fun a ha => h.left_lt_todo a ha t (by rw [htodo]; simp)
  have hnl : newLeft = s0.left ∨ newLeft = s0.left ++ [t] := by
    rcases hmode with ⟨_, _, e, _⟩ | ⟨_, _, e⟩ | ⟨_, _, e⟩
    · exact Or.inl e
    · exact Or.inr e
    · exact Or.inl e
  have hqsub : ∀ x, some x ∈ q1 → some x ∈ s0.queue ∨ (x = t ∧ s0.mpc = .put t) := by
    intro x hx
    rcases hmode with ⟨_, e, _⟩ | ⟨_, e, _⟩ | ⟨hp, e, _⟩
    · exact Or.inl (e ▸ hx)
    · exact Or.inl (e ▸ hx)
    · rw [e] at hx
      rcases List.mem_append.1 hx with hx | hx
      · exact Or.inl hx
      · simp at hx; subst hx; exact Or.inr ⟨rfl, hp⟩
  have hU : ∀ x, Undecided (advance s1) x ↔ (x ∈ rest ∨ x ∈ newLeft) := by
    intro x; rw [undecided_advance, e_todo, htodo, e_left]; simp
  have hUsub : ∀ x, Undecided (advance s1) x → Undecided s0 x := by
    intro x hx
    rcases (hU x).1 hx with hx | hx
    · exact Or.inl (by rw [htodo]; simp [hx])
    · rcases hnl with e | e
      · exact Or.inr (e ▸ hx)
      · rw [e] at hx
        rcases List.mem_append.1 hx with hx | hx
        · exact Or.inr hx
        · simp at hx; subst hx; exact Or.inl (by rw [htodo]; simp)
  have hF : ∀ x, InFlight (advance s1) x → InFlight s0 x := by
    intro x hx
    rw [inflight_advance, e_queue, e_wpc] at hx
    rcases hx with hx | hx
    · rcases hqsub x hx with hx | ⟨rfl, hp⟩
      · exact Or.inl hx
      · exact Or.inr (Or.inl hp)
    · exact Or.inr (Or.inr hx)
  have hnewLeft_sorted : newLeft.Pairwise (· < ·) := by
    rcases hnl with e | e
    · rw [e]; exact h.left_sorted
    · rw [e, List.pairwise_append]
      exact ⟨h.left_sorted, by simp, by intro a ha b hb; simp at hb; subst hb; exact hleft_lt_t a ha⟩
  have hnl_lt_rest : ∀ a ∈ newLeft, ∀ b ∈ rest, a < b := by
    intro a ha b hb
    rcases hnl with e | e
    · rw [e] at ha; exact h.left_lt_todo a ha b (by rw [htodo]; simp [hb])
    · rw [e] at ha
      rcases List.mem_append.1 ha with ha | ha
      · exact h.left_lt_todo a ha b (by rw [htodo]; simp [hb])
      · simp at ha; subst ha; exact ht_lt_rest b hb
  obtain ⟨so1, so2, so3⟩ := sorted_advance s1 (by rw [e_todo]; exact h.todo_sorted) (by rw [e_left]; exact hnewLeft_sorted)
    (by rw [e_left, e_todo, htodo]; simpa using hnl_lt_rest)
  -- uniqueness
  have huniq : Uniq (advance s1) := by
    refine ⟨?_, ?_, ?_, ?_⟩
    · rw [a_queue, e_queue]
      rcases hmode with ⟨_, e, _⟩ | ⟨_, e, _⟩ | ⟨hp, e, _⟩
      · rw [e]; exact h.uniq.queue_nodup
      · rw [e]; exact h.uniq.queue_nodup
      · rw [e, List.filterMap_append, List.nodup_append]
        refine ⟨h.uniq.queue_nodup, by simp, ?_⟩
        intro a ha b hb
        simp at hb; subst hb
        intro e2; subst e2
        have : some a ∈ s0.queue := by
          rw [List.mem_filterMap] at ha
          obtain ⟨o, ho, hoa⟩ := ha
          simp at hoa; subst hoa; exact ho
        exact h.uniq.put_not_queued a hp this
    · intro w x hw
      rw [a_wpc, e_wpc] at hw
      have := h.uniq.held_not_queued w x hw
      refine ⟨?_, a_mpc x⟩
      rw [a_queue, e_queue]
      intro hc
      rcases hqsub x hc with hc | ⟨rfl, hp⟩
      · exact this.1 hc
      · exact this.2 hp
    · intro w w' x hw hw'
      rw [a_wpc, e_wpc] at hw hw'
      exact h.uniq.held_once w w' x hw hw'
    · intro x hx; exact absurd hx (a_mpc x)
  refine ⟨huniq, so1, so2, so3, fun x hx => absurd hx (a_mpc x), ?_, ?_, ?_, ?_, ?_, ?_, ?_, ?_, ?_⟩
  · intro x hx d hd
    obtain ⟨hp, hdec⟩ := h.inflight_deps x (hF x hx) d hd
    rw [a_env, e_env]
    exact ⟨hp, fun hc => hdec (hUsub d hc)⟩
  · intro x hx
    obtain ⟨hp, h2⟩ := h.inflight_pending x (hF x hx)
    rw [a_env, e_env]
    refine ⟨hp, Or.inl ?_⟩
    intro hc
    rcases h2 with h2 | h2
    · exact h2 (hUsub x hc)
    · -- x is being put: it is the head of todo, and this is the `put` mode
      obtain ⟨r', hr'⟩ := h.put_head x h2
      rw [htodo] at hr'; injection hr' with e1 e2
      rcases hmode with ⟨hnp, _⟩ | ⟨hnp, _⟩ | ⟨_, _, e⟩
      · exact hnp x h2
      · exact hnp x h2
      · rcases (hU x).1 hc with hc | hc
        · rw [← e1] at hc; exact absurd (ht_lt_rest t hc) (Nat.lt_irrefl _)
        · rw [e, ← e1] at hc; exact absurd (hleft_lt_t t hc) (Nat.lt_irrefl _)
  · intro x hx hud
    rw [a_env, e_env]
    by_cases hu0 : Undecided s0 x
    · -- x was undecided and no longer is: it is the head of todo
      have hxt : x = t := by
        rcases hu0 with hu0 | hu0
        · rw [htodo] at hu0
          rcases List.mem_cons.1 hu0 with e | hu0
          · exact e
          · exact absurd ((hU x).2 (Or.inl hu0)) hud
        · exfalso; apply hud; rw [hU]; right
          rcases hnl with e | e
          · rw [e]; exact hu0
          · rw [e]; exact List.mem_append_left _ hu0
      subst hxt
      rcases hmode with ⟨_, _, _, hent⟩ | ⟨_, _, e⟩ | ⟨hp, _, _⟩
      · exact hent
      · exfalso; apply hud; rw [hU]; right; rw [e]; simp
      · obtain ⟨⟨y, hy, hyp⟩, _⟩ := h.inflight_pending x (Or.inr (Or.inl hp))
        exact ⟨y, hy, Or.inl hyp⟩
    · exact h.decided_status x hx hu0
  · intro x y; rw [a_env, e_env]; exact h.done_pub x y
  · intro w x hw; rw [a_wpc, e_wpc] at hw; rw [a_env, e_env]; exact h.status_local w x hw
  · intro w x a b hw ho; rw [a_wpc, e_wpc] at hw; rw [a_env, e_env]; exact h.clocks_local w x a b hw ho
  · intro x snap; rw [a_seen, e_seen]; exact h.seen_pub x snap
  · intro x hx; exact h.undecided_lt x (hUsub x hx)
  · intro hw
    -- advance only goes to `wake` through passEnd, with an empty todo
    have : (advance s1).todo = [] ∨ (advance s1).mpc ≠ .wake := by
      unfold advance
      simp only
      split
      · rename_i he
        have he' : s1.todo.tail = [] := by simpa using he
        unfold passEnd
        simp only [he']
        split
        · right; simp
        · split
          · left; rfl
          · right; simp
      · right; simp
    rcases this with h1 | h1
    · exact h1
    · exact absurd hw h1

/-- a worker moves to a program counter that holds nothing, or the task it already held / just dequeued -/
theorem InvA_worker_pc {c : Cfg} {s : State} (h : InvA c s) (w : Nat) (pc : WPc) (q : List (Option Nat))
    (hq : q.Sublist s.queue)
    (hheld : ∀ t, held pc = some t → held (s.wpc w) = some t ∨ (s.queue = some t :: q))
    (hst : ∀ t, pc = .status t → s.wpc w = .status t)
    (hcl : ∀ t a b, pc = .clocks t a b → c.outOf t = .done → s.wpc w = .clocks t a b)
    (u cO : _) (wt nt : Bool) (ck : Nat) :
    InvA c { s with queue := q, wpc := upd s.wpc w pc, unfinished := u, condOwner := cO, waiting := wt, notified := nt,
                    clock := ck } := by
  have hqm : ∀ t, some t ∈ q → some t ∈ s.queue := fun t ht => hq.subset ht
  apply h.transfer
  · -- uniqueness
    refine ⟨(hq.filterMap id).nodup h.uniq.queue_nodup, ?_, ?_, ?_⟩
    · intro x t hx
      show some t ∉ q ∧ s.mpc ≠ .put t
      rw [held_upd] at hx
      split at hx
      · rcases hheld t hx with hh | hh
        · have := h.uniq.held_not_queued w t hh
          exact ⟨fun hc => this.1 (hqm t hc), this.2⟩
        · -- just dequeued: not in the rest of the queue (no duplicates), and not being put
          have hnd := h.uniq.queue_nodup
          rw [hh] at hnd
          simp only [List.filterMap_cons, id] at hnd
          rw [List.nodup_cons] at hnd
          refine ⟨fun hc => hnd.1 (List.mem_filterMap.2 ⟨some t, hc, rfl⟩), ?_⟩
          intro hp
          exact h.uniq.put_not_queued t hp (by rw [hh]; simp)
      · have := h.uniq.held_not_queued x t hx
        exact ⟨fun hc => this.1 (hqm t hc), this.2⟩
    · intro x x' t hx hx'
      rw [held_upd] at hx hx'
      by_cases e1 : x = w <;> by_cases e2 : x' = w
      · rw [e1, e2]
      · simp only [e1, if_true, e2, if_false] at hx hx'
        rcases hheld t hx with hh | hh
        · rw [e1]; exact h.uniq.held_once w x' t hh hx'
        · exact absurd (by rw [hh]; simp) (h.uniq.held_not_queued x' t hx').1
      · simp only [e1, if_false, e2, if_true] at hx hx'
        rcases hheld t hx' with hh | hh
        · rw [e2]; exact h.uniq.held_once x w t hx hh
        · exact absurd (by rw [hh]; simp) (h.uniq.held_not_queued x t hx).1
      · simp only [e1, e2, if_false] at hx hx'
        exact h.uniq.held_once x x' t hx hx'
    · intro t ht hc
      exact h.uniq.put_not_queued t ht (hqm t hc)
  · rfl
  · rfl
  · rfl
  · exact h.seen_pub
  · rintro t (ht | ht | ⟨x, hx⟩)
    · exact Or.inl (hqm t ht)
    · exact Or.inr (Or.inl ht)
    · rw [held_upd] at hx
      split at hx
      · rcases hheld t hx with hh | hh
        · exact Or.inr (Or.inr ⟨w, hh⟩)
        · exact Or.inl (by rw [hh]; simp)
      · exact Or.inr (Or.inr ⟨x, hx⟩)
  · intro t ht; exact ht
  · intro t ht; exact ht
  · intro x t hx
    rcases upd_eq_iff hx with ⟨_, e⟩ | ⟨_, e⟩
    · exact ⟨w, hst t e⟩
    · exact ⟨x, e⟩
  · intro x t a b hx ho
    rcases upd_eq_iff hx with ⟨_, e⟩ | ⟨_, e⟩
    · exact ⟨w, hcl t a b e ho⟩
    · exact ⟨x, e⟩
  · intro hw; exact hw

/-- a worker updates the entry of the task it holds -/
theorem InvA_held_env {c : Cfg} {s : State} (h : InvA c s) (w t : Nat) (hheld : held (s.wpc w) = some t)
    (env' : Env) (pc' : WPc)
    (hframe : ∀ x, x ≠ t → env'.entry x = s.env.entry x)
    (hpc : held pc' = some t ∨ held pc' = none)
    (hent : ∃ y, env'.entry t = some y ∧ (held pc' = some t → y.st = .pending) ∧ (held pc' = none → y.st.final = true) ∧
      (y.st = .done → y.pay.isSome = true ∧ y.startC.isSome = true ∧ y.endC.isSome = true))
    (hst : ∀ t', pc' = .status t' → t' = t ∧ ∃ y, env'.entry t = some y ∧ y.startC.isSome = true ∧ y.endC.isSome = true ∧
      (c.outOf t = .done → y.pay.isSome = true))
    (hcl : ∀ t' a b, pc' = .clocks t' a b → c.outOf t' = .done → t' = t ∧ ∃ y, env'.entry t = some y ∧ y.pay.isSome = true) :
    InvA c { s with env := env', wpc := upd s.wpc w pc' } := by
  have hfl_t : InFlight s t := Or.inr (Or.inr ⟨w, hheld⟩)
  obtain ⟨⟨o, ho, hop⟩, hdec_t⟩ := h.inflight_pending t hfl_t
  have hheld' : ∀ x t', held (upd s.wpc w pc' x) = some t' → held (s.wpc x) = some t' := by
    intro x t' hx
    rw [held_upd] at hx
    split at hx
    · rename_i e; subst e
      rcases hpc with hp | hp
      · rw [hp] at hx; injection hx with hx; subst hx; exact hheld
      · rw [hp] at hx; cases hx
    · exact hx
  have hF : ∀ x, InFlight { s with env := env', wpc := upd s.wpc w pc' } x → InFlight s x := by
    rintro x (hx | hx | ⟨y, hy⟩)
    · exact Or.inl hx
    · exact Or.inr (Or.inl hx)
    · exact Or.inr (Or.inr ⟨y, hheld' y x hy⟩)
  -- a published dependency is not the task being worked on
  have hpub_ne : ∀ d, Pub s.env d → d ≠ t := by
    rintro d ⟨x, hx, hfin, _⟩ e
    subst e; rw [ho] at hx; injection hx with hx; subst hx; rw [hop] at hfin; cases hfin
  refine ⟨?_, h.todo_sorted, h.left_sorted, h.left_lt_todo, h.put_head, ?_, ?_, ?_, ?_, ?_, ?_, h.seen_pub,
    h.undecided_lt, h.wake_todo⟩
  · exact h.uniq.mono (List.Sublist.refl _) hheld' (fun _ hm => hm)
  · intro x hx d hd
    obtain ⟨hp, hdec⟩ := h.inflight_deps x (hF x hx) d hd
    obtain ⟨y, hy, hfin⟩ := hp
    exact ⟨⟨y, by show env'.entry d = _; rw [hframe d (hpub_ne d ⟨y, hy, hfin⟩)]; exact hy, hfin⟩, hdec⟩
  · intro x hx
    obtain ⟨hp, hdec⟩ := h.inflight_pending x (hF x hx)
    refine ⟨?_, hdec⟩
    by_cases e : x = t
    · subst e
      obtain ⟨y, hy, hpend, _⟩ := hent
      -- x is in flight in the new state: only through worker w, whose new pc still holds it
      have hstill : held pc' = some x := by
        rcases hx with hx | hx | ⟨z, hz⟩
        · exact absurd hx (h.uniq.held_not_queued w x hheld).1
        · exact absurd hx (h.uniq.held_not_queued w x hheld).2
        · have hz' : held (upd s.wpc w pc' z) = some x := hz
          rw [held_upd] at hz'
          split at hz'
          · exact hz'
          · rename_i hne
            exact absurd (h.uniq.held_once z w x hz' hheld) hne
      exact ⟨y, hy, hpend hstill⟩
    · obtain ⟨y, hy, hyp⟩ := hp
      exact ⟨y, by show env'.entry x = _; rw [hframe x e]; exact hy, hyp⟩
  · intro x hx hud
    by_cases e : x = t
    · subst e
      obtain ⟨y, hy, hpend, hfin, _⟩ := hent
      rcases hpc with hp | hp
      · exact ⟨y, hy, Or.inl (hpend hp)⟩
      · exact ⟨y, hy, Or.inr (hfin hp)⟩
    · obtain ⟨y, hy, hs⟩ := h.decided_status x hx hud
      exact ⟨y, by show env'.entry x = _; rw [hframe x e]; exact hy, hs⟩
  · intro x y hy hd
    by_cases e : x = t
    · subst e
      obtain ⟨y', hy', _, _, hdone⟩ := hent
      have : env'.entry x = some y := hy
      rw [hy'] at this; injection this with this; subst this
      exact hdone hd
    · have : s.env.entry x = some y := by rw [← hframe x e]; exact hy
      exact h.done_pub x y this hd
  · intro x t' hx
    rcases upd_eq_iff hx with ⟨_, e⟩ | ⟨hne, e⟩
    · obtain ⟨e2, hr⟩ := hst t' e
      subst e2; exact hr
    · have hne' : t' ≠ t := by
        intro e2; subst e2
        exact hne (h.uniq.held_once x w t' (by rw [e]; rfl) hheld)
      obtain ⟨y, hy, hr⟩ := h.status_local x t' e
      exact ⟨y, by show env'.entry t' = _; rw [hframe t' hne']; exact hy, hr⟩
  · intro x t' a b hx hout
    rcases upd_eq_iff hx with ⟨_, e⟩ | ⟨hne, e⟩
    · obtain ⟨e2, hr⟩ := hcl t' a b e hout
      subst e2; exact hr
    · have hne' : t' ≠ t := by
        intro e2; subst e2
        exact hne (h.uniq.held_once x w t' (by rw [e]; rfl) hheld)
      obtain ⟨y, hy, hr⟩ := h.clocks_local x t' a b e hout
      exact ⟨y, by show env'.entry t' = _; rw [hframe t' hne']; exact hy, hr⟩

theorem Outcome.status_final (o : Outcome) : o.status.final = true := by cases o <;> rfl
theorem Outcome.status_done {o : Outcome} (h : o.status = .done) : o = .done := by cases o <;> first | rfl | cases h
theorem Outcome.done_hasUpdate {o : Outcome} (h : o = .done) : o.hasUpdate = true := by subst h; rfl

/-- master steps that only move the program counter -/
theorem InvA_master_pc {c : Cfg} {s : State} (h : InvA c s) (m : MPc) (hm : ∀ t, s.mpc ≠ .put t) (hm' : ∀ t, m ≠ .put t)
    (hw : m = .wake → s.mpc = .wake) (q : List (Option Nat)) (hq : ∀ t, some t ∈ q ↔ some t ∈ s.queue)
    (hqn : (q.filterMap id).Nodup) (wpc' : Nat → WPc) (hwpc : ∀ x t, held (wpc' x) = some t → held (s.wpc x) = some t)
    (hst : ∀ x t, wpc' x = .status t → s.wpc x = .status t) (hcl : ∀ x t a b, wpc' x = .clocks t a b → s.wpc x = .clocks t a b)
    (u cO : _) (wt nt : Bool) :
    InvA c { s with mpc := m, queue := q, wpc := wpc', unfinished := u, condOwner := cO, waiting := wt, notified := nt } := by
  apply h.transfer
  · refine ⟨hqn, ?_, ?_, ?_⟩
    · intro x t hx
      have := h.uniq.held_not_queued x t (hwpc x t hx)
      exact ⟨fun hc => this.1 ((hq t).1 hc), hm' t⟩
    · intro x x' t hx hx'; exact h.uniq.held_once x x' t (hwpc x t hx) (hwpc x' t hx')
    · intro t ht; exact absurd ht (hm' t)
  · rfl
  · rfl
  · rfl
  · exact h.seen_pub
  · rintro t (ht | ht | ⟨x, hx⟩)
    · exact Or.inl ((hq t).1 ht)
    · exact absurd ht (hm' t)
    · exact Or.inr (Or.inr ⟨x, hwpc x t hx⟩)
  · intro t ht; exact absurd ht (hm' t)
  · intro t ht; exact absurd ht (hm t)
  · intro x t hx; exact ⟨x, hst x t hx⟩
  · intro x t a b hx _; exact ⟨x, hcl x t a b hx⟩
  · exact hw

/-- the invariant only looks at these fields -/
theorem InvA_congr {c : Cfg} {s1 s' : State} (h : InvA c s1)
    (e1 : s'.env = s1.env) (e2 : s'.queue = s1.queue) (e3 : s'.wpc = s1.wpc) (e4 : s'.mpc = s1.mpc)
    (e5 : s'.todo = s1.todo) (e6 : s'.left = s1.left)
    (hseen : ∀ t snap, s'.seen t = some snap → ∀ x ∈ snap, ∃ y, x = some y ∧ Fin3 y) : InvA c s' := by
  apply h.transfer
  · exact ⟨by rw [e2]; exact h.uniq.queue_nodup,
      by intro w t hw; rw [e3] at hw; rw [e2, e4]; exact h.uniq.held_not_queued w t hw,
      by intro w w' t hw hw'; rw [e3] at hw hw'; exact h.uniq.held_once w w' t hw hw',
      by intro t ht; rw [e4] at ht; rw [e2]; exact h.uniq.put_not_queued t ht⟩
  · exact e1
  · exact e5
  · exact e6
  · exact hseen
  · rintro t (ht | ht | ⟨x, hx⟩)
    · exact Or.inl (e2 ▸ ht)
    · exact Or.inr (Or.inl (e4 ▸ ht))
    · exact Or.inr (Or.inr ⟨x, e3 ▸ hx⟩)
  · intro t ht; exact e4 ▸ ht
  · intro t ht; rw [e4]; exact ht
  · intro w t hw; exact ⟨w, e3 ▸ hw⟩
  · intro w t a b hw _; exact ⟨w, e3 ▸ hw⟩
  · intro hw; exact e4 ▸ hw

/-- the master wakes up and starts a new pass over the tasks that were left -/
theorem InvA_wake {c : Cfg} {s : State} (h : InvA c s) (hm : s.mpc = .wake) (s' : State)
    (e1 : s'.env = s.env) (e2 : s'.queue = s.queue) (e3 : s'.wpc = s.wpc) (e4 : s'.seen = s.seen)
    (e5 : s'.mpc = .acq) (e6 : s'.todo = s.left) (e7 : s'.left = []) : InvA c s' := by
  have htodo := h.wake_todo hm
  have hU : ∀ x, Undecided s' x ↔ Undecided s x := by
    intro x; simp [Undecided, htodo, e6, e7]
  have hF : ∀ x, InFlight s' x → InFlight s x := by
    rintro x (hx | hx | hx)
    · exact Or.inl (e2 ▸ hx)
    · rw [e5] at hx; cases hx
    · exact Or.inr (Or.inr (e3 ▸ hx))
  have hnp : ∀ t, s.mpc ≠ .put t := by intro t ht; rw [hm] at ht; cases ht
  have hnp' : ∀ t, s'.mpc ≠ .put t := by intro t ht; rw [e5] at ht; cases ht
  refine ⟨⟨by rw [e2]; exact h.uniq.queue_nodup, ?_, ?_, ?_⟩, by rw [e6]; exact h.left_sorted, by rw [e7]; simp,
    by rw [e7]; simp, fun t ht => absurd ht (hnp' t), ?_, ?_, ?_, by rw [e1]; exact h.done_pub, ?_, ?_,
    by rw [e4]; exact h.seen_pub, ?_, by intro hw; rw [e5] at hw; cases hw⟩
  · intro w t hw
    rw [e3] at hw; rw [e2]
    exact ⟨(h.uniq.held_not_queued w t hw).1, hnp' t⟩
  · intro w w' t hw hw'; rw [e3] at hw hw'; exact h.uniq.held_once w w' t hw hw'
  · intro t ht; exact absurd ht (hnp' t)
  · intro x hx d hd
    obtain ⟨hp, hdec⟩ := h.inflight_deps x (hF x hx) d hd
    rw [e1]
    exact ⟨hp, fun hcc => hdec ((hU d).1 hcc)⟩
  · intro x hx
    obtain ⟨hp, hdec⟩ := h.inflight_pending x (hF x hx)
    rw [e1]
    refine ⟨hp, Or.inl ?_⟩
    rcases hdec with hdec | hdec
    · exact fun hcc => hdec ((hU x).1 hcc)
    · exact absurd hdec (hnp x)
  · intro x hx hud; rw [e1]; exact h.decided_status x hx (fun hcc => hud ((hU x).2 hcc))
  · intro w t hw; rw [e3] at hw; rw [e1]; exact h.status_local w t hw
  · intro w t a b hw ho; rw [e3] at hw; rw [e1]; exact h.clocks_local w t a b hw ho
  · intro x hx; exact h.undecided_lt x ((hU x).1 hx)

/-- **The invariant is preserved by every step.** -/
theorem InvA_step {c : Cfg} (hc : c.WF) {s s' : State} (h : InvA c s) (hs : Step c s s') : InvA c s' := by
  cases hs with
  | mSpawn k hm =>
    have hnp : ∀ t, s.mpc ≠ .put t := by intro t ht; rw [hm] at ht; cases ht
    have := InvA_master_pc h (afterSpawn c k) hnp (by intro t; unfold afterSpawn; split <;> (try split) <;> simp)
      (by unfold afterSpawn; split <;> (try split) <;> simp) s.queue (fun _ => Iff.rfl) h.uniq.queue_nodup
      (upd s.wpc k .begin)
      (by intro x t hx; rw [held_upd] at hx; split at hx; · cases hx
          · exact hx)
      (by intro x t hx; rcases upd_eq_iff hx with ⟨_, e⟩ | ⟨_, e⟩; · cases e
          · exact e)
      (by intro x t a b hx; rcases upd_eq_iff hx with ⟨_, e⟩ | ⟨_, e⟩; · cases e
          · exact e)
      s.unfinished s.condOwner s.waiting s.notified
    exact this
  | mAcq hm hco =>
    have hnp : ∀ t, s.mpc ≠ .put t := by intro t ht; rw [hm] at ht; cases ht
    exact InvA_master_pc h .consider hnp (by simp) (by simp) s.queue (fun _ => Iff.rfl) h.uniq.queue_nodup s.wpc
      (fun _ _ hx => hx) (fun _ _ hx => hx) (fun _ _ _ _ hx => hx) s.unfinished (some 0) s.waiting s.notified
  | mWait t rest env' hm ht hd =>
    have hnp : ∀ x, s.mpc ≠ .put x := by intro x hx; rw [hm] at hx; cases hx
    obtain ⟨hframe, ⟨y, hy, _, _, hwait, _, _, _⟩, _⟩ := decide_spec c s.env s.left t _ env' hd
    have h0 := InvA_env_change h hnp t (Or.inl (by rw [ht]; simp)) env' hframe
      (by intro y' hy' hyd
          rw [hy] at hy'; injection hy' with hy'; subst hy'
          rcases hwait rfl with hw | ⟨_, hw⟩
          · rw [hw] at hyd; cases hyd
          · exact hw)
    exact InvA_advance h0 t rest ht (s.left ++ [t]) s.queue s.unfinished (Or.inr (Or.inl ⟨hnp, rfl, rfl⟩))
  | mSkip t rest env' hm ht hd =>
    have hnp : ∀ x, s.mpc ≠ .put x := by intro x hx; rw [hm] at hx; cases hx
    obtain ⟨hframe, ⟨y, hy, _, _, _, hskip, _, _⟩, _⟩ := decide_spec c s.env s.left t _ env' hd
    have h0 := InvA_env_change h hnp t (Or.inl (by rw [ht]; simp)) env' hframe
      (by intro y' hy' hyd
          rw [hy] at hy'; injection hy' with hy'; subst hy'
          rw [hskip rfl] at hyd; cases hyd)
    exact InvA_advance h0 t rest ht s.left s.queue s.unfinished
      (Or.inl ⟨hnp, rfl, rfl, y, hy, Or.inr (by rw [hskip rfl]; rfl)⟩)
  | mDrop t rest env' hm ht hd =>
    have hnp : ∀ x, s.mpc ≠ .put x := by intro x hx; rw [hm] at hx; cases hx
    obtain ⟨hframe, ⟨y, hy, _, _, _, _, hdrop, _⟩, _⟩ := decide_spec c s.env s.left t _ env' hd
    have h0 := InvA_env_change h hnp t (Or.inl (by rw [ht]; simp)) env' hframe
      (by intro y' hy' hyd
          rw [hy] at hy'; injection hy' with hy'; subst hy'
          exact (hdrop rfl).2)
    exact InvA_advance h0 t rest ht s.left s.queue s.unfinished
      (Or.inl ⟨hnp, rfl, rfl, y, hy, Or.inr (by rw [(hdrop rfl).1]; rfl)⟩)
  | mPending t rest env' hm ht hdec0 =>
    have hnp : ∀ x, s.mpc ≠ .put x := by intro x hx; rw [hm] at hx; cases hx
    obtain ⟨hframe, ⟨y, hy, _, _, _, _, _, hpend⟩, hdeps, _, _, _⟩ := decide_spec c s.env s.left t _ env' hdec0
    have hu : Undecided s t := Or.inl (by rw [ht]; simp)
    have h0 := InvA_env_change h hnp t hu env' hframe
      (by intro y' hy' hyd
          rw [hy] at hy'; injection hy' with hy'; subst hy'
          rw [hpend rfl] at hyd; cases hyd)
    have hnf : ¬ InFlight s t := fun hf => inflight_decided h hnp hf hu
    have ht_lt : t < c.n := h.undecided_lt t hu
    -- now the task is released: it becomes in flight
    refine ⟨?_, h0.todo_sorted, h0.left_sorted, h0.left_lt_todo, ?_, ?_, ?_, h0.decided_status, h0.done_pub,
      h0.status_local, h0.clocks_local, h0.seen_pub, h0.undecided_lt, by intro hw; cases hw⟩
    · refine ⟨h.uniq.queue_nodup, ?_, h.uniq.held_once, ?_⟩
      · intro w x hw
        refine ⟨(h.uniq.held_not_queued w x hw).1, ?_⟩
        intro e; injection e with e; subst e
        exact hnf (Or.inr (Or.inr ⟨w, hw⟩))
      · intro x hx hc
        injection hx with hx; subst hx
        exact hnf (Or.inl hc)
    · intro x hx; injection hx with hx; subst hx; exact ⟨rest, ht⟩
    · intro x hx d hdm
      by_cases e : x = t
      · subst e
        obtain ⟨hdl, z, hz, hzp⟩ := hdeps (by simp) d hdm
        have hdlt : d < x := hc.deps_lt x d hdm
        have hdne : d ≠ x := Nat.ne_of_lt hdlt
        have hdu : ¬ Undecided s d := by
          rintro (hdt | hdl')
          · rw [ht] at hdt
            rcases List.mem_cons.1 hdt with e | hdt
            · exact hdne e
            · have := h.todo_sorted; rw [ht, List.pairwise_cons] at this
              exact absurd (this.1 d hdt) (Nat.lt_asymm hdlt)
          · exact hdl hdl'
        obtain ⟨z', hz', hzs⟩ := h.decided_status d (Nat.lt_trans hdlt ht_lt) hdu
        rw [hz] at hz'; injection hz' with hz'; subst hz'
        have hfin : z.st.final = true := by
          rcases hzs with hzs | hzs
          · exact absurd hzs hzp
          · exact hzs
        refine ⟨⟨z, by show env'.entry d = _; rw [hframe d hdne]; exact hz, hfin, h.done_pub d z hz⟩, hdu⟩
      · have hfl : InFlight s x := by
          rcases hx with hx | hx | hx
          · exact Or.inl hx
          · injection hx with hx; exact absurd hx.symm e
          · exact Or.inr (Or.inr hx)
        exact h0.inflight_deps x hfl d hdm
    · intro x hx
      by_cases e : x = t
      · subst e; exact ⟨⟨y, hy, hpend rfl⟩, Or.inr rfl⟩
      · have hfl : InFlight s x := by
          rcases hx with hx | hx | hx
          · exact Or.inl hx
          · injection hx with hx; exact absurd hx.symm e
          · exact Or.inr (Or.inr hx)
        obtain ⟨hp, hdec⟩ := h0.inflight_pending x hfl
        refine ⟨hp, Or.inl ?_⟩
        rcases hdec with hdec | hdec
        · exact hdec
        · exact absurd hdec (hnp x)
  | mPut t hm =>
    obtain ⟨rest, hrest⟩ := h.put_head t hm
    exact InvA_advance h t rest hrest s.left (s.queue ++ [some t]) (s.unfinished + 1) (Or.inr (Or.inr ⟨hm, rfl, rfl⟩))
  | mWake hm hn hco =>
    exact InvA_wake h hm _ rfl rfl rfl rfl rfl rfl rfl
  | mQjoin hm hu =>
    have hnp : ∀ t, s.mpc ≠ .put t := by intro t ht; rw [hm] at ht; cases ht
    exact InvA_master_pc h _ hnp (by intro t; split <;> simp) (by split <;> simp) s.queue (fun _ => Iff.rfl)
      h.uniq.queue_nodup s.wpc (fun _ _ hx => hx) (fun _ _ hx => hx) (fun _ _ _ _ hx => hx) s.unfinished s.condOwner
      s.waiting s.notified
  | mSentinel k hm =>
    have hnp : ∀ t, s.mpc ≠ .put t := by intro t ht; rw [hm] at ht; cases ht
    exact InvA_master_pc h _ hnp (by intro t; split <;> simp) (by split <;> simp) (s.queue ++ [none])
      (by intro t; simp) (by rw [List.filterMap_append]; simpa using h.uniq.queue_nodup)
      s.wpc (fun _ _ hx => hx) (fun _ _ hx => hx) (fun _ _ _ _ hx => hx) (s.unfinished + 1) s.condOwner
      s.waiting s.notified
  | mJoin k hm he =>
    have hnp : ∀ t, s.mpc ≠ .put t := by intro t ht; rw [hm] at ht; cases ht
    exact InvA_master_pc h _ hnp (by intro t; split <;> simp) (by split <;> simp) s.queue (fun _ => Iff.rfl)
      h.uniq.queue_nodup s.wpc (fun _ _ hx => hx) (fun _ _ hx => hx) (fun _ _ _ _ hx => hx) s.unfinished s.condOwner
      s.waiting s.notified
  | wBegin w hw =>
    exact InvA_worker_pc h w .get s.queue (List.Sublist.refl _) (by intro t ht; cases ht) (by intro t ht; cases ht)
      (by intro t a b ht; cases ht) s.unfinished s.condOwner s.waiting s.notified s.clock
  | wGetTask w t rest hw hq =>
    exact InvA_worker_pc h w (.timeStart t) rest (by rw [hq]; exact List.sublist_cons_self _ _)
      (by intro t' ht'; injection ht' with ht'; subst ht'; exact Or.inr hq) (by intro t' ht'; cases ht')
      (by intro t' a b ht'; cases ht') s.unfinished s.condOwner s.waiting s.notified s.clock
  | wGetSentinel w rest hw hq =>
    exact InvA_worker_pc h w .sentinelDone rest (by rw [hq]; exact List.sublist_cons_self _ _)
      (by intro t' ht'; cases ht') (by intro t' ht'; cases ht')
      (by intro t' a b ht'; cases ht') s.unfinished s.condOwner s.waiting s.notified s.clock
  | wTimeStart w t hw =>
    -- the task starts: it sees its dependencies as they are now
    have hfl : InFlight s t := Or.inr (Or.inr ⟨w, by rw [hw]; rfl⟩)
    have h1 := InvA_worker_pc h w (.timeEnd t (s.clock + 1)) s.queue (List.Sublist.refl _)
      (by intro t' ht'; injection ht' with ht'; subst ht'; left; rw [hw]; rfl) (by intro t' ht'; cases ht')
      (by intro t' a b ht'; cases ht') s.unfinished s.condOwner s.waiting s.notified (s.clock + 1)
    refine InvA_congr h1 ?_ ?_ ?_ ?_ ?_ ?_ ?_ <;> try rfl
    intro t' snap hsnap x hx
    have hsnap' : upd s.seen t (some (snapshot c s.env t)) t' = some snap := hsnap
    unfold upd at hsnap'
    split at hsnap'
    · injection hsnap' with hsnap'; subst hsnap'
      simp only [snapshot, List.mem_map] at hx
      obtain ⟨d, hd, rfl⟩ := hx
      obtain ⟨⟨z, hz, hfin⟩, _⟩ := h.inflight_deps t hfl d hd
      exact ⟨z, hz, hfin⟩
    · exact h.seen_pub t' snap hsnap' x hx
  | wTimeEnd w t start hw =>
    exact InvA_worker_pc h w _ s.queue (List.Sublist.refl _)
      (by intro t' ht'; left; rw [hw]; split at ht' <;> (injection ht' with ht'; subst ht'; rfl))
      (by intro t' ht'; split at ht' <;> cases ht')
      (by intro t' a b ht' ho
          split at ht'
          · cases ht'
          · rename_i hnu; injection ht' with e1 e2 e3; subst e1
            exact absurd (Outcome.done_hasUpdate ho) hnu)
      s.unfinished s.condOwner s.waiting s.notified (s.clock + 1)
  | wApply w t start stop hw =>
    have hheld : held (s.wpc w) = some t := by rw [hw]; rfl
    obtain ⟨⟨o, ho, hop⟩, _⟩ := h.inflight_pending t (Or.inr (Or.inr ⟨w, hheld⟩))
    have hent : (updEntry s.env t fun x => { x with pay := some start }).entry t = some { o with pay := some start } := by
      rw [entry_updEntry_same, ho]; rfl
    exact InvA_held_env h w t hheld _ (.clocks t start stop) (fun x hx => entry_updEntry_other _ _ _ _ hx) (Or.inl rfl)
      ⟨_, hent, fun _ => hop, (by intro hh; cases hh), (by intro hd; rw [hop] at hd; cases hd)⟩
      (by intro t' ht'; cases ht')
      (by intro t' a b ht' _; injection ht' with e1; subst e1; exact ⟨rfl, _, hent, rfl⟩)
  | wClocks w t start stop hw =>
    have hheld : held (s.wpc w) = some t := by rw [hw]; rfl
    obtain ⟨⟨o, ho, hop⟩, _⟩ := h.inflight_pending t (Or.inr (Or.inr ⟨w, hheld⟩))
    have hent : (updEntry s.env t fun x => { x with startC := some start, endC := some stop }).entry t =
        some { o with startC := some start, endC := some stop } := by
      rw [entry_updEntry_same, ho]; rfl
    exact InvA_held_env h w t hheld _ (.status t) (fun x hx => entry_updEntry_other _ _ _ _ hx) (Or.inl rfl)
      ⟨_, hent, fun _ => hop, (by intro hh; cases hh), (by intro hd; rw [hop] at hd; cases hd)⟩
      (by intro t' ht'; injection ht' with e1; subst e1
          refine ⟨rfl, _, hent, rfl, rfl, ?_⟩
          intro hout
          obtain ⟨z, hz, hzp⟩ := h.clocks_local w t start stop hw hout
          rw [ho] at hz; injection hz with hz; subst hz; exact hzp)
      (by intro t' a b ht'; cases ht')
  | wStatus w t hw =>
    have hheld : held (s.wpc w) = some t := by rw [hw]; rfl
    obtain ⟨z, hz, hzs, hzc, hzp⟩ := h.status_local w t hw
    obtain ⟨y, hy, hys, hyo, _⟩ := entry_setSt_same s.env t (c.outOf t).status
    have hfields := hyo z hz
    exact InvA_held_env h w t hheld _ .taskDone (fun x hx => entry_setSt_other _ _ _ _ hx) (Or.inr rfl)
      ⟨y, hy, (by intro hh; cases hh), (fun _ => by rw [hys]; exact Outcome.status_final _),
        (by intro hd
            rw [hys] at hd
            have := Outcome.status_done hd
            rw [hfields.1, hfields.2.1, hfields.2.2]
            exact ⟨hzp this, hzs, hzc⟩)⟩
      (by intro t' ht'; cases ht') (by intro t' a b ht'; cases ht')
  | wTaskDone w hw hu =>
    exact InvA_worker_pc h w .cacq s.queue (List.Sublist.refl _) (by intro t ht; cases ht) (by intro t ht; cases ht)
      (by intro t a b ht; cases ht) (s.unfinished - 1) s.condOwner s.waiting s.notified s.clock
  | wCacq w hw hco =>
    exact InvA_worker_pc h w .notify s.queue (List.Sublist.refl _) (by intro t ht; cases ht) (by intro t ht; cases ht)
      (by intro t a b ht; cases ht) s.unfinished (some (w + 1)) s.waiting s.notified s.clock
  | wNotify w hw =>
    exact InvA_worker_pc h w .get s.queue (List.Sublist.refl _) (by intro t ht; cases ht) (by intro t ht; cases ht)
      (by intro t a b ht; cases ht) s.unfinished none s.waiting (s.notified || s.waiting) s.clock
  | wSentinelDone w hw hu =>
    exact InvA_worker_pc h w .exited s.queue (List.Sublist.refl _) (by intro t ht; cases ht) (by intro t ht; cases ht)
      (by intro t a b ht; cases ht) (s.unfinished - 1) s.condOwner s.waiting s.notified s.clock

end Sched
