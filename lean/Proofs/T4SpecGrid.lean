import Proofs.T4SpecFill
import Mathlib.Data.List.Nodup
/-! A response printed over a full (time x mu x phi) grid (C10): the blocks come in lexicographic order, the time key is
printed with the first block of a time step, the mu key with the first block of a mu zone, the phi key with every block.
Such a sequence is read under pairwise distinct indices — block (it, im, ip) under exactly (it, im, ip) — and
`_get_number_of_bins` finds the three dimensions. -/
set_option linter.unusedVariables false
namespace T4Spec
variable {α : Type} [Num α]

/-- what is printed for one (time step, mu zone, phi zone) -/
structure Grid (α : Type) where
  nt : Nat
  nmu : Nat
  nphi : Nat
  tstep : Nat → α × α
  mstep : Nat → α × α
  pstep : Nat → α × α
  rows : Nat → Nat → Nat → List (Row α)

def Grid.blk (G : Grid α) (it im ip : Nat) : Block α :=
  { time := if im = 0 ∧ ip = 0 then some ⟨it, (G.tstep it).1, (G.tstep it).2⟩ else none,
    mu := if ip = 0 then some ⟨im, (G.mstep im).1, (G.mstep im).2⟩ else none,
    phi := some ⟨ip, (G.pstep ip).1, (G.pstep ip).2⟩,
    rows := G.rows it im ip, integ := none }

def Grid.inner (G : Grid α) (it im : Nat) : List (Block α) := (List.range G.nphi).map (G.blk it im)
def Grid.mid (G : Grid α) (it : Nat) : List (Block α) := (List.range G.nmu).flatMap (G.inner it)
def Grid.blocks (G : Grid α) : List (Block α) := (List.range G.nt).flatMap G.mid

/-! ### the indices in force -/

def lastCur (c : Cur) (d : List (Block α)) : Cur := (cursors c d).getLastD c

theorem cursors_append (c : Cur) (d1 d2 : List (Block α)) :
    cursors c (d1 ++ d2) = cursors c d1 ++ cursors (lastCur c d1) d2 := by
  induction d1 generalizing c with
  | nil => rfl
  | cons k ks ih =>
    simp only [List.cons_append, cursors, ih, lastCur]
    congr 2
    cases hks : cursors (curStep c k) ks with
    | nil => rfl
    | cons a r => simp [List.getLastD]

theorem cursors_tail (G : Grid α) (it im : Nat) (c : Cur) (h1 : c.1 = it) (h2 : c.2.1 = im) :
    ∀ (len s : Nat), 1 ≤ s →
      cursors c ((List.range' s len).map (G.blk it im)) = (List.range' s len).map fun ip => (it, im, ip) := by
  intro len
  induction len generalizing c with
  | zero => intro s _; rfl
  | succ n ih =>
    intro s hs
    have hstep : curStep c (G.blk it im s) = (it, im, s) := by
      unfold curStep Grid.blk
      have : ¬ s = 0 := by omega
      simp [this, h1, h2]
    rw [List.range'_succ, List.map_cons, cursors, hstep, List.map_cons]
    congr 1
    exact ih (it, im, s) rfl rfl (s + 1) (by omega)

theorem cursors_inner (G : Grid α) (it im : Nat) (c : Cur) (hc : im = 0 ∨ c.1 = it) (hn : 0 < G.nphi) :
    cursors c (G.inner it im) = (List.range G.nphi).map fun ip => (it, im, ip) := by
  unfold Grid.inner
  have hr : List.range G.nphi = 0 :: List.range' 1 (G.nphi - 1) := by
    rw [List.range_eq_range']
    have : G.nphi = (G.nphi - 1) + 1 := by omega
    conv => lhs; rw [this, List.range'_succ]
  rw [hr, List.map_cons, cursors, List.map_cons]
  have hstep : curStep c (G.blk it im 0) = (it, im, 0) := by
    unfold curStep Grid.blk
    rcases hc with h | h
    · subst h; simp
    · by_cases him : im = 0
      · subst him; simp
      · simp [him, h]
  rw [hstep]
  congr 1
  exact cursors_tail G it im (it, im, 0) rfl rfl _ 1 (Nat.le_refl 1)

theorem lastCur_inner (G : Grid α) (it im : Nat) (c : Cur) (hc : im = 0 ∨ c.1 = it) (hn : 0 < G.nphi) :
    (lastCur c (G.inner it im)).1 = it := by
  unfold lastCur
  rw [cursors_inner G it im c hc hn]
  have hne : ((List.range G.nphi).map fun ip => (it, im, ip)) ≠ [] := by
    intro h
    have := congrArg List.length h
    simp at this
    omega
  rw [List.getLastD_eq_getLast?, List.getLast?_eq_some_getLast hne]
  simp only [Option.getD_some]
  have hm := List.getLast_mem hne
  obtain ⟨ip, _, e⟩ := List.mem_map.1 hm
  rw [← e]

theorem cursors_mid_from (G : Grid α) (it : Nat) (hn : 0 < G.nphi) :
    ∀ (len s : Nat) (c : Cur), (s = 0 ∨ c.1 = it) →
      cursors c ((List.range' s len).flatMap (G.inner it)) =
        (List.range' s len).flatMap fun im => (List.range G.nphi).map fun ip => (it, im, ip) := by
  intro len
  induction len with
  | zero => intro s c _; rfl
  | succ n ih =>
    intro s c hc
    rw [List.range'_succ, List.flatMap_cons, List.flatMap_cons, cursors_append, cursors_inner G it s c hc hn]
    congr 1
    exact ih (s + 1) _ (Or.inr (lastCur_inner G it s c hc hn))

theorem cursors_mid (G : Grid α) (it : Nat) (c : Cur) (hn : 0 < G.nphi) :
    cursors c (G.mid it) = (List.range G.nmu).flatMap fun im => (List.range G.nphi).map fun ip => (it, im, ip) := by
  unfold Grid.mid
  rw [List.range_eq_range']
  exact cursors_mid_from G it hn G.nmu 0 c (Or.inl rfl)

theorem cursors_blocks_from (G : Grid α) (hn : 0 < G.nphi) :
    ∀ (len s : Nat) (c : Cur),
      cursors c ((List.range' s len).flatMap G.mid) =
        (List.range' s len).flatMap fun it => (List.range G.nmu).flatMap fun im =>
          (List.range G.nphi).map fun ip => (it, im, ip) := by
  intro len
  induction len with
  | zero => intro s c; rfl
  | succ n ih =>
    intro s c
    rw [List.range'_succ, List.flatMap_cons, List.flatMap_cons, cursors_append, cursors_mid G s c hn]
    congr 1
    exact ih (s + 1) _

/-- **block (it, im, ip) of a printed grid is read under the indices (it, im, ip)** -/
theorem cursors_blocks (G : Grid α) (hn : 0 < G.nphi) :
    cursors (0, 0, 0) G.blocks =
      (List.range G.nt).flatMap fun it => (List.range G.nmu).flatMap fun im =>
        (List.range G.nphi).map fun ip => (it, im, ip) := by
  unfold Grid.blocks
  rw [List.range_eq_range']
  exact cursors_blocks_from G hn G.nt 0 (0, 0, 0)

/-- … and these indices are pairwise distinct -/
theorem cursors_blocks_nodup (G : Grid α) (hn : 0 < G.nphi) : (cursors (0, 0, 0) G.blocks).Nodup := by
  rw [cursors_blocks G hn]
  rw [List.nodup_flatMap]
  constructor
  · intro it _
    rw [List.nodup_flatMap]
    constructor
    · intro im _
      exact List.Nodup.map (fun a b e => by injection e with _ e; injection e with _ e) List.nodup_range
    · have hp : (List.range G.nmu).Pairwise (· ≠ ·) := List.nodup_range
      refine hp.imp ?_
      intro a b hab x hxa hxb
      obtain ⟨_, _, rfl⟩ := List.mem_map.1 hxa
      obtain ⟨_, _, e⟩ := List.mem_map.1 hxb
      injection e with _ e
      injection e with e _
      exact hab e.symm
  · have hp : (List.range G.nt).Pairwise (· ≠ ·) := List.nodup_range
    refine hp.imp ?_
    intro a b hab x hxa hxb
    obtain ⟨_, _, hxa'⟩ := List.mem_flatMap.1 hxa
    obtain ⟨_, _, hxb'⟩ := List.mem_flatMap.1 hxb
    obtain ⟨_, _, rfl⟩ := List.mem_map.1 hxa'
    obtain ⟨_, _, e⟩ := List.mem_map.1 hxb'
    injection e with e _
    exact hab e.symm

/-! ### `_get_number_of_bins` on a printed grid -/

theorem inner_length (G : Grid α) (it im : Nat) : (G.inner it im).length = G.nphi := by simp [Grid.inner]

theorem mid_length (G : Grid α) (it : Nat) : (G.mid it).length = G.nmu * G.nphi := by
  simp [Grid.mid, List.length_flatMap, inner_length, sum_const_range]

theorem blocks_length (G : Grid α) : G.blocks.length = G.nt * (G.nmu * G.nphi) := by
  simp [Grid.blocks, List.length_flatMap, mid_length, sum_const_range]

theorem blocks_get (G : Grid α) (it im ip : Nat) (h1 : it < G.nt) (h2 : im < G.nmu) (h3 : ip < G.nphi) :
    G.blocks[it * (G.nmu * G.nphi) + (im * G.nphi + ip)]? = some (G.blk it im ip) := by
  have b2 : im * G.nphi + ip < G.nmu * G.nphi := by
    calc im * G.nphi + ip < im * G.nphi + G.nphi := by omega
      _ = (im + 1) * G.nphi := (Nat.succ_mul _ _).symm
      _ ≤ G.nmu * G.nphi := Nat.mul_le_mul_right _ h2
  unfold Grid.blocks
  rw [getElem?_flatMap_const _ _ (G.nmu * G.nphi) (fun x _ => mid_length G x) it _ b2, List.getElem?_range h1]
  simp only [Option.bind_some]
  unfold Grid.mid
  rw [getElem?_flatMap_const _ _ G.nphi (fun x _ => inner_length G it x) im _ h3, List.getElem?_range h2]
  simp only [Option.bind_some]
  unfold Grid.inner
  rw [List.getElem?_map, List.getElem?_range h3]
  rfl

/-- **the three dimensions are found**: on a printed grid `_get_number_of_bins` returns the numbers of phi zones, mu
zones and time steps, and the number of groups of the first block -/
theorem nbBins_blocks (G : Grid α) (ht : 0 < G.nt) (hm : 0 < G.nmu) (hp : 0 < G.nphi) :
    nbBins G.blocks = .ok (G.nphi, G.nmu, G.nt, (G.rows 0 0 0).length) := by
  obtain ⟨a, ha⟩ : ∃ a, G.nt = a + 1 := ⟨G.nt - 1, by omega⟩
  obtain ⟨b, hb⟩ : ∃ b, G.nmu = b + 1 := ⟨G.nmu - 1, by omega⟩
  obtain ⟨c, hc⟩ : ∃ c, G.nphi = c + 1 := ⟨G.nphi - 1, by omega⟩
  have hM : G.nmu * G.nphi = b * G.nphi + G.nphi := by rw [hb, Nat.succ_mul]
  have hN : G.nt * (G.nmu * G.nphi) = a * (G.nmu * G.nphi) + G.nmu * G.nphi := by rw [ha, Nat.succ_mul]
  have hlen := blocks_length G
  have hfirst : G.blocks[0]? = some (G.blk 0 0 0) := by
    have := blocks_get G 0 0 0 ht hm hp
    simpa using this
  cases hd : G.blocks with
  | nil => rw [hd] at hfirst; cases hfirst
  | cons first rest =>
    have hf : first = G.blk 0 0 0 := by
      rw [hd] at hfirst
      simpa using hfirst
    have hlen' : (first :: rest).length = G.nt * (G.nmu * G.nphi) := by rw [← hd]; exact hlen
    -- the three blocks looked at
    have g1 : (first :: rest)[(first :: rest).length - 1]? = some (G.blk a b c) := by
      rw [hlen', ← hd]
      have := blocks_get G a b c (by omega) (by omega) (by omega)
      have e : G.nt * (G.nmu * G.nphi) - 1 = a * (G.nmu * G.nphi) + (b * G.nphi + c) := by
        rw [hN, hM]; omega
      rw [e]; exact this
    have g2 : (first :: rest)[(first :: rest).length - G.nphi]? = some (G.blk a b 0) := by
      rw [hlen', ← hd]
      have := blocks_get G a b 0 (by omega) (by omega) hp
      have e : G.nt * (G.nmu * G.nphi) - G.nphi = a * (G.nmu * G.nphi) + (b * G.nphi + 0) := by
        rw [hN, hM]; omega
      rw [e]; exact this
    have g3 : (first :: rest)[(first :: rest).length - G.nphi * G.nmu]? = some (G.blk a 0 0) := by
      rw [hlen', ← hd]
      have := blocks_get G a 0 0 (by omega) hm hp
      have e : G.nt * (G.nmu * G.nphi) - G.nphi * G.nmu = a * (G.nmu * G.nphi) + (0 * G.nphi + 0) := by
        rw [hN, Nat.mul_comm G.nphi G.nmu]; omega
      rw [e]; exact this
    have hpos : 0 < G.nmu * G.nphi := Nat.mul_pos hm hp
    have c1 : ¬ (1 = 0 ∨ 1 > (first :: rest).length) := by rw [hlen', hN]; omega
    have c2 : ¬ (G.nphi = 0 ∨ G.nphi > (first :: rest).length) := by rw [hlen', hN, hM]; omega
    have c3 : ¬ (G.nphi * G.nmu = 0 ∨ G.nphi * G.nmu > (first :: rest).length) := by
      rw [hlen', hN, Nat.mul_comm G.nphi G.nmu]; omega
    have hfp : first.phi.isSome = true := by rw [hf]; rfl
    have hfm : first.mu.isSome = true := by rw [hf]; simp [Grid.blk]
    have hft : first.time.isSome = true := by rw [hf]; simp [Grid.blk]
    have hrows : first.rows.length = (G.rows 0 0 0).length := by rw [hf]; rfl
    unfold nbBins
    simp only [hfp, hfm, hft, hrows, if_true]
    rw [if_neg c1, g1]
    simp only [Grid.blk, Option.bind_some, Option.map_some, ← hc]
    rw [if_neg c2, g2]
    simp only [Grid.blk, if_true, Option.bind_some, Option.map_some, ← hb]
    rw [if_neg c3, g3]
    simp only [Grid.blk, and_self, if_true, Option.bind_some, Option.map_some, ← ha]

end T4Spec
