import Proofs.T4SpecTie
/-! What `fill` / `convert` of the spectrum model do with ANY sequence of blocks (C10, all four axes): every printed
row is stored under the row index in its block and under the (time step, mu zone, phi zone) indices in force when its
block was read; `convert` then lays the cells out in C order, reading each axis through the same flip that it applies
to the bins of that axis. -/
set_option linter.unusedVariables false
namespace T4Spec
variable {α : Type} [Num α]

abbrev Key := Nat × Nat × Nat × Nat
abbrev Cur := Nat × Nat × Nat

def B.cur (b : B α) : Cur := (b.itime, b.imu, b.iphi)

/-- the indices in force after the keys of a block have been read -/
def curStep (c : Cur) (k : Block α) : Cur :=
  (match k.time with | some s => s.idx | none => c.1,
   match k.mu with | some s => s.idx | none => c.2.1,
   match k.phi with | some s => s.idx | none => c.2.2)

/-- the builder after the keys of a block -/
def stepKeys (b : B α) (k : Block α) : B α :=
  let b := match k.time with | some s => { b with itime := s.idx, tbins := b.tbins ++ [s.a] } | none => b
  let b := match k.mu with
    | some s => { b with imu := s.idx, mubins := if b.itime == 0 then b.mubins ++ [s.a] else b.mubins }
    | none => b
  match k.phi with
    | some s => { b with iphi := s.idx, phibins := if b.itime == 0 && b.imu == 0 then b.phibins ++ [s.a] else b.phibins }
    | none => b

theorem stepKeys_facts (b : B α) (k : Block α) :
    (stepKeys b k).cur = curStep b.cur k ∧ (stepKeys b k).cells = b.cells ∧ (stepKeys b k).ne = b.ne ∧
    (stepKeys b k).nt = b.nt ∧ (stepKeys b k).nmu = b.nmu ∧ (stepKeys b k).nphi = b.nphi ∧
    (stepKeys b k).integ = b.integ ∧ (stepKeys b k).ebins = b.ebins := by
  unfold stepKeys curStep B.cur
  cases k.time <;> cases k.mu <;> cases k.phi <;> simp

/-- the cells assigned by the rows of one block, in assignment order -/
def blockCells (c : Cur) (rows : List (Row α)) (start : Nat) : List (Key × Row α) :=
  (rows.zipIdx start).map fun p => ((p.2, c.1, c.2.1, c.2.2), p.1)

theorem fillRows_ok (all : List (Row α)) : ∀ (rs : List (Row α)) (ie : Nat) (b b' : B α),
    fillRows b all ie rs = .ok b' →
    b'.cells = (blockCells b.cur rs ie).reverse ++ b.cells ∧ b'.cur = b.cur ∧ b'.ne = b.ne ∧ b'.nt = b.nt ∧
    b'.nmu = b.nmu ∧ b'.nphi = b.nphi ∧ b'.tbins = b.tbins ∧ b'.mubins = b.mubins ∧ b'.phibins = b.phibins ∧
    b'.integ = b.integ ∧
    b'.ebins = b.ebins ++ (if b.itime == 0 && b.imu == 0 && b.iphi == 0 then rs.map (·.lo) else []) ∧
    (∀ p ∈ rs.zipIdx ie, p.2 < b.ne) ∧ (rs ≠ [] → b.itime < b.nt ∧ b.imu < b.nmu ∧ b.iphi < b.nphi) := by
  intro rs
  induction rs with
  | nil =>
    intro ie b b' h
    rw [fillRows] at h
    cases h
    simp [blockCells]
  | cons r rs ih =>
    intro ie b b' h
    rw [fillRows] at h
    simp only at h
    split at h
    · cases h
    · by_cases hfirst : (b.itime == 0 && b.imu == 0 && b.iphi == 0) = true
      · simp only [hfirst, if_true] at h
        split at h
        · rename_i hidx
          obtain ⟨c1, c2, c3, c4, c5, c6, c7, c8, c9, c10, c11, c12, c13⟩ := ih _ _ _ h
          simp only [B.cur] at c1 c2 ⊢
          refine ⟨?_, c2, c3, c4, c5, c6, c7, c8, c9, c10, ?_, ?_, fun _ => hidx.2⟩
          · rw [c1]; simp [blockCells, List.zipIdx_cons]
          · rw [c11]; simp [hfirst]
          · intro p hp
            rw [List.zipIdx_cons] at hp
            rcases List.mem_cons.1 hp with e | hp
            · subst e; exact hidx.1
            · exact c12 p hp
        · cases h
      · have hf : (b.itime == 0 && b.imu == 0 && b.iphi == 0) = false := by simpa using hfirst
        simp only [hf, Bool.false_eq_true, if_false] at h
        split at h
        · rename_i hidx
          obtain ⟨c1, c2, c3, c4, c5, c6, c7, c8, c9, c10, c11, c12, c13⟩ := ih _ _ _ h
          simp only [B.cur] at c1 c2 ⊢
          refine ⟨?_, c2, c3, c4, c5, c6, c7, c8, c9, c10, ?_, ?_, fun _ => hidx.2⟩
          · rw [c1]; simp [blockCells, List.zipIdx_cons]
          · rw [c11]; simp [hf]
          · intro p hp
            rw [List.zipIdx_cons] at hp
            rcases List.mem_cons.1 hp with e | hp
            · subst e; exact hidx.1
            · exact c12 p hp
        · cases h

/-- the indices in force for each block of the sequence -/
def cursors (c : Cur) : List (Block α) → List Cur
  | [] => []
  | k :: ks => curStep c k :: cursors (curStep c k) ks

/-- everything `fill` assigns, latest first (as stored) -/
def cellsOf (c : Cur) : List (Block α) → List (Key × Row α)
  | [] => []
  | k :: ks => cellsOf (curStep c k) ks ++ (blockCells (curStep c k) k.rows 0).reverse

theorem fill_cons (b : B α) (k : Block α) (ks : List (Block α)) :
    fill b (k :: ks) =
      match fillRows (stepKeys b k) k.rows 0 k.rows with
      | .error e => .error e
      | .ok b1 =>
        match k.integ with
        | some v =>
          if b1.itime < b1.nt ∧ b1.imu < b1.nmu ∧ b1.iphi < b1.nphi then
            fill { b1 with integ := ((b1.itime, b1.imu, b1.iphi), v) :: b1.integ } ks
          else .error .index
        | none => fill b1 ks := by
  rw [fill]
  rfl

/-- **what `fill` stores**: exactly the rows of every block under the indices in force for that block -/
theorem fill_cells : ∀ (d : List (Block α)) (b b' : B α), fill b d = .ok b' →
    b'.cells = cellsOf b.cur d ++ b.cells ∧ b'.ne = b.ne ∧ b'.nt = b.nt ∧ b'.nmu = b.nmu ∧ b'.nphi = b.nphi ∧
    (∀ key ∈ (cellsOf b.cur d).map (·.1), key.1 < b.ne ∧ key.2.1 < b.nt ∧ key.2.2.1 < b.nmu ∧ key.2.2.2 < b.nphi) := by
  intro d
  induction d with
  | nil =>
    intro b b' h
    rw [fill] at h
    cases h
    simp [cellsOf]
  | cons k ks ih =>
    intro b b' h
    rw [fill_cons] at h
    obtain ⟨s1, s2, s3, s4, s5, s6, s7, s8⟩ := stepKeys_facts b k
    cases hr : fillRows (stepKeys b k) k.rows 0 k.rows with
    | error e => rw [hr] at h; cases h
    | ok b1 =>
      rw [hr] at h
      obtain ⟨c1, c2, c3, c4, c5, c6, c7, c8, c9, c10, c11, c12, c13⟩ := fillRows_ok k.rows k.rows 0 _ _ hr
      have hcur1 : b1.cur = curStep b.cur k := by rw [c2, s1]
      have hkeys : ∀ key ∈ (blockCells (curStep b.cur k) k.rows 0).map (·.1),
          key.1 < b.ne ∧ key.2.1 < b.nt ∧ key.2.2.1 < b.nmu ∧ key.2.2.2 < b.nphi := by
        intro key hk
        simp only [blockCells, List.map_map, List.mem_map] at hk
        obtain ⟨p, hp, rfl⟩ := hk
        have hne : k.rows ≠ [] := by
          intro e; rw [e] at hp; simp at hp
        have h13 := c13 hne
        have h12 := c12 p hp
        simp only [Function.comp]
        rw [s3] at h12
        rw [s4, s5, s6] at h13
        have e1 : (curStep b.cur k).1 = (stepKeys b k).itime := (congrArg (fun c : Cur => c.1) s1).symm
        have e2 : (curStep b.cur k).2.1 = (stepKeys b k).imu := (congrArg (fun c : Cur => c.2.1) s1).symm
        have e3 : (curStep b.cur k).2.2 = (stepKeys b k).iphi := (congrArg (fun c : Cur => c.2.2) s1).symm
        exact ⟨h12, by rw [e1]; exact h13.1, by rw [e2]; exact h13.2.1, by rw [e3]; exact h13.2.2⟩
      have finish : ∀ b2 : B α, b2.cur = b1.cur → b2.cells = b1.cells → b2.ne = b1.ne → b2.nt = b1.nt →
          b2.nmu = b1.nmu → b2.nphi = b1.nphi → fill b2 ks = .ok b' →
          b'.cells = cellsOf b.cur (k :: ks) ++ b.cells ∧ b'.ne = b.ne ∧ b'.nt = b.nt ∧ b'.nmu = b.nmu ∧
          b'.nphi = b.nphi ∧ (∀ key ∈ (cellsOf b.cur (k :: ks)).map (·.1),
            key.1 < b.ne ∧ key.2.1 < b.nt ∧ key.2.2.1 < b.nmu ∧ key.2.2.2 < b.nphi) := by
        intro b2 e1 e2 e3 e4 e5 e6 hf
        obtain ⟨i1, i2, i3, i4, i5, i6⟩ := ih b2 b' hf
        rw [e1, hcur1] at i1 i6
        refine ⟨?_, by rw [i2, e3, c3, s3], by rw [i3, e4, c4, s4], by rw [i4, e5, c5, s5], by rw [i5, e6, c6, s6], ?_⟩
        · rw [i1, e2, c1, s2, s1]
          simp [cellsOf]
        · intro key hk
          simp only [cellsOf, List.map_append, List.mem_append, List.map_reverse, List.mem_reverse] at hk
          rcases hk with hk | hk
          · have := i6 key hk
            rw [e3, e4, e5, e6, c3, c4, c5, c6, s3, s4, s5, s6] at this
            exact this
          · exact hkeys key hk
      cases hi : k.integ with
      | none =>
        rw [hi] at h
        exact finish b1 rfl rfl rfl rfl rfl rfl h
      | some v =>
        rw [hi] at h
        simp only at h
        split at h
        · exact finish { b1 with integ := ((b1.itime, b1.imu, b1.iphi), v) :: b1.integ } rfl rfl rfl rfl rfl rfl h
        · cases h

/-! ### looking a cell up -/

theorem lookup_append {κ ν : Type} [BEq κ] (l1 l2 : List (κ × ν)) (k : κ) :
    lookup (l1 ++ l2) k = (lookup l1 k).or (lookup l2 k) := by
  unfold lookup
  rw [List.find?_append]
  cases List.find? (fun x => x.1 == k) l1 <;> simp

theorem lookup_nil {κ ν : Type} [BEq κ] (k : κ) : lookup ([] : List (κ × ν)) k = none := rfl

theorem lookup_single (key key' : Key) (r : Row α) :
    lookup [(key, r)] key' = if key = key' then some r else none := by
  unfold lookup
  by_cases e : key = key'
  · subst e; simp [List.find?]
  · have : (key == key') = false := by simpa using e
    simp [List.find?, this, e]

/-- the rows of one block: row `ie` is found under `(ie, c)` and nowhere else -/
theorem lookup_blockCells (c c' : Cur) (rows : List (Row α)) (start ie : Nat) :
    lookup (blockCells c rows start).reverse (ie, c'.1, c'.2.1, c'.2.2) =
      if c' = c ∧ start ≤ ie ∧ ie < start + rows.length then rows[ie - start]? else none := by
  induction rows generalizing start with
  | nil => simp [blockCells, lookup_nil]
  | cons r rest ih =>
    have hcons : blockCells c (r :: rest) start = ((start, c.1, c.2.1, c.2.2), r) :: blockCells c rest (start + 1) := by
      simp [blockCells, List.zipIdx_cons]
    rw [hcons, List.reverse_cons, lookup_append, ih (start + 1), lookup_single]
    have hkey : ((start, c.1, c.2.1, c.2.2) = (ie, c'.1, c'.2.1, c'.2.2)) ↔ (start = ie ∧ c' = c) := by
      constructor
      · intro h
        injection h with h1 h2
        injection h2 with h2 h3
        injection h3 with h3 h4
        exact ⟨h1, Prod.ext h2.symm (Prod.ext h3.symm h4.symm)⟩
      · rintro ⟨h1, h2⟩
        subst h1; subst h2; rfl
    by_cases hc : c' = c
    · by_cases h0 : start = ie
      · -- the row just added
        have hfalse : ¬ (c' = c ∧ start + 1 ≤ ie ∧ ie < start + 1 + rest.length) := by
          intro h; omega
        rw [if_neg hfalse, if_pos (hkey.2 ⟨h0, hc⟩), if_pos ⟨hc, by omega, by simp only [List.length_cons]; omega⟩]
        have : ie - start = 0 := by omega
        rw [this]
        rfl
      · rw [if_neg (fun h => h0 (hkey.1 h).1)]
        by_cases h1 : start + 1 ≤ ie ∧ ie < start + 1 + rest.length
        · rw [if_pos ⟨hc, h1⟩, if_pos ⟨hc, by omega, by simp only [List.length_cons]; omega⟩]
          have : ie - start = (ie - (start + 1)) + 1 := by omega
          rw [this, List.getElem?_cons_succ]
          cases rest[ie - (start + 1)]? <;> rfl
        · rw [if_neg (fun h => h1 h.2), if_neg]
          · rfl
          · intro h
            simp only [List.length_cons] at h
            omega
    · rw [if_neg (fun h => hc h.1), if_neg (fun h => hc (hkey.1 h).2), if_neg (fun h => hc h.1)]
      rfl

theorem lookup_cellsOf_none (d : List (Block α)) (c c' : Cur) (ie : Nat) (h : c' ∉ cursors c d) :
    lookup (cellsOf c d) (ie, c'.1, c'.2.1, c'.2.2) = none := by
  induction d generalizing c with
  | nil => rfl
  | cons k ks ih =>
    simp only [cursors, List.mem_cons, not_or] at h
    rw [cellsOf, lookup_append, ih _ h.2, lookup_blockCells, if_neg (fun hh => h.1 hh.1)]
    rfl

/-- **when no two blocks are read under the same indices, every printed row is found under the row index in its block
and the indices in force for its block** -/
theorem lookup_cellsOf (d : List (Block α)) (c : Cur) (hnd : (cursors c d).Nodup) (k : Nat) (hk : k < d.length)
    (ie : Nat) (hie : ie < d[k].rows.length) :
    ∃ cu, (cursors c d)[k]? = some cu ∧
      lookup (cellsOf c d) (ie, cu.1, cu.2.1, cu.2.2) = some (d[k].rows[ie]) := by
  induction d generalizing c k with
  | nil => simp at hk
  | cons b ks ih =>
    simp only [cursors, List.nodup_cons] at hnd
    cases k with
    | zero =>
      refine ⟨curStep c b, rfl, ?_⟩
      rw [cellsOf, lookup_append, lookup_cellsOf_none ks _ _ ie hnd.1, lookup_blockCells]
      have hcond : curStep c b = curStep c b ∧ 0 ≤ ie ∧ ie < 0 + b.rows.length :=
        ⟨rfl, Nat.zero_le _, by simpa using hie⟩
      rw [if_pos hcond]
      simp only [Option.none_or, Nat.sub_zero]
      exact List.getElem?_eq_getElem (by simpa using hie)
    | succ j =>
      obtain ⟨cu, hcu, hl⟩ := ih (curStep c b) hnd.2 j (by simpa using hk) (by simpa using hie)
      refine ⟨cu, by simpa [cursors] using hcu, ?_⟩
      rw [cellsOf, lookup_append, hl]
      simp

/-! ### `convert`, factored -/

def ixf (flip : Bool) (n i : Nat) : Nat := if flip then n - 1 - i else i

def negBlock (d : List (Block α)) (k : Nat) : Option (Block α) := if k = 0 ∨ k > d.length then none else d[d.length - k]?

def eOf (d : List (Block α)) (b : B α) : Except Err (List α) :=
  match (d.getLast?.bind (·.rows.getLast?)) with | some r => Except.ok (b.ebins ++ [r.hi]) | none => Except.error Err.index

def nphib (b : B α) : Nat := if b.phibins.isEmpty then 1 else b.phibins.length
def nmub (b : B α) : Nat := if b.mubins.isEmpty then 1 else b.mubins.length

def tOf (d : List (Block α)) (b : B α) : Except Err (List α) :=
  if (d.head?.bind (·.time)).isSome then addLast b.tbins (d.head?.bind (·.time)) ((negBlock d (nphib b * nmub b)).bind (·.time)) else pure b.tbins
def mOf (d : List (Block α)) (b : B α) : Except Err (List α) :=
  if (d.head?.bind (·.mu)).isSome then addLast b.mubins (d.head?.bind (·.mu)) ((negBlock d (nphib b)).bind (·.mu)) else pure b.mubins
def pOf (d : List (Block α)) (b : B α) : Except Err (List α) :=
  if (d.head?.bind (·.phi)).isSome then addLast b.phibins (d.head?.bind (·.phi)) ((negBlock d 1).bind (·.phi)) else pure b.phibins

def assemble (dims : Nat × Nat × Nat × Nat) (b : B α) (hasInteg : Bool) (eb tb mb pb : List α) : Spectrum α :=
  let nphi := dims.1; let nmu := dims.2.1; let nt := dims.2.2.1; let ne := dims.2.2.2
  let fe := decreasing eb; let ft := decreasing tb; let fm := decreasing mb; let fp := decreasing pb
  { ne := ne, nt := nt, nmu := nmu, nphi := nphi,
    ebins := orientL fe eb, tbins := orientL ft tb, mubins := orientL fm mb, phibins := orientL fp pb,
    cells := (List.range ne).flatMap fun ie => (List.range nt).flatMap fun it => (List.range nmu).flatMap fun im =>
      (List.range nphi).map fun ip => lookup b.cells (ixf fe ne ie, ixf ft nt it, ixf fm nmu im, ixf fp nphi ip),
    integ := if hasInteg then
        some ((List.range nt).flatMap fun it => (List.range nmu).flatMap fun im => (List.range nphi).map fun ip =>
          lookup b.integ (ixf ft nt it, ixf fm nmu im, ixf fp nphi ip))
      else none }

theorem convert_eq (d : List (Block α)) :
    convert d = (nbBins d >>= fun dims =>
      fill { ne := dims.2.2.2, nt := dims.2.2.1, nmu := dims.2.1, nphi := dims.1 } d >>= fun b =>
      eOf d b >>= fun eb => tOf d b >>= fun tb => mOf d b >>= fun mb => pOf d b >>= fun pb =>
      pure (assemble dims b ((d.head?.bind (·.integ)).isSome) eb tb mb pb)) := by
  unfold convert eOf tOf mOf pOf
  cases hnb : nbBins d with
  | error e => rfl
  | ok dims =>
    obtain ⟨nphi, nmu, nt, ne⟩ := dims
    simp only [bind, Except.bind]
    cases hf : fill { ne := ne, nt := nt, nmu := nmu, nphi := nphi } d with
    | error e => rfl
    | ok b =>
      simp only []
      cases hl : (d.getLast?.bind fun x => x.rows.getLast?) with
      | none => rfl
      | some r =>
        simp only []
        by_cases ht : (d.head?.bind fun x => x.time).isSome = true <;>
        by_cases hm : (d.head?.bind fun x => x.mu).isSome = true <;>
        by_cases hp : (d.head?.bind fun x => x.phi).isSome = true <;>
        simp only [ht, hm, hp, if_true, if_false, Bool.false_eq_true, pure, Except.pure, negBlock, nphib, nmub] <;>
        (first | rfl | (split <;> first | rfl | (split <;> first | rfl | (split <;> rfl))))

/-- when `convert` returns, every stage returned and the result is assembled from their outputs -/
theorem convert_ok {d : List (Block α)} {sp : Spectrum α} (h : convert d = .ok sp) :
    ∃ dims b eb tb mb pb, nbBins d = .ok dims ∧
      fill { ne := dims.2.2.2, nt := dims.2.2.1, nmu := dims.2.1, nphi := dims.1 } d = .ok b ∧
      eOf d b = .ok eb ∧ tOf d b = .ok tb ∧ mOf d b = .ok mb ∧ pOf d b = .ok pb ∧
      sp = assemble dims b ((d.head?.bind (·.integ)).isSome) eb tb mb pb := by
  rw [convert_eq] at h
  cases h1 : nbBins d with
  | error e => rw [h1] at h; cases h
  | ok dims =>
    rw [h1] at h
    simp only [bind, Except.bind] at h
    cases h2 : fill { ne := dims.2.2.2, nt := dims.2.2.1, nmu := dims.2.1, nphi := dims.1 } d with
    | error e => rw [h2] at h; cases h
    | ok b =>
      rw [h2] at h
      simp only at h
      cases h3 : eOf d b with
      | error e => rw [h3] at h; cases h
      | ok eb =>
        rw [h3] at h
        simp only at h
        cases h4 : tOf d b with
        | error e => rw [h4] at h; cases h
        | ok tb =>
          rw [h4] at h
          simp only at h
          cases h5 : mOf d b with
          | error e => rw [h5] at h; cases h
          | ok mb =>
            rw [h5] at h
            simp only at h
            cases h6 : pOf d b with
            | error e => rw [h6] at h; cases h
            | ok pb =>
              rw [h6] at h
              simp only [pure, Except.pure] at h
              cases h
              exact ⟨dims, b, eb, tb, mb, pb, rfl, h2, h3, h4, h5, h6, rfl⟩

/-! ### C order -/

theorem getElem?_flatMap_const {β γ : Type} (l : List β) (f : β → List γ) (m : Nat)
    (hm : ∀ x ∈ l, (f x).length = m) (i j : Nat) (hj : j < m) :
    (l.flatMap f)[i * m + j]? = (l[i]?).bind (fun x => (f x)[j]?) := by
  induction l generalizing i with
  | nil => simp
  | cons x xs ih =>
    rw [List.flatMap_cons]
    have hx := hm x (by simp)
    cases i with
    | zero =>
      simp only [Nat.zero_mul, Nat.zero_add, List.getElem?_cons_zero, Option.bind_some]
      exact List.getElem?_append_left (by omega)
    | succ i =>
      have hge : (f x).length ≤ (i + 1) * m + j := by
        rw [hx, Nat.add_mul]; omega
      rw [List.getElem?_append_right hge, hx]
      have : (i + 1) * m + j - m = i * m + j := by rw [Nat.add_mul]; omega
      rw [this, ih (fun y hy => hm y (by simp [hy]))]
      simp

theorem sum_const_range (c n : Nat) : ((List.range n).map fun _ => c).sum = n * c := by
  induction n with
  | zero => simp
  | succ n ih => rw [List.range_succ, List.map_append, List.sum_append, ih, Nat.succ_mul]; simp

theorem ixf_lt (f : Bool) (n i : Nat) (hi : i < n) : ixf f n i < n := by
  unfold ixf; split <;> omega

theorem ixf_ixf (f : Bool) (n i : Nat) (hi : i < n) : ixf f n (ixf f n i) = i := by
  unfold ixf; cases f <;> simp <;> omega

/-- the cell of the assembled response at `(ie, it, im, ip)` (C order) -/
theorem assemble_cell (dims : Nat × Nat × Nat × Nat) (b : B α) (hi : Bool) (eb tb mb pb : List α)
    (ie it im ip : Nat) (h1 : ie < dims.2.2.2) (h2 : it < dims.2.2.1) (h3 : im < dims.2.1) (h4 : ip < dims.1) :
    (assemble dims b hi eb tb mb pb).cells[((ie * dims.2.2.1 + it) * dims.2.1 + im) * dims.1 + ip]? =
      some (lookup b.cells (ixf (decreasing eb) dims.2.2.2 ie, ixf (decreasing tb) dims.2.2.1 it,
        ixf (decreasing mb) dims.2.1 im, ixf (decreasing pb) dims.1 ip)) := by
  obtain ⟨nphi, nmu, nt, ne⟩ := dims
  simp only at h1 h2 h3 h4 ⊢
  unfold assemble
  simp only
  have l3 : ∀ ie' it' im', ((List.range nphi).map fun ip' => lookup b.cells (ixf (decreasing eb) ne ie', ixf (decreasing tb) nt it',
      ixf (decreasing mb) nmu im', ixf (decreasing pb) nphi ip')).length = nphi := by intros; simp
  have l2 : ∀ ie' it', ((List.range nmu).flatMap fun im' => (List.range nphi).map fun ip' => lookup b.cells
      (ixf (decreasing eb) ne ie', ixf (decreasing tb) nt it', ixf (decreasing mb) nmu im', ixf (decreasing pb) nphi ip')).length
      = nmu * nphi := by
    intros; simp [List.length_flatMap, sum_const_range]
  have l1 : ∀ ie', ((List.range nt).flatMap fun it' => (List.range nmu).flatMap fun im' => (List.range nphi).map fun ip' =>
      lookup b.cells (ixf (decreasing eb) ne ie', ixf (decreasing tb) nt it', ixf (decreasing mb) nmu im',
        ixf (decreasing pb) nphi ip')).length = nt * (nmu * nphi) := by
    intros; simp [List.length_flatMap, sum_const_range]
  -- peel the four loops
  have e1 : ((ie * nt + it) * nmu + im) * nphi + ip = ie * (nt * (nmu * nphi)) + ((it * nmu + im) * nphi + ip) := by
    simp only [Nat.add_mul, Nat.mul_assoc, Nat.add_assoc]
  have b1 : (it * nmu + im) * nphi + ip < nt * (nmu * nphi) := by
    have : it * nmu + im < nt * nmu := by
      calc it * nmu + im < it * nmu + nmu := by omega
        _ = (it + 1) * nmu := (Nat.succ_mul _ _).symm
        _ ≤ nt * nmu := Nat.mul_le_mul_right _ h2
    calc (it * nmu + im) * nphi + ip < (it * nmu + im) * nphi + nphi := by omega
      _ = (it * nmu + im + 1) * nphi := (Nat.succ_mul _ _).symm
      _ ≤ (nt * nmu) * nphi := Nat.mul_le_mul_right _ this
      _ = nt * (nmu * nphi) := Nat.mul_assoc _ _ _
  rw [e1, getElem?_flatMap_const _ _ (nt * (nmu * nphi)) (fun x _ => l1 x) ie _ b1, List.getElem?_range h1]
  simp only [Option.bind_some]
  have e2 : (it * nmu + im) * nphi + ip = it * (nmu * nphi) + (im * nphi + ip) := by
    simp only [Nat.add_mul, Nat.mul_assoc, Nat.add_assoc]
  have b2 : im * nphi + ip < nmu * nphi := by
    calc im * nphi + ip < im * nphi + nphi := by omega
      _ = (im + 1) * nphi := (Nat.succ_mul _ _).symm
      _ ≤ nmu * nphi := Nat.mul_le_mul_right _ h3
  rw [e2, getElem?_flatMap_const _ _ (nmu * nphi) (fun x _ => l2 ie x) it _ b2, List.getElem?_range h2]
  simp only [Option.bind_some]
  rw [getElem?_flatMap_const _ _ nphi (fun x _ => l3 ie it x) im _ h4, List.getElem?_range h3]
  simp only [Option.bind_some]
  rw [List.getElem?_map, List.getElem?_range h4]
  rfl

/-- a cell that is found was assigned -/
theorem mem_of_lookup (l : List (Key × Row α)) (key : Key) (r : Row α) (h : lookup l key = some r) :
    key ∈ l.map (·.1) := by
  unfold lookup at h
  cases hf : l.find? (fun x => x.1 == key) with
  | none => rw [hf] at h; cases h
  | some q =>
    have h1 := List.find?_some hf
    have h2 := List.mem_of_find?_eq_some hf
    have : q.1 = key := by simpa using h1
    exact List.mem_map.2 ⟨q, h2, this⟩

/-- **every printed score ends up in the cell of its group, time step, mu zone and phi zone**: when `convert` returns and no
two blocks were read under the same (time step, mu zone, phi zone) indices, row `ie` of block `k` is the content of the
cell whose position along each axis is the printed index, read through the flip applied to the bins of that axis -/
theorem score_at_cursor {d : List (Block α)} {sp : Spectrum α} (h : convert d = .ok sp)
    (hnd : (cursors (0, 0, 0) d).Nodup) (k : Nat) (hk : k < d.length) (ie : Nat) (hie : ie < d[k].rows.length) :
    ∃ (cu : Cur) (fe ft fm fp : Bool) (eb tb mb pb : List α),
      (cursors (0, 0, 0) d)[k]? = some cu ∧
      sp.ebins = orientL fe eb ∧ fe = decreasing eb ∧ sp.tbins = orientL ft tb ∧ ft = decreasing tb ∧
      sp.mubins = orientL fm mb ∧ fm = decreasing mb ∧ sp.phibins = orientL fp pb ∧ fp = decreasing pb ∧
      ie < sp.ne ∧ cu.1 < sp.nt ∧ cu.2.1 < sp.nmu ∧ cu.2.2 < sp.nphi ∧
      sp.cells[((ixf fe sp.ne ie * sp.nt + ixf ft sp.nt cu.1) * sp.nmu + ixf fm sp.nmu cu.2.1) * sp.nphi
        + ixf fp sp.nphi cu.2.2]? = some (some d[k].rows[ie]) := by
  obtain ⟨dims, b, eb, tb, mb, pb, h1, h2, h3, h4, h5, h6, hsp⟩ := convert_ok h
  obtain ⟨c1, c2, c3, c4, c5, c6⟩ := fill_cells d _ _ h2
  simp only [B.cur, List.append_nil] at c1 c6
  obtain ⟨cu, hcu, hl⟩ := lookup_cellsOf d (0, 0, 0) hnd k hk ie hie
  have hkey := c6 _ (mem_of_lookup _ _ _ hl)
  simp only at hkey
  obtain ⟨r1, r2, r3, r4⟩ := hkey
  subst hsp
  refine ⟨cu, decreasing eb, decreasing tb, decreasing mb, decreasing pb, eb, tb, mb, pb, hcu, rfl, rfl, rfl, rfl, rfl, rfl,
    rfl, rfl, r1, r2, r3, r4, ?_⟩
  have := assemble_cell dims b ((d.head?.bind (·.integ)).isSome) eb tb mb pb
    (ixf (decreasing eb) dims.2.2.2 ie) (ixf (decreasing tb) dims.2.2.1 cu.1) (ixf (decreasing mb) dims.2.1 cu.2.1)
    (ixf (decreasing pb) dims.1 cu.2.2) (ixf_lt _ _ _ r1) (ixf_lt _ _ _ r2) (ixf_lt _ _ _ r3) (ixf_lt _ _ _ r4)
  rw [ixf_ixf _ _ _ r1, ixf_ixf _ _ _ r2, ixf_ixf _ _ _ r3, ixf_ixf _ _ _ r4, c1, hl] at this
  exact this

/-! ### the time grid collected by `fill` -/

theorem stepKeys_tbins (b : B α) (k : Block α) :
    (stepKeys b k).tbins = b.tbins ++ (match k.time with | some s => [s.a] | none => []) := by
  unfold stepKeys
  cases k.time <;> cases k.mu <;> cases k.phi <;> simp

/-- the time edges collected are the first printed bounds of the time steps, in the order read -/
theorem fill_tbins : ∀ (d : List (Block α)) (b b' : B α), fill b d = .ok b' →
    b'.tbins = b.tbins ++ (d.filterMap (·.time)).map (·.a) := by
  intro d
  induction d with
  | nil => intro b b' h; rw [fill] at h; cases h; simp
  | cons k ks ih =>
    intro b b' h
    rw [fill_cons] at h
    cases hr : fillRows (stepKeys b k) k.rows 0 k.rows with
    | error e => rw [hr] at h; cases h
    | ok b1 =>
      rw [hr] at h
      obtain ⟨_, _, _, _, _, _, c7, _⟩ := fillRows_ok k.rows k.rows 0 _ _ hr
      have hb1 : b1.tbins = b.tbins ++ (match k.time with | some s => [s.a] | none => []) := by
        rw [c7, stepKeys_tbins]
      have finish : ∀ b2 : B α, b2.tbins = b1.tbins → fill b2 ks = .ok b' →
          b'.tbins = b.tbins ++ ((k :: ks).filterMap (·.time)).map (·.a) := by
        intro b2 e hf
        rw [ih b2 b' hf, e, hb1]
        cases hk : k.time with
        | none => simp [List.filterMap_cons, hk]
        | some s => simp [List.filterMap_cons, hk]
      cases hi : k.integ with
      | none => rw [hi] at h; exact finish b1 rfl h
      | some v =>
        rw [hi] at h
        simp only at h
        split at h
        · exact finish { b1 with integ := ((b1.itime, b1.imu, b1.iphi), v) :: b1.integ } rfl h
        · cases h

end T4Spec
