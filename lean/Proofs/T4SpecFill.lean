import Proofs.T4SpecTie
/-! What `fill` / `convert` of the spectrum model do with ANY sequence of blocks (C10, all four axes): every printed
row is stored under the row index in its block and under the (time step, mu zone, phi zone) indices in force when its
block was read; `convert` then lays the cells out in C order, reading each axis through the same flip that it applies
to the bins of that axis. -/
set_option linter.unusedVariables false
namespace T4Spec
variable {α : Type} [Num α]

abbrev Key := Nat × Nat × Nat × Nat
abbrev Cur := Nat × Nat × Nat

def B.cur (b : B α) : Cur := (b.itime, b.imu, b.iphi)

/-- the indices in force after the keys of a block have been read -/
def curStep (c : Cur) (k : Block α) : Cur :=
  (match k.time with | some s => s.idx | none => c.1,
   match k.mu with | some s => s.idx | none => c.2.1,
   match k.phi with | some s => s.idx | none => c.2.2)

/-- the builder after the keys of a block -/
def stepKeys (b : B α) (k : Block α) : B α :=
  let b := match k.time with | some s => { b with itime := s.idx, tbins := b.tbins ++ [s.a] } | none => b
  let b := match k.mu with
    | some s => { b with imu := s.idx, mubins := if b.itime == 0 then b.mubins ++ [s.a] else b.mubins }
    | none => b
  match k.phi with
    | some s => { b with iphi := s.idx, phibins := if b.itime == 0 && b.imu == 0 then b.phibins ++ [s.a] else b.phibins }
    | none => b

theorem stepKeys_facts (b : B α) (k : Block α) :
    (stepKeys b k).cur = curStep b.cur k ∧ (stepKeys b k).cells = b.cells ∧ (stepKeys b k).ne = b.ne ∧
    (stepKeys b k).nt = b.nt ∧ (stepKeys b k).nmu = b.nmu ∧ (stepKeys b k).nphi = b.nphi ∧
    (stepKeys b k).integ = b.integ ∧ (stepKeys b k).ebins = b.ebins := by
  unfold stepKeys curStep B.cur
  cases k.time <;> cases k.mu <;> cases k.phi <;> simp

/-- the cells assigned by the rows of one block, in assignment order -/
def blockCells (c : Cur) (rows : List (Row α)) (start : Nat) : List (Key × Row α) :=
  (rows.zipIdx start).map fun p => ((p.2, c.1, c.2.1, c.2.2), p.1)

theorem fillRows_ok (all : List (Row α)) : ∀ (rs : List (Row α)) (ie : Nat) (b b' : B α),
    fillRows b all ie rs = .ok b' →
    b'.cells = (blockCells b.cur rs ie).reverse ++ b.cells ∧ b'.cur = b.cur ∧ b'.ne = b.ne ∧ b'.nt = b.nt ∧
    b'.nmu = b.nmu ∧ b'.nphi = b.nphi ∧ b'.tbins = b.tbins ∧ b'.mubins = b.mubins ∧ b'.phibins = b.phibins ∧
    b'.integ = b.integ ∧
    b'.ebins = b.ebins ++ (if b.itime == 0 && b.imu == 0 && b.iphi == 0 then rs.map (·.lo) else []) ∧
    (∀ p ∈ rs.zipIdx ie, p.2 < b.ne) ∧ (rs ≠ [] → b.itime < b.nt ∧ b.imu < b.nmu ∧ b.iphi < b.nphi) := by
  intro rs
  induction rs with
  | nil =>
    intro ie b b' h
    rw [fillRows] at h
    cases h
    simp [blockCells]
  | cons r rs ih =>
    intro ie b b' h
    rw [fillRows] at h
    simp only at h
    split at h
    · cases h
    · by_cases hfirst : (b.itime == 0 && b.imu == 0 && b.iphi == 0) = true
      · simp only [hfirst, if_true] at h
        split at h
        · rename_i hidx
          obtain ⟨c1, c2, c3, c4, c5, c6, c7, c8, c9, c10, c11, c12, c13⟩ := ih _ _ _ h
          simp only [B.cur] at c1 c2 ⊢
          refine ⟨?_, c2, c3, c4, c5, c6, c7, c8, c9, c10, ?_, ?_, fun _ => hidx.2⟩
          · rw [c1]; simp [blockCells, List.zipIdx_cons]
          · rw [c11]; simp [hfirst]
          · intro p hp
            rw [List.zipIdx_cons] at hp
            rcases List.mem_cons.1 hp with e | hp
            · subst e; exact hidx.1
            · exact c12 p hp
        · cases h
      · have hf : (b.itime == 0 && b.imu == 0 && b.iphi == 0) = false := by simpa using hfirst
        simp only [hf, Bool.false_eq_true, if_false] at h
        split at h
        · rename_i hidx
          obtain ⟨c1, c2, c3, c4, c5, c6, c7, c8, c9, c10, c11, c12, c13⟩ := ih _ _ _ h
          simp only [B.cur] at c1 c2 ⊢
          refine ⟨?_, c2, c3, c4, c5, c6, c7, c8, c9, c10, ?_, ?_, fun _ => hidx.2⟩
          · rw [c1]; simp [blockCells, List.zipIdx_cons]
          · rw [c11]; simp [hf]
          · intro p hp
            rw [List.zipIdx_cons] at hp
            rcases List.mem_cons.1 hp with e | hp
            · subst e; exact hidx.1
            · exact c12 p hp
        · cases h

/-- the indices in force for each block of the sequence -/
def cursors (c : Cur) : List (Block α) → List Cur
  | [] => []
  | k :: ks => curStep c k :: cursors (curStep c k) ks

/-- everything `fill` assigns, latest first (as stored) -/
def cellsOf (c : Cur) : List (Block α) → List (Key × Row α)
  | [] => []
  | k :: ks => cellsOf (curStep c k) ks ++ (blockCells (curStep c k) k.rows 0).reverse

theorem fill_cons (b : B α) (k : Block α) (ks : List (Block α)) :
    fill b (k :: ks) =
      match fillRows (stepKeys b k) k.rows 0 k.rows with
      | .error e => .error e
      | .ok b1 =>
        match k.integ with
        | some v =>
          if b1.itime < b1.nt ∧ b1.imu < b1.nmu ∧ b1.iphi < b1.nphi then
            fill { b1 with integ := ((b1.itime, b1.imu, b1.iphi), v) :: b1.integ } ks
          else .error .index
        | none => fill b1 ks := by
  rw [fill]
  rfl

/-- **what `fill` stores**: exactly the rows of every block under the indices in force for that block -/
theorem fill_cells : ∀ (d : List (Block α)) (b b' : B α), fill b d = .ok b' →
    b'.cells = cellsOf b.cur d ++ b.cells ∧ b'.ne = b.ne ∧ b'.nt = b.nt ∧ b'.nmu = b.nmu ∧ b'.nphi = b.nphi ∧
    (∀ key ∈ (cellsOf b.cur d).map (·.1), key.1 < b.ne ∧ key.2.1 < b.nt ∧ key.2.2.1 < b.nmu ∧ key.2.2.2 < b.nphi) := by
  intro d
  induction d with
  | nil =>
    intro b b' h
    rw [fill] at h
    cases h
    simp [cellsOf]
  | cons k ks ih =>
    intro b b' h
    rw [fill_cons] at h
    obtain ⟨s1, s2, s3, s4, s5, s6, s7, s8⟩ := stepKeys_facts b k
    cases hr : fillRows (stepKeys b k) k.rows 0 k.rows with
    | error e => rw [hr] at h; cases h
    | ok b1 =>
      rw [hr] at h
      obtain ⟨c1, c2, c3, c4, c5, c6, c7, c8, c9, c10, c11, c12, c13⟩ := fillRows_ok k.rows k.rows 0 _ _ hr
      have hcur1 : b1.cur = curStep b.cur k := by rw [c2, s1]
      have hkeys : ∀ key ∈ (blockCells (curStep b.cur k) k.rows 0).map (·.1),
          key.1 < b.ne ∧ key.2.1 < b.nt ∧ key.2.2.1 < b.nmu ∧ key.2.2.2 < b.nphi := by
        intro key hk
        simp only [blockCells, List.map_map, List.mem_map] at hk
        obtain ⟨p, hp, rfl⟩ := hk
        have hne : k.rows ≠ [] := by
          intro e; rw [e] at hp; simp at hp
        have h13 := c13 hne
        have h12 := c12 p hp
        simp only [Function.comp]
        rw [s3] at h12
        rw [s4, s5, s6] at h13
        have e1 : (curStep b.cur k).1 = (stepKeys b k).itime := (congrArg (fun c : Cur => c.1) s1).symm
        have e2 : (curStep b.cur k).2.1 = (stepKeys b k).imu := (congrArg (fun c : Cur => c.2.1) s1).symm
        have e3 : (curStep b.cur k).2.2 = (stepKeys b k).iphi := (congrArg (fun c : Cur => c.2.2) s1).symm
        exact ⟨h12, by rw [e1]; exact h13.1, by rw [e2]; exact h13.2.1, by rw [e3]; exact h13.2.2⟩
      have finish : ∀ b2 : B α, b2.cur = b1.cur → b2.cells = b1.cells → b2.ne = b1.ne → b2.nt = b1.nt →
          b2.nmu = b1.nmu → b2.nphi = b1.nphi → fill b2 ks = .ok b' →
          b'.cells = cellsOf b.cur (k :: ks) ++ b.cells ∧ b'.ne = b.ne ∧ b'.nt = b.nt ∧ b'.nmu = b.nmu ∧
          b'.nphi = b.nphi ∧ (∀ key ∈ (cellsOf b.cur (k :: ks)).map (·.1),
            key.1 < b.ne ∧ key.2.1 < b.nt ∧ key.2.2.1 < b.nmu ∧ key.2.2.2 < b.nphi) := by
        intro b2 e1 e2 e3 e4 e5 e6 hf
        obtain ⟨i1, i2, i3, i4, i5, i6⟩ := ih b2 b' hf
        rw [e1, hcur1] at i1 i6
        refine ⟨?_, by rw [i2, e3, c3, s3], by rw [i3, e4, c4, s4], by rw [i4, e5, c5, s5], by rw [i5, e6, c6, s6], ?_⟩
        · rw [i1, e2, c1, s2, s1]
          simp [cellsOf]
        · intro key hk
          simp only [cellsOf, List.map_append, List.mem_append, List.map_reverse, List.mem_reverse] at hk
          rcases hk with hk | hk
          · have := i6 key hk
            rw [e3, e4, e5, e6, c3, c4, c5, c6, s3, s4, s5, s6] at this
            exact this
          · exact hkeys key hk
      cases hi : k.integ with
      | none =>
        rw [hi] at h
        exact finish b1 rfl rfl rfl rfl rfl rfl h
      | some v =>
        rw [hi] at h
        simp only at h
        split at h
        · exact finish { b1 with integ := ((b1.itime, b1.imu, b1.iphi), v) :: b1.integ } rfl rfl rfl rfl rfl rfl h
        · cases h

/-! ### looking a cell up -/

theorem lookup_append {κ ν : Type} [BEq κ] (l1 l2 : List (κ × ν)) (k : κ) :
    lookup (l1 ++ l2) k = (lookup l1 k).or (lookup l2 k) := by
  unfold lookup
  rw [List.find?_append]
  cases List.find? (fun x => x.1 == k) l1 <;> simp

theorem lookup_nil {κ ν : Type} [BEq κ] (k : κ) : lookup ([] : List (κ × ν)) k = none := rfl

theorem lookup_single (key key' : Key) (r : Row α) :
    lookup [(key, r)] key' = if key = key' then some r else none := by
  unfold lookup
  by_cases e : key = key'
  · subst e; simp [List.find?]
  · have : (key == key') = false := by simpa using e
    simp [List.find?, this, e]

/-- the rows of one block: row `ie` is found under `(ie, c)` and nowhere else -/
theorem lookup_blockCells (c c' : Cur) (rows : List (Row α)) (start ie : Nat) :
    lookup (blockCells c rows start).reverse (ie, c'.1, c'.2.1, c'.2.2) =
      if c' = c ∧ start ≤ ie ∧ ie < start + rows.length then rows[ie - start]? else none := by
  induction rows generalizing start with
  | nil => simp [blockCells, lookup_nil]
  | cons r rest ih =>
    have hcons : blockCells c (r :: rest) start = ((start, c.1, c.2.1, c.2.2), r) :: blockCells c rest (start + 1) := by
      simp [blockCells, List.zipIdx_cons]
    rw [hcons, List.reverse_cons, lookup_append, ih (start + 1), lookup_single]
    by_cases hc : c' = c
    · subst hc
      by_cases h1 : start + 1 ≤ ie ∧ ie < start + 1 + rest.length
      · have hlt : ie - (start + 1) < rest.length := by omega
        rw [if_pos ⟨rfl, h1⟩, List.getElem?_eq_getElem hlt]
        simp only [Option.or_some]
        rw [if_pos ⟨rfl, by omega, by simp; omega⟩]
        have : ie - start = (ie - (start + 1)) + 1 := by omega
        rw [this, List.getElem?_cons_succ, List.getElem?_eq_getElem hlt]
      · rw [if_neg (fun h => h1 h.2)]
        simp only [Option.none_or]
        by_cases e : ie = start
        · subst e
          rw [if_pos rfl, if_pos ⟨rfl, Nat.le_refl _, by simp⟩]
          simp
        · rw [if_neg (by intro h; injection h with h; exact e h.symm)]
          rw [if_neg (by intro h; simp only [List.length_cons] at h; omega)]
    · rw [if_neg (fun h => hc h.1), if_neg (fun h => hc h.1)]
      simp only [Option.none_or]
      rw [if_neg]
      intro h
      apply hc
      injection h with h1 h2
      injection h2 with h2 h3
      injection h3 with h3 h4
      exact Prod.ext h2.symm (Prod.ext h3.symm h4.symm)

theorem lookup_cellsOf_none (d : List (Block α)) (c c' : Cur) (ie : Nat) (h : c' ∉ cursors c d) :
    lookup (cellsOf c d) (ie, c'.1, c'.2.1, c'.2.2) = none := by
  induction d generalizing c with
  | nil => rfl
  | cons k ks ih =>
    simp only [cursors, List.mem_cons, not_or] at h
    rw [cellsOf, lookup_append, ih _ h.2, lookup_blockCells, if_neg (fun hh => h.1 hh.1)]
    rfl

/-- **when no two blocks are read under the same indices, every printed row is found under the row index in its block
and the indices in force for its block** -/
theorem lookup_cellsOf (d : List (Block α)) (c : Cur) (hnd : (cursors c d).Nodup) (k : Nat) (hk : k < d.length)
    (ie : Nat) (hie : ie < d[k].rows.length) :
    ∃ cu, (cursors c d)[k]? = some cu ∧
      lookup (cellsOf c d) (ie, cu.1, cu.2.1, cu.2.2) = some (d[k].rows[ie]) := by
  induction d generalizing c k with
  | nil => simp at hk
  | cons b ks ih =>
    simp only [cursors, List.nodup_cons] at hnd
    cases k with
    | zero =>
      refine ⟨curStep c b, rfl, ?_⟩
      rw [cellsOf, lookup_append, lookup_cellsOf_none ks _ _ ie hnd.1, lookup_blockCells]
      simp only [Option.none_or]
      rw [if_pos ⟨rfl, Nat.zero_le _, by simpa using hie⟩]
      simp only [Nat.sub_zero]
      exact List.getElem?_eq_getElem hie
    | succ j =>
      obtain ⟨cu, hcu, hl⟩ := ih (curStep c b) hnd.2 j (by simpa using hk) (by simpa using hie)
      refine ⟨cu, by simpa [cursors] using hcu, ?_⟩
      rw [cellsOf, lookup_append, hl]
      simp

end T4Spec
