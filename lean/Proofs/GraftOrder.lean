import Proofs.DepGraphTopoComplete
/-! Grafting a nested graph preserves the ordering constraints between the plain nodes (C16, last sentence) — a
statement about mathematical graphs (node predicate + edge relation), independent of the representation. -/
set_option linter.unusedVariables false
namespace DG
open Relation

section
variable (sN : Nat → Prop) (sE : Nat → Nat → Prop) (tN : Nat → Prop) (tE : Nat → Nat → Prop) (x : Nat)

/-- the edges after grafting `t` in place of the node `x` of `s` (same formula as `Spec.graft`) -/
def graftE (u w : Nat) : Prop :=
  (sE u w ∧ u ≠ x ∧ w ≠ x) ∨ tE u w ∨
  (((tN u ∧ ¬ ∃ w', tE u w') ∧ sE x w) ∨ (sE u x ∧ (tN w ∧ ¬ ∃ u', tE u' w)) ∨
   ((∀ z, ¬ tN z) ∧ sE u x ∧ sE x w))

variable {sN sE tN tE x}

/-- every constraint of the grafted graph between plain nodes was a constraint before -/
theorem graft_order_sound (hEs : ∀ u w, sE u w → sN u ∧ sN w) (hEt : ∀ u w, tE u w → tN u ∧ tN w)
    (hdisj : ∀ z, tN z → ¬ sN z) (hxx : ¬ sE x x)
    {u w : Nat} (hu : sN u) (hux : u ≠ x) (hw : sN w) (h : TransGen (graftE sE tN tE x) u w) :
    TransGen sE u w := by
  have key : ∀ z, TransGen (graftE sE tN tE x) u z →
      (sN z ∧ z ≠ x ∧ TransGen sE u z) ∨ (tN z ∧ TransGen sE u x) := by
    intro z hz
    induction hz with
    | @single z h1 =>
      rcases h1 with ⟨e, _, hzx⟩ | e | ⟨⟨ht, _⟩, _⟩ | ⟨e, hi, _⟩ | ⟨_, e1, e2⟩
      · exact Or.inl ⟨(hEs _ _ e).2, hzx, TransGen.single e⟩
      · exact absurd hu (hdisj u (hEt _ _ e).1)
      · exact absurd hu (hdisj u ht)
      · exact Or.inr ⟨hi, TransGen.single e⟩
      · exact Or.inl ⟨(hEs _ _ e2).2, fun e' => hxx (e' ▸ e2), TransGen.tail (TransGen.single e1) e2⟩
    | @tail y z _ h2 ih =>
      rcases h2 with ⟨e, hyx, hzx⟩ | e | ⟨⟨ht, _⟩, e⟩ | ⟨e, hi, _⟩ | ⟨_, e1, e2⟩
      · rcases ih with ⟨_, _, p⟩ | ⟨hty, _⟩
        · exact Or.inl ⟨(hEs _ _ e).2, hzx, TransGen.tail p e⟩
        · exact absurd (hEs _ _ e).1 (hdisj y hty)
      · rcases ih with ⟨hsy, _, _⟩ | ⟨_, p⟩
        · exact absurd hsy (hdisj y (hEt _ _ e).1)
        · exact Or.inr ⟨(hEt _ _ e).2, p⟩
      · rcases ih with ⟨hsy, _, _⟩ | ⟨_, p⟩
        · exact absurd hsy (hdisj y ht)
        · exact Or.inl ⟨(hEs _ _ e).2, fun e' => hxx (e' ▸ e), TransGen.tail p e⟩
      · rcases ih with ⟨_, _, p⟩ | ⟨hty, _⟩
        · exact Or.inr ⟨hi, TransGen.tail p e⟩
        · exact absurd (hEs _ _ e).1 (hdisj y hty)
      · rcases ih with ⟨_, _, p⟩ | ⟨hty, _⟩
        · exact Or.inl ⟨(hEs _ _ e2).2, fun e' => hxx (e' ▸ e2), TransGen.tail (TransGen.tail p e1) e2⟩
        · exact absurd (hEs _ _ e1).1 (hdisj y hty)
  rcases key w h with ⟨_, _, p⟩ | ⟨htw, _⟩
  · exact p
  · exact absurd hw (hdisj w htw)

/-- every constraint between plain nodes survives the graft, provided the nested graph, when it is not empty, has an
initial node from which a terminal node can be reached (true of every non-empty acyclic graph: `exists_init_term`) -/
theorem graft_order_complete (hxx : ¬ sE x x)
    (hpath : (∃ z, tN z) → ∃ i tm, (tN i ∧ ¬ ∃ u', tE u' i) ∧ (tN tm ∧ ¬ ∃ w', tE tm w') ∧ ReflTransGen tE i tm)
    {u w : Nat} (hux : u ≠ x) (hwx : w ≠ x) (h : TransGen sE u w) :
    TransGen (graftE sE tN tE x) u w := by
  have lift : ∀ a b, ReflTransGen tE a b → ReflTransGen (graftE sE tN tE x) a b := by
    intro a b hab
    induction hab with
    | refl => exact ReflTransGen.refl
    | tail _ e ih => exact ReflTransGen.tail ih (Or.inr (Or.inl e))
  have bridge : ∀ p d, sE p x → sE x d → TransGen (graftE sE tN tE x) p d := by
    intro p d e1 e2
    by_cases hne : ∃ z, tN z
    · obtain ⟨i, tm, hi, htm, hp⟩ := hpath hne
      have s1 : graftE sE tN tE x p i := Or.inr (Or.inr (Or.inr (Or.inl ⟨e1, hi⟩)))
      have s3 : graftE sE tN tE x tm d := Or.inr (Or.inr (Or.inl ⟨htm, e2⟩))
      exact TransGen.tail' (ReflTransGen.trans (ReflTransGen.single s1) (lift i tm hp)) s3
    · have hno : ∀ z, ¬ tN z := fun z hz => hne ⟨z, hz⟩
      exact TransGen.single (Or.inr (Or.inr (Or.inr (Or.inr ⟨hno, e1, e2⟩))))
  have key : ∀ z, TransGen sE u z →
      (z ≠ x → TransGen (graftE sE tN tE x) u z) ∧
      (z = x → ∃ p, sE p x ∧ (p = u ∨ TransGen (graftE sE tN tE x) u p)) := by
    intro z hz
    induction hz with
    | @single z e =>
      exact ⟨fun hzx => TransGen.single (Or.inl ⟨e, hux, hzx⟩), fun hzx => ⟨u, hzx ▸ e, Or.inl rfl⟩⟩
    | @tail y z _ e ih =>
      by_cases hyx : y = x
      · subst hyx
        obtain ⟨p, hp, hup⟩ := ih.2 rfl
        have hzx : z ≠ y := fun e' => hxx (e' ▸ e)
        refine ⟨fun _ => ?_, fun e' => absurd e' hzx⟩
        rcases hup with rfl | hup
        · exact bridge p z hp e
        · exact TransGen.trans hup (bridge p z hp e)
      · have huy := ih.1 hyx
        exact ⟨fun hzx => TransGen.tail huy (Or.inl ⟨e, hyx, hzx⟩), fun hzx => ⟨y, hzx ▸ e, Or.inr huy⟩⟩
  exact (key w h).1 hwx

end

/-- in a non-empty graph that has a topological order, some initial node reaches some terminal node -/
theorem exists_init_term {N : Nat → Prop} {E : Nat → Nat → Prop} (l : List Nat) (hnd : l.Nodup)
    (hmem : ∀ z, z ∈ l ↔ N z) (hE : ∀ u w, E u w → N u ∧ N w) (hord : ∀ u w, E u w → Before l w u)
    (hne : ∃ z, N z) :
    ∃ i tm, (N i ∧ ¬ ∃ u', E u' i) ∧ (N tm ∧ ¬ ∃ w', E tm w') ∧ ReflTransGen E i tm := by
  classical
  -- downwards: every node reaches a terminal node
  have down : ∀ n z, N z → l.idxOf z ≤ n → ∃ tm, (N tm ∧ ¬ ∃ w', E tm w') ∧ ReflTransGen E z tm := by
    intro n
    induction n with
    | zero =>
      intro z hz hidx
      refine ⟨z, ⟨hz, ?_⟩, ReflTransGen.refl⟩
      rintro ⟨w', hw'⟩
      have := before_idx hnd (hord z w' hw')
      omega
    | succ n ih =>
      intro z hz hidx
      by_cases ht : ∃ w', E z w'
      · obtain ⟨w', hw'⟩ := ht
        have hlt := before_idx hnd (hord z w' hw')
        obtain ⟨tm, htm, hp⟩ := ih w' (hE z w' hw').2 (by omega)
        exact ⟨tm, htm, ReflTransGen.head hw' hp⟩
      · exact ⟨z, ⟨hz, ht⟩, ReflTransGen.refl⟩
  -- upwards: every node is reached from an initial node
  have up : ∀ n z, N z → l.length - l.idxOf z ≤ n → ∃ i, (N i ∧ ¬ ∃ u', E u' i) ∧ ReflTransGen E i z := by
    intro n
    induction n with
    | zero =>
      intro z hz hidx
      have := List.idxOf_lt_length_of_mem ((hmem z).2 hz)
      omega
    | succ n ih =>
      intro z hz hidx
      by_cases hi : ∃ u', E u' z
      · obtain ⟨u', hu'⟩ := hi
        have hlt := before_idx hnd (hord u' z hu')
        have hul := List.idxOf_lt_length_of_mem ((hmem u').2 (hE u' z hu').1)
        obtain ⟨i, hi', hp⟩ := ih u' (hE u' z hu').1 (by omega)
        exact ⟨i, hi', ReflTransGen.tail hp hu'⟩
      · exact ⟨z, ⟨hz, hi⟩, ReflTransGen.refl⟩
  obtain ⟨z, hz⟩ := hne
  obtain ⟨tm, htm, hp1⟩ := down (l.idxOf z) z hz (Nat.le_refl _)
  obtain ⟨i, hi, hp2⟩ := up (l.length - l.idxOf z) z hz (Nat.le_refl _)
  exact ⟨i, tm, hi, htm, ReflTransGen.trans hp2 hp1⟩

end DG
