import Proofs.DepGraphClosure
/-! `dependencies(node, recurse=True)` (C16): when the work-list loop returns, it has collected exactly the nodes that
can be reached from the node in one step or more.  (Partial correctness: the Python loop has no budget; the model's
budget running out would be reported as `recursion` and show up as a disagreement of the correspondence.) -/
set_option linter.unusedVariables false
namespace DG
open Relation

structure DInv (g : G) (i : Nat) (queue seen deps : List Nat) : Prop where
  reach : ∀ u, u ∈ queue ∨ u ∈ seen → u = i ∨ TransGen (PEdge g) i u
  deps_sub : ∀ w ∈ deps, TransGen (PEdge g) i w
  closed : ∀ u ∈ seen, ∀ w, PEdge g u w → w ∈ deps ∧ (w ∈ seen ∨ w ∈ queue)
  start : i ∈ seen ∨ i ∈ queue
  inrange : ∀ u, u ∈ queue → u < g.size

theorem depsLoop_spec (g : G) (hg : GInv g) (i : Nat) :
    ∀ (fuel : Nat) (queue seen deps out : List Nat), DInv g i queue seen deps →
      depsLoop g fuel queue seen deps = .ok out → ∀ w, w ∈ out ↔ TransGen (PEdge g) i w := by
  intro fuel
  induction fuel with
  | zero =>
    intro queue seen deps out hinv h
    cases queue with
    | cons a r => rw [depsLoop] at h; cases h
    | nil =>
      rw [depsLoop] at h
      cases h
      have hi : i ∈ seen := by
        rcases hinv.start with h | h
        · exact h
        · cases h
      intro w
      constructor
      · exact hinv.deps_sub w
      · intro hw
        have key : ∀ u, TransGen (PEdge g) i u → u ∈ deps ∧ u ∈ seen := by
          intro u hu
          induction hu with
          | single e =>
            obtain ⟨a, b⟩ := hinv.closed i hi _ e
            exact ⟨a, by rcases b with b | b; exact b; cases b⟩
          | tail _ e ih =>
            obtain ⟨a, b⟩ := hinv.closed _ ih.2 _ e
            exact ⟨a, by rcases b with b | b; exact b; cases b⟩
        exact (key w hw).1
  | succ fuel ih =>
    intro queue seen deps out hinv h
    rw [depsLoop] at h
    cases hq : queue.reverse with
    | nil =>
      rw [hq] at h
      have hqe : queue = [] := by simpa using hq
      subst hqe
      cases h
      have hi : i ∈ seen := by
        rcases hinv.start with h | h
        · exact h
        · cases h
      intro w
      constructor
      · exact hinv.deps_sub w
      · intro hw
        have key : ∀ u, TransGen (PEdge g) i u → u ∈ deps ∧ u ∈ seen := by
          intro u hu
          induction hu with
          | single e =>
            obtain ⟨a, b⟩ := hinv.closed i hi _ e
            exact ⟨a, by rcases b with b | b; exact b; cases b⟩
          | tail _ e ih =>
            obtain ⟨a, b⟩ := hinv.closed _ ih.2 _ e
            exact ⟨a, by rcases b with b | b; exact b; cases b⟩
        exact (key w hw).1
    | cons nxt restRev =>
      rw [hq] at h
      simp only [bind, Except.bind] at h
      have hqueue : queue = restRev.reverse ++ [nxt] := by
        have := congrArg List.reverse hq
        simpa using this
      have hnq : nxt ∈ queue := by rw [hqueue]; simp
      have hnlt : nxt < g.size := hinv.inrange nxt hnq
      rw [edgesAt_eq hg hnlt] at h
      simp only at h
      refine ih _ _ _ out ?_ h
      have hnreach : nxt = i ∨ TransGen (PEdge g) i nxt := hinv.reach nxt (Or.inl hnq)
      have hres : ∀ w, w ∈ edgesP g nxt → TransGen (PEdge g) i w := by
        intro w hw
        rcases hnreach with e | e
        · subst e; exact TransGen.single hw
        · exact TransGen.tail e hw
      constructor
      · intro u hu
        rcases hu with hu | hu
        · rcases List.mem_append.1 hu with hu | hu
          · exact hinv.reach u (Or.inl (by rw [hqueue]; simp [hu]))
          · exact Or.inr (hres u (List.mem_eraseDups.1 (List.mem_filter.1 hu).1))
        · rcases (mem_sadd seen nxt u).1 hu with hu | hu
          · exact hinv.reach u (Or.inr hu)
          · subst hu; exact hnreach
      · intro w hw
        rcases (mem_sunion deps (edgesP g nxt) w).1 hw with hw | hw
        · exact hinv.deps_sub w hw
        · exact hres w hw
      · intro u hu w huw
        rcases (mem_sadd seen nxt u).1 hu with hu | hu
        · obtain ⟨a, b⟩ := hinv.closed u hu w huw
          refine ⟨(mem_sunion _ _ _).2 (Or.inl a), ?_⟩
          rcases b with b | b
          · exact Or.inl ((mem_sadd _ _ _).2 (Or.inl b))
          · rw [hqueue] at b
            rcases List.mem_append.1 b with b | b
            · exact Or.inr (List.mem_append.2 (Or.inl b))
            · simp at b; subst b; exact Or.inl ((mem_sadd _ _ _).2 (Or.inr rfl))
        · subst hu
          refine ⟨(mem_sunion _ _ _).2 (Or.inr huw), ?_⟩
          by_cases hs : w ∈ sadd seen u
          · exact Or.inl hs
          · exact Or.inr (List.mem_append.2 (Or.inr (List.mem_filter.2 ⟨List.mem_eraseDups.2 huw, by simpa using hs⟩)))
      · rcases hinv.start with hs | hs
        · exact Or.inl ((mem_sadd _ _ _).2 (Or.inl hs))
        · rw [hqueue] at hs
          rcases List.mem_append.1 hs with hs | hs
          · exact Or.inr (List.mem_append.2 (Or.inl hs))
          · simp at hs; subst hs; exact Or.inl ((mem_sadd _ _ _).2 (Or.inr rfl))
      · intro u hu
        rcases List.mem_append.1 hu with hu | hu
        · exact hinv.inrange u (by rw [hqueue]; simp [hu])
        · exact (pedge_lt hg (List.mem_eraseDups.1 (List.mem_filter.1 hu).1)).2

/-- **`dependencies(x, recurse=True)`**: when it returns, exactly the nodes reachable from `x` in one step or more -/
theorem dependenciesRec_spec {g : G} (hg : GInv g) {x : Nat} (hx : g.Node x) {l : List Nat}
    (h : g.dependenciesRec x = .ok l) : ∀ y, y ∈ l ↔ TransGen g.Edge x y := by
  obtain ⟨i, hi, hix⟩ := hg.indexOf_spec hx
  unfold G.dependenciesRec at h
  rw [hi] at h
  simp only [bind, Except.bind] at h
  cases hd : depsLoop g (g.size * g.size + g.size + 1) [i] [] [] with
  | error e => rw [hd] at h; cases h
  | ok d =>
    rw [hd] at h
    simp only at h
    have hil : i < g.size := lt_of_getElem?_some hix
    have hinv : DInv g i [i] [] [] := by
      refine ⟨?_, ?_, ?_, Or.inr (by simp), ?_⟩
      · intro u hu
        rcases hu with hu | hu
        · simp at hu; exact Or.inl hu
        · cases hu
      · intro w hw; cases hw
      · intro u hu; cases hu
      · intro u hu; simp at hu; subst hu; exact hil
    have hmem := depsLoop_spec g hg i _ _ _ _ d hinv hd
    have hm := mapM_ok_of_forall (nodeAt g) (fun b => g.nodes.seq.getD b 0) d (fun b hb => by
      unfold nodeAt; rw [node_at (transGen_lt hg ((hmem b).1 hb)).2])
    rw [hm] at h
    cases h
    intro y
    rw [transGen_edge_iff hg]
    simp only [List.mem_map]
    constructor
    · rintro ⟨b, hb, rfl⟩
      have hb' := (hmem b).1 hb
      exact ⟨i, b, hix, node_at (transGen_lt hg hb').2, hb'⟩
    · rintro ⟨a, b, ha, hb, hp⟩
      have := hg.pos_unique ha hix; subst this
      refine ⟨b, (hmem b).2 hp, ?_⟩
      have := node_at (g := g) (transGen_lt hg hp).2
      rw [hb] at this
      exact (Option.some.inj this).symm

end DG
