import Proofs.DepGraphMerge
/-! Soundness of the depth-first topological sort of the model (C16, second sentence; also what C01–C04 assume about
the numbering of the tasks): when it returns, every position is listed exactly once, after all the positions it depends
on. -/
set_option linter.unusedVariables false
namespace DG

def edgesP (g : G) (p : Nat) : List Nat := (g.edges.get p).getD []

theorem mark_setMark (st : TopoSt) (p q : Nat) (m : Mark) :
    (st.setMark p m).mark q = if q = p then some m else st.mark q := by
  unfold TopoSt.setMark TopoSt.mark
  simp only
  by_cases e : q = p
  · subst e; simp [List.find?]
  · have hpq : ¬ p = q := fun h => e h.symm
    rw [if_neg e, List.find?_cons_of_neg (by simpa using hpq)]
    -- filtering out `p` does not change what is found for `q`
    have : ∀ (l : List (Nat × Mark)), (l.filter (·.1 ≠ p)).find? (·.1 = q) = l.find? (·.1 = q) := by
      intro l
      induction l with
      | nil => rfl
      | cons x xs ih =>
        by_cases hx : x.1 = p
        · have hxq : ¬ x.1 = q := by rw [hx]; exact hpq
          rw [List.filter_cons_of_neg (by simpa using hx), List.find?_cons_of_neg (by simpa using hxq), ih]
        · rw [List.filter_cons_of_pos (by simpa using hx)]
          by_cases hxq : x.1 = q
          · rw [List.find?_cons_of_pos (by simpa using hxq), List.find?_cons_of_pos (by simpa using hxq)]
          · rw [List.find?_cons_of_neg (by simpa using hxq), List.find?_cons_of_neg (by simpa using hxq), ih]
    rw [this]

/-- `q` occurs strictly before `p` -/
def Before (l : List Nat) (q p : Nat) : Prop := ∃ l1 l2, l = l1 ++ p :: l2 ∧ q ∈ l1

theorem Before.append {l : List Nat} {q p : Nat} (h : Before l q p) (more : List Nat) : Before (l ++ more) q p := by
  obtain ⟨l1, l2, e, hq⟩ := h
  exact ⟨l1, l2 ++ more, by rw [e]; simp, hq⟩

structure TInv (g : G) (st : TopoSt) : Prop where
  nodup : st.result.Nodup
  perm_iff : ∀ p, st.mark p = some .perm ↔ p ∈ st.result
  closed : ∀ p ∈ st.result, ∀ q ∈ edgesP g p, Before st.result q p
  bound : ∀ p ∈ st.result, p < g.size

structure Ext (st st' : TopoSt) : Prop where
  grows : ∃ more, st'.result = st.result ++ more
  perm : ∀ q, st.mark q = some .perm → st'.mark q = some .perm
  temp : ∀ q, st.mark q = some .temp → st'.mark q = some .temp
  temp_back : ∀ q, st'.mark q = some .temp → st.mark q = some .temp

theorem Ext.refl (st : TopoSt) : Ext st st := ⟨⟨[], by simp⟩, fun _ h => h, fun _ h => h, fun _ h => h⟩

theorem Ext.trans {a b c : TopoSt} (h1 : Ext a b) (h2 : Ext b c) : Ext a c := by
  obtain ⟨m1, e1⟩ := h1.grows
  obtain ⟨m2, e2⟩ := h2.grows
  exact ⟨⟨m1 ++ m2, by rw [e2, e1]; simp⟩, fun q h => h2.perm q (h1.perm q h), fun q h => h2.temp q (h1.temp q h),
    fun q h => h1.temp_back q (h2.temp_back q h)⟩

/-- soundness of `_visit` and of the loop over the dependencies, by induction on the recursion budget -/
theorem edgesP_lt {g : G} (hg : GInv g) (p q : Nat) (h : q ∈ edgesP g p) : q < g.size := by
  unfold edgesP at h
  cases he : g.edges.get p with
  | none => rw [he] at h; cases h
  | some s => rw [he] at h; exact hg.erange p s he q h

theorem visit_sound (g : G) (hg : GInv g) (fuel : Nat) :
    (∀ st st' p, TInv g st → p < g.size → visit g fuel st p = .ok st' →
      TInv g st' ∧ Ext st st' ∧ st'.mark p = some .perm) ∧
    (∀ st st' ts, TInv g st → (∀ t ∈ ts, t < g.size) → visitList g fuel st ts = .ok st' →
      TInv g st' ∧ Ext st st' ∧ ∀ t ∈ ts, st'.mark t = some .perm) := by
  induction fuel with
  | zero =>
    constructor
    · intro st st' p _ _ h; simp [visit] at h
    · intro st st' ts hi _ h
      cases ts with
      | nil => simp [visitList] at h; subst h; exact ⟨hi, Ext.refl _, fun _ ht => by cases ht⟩
      | cons t ts => simp [visitList, visit, bind, Except.bind] at h
  | succ fuel ih =>
    obtain ⟨ihv, ihl⟩ := ih
    have hvisit : ∀ st st' p, TInv g st → p < g.size → visit g (fuel + 1) st p = .ok st' →
        TInv g st' ∧ Ext st st' ∧ st'.mark p = some .perm := by
      intro st st' p hi hp h
      rw [visit] at h
      cases hm : st.mark p with
      | some m =>
        cases m with
        | temp => rw [hm] at h; cases h
        | perm => rw [hm] at h; injection h with h; subst h; exact ⟨hi, Ext.refl _, hm⟩
      | none =>
        rw [hm] at h
        simp only [bind, Except.bind] at h
        -- the state with `p` marked temporarily
        have hi1 : TInv g (st.setMark p .temp) := by
          refine ⟨hi.nodup, ?_, hi.closed, hi.bound⟩
          intro q
          rw [mark_setMark]
          by_cases e : q = p
          · subst e
            simp only [if_true]
            constructor
            · intro hh; cases hh
            · intro hq; have := (hi.perm_iff q).2 hq; rw [hm] at this; cases this
          · rw [if_neg e]; exact hi.perm_iff q
        cases hl : visitList g fuel (st.setMark p .temp) (edgesP g p) with
        | error e =>
          have : visitList g fuel (st.setMark p .temp) ((g.edges.get p).getD []) = .error e := hl
          rw [this] at h; cases h
        | ok st2 =>
          have hl' : visitList g fuel (st.setMark p .temp) ((g.edges.get p).getD []) = .ok st2 := hl
          rw [hl'] at h
          injection h with h
          obtain ⟨hi2, hx2, hall⟩ := ihl _ _ _ hi1 (fun t ht => edgesP_lt hg p t ht) hl
          have htemp : st2.mark p = some .temp := hx2.temp p (by rw [mark_setMark]; simp)
          have hpnot : p ∉ st2.result := by
            intro hp; have := (hi2.perm_iff p).2 hp; rw [htemp] at this; cases this
          subst h
          refine ⟨⟨?_, ?_, ?_, ?_⟩, ⟨?_, ?_, ?_, ?_⟩, ?_⟩
          · show (st2.result ++ [p]).Nodup
            rw [List.nodup_append]
            exact ⟨hi2.nodup, by simp, by intro a ha b hb; simp at hb; subst hb; intro e; subst e; exact hpnot ha⟩
          · intro q
            show (st2.setMark p .perm).mark q = some .perm ↔ q ∈ st2.result ++ [p]
            rw [mark_setMark]
            by_cases e : q = p
            · subst e; simp
            · rw [if_neg e, hi2.perm_iff q]; simp [e]
          · intro a ha q hq
            show Before (st2.result ++ [p]) q a
            rcases List.mem_append.1 ha with ha | ha
            · exact (hi2.closed a ha q hq).append [p]
            · simp at ha; subst ha
              have hqperm := hall q hq
              have hqin := (hi2.perm_iff q).1 hqperm
              exact ⟨st2.result, [], by simp, hqin⟩
          · intro a ha
            show a < g.size
            have ha' : a ∈ st2.result ++ [p] := ha
            rcases List.mem_append.1 ha' with ha' | ha'
            · exact hi2.bound a ha'
            · simp at ha'; subst ha'; exact hp
          · obtain ⟨more, e⟩ := hx2.grows
            exact ⟨more ++ [p], by show st2.result ++ [p] = _; rw [e]; simp [TopoSt.setMark]⟩
          · intro q hq
            show (st2.setMark p .perm).mark q = some .perm
            rw [mark_setMark]
            by_cases e : q = p
            · subst e; simp
            · rw [if_neg e]; exact hx2.perm q (by rw [mark_setMark, if_neg e]; exact hq)
          · intro q hq
            show (st2.setMark p .perm).mark q = some .temp
            rw [mark_setMark]
            by_cases e : q = p
            · subst e; rw [hm] at hq; cases hq
            · rw [if_neg e]; exact hx2.temp q (by rw [mark_setMark, if_neg e]; exact hq)
          · intro q hq
            have hq' : (st2.setMark p .perm).mark q = some .temp := hq
            rw [mark_setMark] at hq'
            by_cases e : q = p
            · subst e; simp at hq'
            · rw [if_neg e] at hq'
              have := hx2.temp_back q hq'
              rw [mark_setMark, if_neg e] at this
              exact this
          · show (st2.setMark p .perm).mark p = some .perm
            rw [mark_setMark]; simp
    refine ⟨hvisit, ?_⟩
    intro st st' ts hi hts h
    induction ts generalizing st with
    | nil => simp [visitList] at h; subst h; exact ⟨hi, Ext.refl _, fun _ ht => by cases ht⟩
    | cons t ts iht =>
      rw [visitList] at h
      simp only [bind, Except.bind] at h
      cases hv : visit g (fuel + 1) st t with
      | error e => rw [hv] at h; cases h
      | ok st1 =>
        rw [hv] at h
        obtain ⟨hi1, hx1, ht1⟩ := hvisit _ _ _ hi (hts t (by simp)) hv
        obtain ⟨hi2, hx2, hts2⟩ := iht st1 hi1 (fun a ha => hts a (by simp [ha])) h
        refine ⟨hi2, hx1.trans hx2, ?_⟩
        intro a ha
        rcases List.mem_cons.1 ha with ha | ha
        · subst ha; exact hx2.perm a ht1
        · exact hts2 a ha

/-- no position is left temporarily marked -/
def NoTemp (st : TopoSt) : Prop := ∀ q, st.mark q ≠ some .temp

theorem fold_sound (g : G) (hg : GInv g) (l : List Nat) (hl : ∀ p ∈ l, p < g.size) :
    ∀ st st', TInv g st → NoTemp st →
      l.foldlM (fun st p => if (st.mark p).isSome then pure st else visit g (g.size + 1) st p) st = .ok st' →
      TInv g st' ∧ NoTemp st' ∧ Ext st st' ∧ ∀ p ∈ l, st'.mark p = some .perm := by
  induction l with
  | nil =>
    intro st st' hi hn h
    simp [List.foldlM, pure, Except.pure] at h
    subst h
    exact ⟨hi, hn, Ext.refl _, by simp⟩
  | cons p ps ih =>
    intro st st' hi hn h
    rw [List.foldlM_cons] at h
    cases hv : (if (st.mark p).isSome then pure st else visit g (g.size + 1) st p : Except Err TopoSt) with
    | error e => rw [hv] at h; simp [bind, Except.bind] at h
    | ok st1 =>
      rw [hv] at h
      simp only [bind, Except.bind] at h
      have h1 : TInv g st1 ∧ NoTemp st1 ∧ Ext st st1 ∧ st1.mark p = some .perm := by
        by_cases hs : (st.mark p).isSome
        · rw [if_pos hs] at hv
          simp [pure, Except.pure] at hv
          subst hv
          refine ⟨hi, hn, Ext.refl _, ?_⟩
          cases hm : st.mark p with
          | none => rw [hm] at hs; simp at hs
          | some m =>
            cases m with
            | temp => exact absurd hm (hn p)
            | perm => rfl
        · rw [if_neg hs] at hv
          obtain ⟨a, b, c⟩ := (visit_sound g hg (g.size + 1)).1 _ _ _ hi (hl p (by simp)) hv
          exact ⟨a, fun q hq => hn q (b.temp_back q hq), b, c⟩
      obtain ⟨hi1, hn1, hx1, hp1⟩ := h1
      obtain ⟨hi2, hn2, hx2, hall⟩ := ih (fun q hq => hl q (by simp [hq])) st1 st' hi1 hn1 h
      refine ⟨hi2, hn2, hx1.trans hx2, ?_⟩
      intro q hq
      simp at hq
      rcases hq with rfl | hq
      · exact hx2.perm _ hp1
      · exact hall q hq

/-- **the positions returned by the sort**: every position exactly once, each after all the positions it depends on -/
theorem topoPositions_sound {g : G} (hg : GInv g) {ps : List Nat} (h : g.topoPositions = .ok ps) :
    ps.Nodup ∧ (∀ p, p ∈ ps ↔ p < g.size) ∧ ∀ p ∈ ps, ∀ q ∈ edgesP g p, Before ps q p := by
  unfold G.topoPositions at h
  cases hf : (List.range g.size).foldlM (fun st p =>
      if (st.mark p).isSome then pure st else visit g (g.size + 1) st p) (⟨[], []⟩ : TopoSt) with
  | error e => rw [hf] at h; simp [bind, Except.bind] at h
  | ok st =>
    rw [hf] at h
    simp [bind, Except.bind, pure, Except.pure] at h
    subst h
    have h0 : TInv g ⟨[], []⟩ :=
      ⟨List.nodup_nil, fun p => (by simp [TopoSt.mark]), fun p hp _ _ => (by cases hp), fun p hp => (by cases hp)⟩
    have hn0 : NoTemp ⟨[], []⟩ := fun q => by simp [TopoSt.mark]
    obtain ⟨hi, _, _, hall⟩ := fold_sound g hg (List.range g.size) (fun p hp => List.mem_range.1 hp) _ _ h0 hn0 hf
    refine ⟨hi.nodup, fun p => ⟨hi.bound p, fun hp => (hi.perm_iff p).1 (hall p (List.mem_range.2 hp))⟩, hi.closed⟩

/-- **soundness of `topological_sort`**: when it returns, the list holds every node of the graph exactly once, and a
node comes after every node it depends on. -/
theorem topologicalSort_sound {g : G} (hg : GInv g) {l : List Nat} (h : g.topologicalSort = .ok l) :
    l.Nodup ∧ (∀ x, x ∈ l ↔ g.Node x) ∧ ∀ x y, g.Edge x y → Before l y x := by
  unfold G.topologicalSort at h
  cases hp : g.topoPositions with
  | error e => rw [hp] at h; simp [bind, Except.bind] at h
  | ok ps =>
    rw [hp] at h
    simp only [bind, Except.bind] at h
    obtain ⟨hnd, hmem, hbef⟩ := topoPositions_sound hg hp
    let f : Nat → Nat := fun p => g.nodes.seq.getD p 0
    have hf : ∀ p, p < g.size → g.nodes.seq[p]? = some (f p) := by
      intro p hp'
      have : p < g.nodes.seq.length := hp'
      simp [f, List.getD, List.getElem?_eq_getElem this]
    have hmap : ps.mapM (nodeAt g) = .ok (ps.map f) := by
      apply mapM_ok_of_forall
      intro p hp'
      unfold nodeAt
      rw [hf p ((hmem p).1 hp')]
    rw [hmap] at h
    cases h
    have hinj : ∀ a ∈ ps, ∀ b ∈ ps, f a = f b → a = b := by
      intro a ha b hb e
      have h1 := hf a ((hmem a).1 ha)
      have h2 := hf b ((hmem b).1 hb)
      rw [e] at h1
      exact hg.pos_unique h1 h2
    refine ⟨?_, ?_, ?_⟩
    · exact (List.nodup_map_iff_inj_on hnd).2 (fun a ha b hb e => hinj a ha b hb e)
    · intro x
      unfold G.Node
      constructor
      · intro hx
        obtain ⟨p, hp', e⟩ := List.mem_map.1 hx
        have := hf p ((hmem p).1 hp')
        rw [e] at this
        exact List.mem_of_getElem? this
      · intro hx
        obtain ⟨p, hp', e⟩ := List.getElem_of_mem hx
        have hp2 : p < g.size := hp'
        refine List.mem_map.2 ⟨p, (hmem p).2 hp2, ?_⟩
        have := hf p hp2
        rw [List.getElem?_eq_getElem hp'] at this
        rw [← e]; exact (Option.some.inj this).symm
    · intro x y ⟨a, b, s, ha, hb, hs, hbs⟩
      have ha' : a < g.size := (List.getElem?_eq_some_iff.1 ha).1
      have hq : b ∈ edgesP g a := by unfold edgesP; rw [hs]; exact hbs
      obtain ⟨l1, l2, e, hb1⟩ := hbef a ((hmem a).2 ha') b hq
      have hfa : f a = x := by have := hf a ha'; rw [ha] at this; exact (Option.some.inj this).symm
      have hb' : b < g.size := (List.getElem?_eq_some_iff.1 hb).1
      have hfb : f b = y := by have := hf b hb'; rw [hb] at this; exact (Option.some.inj this).symm
      refine ⟨l1.map f, l2.map f, ?_, ?_⟩
      · rw [e]; simp [hfa]
      · exact List.mem_map.2 ⟨b, hb1, hfb⟩

end DG
