import Proofs.SchedClock
/-! C04, second sentence: a DONE task that is up to date with respect to its (transitively DONE, up to date) dependencies
is not executed again and its entry is left untouched. -/
set_option linter.unusedVariables false
set_option linter.unusedSimpArgs false
namespace Sched

theorem lastEnd_le (e : Env) (l : List Nat) (m : Nat) (hne : l ≠ [])
    (h : ∀ d ∈ l, ∃ y v, e.entry d = some y ∧ y.endC = some v ∧ v ≤ m) : ∃ k, lastEnd e l = some k ∧ k ≤ m := by
  induction l with
  | nil => exact absurd rfl hne
  | cons a r ih =>
    obtain ⟨y, v, hy, hv, hle⟩ := h a (by simp)
    unfold lastEnd
    rw [hy]
    simp only [Option.bind_some, hv]
    cases r with
    | nil => exact ⟨v, rfl, hle⟩
    | cons b r2 =>
      obtain ⟨k, hk, hkm⟩ := ih (by simp) (fun d hd => h d (by simp [hd]))
      simp only [hk]
      exact ⟨max v k, rfl, Nat.max_le.2 ⟨hle, hkm⟩⟩

theorem touch_of_some (e : Env) (t : Nat) (o : Entry) (h : e.entry t = some o) : e.touch t = e := by
  unfold Env.touch; rw [h]

/-- the decision for a DONE task all of whose dependencies are decided, DONE and ended before it started: keep it -/
theorem decide_fresh (c : Cfg) (hc : c.WF) (e : Env) (left : List Nat) (t : Nat) (o : Entry) (sv : Nat)
    (ho : e.entry t = some o) (hod : o.st = .done) (hos : o.startC = some sv)
    (hdeps : ∀ d ∈ c.depsOf t, d ∉ left ∧ ∃ y ev, e.entry d = some y ∧ y.st = .done ∧ y.endC = some ev ∧ ev ≤ sv) :
    decide c e left t = (.drop, e) := by
  have hne : ∀ d ∈ c.depsOf t, d ≠ t := fun d hd => by have := hc.deps_lt t d hd; omega
  have hisdone : ∀ d ∈ c.depsOf t, e.isSt d .done = true := by
    intro d hd
    obtain ⟨_, y, ev, hy, hyd, _⟩ := hdeps d hd
    rw [isSt_iff]; exact ⟨y, hy, hyd⟩
  have hnot : ∀ d ∈ c.depsOf t, ∀ st, st ≠ .done → e.isSt d st = false := by
    intro d hd st hst
    obtain ⟨_, y, ev, hy, hyd, _⟩ := hdeps d hd
    cases hh : e.isSt d st with
    | false => rfl
    | true =>
      obtain ⟨z, hz, hzs⟩ := (isSt_iff _ _ _).1 hh
      rw [hy] at hz; injection hz with hz; subst hz
      rw [hyd] at hzs; exact absurd hzs.symm hst
  unfold decide
  simp only
  have h1 : (c.depsOf t).any (fun d => left.contains d || (e.entry d).isNone || e.isSt d .pending) = false := by
    rw [List.any_eq_false]
    intro d hd
    obtain ⟨hnl, y, ev, hy, _, _⟩ := hdeps d hd
    simp [hnl, hy, hnot d hd .pending (by simp)]
  rw [if_neg (by rw [h1]; simp)]
  have h2 : (c.hardOf t).any (fun d => e.isSt d .failed || e.isSt d .skipped) = false := by
    rw [List.any_eq_false]
    intro d hd
    have hdd := hc.hard_sub t d hd
    simp [hnot d hdd .failed (by simp), hnot d hdd .skipped (by simp)]
  rw [if_neg (by rw [h2]; simp)]
  rw [touch_of_some e t o ho]
  have h3 : e.isSt t .done = true := by rw [isSt_iff]; exact ⟨o, ho, hod⟩
  rw [if_pos h3]
  split
  · rfl
  · rename_i hemp
    have hne' : (c.depsOf t).filter (fun d => e.isSt d .done) ≠ [] := by
      intro hh; apply hemp; rw [hh]; rfl
    obtain ⟨k, hk, hkm⟩ := lastEnd_le e _ sv hne' (by
      intro d hd
      obtain ⟨_, y, ev, hy, _, hye, hle⟩ := hdeps d (List.mem_filter.1 hd).1
      exact ⟨y, ev, hy, hye, hle⟩)
    have hts : (e.entry t).bind (·.startC) = some sv := by rw [ho]; exact hos
    rw [hk, hts]
    simp only
    rw [if_pos hkm]

/-- a set of tasks that the carried-over environment says are DONE and up to date, closed under dependencies -/
structure FreshSet (c : Cfg) (env0 : Env) (D : Nat → Prop) : Prop where
  closed : ∀ d, D d → ∀ d' ∈ c.depsOf d, D d'
  lt : ∀ d, D d → d < c.n
  done : ∀ d, D d → ∃ x sv, env0.entry d = some x ∧ x.st = .done ∧ x.startC = some sv ∧
    ∀ d' ∈ c.depsOf d, ∃ y ev, env0.entry d' = some y ∧ y.endC = some ev ∧ ev ≤ sv

/-- the tasks of a fresh set are never touched: entry as carried over, never executed, never in flight, never left for a
later pass -/
def InvF (env0 : Env) (D : Nat → Prop) (s : State) : Prop :=
  ∀ d, D d → s.env.entry d = env0.entry d ∧ s.execCount d = 0 ∧ ¬ InFlight s d ∧ d ∉ s.left

theorem passEnd_left (s : State) (d : Nat) (h : d ∈ (passEnd s).left) : d ∈ s.left := by
  unfold passEnd at h
  split at h
  · exact h
  · split at h
    · exact h
    · cases h

theorem advance_left (s : State) (d : Nat) (h : d ∈ (advance s).left) : d ∈ s.left := by
  unfold advance at h
  simp only at h
  split at h
  · have := passEnd_left _ d h; exact this
  · exact h

/-- the master decides the head of `todo`: a member of a fresh set is kept as it is -/
theorem InvF_decide {c : Cfg} (hc : c.WF) {env0 : Env} {D : Nat → Prop} (hD : FreshSet c env0 D) {s : State}
    (ha : InvA c s) (h : InvF env0 D s) (t : Nat) (rest : List Nat) (ht : s.todo = t :: rest) (r : Decision) (env' : Env)
    (hd : decide c s.env s.left t = (r, env')) :
    (∀ d, D d → env'.entry d = env0.entry d) ∧ (D t → r = .drop) := by
  obtain ⟨F1, _⟩ := decide_spec c s.env s.left t r env' hd
  have hfresh : D t → decide c s.env s.left t = (.drop, s.env) := by
    intro hDt
    obtain ⟨x, sv, hx, hxd, hxs, hdeps⟩ := hD.done t hDt
    apply decide_fresh c hc s.env s.left t x sv (by rw [(h t hDt).1]; exact hx) hxd hxs
    intro d hdd
    have hDd := hD.closed t hDt d hdd
    obtain ⟨y, ev, hy, hye, hle⟩ := hdeps d hdd
    obtain ⟨y', _, hy', hyd', _, _⟩ := hD.done d hDd
    rw [hy] at hy'; injection hy' with hy'; subst hy'
    exact ⟨(h d hDd).2.2.2, y, ev, by rw [(h d hDd).1]; exact hy, hyd', hye, hle⟩
  constructor
  · intro d hDd
    by_cases e : d = t
    · subst e
      have := hfresh hDd
      rw [hd] at this
      injection this with _ he
      rw [he]; exact (h d hDd).1
    · rw [F1 d e]; exact (h d hDd).1
  · intro hDt
    have := hfresh hDt
    rw [hd] at this
    injection this with hr _

/-- the fresh set is left alone by every step of every thread -/
theorem InvF_step {c : Cfg} (hc : c.WF) {env0 : Env} {D : Nat → Prop} (hD : FreshSet c env0 D) {s s' : State}
    (ha : InvA c s) (h : InvF env0 D s) (hs : Step c s s') : InvF env0 D s' := by
  have hfl : ∀ d, D d → InFlight s' d → (s.mpc = .consider ∧ s'.mpc = .put d) := by
    intro d hDd hf
    rcases step_inflight hs d hf with h1 | h1
    · exact absurd h1 (h d hDd).2.2.1
    · exact h1
  -- steps that leave the environment of the fresh set, the counters and `left` alone, and release no task
  have quiet : (∀ d, D d → s'.env.entry d = s.env.entry d) → (∀ d, D d → s'.execCount d = s.execCount d) →
      (∀ d, d ∈ s'.left → d ∈ s.left) → (∀ d, s.mpc = .consider → s'.mpc ≠ .put d) → InvF env0 D s' := by
    intro h1 h2 h3 h4 d hDd
    obtain ⟨a1, a2, a3, a4⟩ := h d hDd
    refine ⟨by rw [h1 d hDd]; exact a1, by rw [h2 d hDd]; exact a2, ?_, fun hh => a4 (h3 d hh)⟩
    intro hf
    obtain ⟨hm, hp⟩ := hfl d hDd hf
    exact h4 d hm hp
  -- a worker writes only the entry of the task it holds, which is not in the fresh set
  have held_env : ∀ (w t : Nat), held (s.wpc w) = some t → ∀ d, D d → d ≠ t := by
    intro w t hheld d hDd e
    subst e
    exact (h d hDd).2.2.1 (Or.inr (Or.inr ⟨w, hheld⟩))
  cases hs with
  | mWait t rest env' hm ht hd =>
    obtain ⟨henv, hdrop⟩ := InvF_decide hc hD ha h t rest ht _ env' hd
    obtain ⟨e_env, _, _, _, e_x, _, _, e_m⟩ := advance_fields { s with env := env', left := s.left ++ [t] }
    intro d hDd
    obtain ⟨a1, a2, a3, a4⟩ := h d hDd
    refine ⟨by rw [e_env]; exact henv d hDd, by rw [e_x]; exact a2, ?_, ?_⟩
    · intro hf
      obtain ⟨_, hp⟩ := hfl d hDd hf
      exact e_m d hp
    · intro hh
      have := advance_left _ d hh
      rcases List.mem_append.1 this with h1 | h1
      · exact a4 h1
      · simp at h1; subst h1
        have := hdrop hDd
        cases this
  | mSkip t rest env' hm ht hd =>
    obtain ⟨henv, hdrop⟩ := InvF_decide hc hD ha h t rest ht _ env' hd
    obtain ⟨e_env, _, _, _, e_x, _, _, e_m⟩ := advance_fields { s with env := env' }
    intro d hDd
    obtain ⟨a1, a2, a3, a4⟩ := h d hDd
    refine ⟨by rw [e_env]; exact henv d hDd, by rw [e_x]; exact a2, ?_, fun hh => a4 (by have := advance_left _ d hh; exact this)⟩
    intro hf
    obtain ⟨_, hp⟩ := hfl d hDd hf
    exact e_m d hp
  | mDrop t rest env' hm ht hd =>
    obtain ⟨henv, hdrop⟩ := InvF_decide hc hD ha h t rest ht _ env' hd
    obtain ⟨e_env, _, _, _, e_x, _, _, e_m⟩ := advance_fields { s with env := env' }
    intro d hDd
    obtain ⟨a1, a2, a3, a4⟩ := h d hDd
    refine ⟨by rw [e_env]; exact henv d hDd, by rw [e_x]; exact a2, ?_, fun hh => a4 (by have := advance_left _ d hh; exact this)⟩
    intro hf
    obtain ⟨_, hp⟩ := hfl d hDd hf
    exact e_m d hp
  | mPending t rest env' hm ht hd =>
    obtain ⟨henv, hdrop⟩ := InvF_decide hc hD ha h t rest ht _ env' hd
    intro d hDd
    obtain ⟨a1, a2, a3, a4⟩ := h d hDd
    refine ⟨henv d hDd, a2, ?_, a4⟩
    intro hf
    obtain ⟨_, hp⟩ := hfl d hDd hf
    injection hp with hp
    subst hp
    have := hdrop hDd
    cases this
  | mPut t hm =>
    obtain ⟨e_env, _, _, _, e_x, _, _, e_m⟩ :=
      advance_fields { s with queue := s.queue ++ [some t], unfinished := s.unfinished + 1 }
    exact quiet (fun d _ => by rw [e_env]) (fun d _ => by rw [e_x]) (fun d hh => by have := advance_left _ d hh; exact this)
      (fun d hm' => by rw [hm] at hm'; cases hm')
  | mSpawn k hm =>
    exact quiet (fun _ _ => rfl) (fun _ _ => rfl) (fun _ hh => hh) (fun d hm' => by rw [hm] at hm'; cases hm')
  | mAcq hm hcn =>
    exact quiet (fun _ _ => rfl) (fun _ _ => rfl) (fun _ hh => hh) (fun d hm' => by rw [hm] at hm'; cases hm')
  | mWake hm hn hcn =>
    exact quiet (fun _ _ => rfl) (fun _ _ => rfl) (fun _ hh => by cases hh) (fun d hm' => by rw [hm] at hm'; cases hm')
  | mQjoin hm hu =>
    exact quiet (fun _ _ => rfl) (fun _ _ => rfl) (fun _ hh => hh) (fun d hm' => by rw [hm] at hm'; cases hm')
  | mSentinel k hm =>
    exact quiet (fun _ _ => rfl) (fun _ _ => rfl) (fun _ hh => hh) (fun d hm' => by rw [hm] at hm'; cases hm')
  | mJoin k hm he =>
    exact quiet (fun _ _ => rfl) (fun _ _ => rfl) (fun _ hh => hh) (fun d hm' => by rw [hm] at hm'; cases hm')
  | wBegin w hw =>
    exact quiet (fun _ _ => rfl) (fun _ _ => rfl) (fun _ hh => hh) (fun d hm' hp => by rw [hm'] at hp; cases hp)
  | wGetTask w t rest hw hq =>
    exact quiet (fun _ _ => rfl) (fun _ _ => rfl) (fun _ hh => hh) (fun d hm' hp => by rw [hm'] at hp; cases hp)
  | wGetSentinel w rest hw hq =>
    exact quiet (fun _ _ => rfl) (fun _ _ => rfl) (fun _ hh => hh) (fun d hm' hp => by rw [hm'] at hp; cases hp)
  | wTimeStart w t hw =>
    have hne := held_env w t (by rw [hw]; rfl)
    exact quiet (fun _ _ => rfl) (fun d hDd => upd_other _ _ _ _ (hne d hDd)) (fun _ hh => hh)
      (fun d hm' hp => by rw [hm'] at hp; cases hp)
  | wTimeEnd w t a hw =>
    exact quiet (fun _ _ => rfl) (fun _ _ => rfl) (fun _ hh => hh) (fun d hm' hp => by rw [hm'] at hp; cases hp)
  | wApply w t a b hw =>
    have hne := held_env w t (by rw [hw]; rfl)
    exact quiet (fun d hDd => entry_updEntry_other _ _ _ _ (hne d hDd)) (fun _ _ => rfl) (fun _ hh => hh)
      (fun d hm' hp => by rw [hm'] at hp; cases hp)
  | wClocks w t a b hw =>
    have hne := held_env w t (by rw [hw]; rfl)
    exact quiet (fun d hDd => entry_updEntry_other _ _ _ _ (hne d hDd)) (fun _ _ => rfl) (fun _ hh => hh)
      (fun d hm' hp => by rw [hm'] at hp; cases hp)
  | wStatus w t hw =>
    have hne := held_env w t (by rw [hw]; rfl)
    exact quiet (fun d hDd => entry_setSt_other _ _ _ _ (hne d hDd)) (fun _ _ => rfl) (fun _ hh => hh)
      (fun d hm' hp => by rw [hm'] at hp; cases hp)
  | wTaskDone w hw hu =>
    exact quiet (fun _ _ => rfl) (fun _ _ => rfl) (fun _ hh => hh) (fun d hm' hp => by rw [hm'] at hp; cases hp)
  | wCacq w hw hcn =>
    exact quiet (fun _ _ => rfl) (fun _ _ => rfl) (fun _ hh => hh) (fun d hm' hp => by rw [hm'] at hp; cases hp)
  | wNotify w hw =>
    exact quiet (fun _ _ => rfl) (fun _ _ => rfl) (fun _ hh => hh) (fun d hm' hp => by rw [hm'] at hp; cases hp)
  | wSentinelDone w hw hu =>
    exact quiet (fun _ _ => rfl) (fun _ _ => rfl) (fun _ hh => hh) (fun d hm' hp => by rw [hm'] at hp; cases hp)

end Sched
