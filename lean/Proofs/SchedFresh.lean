import Proofs.SchedClock
/-! C04, second sentence: a DONE task that is up to date with respect to its (transitively DONE, up to date) dependencies
is not executed again and its entry is left untouched. -/
set_option linter.unusedVariables false
set_option linter.unusedSimpArgs false
namespace Sched

theorem lastEnd_le (e : Env) (l : List Nat) (m : Nat) (hne : l ≠ [])
    (h : ∀ d ∈ l, ∃ y v, e.entry d = some y ∧ y.endC = some v ∧ v ≤ m) : ∃ k, lastEnd e l = some k ∧ k ≤ m := by
  induction l with
  | nil => exact absurd rfl hne
  | cons a r ih =>
    obtain ⟨y, v, hy, hv, hle⟩ := h a (by simp)
    unfold lastEnd
    rw [hy]
    simp only [Option.bind_some, hv]
    cases r with
    | nil => exact ⟨v, rfl, hle⟩
    | cons b r2 =>
      obtain ⟨k, hk, hkm⟩ := ih (by simp) (fun d hd => h d (by simp [hd]))
      simp only [hk]
      exact ⟨max v k, rfl, Nat.max_le.2 ⟨hle, hkm⟩⟩

theorem touch_of_some (e : Env) (t : Nat) (o : Entry) (h : e.entry t = some o) : e.touch t = e := by
  unfold Env.touch; rw [h]

/-- the decision for a DONE task all of whose dependencies are decided, DONE and ended before it started: keep it -/
theorem decide_fresh (c : Cfg) (hc : c.WF) (e : Env) (left : List Nat) (t : Nat) (o : Entry) (sv : Nat)
    (ho : e.entry t = some o) (hod : o.st = .done) (hos : o.startC = some sv)
    (hdeps : ∀ d ∈ c.depsOf t, d ∉ left ∧ ∃ y ev, e.entry d = some y ∧ y.st = .done ∧ y.endC = some ev ∧ ev ≤ sv) :
    decide c e left t = (.drop, e) := by
  have hne : ∀ d ∈ c.depsOf t, d ≠ t := fun d hd => by have := hc.deps_lt t d hd; omega
  have hisdone : ∀ d ∈ c.depsOf t, e.isSt d .done = true := by
    intro d hd
    obtain ⟨_, y, ev, hy, hyd, _⟩ := hdeps d hd
    rw [isSt_iff]; exact ⟨y, hy, hyd⟩
  have hnot : ∀ d ∈ c.depsOf t, ∀ st, st ≠ .done → e.isSt d st = false := by
    intro d hd st hst
    obtain ⟨_, y, ev, hy, hyd, _⟩ := hdeps d hd
    cases hh : e.isSt d st with
    | false => rfl
    | true =>
      obtain ⟨z, hz, hzs⟩ := (isSt_iff _ _ _).1 hh
      rw [hy] at hz; injection hz with hz; subst hz
      rw [hyd] at hzs; exact absurd hzs.symm hst
  unfold decide
  simp only
  have h1 : (c.depsOf t).any (fun d => left.contains d || (e.entry d).isNone || e.isSt d .pending) = false := by
    rw [List.any_eq_false]
    intro d hd
    obtain ⟨hnl, y, ev, hy, _, _⟩ := hdeps d hd
    simp [hnl, hy, hnot d hd .pending (by simp)]
  rw [if_neg (by rw [h1]; simp)]
  have h2 : (c.hardOf t).any (fun d => e.isSt d .failed || e.isSt d .skipped) = false := by
    rw [List.any_eq_false]
    intro d hd
    have hdd := hc.hard_sub t d hd
    simp [hnot d hdd .failed (by simp), hnot d hdd .skipped (by simp)]
  rw [if_neg (by rw [h2]; simp)]
  rw [touch_of_some e t o ho]
  have h3 : e.isSt t .done = true := by rw [isSt_iff]; exact ⟨o, ho, hod⟩
  rw [if_pos h3]
  split
  · rfl
  · rename_i hemp
    have hne' : (c.depsOf t).filter (fun d => e.isSt d .done) ≠ [] := by
      intro hh; apply hemp; rw [hh]; rfl
    obtain ⟨k, hk, hkm⟩ := lastEnd_le e _ sv hne' (by
      intro d hd
      obtain ⟨_, y, ev, hy, _, hye, hle⟩ := hdeps d (List.mem_filter.1 hd).1
      exact ⟨y, ev, hy, hye, hle⟩)
    have hts : (e.entry t).bind (·.startC) = some sv := by rw [ho]; exact hos
    rw [hk, hts]
    simp only
    rw [if_pos hkm]

end Sched
