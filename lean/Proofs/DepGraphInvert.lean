import Proofs.DepGraphMerge
/-! `DepGraph(nodes, edges)` on a closed edge table, and `invert()` (C16): the inverted graph has the same nodes and
exactly the reversed edges. -/
set_option linter.unusedVariables false
namespace DG

theorem AL.mem_of_get (l : AL) (k : Nat) (v : List Nat) (h : l.get k = some v) : (k, v) ∈ l := by
  induction l with
  | nil => cases h
  | cons p r ih =>
    obtain ⟨k', v'⟩ := p
    rw [AL.get_cons] at h
    by_cases e : k' = k
    · rw [if_pos e] at h; cases h; subst e; simp
    · rw [if_neg e] at h; exact List.mem_cons_of_mem _ (ih h)

/-- the constructor on an edge table whose keys are exactly the positions and whose values are positions: nothing is
added, duplicates are removed -/
theorem mkGraph_refines (seq : List Nat) (e : AL) (hnd : seq.Nodup) (hk : e.keys.Nodup)
    (hdom : ∀ a, (e.get a).isSome ↔ a < seq.length)
    (hran : ∀ a s, e.get a = some s → ∀ b ∈ s, b < seq.length) :
    GInv (G.mk' seq e) ∧ (G.mk' seq e).nodes.seq = seq ∧
    (∀ a, (G.mk' seq e).edges.get a = (e.get a).map List.eraseDups) := by
  have hclosed : ∀ p ∈ e, ∀ v ∈ p.2, (e.get v).isSome = true := by
    intro p hp v hv
    have hget := AL.get_of_mem e hk p.1 p.2 hp
    exact (hdom v).2 (hran p.1 p.2 hget v hv)
  have hseq : (G.mk' seq e).nodes.seq = seq := RList.seq_ofList _
  have hedges : (G.mk' seq e).edges = e.mapVals List.eraseDups := by
    show complete e = _
    exact complete_of_closed e hclosed
  have hsize : (G.mk' seq e).size = seq.length := by unfold G.size; rw [hseq]
  have hget : ∀ a, (G.mk' seq e).edges.get a = (e.get a).map List.eraseDups := by
    intro a; rw [hedges, AL.get_mapVals]
  refine ⟨⟨RInv.ofList _, by rw [hseq]; exact hnd, by rw [hedges, AL.keys_mapVals]; exact hk, ?_, ?_⟩, hseq, hget⟩
  · intro a
    rw [hget, hsize, ← hdom a]
    cases e.get a <;> simp
  · intro a s hs b hb
    rw [hget] at hs
    rw [hsize]
    cases hg : e.get a with
    | none => rw [hg] at hs; cases hs
    | some s0 =>
      rw [hg] at hs
      simp at hs; subst hs
      exact hran a s0 hg b (List.mem_eraseDups.1 hb)

/-! ### the table built by `invert` -/

/-- `b` is listed under key `a` -/
def AL.R (acc : AL) (a b : Nat) : Prop := b ∈ (acc.get a).getD []

def invInner (key : Nat) (acc : AL) (vals : List Nat) : AL :=
  vals.foldl (fun (acc : AL) v => acc.set v ((acc.get v).getD [] ++ [key])) acc

def invStep (acc : AL) (p : Nat × List Nat) : AL :=
  invInner p.1 (if (acc.get p.1).isSome then acc else acc.set p.1 []) p.2

theorem invInner_spec (key : Nat) (vals : List Nat) (acc : AL) (hk : acc.keys.Nodup) :
    (invInner key acc vals).keys.Nodup ∧
    (∀ a, ((invInner key acc vals).get a).isSome ↔ (acc.get a).isSome ∨ a ∈ vals) ∧
    (∀ a b, (invInner key acc vals).R a b ↔ acc.R a b ∨ (a ∈ vals ∧ b = key)) := by
  induction vals generalizing acc with
  | nil => exact ⟨hk, fun a => by simp [invInner], fun a b => by simp [invInner]⟩
  | cons v r ih =>
    have hk1 := AL.keys_set_nodup acc v ((acc.get v).getD [] ++ [key]) hk
    obtain ⟨h1, h2, h3⟩ := ih (acc.set v ((acc.get v).getD [] ++ [key])) hk1
    have hunf : invInner key acc (v :: r) = invInner key (acc.set v ((acc.get v).getD [] ++ [key])) r := rfl
    rw [hunf]
    refine ⟨h1, ?_, ?_⟩
    · intro a
      rw [h2 a, AL.get_set]
      by_cases e : a = v
      · subst e; simp
      · simp [e]
    · intro a b
      rw [h3 a b]
      unfold AL.R
      rw [AL.get_set]
      by_cases e : a = v
      · subst e
        simp only [if_true, Option.getD_some, List.mem_append, List.mem_cons, true_or, List.not_mem_nil, or_false]
        constructor
        · rintro ((h | h) | ⟨_, h⟩)
          · exact Or.inl h
          · exact Or.inr ⟨trivial, h⟩
          · exact Or.inr ⟨trivial, h⟩
        · rintro (h | ⟨_, h⟩)
          · exact Or.inl (Or.inl h)
          · exact Or.inl (Or.inr h)
      · simp [e]

theorem invStep_spec (acc : AL) (p : Nat × List Nat) (hk : acc.keys.Nodup) :
    (invStep acc p).keys.Nodup ∧
    (∀ a, ((invStep acc p).get a).isSome ↔ (acc.get a).isSome ∨ a = p.1 ∨ a ∈ p.2) ∧
    (∀ a b, (invStep acc p).R a b ↔ acc.R a b ∨ (a ∈ p.2 ∧ b = p.1)) := by
  unfold invStep
  by_cases hs : (acc.get p.1).isSome
  · rw [if_pos hs]
    obtain ⟨h1, h2, h3⟩ := invInner_spec p.1 p.2 acc hk
    refine ⟨h1, ?_, h3⟩
    intro a
    rw [h2 a]
    constructor
    · rintro (h | h)
      · exact Or.inl h
      · exact Or.inr (Or.inr h)
    · rintro (h | h | h)
      · exact Or.inl h
      · subst h; exact Or.inl hs
      · exact Or.inr h
  · rw [if_neg hs]
    obtain ⟨h1, h2, h3⟩ := invInner_spec p.1 p.2 (acc.set p.1 []) (AL.keys_set_nodup acc p.1 [] hk)
    refine ⟨h1, ?_, ?_⟩
    · intro a
      rw [h2 a, AL.get_set]
      by_cases e : a = p.1
      · simp [e]
      · simp [e]
    · intro a b
      rw [h3 a b]
      unfold AL.R
      rw [AL.get_set]
      by_cases e : a = p.1
      · have hn : acc.get p.1 = none := by
          cases hh : acc.get p.1 with
          | none => rfl
          | some x => rw [hh] at hs; simp at hs
        subst e
        simp [hn]
      · simp [e]

theorem invFold_spec (l : AL) (acc : AL) (hk : acc.keys.Nodup) :
    (l.foldl invStep acc).keys.Nodup ∧
    (∀ a, ((l.foldl invStep acc).get a).isSome ↔ (acc.get a).isSome ∨ ∃ p ∈ l, a = p.1 ∨ a ∈ p.2) ∧
    (∀ a b, (l.foldl invStep acc).R a b ↔ acc.R a b ∨ ∃ p ∈ l, a ∈ p.2 ∧ b = p.1) := by
  induction l generalizing acc with
  | nil => exact ⟨hk, fun a => by simp, fun a b => by simp⟩
  | cons p r ih =>
    obtain ⟨s1, s2, s3⟩ := invStep_spec acc p hk
    obtain ⟨h1, h2, h3⟩ := ih (invStep acc p) s1
    rw [List.foldl_cons]
    refine ⟨h1, ?_, ?_⟩
    · intro a
      rw [h2 a, s2 a]
      constructor
      · rintro ((h | h) | ⟨q, hq, h⟩)
        · exact Or.inl h
        · exact Or.inr ⟨p, by simp, h⟩
        · exact Or.inr ⟨q, by simp [hq], h⟩
      · rintro (h | ⟨q, hq, h⟩)
        · exact Or.inl (Or.inl h)
        · rcases List.mem_cons.1 hq with e | hq
          · subst e; exact Or.inl (Or.inr h)
          · exact Or.inr ⟨q, hq, h⟩
    · intro a b
      rw [h3 a b, s3 a b]
      constructor
      · rintro ((h | h) | ⟨q, hq, h⟩)
        · exact Or.inl h
        · exact Or.inr ⟨p, by simp, h⟩
        · exact Or.inr ⟨q, by simp [hq], h⟩
      · rintro (h | ⟨q, hq, h⟩)
        · exact Or.inl (Or.inl h)
        · rcases List.mem_cons.1 hq with e | hq
          · subst e; exact Or.inl (Or.inr h)
          · exact Or.inr ⟨q, hq, h⟩

theorem invert_eq (g : G) : g.invert = G.mk' g.nodes.seq (g.edges.foldl invStep []) := by
  unfold G.invert
  simp only
  congr 1

/-- **`invert()` denotes the reversed graph**: same nodes, `u → w` exactly when `w → u` before -/
theorem invert_refines {g : G} (h : GInv g) :
    GInv g.invert ∧ (∀ z, g.invert.Node z ↔ g.Node z) ∧ (∀ u w, g.invert.Edge u w ↔ g.Edge w u) := by
  rw [invert_eq]
  obtain ⟨f1, f2, f3⟩ := invFold_spec g.edges [] (by simp [AL.keys])
  have hkeys : ∀ a, (∃ s, (a, s) ∈ g.edges) ↔ a < g.size := by
    intro a
    rw [← h.edom a]
    constructor
    · rintro ⟨s, hs⟩; rw [AL.get_of_mem g.edges h.ekeys a s hs]; rfl
    · intro hs
      cases hg : g.edges.get a with
      | none => rw [hg] at hs; simp at hs
      | some s => exact ⟨s, AL.mem_of_get _ _ _ hg⟩
  have hdom : ∀ a, ((g.edges.foldl invStep []).get a).isSome ↔ a < g.nodes.seq.length := by
    intro a
    rw [f2 a]
    constructor
    · rintro (hh | ⟨p, hp, hh | hh⟩)
      · simp at hh
      · exact (hkeys a).1 ⟨p.2, by rw [hh]; exact hp⟩
      · exact h.erange p.1 p.2 (AL.get_of_mem g.edges h.ekeys p.1 p.2 hp) a hh
    · intro ha
      obtain ⟨s, hs⟩ := (hkeys a).2 ha
      exact Or.inr ⟨(a, s), hs, Or.inl rfl⟩
  have hR : ∀ a b, (g.edges.foldl invStep []).R a b ↔ ∃ s, g.edges.get b = some s ∧ a ∈ s := by
    intro a b
    rw [f3 a b]
    constructor
    · rintro (hh | ⟨p, hp, ha, hb⟩)
      · simp [AL.R] at hh
      · exact ⟨p.2, by rw [hb]; exact AL.get_of_mem g.edges h.ekeys p.1 p.2 hp, ha⟩
    · rintro ⟨s, hs, ha⟩
      exact Or.inr ⟨(b, s), AL.mem_of_get _ _ _ hs, ha, rfl⟩
  have hran : ∀ a s, (g.edges.foldl invStep []).get a = some s → ∀ b ∈ s, b < g.nodes.seq.length := by
    intro a s hs b hb
    have : (g.edges.foldl invStep []).R a b := by unfold AL.R; rw [hs]; exact hb
    obtain ⟨s', hs', _⟩ := (hR a b).1 this
    exact (h.edom b).1 (by rw [hs']; rfl)
  obtain ⟨hinv, hseq, hget⟩ := mkGraph_refines g.nodes.seq _ h.nodup f1 hdom hran
  refine ⟨hinv, ?_, ?_⟩
  · intro z; unfold G.Node; rw [hseq]
  · intro u w
    unfold G.Edge
    rw [hseq]
    constructor
    · rintro ⟨a, b, s, ha, hb, hs, hbs⟩
      rw [hget] at hs
      cases hg : (g.edges.foldl invStep []).get a with
      | none => rw [hg] at hs; cases hs
      | some s0 =>
        rw [hg] at hs; simp at hs; subst hs
        have : (g.edges.foldl invStep []).R a b := by unfold AL.R; rw [hg]; exact List.mem_eraseDups.1 hbs
        obtain ⟨s', hs', has'⟩ := (hR a b).1 this
        exact ⟨b, a, s', hb, ha, hs', has'⟩
    · rintro ⟨b, a, s', hb, ha, hs', has'⟩
      have : (g.edges.foldl invStep []).R a b := (hR a b).2 ⟨s', hs', has'⟩
      unfold AL.R at this
      cases hg : (g.edges.foldl invStep []).get a with
      | none => rw [hg] at this; simp at this
      | some s0 =>
        rw [hg] at this
        exact ⟨a, b, s0.eraseDups, ha, hb, by rw [hget, hg]; rfl, List.mem_eraseDups.2 this⟩

end DG
