import Proofs.DepGraphClosure
import Mathlib.Data.List.Perm.Basic
import Mathlib.Tactic.CongrExclamation
/-! `==` / `isomorphic_to` (C16): true exactly when the two graphs denote the same nodes and the same edges. -/
set_option linter.unusedVariables false
namespace DG

/-- position in `h` of the node at each position of `g` -/
def i2o (g h : G) : List Nat := (g.nodes.seq.map h.nodes.getIndex).map (·.getD 0)

/-- position in `g` of the node at each position of `h` -/
def o2i (g h : G) : List (Option Nat) := (List.range h.size).map fun o => (i2o g h).idxOf? o

theorem eqv_unfold (g h : G) :
    g.eqv h =
      if g.size ≠ h.size then .ok false
      else if (g.nodes.seq.map h.nodes.getIndex).any Option.isNone then .ok false
      else if (o2i g h).any Option.isNone then .ok false
      else
        Except.map (fun v : List Bool => v.all id) (g.edges.mapM (fun (x : Nat × List Nat) => do
            let ok ← h.edgesAt ((i2o g h).getD x.1 0)
            pure (x.2.all (· ∈ ok.map fun o => ((o2i g h).getD o none).getD 0) &&
              (ok.map fun o => ((o2i g h).getD o none).getD 0).all (· ∈ x.2)))) := by
  unfold G.eqv o2i i2o
  simp only [bind, Except.bind, pure, Except.pure, Except.map]

theorem getIndex_some {h : G} (hh : GInv h) {x : Nat} (hx : x ∈ h.nodes.seq) :
    ∃ o, h.nodes.getIndex x = some o ∧ h.nodes.seq[o]? = some x := by
  have hs := rlist_getIndex_spec hh.rinv x
  cases hgi : h.nodes.getIndex x with
  | none => exact absurd hx (hs.2.1 hgi)
  | some o => exact ⟨o, rfl, hs.1 o hgi⟩

/-- when every node of `g` is a node of `h`: `i2o` sends each position of `g` to the position of the same node in `h` -/
theorem i2o_spec {g h : G} (hh : GInv h) (hsub : ∀ x ∈ g.nodes.seq, x ∈ h.nodes.seq) (i : Nat) (hi : i < g.size) :
    ∃ o, (i2o g h)[i]? = some o ∧ h.nodes.seq[o]? = g.nodes.seq[i]? ∧ o < h.size := by
  have hi' : i < g.nodes.seq.length := hi
  obtain ⟨o, ho, hso⟩ := getIndex_some hh (hsub _ (List.getElem_mem hi'))
  refine ⟨o, ?_, ?_, lt_of_getElem?_some hso⟩
  · unfold i2o
    rw [List.getElem?_map, List.getElem?_map, List.getElem?_eq_getElem hi']
    simp [ho]
  · rw [hso, List.getElem?_eq_getElem hi']

theorem i2o_length (g h : G) : (i2o g h).length = g.size := by unfold i2o G.size; simp

theorem i2o_inj {g h : G} (hg : GInv g) (hh : GInv h) (hsub : ∀ x ∈ g.nodes.seq, x ∈ h.nodes.seq)
    {i j o : Nat} (hi : (i2o g h)[i]? = some o) (hj : (i2o g h)[j]? = some o) : i = j := by
  have hil : i < g.size := by rw [← i2o_length g h]; exact lt_of_getElem?_some hi
  have hjl : j < g.size := by rw [← i2o_length g h]; exact lt_of_getElem?_some hj
  obtain ⟨o1, h1, s1, _⟩ := i2o_spec hh hsub i hil
  obtain ⟨o2, h2, s2, _⟩ := i2o_spec hh hsub j hjl
  rw [hi] at h1; rw [hj] at h2
  cases h1; cases h2
  have hi' : i < g.nodes.seq.length := hil
  have hj' : j < g.nodes.seq.length := hjl
  rw [List.getElem?_eq_getElem hi'] at s1
  rw [s1, List.getElem?_eq_getElem hj'] at s2
  exact (List.Nodup.getElem_inj_iff hg.nodup).1 (Option.some.inj s2)

/-- `==`: true exactly when the two graphs have the same nodes and the same edges -/
theorem eqv_spec {g h : G} (hg : GInv g) (hh : GInv h) :
    ∃ b, g.eqv h = .ok b ∧ (b = true ↔ (∀ z, g.Node z ↔ h.Node z) ∧ ∀ u w, g.Edge u w ↔ h.Edge u w) := by
  classical
  rw [eqv_unfold]
  by_cases hsz : g.size = h.size
  swap
  · refine ⟨false, by rw [if_pos hsz], ?_⟩
    constructor
    · intro hf; cases hf
    · rintro ⟨hn, _⟩
      exfalso
      apply hsz
      have hperm : g.nodes.seq.Perm h.nodes.seq := (List.perm_ext_iff_of_nodup hg.nodup hh.nodup).2 hn
      exact hperm.length_eq
  rw [if_neg (not_not.2 hsz)]
  by_cases hsub : ∀ x ∈ g.nodes.seq, x ∈ h.nodes.seq
  swap
  · have hany : (g.nodes.seq.map h.nodes.getIndex).any Option.isNone = true := by
      simp only [not_forall] at hsub
      obtain ⟨x, hx, hnx⟩ := hsub
      rw [List.any_eq_true]
      refine ⟨none, List.mem_map.2 ⟨x, hx, ?_⟩, rfl⟩
      exact (rlist_getIndex_spec hh.rinv x).2.2 hnx
    refine ⟨false, by rw [if_pos hany], ?_⟩
    constructor
    · intro hf; cases hf
    · rintro ⟨hn, _⟩
      exact absurd (fun x hx => (hn x).1 hx) hsub
  have hnone : ¬ ((g.nodes.seq.map h.nodes.getIndex).any Option.isNone = true) := by
    rw [List.any_eq_true]
    rintro ⟨q, hq, hqn⟩
    obtain ⟨x, hx, rfl⟩ := List.mem_map.1 hq
    obtain ⟨o, ho, _⟩ := getIndex_some hh (hsub x hx)
    rw [ho] at hqn; cases hqn
  rw [if_neg hnone]
  by_cases hsurj : ∀ o, o < h.size → o ∈ i2o g h
  swap
  · have hany : (o2i g h).any Option.isNone = true := by
      simp only [not_forall] at hsurj
      obtain ⟨o, ho, hno⟩ := hsurj
      rw [List.any_eq_true]
      refine ⟨none, ?_, rfl⟩
      unfold o2i
      exact List.mem_map.2 ⟨o, List.mem_range.2 ho, List.idxOf?_eq_none_iff.2 hno⟩
    refine ⟨false, by rw [if_pos hany], ?_⟩
    constructor
    · intro hf; cases hf
    · rintro ⟨hn, _⟩
      exfalso
      simp only [not_forall] at hsurj
      obtain ⟨o, ho, hno⟩ := hsurj
      have ho' : o < h.nodes.seq.length := ho
      have hx : h.nodes.seq[o] ∈ g.nodes.seq := (hn _).2 (List.getElem_mem ho')
      obtain ⟨i, hi, hix⟩ := List.getElem_of_mem hx
      obtain ⟨o1, h1, s1, _⟩ := i2o_spec hh hsub i hi
      rw [List.getElem?_eq_getElem hi, hix] at s1
      have : o1 = o := hh.pos_unique s1 (List.getElem?_eq_getElem ho')
      subst this
      exact hno (List.mem_of_getElem? h1)
  have hnone2 : ¬ ((o2i g h).any Option.isNone = true) := by
    rw [List.any_eq_true]
    rintro ⟨q, hq, hqn⟩
    unfold o2i at hq
    obtain ⟨o, ho, rfl⟩ := List.mem_map.1 hq
    have := hsurj o (List.mem_range.1 ho)
    have hsome : ((i2o g h).idxOf? o).isSome = true := List.isSome_idxOf?.2 this
    rw [Option.isSome_iff_ne_none] at hsome
    exact hsome (by simpa using hqn)
  rw [if_neg hnone2]
  -- the two position maps are inverse of each other
  have hO : ∀ o, o < h.size → ∃ i, ((o2i g h).getD o none).getD 0 = i ∧ (i2o g h)[i]? = some o := by
    intro o ho
    have hmem := hsurj o ho
    cases hidx : (i2o g h).idxOf? o with
    | none => exact absurd hmem (List.idxOf?_eq_none_iff.1 hidx)
    | some i =>
      obtain ⟨hlt, hget, _⟩ := List.idxOf?_eq_some_iff.1 hidx
      refine ⟨i, ?_, by rw [List.getElem?_eq_getElem hlt, hget]⟩
      unfold o2i
      rw [List.getD_eq_getElem?_getD, List.getElem?_map, List.getElem?_range ho]
      simp [hidx]
  let ovals : Nat → List Nat := fun key => (edgesP h ((i2o g h).getD key 0)).map fun o => ((o2i g h).getD o none).getD 0
  let q : Nat × List Nat → Bool := fun x => x.2.all (· ∈ ovals x.1) && (ovals x.1).all (· ∈ x.2)
  have hkey : ∀ x ∈ g.edges, x.1 < g.size := by
    intro x hx
    exact (hg.edom x.1).1 (by rw [AL.get_of_mem g.edges hg.ekeys x.1 x.2 hx]; rfl)
  have hm : g.edges.mapM (fun x => do
      let ok ← h.edgesAt ((i2o g h).getD x.1 0)
      pure (x.2.all (· ∈ ok.map fun o => ((o2i g h).getD o none).getD 0) &&
        (ok.map fun o => ((o2i g h).getD o none).getD 0).all (· ∈ x.2))) = .ok (g.edges.map q) := by
    apply mapM_ok_of_forall
    intro x hx
    obtain ⟨o, ho, _, hol⟩ := i2o_spec hh hsub x.1 (hkey x hx)
    have hgd : (i2o g h).getD x.1 0 = o := by rw [List.getD_eq_getElem?_getD, ho]; rfl
    rw [hgd, edgesAt_eq hh hol]
    simp only [bind, Except.bind, pure, Except.pure, q, ovals, hgd]
  simp only [bind, Except.bind, pure, Except.pure] at hm
  refine ⟨(g.edges.map q).all id, by simp only [bind, Except.bind, pure, Except.pure]; rw [hm]; rfl, ?_⟩
  -- node sets: `g ⊆ h` and every position of `h` has a pre-image
  have hnodes : ∀ z, g.Node z ↔ h.Node z := by
    intro z
    refine ⟨hsub z, ?_⟩
    intro hz
    obtain ⟨o, ho, hoz⟩ := List.getElem_of_mem hz
    obtain ⟨i, _, hi⟩ := hO o ho
    have hil : i < g.size := by rw [← i2o_length g h]; exact lt_of_getElem?_some hi
    obtain ⟨o1, h1, s1, _⟩ := i2o_spec hh hsub i hil
    rw [hi] at h1; cases h1
    rw [List.getElem?_eq_getElem ho, hoz] at s1
    exact List.mem_of_getElem? s1.symm
  -- what `q` says about one position of `g`
  have hq : ∀ a s, g.edges.get a = some s →
      (q (a, s) = true ↔ ∀ b, b < g.size → (b ∈ s ↔ ∃ oa ob, (i2o g h)[a]? = some oa ∧ (i2o g h)[b]? = some ob ∧ PEdge h oa ob)) := by
    intro a s hs
    have ha : a < g.size := (hg.edom a).1 (by rw [hs]; rfl)
    obtain ⟨oa, hoa, _, hoal⟩ := i2o_spec hh hsub a ha
    have hgd : (i2o g h).getD a 0 = oa := by rw [List.getD_eq_getElem?_getD, hoa]; rfl
    have hov : ∀ b, b ∈ ovals a ↔ ∃ ob, PEdge h oa ob ∧ (i2o g h)[b]? = some ob := by
      intro b
      simp only [ovals, hgd, List.mem_map]
      constructor
      · rintro ⟨ob, hob, rfl⟩
        obtain ⟨i, hi1, hi2⟩ := hO ob (pedge_lt hh hob).2
        exact ⟨ob, hob, by rw [hi1]; exact hi2⟩
      · rintro ⟨ob, hob, hb⟩
        obtain ⟨i, hi1, hi2⟩ := hO ob (pedge_lt hh hob).2
        exact ⟨ob, hob, by rw [hi1]; exact i2o_inj hg hh hsub hi2 hb⟩
    simp only [q, Bool.and_eq_true, List.all_eq_true, decide_eq_true_eq]
    constructor
    · rintro ⟨h1, h2⟩ b hb
      constructor
      · intro hbs
        obtain ⟨ob, hob, hbo⟩ := (hov b).1 (h1 b hbs)
        exact ⟨oa, ob, hoa, hbo, hob⟩
      · rintro ⟨oa', ob, hoa', hbo, hob⟩
        rw [hoa] at hoa'; cases hoa'
        exact h2 b ((hov b).2 ⟨ob, hob, hbo⟩)
    · intro hall
      constructor
      · intro b hbs
        have hb : b < g.size := hg.erange a s hs b hbs
        obtain ⟨oa', ob, hoa', hbo, hob⟩ := (hall b hb).1 hbs
        rw [hoa] at hoa'; cases hoa'
        exact (hov b).2 ⟨ob, hob, hbo⟩
      · intro b hbo
        obtain ⟨ob, hob, hb⟩ := (hov b).1 hbo
        have hbl : b < g.size := by rw [← i2o_length g h]; exact lt_of_getElem?_some hb
        exact (hall b hbl).2 ⟨oa, ob, hoa, hb, hob⟩
  rw [List.all_eq_true]
  constructor
  · intro hall
    refine ⟨hnodes, ?_⟩
    have hpos : ∀ a s, g.edges.get a = some s → q (a, s) = true := by
      intro a s hs
      have := hall (q (a, s)) (List.mem_map.2 ⟨(a, s), AL.mem_of_get _ _ _ hs, rfl⟩)
      simpa using this
    intro u w
    rw [edge_iff_pedge, edge_iff_pedge]
    constructor
    · rintro ⟨a, b, ha, hb, hp⟩
      have hal := lt_of_getElem?_some ha
      have hbl := lt_of_getElem?_some hb
      obtain ⟨s, _, hs⟩ := hg.edgesAt_ok hal
      have hbs : b ∈ s := by unfold PEdge edgesP at hp; rw [hs] at hp; exact hp
      obtain ⟨oa, ob, hoa, hob, hpe⟩ := ((hq a s hs).1 (hpos a s hs) b hbl).1 hbs
      obtain ⟨oa', h1, s1, _⟩ := i2o_spec hh hsub a hal
      obtain ⟨ob', h2, s2, _⟩ := i2o_spec hh hsub b hbl
      rw [hoa] at h1; rw [hob] at h2; cases h1; cases h2
      exact ⟨oa, ob, by rw [s1, ha], by rw [s2, hb], hpe⟩
    · rintro ⟨oa, ob, hoa, hob, hpe⟩
      have hoal := lt_of_getElem?_some hoa
      have hobl := lt_of_getElem?_some hob
      obtain ⟨a, _, hia⟩ := hO oa hoal
      obtain ⟨b, _, hib⟩ := hO ob hobl
      have hal : a < g.size := by rw [← i2o_length g h]; exact lt_of_getElem?_some hia
      have hbl : b < g.size := by rw [← i2o_length g h]; exact lt_of_getElem?_some hib
      obtain ⟨oa', h1, s1, _⟩ := i2o_spec hh hsub a hal
      obtain ⟨ob', h2, s2, _⟩ := i2o_spec hh hsub b hbl
      rw [hia] at h1; rw [hib] at h2; cases h1; cases h2
      obtain ⟨s, _, hs⟩ := hg.edgesAt_ok hal
      have hbs : b ∈ s := ((hq a s hs).1 (hpos a s hs) b hbl).2 ⟨oa, ob, hia, hib, hpe⟩
      refine ⟨a, b, by rw [← s1, hoa], by rw [← s2, hob], ?_⟩
      unfold PEdge edgesP; rw [hs]; exact hbs
  · rintro ⟨_, hedges⟩ bq hbq
    obtain ⟨x, hx, rfl⟩ := List.mem_map.1 hbq
    obtain ⟨a, s⟩ := x
    have hs := AL.get_of_mem g.edges hg.ekeys a s hx
    show q (a, s) = true
    rw [hq a s hs]
    intro b hbl
    have hal : a < g.size := hkey (a, s) hx
    obtain ⟨oa, hoa, s1, _⟩ := i2o_spec hh hsub a hal
    obtain ⟨ob, hob, s2, _⟩ := i2o_spec hh hsub b hbl
    have hal' : a < g.nodes.seq.length := hal
    have hbl' : b < g.nodes.seq.length := hbl
    have hedge := hedges (g.nodes.seq[a]) (g.nodes.seq[b])
    rw [edge_iff_pedge, edge_iff_pedge] at hedge
    constructor
    · intro hbs
      obtain ⟨oa', ob', h1, h2, hpe⟩ := hedge.1 ⟨a, b, List.getElem?_eq_getElem hal', List.getElem?_eq_getElem hbl',
        by unfold PEdge edgesP; rw [hs]; exact hbs⟩
      rw [List.getElem?_eq_getElem hal'] at s1
      rw [List.getElem?_eq_getElem hbl'] at s2
      have e1 := hh.pos_unique h1 s1
      have e2 := hh.pos_unique h2 s2
      subst e1; subst e2
      exact ⟨oa', ob', hoa, hob, hpe⟩
    · rintro ⟨oa', ob', hoa', hob', hpe⟩
      rw [hoa] at hoa'; rw [hob] at hob'; cases hoa'; cases hob'
      rw [List.getElem?_eq_getElem hal'] at s1
      rw [List.getElem?_eq_getElem hbl'] at s2
      obtain ⟨a', b', h1, h2, hp⟩ := hedge.2 ⟨oa, ob, s1, s2, hpe⟩
      have e1 := hg.pos_unique h1 (List.getElem?_eq_getElem hal')
      have e2 := hg.pos_unique h2 (List.getElem?_eq_getElem hbl')
      subst e1; subst e2
      unfold PEdge edgesP at hp; rw [hs] at hp; exact hp

end DG
