import Proofs.DepGraphQueries
/-! `graft(node)` (C16): the node is replaced by the nested graph, the nodes that depended on it now depend on the
initial nodes of the nested graph, its terminal nodes depend on what the node depended on, and when the nested graph is
empty the ordering constraints pass through (repair of A19). -/
set_option linter.unusedVariables false
namespace DG

/-- the mirror image of `addDeps_refines`: `k -> v` for every `k` of a list -/
theorem addDepsTo_refines {g : G} (h : GInv g) (keys : List Nat) (v : Nat) :
    ∃ g', keys.foldlM (fun g k => g.addDep k v) g = .ok g' ∧ GInv g' ∧
      (∀ z, g'.Node z ↔ g.Node z ∨ z ∈ keys ∨ (keys ≠ [] ∧ z = v)) ∧
      (∀ u w, g'.Edge u w ↔ g.Edge u w ∨ (u ∈ keys ∧ w = v)) := by
  induction keys generalizing g with
  | nil => exact ⟨g, rfl, h, fun z => by simp, fun u w => by simp⟩
  | cons k rest ih =>
    obtain ⟨g1, hg1, hi1, n1, e1⟩ := addDep_refines h k v
    obtain ⟨g2, hg2, hi2, n2, e2⟩ := ih hi1
    refine ⟨g2, ?_, hi2, ?_, ?_⟩
    · rw [List.foldlM_cons, hg1]; exact hg2
    · intro z
      rw [n2 z, n1 z]
      simp only [List.mem_cons, ne_eq, reduceCtorEq, not_false_eq_true, true_and]
      constructor
      · rintro ((hz | hz | hz) | hz | ⟨_, hz⟩)
        · exact Or.inl hz
        · exact Or.inr (Or.inl (Or.inl hz))
        · exact Or.inr (Or.inr hz)
        · exact Or.inr (Or.inl (Or.inr hz))
        · exact Or.inr (Or.inr hz)
      · rintro (hz | (hz | hz) | hz)
        · exact Or.inl (Or.inl hz)
        · exact Or.inl (Or.inr (Or.inl hz))
        · exact Or.inr (Or.inl hz)
        · exact Or.inl (Or.inr (Or.inr hz))
    · intro u w
      rw [e2 u w, e1 u w]
      simp only [List.mem_cons]
      constructor
      · rintro ((hz | ⟨hu, hw⟩) | ⟨hu, hw⟩)
        · exact Or.inl hz
        · exact Or.inr ⟨Or.inl hu, hw⟩
        · exact Or.inr ⟨Or.inr hu, hw⟩
      · rintro (hz | ⟨hu | hu, hw⟩)
        · exact Or.inl (Or.inl hz)
        · exact Or.inl (Or.inr ⟨hu, hw⟩)
        · exact Or.inr ⟨hu, hw⟩

/-- a loop whose every round adds given nodes and edges adds their union -/
theorem foldlM_refines {α : Type} (F : G → α → Except Err G) (NS : α → Nat → Prop) (ES : α → Nat → Nat → Prop)
    (hF : ∀ g a, GInv g → ∃ g', F g a = .ok g' ∧ GInv g' ∧ (∀ z, g'.Node z ↔ g.Node z ∨ NS a z) ∧
      (∀ u w, g'.Edge u w ↔ g.Edge u w ∨ ES a u w))
    (l : List α) {g : G} (h : GInv g) :
    ∃ g', l.foldlM F g = .ok g' ∧ GInv g' ∧ (∀ z, g'.Node z ↔ g.Node z ∨ ∃ a ∈ l, NS a z) ∧
      (∀ u w, g'.Edge u w ↔ g.Edge u w ∨ ∃ a ∈ l, ES a u w) := by
  induction l generalizing g with
  | nil => exact ⟨g, rfl, h, fun z => by simp, fun u w => by simp⟩
  | cons a rest ih =>
    obtain ⟨g1, hg1, hi1, n1, e1⟩ := hF g a h
    obtain ⟨g2, hg2, hi2, n2, e2⟩ := ih hi1
    refine ⟨g2, ?_, hi2, ?_, ?_⟩
    · rw [List.foldlM_cons, hg1]; exact hg2
    · intro z
      rw [n2 z, n1 z]
      constructor
      · rintro ((hz | hz) | ⟨b, hb, hz⟩)
        · exact Or.inl hz
        · exact Or.inr ⟨a, by simp, hz⟩
        · exact Or.inr ⟨b, by simp [hb], hz⟩
      · rintro (hz | ⟨b, hb, hz⟩)
        · exact Or.inl (Or.inl hz)
        · rcases List.mem_cons.1 hb with e | hb
          · subst e; exact Or.inl (Or.inr hz)
          · exact Or.inr ⟨b, hb, hz⟩
    · intro u w
      rw [e2 u w, e1 u w]
      constructor
      · rintro ((hz | hz) | ⟨b, hb, hz⟩)
        · exact Or.inl hz
        · exact Or.inr ⟨a, by simp, hz⟩
        · exact Or.inr ⟨b, by simp [hb], hz⟩
      · rintro (hz | ⟨b, hb, hz⟩)
        · exact Or.inl (Or.inl hz)
        · rcases List.mem_cons.1 hb with e | hb
          · subst e; exact Or.inl (Or.inr hz)
          · exact Or.inr ⟨b, hb, hz⟩

/-- `u -> w` for every `u` of `us` and every `w` of `ws`, outer loop over `ws` (as for the terminal nodes) -/
theorem crossTo_refines {g : G} (h : GInv g) (us ws : List Nat) :
    ∃ g', ws.foldlM (fun g w => us.foldlM (fun g u => g.addDep u w) g) g = .ok g' ∧ GInv g' ∧
      (∀ z, g'.Node z ↔ g.Node z ∨ (z ∈ us ∧ ws ≠ []) ∨ (z ∈ ws ∧ us ≠ [])) ∧
      (∀ u w, g'.Edge u w ↔ g.Edge u w ∨ (u ∈ us ∧ w ∈ ws)) := by
  obtain ⟨g', hg', hi', n', e'⟩ := foldlM_refines (fun g w => us.foldlM (fun g u => g.addDep u w) g)
    (fun w z => z ∈ us ∨ (us ≠ [] ∧ z = w)) (fun w u w' => u ∈ us ∧ w' = w)
    (fun g w hg => addDepsTo_refines hg us w) ws h
  refine ⟨g', hg', hi', ?_, ?_⟩
  · intro z
    rw [n' z]
    constructor
    · rintro (hz | ⟨w, hw, hz | ⟨hne, hz⟩⟩)
      · exact Or.inl hz
      · exact Or.inr (Or.inl ⟨hz, List.ne_nil_of_mem hw⟩)
      · subst hz; exact Or.inr (Or.inr ⟨hw, hne⟩)
    · rintro (hz | ⟨hz, hne⟩ | ⟨hz, hne⟩)
      · exact Or.inl hz
      · obtain ⟨w, hw⟩ := List.exists_mem_of_ne_nil ws hne
        exact Or.inr ⟨w, hw, Or.inl hz⟩
      · exact Or.inr ⟨z, hz, Or.inr ⟨hne, rfl⟩⟩
  · intro u w
    rw [e' u w]
    constructor
    · rintro (hz | ⟨w', hw', hu, rfl⟩)
      · exact Or.inl hz
      · exact Or.inr ⟨hu, hw'⟩
    · rintro (hz | ⟨hu, hw⟩)
      · exact Or.inl hz
      · exact Or.inr ⟨w, hw, hu, rfl⟩

/-- `u -> w` for every `u` of `us` and every `w` of `ws`, outer loop over `us` (as for the dependees) -/
theorem crossFrom_refines {g : G} (h : GInv g) (us ws : List Nat) :
    ∃ g', us.foldlM (fun g u => ws.foldlM (fun g w => g.addDep u w) g) g = .ok g' ∧ GInv g' ∧
      (∀ z, g'.Node z ↔ g.Node z ∨ (z ∈ us ∧ ws ≠ []) ∨ (z ∈ ws ∧ us ≠ [])) ∧
      (∀ u w, g'.Edge u w ↔ g.Edge u w ∨ (u ∈ us ∧ w ∈ ws)) := by
  obtain ⟨g', hg', hi', n', e'⟩ := foldlM_refines (fun g u => ws.foldlM (fun g w => g.addDep u w) g)
    (fun u z => (ws ≠ [] ∧ z = u) ∨ z ∈ ws) (fun u u' w => u' = u ∧ w ∈ ws)
    (fun g u hg => addDeps_refines hg u ws) us h
  refine ⟨g', hg', hi', ?_, ?_⟩
  · intro z
    rw [n' z]
    constructor
    · rintro (hz | ⟨u, hu, ⟨hne, hz⟩ | hz⟩)
      · exact Or.inl hz
      · subst hz; exact Or.inr (Or.inl ⟨hu, hne⟩)
      · exact Or.inr (Or.inr ⟨hz, List.ne_nil_of_mem hu⟩)
    · rintro (hz | ⟨hz, hne⟩ | ⟨hz, hne⟩)
      · exact Or.inl hz
      · exact Or.inr ⟨z, hz, Or.inl ⟨hne, rfl⟩⟩
      · obtain ⟨u, hu⟩ := List.exists_mem_of_ne_nil us hne
        exact Or.inr ⟨u, hu, Or.inr hz⟩
  · intro u w
    rw [e' u w]
    constructor
    · rintro (hz | ⟨u', hu', rfl, hw⟩)
      · exact Or.inl hz
      · exact Or.inr ⟨hu', hw⟩
    · rintro (hz | ⟨hu, hw⟩)
      · exact Or.inl hz
      · exact Or.inr ⟨u, hu, rfl, hw⟩

theorem edge_nodes {g : G} {u w : Nat} (h : g.Edge u w) : g.Node u ∧ g.Node w := by
  obtain ⟨a, b, s, ha, hb, _, _⟩ := h
  exact ⟨List.mem_of_getElem? ha, List.mem_of_getElem? hb⟩

/-- a node nobody depends on / that depends on nothing -/
def G.Initial (g : G) (y : Nat) : Prop := g.Node y ∧ ¬ ∃ u, g.Edge u y
def G.Terminal (g : G) (y : Nat) : Prop := g.Node y ∧ ¬ ∃ w, g.Edge y w

/-- the edges that `graft` adds around the nested graph `sub` put in place of `x` -/
def Added (g sub : G) (x u w : Nat) : Prop :=
  (sub.Terminal u ∧ g.Edge x w ∧ w ≠ x) ∨ ((g.Edge u x ∧ u ≠ x) ∧ sub.Initial w) ∨
  ((∀ z, ¬ sub.Node z) ∧ (g.Edge u x ∧ u ≠ x) ∧ g.Edge x w ∧ w ≠ x)

/-- **`graft`**: exact nodes and edges of the result -/
theorem graft_refines {g sub : G} (hg : GInv g) (hs : GInv sub) {x : Nat} (hx : g.Node x) :
    ∃ g', g.graft x sub = .ok g' ∧ GInv g' ∧
      (∀ z, g'.Node z ↔ (g.Node z ∧ z ≠ x) ∨ sub.Node z ∨ ∃ w, Added g sub x z w ∨ Added g sub x w z) ∧
      (∀ u w, g'.Edge u w ↔ (g.Edge u w ∧ u ≠ x ∧ w ≠ x) ∨ sub.Edge u w ∨ Added g sub x u w) := by
  obtain ⟨deps0, hdeps, mdeps0⟩ := (dependencies_ok hg x).2 hx
  obtain ⟨dpes0, hdpes, mdpes0⟩ := (dependees_spec hg x).2 hx
  have mdeps : ∀ y, y ∈ deps0.filter (· ≠ x) ↔ (g.Edge x y ∧ y ≠ x) := by
    intro y; rw [List.mem_filter, mdeps0 y]; simp
  have mdpes : ∀ y, y ∈ dpes0.filter (· ≠ x) ↔ (g.Edge y x ∧ y ≠ x) := by
    intro y; rw [List.mem_filter, mdpes0 y]; simp
  generalize hdd : deps0.filter (· ≠ x) = deps at mdeps
  generalize hpp : dpes0.filter (· ≠ x) = dpes at mdpes
  obtain ⟨g1, hg1, hi1, n1, e1⟩ := removeNode_refines hg x
  obtain ⟨inits, hinits, minits⟩ := initial_spec hs
  obtain ⟨terms, hterms, mterms⟩ := terminal_spec hs
  obtain ⟨g2, hg2, hi2, n2, e2⟩ := merge_refines hi1 hs
  obtain ⟨g3, hg3, hi3, n3, e3⟩ := crossTo_refines hi2 terms deps
  obtain ⟨g4, hg4, hi4, n4, e4⟩ := crossFrom_refines hi3 dpes inits
  have hempty : sub.size = 0 ↔ ∀ z, ¬ sub.Node z := by
    unfold G.size G.Node
    constructor
    · intro h0 z hz
      have := List.length_pos_of_mem hz
      omega
    · intro hno
      cases hq : sub.nodes.seq with
      | nil => rfl
      | cons a r => exact absurd (by rw [hq]; simp) (hno a)
  by_cases h0 : sub.size = 0
  · obtain ⟨g5, hg5, hi5, n5, e5⟩ := crossFrom_refines hi4 dpes deps
    have hno := hempty.1 h0
    have hterm_none : terms = [] := by
      cases hq : terms with
      | nil => rfl
      | cons a r => exact absurd ((mterms a).1 (by rw [hq]; simp)).1 (hno a)
    have hinit_none : inits = [] := by
      cases hq : inits with
      | nil => rfl
      | cons a r => exact absurd ((minits a).1 (by rw [hq]; simp)).1 (hno a)
    refine ⟨g5, ?_, hi5, ?_, ?_⟩
    · unfold G.graft
      simp only [hdeps, hdpes, hdd, hpp, hg1, hinits, hterms, hg2, hg3, hg4, bind, Except.bind, h0, if_true]
      exact hg5
    · intro z
      rw [n5 z, n4 z, n3 z, n2 z, n1 z]
      subst hterm_none hinit_none
      simp only [List.not_mem_nil, false_and, and_false, or_false, ne_eq, not_true_eq_false]
      unfold Added G.Terminal G.Initial
      constructor
      · rintro ((hz | hz) | ⟨hz, hne⟩ | ⟨hz, hne⟩)
        · exact Or.inl hz
        · exact absurd hz (hno z)
        · obtain ⟨w, hw⟩ := List.exists_mem_of_ne_nil deps hne
          exact Or.inr (Or.inr ⟨w, Or.inl (Or.inr (Or.inr ⟨hno, (mdpes z).1 hz, (mdeps w).1 hw⟩))⟩)
        · obtain ⟨u, hu⟩ := List.exists_mem_of_ne_nil dpes hne
          exact Or.inr (Or.inr ⟨u, Or.inr (Or.inr (Or.inr ⟨hno, (mdpes u).1 hu, (mdeps z).1 hz⟩))⟩)
      · rintro (hz | hz | ⟨w, hw | hw⟩)
        · exact Or.inl (Or.inl hz)
        · exact absurd hz (hno z)
        · rcases hw with ⟨⟨ht, _⟩, _⟩ | ⟨_, ⟨hi, _⟩⟩ | ⟨_, hzx, hxw⟩
          · exact absurd ht (hno z)
          · exact absurd hi (hno w)
          · exact Or.inr (Or.inl ⟨(mdpes z).2 hzx, List.ne_nil_of_mem ((mdeps w).2 hxw)⟩)
        · rcases hw with ⟨⟨ht, _⟩, _⟩ | ⟨_, ⟨hi, _⟩⟩ | ⟨_, hwx, hxz⟩
          · exact absurd ht (hno w)
          · exact absurd hi (hno z)
          · exact Or.inr (Or.inr ⟨(mdeps z).2 hxz, List.ne_nil_of_mem ((mdpes w).2 hwx)⟩)
    · intro u w
      rw [e5 u w, e4 u w, e3 u w, e2 u w, e1 u w]
      subst hterm_none hinit_none
      simp only [List.not_mem_nil, false_and, and_false, or_false]
      unfold Added G.Terminal G.Initial
      constructor
      · rintro ((hz | hz) | ⟨hu, hw⟩)
        · exact Or.inl hz
        · exact Or.inr (Or.inl hz)
        · exact Or.inr (Or.inr (Or.inr (Or.inr ⟨hno, (mdpes u).1 hu, (mdeps w).1 hw⟩)))
      · rintro (hz | hz | hw)
        · exact Or.inl (Or.inl hz)
        · exact Or.inl (Or.inr hz)
        · rcases hw with ⟨⟨ht, _⟩, _⟩ | ⟨_, ⟨hi, _⟩⟩ | ⟨_, hux, hxw⟩
          · exact absurd ht (hno u)
          · exact absurd hi (hno w)
          · exact Or.inr ⟨(mdpes u).2 hux, (mdeps w).2 hxw⟩
  · have hsome : ¬ ∀ z, ¬ sub.Node z := fun hno => h0 (hempty.2 hno)
    refine ⟨g4, ?_, hi4, ?_, ?_⟩
    · unfold G.graft
      simp only [hdeps, hdpes, hdd, hpp, hg1, hinits, hterms, hg2, hg3, hg4, bind, Except.bind, h0, if_false]
      rfl
    · intro z
      rw [n4 z, n3 z, n2 z, n1 z]
      unfold Added G.Terminal G.Initial
      constructor
      · rintro (((hz | hz) | ⟨hz, hne⟩ | ⟨hz, hne⟩) | ⟨hz, hne⟩ | ⟨hz, hne⟩)
        · exact Or.inl hz
        · exact Or.inr (Or.inl hz)
        · exact Or.inr (Or.inl ((mterms z).1 hz).1)
        · obtain ⟨t, ht⟩ := List.exists_mem_of_ne_nil terms hne
          exact Or.inr (Or.inr ⟨t, Or.inr (Or.inl ⟨(mterms t).1 ht, (mdeps z).1 hz⟩)⟩)
        · obtain ⟨i, hi⟩ := List.exists_mem_of_ne_nil inits hne
          exact Or.inr (Or.inr ⟨i, Or.inl (Or.inr (Or.inl ⟨(mdpes z).1 hz, (minits i).1 hi⟩))⟩)
        · exact Or.inr (Or.inl ((minits z).1 hz).1)
      · rintro (hz | hz | ⟨w, hw | hw⟩)
        · exact Or.inl (Or.inl (Or.inl hz))
        · exact Or.inl (Or.inl (Or.inr hz))
        · rcases hw with ⟨ht, hxw⟩ | ⟨hzx, hi⟩ | ⟨hno, _, _⟩
          · exact Or.inl (Or.inr (Or.inl ⟨(mterms z).2 ht, List.ne_nil_of_mem ((mdeps w).2 hxw)⟩))
          · exact Or.inr (Or.inl ⟨(mdpes z).2 hzx, List.ne_nil_of_mem ((minits w).2 hi)⟩)
          · exact absurd hno hsome
        · rcases hw with ⟨ht, hxz⟩ | ⟨hwx, hi⟩ | ⟨hno, _, _⟩
          · exact Or.inl (Or.inr (Or.inr ⟨(mdeps z).2 hxz, List.ne_nil_of_mem ((mterms w).2 ht)⟩))
          · exact Or.inr (Or.inr ⟨(minits z).2 hi, List.ne_nil_of_mem ((mdpes w).2 hwx)⟩)
          · exact absurd hno hsome
    · intro u w
      rw [e4 u w, e3 u w, e2 u w, e1 u w]
      unfold Added G.Terminal G.Initial
      constructor
      · rintro (((hz | hz) | ⟨hu, hw⟩) | ⟨hu, hw⟩)
        · exact Or.inl hz
        · exact Or.inr (Or.inl hz)
        · exact Or.inr (Or.inr (Or.inl ⟨(mterms u).1 hu, (mdeps w).1 hw⟩))
        · exact Or.inr (Or.inr (Or.inr (Or.inl ⟨(mdpes u).1 hu, (minits w).1 hw⟩)))
      · rintro (hz | hz | hw)
        · exact Or.inl (Or.inl (Or.inl hz))
        · exact Or.inl (Or.inl (Or.inr hz))
        · rcases hw with ⟨ht, hxw⟩ | ⟨hux, hi⟩ | ⟨hno, _, _⟩
          · exact Or.inl (Or.inr ⟨(mterms u).2 ht, (mdeps w).2 hxw⟩)
          · exact Or.inr ⟨(mdpes u).2 hux, (minits w).2 hi⟩
          · exact absurd hno hsome

/-- without a self-dependency on the grafted node, the nodes are those of the two graphs minus the grafted one -/
theorem graft_nodes {g sub : G} (hg : GInv g) (hs : GInv sub) {x : Nat} (hx : g.Node x) (hxx : ¬ g.Edge x x)
    {g' : G} (hgr : g.graft x sub = .ok g') : ∀ z, g'.Node z ↔ (g.Node z ∧ z ≠ x) ∨ sub.Node z := by
  obtain ⟨g'', hg'', _, n, _⟩ := graft_refines hg hs hx
  rw [hgr] at hg''
  cases hg''
  intro z
  rw [n z]
  have hdep : ∀ w, g.Edge x w → g.Node w ∧ w ≠ x := fun w hw => ⟨(edge_nodes hw).2, fun e => hxx (e ▸ hw)⟩
  have hdpe : ∀ u, g.Edge u x → g.Node u ∧ u ≠ x := fun u hu => ⟨(edge_nodes hu).1, fun e => hxx (e ▸ hu)⟩
  constructor
  · rintro (hz | hz | ⟨w, hw | hw⟩)
    · exact Or.inl hz
    · exact Or.inr hz
    · rcases hw with ⟨ht, _⟩ | ⟨hzx, _⟩ | ⟨_, hzx, _⟩
      · exact Or.inr ht.1
      · exact Or.inl (hdpe z hzx.1)
      · exact Or.inl (hdpe z hzx.1)
    · rcases hw with ⟨_, hxz⟩ | ⟨_, hi⟩ | ⟨_, _, hxz⟩
      · exact Or.inl (hdep z hxz.1)
      · exact Or.inr hi.1
      · exact Or.inl (hdep z hxz.1)
  · rintro (hz | hz)
    · exact Or.inl hz
    · exact Or.inr (Or.inl hz)

end DG
