import Proofs.DepGraphInvert
/-! The queries `dependees`, `initial`, `terminal` read through the abstraction (C16). -/
set_option linter.unusedVariables false
namespace DG

/-! ### monadic list functions that never fail -/

theorem filterMapM_ok_of_forall {α β : Type} (f : α → Except Err (Option β)) (g : α → Option β) (l : List α)
    (h : ∀ a ∈ l, f a = .ok (g a)) : l.filterMapM f = .ok (l.filterMap g) := by
  induction l with
  | nil => rfl
  | cons a r ih =>
    rw [List.filterMapM_cons, h a (by simp), ih (fun b hb => h b (by simp [hb]))]
    cases hg : g a with
    | none => simp [List.filterMap_cons, hg, bind, Except.bind]
    | some b => simp [List.filterMap_cons, hg, bind, Except.bind, pure, Except.pure]

theorem filterAuxM_ok_of_forall {α : Type} (p : α → Except Err Bool) (q : α → Bool) (l : List α) (acc : List α)
    (h : ∀ a ∈ l, p a = .ok (q a)) : List.filterAuxM p l acc = .ok ((l.filter q).reverse ++ acc) := by
  induction l generalizing acc with
  | nil => rfl
  | cons a r ih =>
    rw [List.filterAuxM, h a (by simp)]
    simp only [bind, Except.bind]
    rw [ih _ (fun b hb => h b (by simp [hb]))]
    cases hq : q a <;> simp [List.filter_cons, hq]

theorem filterM_ok_of_forall {α : Type} (p : α → Except Err Bool) (q : α → Bool) (l : List α)
    (h : ∀ a ∈ l, p a = .ok (q a)) : l.filterM p = .ok (l.filter q) := by
  unfold List.filterM
  rw [filterAuxM_ok_of_forall p q l [] h]
  simp [bind, Except.bind, pure, Except.pure]

/-! ### ordered sets -/

theorem mem_sunion (s t : List Nat) (z : Nat) : z ∈ sunion s t ↔ z ∈ s ∨ z ∈ t := by
  unfold sunion
  induction t generalizing s with
  | nil => simp
  | cons x r ih =>
    rw [List.foldl_cons, ih, mem_sadd]
    simp only [List.mem_cons]
    constructor
    · rintro ((h | h) | h)
      · exact Or.inl h
      · exact Or.inr (Or.inl h)
      · exact Or.inr (Or.inr h)
    · rintro (h | h | h)
      · exact Or.inl (Or.inl h)
      · exact Or.inl (Or.inr h)
      · exact Or.inr h

/-! ### `dependencies` -/

theorem mapM_nodeAt (g : G) (s : List Nat) (hs : ∀ b ∈ s, b < g.size) :
    s.mapM (nodeAt g) = .ok (s.map fun b => g.nodes.seq.getD b 0) := by
  induction s with
  | nil => rfl
  | cons b t ih =>
    have hb : b < g.nodes.seq.length := hs b (by simp)
    have ht := ih (fun c hc => hs c (by simp [hc]))
    simp [List.mapM_cons, ht, nodeAt, hb, bind, Except.bind, pure, Except.pure]

/-- `dependencies(x)` returns exactly the nodes `y` with an edge `x → y`, and raises `ValueError` exactly
when `x` is not a node -/
theorem dependencies_ok {g : G} (h : GInv g) (x : Nat) :
    (¬ g.Node x → g.dependencies x = .error .valueError) ∧
    (g.Node x → ∃ l, g.dependencies x = .ok l ∧ ∀ y, y ∈ l ↔ g.Edge x y) := by
  constructor
  · intro hx; simp [G.dependencies, h.indexOf_absent hx, bind, Except.bind]
  · intro hx
    obtain ⟨i, hi, hix⟩ := h.indexOf_spec hx
    obtain ⟨s, hs, hgs⟩ := h.edgesAt_ok (lt_of_getElem?_some hix)
    have hm := mapM_nodeAt g s (h.erange i s hgs)
    refine ⟨s.map fun b => g.nodes.seq[b]?.getD 0, by simp [G.dependencies, hi, hs, hm, bind, Except.bind], ?_⟩
    intro y
    simp only [List.mem_map]
    constructor
    · rintro ⟨b, hb, rfl⟩
      have hlt : b < g.nodes.seq.length := h.erange i s hgs b hb
      exact ⟨i, b, s, hix, by simp [hlt], hgs, hb⟩
    · rintro ⟨a, b, s', ha, hb, hs', hbs⟩
      have := h.pos_unique ha hix; subst this
      rw [hgs] at hs'; injection hs' with hs'; subst hs'
      refine ⟨b, hbs, ?_⟩
      have hlt := lt_of_getElem?_some hb
      simp [hb]

/-! ### `dependees` -/

theorem node_at {g : G} {i : Nat} (hi : i < g.size) : g.nodes.seq[i]? = some (g.nodes.seq.getD i 0) := by
  have : i < g.nodes.seq.length := hi
  simp [List.getD, List.getElem?_eq_getElem this]

/-- `dependees(x)` returns exactly the nodes `y` with an edge `y → x` -/
theorem dependees_spec {g : G} (h : GInv g) (x : Nat) :
    (¬ g.Node x → g.dependees x = .error .valueError) ∧
    (g.Node x → ∃ l, g.dependees x = .ok l ∧ ∀ y, y ∈ l ↔ g.Edge y x) := by
  constructor
  · intro hx; simp [G.dependees, h.indexOf_absent hx, bind, Except.bind]
  · intro hx
    obtain ⟨i, hi, hix⟩ := h.indexOf_spec hx
    let sel : Nat → Option Nat := fun n => if i ∈ (g.edges.get n).getD [] then some n else none
    have hfm : (List.range g.size).filterMapM (fun n => do
        let s ← g.edgesAt n
        pure (if i ∈ s then some n else none)) = .ok ((List.range g.size).filterMap sel) := by
      apply filterMapM_ok_of_forall
      intro n hn
      obtain ⟨s, hs, hgs⟩ := h.edgesAt_ok (List.mem_range.1 hn)
      simp [hs, sel, hgs, bind, Except.bind, pure, Except.pure]
    have hidx : ∀ n ∈ (List.range g.size).filterMap sel, n < g.size := by
      intro n hn
      obtain ⟨m, hm, hsel⟩ := List.mem_filterMap.1 hn
      simp only [sel] at hsel
      split at hsel
      · cases hsel; exact List.mem_range.1 hm
      · cases hsel
    have hm := mapM_ok_of_forall (nodeAt g) (fun b => g.nodes.seq.getD b 0) _ (fun b hb => by
      unfold nodeAt; rw [node_at (hidx b hb)])
    have hrun : g.dependees x = .ok (((List.range g.size).filterMap sel).map fun b => g.nodes.seq.getD b 0) := by
      have hunf : g.dependees x = (g.nodes.indexOf x >>= fun i =>
        (List.range g.size).filterMapM (fun n => do
          let s ← g.edgesAt n
          pure (if i ∈ s then some n else none)) >>= fun idx => idx.mapM (nodeAt g)) := rfl
      rw [hunf, hi]
      show ((List.range g.size).filterMapM (fun n => do
          let s ← g.edgesAt n
          pure (if i ∈ s then some n else none)) >>= fun idx => idx.mapM (nodeAt g)) = _
      rw [hfm]
      exact hm
    refine ⟨_, hrun, ?_⟩
    intro y
    simp only [List.mem_map, List.mem_filterMap, List.mem_range]
    constructor
    · rintro ⟨b, ⟨n, hn, hsel⟩, rfl⟩
      simp only [sel] at hsel
      split at hsel
      · rename_i hin
        have hnb : n = b := Option.some.inj hsel
        subst hnb
        cases hg : g.edges.get n with
        | none => rw [hg] at hin; simp at hin
        | some s =>
          rw [hg] at hin
          exact ⟨n, i, s, node_at hn, hix, hg, hin⟩
      · cases hsel
    · rintro ⟨a, b, s, ha, hb, hs, hbs⟩
      have := h.pos_unique hb hix; subst this
      have ha' := lt_of_getElem?_some ha
      refine ⟨a, ⟨a, ha', by simp [sel, hs, hbs]⟩, ?_⟩
      have := node_at (g := g) ha'
      rw [ha] at this
      exact (Option.some.inj this).symm

/-! ### `initial` and `terminal` -/

theorem targets_spec (l : AL) (acc : List Nat) (z : Nat) :
    z ∈ l.foldl (fun acc (p : Nat × List Nat) => sunion acc p.2) acc ↔ z ∈ acc ∨ ∃ p ∈ l, z ∈ p.2 := by
  induction l generalizing acc with
  | nil => simp
  | cons p r ih =>
    rw [List.foldl_cons, ih, mem_sunion]
    constructor
    · rintro ((h | h) | ⟨q, hq, h⟩)
      · exact Or.inl h
      · exact Or.inr ⟨p, by simp, h⟩
      · exact Or.inr ⟨q, by simp [hq], h⟩
    · rintro (h | ⟨q, hq, h⟩)
      · exact Or.inl (Or.inl h)
      · rcases List.mem_cons.1 hq with e | hq
        · subst e; exact Or.inl (Or.inr h)
        · exact Or.inr ⟨q, hq, h⟩

/-- `initial()` returns exactly the nodes nobody depends on -/
theorem initial_spec {g : G} (h : GInv g) :
    ∃ l, g.initial = .ok l ∧ ∀ y, y ∈ l ↔ g.Node y ∧ ¬ ∃ u, g.Edge u y := by
  have htg : ∀ z, z ∈ g.edges.foldl (fun acc (p : Nat × List Nat) => sunion acc p.2) [] ↔
      ∃ a s, g.edges.get a = some s ∧ z ∈ s := by
    intro z
    rw [targets_spec]
    constructor
    · rintro (hh | ⟨p, hp, hz⟩)
      · cases hh
      · exact ⟨p.1, p.2, AL.get_of_mem g.edges h.ekeys p.1 p.2 hp, hz⟩
    · rintro ⟨a, s, hs, hz⟩
      exact Or.inr ⟨(a, s), AL.mem_of_get _ _ _ hs, hz⟩
  have hunf : g.initial = ((List.range g.size).filter
      (· ∉ g.edges.foldl (fun acc (p : Nat × List Nat) => sunion acc p.2) [])).mapM (nodeAt g) := rfl
  have hm := mapM_ok_of_forall (nodeAt g) (fun b => g.nodes.seq.getD b 0)
    ((List.range g.size).filter (· ∉ g.edges.foldl (fun acc (p : Nat × List Nat) => sunion acc p.2) []))
    (fun b hb => by
      unfold nodeAt
      rw [node_at (List.mem_range.1 (List.mem_filter.1 hb).1)])
  refine ⟨_, by rw [hunf]; exact hm, ?_⟩
  intro y
  simp only [List.mem_map, List.mem_filter, List.mem_range, decide_eq_true_eq]
  constructor
  · rintro ⟨b, ⟨hb, hnot⟩, rfl⟩
    refine ⟨List.mem_of_getElem? (node_at hb), ?_⟩
    rintro ⟨u, a, b', s, ha, hb', hs, hbs⟩
    have := h.pos_unique hb' (node_at hb); subst this
    exact hnot ((htg _).2 ⟨a, s, hs, hbs⟩)
  · rintro ⟨hy, hno⟩
    obtain ⟨b, hb, e⟩ := List.getElem_of_mem hy
    have hb' : b < g.size := hb
    refine ⟨b, ⟨hb', ?_⟩, ?_⟩
    · intro hin
      obtain ⟨a, s, hs, hbs⟩ := (htg b).1 hin
      have ha : a < g.size := (h.edom a).1 (by rw [hs]; rfl)
      exact hno ⟨g.nodes.seq.getD a 0, a, b, s, node_at ha, by rw [List.getElem?_eq_getElem hb, e], hs, hbs⟩
    · have := node_at (g := g) hb'
      rw [List.getElem?_eq_getElem hb, e] at this
      exact (Option.some.inj this).symm

/-- `terminal()` returns exactly the nodes that depend on nothing -/
theorem terminal_spec {g : G} (h : GInv g) :
    ∃ l, g.terminal = .ok l ∧ ∀ y, y ∈ l ↔ g.Node y ∧ ¬ ∃ w, g.Edge y w := by
  classical
  let q : Nat → Bool := fun x => decide (¬ ∃ w, g.Edge x w)
  have hf : g.nodes.seq.filterM (fun x => do
      let d ← g.dependencies x
      pure d.isEmpty) = .ok (g.nodes.seq.filter q) := by
    apply filterM_ok_of_forall
    intro x hx
    obtain ⟨l, hl, hmem⟩ := (dependencies_ok h x).2 hx
    rw [hl]
    simp only [bind, Except.bind, pure, Except.pure]
    congr 1
    simp only [q]
    cases l with
    | nil =>
      have : ¬ ∃ w, g.Edge x w := by rintro ⟨w, hw⟩; exact absurd ((hmem w).2 hw) (by simp)
      simp [this]
    | cons a r =>
      have : ∃ w, g.Edge x w := ⟨a, (hmem a).1 (by simp)⟩
      simp [this]
  refine ⟨_, hf, ?_⟩
  intro y
  simp [q, G.Node]

end DG

namespace DG

theorem all_mapM_ok {α : Type} (f : α → Except Err Bool) (q : α → Bool) (l : List α)
    (h : ∀ a ∈ l, f a = .ok (q a)) : l.mapM f = .ok (l.map q) :=
  mapM_ok_of_forall f q l h

theorem edge_nodes_q {g : G} {u w : Nat} (h : g.Edge u w) : u ∈ g.nodes.seq := by
  obtain ⟨a, b, s, ha, _, _, _⟩ := h
  exact List.mem_of_getElem? ha

/-- `g <= h`: every node of `g` is a node of `h` and every edge of `g` is an edge of `h` -/
theorem le_spec {g h : G} (hg : GInv g) (hh : GInv h) :
    ∃ b, g.le h = .ok b ∧ (b = true ↔ (∀ z, g.Node z → h.Node z) ∧ ∀ u w, g.Edge u w → h.Edge u w) := by
  classical
  by_cases hnodes : g.nodes.seq.all h.contains = true
  · have hsub : ∀ z, g.Node z → h.Node z := by
      intro z hz
      have := List.all_eq_true.1 hnodes z hz
      exact (hh.contains_iff z).1 this
    let q : Nat → Bool := fun x => decide (∀ w, g.Edge x w → h.Edge x w)
    have hm : g.nodes.seq.mapM (fun x => do
        let dg ← g.dependencies x
        let dh ← h.dependencies x
        pure (dg.all (· ∈ dh))) = .ok (g.nodes.seq.map q) := by
      apply mapM_ok_of_forall
      intro x hx
      obtain ⟨lg, hlg, mg⟩ := (dependencies_ok hg x).2 hx
      obtain ⟨lh, hlh, mh⟩ := (dependencies_ok hh x).2 (hsub x hx)
      rw [hlg, hlh]
      simp only [bind, Except.bind, pure, Except.pure]
      congr 1
      simp only [q]
      rw [Bool.eq_iff_iff, List.all_eq_true, decide_eq_true_eq]
      constructor
      · intro hall w hw
        have := hall w ((mg w).2 hw)
        exact (mh w).1 (by simpa using this)
      · intro hall w hw
        simpa using (mh w).2 (hall w ((mg w).1 hw))
    refine ⟨(g.nodes.seq.map q).all id, ?_, ?_⟩
    · unfold G.le
      simp only [bind, Except.bind, pure, Except.pure] at hm
      simp only [hnodes, Bool.not_true, Bool.false_eq_true, if_false, bind, Except.bind, pure, Except.pure]
      rw [hm]
    · rw [List.all_eq_true]
      constructor
      · intro hall
        refine ⟨hsub, ?_⟩
        intro u w huw
        have hu : u ∈ g.nodes.seq := (edge_nodes_q huw)
        have := hall (q u) (List.mem_map.2 ⟨u, hu, rfl⟩)
        simp only [id, q, decide_eq_true_eq] at this
        exact this w huw
      · rintro ⟨_, he⟩ b hb
        obtain ⟨x, _, rfl⟩ := List.mem_map.1 hb
        simp only [id, q, decide_eq_true_eq]
        exact fun w hw => he x w hw
  · refine ⟨false, ?_, ?_⟩
    · unfold G.le
      have : g.nodes.seq.all h.contains = false := by simpa using hnodes
      simp [this, pure, Except.pure, bind, Except.bind]
    · constructor
      · intro hf; cases hf
      · rintro ⟨hn, _⟩
        exfalso
        apply hnodes
        rw [List.all_eq_true]
        intro z hz
        exact (hh.contains_iff z).2 (hn z hz)

end DG
