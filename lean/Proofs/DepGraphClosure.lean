import Proofs.DepGraphTopoComplete
import Proofs.DepGraphQueries
/-! `transitive_closure` and `transitive_reduction` on acyclic graphs (C16): the recursive visits compute reachability,
the in-place loops over the nodes give, position by position, exactly the reachable positions (closure) and exactly the
edges that no longer path doubles (reduction). -/
set_option linter.unusedVariables false
namespace DG
open Relation

/-- a rank that decreases along the edges (exists on acyclic graphs: position in a topological order) -/
structure Ranked (g : G) (rk : Nat → Nat) : Prop where
  dec : ∀ p q, PEdge g p q → rk q < rk p
  bound : ∀ p, p < g.size → rk p < g.size

theorem Ranked.trans {g : G} {rk : Nat → Nat} (h : Ranked g rk) {p q : Nat} (hpq : TransGen (PEdge g) p q) :
    rk q < rk p := by
  induction hpq with
  | single e => exact h.dec _ _ e
  | tail _ e ih => exact Nat.lt_trans (h.dec _ _ e) ih

theorem pedge_lt {g : G} (hg : GInv g) {p q : Nat} (h : PEdge g p q) : p < g.size ∧ q < g.size := by
  unfold PEdge edgesP at h
  cases he : g.edges.get p with
  | none => rw [he] at h; cases h
  | some s =>
    rw [he] at h
    exact ⟨(hg.edom p).1 (by rw [he]; rfl), hg.erange p s he q h⟩

theorem transGen_lt {g : G} (hg : GInv g) {p q : Nat} (h : TransGen (PEdge g) p q) : p < g.size ∧ q < g.size := by
  induction h with
  | single e => exact pedge_lt hg e
  | tail _ e ih => exact ⟨ih.1, (pedge_lt hg e).2⟩

theorem edgesAt_eq {g : G} (hg : GInv g) {p : Nat} (hp : p < g.size) : g.edgesAt p = .ok (edgesP g p) := by
  obtain ⟨s, hs, hgs⟩ := hg.edgesAt_ok hp
  rw [hs]; unfold edgesP; rw [hgs]; rfl

/-- acyclic graphs are ranked -/
theorem exists_rank {g : G} (hg : GInv g) (hac : ¬ g.Cyclic) : ∃ rk, Ranked g rk := by
  have hf := fold_total g hg (List.range g.size) (fun p hp => List.mem_range.1 hp) ⟨[], []⟩
    ⟨List.nodup_nil, fun p => (by simp [TopoSt.mark]), fun p hp _ _ => (by cases hp), fun p hp => (by cases hp)⟩
    (fun q => by simp [TopoSt.mark])
  rcases hf with ⟨st, h⟩ | ⟨_, q, hq⟩
  · have hps : g.topoPositions = .ok st.result := by unfold G.topoPositions; rw [h]; rfl
    obtain ⟨hnd, hmem, hbef⟩ := topoPositions_sound hg hps
    have hlen : st.result.length = g.size := by
      have hperm : st.result.Perm (List.range g.size) := by
        rw [List.perm_ext_iff_of_nodup hnd List.nodup_range]
        intro a; rw [hmem a, List.mem_range]
      rw [hperm.length_eq, List.length_range]
    refine ⟨fun p => st.result.idxOf p, ?_, ?_⟩
    · intro p q hpq
      have hp := (pedge_lt hg hpq).1
      exact before_idx hnd (hbef p ((hmem p).2 hp) q hpq)
    · intro p hp
      rw [← hlen]
      exact List.idxOf_lt_length_of_mem ((hmem p).2 hp)
  · exfalso
    obtain ⟨x, y, hx, hy, hxy⟩ := pcycle_cycle hg hq
    rw [hx] at hy; cases hy
    exact hac ⟨x, hxy⟩

/-! ### the visits -/

theorem cloVisit_spec (g : G) (hg : GInv g) (rk : Nat → Nat) (hr : Ranked g rk) (start : List Nat) (fuel : Nat) :
    (∀ cur, cur < g.size → rk cur < fuel →
      ∃ l, cloVisit g start fuel cur = .ok l ∧ ∀ x, x ∈ l ↔ x ∉ start ∧ TransGen (PEdge g) cur x) ∧
    (∀ ds acc, (∀ d ∈ ds, d < g.size ∧ rk d < fuel) →
      ∃ l, cloVisitList g start fuel ds acc = .ok l ∧
        ∀ x, x ∈ l ↔ x ∈ acc ∨ (x ∉ start ∧ ∃ d ∈ ds, x = d ∨ TransGen (PEdge g) d x)) := by
  induction fuel with
  | zero =>
    constructor
    · intro cur _ h; omega
    · intro ds acc h
      cases ds with
      | nil => exact ⟨acc, by simp [cloVisitList], fun x => by simp⟩
      | cons d ds => have := (h d (by simp)).2; omega
  | succ fuel ih =>
    obtain ⟨_, ihl⟩ := ih
    have hvisit : ∀ cur, cur < g.size → rk cur < fuel + 1 →
        ∃ l, cloVisit g start (fuel + 1) cur = .ok l ∧ ∀ x, x ∈ l ↔ x ∉ start ∧ TransGen (PEdge g) cur x := by
      intro cur hcur hrk
      have hds : ∀ d ∈ edgesP g cur, d < g.size ∧ rk d < fuel := by
        intro d hd
        have := hr.dec cur d hd
        exact ⟨(pedge_lt hg hd).2, by omega⟩
      obtain ⟨l, hl, hmem⟩ := ihl (edgesP g cur) [] hds
      refine ⟨l, ?_, ?_⟩
      · rw [cloVisit, edgesAt_eq hg hcur]
        exact hl
      · intro x
        rw [hmem x]
        simp only [List.not_mem_nil, false_or]
        constructor
        · rintro ⟨hx, d, hd, rfl | hdx⟩
          · exact ⟨hx, TransGen.single hd⟩
          · exact ⟨hx, TransGen.head hd hdx⟩
        · rintro ⟨hx, hp⟩
          rcases TransGen.head'_iff.1 hp with ⟨d, hd, hdx⟩
          refine ⟨hx, d, hd, ?_⟩
          rcases ReflTransGen.cases_head hdx with e | ⟨c, hc, hcx⟩
          · exact Or.inl e.symm
          · exact Or.inr (TransGen.head' hc hcx)
    refine ⟨hvisit, ?_⟩
    intro ds
    induction ds with
    | nil => intro acc _; exact ⟨acc, by simp [cloVisitList], fun x => by simp⟩
    | cons d ds ihd =>
      intro acc h
      obtain ⟨hdlt, hdrk⟩ := h d (by simp)
      obtain ⟨sub, hsub, msub⟩ := hvisit d hdlt hdrk
      obtain ⟨l, hl, hmem⟩ := ihd (sunion (if d ∈ start then acc else sadd acc d) sub)
        (fun e he => h e (by simp [he]))
      refine ⟨l, ?_, ?_⟩
      · rw [cloVisitList]
        simp only [bind, Except.bind, hsub]
        exact hl
      · intro x
        rw [hmem x, mem_sunion, msub x]
        by_cases hds : d ∈ start
        · simp only [if_pos hds, List.mem_cons]
          constructor
          · rintro ((hx | ⟨hx, hp⟩) | ⟨hx, e, he, hxe⟩)
            · exact Or.inl hx
            · exact Or.inr ⟨hx, d, Or.inl rfl, Or.inr hp⟩
            · exact Or.inr ⟨hx, e, Or.inr he, hxe⟩
          · rintro (hx | ⟨hx, e, rfl | he, hxe⟩)
            · exact Or.inl (Or.inl hx)
            · rcases hxe with rfl | hp
              · exact absurd hds hx
              · exact Or.inl (Or.inr ⟨hx, hp⟩)
            · exact Or.inr ⟨hx, e, he, hxe⟩
        · simp only [if_neg hds, mem_sadd, List.mem_cons]
          constructor
          · rintro (((hx | rfl) | ⟨hx, hp⟩) | ⟨hx, e, he, hxe⟩)
            · exact Or.inl hx
            · exact Or.inr ⟨hds, x, Or.inl rfl, Or.inl rfl⟩
            · exact Or.inr ⟨hx, d, Or.inl rfl, Or.inr hp⟩
            · exact Or.inr ⟨hx, e, Or.inr he, hxe⟩
          · rintro (hx | ⟨hx, e, rfl | he, hxe⟩)
            · exact Or.inl (Or.inl (Or.inl hx))
            · rcases hxe with rfl | hp
              · exact Or.inl (Or.inl (Or.inr rfl))
              · exact Or.inl (Or.inr ⟨hx, hp⟩)
            · exact Or.inr ⟨hx, e, he, hxe⟩

theorem redVisit_spec (g : G) (hg : GInv g) (rk : Nat → Nat) (hr : Ranked g rk) (start : List Nat) (fuel : Nat) :
    (∀ cur, cur < g.size → rk cur < fuel →
      ∃ l, redVisit g start fuel cur = .ok l ∧ ∀ x, x ∈ l ↔ x ∈ start ∧ TransGen (PEdge g) cur x) ∧
    (∀ ds acc, (∀ d ∈ ds, d < g.size ∧ rk d < fuel) →
      ∃ l, redVisitList g start fuel ds acc = .ok l ∧
        ∀ x, x ∈ l ↔ x ∈ acc ∨ (x ∈ start ∧ ∃ d ∈ ds, x = d ∨ TransGen (PEdge g) d x)) := by
  induction fuel with
  | zero =>
    constructor
    · intro cur _ h; omega
    · intro ds acc h
      cases ds with
      | nil => exact ⟨acc, by simp [redVisitList], fun x => by simp⟩
      | cons d ds => have := (h d (by simp)).2; omega
  | succ fuel ih =>
    obtain ⟨_, ihl⟩ := ih
    have hvisit : ∀ cur, cur < g.size → rk cur < fuel + 1 →
        ∃ l, redVisit g start (fuel + 1) cur = .ok l ∧ ∀ x, x ∈ l ↔ x ∈ start ∧ TransGen (PEdge g) cur x := by
      intro cur hcur hrk
      have hds : ∀ d ∈ edgesP g cur, d < g.size ∧ rk d < fuel := by
        intro d hd
        have := hr.dec cur d hd
        exact ⟨(pedge_lt hg hd).2, by omega⟩
      obtain ⟨l, hl, hmem⟩ := ihl (edgesP g cur) [] hds
      refine ⟨l, ?_, ?_⟩
      · rw [redVisit, edgesAt_eq hg hcur]
        exact hl
      · intro x
        rw [hmem x]
        simp only [List.not_mem_nil, false_or]
        constructor
        · rintro ⟨hx, d, hd, rfl | hdx⟩
          · exact ⟨hx, TransGen.single hd⟩
          · exact ⟨hx, TransGen.head hd hdx⟩
        · rintro ⟨hx, hp⟩
          rcases TransGen.head'_iff.1 hp with ⟨d, hd, hdx⟩
          refine ⟨hx, d, hd, ?_⟩
          rcases ReflTransGen.cases_head hdx with e | ⟨c, hc, hcx⟩
          · exact Or.inl e.symm
          · exact Or.inr (TransGen.head' hc hcx)
    refine ⟨hvisit, ?_⟩
    intro ds
    induction ds with
    | nil => intro acc _; exact ⟨acc, by simp [redVisitList], fun x => by simp⟩
    | cons d ds ihd =>
      intro acc h
      obtain ⟨hdlt, hdrk⟩ := h d (by simp)
      obtain ⟨sub, hsub, msub⟩ := hvisit d hdlt hdrk
      obtain ⟨l, hl, hmem⟩ := ihd (sunion (if d ∈ start then sadd acc d else acc) sub)
        (fun e he => h e (by simp [he]))
      refine ⟨l, ?_, ?_⟩
      · rw [redVisitList]
        simp only [bind, Except.bind, hsub]
        exact hl
      · intro x
        rw [hmem x, mem_sunion, msub x]
        by_cases hds : d ∈ start
        · simp only [if_pos hds, mem_sadd, List.mem_cons]
          constructor
          · rintro (((hx | rfl) | ⟨hx, hp⟩) | ⟨hx, e, he, hxe⟩)
            · exact Or.inl hx
            · exact Or.inr ⟨hds, x, Or.inl rfl, Or.inl rfl⟩
            · exact Or.inr ⟨hx, d, Or.inl rfl, Or.inr hp⟩
            · exact Or.inr ⟨hx, e, Or.inr he, hxe⟩
          · rintro (hx | ⟨hx, e, rfl | he, hxe⟩)
            · exact Or.inl (Or.inl (Or.inl hx))
            · rcases hxe with rfl | hp
              · exact Or.inl (Or.inl (Or.inr rfl))
              · exact Or.inl (Or.inr ⟨hx, hp⟩)
            · exact Or.inr ⟨hx, e, he, hxe⟩
        · simp only [if_neg hds, List.mem_cons]
          constructor
          · rintro ((hx | ⟨hx, hp⟩) | ⟨hx, e, he, hxe⟩)
            · exact Or.inl hx
            · exact Or.inr ⟨hx, d, Or.inl rfl, Or.inr hp⟩
            · exact Or.inr ⟨hx, e, Or.inr he, hxe⟩
          · rintro (hx | ⟨hx, e, rfl | he, hxe⟩)
            · exact Or.inl (Or.inl hx)
            · rcases hxe with rfl | hp
              · exact absurd hx hds
              · exact Or.inl (Or.inr ⟨hx, hp⟩)
            · exact Or.inr ⟨hx, e, he, hxe⟩

/-! ### replacing the edges of one position -/

def gset (g : G) (i : Nat) (t : List Nat) : G := { g with edges := g.edges.set i t }

theorem edgesP_gset (g : G) (i : Nat) (t : List Nat) (a : Nat) :
    edgesP (gset g i t) a = if a = i then t else edgesP g a := by
  unfold edgesP gset
  simp only [AL.get_set]
  split <;> rfl

theorem pedge_gset (g : G) (i : Nat) (t : List Nat) (a b : Nat) :
    PEdge (gset g i t) a b ↔ if a = i then b ∈ t else PEdge g a b := by
  unfold PEdge
  rw [edgesP_gset]
  split <;> rfl

theorem ginv_gset {g : G} (hg : GInv g) {i : Nat} (hi : i < g.size) (t : List Nat) (ht : ∀ b ∈ t, b < g.size) :
    GInv (gset g i t) :=
  (setEdges_refines hg t (node_at hi) ht).1

theorem transGen_sub {r s : Nat → Nat → Prop} (h : ∀ a b, r a b → TransGen s a b) {a b : Nat}
    (hab : TransGen r a b) : TransGen s a b := by
  induction hab with
  | single e => exact h _ _ e
  | tail _ e ih => exact TransGen.trans ih (h _ _ e)

/-! ### closure -/

def cloStep (g : G) (i : Nat) : Except Err G := do
  let start ← g.edgesAt i
  let add ← start.foldlM (fun acc j => do
    let r ← cloVisit g start (g.size + 1) j
    pure (sunion acc r)) []
  pure { g with edges := g.edges.set i (sunion start add) }

theorem closure_eq (g : G) : g.transitiveClosure = (List.range g.size).foldlM cloStep g := rfl

theorem cloInner_spec {g : G} (hg : GInv g) {rk : Nat → Nat} (hr : Ranked g rk) (start : List Nat) :
    ∀ (js acc : List Nat), (∀ j ∈ js, j < g.size) →
      ∃ l, js.foldlM (fun acc j => do
          let r ← cloVisit g start (g.size + 1) j
          pure (sunion acc r)) acc = .ok l ∧
        ∀ x, x ∈ l ↔ x ∈ acc ∨ ∃ j ∈ js, x ∉ start ∧ TransGen (PEdge g) j x := by
  intro js
  induction js with
  | nil => intro acc _; exact ⟨acc, rfl, fun x => by simp⟩
  | cons j rest ih =>
    intro acc h
    have hj := h j (by simp)
    obtain ⟨r, hrv, mr⟩ := (cloVisit_spec g hg rk hr start (g.size + 1)).1 j hj (by have := hr.bound j hj; omega)
    obtain ⟨l, hl, ml⟩ := ih (sunion acc r) (fun k hk => h k (by simp [hk]))
    refine ⟨l, ?_, ?_⟩
    · rw [List.foldlM_cons]
      simp only [bind, Except.bind, hrv, pure, Except.pure]
      exact hl
    · intro x
      rw [ml x, mem_sunion, mr x]
      simp only [List.mem_cons]
      constructor
      · rintro ((hx | ⟨hx, hp⟩) | ⟨k, hk, hx⟩)
        · exact Or.inl hx
        · exact Or.inr ⟨j, Or.inl rfl, hx, hp⟩
        · exact Or.inr ⟨k, Or.inr hk, hx⟩
      · rintro (hx | ⟨k, rfl | hk, hx⟩)
        · exact Or.inl (Or.inl hx)
        · exact Or.inl (Or.inr hx)
        · exact Or.inr ⟨k, hk, hx⟩

theorem cloStep_spec {g : G} (hg : GInv g) {rk : Nat → Nat} (hr : Ranked g rk) {i : Nat} (hi : i < g.size) :
    ∃ t, cloStep g i = .ok (gset g i t) ∧ ∀ x, x ∈ t ↔ TransGen (PEdge g) i x := by
  have hstart : ∀ j ∈ edgesP g i, j < g.size := fun j hj => (pedge_lt hg hj).2
  obtain ⟨add, hadd, madd⟩ := cloInner_spec hg hr (edgesP g i) (edgesP g i) [] hstart
  refine ⟨sunion (edgesP g i) add, ?_, ?_⟩
  · unfold cloStep
    rw [edgesAt_eq hg hi]
    show ((edgesP g i).foldlM (fun acc j => do
        let r ← cloVisit g (edgesP g i) (g.size + 1) j
        pure (sunion acc r)) [] >>= fun add => pure (gset g i (sunion (edgesP g i) add))) = _
    rw [hadd]
    rfl
  · intro x
    rw [mem_sunion, madd x]
    simp only [List.not_mem_nil, false_or]
    constructor
    · rintro (hx | ⟨j, hj, _, hp⟩)
      · exact TransGen.single hx
      · exact TransGen.head hj hp
    · intro hp
      rcases TransGen.head'_iff.1 hp with ⟨j, hj, hjx⟩
      by_cases hxs : x ∈ edgesP g i
      · exact Or.inl hxs
      · rcases ReflTransGen.cases_head hjx with e | ⟨c, hc, hcx⟩
        · subst e; exact absurd hj hxs
        · exact Or.inr ⟨j, hj, hxs, TransGen.head' hc hcx⟩

structure CInv (g0 g : G) : Prop where
  ginv : GInv g
  nodes : g.nodes = g0.nodes
  sup : ∀ a b, PEdge g0 a b → PEdge g a b
  sub : ∀ a b, PEdge g a b → TransGen (PEdge g0) a b

theorem CInv.size {g0 g : G} (h : CInv g0 g) : g.size = g0.size := by unfold G.size; rw [h.nodes]

theorem CInv.reach {g0 g : G} (h : CInv g0 g) (a b : Nat) :
    TransGen (PEdge g) a b ↔ TransGen (PEdge g0) a b :=
  ⟨transGen_sub h.sub, transGen_sub (fun a b e => TransGen.single (h.sup a b e))⟩

theorem closure_fold {g0 : G} {rk : Nat → Nat} (hr : Ranked g0 rk) :
    ∀ (l : List Nat) (g : G), (∀ a ∈ l, a < g0.size) → CInv g0 g →
      ∃ g', l.foldlM cloStep g = .ok g' ∧ CInv g0 g' ∧
        ∀ a, (a ∈ l ∨ ∀ b, PEdge g a b ↔ TransGen (PEdge g0) a b) → ∀ b, PEdge g' a b ↔ TransGen (PEdge g0) a b := by
  intro l
  induction l with
  | nil => intro g _ hc; exact ⟨g, rfl, hc, fun a h => by rcases h with h | h; cases h; exact h⟩
  | cons i rest ih =>
    intro g hl hc
    have hi : i < g.size := by rw [hc.size]; exact hl i (by simp)
    have hrg : Ranked g rk := ⟨fun p q e => hr.trans (hc.sub p q e), fun p hp => by rw [hc.size] at hp ⊢; exact hr.bound p hp⟩
    obtain ⟨t, hstep, mt⟩ := cloStep_spec hc.ginv hrg hi
    have ht : ∀ b ∈ t, b < g.size := fun b hb => (transGen_lt hc.ginv ((mt b).1 hb)).2
    have hc' : CInv g0 (gset g i t) := by
      refine ⟨ginv_gset hc.ginv hi t ht, hc.nodes, ?_, ?_⟩
      · intro a b e
        rw [pedge_gset]
        split
        · rename_i e'; subst e'; exact (mt b).2 (TransGen.single (hc.sup _ _ e))
        · exact hc.sup a b e
      · intro a b e
        rw [pedge_gset] at e
        split at e
        · rename_i e'; subst e'; exact (hc.reach _ _).1 ((mt b).1 e)
        · exact hc.sub a b e
    obtain ⟨g', hg', hcg', hdone⟩ := ih (gset g i t) (fun a ha => hl a (by simp [ha])) hc'
    refine ⟨g', ?_, hcg', ?_⟩
    · rw [List.foldlM_cons, hstep]; exact hg'
    · intro a ha
      apply hdone a
      by_cases hai : a = i
      · right
        subst hai
        intro b
        rw [pedge_gset, if_pos rfl, mt b, hc.reach]
      · rcases ha with ha | ha
        · rcases List.mem_cons.1 ha with e | ha
          · exact absurd e hai
          · exact Or.inl ha
        · right
          intro b
          rw [pedge_gset, if_neg hai]
          exact ha b

/-- **closure, on positions**: same nodes, an edge exactly where there was a path -/
theorem closure_positions {g : G} (hg : GInv g) (hac : ¬ g.Cyclic) :
    ∃ g', g.transitiveClosure = .ok g' ∧ GInv g' ∧ g'.nodes = g.nodes ∧
      ∀ a b, PEdge g' a b ↔ TransGen (PEdge g) a b := by
  obtain ⟨rk, hr⟩ := exists_rank hg hac
  have hc0 : CInv g g := ⟨hg, rfl, fun _ _ e => e, fun _ _ e => TransGen.single e⟩
  obtain ⟨g', hg', hc, hdone⟩ := closure_fold hr (List.range g.size) g (fun a ha => List.mem_range.1 ha) hc0
  refine ⟨g', by rw [closure_eq]; exact hg', hc.ginv, hc.nodes, ?_⟩
  intro a b
  by_cases ha : a < g.size
  · exact hdone a (Or.inl (List.mem_range.2 ha)) b
  · constructor
    · intro e; have := (pedge_lt hc.ginv e).1; rw [hc.size] at this; exact absurd this ha
    · intro e; exact absurd (transGen_lt hg e).1 ha

/-! ### reduction -/

def redStep (g : G) (i : Nat) : Except Err G := do
  let start ← g.edgesAt i
  let rm ← start.foldlM (fun acc j => do
    let r ← redVisit g start (g.size + 1) j
    pure (sunion acc r)) []
  pure { g with edges := g.edges.set i (start.filter (· ∉ rm)) }

theorem reduction_eq (g : G) : g.transitiveReduction = (List.range g.size).foldlM redStep g := rfl

theorem redInner_spec {g : G} (hg : GInv g) {rk : Nat → Nat} (hr : Ranked g rk) (start : List Nat) :
    ∀ (js acc : List Nat), (∀ j ∈ js, j < g.size) →
      ∃ l, js.foldlM (fun acc j => do
          let r ← redVisit g start (g.size + 1) j
          pure (sunion acc r)) acc = .ok l ∧
        ∀ x, x ∈ l ↔ x ∈ acc ∨ ∃ j ∈ js, x ∈ start ∧ TransGen (PEdge g) j x := by
  intro js
  induction js with
  | nil => intro acc _; exact ⟨acc, rfl, fun x => by simp⟩
  | cons j rest ih =>
    intro acc h
    have hj := h j (by simp)
    obtain ⟨r, hrv, mr⟩ := (redVisit_spec g hg rk hr start (g.size + 1)).1 j hj (by have := hr.bound j hj; omega)
    obtain ⟨l, hl, ml⟩ := ih (sunion acc r) (fun k hk => h k (by simp [hk]))
    refine ⟨l, ?_, ?_⟩
    · rw [List.foldlM_cons]
      simp only [bind, Except.bind, hrv, pure, Except.pure]
      exact hl
    · intro x
      rw [ml x, mem_sunion, mr x]
      simp only [List.mem_cons]
      constructor
      · rintro ((hx | ⟨hx, hp⟩) | ⟨k, hk, hx⟩)
        · exact Or.inl hx
        · exact Or.inr ⟨j, Or.inl rfl, hx, hp⟩
        · exact Or.inr ⟨k, Or.inr hk, hx⟩
      · rintro (hx | ⟨k, rfl | hk, hx⟩)
        · exact Or.inl (Or.inl hx)
        · exact Or.inl (Or.inr hx)
        · exact Or.inr ⟨k, hk, hx⟩

theorem redStep_spec {g : G} (hg : GInv g) {rk : Nat → Nat} (hr : Ranked g rk) {i : Nat} (hi : i < g.size) :
    ∃ t, redStep g i = .ok (gset g i t) ∧
      ∀ x, x ∈ t ↔ PEdge g i x ∧ ¬ ∃ j, PEdge g i j ∧ TransGen (PEdge g) j x := by
  have hstart : ∀ j ∈ edgesP g i, j < g.size := fun j hj => (pedge_lt hg hj).2
  obtain ⟨rm, hrm, mrm⟩ := redInner_spec hg hr (edgesP g i) (edgesP g i) [] hstart
  refine ⟨(edgesP g i).filter (· ∉ rm), ?_, ?_⟩
  · unfold redStep
    rw [edgesAt_eq hg hi]
    show ((edgesP g i).foldlM (fun acc j => do
        let r ← redVisit g (edgesP g i) (g.size + 1) j
        pure (sunion acc r)) [] >>= fun rm => pure (gset g i ((edgesP g i).filter (· ∉ rm)))) = _
    rw [hrm]
    rfl
  · intro x
    rw [List.mem_filter]
    simp only [decide_eq_true_eq, mrm x, List.not_mem_nil, false_or]
    constructor
    · rintro ⟨hx, hno⟩
      exact ⟨hx, fun ⟨j, hj, hp⟩ => hno ⟨j, hj, hx, hp⟩⟩
    · rintro ⟨hx, hno⟩
      exact ⟨hx, fun ⟨j, hj, _, hp⟩ => hno ⟨j, hj, hp⟩⟩

structure RdInv (g0 g : G) : Prop where
  ginv : GInv g
  nodes : g.nodes = g0.nodes
  sub : ∀ a b, PEdge g a b → PEdge g0 a b
  reach : ∀ a b, PEdge g0 a b → TransGen (PEdge g) a b

theorem RdInv.size {g0 g : G} (h : RdInv g0 g) : g.size = g0.size := by unfold G.size; rw [h.nodes]

theorem RdInv.reach_iff {g0 g : G} (h : RdInv g0 g) (a b : Nat) :
    TransGen (PEdge g) a b ↔ TransGen (PEdge g0) a b :=
  ⟨transGen_sub (fun a b e => TransGen.single (h.sub a b e)), transGen_sub h.reach⟩

/-- the edges kept for a position: those that no longer path doubles -/
def Kept (g0 : G) (a b : Nat) : Prop := PEdge g0 a b ∧ ¬ ∃ j, PEdge g0 a j ∧ TransGen (PEdge g0) j b

theorem reduction_fold {g0 : G} {rk : Nat → Nat} (hr : Ranked g0 rk) :
    ∀ (l : List Nat) (g : G), l.Nodup → (∀ a ∈ l, a < g0.size) → RdInv g0 g → (∀ a ∈ l, edgesP g a = edgesP g0 a) →
      ∃ g', l.foldlM redStep g = .ok g' ∧ RdInv g0 g' ∧
        (∀ a ∈ l, ∀ b, PEdge g' a b ↔ Kept g0 a b) ∧ (∀ a, a ∉ l → edgesP g' a = edgesP g a) := by
  intro l
  induction l with
  | nil => intro g _ _ hc _; exact ⟨g, rfl, hc, fun a ha => (by cases ha), fun a _ => rfl⟩
  | cons i rest ih =>
    intro g hnd hl hc hun
    have hnd' := List.nodup_cons.1 hnd
    have hi : i < g.size := by rw [hc.size]; exact hl i (by simp)
    have hrg : Ranked g rk := ⟨fun p q e => hr.dec p q (hc.sub p q e), fun p hp => by rw [hc.size] at hp ⊢; exact hr.bound p hp⟩
    obtain ⟨t, hstep, mt⟩ := redStep_spec hc.ginv hrg hi
    have ht : ∀ b ∈ t, b < g.size := fun b hb => (pedge_lt hc.ginv ((mt b).1 hb).1).2
    -- paths that start below `i` in rank do not use the edges of `i`
    have avoid : ∀ j b, TransGen (PEdge g) j b → rk j < rk i → TransGen (PEdge (gset g i t)) j b := by
      intro j b hp hj
      induction hp with
      | single e =>
        refine TransGen.single ?_
        rw [pedge_gset, if_neg (fun e' => by rw [e'] at hj; exact Nat.lt_irrefl _ hj)]
        exact e
      | tail h1 e ih' =>
        rename_i c d
        have hc' : rk c < rk i := Nat.lt_trans (hrg.trans h1) hj
        refine TransGen.tail ih' ?_
        rw [pedge_gset, if_neg (fun e' => by rw [e'] at hc'; exact Nat.lt_irrefl _ hc')]
        exact e
    -- every former dependency of `i` is still reached from `i`
    have still : ∀ n b, g.size - rk b ≤ n → PEdge g i b → TransGen (PEdge (gset g i t)) i b := by
      intro n
      induction n with
      | zero =>
        intro b hn hb
        have := hrg.bound b (pedge_lt hc.ginv hb).2
        omega
      | succ n ihn =>
        intro b hn hb
        by_cases hbt : b ∈ t
        · exact TransGen.single (by rw [pedge_gset, if_pos rfl]; exact hbt)
        · have : ∃ j, PEdge g i j ∧ TransGen (PEdge g) j b := by
            by_contra hno
            exact hbt ((mt b).2 ⟨hb, hno⟩)
          obtain ⟨j, hj, hjb⟩ := this
          have hrkj : rk b < rk j := hrg.trans hjb
          have hjn : g.size - rk j ≤ n := by
            have := hrg.bound j (pedge_lt hc.ginv hj).2
            omega
          exact TransGen.trans (ihn j hjn hj) (avoid j b hjb (hrg.dec i j hj))
    have hc' : RdInv g0 (gset g i t) := by
      refine ⟨ginv_gset hc.ginv hi t ht, hc.nodes, ?_, ?_⟩
      · intro a b e
        rw [pedge_gset] at e
        split at e
        · rename_i e'; subst e'; exact hc.sub _ _ ((mt b).1 e).1
        · exact hc.sub a b e
      · intro a b e
        have hstep1 : ∀ c d, PEdge g c d → TransGen (PEdge (gset g i t)) c d := by
          intro c d ecd
          by_cases hci : c = i
          · subst hci; exact still (g.size - rk d) d (Nat.le_refl _) ecd
          · exact TransGen.single (by rw [pedge_gset, if_neg hci]; exact ecd)
        exact transGen_sub hstep1 (hc.reach a b e)
    have hun' : ∀ a ∈ rest, edgesP (gset g i t) a = edgesP g0 a := by
      intro a ha
      have hai : a ≠ i := fun e => hnd'.1 (e ▸ ha)
      rw [edgesP_gset, if_neg hai]
      exact hun a (by simp [ha])
    obtain ⟨g', hg', hcg', hkept, hrest⟩ := ih (gset g i t) hnd'.2 (fun a ha => hl a (by simp [ha])) hc' hun'
    refine ⟨g', ?_, hcg', ?_, ?_⟩
    · rw [List.foldlM_cons, hstep]; exact hg'
    · intro a ha b
      rcases List.mem_cons.1 ha with e | ha
      · subst e
        unfold PEdge
        rw [hrest a hnd'.1, edgesP_gset, if_pos rfl, mt b]
        unfold Kept
        have e0 : ∀ x, PEdge g a x ↔ PEdge g0 a x := by
          intro x; unfold PEdge; rw [hun a (by simp)]
        constructor
        · rintro ⟨h1, h2⟩
          exact ⟨(e0 b).1 h1, fun ⟨j, hj, hp⟩ => h2 ⟨j, (e0 j).2 hj, (hc.reach_iff j b).2 hp⟩⟩
        · rintro ⟨h1, h2⟩
          exact ⟨(e0 b).2 h1, fun ⟨j, hj, hp⟩ => h2 ⟨j, (e0 j).1 hj, (hc.reach_iff j b).1 hp⟩⟩
      · exact hkept a ha b
    · intro a ha
      have hai : a ≠ i := fun e => ha (by simp [e])
      have har : a ∉ rest := fun h => ha (by simp [h])
      rw [hrest a har, edgesP_gset, if_neg hai]

/-- **reduction, on positions**: same nodes, same reachability, and exactly the edges that no longer path doubles -/
theorem reduction_positions {g : G} (hg : GInv g) (hac : ¬ g.Cyclic) :
    ∃ g', g.transitiveReduction = .ok g' ∧ GInv g' ∧ g'.nodes = g.nodes ∧
      (∀ a b, PEdge g' a b ↔ Kept g a b) ∧ (∀ a b, TransGen (PEdge g') a b ↔ TransGen (PEdge g) a b) := by
  obtain ⟨rk, hr⟩ := exists_rank hg hac
  have hc0 : RdInv g g := ⟨hg, rfl, fun _ _ e => e, fun _ _ e => TransGen.single e⟩
  obtain ⟨g', hg', hc, hkept, _⟩ := reduction_fold hr (List.range g.size) g List.nodup_range
    (fun a ha => List.mem_range.1 ha) hc0 (fun _ _ => rfl)
  refine ⟨g', by rw [reduction_eq]; exact hg', hc.ginv, hc.nodes, ?_, hc.reach_iff⟩
  intro a b
  by_cases ha : a < g.size
  · exact hkept a (List.mem_range.2 ha) b
  · constructor
    · intro e; have := (pedge_lt hc.ginv e).1; rw [hc.size] at this; exact absurd this ha
    · intro e; exact absurd (pedge_lt hg e.1).1 ha

/-! ### from positions to nodes -/

theorem edge_iff_pedge (g : G) (x y : Nat) :
    g.Edge x y ↔ ∃ a b, g.nodes.seq[a]? = some x ∧ g.nodes.seq[b]? = some y ∧ PEdge g a b := by
  unfold G.Edge PEdge edgesP
  constructor
  · rintro ⟨a, b, s, ha, hb, hs, hbs⟩
    exact ⟨a, b, ha, hb, by rw [hs]; exact hbs⟩
  · rintro ⟨a, b, ha, hb, hm⟩
    cases hs : g.edges.get a with
    | none => rw [hs] at hm; cases hm
    | some s => rw [hs] at hm; exact ⟨a, b, s, ha, hb, hs, hm⟩

theorem transGen_edge_iff {g : G} (hg : GInv g) (x y : Nat) :
    TransGen g.Edge x y ↔ ∃ a b, g.nodes.seq[a]? = some x ∧ g.nodes.seq[b]? = some y ∧ TransGen (PEdge g) a b := by
  constructor
  · intro h
    induction h with
    | single e =>
      obtain ⟨a, b, ha, hb, hp⟩ := (edge_iff_pedge g _ _).1 e
      exact ⟨a, b, ha, hb, TransGen.single hp⟩
    | tail _ e ih =>
      obtain ⟨a, b, ha, hb, hp⟩ := ih
      obtain ⟨b', c, hb', hc, hp'⟩ := (edge_iff_pedge g _ _).1 e
      have := hg.pos_unique hb hb'
      subst this
      exact ⟨a, c, ha, hc, TransGen.tail hp hp'⟩
  · rintro ⟨a, b, ha, hb, hp⟩
    obtain ⟨x', y', hx', hy', hxy⟩ := pcycle_cycle hg hp
    rw [ha] at hx'; rw [hb] at hy'
    cases hx'; cases hy'
    exact hxy

/-- **`transitive_closure`** on an acyclic graph: same nodes, an edge exactly where there was a path -/
theorem closure_refines {g : G} (hg : GInv g) (hac : ¬ g.Cyclic) :
    ∃ g', g.transitiveClosure = .ok g' ∧ GInv g' ∧ (∀ z, g'.Node z ↔ g.Node z) ∧
      ∀ x y, g'.Edge x y ↔ TransGen g.Edge x y := by
  obtain ⟨g', hrun, hi, hn, he⟩ := closure_positions hg hac
  refine ⟨g', hrun, hi, fun z => by unfold G.Node; rw [hn], ?_⟩
  intro x y
  rw [edge_iff_pedge, transGen_edge_iff hg, hn]
  constructor
  · rintro ⟨a, b, ha, hb, hp⟩; exact ⟨a, b, ha, hb, (he a b).1 hp⟩
  · rintro ⟨a, b, ha, hb, hp⟩; exact ⟨a, b, ha, hb, (he a b).2 hp⟩

/-- **`transitive_reduction`** on an acyclic graph: same nodes, same reachability, and an edge is kept exactly when no
longer path doubles it -/
theorem reduction_refines {g : G} (hg : GInv g) (hac : ¬ g.Cyclic) :
    ∃ g', g.transitiveReduction = .ok g' ∧ GInv g' ∧ (∀ z, g'.Node z ↔ g.Node z) ∧
      (∀ x y, g'.Edge x y ↔ g.Edge x y ∧ ¬ ∃ j, g.Edge x j ∧ TransGen g.Edge j y) ∧
      (∀ x y, TransGen g'.Edge x y ↔ TransGen g.Edge x y) := by
  obtain ⟨g', hrun, hi, hn, hk, hreach⟩ := reduction_positions hg hac
  refine ⟨g', hrun, hi, fun z => by unfold G.Node; rw [hn], ?_, ?_⟩
  · intro x y
    rw [edge_iff_pedge, hn]
    constructor
    · rintro ⟨a, b, ha, hb, hp⟩
      obtain ⟨h1, h2⟩ := (hk a b).1 hp
      refine ⟨(edge_iff_pedge g x y).2 ⟨a, b, ha, hb, h1⟩, ?_⟩
      rintro ⟨j, hxj, hjy⟩
      obtain ⟨a', c, ha', hc, hac'⟩ := (edge_iff_pedge g x j).1 hxj
      have := hg.pos_unique ha ha'; subst this
      obtain ⟨c', b', hc', hb', hcb⟩ := (transGen_edge_iff hg j y).1 hjy
      have := hg.pos_unique hc hc'; subst this
      have := hg.pos_unique hb hb'; subst this
      exact h2 ⟨c, hac', hcb⟩
    · rintro ⟨hxy, hno⟩
      obtain ⟨a, b, ha, hb, hp⟩ := (edge_iff_pedge g x y).1 hxy
      refine ⟨a, b, ha, hb, (hk a b).2 ⟨hp, ?_⟩⟩
      rintro ⟨c, hac', hcb⟩
      have hc : c < g.size := (pedge_lt hg hac').2
      exact hno ⟨g.nodes.seq.getD c 0, (edge_iff_pedge g _ _).2 ⟨a, c, ha, node_at hc, hac'⟩,
        (transGen_edge_iff hg _ _).2 ⟨c, b, node_at hc, hb, hcb⟩⟩
  · intro x y
    rw [transGen_edge_iff hi, transGen_edge_iff hg, hn]
    constructor
    · rintro ⟨a, b, ha, hb, hp⟩; exact ⟨a, b, ha, hb, (hreach a b).1 hp⟩
    · rintro ⟨a, b, ha, hb, hp⟩; exact ⟨a, b, ha, hb, (hreach a b).2 hp⟩

/-- the reduction has the fewest edges: every relation with the same reachability contains it -/
theorem reduction_fewest {E S : Nat → Nat → Prop} (hS : ∀ a b, TransGen S a b ↔ TransGen E a b) {a b : Nat}
    (hab : E a b) (hno : ¬ ∃ j, E a j ∧ TransGen E j b) : S a b := by
  have hp : TransGen S a b := (hS a b).2 (TransGen.single hab)
  rcases TransGen.head'_iff.1 hp with ⟨c, hac, hcb⟩
  rcases ReflTransGen.cases_head hcb with e | ⟨d, hcd, hdb⟩
  · subst e; exact hac
  · exfalso
    have h1 : TransGen E a c := (hS a c).1 (TransGen.single hac)
    have h2 : TransGen E c b := (hS c b).1 (TransGen.head' hcd hdb)
    rcases TransGen.head'_iff.1 h1 with ⟨j, haj, hjc⟩
    exact hno ⟨j, haj, TransGen.trans_right hjc h2⟩

/-- the closure has the most edges: every relation with the same reachability is contained in it -/
theorem closure_most {E S : Nat → Nat → Prop} (hS : ∀ a b, TransGen S a b ↔ TransGen E a b) {a b : Nat}
    (hab : S a b) : TransGen E a b := (hS a b).1 (TransGen.single hab)

end DG
