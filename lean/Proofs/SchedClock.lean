import Proofs.SchedLive
/-! Clock reasoning for C04: entries that are decided and final are never rewritten; a task starts strictly after the
end of each of its DONE dependencies. -/
set_option linter.unusedVariables false
set_option linter.unusedSimpArgs false
namespace Sched

/-- no step makes a decided task undecided again -/
theorem step_undecided_mono {c : Cfg} {s s' : State} (ha : InvA c s) (hs : Step c s s') (x : Nat) (hx : Undecided s' x) :
    Undecided s x := by
  have adv : ∀ (s1 : State), Undecided (advance s1) x → s1.todo = s.todo →
      (∀ y, y ∈ s1.left → y ∈ s.left ∨ y ∈ s.todo) → Undecided s x := by
    intro s1 h e1 e2
    rw [undecided_advance] at h
    rcases h with h | h
    · exact Or.inl (by rw [← e1]; exact List.mem_of_mem_tail h)
    · rcases e2 x h with h | h
      · exact Or.inr h
      · exact Or.inl h
  cases hs with
  | mWait t rest env' hm ht hd =>
    exact adv _ hx rfl (by intro y hy
                           rcases List.mem_append.1 hy with hy | hy
                           · exact Or.inl hy
                           · simp at hy; subst hy; right; rw [ht]; simp)
  | mSkip t rest env' hm ht hd => exact adv _ hx rfl (fun y hy => Or.inl hy)
  | mDrop t rest env' hm ht hd => exact adv _ hx rfl (fun y hy => Or.inl hy)
  | mPut t hm => exact adv _ hx rfl (fun y hy => Or.inl hy)
  | mWake hm _ _ =>
    rcases hx with hx | hx
    · exact Or.inr hx
    · cases hx
  | mSpawn _ _ | mAcq _ _ | mPending _ _ _ _ _ _ | mQjoin _ _ | mSentinel _ _ | mJoin _ _ _ | wBegin _ _
  | wGetTask _ _ _ _ _ | wGetSentinel _ _ _ _ | wTimeStart _ _ _ | wTimeEnd _ _ _ _ | wApply _ _ _ _ _
  | wClocks _ _ _ _ _ | wStatus _ _ _ | wTaskDone _ _ _ | wCacq _ _ _ | wNotify _ _ | wSentinelDone _ _ _ => exact hx

/-- the clock never goes back -/
theorem step_clock_mono {c : Cfg} {s s' : State} (hs : Step c s s') : s.clock ≤ s'.clock := by
  cases hs with
  | mWait _ _ _ _ _ _ => rw [(advance_fields _).2.2.2.2.2.1]; exact Nat.le_refl _
  | mSkip _ _ _ _ _ _ => rw [(advance_fields _).2.2.2.2.2.1]; exact Nat.le_refl _
  | mDrop _ _ _ _ _ _ => rw [(advance_fields _).2.2.2.2.2.1]; exact Nat.le_refl _
  | mPut _ _ => rw [(advance_fields _).2.2.2.2.2.1]; exact Nat.le_refl _
  | wTimeStart _ _ _ => exact Nat.le_succ _
  | wTimeEnd _ _ _ _ => exact Nat.le_succ _
  | mSpawn _ _ | mAcq _ _ | mPending _ _ _ _ _ _ | mWake _ _ _ | mQjoin _ _ | mSentinel _ _ | mJoin _ _ _ | wBegin _ _
  | wGetTask _ _ _ _ _ | wGetSentinel _ _ _ _ | wApply _ _ _ _ _
  | wClocks _ _ _ _ _ | wStatus _ _ _ | wTaskDone _ _ _ | wCacq _ _ _ | wNotify _ _ | wSentinelDone _ _ _ => exact Nat.le_refl _

/-- an entry is rewritten only by the master for the task it is considering, or by the worker holding the task -/
theorem step_env_frame {c : Cfg} {s s' : State} (hs : Step c s s') (d : Nat) :
    s'.env.entry d = s.env.entry d ∨ (s.mpc = .consider ∧ ∃ rest, s.todo = d :: rest) ∨ ∃ w, held (s.wpc w) = some d := by
  have adv : ∀ (s1 : State), (advance s1).env.entry d = s1.env.entry d := fun s1 => by rw [(advance_fields s1).1]
  have dec : ∀ (t : Nat) (rest : List Nat) (r : Decision) (env' : Env), s.mpc = .consider → s.todo = t :: rest →
      decide c s.env s.left t = (r, env') →
      env'.entry d = s.env.entry d ∨ (s.mpc = .consider ∧ ∃ rest, s.todo = d :: rest) ∨ ∃ w, held (s.wpc w) = some d := by
    intro t rest r env' hm ht hd
    by_cases e : d = t
    · subst e; exact Or.inr (Or.inl ⟨hm, rest, ht⟩)
    · exact Or.inl ((decide_spec c s.env s.left t r env' hd).1 d e)
  cases hs with
  | mWait t rest env' hm ht hd => rw [adv]; exact dec t rest _ env' hm ht hd
  | mSkip t rest env' hm ht hd => rw [adv]; exact dec t rest _ env' hm ht hd
  | mDrop t rest env' hm ht hd => rw [adv]; exact dec t rest _ env' hm ht hd
  | mPending t rest env' hm ht hd => exact dec t rest _ env' hm ht hd
  | mPut t hm => left; rw [adv]
  | wApply w t a b hw =>
    by_cases e : d = t
    · subst e; exact Or.inr (Or.inr ⟨w, by rw [hw]; rfl⟩)
    · exact Or.inl (entry_updEntry_other _ _ _ _ e)
  | wClocks w t a b hw =>
    by_cases e : d = t
    · subst e; exact Or.inr (Or.inr ⟨w, by rw [hw]; rfl⟩)
    · exact Or.inl (entry_updEntry_other _ _ _ _ e)
  | wStatus w t hw =>
    by_cases e : d = t
    · subst e; exact Or.inr (Or.inr ⟨w, by rw [hw]; rfl⟩)
    · exact Or.inl (entry_setSt_other _ _ _ _ e)
  | mSpawn _ _ | mAcq _ _ | mWake _ _ _ | mQjoin _ _ | mSentinel _ _ | mJoin _ _ _ | wBegin _ _
  | wGetTask _ _ _ _ _ | wGetSentinel _ _ _ _ | wTimeStart _ _ _ | wTimeEnd _ _ _ _
  | wTaskDone _ _ _ | wCacq _ _ _ | wNotify _ _ | wSentinelDone _ _ _ => exact Or.inl rfl

/-- decided and final: such an entry is never touched again -/
def Stable (s : State) (d : Nat) : Prop := ¬ Undecided s d ∧ ∃ y, s.env.entry d = some y ∧ y.st.final = true

theorem stable_step {c : Cfg} {s s' : State} (ha : InvA c s) (hs : Step c s s') (d : Nat) (hd : Stable s d) :
    s'.env.entry d = s.env.entry d ∧ Stable s' d := by
  obtain ⟨hu, y, hy, hf⟩ := hd
  have hsame : s'.env.entry d = s.env.entry d := by
    rcases step_env_frame hs d with h | ⟨_, rest, hr⟩ | ⟨w, hw⟩
    · exact h
    · exact absurd (Or.inl (by rw [hr]; simp)) hu
    · obtain ⟨⟨z, hz, hzp⟩, _⟩ := ha.inflight_pending d (Or.inr (Or.inr ⟨w, hw⟩))
      rw [hy] at hz; injection hz with hz; subst hz; rw [hzp] at hf; cases hf
  exact ⟨hsame, fun hc => hu (step_undecided_mono ha hs d hc), y, by rw [hsame]; exact hy, hf⟩

/-- sharper frame: who rewrote the entry -/
theorem step_env_changed {c : Cfg} {s s' : State} (hs : Step c s s') (d : Nat) (hne : s'.env.entry d ≠ s.env.entry d) :
    (s.mpc = .consider ∧ ∃ rest, s.todo = d :: rest) ∨ ∃ w, held (s.wpc w) = some d ∧ s'.wpc w ≠ s.wpc w := by
  have adv : ∀ (s1 : State), (advance s1).env.entry d = s1.env.entry d := fun s1 => by rw [(advance_fields s1).1]
  have dec : ∀ (t : Nat) (rest : List Nat) (r : Decision) (env' : Env), s.mpc = .consider → s.todo = t :: rest →
      decide c s.env s.left t = (r, env') → env'.entry d ≠ s.env.entry d →
      (s.mpc = .consider ∧ ∃ rest, s.todo = d :: rest) := by
    intro t rest r env' hm ht hd hne'
    by_cases e : d = t
    · subst e; exact ⟨hm, rest, ht⟩
    · exact absurd ((decide_spec c s.env s.left t r env' hd).1 d e) hne'
  cases hs with
  | mWait t rest env' hm ht hd => rw [adv] at hne; exact Or.inl (dec t rest _ env' hm ht hd hne)
  | mSkip t rest env' hm ht hd => rw [adv] at hne; exact Or.inl (dec t rest _ env' hm ht hd hne)
  | mDrop t rest env' hm ht hd => rw [adv] at hne; exact Or.inl (dec t rest _ env' hm ht hd hne)
  | mPending t rest env' hm ht hd => exact Or.inl (dec t rest _ env' hm ht hd hne)
  | mPut t hm => rw [adv] at hne; exact absurd rfl hne
  | wApply w t a b hw =>
    by_cases e : d = t
    · subst e; exact Or.inr ⟨w, by rw [hw]; rfl, by show upd s.wpc w _ w ≠ _; rw [upd_same, hw]; simp⟩
    · exact absurd (entry_updEntry_other _ _ _ _ e) hne
  | wClocks w t a b hw =>
    by_cases e : d = t
    · subst e; exact Or.inr ⟨w, by rw [hw]; rfl, by show upd s.wpc w _ w ≠ _; rw [upd_same, hw]; simp⟩
    · exact absurd (entry_updEntry_other _ _ _ _ e) hne
  | wStatus w t hw =>
    by_cases e : d = t
    · subst e; exact Or.inr ⟨w, by rw [hw]; rfl, by show upd s.wpc w _ w ≠ _; rw [upd_same, hw]; simp⟩
    · exact absurd (entry_setSt_other _ _ _ _ e) hne
  | mSpawn _ _ | mAcq _ _ | mWake _ _ _ | mQjoin _ _ | mSentinel _ _ | mJoin _ _ _ | wBegin _ _
  | wGetTask _ _ _ _ _ | wGetSentinel _ _ _ _ | wTimeStart _ _ _ | wTimeEnd _ _ _ _
  | wTaskDone _ _ _ | wCacq _ _ _ | wNotify _ _ | wSentinelDone _ _ _ => exact absurd rfl hne

/-- the clock values a program counter carries are in the past -/
def PcClock (pc : WPc) (k : Nat) : Prop :=
  match pc with
  | .timeEnd _ a => a ≤ k
  | .apply _ a b | .clocks _ a b => a ≤ b ∧ b ≤ k
  | _ => True

/-- the worker started task `t` at clock `a` and has not recorded the clocks yet -/
def StartedAt (pc : WPc) (t a : Nat) : Prop := pc = .timeEnd t a ∨ ∃ b, pc = .apply t a b ∨ pc = .clocks t a b

/-- what C04 asks of a DONE entry -/
def Cons (c : Cfg) (e : Env) (t : Nat) (x : Entry) : Prop :=
  (∀ d ∈ c.depsOf t, ∀ y, e.entry d = some y → y.st = .done → ∃ ev sv, y.endC = some ev ∧ x.startC = some sv ∧ ev ≤ sv) ∧
  (∀ d ∈ c.hardOf t, ∀ y, e.entry d = some y → y.st ≠ .failed ∧ y.st ≠ .skipped)

structure InvD (c : Cfg) (s : State) : Prop where
  clock_bound : ∀ t x, s.env.entry t = some x →
    (∀ v, x.startC = some v → v ≤ s.clock) ∧ (∀ v, x.endC = some v → v ≤ s.clock)
  pc_clock : ∀ w, PcClock (s.wpc w) s.clock
  deps_stable : ∀ t, t < c.n → ¬ Undecided s t → ∀ d ∈ c.depsOf t, Stable s d
  inflight_deps_stable : ∀ t, InFlight s t → ∀ d ∈ c.depsOf t, Stable s d
  started_after : ∀ w t a, StartedAt (s.wpc w) t a → ∀ d ∈ c.depsOf t, ∀ y, s.env.entry d = some y → y.st = .done →
    ∃ e, y.endC = some e ∧ e < a
  status_after : ∀ w t, s.wpc w = .status t → ∃ x v, s.env.entry t = some x ∧ x.startC = some v ∧
    ∀ d ∈ c.depsOf t, ∀ y, s.env.entry d = some y → y.st = .done → ∃ e, y.endC = some e ∧ e ≤ v
  inflight_hard_ok : ∀ t, InFlight s t → ∀ d ∈ c.hardOf t, ∀ y, s.env.entry d = some y → y.st ≠ .failed ∧ y.st ≠ .skipped
  consistent : ∀ t x, t < c.n → ¬ Undecided s t → s.env.entry t = some x → x.st = .done → Cons c s.env t x

theorem startedAt_held {pc : WPc} {t a : Nat} (h : StartedAt pc t a) : held pc = some t := by
  rcases h with h | ⟨b, h | h⟩ <;> rw [h] <;> rfl

/-- everything the invariant says about *old* items survives a step; only what the step creates has to be shown -/
theorem InvD_step_gen {c : Cfg} (hc : c.WF) {s s' : State} (ha : InvA c s) (ha' : InvA c s') (h : InvD c s) (hs : Step c s s')
    (n_clock : ∀ t x, s'.env.entry t = some x → s'.env.entry t ≠ s.env.entry t →
      (∀ v, x.startC = some v → v ≤ s'.clock) ∧ (∀ v, x.endC = some v → v ≤ s'.clock))
    (n_pc : ∀ w, s'.wpc w ≠ s.wpc w → PcClock (s'.wpc w) s'.clock)
    (n_deps : ∀ t, t < c.n → ¬ Undecided s' t → Undecided s t → ∀ d ∈ c.depsOf t, Stable s' d)
    (n_fdeps : ∀ t, InFlight s' t → ¬ InFlight s t → ∀ d ∈ c.depsOf t, Stable s' d)
    (n_started : ∀ w t a, StartedAt (s'.wpc w) t a → ¬ StartedAt (s.wpc w) t a →
      ∀ d ∈ c.depsOf t, ∀ y, s'.env.entry d = some y → y.st = .done → ∃ e, y.endC = some e ∧ e < a)
    (n_status : ∀ w t, s'.wpc w = .status t → s.wpc w ≠ .status t → ∃ x v, s'.env.entry t = some x ∧ x.startC = some v ∧
      ∀ d ∈ c.depsOf t, ∀ y, s'.env.entry d = some y → y.st = .done → ∃ e, y.endC = some e ∧ e ≤ v)
    (n_hard : ∀ t, InFlight s' t → ¬ InFlight s t →
      ∀ d ∈ c.hardOf t, ∀ y, s'.env.entry d = some y → y.st ≠ .failed ∧ y.st ≠ .skipped)
    (n_cons : ∀ t x, t < c.n → ¬ Undecided s' t → s'.env.entry t = some x → x.st = .done →
      ¬ (¬ Undecided s t ∧ s.env.entry t = some x) → Cons c s'.env t x) :
    InvD c s' := by
  have hclk := step_clock_mono hs
  -- entries of stable tasks are unchanged
  have hst : ∀ d, Stable s d → s'.env.entry d = s.env.entry d ∧ Stable s' d := fun d hd => stable_step ha hs d hd
  refine ⟨?_, ?_, ?_, ?_, ?_, ?_, ?_, ?_⟩
  · intro t x hx
    by_cases e : s'.env.entry t = s.env.entry t
    · rw [e] at hx
      obtain ⟨b1, b2⟩ := h.clock_bound t x hx
      exact ⟨fun v hv => Nat.le_trans (b1 v hv) hclk, fun v hv => Nat.le_trans (b2 v hv) hclk⟩
    · exact n_clock t x hx e
  · intro w
    by_cases e : s'.wpc w = s.wpc w
    · rw [e]
      have := h.pc_clock w
      unfold PcClock at this ⊢
      cases hpc : s.wpc w <;> rw [hpc] at this <;> simp only at this ⊢ <;> omega
    · exact n_pc w e
  · intro t ht hu d hd
    by_cases e : Undecided s t
    · exact n_deps t ht hu e d hd
    · exact (hst d (h.deps_stable t ht e d hd)).2
  · intro t hf d hd
    by_cases e : InFlight s t
    · exact (hst d (h.inflight_deps_stable t e d hd)).2
    · exact n_fdeps t hf e d hd
  · intro w t a hsa d hd y hy hyd
    by_cases e : StartedAt (s.wpc w) t a
    · have hfl : InFlight s t := Or.inr (Or.inr ⟨w, startedAt_held e⟩)
      have hsd := h.inflight_deps_stable t hfl d hd
      rw [(hst d hsd).1] at hy
      exact h.started_after w t a e d hd y hy hyd
    · exact n_started w t a hsa e d hd y hy hyd
  · intro w t hw
    by_cases e : s.wpc w = .status t
    · have hheld : held (s.wpc w) = some t := by rw [e]; rfl
      have hfl : InFlight s t := Or.inr (Or.inr ⟨w, hheld⟩)
      obtain ⟨x, v, hx, hxv, hdeps⟩ := h.status_after w t e
      have hsame : s'.env.entry t = s.env.entry t := by
        apply Classical.byContradiction
        intro hne
        rcases step_env_changed hs t hne with ⟨hm, rest, hr⟩ | ⟨w2, hw2, hch⟩
        · rcases (ha.inflight_pending t hfl).2 with hu | hp
          · exact hu (Or.inl (by rw [hr]; simp))
          · rw [hm] at hp; cases hp
        · have := ha.uniq.held_once w2 w t hw2 hheld
          subst this; exact hch (by rw [hw, e])
      refine ⟨x, v, by rw [hsame]; exact hx, hxv, ?_⟩
      intro d hd y hy hyd
      rw [(hst d (h.inflight_deps_stable t hfl d hd)).1] at hy
      exact hdeps d hd y hy hyd
    · exact n_status w t hw e
  · intro t hf d hd y hy
    by_cases e : InFlight s t
    · have hsd := h.inflight_deps_stable t e d (hc.hard_sub t d hd)
      rw [(hst d hsd).1] at hy
      exact h.inflight_hard_ok t e d hd y hy
    · exact n_hard t hf e d hd y hy
  · intro t x ht hu hx hxd
    by_cases e : ¬ Undecided s t ∧ s.env.entry t = some x
    · obtain ⟨e1, e2⟩ := e
      obtain ⟨c1, c2⟩ := h.consistent t x ht e1 e2 hxd
      refine ⟨?_, ?_⟩
      · intro d hd y hy hyd
        rw [(hst d (h.deps_stable t ht e1 d hd)).1] at hy
        exact c1 d hd y hy hyd
      · intro d hd y hy
        rw [(hst d (h.deps_stable t ht e1 d (hc.hard_sub t d hd))).1] at hy
        exact c2 d hd y hy
    · exact n_cons t x ht hu hx hxd e

/-- only the master's `pending` decision puts a new task in flight -/
theorem step_inflight {c : Cfg} {s s' : State} (hs : Step c s s') (t : Nat) (hf : InFlight s' t) :
    InFlight s t ∨ (s.mpc = .consider ∧ s'.mpc = .put t) := by
  have adv : ∀ (s1 : State), InFlight (advance s1) t → s1.wpc = s.wpc →
      (∀ x, some x ∈ s1.queue → some x ∈ s.queue ∨ s.mpc = .put x) → InFlight s t := by
    intro s1 h e1 e2
    rw [inflight_advance] at h
    rcases h with h | ⟨w, hw⟩
    · rcases e2 t h with h | h
      · exact Or.inl h
      · exact Or.inr (Or.inl h)
    · exact Or.inr (Or.inr ⟨w, e1 ▸ hw⟩)
  have wk : ∀ (w : Nat) (pn : WPc) (q : List (Option Nat)),
      (some t ∈ q ∨ s.mpc = .put t ∨ ∃ x, held (upd s.wpc w pn x) = some t) →
      (∀ x, some x ∈ q → some x ∈ s.queue) → (held pn = some t → some t ∈ s.queue ∨ held (s.wpc w) = some t) →
      InFlight s t := by
    intro w pn q h e1 e2
    rcases h with h | h | ⟨x, hx⟩
    · exact Or.inl (e1 t h)
    · exact Or.inr (Or.inl h)
    · rw [held_upd] at hx
      split at hx
      · rcases e2 hx with h | h
        · exact Or.inl h
        · exact Or.inr (Or.inr ⟨w, h⟩)
      · exact Or.inr (Or.inr ⟨x, hx⟩)
  cases hs with
  | mWait _ _ _ _ _ _ => exact Or.inl (adv _ hf rfl (fun x hx => Or.inl hx))
  | mSkip _ _ _ _ _ _ => exact Or.inl (adv _ hf rfl (fun x hx => Or.inl hx))
  | mDrop _ _ _ _ _ _ => exact Or.inl (adv _ hf rfl (fun x hx => Or.inl hx))
  | mPut t' hm =>
    exact Or.inl (adv _ hf rfl (by
      intro x hx
      rcases List.mem_append.1 hx with hx | hx
      · exact Or.inl hx
      · simp at hx; subst hx; exact Or.inr hm))
  | mPending t' rest env' hm ht hd =>
    rcases hf with hf | hf | hf
    · exact Or.inl (Or.inl hf)
    · injection hf with hf; subst hf; exact Or.inr ⟨hm, rfl⟩
    · exact Or.inl (Or.inr (Or.inr hf))
  | mSpawn k hm =>
    left
    rcases hf with hf | hf | ⟨x, hx⟩
    · exact Or.inl hf
    · exfalso; revert hf; show afterSpawn c k = _ → False; unfold afterSpawn; split <;> (try split) <;> simp
    · have hx' : held (upd s.wpc k .begin x) = some t := hx
      rw [held_upd] at hx'; split at hx'
      · cases hx'
      · exact Or.inr (Or.inr ⟨x, hx'⟩)
  | mAcq hm _ =>
    left; rcases hf with hf | hf | hf
    · exact Or.inl hf
    · cases hf
    · exact Or.inr (Or.inr hf)
  | mWake hm _ _ =>
    left; rcases hf with hf | hf | hf
    · exact Or.inl hf
    · cases hf
    · exact Or.inr (Or.inr hf)
  | mQjoin hm _ =>
    left; rcases hf with hf | hf | hf
    · exact Or.inl hf
    · exfalso; revert hf; show (if c.workers = 0 then MPc.returned else MPc.sentinel 0) = _ → False; split <;> simp
    · exact Or.inr (Or.inr hf)
  | mSentinel k hm =>
    left; rcases hf with hf | hf | hf
    · have : some t ∈ s.queue ++ [none] := hf
      rcases List.mem_append.1 this with hh | hh
      · exact Or.inl hh
      · simp at hh
    · exfalso; revert hf; show (if k + 1 < c.workers then MPc.sentinel (k + 1) else MPc.joinW 0) = _ → False; split <;> simp
    · exact Or.inr (Or.inr hf)
  | mJoin k hm _ =>
    left; rcases hf with hf | hf | hf
    · exact Or.inl hf
    · exfalso; revert hf; show (if k + 1 < c.workers then MPc.joinW (k + 1) else MPc.returned) = _ → False; split <;> simp
    · exact Or.inr (Or.inr hf)
  | wBegin w hw => exact Or.inl (wk w .get s.queue hf (fun _ h => h) (by intro h; cases h))
  | wGetTask w t' rest hw hq =>
    exact Or.inl (wk w (.timeStart t') rest hf (fun x h => by rw [hq]; exact List.mem_cons_of_mem _ h)
      (by intro h; injection h with h; subst h; left; rw [hq]; simp))
  | wGetSentinel w rest hw hq =>
    exact Or.inl (wk w .sentinelDone rest hf (fun x h => by rw [hq]; exact List.mem_cons_of_mem _ h) (by intro h; cases h))
  | wTimeStart w t' hw =>
    exact Or.inl (wk w _ s.queue hf (fun _ h => h) (by intro h; injection h with h; subst h; right; rw [hw]; rfl))
  | wTimeEnd w t' a hw =>
    exact Or.inl (wk w _ s.queue hf (fun _ h => h)
      (by intro h; right; rw [hw]; split at h <;> (injection h with h; subst h; rfl)))
  | wApply w t' a b hw =>
    exact Or.inl (wk w _ s.queue hf (fun _ h => h) (by intro h; injection h with h; subst h; right; rw [hw]; rfl))
  | wClocks w t' a b hw =>
    exact Or.inl (wk w _ s.queue hf (fun _ h => h) (by intro h; injection h with h; subst h; right; rw [hw]; rfl))
  | wStatus w t' hw => exact Or.inl (wk w .taskDone s.queue hf (fun _ h => h) (by intro h; cases h))
  | wTaskDone w hw _ => exact Or.inl (wk w .cacq s.queue hf (fun _ h => h) (by intro h; cases h))
  | wCacq w hw _ => exact Or.inl (wk w .notify s.queue hf (fun _ h => h) (by intro h; cases h))
  | wNotify w hw => exact Or.inl (wk w .get s.queue hf (fun _ h => h) (by intro h; cases h))
  | wSentinelDone w hw _ => exact Or.inl (wk w .exited s.queue hf (fun _ h => h) (by intro h; cases h))

/-- steps that create nothing the clock invariant talks about -/
theorem InvD_silent {c : Cfg} (hc : c.WF) {s s' : State} (ha : InvA c s) (ha' : InvA c s') (h : InvD c s) (hs : Step c s s')
    (henv : s'.env = s.env) (hU : ∀ t, Undecided s t → Undecided s' t) (hF : ∀ t, InFlight s' t → InFlight s t)
    (hpc : ∀ w, s'.wpc w ≠ s.wpc w → PcClock (s'.wpc w) s'.clock ∧ (∀ t a, ¬ StartedAt (s'.wpc w) t a) ∧
      ∀ t, s'.wpc w ≠ .status t) : InvD c s' := by
  apply InvD_step_gen hc ha ha' h hs
  · intro t x _ hne; exact absurd (by rw [henv]) hne
  · intro w hw; exact (hpc w hw).1
  · intro t _ hu hu'; exact absurd (hU t hu') hu
  · intro t hf hnf; exact absurd (hF t hf) hnf
  · intro w t a hsa hnsa
    by_cases e : s'.wpc w = s.wpc w
    · rw [e] at hsa; exact absurd hsa hnsa
    · exact absurd hsa ((hpc w e).2.1 t a)
  · intro w t hw hnw
    by_cases e : s'.wpc w = s.wpc w
    · rw [e] at hw; exact absurd hw hnw
    · exact absurd hw ((hpc w e).2.2 t)
  · intro t hf hnf; exact absurd (hF t hf) hnf
  · intro t x ht hu hx hxd hnew
    exfalso; apply hnew
    rw [henv] at hx
    exact ⟨fun hc' => hu (hU t hc'), hx⟩

theorem pcClock_trivial {pc : WPc} (k : Nat) (h : ∀ t a, pc ≠ .timeEnd t a) (h2 : ∀ t a b, pc ≠ .apply t a b)
    (h3 : ∀ t a b, pc ≠ .clocks t a b) : PcClock pc k := by
  unfold PcClock
  cases pc with
  | timeEnd t a => exact absurd rfl (h t a)
  | apply t a b => exact absurd rfl (h2 t a b)
  | clocks t a b => exact absurd rfl (h3 t a b)
  | notStarted | begin | get | timeStart _ | status _ | taskDone | cacq | notify | sentinelDone | exited => trivial

/-- a worker moved to a program counter that carries no clock and is not `status` -/
theorem quiet_pc {s : State} (w : Nat) (pn : WPc) (k : Nat)
    (h1 : ∀ t a, pn ≠ .timeEnd t a) (h2 : ∀ t a b, pn ≠ .apply t a b) (h3 : ∀ t a b, pn ≠ .clocks t a b)
    (h4 : ∀ t, pn ≠ .status t) (x : Nat) (hx : upd s.wpc w pn x ≠ s.wpc x) :
    PcClock (upd s.wpc w pn x) k ∧ (∀ t a, ¬ StartedAt (upd s.wpc w pn x) t a) ∧ ∀ t, upd s.wpc w pn x ≠ .status t := by
  by_cases e : x = w
  · subst e; rw [upd_same]
    refine ⟨pcClock_trivial k h1 h2 h3, ?_, h4⟩
    rintro t a (hh | ⟨b, hh | hh⟩)
    · exact h1 t a hh
    · exact h2 t a b hh
    · exact h3 t a b hh
  · exact absurd (upd_other _ _ _ _ e) hx

/-- steps that leave the environment and the undecided set alone: only the moved program counter matters -/
theorem InvD_envsame {c : Cfg} (hc : c.WF) {s s' : State} (ha : InvA c s) (ha' : InvA c s') (h : InvD c s) (hs : Step c s s')
    (henv : s'.env = s.env) (hU : ∀ t, Undecided s t → Undecided s' t) (hF : ∀ t, InFlight s' t → InFlight s t)
    (n_pc : ∀ w, s'.wpc w ≠ s.wpc w → PcClock (s'.wpc w) s'.clock)
    (n_started : ∀ w t a, StartedAt (s'.wpc w) t a → ¬ StartedAt (s.wpc w) t a →
      ∀ d ∈ c.depsOf t, ∀ y, s.env.entry d = some y → y.st = .done → ∃ e, y.endC = some e ∧ e < a)
    (n_status : ∀ w t, s'.wpc w = .status t → s.wpc w ≠ .status t → False) : InvD c s' := by
  apply InvD_step_gen hc ha ha' h hs
  · intro t x _ hne; exact absurd (by rw [henv]) hne
  · exact n_pc
  · intro t _ hu hu'; exact absurd (hU t hu') hu
  · intro t hf hnf; exact absurd (hF t hf) hnf
  · intro w t a h1 h2 d hd y hy hyd
    rw [henv] at hy
    exact n_started w t a h1 h2 d hd y hy hyd
  · intro w t h1 h2; exact (n_status w t h1 h2).elim
  · intro t hf hnf; exact absurd (hF t hf) hnf
  · intro t x ht hu hx hxd hnew
    exfalso; apply hnew
    rw [henv] at hx
    exact ⟨fun hc' => hu (hU t hc'), hx⟩

/-- when the master decides `t`, every dependency of `t` is decided and final unless the decision is `wait` -/
theorem decide_deps_stable {c : Cfg} (hc : c.WF) {s : State} (ha : InvA c s) (t : Nat) (rest : List Nat)
    (ht : s.todo = t :: rest) (r : Decision) (env' : Env) (hd : decide c s.env s.left t = (r, env')) (hr : r ≠ .wait) :
    ∀ d ∈ c.depsOf t, Stable s d := by
  intro d hdd
  obtain ⟨hnl, x, hx, hxp⟩ := (decide_spec c s.env s.left t r env' hd).2.2.1 hr d hdd
  have hlt : d < t := hc.deps_lt t d hdd
  have htn : t < c.n := ha.undecided_lt t (Or.inl (by rw [ht]; simp))
  have hnu : ¬ Undecided s d := by
    rintro (hu | hu)
    · rw [ht] at hu
      rcases List.mem_cons.1 hu with hu | hu
      · omega
      · have hs := ha.todo_sorted
        rw [ht] at hs
        have := (List.pairwise_cons.1 hs).1 d hu
        omega
    · exact hnl hu
  obtain ⟨z, hz, hzf⟩ := ha.decided_status d (by omega) hnu
  rw [hx] at hz; injection hz with hz; subst hz
  rcases hzf with hzf | hzf
  · exact absurd hzf hxp
  · exact ⟨hnu, x, hx, hzf⟩

/-- the four decisions of the master -/
theorem InvD_decide {c : Cfg} (hc : c.WF) {s s' : State} (ha : InvA c s) (ha' : InvA c s') (h : InvD c s) (hs : Step c s s')
    (t : Nat) (rest : List Nat) (r : Decision) (env' : Env) (hm : s.mpc = .consider) (ht : s.todo = t :: rest)
    (hd : decide c s.env s.left t = (r, env'))
    (henv : s'.env = env') (hwpc : s'.wpc = s.wpc) (hclk : s'.clock = s.clock)
    (hund : ∀ x, x ≠ t → Undecided s x → Undecided s' x)
    (hundt : Undecided s' t ∨ r = .skip ∨ r = .drop)
    (hfl : ∀ x, InFlight s' x → ¬ InFlight s x → x = t ∧ r = .pending) : InvD c s' := by
  obtain ⟨F1, ⟨y, hy, hyo, hyn, hywait, hyskip, hydrop, hypend⟩, F3, F4, F5, F6⟩ := decide_spec c s.env s.left t r env' hd
  have hut : Undecided s t := Or.inl (by rw [ht]; simp)
  have hstab : r ≠ .wait → ∀ d ∈ c.depsOf t, Stable s' d := fun hr d hdd =>
    (stable_step ha hs d (decide_deps_stable hc ha t rest ht r env' hd hr d hdd)).2
  have hne : ∀ d ∈ c.depsOf t, d ≠ t := fun d hdd => by have := hc.deps_lt t d hdd; omega
  apply InvD_step_gen hc ha ha' h hs
  · intro t0 x hx hne0
    rw [henv] at hx hne0
    by_cases e : t0 = t
    · subst e
      rw [hy] at hx; injection hx with hx; subst hx
      rw [hclk]
      cases ho : s.env.entry t0 with
      | none =>
        obtain ⟨_, h2, h3⟩ := hyn ho
        exact ⟨fun v hv => (by rw [h2] at hv; cases hv), fun v hv => (by rw [h3] at hv; cases hv)⟩
      | some o =>
        obtain ⟨_, h2, h3⟩ := hyo o ho
        rw [h2, h3]
        exact h.clock_bound t0 o ho
    · exact absurd (F1 t0 e) hne0
  · intro w hw; exact absurd (by rw [hwpc]) hw
  · intro t0 _ hu hu' d hdd
    by_cases e : t0 = t
    · subst e
      rcases hundt with hh | hh | hh
      · exact absurd hh hu
      · exact hstab (by rw [hh]; simp) d hdd
      · exact hstab (by rw [hh]; simp) d hdd
    · exact absurd (hund t0 e hu') hu
  · intro t0 hf hnf d hdd
    obtain ⟨e, hr⟩ := hfl t0 hf hnf
    subst e
    exact hstab (by rw [hr]; simp) d hdd
  · intro w t0 a h1 h2; rw [hwpc] at h1; exact absurd h1 h2
  · intro w t0 h1 h2; rw [hwpc] at h1; exact absurd h1 h2
  · intro t0 hf hnf d hdd z hz
    obtain ⟨e, hr⟩ := hfl t0 hf hnf
    subst e
    rw [henv, F1 d (hne d (hc.hard_sub t0 d hdd))] at hz
    exact F4 (Or.inl hr) d hdd z hz
  · intro t0 x _ hu hx hxd hnew
    rw [henv] at hx
    by_cases e : t0 = t
    · subst e
      rw [hy] at hx; injection hx with hx; subst hx
      rcases hundt with hh | hh | hh
      · exact absurd hh hu
      · rw [hyskip hh] at hxd; cases hxd
      · obtain ⟨_, hsame⟩ := hydrop hh
        subst hh
        refine ⟨?_, ?_⟩
        · intro d hdd z hz hzd
          rw [henv, F1 d (hne d hdd)] at hz
          obtain ⟨o, ev, sv, ho, h1, h2, h3⟩ := decide_drop_clocks c s.env s.left t0 env' hd d hdd z hz hzd (hne d hdd)
          rw [hsame] at ho; injection ho with ho; subst ho
          exact ⟨ev, sv, h1, h2, h3⟩
        · intro d hdd z hz
          rw [henv, F1 d (hne d (hc.hard_sub t0 d hdd))] at hz
          exact F4 (Or.inr rfl) d hdd z hz
    · exfalso; apply hnew
      rw [F1 t0 e] at hx
      exact ⟨fun hc' => hu (hund t0 e hc'), hx⟩

theorem inflight_sub {c : Cfg} {s s' : State} (hs : Step c s s') (hm : ∀ t, s.mpc = .consider → s'.mpc ≠ .put t) :
    ∀ t, InFlight s' t → InFlight s t := by
  intro t hf
  rcases step_inflight hs t hf with h | ⟨h1, h2⟩
  · exact h
  · exact absurd h2 (hm t h1)

theorem startedAt_inj {pc : WPc} {t a t' a' : Nat} (h : StartedAt pc t a) (h' : StartedAt pc t' a') : t = t' ∧ a = a' := by
  rcases h with h | ⟨b, h | h⟩ <;> rcases h' with h' | ⟨b', h' | h'⟩ <;> rw [h] at h' <;> cases h' <;> exact ⟨rfl, rfl⟩

theorem upd_ne {s : State} {w x : Nat} {pn : WPc} (h : upd s.wpc w pn x ≠ s.wpc x) : x = w := by
  apply Classical.byContradiction; intro e; exact h (upd_other _ _ _ _ e)

/-- a worker writes the entry of the task it holds -/
theorem InvD_held {c : Cfg} (hc : c.WF) {s s' : State} (ha : InvA c s) (ha' : InvA c s') (h : InvD c s) (hs : Step c s s')
    (w t : Nat) (pn : WPc) (hheld : held (s.wpc w) = some t)
    (e_other : ∀ x, x ≠ t → s'.env.entry x = s.env.entry x) (e_wpc : s'.wpc = upd s.wpc w pn) (e_clk : s'.clock = s.clock)
    (e_todo : s'.todo = s.todo) (e_left : s'.left = s.left) (e_mpc : s'.mpc = s.mpc)
    (n_clock_t : ∀ x, s'.env.entry t = some x →
      (∀ v, x.startC = some v → v ≤ s.clock) ∧ (∀ v, x.endC = some v → v ≤ s.clock))
    (n_pc_w : PcClock pn s.clock)
    (n_started_w : ∀ t0 a, StartedAt pn t0 a → StartedAt (s.wpc w) t0 a)
    (n_status_w : ∀ t0, pn = .status t0 → ∃ x v, s'.env.entry t0 = some x ∧ x.startC = some v ∧
      ∀ d ∈ c.depsOf t0, ∀ y, s'.env.entry d = some y → y.st = .done → ∃ e, y.endC = some e ∧ e ≤ v)
    (n_cons_t : ∀ x, s'.env.entry t = some x → x.st = .done → Cons c s'.env t x) : InvD c s' := by
  have hU : ∀ x, Undecided s' x ↔ Undecided s x := by intro x; unfold Undecided; rw [e_todo, e_left]
  have hF := inflight_sub hs (fun t' hm' h2 => by rw [e_mpc, hm'] at h2; cases h2)
  apply InvD_step_gen hc ha ha' h hs
  · intro t0 x hx hne
    by_cases e : t0 = t
    · subst e; rw [e_clk]; exact n_clock_t x hx
    · exact absurd (e_other t0 e) hne
  · intro x hx
    rw [e_wpc] at hx ⊢
    have e := upd_ne hx
    subst e
    rw [upd_same, e_clk]; exact n_pc_w
  · intro t0 _ hu hu'; exact absurd ((hU t0).2 hu') hu
  · intro t0 hf hnf; exact absurd (hF t0 hf) hnf
  · intro x t0 a h1 h2
    rw [e_wpc] at h1
    by_cases e : x = w
    · subst e; rw [upd_same] at h1; exact absurd (n_started_w t0 a h1) h2
    · rw [upd_other _ _ _ _ e] at h1; exact absurd h1 h2
  · intro x t0 h1 h2
    rw [e_wpc] at h1
    by_cases e : x = w
    · subst e; rw [upd_same] at h1; exact n_status_w t0 h1
    · rw [upd_other _ _ _ _ e] at h1; exact absurd h1 h2
  · intro t0 hf hnf; exact absurd (hF t0 hf) hnf
  · intro t0 x _ hu hx hxd hnew
    by_cases e : t0 = t
    · subst e; exact n_cons_t x hx hxd
    · exfalso; apply hnew
      rw [e_other t0 e] at hx
      exact ⟨fun hc' => hu ((hU t0).2 hc'), hx⟩

/-- the clock invariant is preserved by every step of every thread -/
theorem InvD_step {c : Cfg} (hc : c.WF) {s s' : State} (ha : InvA c s) (h : InvD c s) (hs : Step c s s') : InvD c s' := by
  have ha' : InvA c s' := InvA_step hc ha hs
  have hsub : (∀ t, s.mpc = .consider → s'.mpc ≠ .put t) → ∀ t, InFlight s' t → InFlight s t := inflight_sub hs
  -- worker steps that move to a program counter without clocks
  have quiet : ∀ (w : Nat) (pn : WPc), s'.env = s.env → s'.wpc = upd s.wpc w pn → s'.mpc = s.mpc → s'.todo = s.todo →
      s'.left = s.left →
      (∀ t a, pn ≠ .timeEnd t a) → (∀ t a b, pn ≠ .apply t a b) → (∀ t a b, pn ≠ .clocks t a b) → (∀ t, pn ≠ .status t) →
      InvD c s' := by
    intro w pn e1 e2 e3 e4 e5 h1 h2 h3 h4
    apply InvD_silent hc ha ha' h hs e1
    · intro t ht; unfold Undecided at ht ⊢; rw [e4, e5]; exact ht
    · exact hsub (fun t hm => by rw [e3, hm]; simp)
    · intro x hx; rw [e2] at hx ⊢; exact quiet_pc w pn _ h1 h2 h3 h4 x hx
  cases hs with
  | mWait t rest env' hm ht hd =>
    refine InvD_decide hc ha ha' h (Step.mWait t rest env' hm ht hd) t rest _ env' hm ht hd ?_ ?_ ?_ ?_ ?_ ?_
    · rw [(advance_fields _).1]
    · rw [(advance_fields _).2.2.1]
    · rw [(advance_fields _).2.2.2.2.2.1]
    · intro x hx hu
      rw [undecided_advance]
      rcases hu with hu | hu
      · rw [ht] at hu
        rcases List.mem_cons.1 hu with hu | hu
        · exact absurd hu hx
        · left; show x ∈ s.todo.tail; rw [ht]; exact hu
      · right; exact List.mem_append_left _ hu
    · left; rw [undecided_advance]; right; show t ∈ s.left ++ [t]; simp
    · intro x hf hnf
      exact absurd (hsub (fun t' _ => (advance_fields _).2.2.2.2.2.2.2 t') x hf) hnf
  | mSkip t rest env' hm ht hd =>
    refine InvD_decide hc ha ha' h (Step.mSkip t rest env' hm ht hd) t rest _ env' hm ht hd ?_ ?_ ?_ ?_ ?_ ?_
    · rw [(advance_fields _).1]
    · rw [(advance_fields _).2.2.1]
    · rw [(advance_fields _).2.2.2.2.2.1]
    · intro x hx hu
      rw [undecided_advance]
      rcases hu with hu | hu
      · rw [ht] at hu
        rcases List.mem_cons.1 hu with hu | hu
        · exact absurd hu hx
        · left; show x ∈ s.todo.tail; rw [ht]; exact hu
      · right; exact hu
    · right; left; rfl
    · intro x hf hnf
      exact absurd (hsub (fun t' _ => (advance_fields _).2.2.2.2.2.2.2 t') x hf) hnf
  | mDrop t rest env' hm ht hd =>
    refine InvD_decide hc ha ha' h (Step.mDrop t rest env' hm ht hd) t rest _ env' hm ht hd ?_ ?_ ?_ ?_ ?_ ?_
    · rw [(advance_fields _).1]
    · rw [(advance_fields _).2.2.1]
    · rw [(advance_fields _).2.2.2.2.2.1]
    · intro x hx hu
      rw [undecided_advance]
      rcases hu with hu | hu
      · rw [ht] at hu
        rcases List.mem_cons.1 hu with hu | hu
        · exact absurd hu hx
        · left; show x ∈ s.todo.tail; rw [ht]; exact hu
      · right; exact hu
    · right; right; rfl
    · intro x hf hnf
      exact absurd (hsub (fun t' _ => (advance_fields _).2.2.2.2.2.2.2 t') x hf) hnf
  | mPending t rest env' hm ht hd =>
    refine InvD_decide hc ha ha' h (Step.mPending t rest env' hm ht hd) t rest _ env' hm ht hd rfl rfl rfl ?_ ?_ ?_
    · intro x _ hu; exact hu
    · left; exact Or.inl (by show t ∈ s.todo; rw [ht]; simp)
    · intro x hf hnf
      rcases step_inflight (Step.mPending t rest env' hm ht hd) x hf with h1 | ⟨_, h2⟩
      · exact absurd h1 hnf
      · injection h2 with h2; exact ⟨h2.symm, rfl⟩
  | mPut t hm =>
    obtain ⟨rest, hr⟩ := ha.put_head t hm
    have hfl : InFlight s t := Or.inr (Or.inl hm)
    have henv : (advance { s with queue := s.queue ++ [some t], unfinished := s.unfinished + 1 }).env = s.env := by
      rw [(advance_fields _).1]
    have hund : ∀ x, x ≠ t → Undecided s x →
        Undecided (advance { s with queue := s.queue ++ [some t], unfinished := s.unfinished + 1 }) x := by
      intro x hx hu
      rw [undecided_advance]
      rcases hu with hu | hu
      · show x ∈ s.todo.tail ∨ x ∈ s.left
        rw [hr] at hu ⊢
        rcases List.mem_cons.1 hu with hu | hu
        · exact absurd hu hx
        · exact Or.inl hu
      · exact Or.inr hu
    have hF := hsub (fun t' _ => (advance_fields _).2.2.2.2.2.2.2 t')
    apply InvD_step_gen hc ha ha' h (Step.mPut t hm)
    · intro t0 x _ hne; exact absurd (by rw [henv]) hne
    · intro w hw; rw [(advance_fields _).2.2.1] at hw; exact absurd rfl hw
    · intro t0 _ hu hu' d hdd
      by_cases e : t0 = t
      · subst e
        exact (stable_step ha (Step.mPut t0 hm) d (h.inflight_deps_stable t0 hfl d hdd)).2
      · exact absurd (hund t0 e hu') hu
    · intro t0 hf hnf; exact absurd (hF t0 hf) hnf
    · intro w t0 a h1 h2; rw [(advance_fields _).2.2.1] at h1; exact absurd h1 h2
    · intro w t0 h1 h2; rw [(advance_fields _).2.2.1] at h1; exact absurd h1 h2
    · intro t0 hf hnf; exact absurd (hF t0 hf) hnf
    · intro t0 x _ hu hx hxd hnew
      rw [henv] at hx
      by_cases e : t0 = t
      · subst e
        obtain ⟨⟨z, hz, hzp⟩, _⟩ := ha.inflight_pending t0 hfl
        rw [hx] at hz; injection hz with hz; subst hz; rw [hzp] at hxd; cases hxd
      · exfalso; apply hnew
        exact ⟨fun hc' => hu (hund t0 e hc'), hx⟩
  | mSpawn k hm =>
    apply InvD_silent hc ha ha' h (Step.mSpawn k hm) rfl (fun _ hu => hu)
    · exact hsub (fun t' _ => by show afterSpawn c k ≠ _; unfold afterSpawn; split <;> (try split) <;> simp)
    · intro x hx
      have e := upd_ne hx
      subst e
      exact quiet_pc x .begin _ (by simp) (by simp) (by simp) (by simp) x hx
  | mAcq hm hcn =>
    apply InvD_silent hc ha ha' h (Step.mAcq hm hcn) rfl (fun _ hu => hu)
    · exact hsub (fun t' _ => by simp)
    · intro x hx; exact absurd rfl hx
  | mWake hm hn hcn =>
    have htd := ha.wake_todo hm
    apply InvD_silent hc ha ha' h (Step.mWake hm hn hcn) rfl
    · intro x hu
      rcases hu with hu | hu
      · rw [htd] at hu; cases hu
      · exact Or.inl hu
    · exact hsub (fun t' _ => by simp)
    · intro x hx; exact absurd rfl hx
  | mQjoin hm hu =>
    apply InvD_silent hc ha ha' h (Step.mQjoin hm hu) rfl (fun _ hu => hu)
    · exact hsub (fun t' hm' => by rw [hm] at hm'; cases hm')
    · intro x hx; exact absurd rfl hx
  | mSentinel k hm =>
    apply InvD_silent hc ha ha' h (Step.mSentinel k hm) rfl (fun _ hu => hu)
    · exact hsub (fun t' hm' => by rw [hm] at hm'; cases hm')
    · intro x hx; exact absurd rfl hx
  | mJoin k hm he =>
    apply InvD_silent hc ha ha' h (Step.mJoin k hm he) rfl (fun _ hu => hu)
    · exact hsub (fun t' hm' => by rw [hm] at hm'; cases hm')
    · intro x hx; exact absurd rfl hx
  | wBegin w hw => exact quiet w .get rfl rfl rfl rfl rfl (by simp) (by simp) (by simp) (by simp)
  | wGetTask w t rest hw hq => exact quiet w (.timeStart t) rfl rfl rfl rfl rfl (by simp) (by simp) (by simp) (by simp)
  | wGetSentinel w rest hw hq => exact quiet w .sentinelDone rfl rfl rfl rfl rfl (by simp) (by simp) (by simp) (by simp)
  | wTaskDone w hw hu => exact quiet w .cacq rfl rfl rfl rfl rfl (by simp) (by simp) (by simp) (by simp)
  | wCacq w hw hcn => exact quiet w .notify rfl rfl rfl rfl rfl (by simp) (by simp) (by simp) (by simp)
  | wNotify w hw => exact quiet w .get rfl rfl rfl rfl rfl (by simp) (by simp) (by simp) (by simp)
  | wSentinelDone w hw hu => exact quiet w .exited rfl rfl rfl rfl rfl (by simp) (by simp) (by simp) (by simp)
  | wTimeStart w t hw =>
    have hstep := Step.wTimeStart (c := c) w t hw
    apply InvD_envsame hc ha ha' h hstep rfl (fun _ hu => hu) (hsub (fun t' hm' h2 => by
      have h2' : s.mpc = .put t' := h2
      rw [hm'] at h2'; cases h2'))
    · intro x hx
      have e := upd_ne hx
      subst e
      show PcClock (upd s.wpc x (.timeEnd t (s.clock + 1)) x) (s.clock + 1)
      rw [upd_same]; exact Nat.le_refl _
    · intro x t0 a h1 h2 d hdd y hy hyd
      have h1' : StartedAt (upd s.wpc w (.timeEnd t (s.clock + 1)) x) t0 a := h1
      by_cases e : x = w
      · subst e
        rw [upd_same] at h1'
        obtain ⟨e1, e2⟩ := startedAt_inj h1' (Or.inl rfl)
        subst e1 e2
        obtain ⟨_, _, hend⟩ := ha.done_pub d y hy hyd
        cases hev : y.endC with
        | none => rw [hev] at hend; cases hend
        | some ev =>
          have := (h.clock_bound d y hy).2 ev hev
          exact ⟨ev, rfl, by omega⟩
      · rw [upd_other _ _ _ _ e] at h1'; exact absurd h1' h2
    · intro x t0 h1 h2
      have h1' : upd s.wpc w (.timeEnd t (s.clock + 1)) x = .status t0 := h1
      by_cases e : x = w
      · subst e; rw [upd_same] at h1'; cases h1'
      · rw [upd_other _ _ _ _ e] at h1'; exact h2 h1'
  | wTimeEnd w t a hw =>
    have hstep := Step.wTimeEnd (c := c) w t a hw
    have hpa : a ≤ s.clock := by have := h.pc_clock w; rw [hw] at this; exact this
    apply InvD_envsame hc ha ha' h hstep rfl (fun _ hu => hu) (hsub (fun t' hm' h2 => by
      have h2' : s.mpc = .put t' := h2
      rw [hm'] at h2'; cases h2'))
    · intro x hx
      have e := upd_ne hx
      subst e
      show PcClock (upd s.wpc x (if (c.outOf t).hasUpdate then .apply t a (s.clock + 1) else .clocks t a (s.clock + 1)) x)
        (s.clock + 1)
      rw [upd_same]
      split <;> exact ⟨by omega, Nat.le_refl _⟩
    · intro x t0 a0 h1 h2
      exfalso
      have h1' : StartedAt (upd s.wpc w (if (c.outOf t).hasUpdate then .apply t a (s.clock + 1)
        else .clocks t a (s.clock + 1)) x) t0 a0 := h1
      by_cases e : x = w
      · subst e
        rw [upd_same] at h1'
        have : StartedAt (if (c.outOf t).hasUpdate then WPc.apply t a (s.clock + 1) else .clocks t a (s.clock + 1)) t a := by
          split
          · exact Or.inr ⟨_, Or.inl rfl⟩
          · exact Or.inr ⟨_, Or.inr rfl⟩
        obtain ⟨e1, e2⟩ := startedAt_inj h1' this
        subst e1 e2
        exact h2 (by rw [hw]; exact Or.inl rfl)
      · rw [upd_other _ _ _ _ e] at h1'; exact h2 h1'
    · intro x t0 h1 h2
      have h1' : upd s.wpc w (if (c.outOf t).hasUpdate then .apply t a (s.clock + 1)
        else .clocks t a (s.clock + 1)) x = .status t0 := h1
      by_cases e : x = w
      · subst e; rw [upd_same] at h1'; split at h1' <;> cases h1'
      · rw [upd_other _ _ _ _ e] at h1'; exact h2 h1'
  | wApply w t a b hw =>
    have hheld : held (s.wpc w) = some t := by rw [hw]; rfl
    have hfl : InFlight s t := Or.inr (Or.inr ⟨w, hheld⟩)
    obtain ⟨⟨o, ho, hop⟩, _⟩ := ha.inflight_pending t hfl
    have hnew : (updEntry s.env t fun x => { x with pay := some a }).entry t = some { o with pay := some a } := by
      rw [entry_updEntry_same, ho]; rfl
    apply InvD_held hc ha ha' h (Step.wApply w t a b hw) w t (.clocks t a b) hheld
      (fun x hx => entry_updEntry_other _ _ _ _ hx) rfl rfl rfl rfl rfl
    · intro x hx
      have hx' : (updEntry s.env t fun x => { x with pay := some a }).entry t = some x := hx
      rw [hnew] at hx'; injection hx' with hx'; subst hx'
      exact h.clock_bound t o ho
    · have := h.pc_clock w; rw [hw] at this; exact this
    · intro t0 a0 h1
      obtain ⟨e1, e2⟩ := startedAt_inj h1 (Or.inr ⟨b, Or.inr rfl⟩)
      subst e1 e2; rw [hw]; exact Or.inr ⟨b, Or.inl rfl⟩
    · intro t0 h1; cases h1
    · intro x hx hxd
      have hx' : (updEntry s.env t fun x => { x with pay := some a }).entry t = some x := hx
      rw [hnew] at hx'; injection hx' with hx'; subst hx'
      have : o.st = .done := hxd
      rw [hop] at this; cases this
  | wClocks w t a b hw =>
    have hheld : held (s.wpc w) = some t := by rw [hw]; rfl
    have hfl : InFlight s t := Or.inr (Or.inr ⟨w, hheld⟩)
    obtain ⟨⟨o, ho, hop⟩, _⟩ := ha.inflight_pending t hfl
    have hnew : (updEntry s.env t fun x => { x with startC := some a, endC := some b }).entry t =
        some { o with startC := some a, endC := some b } := by
      rw [entry_updEntry_same, ho]; rfl
    have hpc : a ≤ b ∧ b ≤ s.clock := by have := h.pc_clock w; rw [hw] at this; exact this
    apply InvD_held hc ha ha' h (Step.wClocks w t a b hw) w t (.status t) hheld
      (fun x hx => entry_updEntry_other _ _ _ _ hx) rfl rfl rfl rfl rfl
    · intro x hx
      have hx' : (updEntry s.env t fun x => { x with startC := some a, endC := some b }).entry t = some x := hx
      rw [hnew] at hx'; injection hx' with hx'; subst hx'
      refine ⟨fun v hv => ?_, fun v hv => ?_⟩
      · have : some a = some v := hv
        injection this with this; omega
      · have : some b = some v := hv
        injection this with this; omega
    · trivial
    · intro t0 a0 h1; rcases h1 with h1 | ⟨_, h1 | h1⟩ <;> cases h1
    · intro t0 h1
      injection h1 with h1; subst h1
      refine ⟨_, a, hnew, rfl, ?_⟩
      intro d hdd y hy hyd
      have hne : d ≠ t := by have := hc.deps_lt t d hdd; omega
      have hy' : (updEntry s.env t fun x => { x with startC := some a, endC := some b }).entry d = some y := hy
      rw [entry_updEntry_other _ _ _ _ hne] at hy'
      obtain ⟨e, he, hlt⟩ := h.started_after w t a (by rw [hw]; exact Or.inr ⟨b, Or.inr rfl⟩) d hdd y hy' hyd
      exact ⟨e, he, by omega⟩
    · intro x hx hxd
      have hx' : (updEntry s.env t fun x => { x with startC := some a, endC := some b }).entry t = some x := hx
      rw [hnew] at hx'; injection hx' with hx'; subst hx'
      have : o.st = .done := hxd
      rw [hop] at this; cases this
  | wStatus w t hw =>
    have hheld : held (s.wpc w) = some t := by rw [hw]; rfl
    have hfl : InFlight s t := Or.inr (Or.inr ⟨w, hheld⟩)
    obtain ⟨o, v, ho, hov, hdeps⟩ := h.status_after w t hw
    obtain ⟨y, hy, hyst, hyo, _⟩ := entry_setSt_same s.env t (c.outOf t).status
    obtain ⟨_, hys, hye⟩ := hyo o ho
    apply InvD_held hc ha ha' h (Step.wStatus w t hw) w t .taskDone hheld
      (fun x hx => entry_setSt_other _ _ _ _ hx) rfl rfl rfl rfl rfl
    · intro x hx
      have hx' : (s.env.setSt t (c.outOf t).status).entry t = some x := hx
      rw [hy] at hx'; injection hx' with hx'; subst hx'
      rw [hys, hye]
      exact h.clock_bound t o ho
    · trivial
    · intro t0 a0 h1; rcases h1 with h1 | ⟨_, h1 | h1⟩ <;> cases h1
    · intro t0 h1; cases h1
    · intro x hx hxd
      have hx' : (s.env.setSt t (c.outOf t).status).entry t = some x := hx
      rw [hy] at hx'; injection hx' with hx'; subst hx'
      refine ⟨?_, ?_⟩
      · intro d hdd z hz hzd
        have hne : d ≠ t := by have := hc.deps_lt t d hdd; omega
        have hz' : (s.env.setSt t (c.outOf t).status).entry d = some z := hz
        rw [entry_setSt_other _ _ _ _ hne] at hz'
        obtain ⟨e, he, hle⟩ := hdeps d hdd z hz' hzd
        exact ⟨e, v, he, by rw [hys]; exact hov, hle⟩
      · intro d hdd z hz
        have hne : d ≠ t := by have := hc.deps_lt t d (hc.hard_sub t d hdd); omega
        have hz' : (s.env.setSt t (c.outOf t).status).entry d = some z := hz
        rw [entry_setSt_other _ _ _ _ hne] at hz'
        exact h.inflight_hard_ok t hfl d hdd z hz'

end Sched
