import Model.DepGraph
import Mathlib.Data.List.Nodup
/-! Helper lemmas for C16: association lists, the RList index invariant. -/
set_option linter.unusedSimpArgs false
set_option linter.unusedVariables false
namespace DG

def AL.keys (l : AL) : List Nat := l.map (·.1)

@[simp] theorem AL.get_nil (k : Nat) : AL.get [] k = none := rfl
@[simp] theorem AL.get_cons (a : Nat) (b : List Nat) (r : AL) (k : Nat) :
    AL.get ((a, b) :: r) k = if a = k then some b else AL.get r k := rfl

theorem AL.get_set (l : AL) (k k' : Nat) (v : List Nat) :
    (l.set k v).get k' = if k' = k then some v else l.get k' := by
  induction l with
  | nil => simp [AL.set]; grind
  | cons hd tl ih =>
    obtain ⟨a, b⟩ := hd
    simp only [AL.set]
    split <;> simp [ih] <;> grind

theorem AL.get_erase (l : AL) (k k' : Nat) :
    (l.erase k).get k' = if k' = k then none else l.get k' := by
  induction l with
  | nil => simp [AL.erase]
  | cons hd tl ih =>
    obtain ⟨a, b⟩ := hd
    simp only [AL.erase] at ih ⊢
    by_cases h : a = k
    · subst h; simp [List.filter_cons, ih]; grind
    · simp [List.filter_cons, h, ih]; grind

theorem AL.get_mapVals (f : List Nat → List Nat) (l : AL) (k : Nat) :
    (l.mapVals f).get k = (l.get k).map f := by
  induction l with
  | nil => simp [AL.mapVals]
  | cons hd tl ih =>
    obtain ⟨a, b⟩ := hd
    simp only [AL.mapVals, List.map_cons] at ih ⊢
    by_cases h : a = k <;> simp [h, ih]

theorem AL.get_isSome_iff (l : AL) (k : Nat) : (l.get k).isSome ↔ k ∈ l.keys := by
  induction l with
  | nil => simp [AL.keys]
  | cons hd tl ih =>
    obtain ⟨a, b⟩ := hd
    simp only [AL.keys, List.map_cons, List.mem_cons] at ih ⊢
    by_cases h : a = k <;> simp [h, ih] <;> grind

theorem AL.get_eq_none_iff (l : AL) (k : Nat) : l.get k = none ↔ k ∉ l.keys := by
  rw [← AL.get_isSome_iff]; cases l.get k <;> simp

theorem AL.get_filterMapVals (f : List Nat → Option (List Nat)) (l : AL) (h : l.keys.Nodup) (k : Nat) :
    (l.filterMapVals f).get k = (l.get k).bind f := by
  induction l with
  | nil => simp [AL.filterMapVals]
  | cons hd tl ih =>
    obtain ⟨a, b⟩ := hd
    simp only [AL.keys, List.map_cons, List.nodup_cons] at h
    have ih' := ih h.2
    simp only [AL.filterMapVals, List.filterMap_cons] at ih' ⊢
    by_cases hk : a = k
    · subst hk
      cases hf : f b with
      | some v => simp [hf]
      | none =>
        simp [hf]
        rw [ih']
        have : AL.get tl a = none := (AL.get_eq_none_iff tl a).2 h.1
        simp [this]
    · cases hf : f b <;> simp [hf, hk, ih']

theorem AL.keys_set (l : AL) (k : Nat) (v : List Nat) :
    (l.set k v).keys = if k ∈ l.keys then l.keys else l.keys ++ [k] := by
  induction l with
  | nil => simp [AL.set, AL.keys]
  | cons hd tl ih =>
    obtain ⟨a, b⟩ := hd
    simp only [AL.keys, List.map_cons] at ih ⊢
    simp only [AL.set]
    by_cases h : a = k
    · simp [h]
    · simp [h, ih]; grind

theorem AL.keys_set_nodup (l : AL) (k : Nat) (v : List Nat) (h : l.keys.Nodup) : (l.set k v).keys.Nodup := by
  rw [AL.keys_set]; split
  · exact h
  · rw [List.nodup_append]; simp_all; grind

theorem AL.keys_erase_nodup (l : AL) (k : Nat) (h : l.keys.Nodup) : (l.erase k).keys.Nodup := by
  unfold AL.erase AL.keys at *
  exact (List.filter_sublist.map _).nodup h

theorem AL.keys_mapVals (f : List Nat → List Nat) (l : AL) : (l.mapVals f).keys = l.keys := by
  simp [AL.mapVals, AL.keys, Function.comp_def]

theorem AL.keys_filterMapVals_nodup (f : List Nat → Option (List Nat)) (l : AL) (h : l.keys.Nodup) :
    (l.filterMapVals f).keys.Nodup := by
  have : ((l.filterMapVals f).keys).Sublist l.keys := by
    induction l with
    | nil => simp [AL.filterMapVals, AL.keys]
    | cons hd tl ih =>
      obtain ⟨a, b⟩ := hd
      simp only [AL.keys, List.map_cons, List.nodup_cons] at h
      have ih' := ih h.2
      simp only [AL.filterMapVals, AL.keys, List.filterMap_cons, List.map_cons] at ih' ⊢
      cases hf : f b with
      | none => simp [hf]; exact List.Sublist.cons _ ih'
      | some v => simp [hf]; exact ih'
  exact this.nodup h

/-! ### RList invariant: the index lists exactly the positions of each key -/

theorem getElem?_snoc_eq_some (l : List Nat) (x k p : Nat) :
    (l ++ [x])[p]? = some k ↔ l[p]? = some k ∨ (p = l.length ∧ x = k) := by
  rw [List.getElem?_append]
  by_cases hp : p < l.length
  · simp [hp]; omega
  · simp [hp]
    by_cases hq : p = l.length
    · subst hq; simp
    · have : p - l.length = (p - l.length - 1) + 1 := by omega
      rw [this]; simp; omega

/-- positions listed for key `k` -/
def RList.pos (r : RList) (k : Nat) : List Nat := (r.index.get k).getD []

structure RInv (r : RList) : Prop where
  keys : r.index.keys.Nodup
  mem : ∀ k p, p ∈ r.pos k ↔ r.seq[p]? = some k
  nonempty : ∀ k, r.index.get k ≠ some []
  nodup : ∀ k, (r.pos k).Nodup

theorem get_idxPush (ix : AL) (k i k' : Nat) :
    (idxPush ix k i).get k' = if k' = k then some ((ix.get k).getD [] ++ [i]) else ix.get k' := by
  simp [idxPush, AL.get_set]

theorem RInv.empty : RInv RList.empty := by
  constructor <;> simp [RList.empty, AL.keys, RList.pos]

theorem RInv.append {r : RList} (h : RInv r) (x : Nat) : RInv (r.append x) := by
  constructor
  · exact AL.keys_set_nodup _ _ _ h.keys
  · intro k p
    have hm := h.mem k p
    simp only [RList.pos] at hm
    simp only [RList.append, RList.pos, get_idxPush, getElem?_snoc_eq_some]
    by_cases hk : k = x
    · subst hk; simp [hm]
    · simp [hk, hm]; intro _ e; exact absurd e.symm hk
  · intro k
    simp only [RList.append, get_idxPush]
    split
    · simp
    · exact h.nonempty k
  · intro k
    have hn := h.nodup k
    have hm := h.mem k r.seq.length
    simp only [RList.pos] at hn hm
    simp only [RList.append, RList.pos, get_idxPush]
    split
    · rename_i hk; subst hk
      simp only [Option.getD_some]
      rw [List.nodup_append]
      refine ⟨hn, by simp, ?_⟩
      intro a ha b hb
      simp at hb; subst hb
      intro e; subst e
      rw [hm] at ha; simp at ha
    · exact hn

theorem RInv.ofList (l : List Nat) : RInv (RList.ofList l) := by
  unfold RList.ofList
  suffices ∀ r, RInv r → RInv (l.foldl RList.append r) from this _ RInv.empty
  induction l with
  | nil => intro r h; exact h
  | cons a t ih => intro r h; exact ih _ (h.append a)

theorem RList.seq_ofList_aux (l : List Nat) (r : RList) : (l.foldl RList.append r).seq = r.seq ++ l := by
  induction l generalizing r with
  | nil => simp
  | cons a t ih => simp [ih, RList.append]

theorem RList.seq_ofList (l : List Nat) : (RList.ofList l).seq = l := by
  simp [RList.ofList, RList.seq_ofList_aux, RList.empty]

theorem RInv.pos_ne_nil_iff {r : RList} (h : RInv r) (x : Nat) : r.pos x ≠ [] ↔ x ∈ r.seq := by
  constructor
  · intro hne
    obtain ⟨p, hp⟩ := List.exists_mem_of_ne_nil _ hne
    exact List.mem_of_getElem? ((h.mem x p).1 hp)
  · intro hx
    obtain ⟨p, hp⟩ := List.getElem?_of_mem hx
    have := (h.mem x p).2 hp
    intro e; rw [e] at this; simp at this

/-- `get_index` returns a position of the value, `None` exactly when the value is absent -/
theorem rlist_getIndex_spec {r : RList} (h : RInv r) (x : Nat) :
    (∀ i, r.getIndex x = some i → r.seq[i]? = some x) ∧ (r.getIndex x = none ↔ x ∉ r.seq) := by
  have hne := h.pos_ne_nil_iff x
  have hmem := h.mem x
  have hnn := h.nonempty x
  unfold RList.pos at hne hmem
  unfold RList.getIndex
  cases hg : r.index.get x with
  | none => simp [hg] at hne ⊢; exact hne
  | some l =>
    cases l with
    | nil => exact absurd hg hnn
    | cons i t =>
      simp [hg] at hne hmem ⊢
      exact ⟨(hmem i).1 (Or.inl rfl), hne⟩

theorem RInv.contains_iff {r : RList} (h : RInv r) (x : Nat) : r.contains x = true ↔ x ∈ r.seq := by
  have hne := h.pos_ne_nil_iff x
  have hnn := h.nonempty x
  unfold RList.pos at hne
  unfold RList.contains
  cases hg : r.index.get x with
  | none => simp [hg] at hne ⊢; exact hne
  | some l =>
    cases l with
    | nil => exact absurd hg hnn
    | cons i t => simp [hg] at hne ⊢; exact hne

theorem RList.setItem_ok {r : RList} (h : RInv r) (i v : Nat) (hi : i < r.seq.length) :
    ∃ r', r.setItem i v = .ok r' ∧ r'.seq = r.seq.set i v ∧ RInv r' := by
  obtain ⟨old, hold⟩ : ∃ old, r.seq[i]? = some old := ⟨r.seq[i], by simp [hi]⟩
  have hin : i ∈ (r.index.get old).getD [] := (h.mem old i).2 hold
  simp only [RList.setItem, hold, hin, if_true]
  refine ⟨_, rfl, rfl, ?_⟩
  -- positions after removing `i` from `old`'s list
  have hix : ∀ k, ((if (((r.index.get old).getD []).erase i).isEmpty then r.index.erase old
        else r.index.set old (((r.index.get old).getD []).erase i)).get k).getD []
      = if k = old then ((r.index.get old).getD []).erase i else (r.index.get k).getD [] := by
    intro k
    split
    · rename_i he
      rw [AL.get_erase]; split
      · simp at he; simp [he]
      · rfl
    · rw [AL.get_set]; split <;> simp
  have hnd := h.nodup old
  simp only [RList.pos] at hnd
  constructor
  · apply AL.keys_set_nodup
    split
    · exact AL.keys_erase_nodup _ _ h.keys
    · exact AL.keys_set_nodup _ _ _ h.keys
  · intro k p
    have hm := h.mem k p
    have hmo := h.mem old p
    simp only [RList.pos] at hm hmo ⊢
    simp only [get_idxPush]
    rw [List.getElem?_set]
    by_cases hkv : k = v
    · subst hkv
      simp only [if_true, Option.getD_some, List.mem_append, List.mem_singleton]
      rw [hix]
      by_cases hko : k = old
      · subst hko; simp [hnd.mem_erase_iff, hi]; grind
      · simp [hko, hi]; grind
    · simp only [hkv, if_false]
      rw [hix]
      by_cases hko : k = old
      · subst hko; simp [hnd.mem_erase_iff, hi]; grind
      · simp [hko, hi]; grind
  · intro k
    simp only [get_idxPush]
    split
    · simp
    · split
      · rw [AL.get_erase]; split
        · simp
        · exact h.nonempty k
      · rename_i hne
        rw [AL.get_set]; split
        · intro e; injection e with e; simp [e] at hne
        · exact h.nonempty k
  · intro k
    have hn := h.nodup k
    simp only [RList.pos] at hn ⊢
    simp only [get_idxPush]
    split
    · rename_i hk; subst hk
      simp only [Option.getD_some]
      rw [hix, List.nodup_append]
      refine ⟨?_, by simp, ?_⟩
      · split
        · exact hnd.erase i
        · exact hn
      · intro a ha b hb
        simp at hb; subst hb
        intro e; subst e
        split at ha
        · rename_i hko; exact (hnd.mem_erase_iff.1 ha).1 rfl
        · rename_i hko
          have := (h.mem k a).1 ha
          rw [hold] at this; injection this with this; exact hko this.symm
    · rw [hix]; split
      · exact hnd.erase i
      · exact hn

theorem RList.delItem_ok {r : RList} (h : RInv r) (i : Nat) (hi : i < r.seq.length) :
    ∃ r', r.delItem i = .ok r' ∧ r'.seq = r.seq.eraseIdx i ∧ RInv r' := by
  simp only [RList.delItem, hi, if_true]
  refine ⟨_, rfl, rfl, ?_⟩
  have hget := AL.get_filterMapVals (fun inds => nonEmpty? (delShift i inds)) r.index h.keys
  have hpos : ∀ k, ((r.index.filterMapVals (fun inds => nonEmpty? (delShift i inds))).get k).getD [] =
      delShift i (r.pos k) := by
    intro k
    rw [hget]; unfold RList.pos
    cases hg : r.index.get k with
    | none => simp [delShift]
    | some l =>
      simp only [Option.bind_some, Option.getD_some, nonEmpty?]
      split
      · rename_i he; exact (List.isEmpty_iff.1 he).symm
      · rfl
  constructor
  · exact AL.keys_filterMapVals_nodup (fun inds => nonEmpty? (delShift i inds)) _ h.keys
  · intro k p
    simp only [RList.pos]
    rw [hpos, List.getElem?_eraseIdx]
    simp only [delShift, List.mem_map, List.mem_filter]
    have hm := h.mem k
    constructor
    · rintro ⟨j, ⟨hj, hne⟩, rfl⟩
      have hne : j ≠ i := by simpa using hne
      have := (hm j).1 hj
      by_cases hlt : j < i
      · simpa [hlt] using this
      · have h3 : j - 1 + 1 = j := by omega
        have h2 : ¬ (j - 1 < i) := by omega
        simpa [hlt, h2, h3] using this
    · intro hp
      split at hp
      · rename_i hlt
        exact ⟨p, ⟨(hm p).2 hp, by simp; omega⟩, by simp [hlt]⟩
      · rename_i hge
        have h3 : ¬ (p + 1 < i) := by omega
        exact ⟨p + 1, ⟨(hm (p+1)).2 hp, by simp; omega⟩, by simp [h3]⟩
  · intro k
    rw [hget]
    cases hg : r.index.get k with
    | none => simp
    | some l =>
      simp only [Option.bind_some, nonEmpty?]
      split
      · simp
      · rename_i hne; intro e; injection e with e; simp [e] at hne
  · intro k
    simp only [RList.pos]
    rw [hpos]; unfold delShift
    apply List.Nodup.map_on
    · intro a ha b hb
      simp at ha hb
      split <;> split <;> omega
    · exact (h.nodup k).filter _

theorem RList.insert_inv {r : RList} (h : RInv r) (i v : Nat) :
    RInv (r.insert i v) ∧ (r.insert i v).seq = r.seq.insertIdx (min r.seq.length i) v := by
  refine ⟨?_, rfl⟩
  generalize hi' : min r.seq.length i = i'
  have hle : i' ≤ r.seq.length := by omega
  have hpos : ∀ k, ((r.index.mapVals (insShift i')).get k).getD [] =
      (r.pos k).map fun j => if j < i' then j else j + 1 := by
    intro k; rw [AL.get_mapVals]; unfold RList.pos
    cases r.index.get k <;> simp [insShift]
  simp only [RList.insert, hi']
  constructor
  · apply AL.keys_set_nodup; rw [AL.keys_mapVals]; exact h.keys
  · intro k p
    simp only [RList.pos, get_idxPush]
    rw [List.getElem?_insertIdx]
    have hm := h.mem k
    by_cases hkv : k = v
    · subst hkv
      simp only [if_true, Option.getD_some, List.mem_append, List.mem_singleton]
      rw [hpos]; simp only [List.mem_map]
      constructor
      · rintro (⟨j, hj, rfl⟩ | rfl)
        · have := (hm j).1 hj
          by_cases hlt : j < i'
          · simpa [hlt] using this
          · have h1 : ¬ (j + 1 < i') := by omega
            have h2 : ¬ (j + 1 = i') := by omega
            simpa [hlt, h1, h2] using this
        · simp [hle]
      · intro hp
        split at hp
        · rename_i hlt; left; exact ⟨p, (hm p).2 hp, by simp [hlt]⟩
        · split at hp
          · right; assumption
          · rename_i h1 h2; left
            refine ⟨p - 1, (hm _).2 hp, ?_⟩
            have : ¬ (p - 1 < i') := by omega
            simp [this]; omega
    · simp only [hkv, if_false]
      rw [hpos]; simp only [List.mem_map]
      constructor
      · rintro ⟨j, hj, rfl⟩
        have := (hm j).1 hj
        by_cases hlt : j < i'
        · simpa [hlt] using this
        · have h1 : ¬ (j + 1 < i') := by omega
          have h2 : ¬ (j + 1 = i') := by omega
          simpa [hlt, h1, h2] using this
      · intro hp
        split at hp
        · rename_i hlt; exact ⟨p, (hm p).2 hp, by simp [hlt]⟩
        · split at hp
          · split at hp
            · injection hp with hp; exact absurd hp.symm hkv
            · exact absurd hp (by simp)
          · rename_i h1 h2
            refine ⟨p - 1, (hm _).2 hp, ?_⟩
            have : ¬ (p - 1 < i') := by omega
            simp [this]; omega
  · intro k
    simp only [get_idxPush]
    split
    · simp
    · rw [AL.get_mapVals]
      have := h.nonempty k
      cases hg : r.index.get k with
      | none => simp
      | some l => simp [insShift]; intro e; exact this (by rw [hg, e])
  · intro k
    simp only [RList.pos, get_idxPush]
    have hmap : ((r.pos k).map fun j => if j < i' then j else j + 1).Nodup := by
      apply List.Nodup.map_on
      · intro a _ b _; split <;> split <;> omega
      · exact h.nodup k
    split
    · rename_i hk; subst hk
      simp only [Option.getD_some]
      rw [hpos, List.nodup_append]
      refine ⟨hmap, by simp, ?_⟩
      intro a ha b hb
      simp at hb; subst hb
      simp only [List.mem_map] at ha
      obtain ⟨j, _, rfl⟩ := ha
      split <;> omega
    · rw [hpos]; exact hmap

theorem RList.swap_ok {r : RList} (h : RInv r) (i j : Nat) (hi : i < r.seq.length) (hj : j < r.seq.length) :
    ∃ r', r.swap i j = .ok r' ∧ r'.seq = (r.seq.set i r.seq[j]).set j r.seq[i] ∧ RInv r' := by
  obtain ⟨r1, e1, s1, h1⟩ := RList.setItem_ok h i r.seq[j] hi
  have hj' : j < r1.seq.length := by rw [s1]; simpa using hj
  obtain ⟨r2, e2, s2, h2⟩ := RList.setItem_ok h1 j r.seq[i] hj'
  refine ⟨r2, ?_, by rw [s2, s1], h2⟩
  simp [RList.swap, hi, hj, e1, e2, bind, Except.bind]

structure GInv (g : G) : Prop where
  rinv : RInv g.nodes
  nodup : g.nodes.seq.Nodup
  ekeys : g.edges.keys.Nodup
  edom : ∀ a, (g.edges.get a).isSome ↔ a < g.size
  erange : ∀ a s, g.edges.get a = some s → ∀ b ∈ s, b < g.size

theorem GInv.empty : GInv G.empty :=
  ⟨RInv.empty, by simp [G.empty, RList.empty], by simp [G.empty, AL.keys],
   by simp [G.empty, G.size, RList.empty], by simp [G.empty]⟩

theorem GInv.contains_iff {g : G} (h : GInv g) (x : Nat) : g.contains x = true ↔ x ∈ g.nodes.seq :=
  h.rinv.contains_iff x

/-- positions are unique -/
theorem GInv.pos_unique {g : G} (h : GInv g) {a b x : Nat}
    (ha : g.nodes.seq[a]? = some x) (hb : g.nodes.seq[b]? = some x) : a = b := by
  have ha' := List.getElem?_eq_some_iff.1 ha
  have hb' := List.getElem?_eq_some_iff.1 hb
  obtain ⟨ha1, ha2⟩ := ha'
  obtain ⟨hb1, hb2⟩ := hb'
  exact (List.Nodup.getElem_inj_iff h.nodup).1 (ha2.trans hb2.symm)

theorem GInv.indexOf_spec {g : G} (h : GInv g) {x : Nat} (hx : x ∈ g.nodes.seq) :
    ∃ i, g.nodes.indexOf x = .ok i ∧ g.nodes.seq[i]? = some x := by
  have hs := rlist_getIndex_spec h.rinv x
  unfold RList.getIndex at hs
  unfold RList.indexOf
  cases hg : g.nodes.index.get x with
  | none => simp [hg] at hs; exact absurd hx hs
  | some l =>
    cases l with
    | nil => exact absurd hg (h.rinv.nonempty x)
    | cons i t => simp [hg] at hs; exact ⟨i, rfl, hs.1⟩

theorem GInv.indexOf_absent {g : G} (h : GInv g) {x : Nat} (hx : x ∉ g.nodes.seq) :
    g.nodes.indexOf x = .error .valueError := by
  have hs := (rlist_getIndex_spec h.rinv x).2.2 hx
  unfold RList.getIndex at hs
  unfold RList.indexOf
  cases hg : g.nodes.index.get x with
  | none => rfl
  | some l =>
    cases l with
    | nil => rfl
    | cons i t => simp [hg] at hs

/-- the node set of the denoted graph -/
def G.Node (g : G) (x : Nat) : Prop := x ∈ g.nodes.seq

theorem addNode_refines {g : G} (h : GInv g) (x : Nat) :
    GInv (g.addNode x) ∧ (∀ z, (g.addNode x).Node z ↔ g.Node z ∨ z = x) ∧
    (∀ u w, (g.addNode x).Edge u w ↔ g.Edge u w) := by
  unfold G.addNode
  by_cases hc : g.contains x = true
  · have hx := (h.contains_iff x).1 hc
    rw [if_pos hc]
    refine ⟨h, ?_, fun _ _ => Iff.rfl⟩
    intro z; unfold G.Node; constructor
    · exact Or.inl
    · rintro (hz | rfl); exact hz; exact hx
  · have hx : x ∉ g.nodes.seq := fun hx => hc ((h.contains_iff x).2 hx)
    rw [if_neg hc]
    have hsz : ∀ a s, g.edges.get a = some s → a < g.size := by
      intro a s hs; exact (h.edom a).1 (by simp [hs])
    refine ⟨⟨h.rinv.append x, ?_, AL.keys_set_nodup _ _ _ h.ekeys, ?_, ?_⟩, ?_, ?_⟩
    · simp only [RList.append]; rw [List.nodup_append]
      refine ⟨h.nodup, by simp, ?_⟩
      intro a ha b hb; simp at hb; subst hb; intro e; subst e; exact hx ha
    · intro a
      simp only [AL.get_set, G.size, RList.append, List.length_append, List.length_singleton]
      have := h.edom a; unfold G.size at this
      split
      · rename_i e; subst e; simp
      · rw [this]; omega
    · intro a s
      simp only [AL.get_set, G.size, RList.append, List.length_append, List.length_singleton]
      split
      · intro e; injection e with e; subst e; simp
      · intro hs b hb; have := h.erange a s hs b hb; unfold G.size at this; omega
    · intro z; simp [G.Node, RList.append]
    · intro u w
      simp only [G.Edge, RList.append, getElem?_snoc_eq_some, AL.get_set]
      constructor
      · rintro ⟨a, b, s, ha, hb, hs, hbs⟩
        split at hs
        · injection hs with hs; subst hs; simp at hbs
        · rename_i hne
          have hblt := h.erange a s hs b hbs
          unfold G.size at hne hblt
          refine ⟨a, b, s, ?_, ?_, hs, hbs⟩
          · rcases ha with ha | ⟨e, _⟩; exact ha; exact absurd e hne
          · rcases hb with hb | ⟨e, _⟩; exact hb; omega
      · rintro ⟨a, b, s, ha, hb, hs, hbs⟩
        have := hsz a s hs
        refine ⟨a, b, s, Or.inl ha, Or.inl hb, ?_, hbs⟩
        have : a ≠ g.size := by omega
        simp [this, hs]

theorem mem_sadd (s : List Nat) (j b : Nat) : b ∈ sadd s j ↔ b ∈ s ∨ b = j := by
  unfold sadd; split
  · constructor
    · exact Or.inl
    · rintro (h | rfl); exact h; assumption
  · simp

theorem GInv.edgesAt_ok {g : G} (h : GInv g) {i : Nat} (hi : i < g.size) :
    ∃ s, g.edgesAt i = .ok s ∧ g.edges.get i = some s := by
  have := (h.edom i).2 hi
  unfold G.edgesAt
  cases hg : g.edges.get i with
  | none => simp [hg] at this
  | some s => exact ⟨s, rfl, rfl⟩

theorem lt_of_getElem?_some {l : List Nat} {i x : Nat} (h : l[i]? = some x) : i < l.length :=
  (List.getElem?_eq_some_iff.1 h).1

/-- replacing the set of position `i` -/
theorem setEdges_refines {g : G} (h : GInv g) {i x : Nat} (t : List Nat)
    (hi : g.nodes.seq[i]? = some x) (ht : ∀ b ∈ t, b < g.size) :
    GInv { g with edges := g.edges.set i t } ∧
    (∀ u w, G.Edge { g with edges := g.edges.set i t } u w ↔
      (u ≠ x ∧ g.Edge u w) ∨ (u = x ∧ ∃ b, b ∈ t ∧ g.nodes.seq[b]? = some w)) := by
  have hilt : i < g.size := lt_of_getElem?_some hi
  refine ⟨⟨h.rinv, h.nodup, AL.keys_set_nodup _ _ _ h.ekeys, ?_, ?_⟩, ?_⟩
  · intro a; simp only [AL.get_set, G.size]; split
    · rename_i e; subst e; simpa [G.size] using hilt
    · exact h.edom a
  · intro a s; simp only [AL.get_set]; split
    · intro e; injection e with e; subst e; exact ht
    · exact h.erange a s
  · intro u w
    simp only [G.Edge, AL.get_set]
    constructor
    · rintro ⟨a, b, s, ha, hb, hs, hbs⟩
      split at hs
      · rename_i e; subst e
        injection hs with hs; subst hs
        rw [hi] at ha; injection ha with ha
        exact Or.inr ⟨ha.symm, b, hbs, hb⟩
      · rename_i hne
        left
        refine ⟨?_, a, b, s, ha, hb, hs, hbs⟩
        intro e; subst e
        exact hne (h.pos_unique ha hi)
    · rintro (⟨hne, a, b, s, ha, hb, hs, hbs⟩ | ⟨rfl, b, hb, hw⟩)
      · refine ⟨a, b, s, ha, hb, ?_, hbs⟩
        have : a ≠ i := by intro e; subst e; rw [hi] at ha; injection ha with ha; exact hne ha.symm
        simp [this, hs]
      · exact ⟨i, b, t, hi, hw, by simp, hb⟩

theorem addDep_refines {g : G} (h : GInv g) (x y : Nat) :
    ∃ g', g.addDep x y = .ok g' ∧ GInv g' ∧ (∀ z, g'.Node z ↔ g.Node z ∨ z = x ∨ z = y) ∧
    (∀ u w, g'.Edge u w ↔ g.Edge u w ∨ (u = x ∧ w = y)) := by
  obtain ⟨h1, n1, e1⟩ := addNode_refines h x
  obtain ⟨h2, n2, e2⟩ := addNode_refines h1 y
  generalize hg2 : (g.addNode x).addNode y = g2 at h2 n2 e2
  have hx : x ∈ g2.nodes.seq := (n2 x).2 (Or.inl ((n1 x).2 (Or.inr rfl)))
  have hy : y ∈ g2.nodes.seq := (n2 y).2 (Or.inr rfl)
  obtain ⟨i, hi, hix⟩ := h2.indexOf_spec hx
  obtain ⟨j, hj, hjy⟩ := h2.indexOf_spec hy
  obtain ⟨s, hs, hgs⟩ := h2.edgesAt_ok (lt_of_getElem?_some hix)
  have hjlt : j < g2.size := lt_of_getElem?_some hjy
  have ht : ∀ b ∈ sadd s j, b < g2.size := by
    intro b hb; rcases (mem_sadd s j b).1 hb with hb | rfl
    · exact h2.erange i s hgs b hb
    · exact hjlt
  obtain ⟨h3, e3⟩ := setEdges_refines h2 (sadd s j) hix ht
  refine ⟨{ g2 with edges := g2.edges.set i (sadd s j) }, ?_, h3, ?_, ?_⟩
  · simp [G.addDep, hg2, hi, hj, hs, bind, Except.bind]
  · intro z; show z ∈ g2.nodes.seq ↔ _
    have := n2 z; unfold G.Node at this n1; rw [this, n1]; tauto
  · intro u w
    have e12 : ∀ u w, g2.Edge u w ↔ g.Edge u w := fun u w => (e2 u w).trans (e1 u w)
    rw [e3, ← e12]
    constructor
    · rintro (⟨hne, he⟩ | ⟨rfl, b, hb, hw⟩)
      · exact Or.inl he
      · rcases (mem_sadd s j b).1 hb with hb | rfl
        · exact Or.inl ⟨i, b, s, hix, hw, hgs, hb⟩
        · right; refine ⟨rfl, ?_⟩; rw [hjy] at hw; injection hw with hw; exact hw.symm
    · rintro (he | ⟨rfl, rfl⟩)
      · by_cases hu : u = x
        · subst hu
          obtain ⟨a, b, s', ha, hb, hs', hbs⟩ := he
          have := h2.pos_unique ha hix; subst this
          rw [hgs] at hs'; injection hs' with hs'; subst hs'
          exact Or.inr ⟨rfl, b, (mem_sadd _ _ _).2 (Or.inl hbs), hb⟩
        · exact Or.inl ⟨hu, he⟩
      · exact Or.inr ⟨rfl, j, (mem_sadd _ _ _).2 (Or.inr rfl), hjy⟩

theorem Edge_iff_at {g : G} (h : GInv g) {i j x y : Nat} {s : List Nat}
    (hi : g.nodes.seq[i]? = some x) (hj : g.nodes.seq[j]? = some y) (hs : g.edges.get i = some s) :
    g.Edge x y ↔ j ∈ s := by
  constructor
  · rintro ⟨a, b, s', ha, hb, hs', hbs⟩
    have := h.pos_unique ha hi; subst this
    have := h.pos_unique hb hj; subst this
    rw [hs] at hs'; injection hs' with hs'; subst hs'; exact hbs
  · intro hjs; exact ⟨i, j, s, hi, hj, hs, hjs⟩

theorem removeDep_refines {g : G} (h : GInv g) (x y : Nat) :
    (¬ (g.Node x ∧ g.Node y) → g.removeDep x y = .error .valueError) ∧
    (g.Node x → g.Node y → ¬ g.Edge x y → g.removeDep x y = .error .keyError) ∧
    (g.Edge x y → ∃ g', g.removeDep x y = .ok g' ∧ GInv g' ∧ (∀ z, g'.Node z ↔ g.Node z) ∧
      (∀ u w, g'.Edge u w ↔ g.Edge u w ∧ ¬ (u = x ∧ w = y))) := by
  have main : g.Node x → g.Node y → ∃ i j s, g.nodes.indexOf x = .ok i ∧ g.nodes.indexOf y = .ok j ∧
      g.edgesAt i = .ok s ∧ g.nodes.seq[i]? = some x ∧ g.nodes.seq[j]? = some y ∧ g.edges.get i = some s := by
    intro hx hy
    obtain ⟨i, hi, hix⟩ := h.indexOf_spec hx
    obtain ⟨j, hj, hjy⟩ := h.indexOf_spec hy
    obtain ⟨s, hs, hgs⟩ := h.edgesAt_ok (lt_of_getElem?_some hix)
    exact ⟨i, j, s, hi, hj, hs, hix, hjy, hgs⟩
  refine ⟨?_, ?_, ?_⟩
  · intro hn
    by_cases hx : g.Node x
    · have hy : ¬ g.Node y := fun hy => hn ⟨hx, hy⟩
      obtain ⟨i, hi, _⟩ := h.indexOf_spec hx
      simp [G.removeDep, hi, h.indexOf_absent hy, bind, Except.bind]
    · simp [G.removeDep, h.indexOf_absent hx, bind, Except.bind]
  · intro hx hy he
    obtain ⟨i, j, s, hi, hj, hs, hix, hjy, hgs⟩ := main hx hy
    have : j ∉ s := fun hjs => he ((Edge_iff_at h hix hjy hgs).2 hjs)
    simp [G.removeDep, hi, hj, hs, this, bind, Except.bind]
  · intro he
    have hx : g.Node x := by obtain ⟨a, b, s, ha, _⟩ := he; exact List.mem_of_getElem? ha
    have hy : g.Node y := by obtain ⟨a, b, s, _, hb, _⟩ := he; exact List.mem_of_getElem? hb
    obtain ⟨i, j, s, hi, hj, hs, hix, hjy, hgs⟩ := main hx hy
    have hjs : j ∈ s := (Edge_iff_at h hix hjy hgs).1 he
    have ht : ∀ b ∈ s.filter (· ≠ j), b < g.size := by
      intro b hb; exact h.erange i s hgs b (List.mem_filter.1 hb).1
    obtain ⟨h3, e3⟩ := setEdges_refines h (s.filter (· ≠ j)) hix ht
    refine ⟨_, by simp [G.removeDep, hi, hj, hs, hjs, bind, Except.bind], h3, fun _ => Iff.rfl, ?_⟩
    intro u w
    rw [e3]
    constructor
    · rintro (⟨hne, hE⟩ | ⟨rfl, b, hb, hw⟩)
      · exact ⟨hE, fun e => hne e.1⟩
      · have hb' := List.mem_filter.1 hb
        refine ⟨⟨i, b, s, hix, hw, hgs, hb'.1⟩, ?_⟩
        rintro ⟨_, rfl⟩
        have := h.pos_unique hw hjy
        simp [this] at hb'
    · rintro ⟨hE, hne⟩
      by_cases hu : u = x
      · subst hu
        right; refine ⟨rfl, ?_⟩
        obtain ⟨a, b, s', ha, hb, hs', hbs⟩ := hE
        have := h.pos_unique ha hix; subst this
        rw [hgs] at hs'; injection hs' with hs'; subst hs'
        refine ⟨b, List.mem_filter.2 ⟨hbs, ?_⟩, hb⟩
        simp; intro e; subst e
        rw [hjy] at hb; injection hb with hb; exact hne ⟨rfl, hb.symm⟩
      · exact Or.inl ⟨hu, hE⟩


theorem swapper_invol (i l a : Nat) : swapper i l (swapper i l a) = a := by
  unfold swapper; split <;> split <;> (try split) <;> omega

def rmF (i last : Nat) (vals : List Nat) : List Nat :=
  ((vals.map (swapper i last)).eraseDups).filter (· ≠ last)

theorem mem_rmF (i last : Nat) (vals : List Nat) (b : Nat) :
    b ∈ rmF i last vals ↔ b ≠ last ∧ swapper i last b ∈ vals := by
  simp only [rmF, List.mem_filter, List.mem_eraseDups, List.mem_map]
  constructor
  · rintro ⟨⟨b0, hb0, rfl⟩, hne⟩
    refine ⟨by simpa using hne, ?_⟩
    rw [swapper_invol]; exact hb0
  · rintro ⟨hne, hb⟩
    exact ⟨⟨_, hb, swapper_invol i last b⟩, by simpa using hne⟩

theorem removeNode_absent {g : G} (h : GInv g) {x : Nat} (hx : ¬ g.Node x) : g.removeNode x = .ok g := by
  have := (rlist_getIndex_spec h.rinv x).2.2 hx
  simp [G.removeNode, this]

theorem removeNode_present {g : G} (h : GInv g) {x : Nat} (hx : g.Node x) :
    ∃ g', g.removeNode x = .ok g' ∧ GInv g' ∧ (∀ z, g'.Node z ↔ g.Node z ∧ z ≠ x) ∧
      (∀ u w, g'.Edge u w ↔ g.Edge u w ∧ u ≠ x ∧ w ≠ x) := by
  -- position of x
  have hgi : ∃ i, g.nodes.getIndex x = some i := by
    cases hg : g.nodes.getIndex x with
    | none => exact absurd hx ((rlist_getIndex_spec h.rinv x).2.1 hg)
    | some i => exact ⟨i, rfl⟩
  obtain ⟨i, hgi⟩ := hgi
  have hix : g.nodes.seq[i]? = some x := (rlist_getIndex_spec h.rinv x).1 i hgi
  have hin : i < g.nodes.seq.length := lt_of_getElem?_some hix
  generalize hlast : g.size - 1 = last
  have hn : g.nodes.seq.length = last + 1 := by unfold G.size at hlast; omega
  have hll : last < g.nodes.seq.length := by omega
  obtain ⟨r1, hswap, hs1, hr1⟩ := RList.swap_ok h.rinv i last hin hll
  obtain ⟨ei, hei, hgei⟩ := h.edgesAt_ok (i := i) (by unfold G.size; exact hin)
  obtain ⟨el, hel, hgel⟩ := h.edgesAt_ok (i := last) (by unfold G.size; exact hll)
  have hl1 : last < r1.seq.length := by rw [hs1]; simpa using hll
  obtain ⟨r2, hdel, hs2, hr2⟩ := RList.delItem_ok hr1 last hl1
  let σ := swapper i last
  have hσ : ∀ a, σ a = swapper i last a := fun _ => rfl
  let e4 : AL := ((((g.edges.set i el).set last ei).mapVals fun vals => (vals.map (swapper i last)).eraseDups).erase last).mapVals
      fun vals => vals.filter (· ≠ last)
  have hres : g.removeNode x = .ok ⟨r2, e4⟩ := by
    simp [G.removeNode, hgi, hlast, hswap, hei, hel, hdel, bind, Except.bind, e4]
  -- (E): the new edge dictionary
  have hE : ∀ a, e4.get a = if a = last then none else (g.edges.get (σ a)).map (rmF i last) := by
    intro a
    simp only [e4, AL.get_mapVals, AL.get_erase, AL.get_set]
    by_cases hal : a = last
    · simp [hal]
    · simp only [hal, if_false]
      by_cases hai : a = i
      · subst hai; simp [hσ, swapper, hgel, rmF]
      · simp [hai, hσ, swapper, hal, rmF]
        cases g.edges.get a <;> simp [rmF]
  -- (S): the new sequence
  have hS : ∀ a, r2.seq[a]? = if a < last then g.nodes.seq[σ a]? else none := by
    intro a
    rw [hs2, List.getElem?_eraseIdx, hs1]
    by_cases hal : a < last
    · simp only [hal, if_true, List.getElem?_set, List.length_set]
      have h1 : ¬ last = a := by omega
      simp only [h1, if_false]
      by_cases hai : i = a
      · subst hai; simp [hσ, swapper, hin]
      · have : ¬ a = i := fun e => hai e.symm
        have h3 : ¬ a = last := by omega
        simp [hai, hσ, swapper, this, h3]
    · simp only [hal, if_false, List.getElem?_set, List.length_set]
      have h1 : ¬ last = a + 1 := by omega
      have h2 : ¬ i = a + 1 := by omega
      simp [h1, h2]; omega
  have hsz2 : r2.seq.length = last := by rw [hs2, List.length_eraseIdx, hs1]; simp [hll]; omega
  -- arithmetic of σ
  have σ1 : ∀ a, a < last → σ a < last + 1 ∧ σ a ≠ i := by
    intro a ha; simp only [hσ, swapper]; split <;> (try split) <;> omega
  have σ2 : ∀ a', a' < last + 1 → a' ≠ i → σ a' < last := by
    intro a ha hne; simp only [hσ, swapper]; split <;> (try split) <;> omega
  have σ3 : ∀ a, σ (σ a) = a := fun a => swapper_invol i last a
  have σ4 : ∀ a, last < a → σ a = a := by
    intro a ha; simp only [hσ, swapper]; split <;> (try split) <;> omega
  have hG' : GInv ⟨r2, e4⟩ := by
    refine ⟨hr2, ?_, ?_, ?_, ?_⟩
    · show r2.seq.Nodup
      rw [List.nodup_iff_getElem?_ne_getElem?]
      intro a b hab hb
      rw [hsz2] at hb
      rw [hS a, hS b]
      have ha : a < last := by omega
      simp only [ha, hb, if_true]
      intro e
      obtain ⟨v, hv⟩ : ∃ v, g.nodes.seq[σ a]? = some v := by
        have := (σ1 a ha).1
        exact ⟨g.nodes.seq[σ a]'(by omega), by simp⟩
      have := h.pos_unique hv (e ▸ hv)
      have := congrArg σ this
      rw [σ3, σ3] at this; omega
    · show e4.keys.Nodup
      simp only [e4, AL.keys_mapVals]
      apply AL.keys_erase_nodup
      rw [AL.keys_mapVals]
      exact AL.keys_set_nodup _ _ _ (AL.keys_set_nodup _ _ _ h.ekeys)
    · intro a
      show (e4.get a).isSome ↔ a < r2.seq.length
      rw [hE, hsz2]
      by_cases hal : a = last
      · simp [hal]
      · simp only [hal, if_false, Option.isSome_map]
        rw [h.edom]; unfold G.size; rw [hn]
        by_cases hlt : a < last
        · have := (σ1 a hlt).1; constructor <;> intro <;> omega
        · have : σ a = a := σ4 a (by omega)
          rw [this]; omega
    · intro a s hs b hb
      show b < r2.seq.length
      rw [hsz2]
      rw [hE] at hs
      by_cases hal : a = last
      · simp [hal] at hs
      · simp only [hal, if_false] at hs
        cases hg : g.edges.get (σ a) with
        | none => simp [hg] at hs
        | some vals =>
          simp [hg] at hs; subst hs
          have := (mem_rmF i last vals b).1 hb
          have hlt := h.erange _ _ hg _ this.2
          unfold G.size at hlt
          by_contra hge
          have : σ b = b := σ4 b (by omega)
          rw [← hσ, this] at hlt; omega
  refine ⟨⟨r2, e4⟩, hres, hG', ?_, ?_⟩
  · intro z
    show z ∈ r2.seq ↔ z ∈ g.nodes.seq ∧ z ≠ x
    constructor
    · intro hz
      obtain ⟨a, ha⟩ := List.getElem?_of_mem hz
      rw [hS] at ha
      by_cases hlt : a < last
      · simp only [hlt, if_true] at ha
        refine ⟨List.mem_of_getElem? ha, ?_⟩
        intro e; subst e
        exact (σ1 a hlt).2 (h.pos_unique ha hix)
      · simp [hlt] at ha
    · rintro ⟨hz, hne⟩
      obtain ⟨a', ha'⟩ := List.getElem?_of_mem hz
      have hlt' := lt_of_getElem?_some ha'
      have hnei : a' ≠ i := by intro e; subst e; rw [hix] at ha'; injection ha' with e; exact hne e.symm
      have := σ2 a' (by omega) hnei
      apply List.mem_of_getElem? (i := σ a')
      rw [hS]; simp only [this, if_true, σ3]; exact ha'
  · intro u w
    constructor
    · rintro ⟨a, b, s, ha, hb, hs, hbs⟩
      change r2.seq[a]? = some u at ha
      change r2.seq[b]? = some w at hb
      change e4.get a = some s at hs
      have halt : a < last := by have := lt_of_getElem?_some ha; omega
      have hblt : b < last := by have := lt_of_getElem?_some hb; omega
      rw [hS] at ha hb
      simp only [halt, hblt, if_true] at ha hb
      rw [hE] at hs
      have hal : a ≠ last := by omega
      simp only [hal, if_false] at hs
      cases hg : g.edges.get (σ a) with
      | none => simp [hg] at hs
      | some vals =>
        simp [hg] at hs; subst hs
        have hm := (mem_rmF i last vals b).1 hbs
        refine ⟨⟨σ a, σ b, vals, ha, hb, hg, hm.2⟩, ?_, ?_⟩
        · intro e; subst e; exact (σ1 a halt).2 (h.pos_unique ha hix)
        · intro e; subst e; exact (σ1 b hblt).2 (h.pos_unique hb hix)
    · rintro ⟨⟨a', b', vals, ha', hb', hg, hbv⟩, hux, hwx⟩
      have hane : a' ≠ i := by intro e; subst e; rw [hix] at ha'; injection ha' with e; exact hux e.symm
      have hbne : b' ≠ i := by intro e; subst e; rw [hix] at hb'; injection hb' with e; exact hwx e.symm
      have halt := σ2 a' (by have := lt_of_getElem?_some ha'; omega) hane
      have hblt := σ2 b' (by have := lt_of_getElem?_some hb'; omega) hbne
      refine ⟨σ a', σ b', rmF i last vals, ?_, ?_, ?_, ?_⟩
      · show r2.seq[σ a']? = some u
        rw [hS]; simp only [halt, if_true, σ3]; exact ha'
      · show r2.seq[σ b']? = some w
        rw [hS]; simp only [hblt, if_true, σ3]; exact hb'
      · show e4.get (σ a') = _
        rw [hE]; have : σ a' ≠ last := by omega
        simp only [this, if_false, σ3, hg, Option.map_some]
      · rw [mem_rmF]; refine ⟨by omega, ?_⟩
        rw [← hσ, σ3]; exact hbv

theorem removeNode_refines {g : G} (h : GInv g) (x : Nat) :
    ∃ g', g.removeNode x = .ok g' ∧ GInv g' ∧ (∀ z, g'.Node z ↔ g.Node z ∧ z ≠ x) ∧
      (∀ u w, g'.Edge u w ↔ g.Edge u w ∧ u ≠ x ∧ w ≠ x) := by
  by_cases hx : g.Node x
  · exact removeNode_present h hx
  · refine ⟨g, removeNode_absent h hx, h, ?_, ?_⟩
    · intro z; constructor
      · intro hz; exact ⟨hz, fun e => hx (e ▸ hz)⟩
      · exact fun hz => hz.1
    · intro u w; constructor
      · intro he
        refine ⟨he, ?_, ?_⟩
        · rintro rfl; obtain ⟨a, _, _, ha, _⟩ := he; exact hx (List.mem_of_getElem? ha)
        · rintro rfl; obtain ⟨_, b, _, _, hb, _⟩ := he; exact hx (List.mem_of_getElem? hb)
      · exact fun he => he.1

end DG
